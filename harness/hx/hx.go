// Package hx: shared plumbing of the verification harnesses (line protocol, PRNG, per-op guards).
package hx

import (
	"bufio"
	"encoding/hex"
	"flag"
	"fmt"
	"os"
	"runtime/debug"
	"sort"
	"strconv"
	"strings"
	"sync"
	"time"
)

// Rng is splitmix64; every random choice of a run derives from one state (VERIF_SEED).
type Rng struct{ s uint64 }

func NewRng(seed uint64) *Rng {
	// hash the seed first: with a linear state, adjacent seeds would give the same stream shifted by one draw
	z := seed + 0x9E3779B97F4A7C15
	z = (z ^ (z >> 30)) * 0xBF58476D1CE4E5B9
	z = (z ^ (z >> 27)) * 0x94D049BB133111EB
	return &Rng{s: z ^ (z >> 31)}
}
func (r *Rng) U64() uint64 {
	r.s += 0x9E3779B97F4A7C15
	z := r.s
	z = (z ^ (z >> 30)) * 0xBF58476D1CE4E5B9
	z = (z ^ (z >> 27)) * 0x94D049BB133111EB
	return z ^ (z >> 31)
}
func (r *Rng) Intn(n int) int {
	if n <= 0 {
		return 0
	}
	return int(r.U64() % uint64(n))
}
func (r *Rng) Range(lo, hi int64) int64 { // inclusive
	if hi <= lo {
		return lo
	}
	return lo + int64(r.U64()%uint64(hi-lo+1))
}
func (r *Rng) Bool() bool        { return r.U64()&1 == 1 }
func (r *Rng) Chance(p int) bool { return r.Intn(100) < p }
func (r *Rng) Bytes(n int) []byte {
	b := make([]byte, n)
	for i := range b {
		b[i] = byte(r.U64())
	}
	return b
}
func Pick[T any](r *Rng, xs []T) T { return xs[r.Intn(len(xs))] }

// Hex encodes bytes for the line protocol: "." is empty, "-" is nil.
func Hex(b []byte) string {
	if b == nil {
		return "-"
	}
	if len(b) == 0 {
		return "."
	}
	return hex.EncodeToString(b)
}
func UnHex(s string) []byte {
	if s == "-" {
		return nil
	}
	if s == "." {
		return []byte{}
	}
	b, err := hex.DecodeString(s)
	if err != nil {
		panic("bad hex token " + s)
	}
	return b
}
func Atoi(s string) int64 {
	n, err := strconv.ParseInt(s, 10, 64)
	if err != nil {
		panic("bad int token " + s)
	}
	return n
}
func Itoa(n int64) string { return strconv.FormatInt(n, 10) }
func B(b bool) string {
	if b {
		return "1"
	}
	return "0"
}

// Mode parsing: `<bin> gen --seed S --tier T [extra...]` or `<bin> run`.
type Args struct {
	Mode  string
	Seed  uint64
	Tier  string
	Extra map[string]string
}

func Parse() Args {
	if len(os.Args) < 2 {
		fmt.Fprintln(os.Stderr, "usage: gen --seed S --tier T | run")
		os.Exit(2)
	}
	a := Args{Mode: os.Args[1], Extra: map[string]string{}}
	fs := flag.NewFlagSet("h", flag.ExitOnError)
	seed := fs.Uint64("seed", 1, "")
	tier := fs.String("tier", "quick", "")
	n := fs.Int("n", 0, "")
	mode := fs.String("mode", "", "")
	fs.Parse(os.Args[2:])
	a.Seed, a.Tier = *seed, *tier
	if *n != 0 {
		a.Extra["n"] = strconv.Itoa(*n)
	}
	if *mode != "" {
		a.Extra["mode"] = *mode
	}
	return a
}
func (a Args) N(quick, thorough int) int {
	if v, ok := a.Extra["n"]; ok {
		n, _ := strconv.Atoi(v)
		return n
	}
	if a.Tier == "thorough" {
		return thorough
	}
	return quick
}

var Out = bufio.NewWriterSize(os.Stdout, 1<<16)

func Emit(format string, a ...any) { fmt.Fprintf(Out, format+"\n", a...) }
func Flush()                       { Out.Flush() }

// Stat lines (`#stat name value`) carry the measured input distribution into the evidence.
type Stats map[string]int

var statsMu sync.Mutex

func (s Stats) Inc(k string)        { statsMu.Lock(); s[k]++; statsMu.Unlock() }
func (s Stats) Add(k string, n int) { statsMu.Lock(); s[k] += n; statsMu.Unlock() }
func (s Stats) Dump() {
	statsMu.Lock()
	defer statsMu.Unlock()
	keys := make([]string, 0, len(s))
	for k := range s {
		keys = append(keys, k)
	}
	sort.Strings(keys)
	for _, k := range keys {
		Emit("#stat %s %d", k, s[k])
	}
}

// St is the global distribution counter; RunLines dumps it as `#stat` lines after the last op.
var St = Stats{}

// RunLines feeds every op line of stdin to f and prints `op | result`. A panic in f is a result
// ("panic:<first line>"), a call exceeding the deadline is "hang" (the goroutine is abandoned).
func RunLines(deadline time.Duration, f func(toks []string) string) {
	sc := bufio.NewScanner(os.Stdin)
	sc.Buffer(make([]byte, 1<<20), 1<<28)
	hangs := 0
	for sc.Scan() {
		line := strings.TrimSpace(sc.Text())
		if line == "" || strings.HasPrefix(line, "#") {
			continue
		}
		toks := strings.Fields(line)
		// an abandoned goroutine that spins keeps a core busy: after a few hangs the deadline shrinks, and after
		// twenty the remaining ops are not executed at all (the hangs already are concrete failing inputs)
		d := deadline
		if hangs >= 3 && d > 3*time.Second {
			d = 3 * time.Second
		}
		res := "not-run-after-20-hangs"
		if hangs < 20 {
			res = Guard(d, func() string { return f(toks) })
		}
		if res == "hang" {
			hangs++
		}
		Emit("%s | %s", line, res)
		Flush()
	}
	St.Dump()
	Flush()
}

func Guard(deadline time.Duration, f func() string) string {
	ch := make(chan string, 1)
	go func() {
		defer func() {
			if r := recover(); r != nil {
				msg := fmt.Sprint(r)
				if i := strings.IndexByte(msg, '\n'); i >= 0 {
					msg = msg[:i]
				}
				_ = debug.Stack
				ch <- "panic:" + strings.ReplaceAll(msg, " ", "_")
			}
		}()
		ch <- f()
	}()
	if deadline <= 0 {
		return <-ch
	}
	select {
	case r := <-ch:
		return r
	case <-time.After(deadline):
		return "hang"
	}
}
