module verifharness

go 1.25.0

require (
	github.com/klauspost/compress v1.18.7
	github.com/pierrec/lz4/v4 v4.1.26
	github.com/twmb/franz-go v1.21.1
	github.com/twmb/franz-go/pkg/kadm v1.18.0
	github.com/twmb/franz-go/pkg/kfake v0.0.0
	github.com/twmb/franz-go/pkg/kmsg v1.13.1
	github.com/twmb/franz-go/pkg/sr v0.0.0
	github.com/twmb/franz-go/plugin/kotel v0.0.0
	go.opentelemetry.io/otel v1.43.0
	go.opentelemetry.io/otel/sdk v1.34.0
	go.opentelemetry.io/otel/trace v1.43.0
)

require (
	github.com/cespare/xxhash/v2 v2.3.0 // indirect
	github.com/go-logr/logr v1.4.3 // indirect
	github.com/go-logr/stdr v1.2.2 // indirect
	github.com/google/uuid v1.6.0 // indirect
	go.opentelemetry.io/auto/sdk v1.2.1 // indirect
	go.opentelemetry.io/otel/metric v1.43.0 // indirect
	golang.org/x/sys v0.29.0 // indirect
)

replace (
	github.com/twmb/franz-go => /repo
	github.com/twmb/franz-go/pkg/kadm => /repo/pkg/kadm
	github.com/twmb/franz-go/pkg/kfake => /repo/pkg/kfake
	github.com/twmb/franz-go/pkg/kmsg => /repo/pkg/kmsg
	github.com/twmb/franz-go/pkg/sr => /repo/pkg/sr
	github.com/twmb/franz-go/plugin/kotel => /repo/plugin/kotel
)
