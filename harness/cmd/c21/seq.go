// seq cases of the C21 harness: ONE client whose broker objects see the broker's ApiVersions table CHANGE
// between connections (rolling downgrade / upgrade, replaced broker).
//
// kgo keeps one *brokerVersions per broker object (broker.versions), re-stored by the ApiVersions exchange of
// every new connection (brokerCxn.init -> requestAPIVersions -> storeVersions) and read by the version clamp
// of every request of that broker object whichever of its five connections (normal, produce, fetch, group,
// slow) the request uses. A seq case scripts the table the broker answers with per step, cuts connections,
// and sends requests that land on new connections (a reconnect after a cut, or the first use of another
// connection class) and on old ones.
//
//	op:   seq <umax> <umin> <step>...
//	        umax   nil (kgo.MaxVersions(nil)) | def (client default) | k<key>.<n> (Stable with key=n) | x<key> (Stable minus key)
//	        umin   nil | k<key>.<n>
//	        step   tbl:<ov>        from now on ApiVersions is answered with kfake's own table changed by <ov>:
//	                               `-` | comma list of `<key>.<min>.<max>` (range rewritten / key added), `<key>.x` (key
//	                               removed), `+<key>.<min>.<max>` (one more element appended: a repeated key)
//	               req:<kind>      Broker.Request on the seed broker object (straight into broker.handleReq)
//	               reqn:<kind>     Broker.Request on the broker object of node 0 (cl.Broker(0))
//	               cut:all         every open connection is closed by the broker
//	               cutnext:<kind>  the next frame of that kind is not answered: its connection is closed instead
//	               flow:produce    one record through ProduceSync
//	               flow:poll       one PollFetches of a direct consumer of topic t
//	out:  events in the order the broker side saw them
//	        A:<obj>:<conn>:<table>   a connection-setup ApiVersions answer with a key table was delivered on connection
//	                                 <conn> of broker object <obj> (s seed, n node 0); table = `key.min.max,…` as on the wire
//	        W:<obj>:<conn>:<key>:<version>:<cmax>:<umax>:<umin>:<ct>:<step>
//	                                 a request frame reached the broker on that connection; umax/umin as the client was
//	                                 configured for the key (nil | miss | n); ct = ordinal (0-based, among the A events
//	                                 of the line) of the table advertised on THAT connection (`-` none)
//	        E:<obj>:<key>:<cmax>:<umax>:<umin>:<class>:<step>
//	                                 a req/reqn step failed with a version error and wrote nothing (tooold | unknownkey | usermin)
//	        X:<step>                 a req/reqn step ended in another error with nothing written (not judged)
package main

import (
	"context"
	"encoding/binary"
	"errors"
	"fmt"
	"net"
	"os"
	"strconv"
	"strings"
	"time"

	"github.com/twmb/franz-go/pkg/kgo"
	"github.com/twmb/franz-go/pkg/kmsg"
	"github.com/twmb/franz-go/pkg/kversion"
	"verifharness/hx"
)

// ---------------------------------------------------------------- request kinds of seq cases

type seqKind struct {
	name  string
	key   int16
	class string // the per-broker connection loadConnection picks for it
	mk    func() kmsg.Request
}

var seqKinds []seqKind

func init() {
	class := map[string]string{"createtopics": "slow"}
	for _, n := range []string{"metadata", "listoffsets", "findcoord1", "offsetfetch1", "initpid", "describeconfigs", "createtopics",
		"listgroups", "describegroups", "describecluster"} {
		k := kindByName(n)
		c := class[n]
		if c == "" {
			c = "normal"
		}
		seqKinds = append(seqKinds, seqKind{n, k.key, c, k.mk})
	}
	seqKinds = append(seqKinds,
		seqKind{"produce", 0, "produce", func() kmsg.Request {
			r := kmsg.NewPtrProduceRequest()
			r.Acks = -1
			r.TimeoutMillis = 1000
			return r
		}},
		seqKind{"fetch", 1, "fetch", func() kmsg.Request {
			r := kmsg.NewPtrFetchRequest()
			r.ReplicaID = -1
			r.MaxWaitMillis = 10
			r.MaxBytes = 1 << 20
			return r
		}},
		seqKind{"joingroup", 11, "group", func() kmsg.Request {
			r := kmsg.NewPtrJoinGroupRequest()
			r.Group = "sg" + strconv.FormatInt(topicCtr.Add(1), 10)
			r.SessionTimeoutMillis = 6000
			r.RebalanceTimeoutMillis = 50
			r.ProtocolType = "consumer"
			p := kmsg.NewJoinGroupRequestProtocol()
			p.Name = "range"
			r.Protocols = append(r.Protocols, p)
			return r
		}},
		seqKind{"syncgroup", 14, "group", func() kmsg.Request {
			r := kmsg.NewPtrSyncGroupRequest()
			r.Group = "sg0"
			r.MemberID = "nobody"
			return r
		}},
		seqKind{"heartbeat", 12, "normal", func() kmsg.Request {
			r := kmsg.NewPtrHeartbeatRequest()
			r.Group = "sg0"
			r.MemberID = "nobody"
			return r
		}},
		seqKind{"offsetcommit", 8, "normal", func() kmsg.Request {
			r := kmsg.NewPtrOffsetCommitRequest()
			r.Group = "sg0"
			r.Generation = -1
			return r
		}},
		seqKind{"deletetopics", 20, "slow", func() kmsg.Request {
			r := kmsg.NewPtrDeleteTopicsRequest()
			r.TimeoutMillis = 1000
			r.TopicNames = []string{"absent"}
			t := kmsg.NewDeleteTopicsRequestTopic()
			t.Topic = strp("absent")
			r.Topics = append(r.Topics, t)
			return r
		}},
	)
}

func seqKindByName(n string) *seqKind {
	for i := range seqKinds {
		if seqKinds[i].name == n {
			return &seqKinds[i]
		}
	}
	return nil
}

// ---------------------------------------------------------------- generator

// one override of the table for a kind: its key lowered / raised / removed / min raised / unusable
func seqOv(r *hx.Rng, k *seqKind, mode string) string {
	cm := int64(cmaxOf(k.key))
	switch mode {
	case "full":
		return fmt.Sprintf("%d.0.%d", k.key, cm)
	case "low":
		return fmt.Sprintf("%d.0.%d", k.key, r.Range(0, max64(cm-1, 0)))
	case "mid":
		lo := r.Range(0, cm)
		return fmt.Sprintf("%d.%d.%d", k.key, lo, r.Range(lo, cm))
	case "high":
		return fmt.Sprintf("%d.0.%d", k.key, cm+r.Range(1, 3))
	case "gone":
		return fmt.Sprintf("%d.x", k.key)
	case "minup":
		return fmt.Sprintf("%d.%d.%d", k.key, cm+1, cm+r.Range(1, 3))
	case "neg":
		return fmt.Sprintf("%d.-1.-1", k.key)
	default: // dup: the range twice, the last one counts
		hi := r.Range(0, cm)
		return fmt.Sprintf("%d.0.%d,+%d.0.%d", k.key, hi, k.key, r.Range(0, cm))
	}
}

func max64(a, b int64) int64 {
	if a > b {
		return a
	}
	return b
}

var seqModes = []string{"full", "low", "low", "mid", "mid", "high", "gone", "minup", "neg", "dup"}

func seqTbl(r *hx.Rng, ks []*seqKind, modes []string) string {
	var ovs []string
	for _, k := range ks {
		ovs = append(ovs, seqOv(r, k, hx.Pick(r, modes)))
	}
	return "tbl:" + strings.Join(ovs, ",")
}

// pickKinds returns n kinds of pairwise different connection classes (first) and keys; `noMeta` keeps the Metadata key out
// (cases that need the client's own metadata requests to work).
func pickKinds(r *hx.Rng, n int, noMeta bool) []*seqKind {
	var out []*seqKind
	for tries := 0; len(out) < n && tries < 200; tries++ {
		k := &seqKinds[r.Intn(len(seqKinds))]
		if noMeta && k.key == 3 {
			continue
		}
		ok := true
		for _, o := range out {
			if o.key == k.key || tries < 100 && o.class == k.class {
				ok = false
			}
		}
		if ok {
			out = append(out, k)
		}
	}
	return out
}

func genSeqCase(r *hx.Rng) string {
	shape := r.Intn(12)
	obj := "req:"
	noMeta := false
	if r.Chance(30) {
		obj, noMeta = "reqn:", true
	}
	var ks []*seqKind
	var steps []string
	switch shape {
	case 0, 1: // reconnect after a cut: the same request before and after the table changed
		ks = pickKinds(r, 1+r.Intn(2), noMeta)
		steps = append(steps, seqTbl(r, ks, []string{"full", "mid", "high"}))
		for _, k := range ks {
			steps = append(steps, obj+k.name)
		}
		steps = append(steps, seqTbl(r, ks, seqModes), "cut:all")
		for _, k := range ks {
			steps = append(steps, obj+k.name)
		}
	case 2: // a key that was absent appears; a request of another kind of the same connection class meets the cut connection
		// (the absent key's own request fails before anything is written and would never find out)
		var same []*seqKind
		for len(same) < 2 {
			k := &seqKinds[r.Intn(len(seqKinds))]
			if k.class == "normal" && (!noMeta || k.key != 3) && (len(same) == 0 || same[0].key != k.key) {
				same = append(same, k)
			}
		}
		ks = same[:1]
		steps = append(steps, seqTbl(r, ks, []string{"gone", "neg", "minup"}), obj+ks[0].name, seqTbl(r, ks, []string{"full", "mid", "low"}), "cut:all",
			obj+same[1].name, obj+ks[0].name)
	case 3, 4, 5: // first use of another connection class after the change, then the old connection again
		ks = pickKinds(r, 2, noMeta)
		steps = append(steps, seqTbl(r, ks, []string{"full", "mid", "high", "low"}), obj+ks[0].name, seqTbl(r, ks, seqModes), obj+ks[1].name, obj+ks[0].name)
		if r.Bool() {
			steps = append(steps, seqTbl(r, ks, seqModes), "cut:all", obj+ks[0].name, obj+ks[1].name)
		}
	case 6: // the request that meets the restarted broker is lost with its connection
		ks = pickKinds(r, 1, noMeta)
		steps = append(steps, seqTbl(r, ks, []string{"full", "mid", "high"}), obj+ks[0].name, seqTbl(r, ks, []string{"low", "mid", "gone", "minup", "full"}), "cutnext:"+ks[0].name, obj+ks[0].name, obj+ks[0].name)
	case 7, 8: // random walk over three kinds
		ks = pickKinds(r, 3, noMeta)
		steps = append(steps, seqTbl(r, ks, []string{"full", "mid", "high", "low"}))
		for i, n := 0, 5+r.Intn(7); i < n; i++ {
			switch r.Intn(7) {
			case 0:
				steps = append(steps, seqTbl(r, ks, seqModes))
			case 1:
				steps = append(steps, seqTbl(r, ks[:1+r.Intn(3)], seqModes), "cut:all")
			case 2:
				steps = append(steps, "cutnext:"+hx.Pick(r, ks).name)
			default:
				o := "req:"
				if noMeta && r.Bool() {
					o = "reqn:"
				}
				steps = append(steps, o+hx.Pick(r, ks).name)
			}
		}
		steps = append(steps, obj+hx.Pick(r, ks).name)
	case 9: // a record produced before and after the broker changed its Produce range
		ks = []*seqKind{seqKindByName("produce")}
		cm := int64(cmaxOf(0))
		a, b := r.Range(7, cm), r.Range(7, cm)
		steps = append(steps, fmt.Sprintf("tbl:0.3.%d", a), "flow:produce", fmt.Sprintf("tbl:0.3.%d", b), "cut:all", "flow:produce")
		if r.Bool() {
			steps = append(steps, "req:produce")
		}
	case 10: // a direct consumer polling before and after the broker changed its Fetch range
		ks = []*seqKind{seqKindByName("fetch")}
		cm := int64(cmaxOf(1))
		a, b := r.Range(4, cm), r.Range(4, cm)
		steps = append(steps, fmt.Sprintf("tbl:1.4.%d", a), "flow:poll", fmt.Sprintf("tbl:1.4.%d", b), "cut:all", "flow:poll")
	default: // the Produce key itself comes and goes (the clamp recognises a loaded table by it)
		ks = pickKinds(r, 1, true)
		if ks[0].key == 0 {
			ks = []*seqKind{seqKindByName("listoffsets")}
		}
		a, b := hx.Pick(r, []string{"0.x,", "0.-1.-1,", ""}), hx.Pick(r, []string{"0.x,", ""})
		steps = append(steps, "tbl:"+a+seqOv(r, ks[0], hx.Pick(r, []string{"full", "low", "gone"})), "req:"+ks[0].name,
			"tbl:"+b+seqOv(r, ks[0], hx.Pick(r, []string{"low", "gone", "mid"})), "cut:all", "req:"+ks[0].name)
	}
	umax, umin := "def", "nil"
	fk := ks[r.Intn(len(ks))]
	cm := int64(cmaxOf(fk.key))
	flow := shape == 9 || shape == 10
	switch r.Intn(10) {
	case 0, 1:
		umax = "nil"
	case 2, 3:
		lo := int64(0)
		if flow {
			lo = 7
		}
		umax = fmt.Sprintf("k%d.%d", fk.key, r.Range(lo, cm))
	case 4:
		if !flow {
			umax = fmt.Sprintf("x%d", fk.key)
		}
	}
	if r.Chance(20) && !flow {
		umin = fmt.Sprintf("k%d.%d", fk.key, r.Range(0, cm))
	}
	return "seq " + umax + " " + umin + " " + strings.Join(steps, " ")
}

// ---------------------------------------------------------------- one seq case

type sev struct {
	typ   byte
	obj   string
	conn  int
	key   int16
	ver   int16
	table string
	ct    int
	step  int
	class string
}

type seqRun struct {
	serial    int64
	table     []kmsg.ApiVersionsResponseApiKey
	step      int
	evs       []sev
	initVer   map[int]int16
	connAdv   map[int]int
	nAdv      int
	cutKey    map[int16]bool
	focalKey  int16
	focalObj  string
	focalSeen int
	focalCh   chan struct{}
}

var seqSerial int64

// dialer registers which broker object of which case dialled the n-th connection. kfake accepts on one goroutine and
// sim numbers connections as they are accepted; dials are serialised here, so the n-th successful dial is connection n.
// The seed is dialled as 127.0.0.1, kfake advertises its broker as localhost: the host tells the two broker objects apart.
func (e *env) dialer(owner int64) func(context.Context, string, string) (net.Conn, error) {
	return func(ctx context.Context, network, addr string) (net.Conn, error) {
		e.dialMu.Lock()
		defer e.dialMu.Unlock()
		c, err := e.net.Stack.DialContext(ctx, network, addr)
		if err != nil {
			return nil, err
		}
		e.dials++
		host, _, _ := net.SplitHostPort(addr)
		obj := "n"
		if host == "127.0.0.1" {
			obj = "s"
		}
		e.mu.Lock()
		e.dialObj[e.dials], e.dialOwner[e.dials] = obj, owner
		e.mu.Unlock()
		return c, nil
	}
}

func (e *env) seqBuildTable(ov string) ([]kmsg.ApiVersionsResponseApiKey, bool) {
	out := append([]kmsg.ApiVersionsResponseApiKey(nil), e.base...)
	if ov == "-" {
		return out, true
	}
	for _, o := range strings.Split(ov, ",") {
		app := strings.HasPrefix(o, "+")
		f := strings.Split(strings.TrimPrefix(o, "+"), ".")
		if len(f) < 2 {
			return nil, false
		}
		key, err := strconv.Atoi(f[0])
		if err != nil || key < 0 || key > int(kmsg.MaxKey) || key == 18 {
			return nil, false
		}
		if len(f) == 2 && f[1] == "x" && !app {
			kept := out[:0:0]
			for _, k := range out {
				if k.ApiKey != int16(key) {
					kept = append(kept, k)
				}
			}
			out = kept
			continue
		}
		if len(f) != 3 {
			return nil, false
		}
		lo, err1 := strconv.Atoi(f[1])
		hi, err2 := strconv.Atoi(f[2])
		if err1 != nil || err2 != nil || lo < -32768 || lo > 32767 || hi < -32768 || hi > 32767 {
			return nil, false
		}
		done := false
		if !app {
			for i := range out {
				if out[i].ApiKey == int16(key) {
					out[i].MinVersion, out[i].MaxVersion = int16(lo), int16(hi)
					done = true
				}
			}
		}
		if !done {
			k := kmsg.NewApiVersionsResponseApiKey()
			k.ApiKey, k.MinVersion, k.MaxVersion = int16(key), int16(lo), int16(hi)
			out = append(out, k)
		}
	}
	return out, len(out) > 0
}

// seqApiVersions answers a connection-setup (or any) ApiVersions request with the table of the current step.
func (e *env) seqApiVersions(sr *seqRun, req *kmsg.ApiVersionsRequest) (kmsg.Response, error, bool) {
	if sr.table == nil || req.Version > 4 {
		return nil, nil, false
	}
	resp := req.ResponseKind().(*kmsg.ApiVersionsResponse)
	resp.ApiKeys = append(resp.ApiKeys, sr.table...)
	if req.Version >= 3 {
		resp.SupportedFeatures = e.baseRsp.SupportedFeatures
		resp.FinalizedFeatures = e.baseRsp.FinalizedFeatures
		resp.FinalizedFeaturesEpoch = e.baseRsp.FinalizedFeaturesEpoch
	}
	return resp, nil, true
}

// called with e.mu held
func (e *env) seqOnRequest(sr *seqRun, conn int, key int16, fr []byte) {
	if e.dialOwner[conn] != sr.serial {
		return // a connection of an earlier case's client
	}
	v := int16(binary.BigEndian.Uint16(fr[2:]))
	if key == 18 && !e.initDone[conn] {
		sr.initVer[conn] = v
		return
	}
	obj := e.dialObj[conn]
	ct, ok := sr.connAdv[conn]
	if !ok {
		ct = -1
	}
	sr.evs = append(sr.evs, sev{typ: 'W', obj: obj, conn: conn, key: key, ver: v, ct: ct, step: sr.step})
	if key == sr.focalKey && obj == sr.focalObj {
		sr.focalSeen++
		if sr.focalCh != nil {
			select {
			case sr.focalCh <- struct{}{}:
			default:
			}
		}
	}
}

// called with e.mu held, before the frame is delivered to the client
func (e *env) seqOnResponse(sr *seqRun, conn int, fr []byte, delivered bool) {
	if e.dialOwner[conn] != sr.serial || e.initDone[conn] || !delivered {
		return
	}
	if code := int16(binary.BigEndian.Uint16(fr[4:])); code == 35 {
		return
	}
	e.initDone[conn] = true
	resp := kmsg.NewPtrApiVersionsResponse()
	resp.Version = sr.initVer[conn]
	if err := resp.ReadFrom(fr[4:]); err != nil || len(resp.ApiKeys) == 0 {
		hx.St.Inc("seq.unreadable-apiversions-answer")
		return
	}
	parts := make([]string, len(resp.ApiKeys))
	for i, k := range resp.ApiKeys {
		parts[i] = fmt.Sprintf("%d.%d.%d", k.ApiKey, k.MinVersion, k.MaxVersion)
	}
	sr.connAdv[conn] = sr.nAdv
	sr.nAdv++
	sr.evs = append(sr.evs, sev{typ: 'A', obj: e.dialObj[conn], conn: conn, table: strings.Join(parts, ",")})
}

func seqUser(spec string) (*kversion.Versions, bool, bool) { // versions, option given, well-formed
	switch {
	case spec == "nil":
		return nil, true, true
	case spec == "def":
		return nil, false, true
	case strings.HasPrefix(spec, "x"):
		k, err := strconv.Atoi(spec[1:])
		if err != nil || k < 0 || k > int(kmsg.MaxKey) || k == 18 {
			return nil, false, false
		}
		v := kversion.Stable()
		v.SetMaxKeyVersion(int16(k), -1)
		return v, true, true
	case strings.HasPrefix(spec, "k"):
		f := strings.Split(spec[1:], ".")
		if len(f) != 2 {
			return nil, false, false
		}
		k, err1 := strconv.Atoi(f[0])
		n, err2 := strconv.Atoi(f[1])
		if err1 != nil || err2 != nil || k < 0 || k > int(kmsg.MaxKey) || k == 18 || n < 0 || n > 32767 {
			return nil, false, false
		}
		v := kversion.Stable()
		v.SetMaxKeyVersion(int16(k), int16(n))
		return v, true, true
	}
	return nil, false, false
}

func userTokOf(v *kversion.Versions, key int16) string {
	if v == nil {
		return "nil"
	}
	if m, ok := v.LookupMaxKeyVersion(key); ok {
		return strconv.Itoa(int(m))
	}
	return "miss"
}

var errPending = errors.New("pending")

func runSeq(t []string) string {
	if len(t) < 4 {
		return "bad-op"
	}
	umaxV, umaxSet, ok1 := seqUser(t[1])
	var uminV *kversion.Versions
	ok2 := true
	if t[2] != "nil" {
		if !strings.HasPrefix(t[2], "k") {
			return "bad-op"
		}
		var full *kversion.Versions
		full, _, ok2 = seqUser(t[2])
		if ok2 {
			f := strings.Split(t[2][1:], ".")
			k, _ := strconv.Atoi(f[0])
			m, _ := full.LookupMaxKeyVersion(int16(k))
			uminV = &kversion.Versions{}
			uminV.SetMaxKeyVersion(int16(k), m)
		}
	}
	if !ok1 || !ok2 {
		return "bad-op"
	}
	steps := t[3:]
	e := getEnv("-", false)
	poll := false
	for _, s := range steps {
		f := strings.SplitN(s, ":", 2)
		if len(f) != 2 {
			return "bad-op"
		}
		switch f[0] {
		case "tbl":
			if _, ok := e.seqBuildTable(f[1]); !ok {
				return "bad-op"
			}
		case "req", "reqn", "cutnext":
			if seqKindByName(f[1]) == nil {
				return "bad-op"
			}
		case "cut":
			if f[1] != "all" {
				return "bad-op"
			}
		case "flow":
			if f[1] != "produce" && f[1] != "poll" {
				return "bad-op"
			}
			poll = poll || f[1] == "poll"
		default:
			return "bad-op"
		}
	}
	var opts []kgo.Opt
	if umaxSet {
		opts = append(opts, kgo.MaxVersions(umaxV))
	}
	if uminV != nil {
		opts = append(opts, kgo.MinVersions(uminV))
	}
	if poll {
		opts = append(opts, kgo.ConsumeTopics("t"), kgo.FetchMaxWait(100*time.Millisecond))
	}
	seqSerial++
	sr := &seqRun{serial: seqSerial, initVer: map[int]int16{}, connAdv: map[int]int{}, cutKey: map[int16]bool{}, focalKey: -1}
	sr.table, _ = e.seqBuildTable("-")
	opts = append(opts, kgo.Dialer(e.dialer(sr.serial)))
	if os.Getenv("VERIF_DEBUG") != "" {
		opts = append(opts, kgo.WithLogger(kgo.BasicLogger(os.Stderr, kgo.LogLevelDebug, nil)))
	}
	e.mu.Lock()
	e.seq = sr
	e.mu.Unlock()
	cl := e.client(opts, false)

	for i, s := range steps {
		f := strings.SplitN(s, ":", 2)
		e.mu.Lock()
		sr.step = i
		e.mu.Unlock()
		hx.St.Inc("seq.step." + f[0])
		switch f[0] {
		case "tbl":
			tb, _ := e.seqBuildTable(f[1])
			e.mu.Lock()
			sr.table = tb
			e.mu.Unlock()
		case "cut":
			e.net.KillAll()
		case "cutnext":
			e.mu.Lock()
			sr.cutKey[seqKindByName(f[1]).key] = true
			e.mu.Unlock()
		case "req", "reqn":
			obj := "s"
			if f[0] == "reqn" {
				obj = "n"
			}
			e.seqDirect(cl, sr, seqKindByName(f[1]), obj, i)
		case "flow":
			ctx, cancel := context.WithTimeout(context.Background(), 3*time.Second)
			if f[1] == "produce" {
				cl.ProduceSync(ctx, &kgo.Record{Topic: "t", Value: []byte("v")})
			} else {
				cl.PollFetches(ctx)
			}
			cancel()
		}
	}
	closed := make(chan struct{})
	go func() { cl.Close(); close(closed) }()
	select {
	case <-closed:
	case <-time.After(4 * time.Second):
		hx.St.Inc("client-close-stuck")
	}
	e.mu.Lock()
	evs := sr.evs
	e.seq = nil
	e.mu.Unlock()

	effMax := umaxV
	if !umaxSet {
		effMax = kversion.Stable()
	}
	var out []string
	latest := map[string]int{}
	nA := 0
	var advTables []map[int16][2]int16 // per A event: key -> [min,max], the last element of a repeated key counts
	for _, ev := range evs {
		var tok string
		switch ev.typ {
		case 'A':
			tok = fmt.Sprintf("A:%s:%d:%s", ev.obj, ev.conn, ev.table)
			latest[ev.obj] = nA
			nA++
			hx.St.Inc("seq.A")
			m := map[int16][2]int16{}
			for _, p := range strings.Split(ev.table, ",") {
				var k, lo, hi int
				fmt.Sscanf(p, "%d.%d.%d", &k, &lo, &hi)
				m[int16(k)] = [2]int16{int16(lo), int16(hi)}
			}
			advTables = append(advTables, m)
		case 'W':
			ct := "-"
			if ev.ct >= 0 {
				ct = strconv.Itoa(ev.ct)
			}
			tok = fmt.Sprintf("W:%s:%d:%d:%d:%d:%s:%s:%s:%d", ev.obj, ev.conn, ev.key, ev.ver, cmaxOf(ev.key), userTokOf(effMax, ev.key), userTokOf(uminV, ev.key), ct, ev.step)
		case 'E':
			tok = fmt.Sprintf("E:%s:%d:%d:%s:%s:%s:%d", ev.obj, ev.key, cmaxOf(ev.key), userTokOf(effMax, ev.key), userTokOf(uminV, ev.key), ev.class, ev.step)
			hx.St.Inc("seq.E." + ev.class)
		default:
			tok = fmt.Sprintf("X:%d", ev.step)
			hx.St.Inc("seq.X")
		}
		if len(out) > 0 && out[len(out)-1] == tok {
			continue
		}
		if ev.typ == 'W' {
			hx.St.Inc("seq.W")
			hx.St.Inc("seq.W.obj." + ev.obj)
			if l, ok := latest[ev.obj]; ok && ev.ct >= 0 && ev.ct != l {
				hx.St.Inc("seq.W.on-connection-older-than-latest-table")
				// the code keeps one table per broker object: such a frame is negotiated against the newer table
				if rg, ok := advTables[ev.ct][ev.key]; !ok || ev.ver > rg[1] || ev.ver < rg[0] {
					hx.St.Inc("seq.W.outside-the-table-of-its-own-connection(inside-the-latest)")
				}
			}
		}
		out = append(out, tok)
	}
	hx.St.Inc("kind.seq")
	hx.St.Add("seq.connections", nA)
	if len(out) == 0 {
		return "-"
	}
	return strings.Join(out, " ")
}

// seqDirect sends one request straight to a broker object and records a version error that wrote nothing.
func (e *env) seqDirect(cl *kgo.Client, sr *seqRun, k *seqKind, obj string, step int) {
	hx.St.Inc("seq.req.class." + k.class)
	seen := 0
	for attempt := 0; attempt < 3; attempt++ {
		ch := make(chan struct{}, 1)
		e.mu.Lock()
		sr.focalKey, sr.focalObj, sr.focalSeen, sr.focalCh = k.key, obj, 0, ch
		e.mu.Unlock()
		ctx, cancel := context.WithTimeout(context.Background(), 2*time.Second)
		done := make(chan error, 1)
		go func() {
			b := cl.SeedBrokers()[0]
			if obj == "n" {
				b = cl.Broker(0)
			}
			_, err := b.Request(ctx, k.mk())
			done <- err
		}()
		var err error
		select {
		case err = <-done:
		case <-ch:
			select { // the frame is on the wire; give the exchange a moment to finish
			case err = <-done:
			case <-time.After(300 * time.Millisecond):
				err = errPending
			}
		case <-time.After(2500 * time.Millisecond):
			err = errPending
		}
		cancel()
		if err == errPending {
			select {
			case <-done:
			case <-time.After(time.Second):
			}
		}
		e.mu.Lock()
		seen += sr.focalSeen
		sr.focalKey, sr.focalCh = -1, nil
		cls := "ok"
		if err != nil {
			cls = classify(err)
		}
		if cls == "tooold" || cls == "unknownkey" || cls == "usermin" {
			sr.evs = append(sr.evs, sev{typ: 'E', obj: obj, key: k.key, class: cls, step: step})
		}
		e.mu.Unlock()
		if cls != "other" || err == errPending {
			return // answered, failed by the version clamp, or written and left unanswered
		}
		// a connection error (the connection was cut under the request): once more, on a new connection
		hx.St.Inc("seq.req.retried-after-connection-error")
	}
	if seen == 0 {
		e.mu.Lock()
		sr.evs = append(sr.evs, sev{typ: 'X', step: step})
		e.mu.Unlock()
	}
}

func genSeq(a hx.Args, r *hx.Rng) {
	for i, n := 0, a.N(100, 320); i < n; i++ {
		hx.Emit("%s", genSeqCase(r))
	}
}
