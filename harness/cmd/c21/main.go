// C21 harness: request-version negotiation of this tree's kgo client, observed at the wire.
//
// A real kgo client talks to a real in-process kfake over kfake.VirtualNetwork through the frame-aware
// listener of harness/sim. The ApiVersions answer of the broker is scripted per case through
// cluster.ControlKey(18, …): the table kfake itself would advertise (optionally capped with
// kfake.MaxVersions) with the focal key rewritten to an arbitrary [min,max], removed, or removed
// together with the Produce key; requests above the advertised ApiVersions max are answered the
// KIP-511 way (UNSUPPORTED_VERSION, v0 body, only key 18; 0..4 when the script advertises no usable range). The header version of every request frame
// that reaches the broker side is recorded.
//
//	op:   neg <kind> <key> <cmax> <via> <kfcap> <bmode> <bmin> <bmax> <umax> <umin> <sasl>
//	        kind   request shape (see kinds); key/cmax = its api key and kmsg's MaxVersion()
//	        via    broker (Broker.Request on the seed: straight into broker.handleReq) | client (cl.Request: sharding
//	               layer, pins) | flow (a produced record / a polled fetch) | internal (connection setup frames)
//	        kfcap  - | a kversion release name given to kfake.MaxVersions
//	        bmode  adv (focal key advertised as [bmin,bmax]) | adv0 (same, Produce key removed) |
//	               miss (focal key removed) | miss0 (focal and Produce keys removed) | noapi (client pinned
//	               pre-0.10: its MaxVersions has no ApiVersions key, nothing is advertised)
//	        umax   nil (kgo.MaxVersions(nil)) | d<n> / dmiss (client default, which holds n / nothing for the key) |
//	               miss (Stable minus the key) | <n> (Stable with key=n)
//	        umin   nil | miss (a MinVersions without the key) | <n>
//	        sasl   0 | 1 (PLAIN)
//	out:  <focal> ; <frames>
//	        focal  w <v>[,<v>…]   distinct header versions of the focal request frames, ascending
//	               e <class>      nothing written: unknownkey | tooold | usermin | other (class `-` for flow/internal kinds)
//	        frames every other frame seen, `key:version:cmax:bmode:bmin:bmax:umax:umin:tag` (bounds as configured
//	               by this harness for that key; bmode `pre` = written before any advertisement; tag i = ApiVersions
//	               of connection setup, r = anything else), sorted, distinct; `-` when there is none
package main

import (
	"context"
	"encoding/binary"
	"fmt"
	"os"
	"sort"
	"strconv"
	"strings"
	"sync"
	"sync/atomic"
	"time"

	"github.com/twmb/franz-go/pkg/kfake"
	"github.com/twmb/franz-go/pkg/kgo"
	"github.com/twmb/franz-go/pkg/kmsg"
	"github.com/twmb/franz-go/pkg/kversion"
	"github.com/twmb/franz-go/pkg/sasl/plain"
	"verifharness/hx"
	"verifharness/sim"
)

// ---------------------------------------------------------------- request kinds

type kind struct {
	name string
	key  int16
	vias []string
	mk   func() kmsg.Request
}

func strp(s string) *string { return &s }

var kinds = []kind{
	{"metadata", 3, []string{"broker", "client"}, func() kmsg.Request {
		r := kmsg.NewPtrMetadataRequest()
		t := kmsg.NewMetadataRequestTopic()
		t.Topic = strp("t")
		r.Topics = append(r.Topics, t)
		return r
	}},
	{"listoffsets", 2, []string{"broker", "client"}, func() kmsg.Request {
		r := kmsg.NewPtrListOffsetsRequest()
		r.ReplicaID = -1
		t := kmsg.NewListOffsetsRequestTopic()
		t.Topic = "t"
		p := kmsg.NewListOffsetsRequestTopicPartition()
		p.Timestamp = -1
		t.Partitions = append(t.Partitions, p)
		r.Topics = append(r.Topics, t)
		return r
	}},
	{"findcoord1", 10, []string{"broker", "client"}, func() kmsg.Request {
		r := kmsg.NewPtrFindCoordinatorRequest()
		r.CoordinatorKey = "g1"
		return r
	}},
	// two keys: the sharder pins min 4; on errBrokerTooOld it splits into single-key requests pinned max 3
	{"findcoord2", 10, []string{"client"}, func() kmsg.Request {
		r := kmsg.NewPtrFindCoordinatorRequest()
		r.CoordinatorKeys = []string{"g1", "g2"}
		return r
	}},
	{"offsetfetch1", 9, []string{"broker", "client"}, func() kmsg.Request {
		r := kmsg.NewPtrOffsetFetchRequest()
		r.Group = "g1"
		g := kmsg.NewOffsetFetchRequestGroup()
		g.Group = "g1"
		r.Groups = append(r.Groups, g)
		return r
	}},
	// two groups: pinned min 8; on errBrokerTooOld split into one request per group pinned max 7
	{"offsetfetch2", 9, []string{"client"}, func() kmsg.Request {
		r := kmsg.NewPtrOffsetFetchRequest()
		for _, n := range []string{"g1", "g2"} {
			g := kmsg.NewOffsetFetchRequestGroup()
			g.Group = n
			r.Groups = append(r.Groups, g)
		}
		return r
	}},
	{"apiversions", 18, []string{"broker", "client"}, func() kmsg.Request {
		r := kmsg.NewPtrApiVersionsRequest()
		r.ClientSoftwareName = "focal"
		r.ClientSoftwareVersion = "1"
		return r
	}},
	{"initpid", 22, []string{"broker", "client"}, func() kmsg.Request { return kmsg.NewPtrInitProducerIDRequest() }},
	{"describeconfigs", 32, []string{"broker", "client"}, func() kmsg.Request {
		r := kmsg.NewPtrDescribeConfigsRequest()
		rs := kmsg.NewDescribeConfigsRequestResource()
		rs.ResourceType = kmsg.ConfigResourceTypeTopic
		rs.ResourceName = "t"
		r.Resources = append(r.Resources, rs)
		return r
	}},
	{"createtopics", 19, []string{"broker", "client"}, func() kmsg.Request {
		r := kmsg.NewPtrCreateTopicsRequest()
		r.TimeoutMillis = 1000
		t := kmsg.NewCreateTopicsRequestTopic()
		t.Topic = "c" + strconv.FormatInt(topicCtr.Add(1), 10)
		t.NumPartitions = 1
		t.ReplicationFactor = 1
		r.Topics = append(r.Topics, t)
		return r
	}},
	{"listgroups", 16, []string{"broker", "client"}, func() kmsg.Request { return kmsg.NewPtrListGroupsRequest() }},
	{"describegroups", 15, []string{"broker", "client"}, func() kmsg.Request {
		r := kmsg.NewPtrDescribeGroupsRequest()
		r.Groups = []string{"g1"}
		return r
	}},
	{"describecluster", 60, []string{"broker", "client"}, func() kmsg.Request { return kmsg.NewPtrDescribeClusterRequest() }},
	{"describeacls", 29, []string{"broker"}, func() kmsg.Request { return kmsg.NewPtrDescribeACLsRequest() }},
	{"produce", 0, []string{"flow"}, nil},
	{"fetch", 1, []string{"flow"}, nil},
	{"initapi", 18, []string{"internal"}, nil},  // the ApiVersions request(s) of connection setup
	{"saslhs", 17, []string{"internal"}, nil},   // SASLHandshake of connection setup
	{"saslauth", 36, []string{"internal"}, nil}, // SASLAuthenticate of connection setup
}

var topicCtr atomic.Int64

func kindByName(n string) *kind {
	for i := range kinds {
		if kinds[i].name == n {
			return &kinds[i]
		}
	}
	if strings.HasPrefix(n, "key") { // default-constructed request of any key, straight to the broker
		k, err := strconv.Atoi(n[3:])
		if err != nil || k < 0 || k > int(kmsg.MaxKey) || kmsg.RequestForKey(int16(k)) == nil {
			return nil
		}
		return &kind{n, int16(k), []string{"broker"}, func() kmsg.Request { return kmsg.RequestForKey(int16(k)) }}
	}
	return nil
}

func cmaxOf(key int16) int16 {
	r := kmsg.RequestForKey(key)
	if r == nil {
		return -1
	}
	return r.MaxVersion()
}

// ---------------------------------------------------------------- generator

var kfcaps = map[string]func() *kversion.Versions{
	"v0_10_0": kversion.V0_10_0, "v0_11_0": kversion.V0_11_0, "v1_0_0": kversion.V1_0_0, "v2_1_0": kversion.V2_1_0,
	"v2_4_0": kversion.V2_4_0, "v2_8_0": kversion.V2_8_0, "v3_3_0": kversion.V3_3_0, "v3_7_0": kversion.V3_7_0,
	"v4_0_0": kversion.V4_0_0, "stable": kversion.Stable,
}

type cfg struct {
	kind, via, kfcap, bmode string
	bmin, bmax              int64
	umax, umin              string
	sasl                    bool
}

func (c cfg) emit() {
	k := kindByName(c.kind)
	if c.umax == "def" { // the client's default table, resolved so that the driver knows the bound
		if v, ok := kversion.Stable().LookupMaxKeyVersion(k.key); ok {
			c.umax = "d" + strconv.Itoa(int(v))
		} else {
			c.umax = "dmiss"
		}
	}
	hx.Emit("neg %s %d %d %s %s %s %d %d %s %s %s", c.kind, k.key, cmaxOf(k.key), c.via, c.kfcap, c.bmode, c.bmin, c.bmax, c.umax, c.umin, hx.B(c.sasl))
}

// place returns a value below / at / just above / far above x, or a fixed boundary.
func place(r *hx.Rng, x int64) int64 {
	switch r.Intn(8) {
	case 0:
		return x - 1
	case 1, 2:
		return x
	case 3:
		return x + 1
	case 4:
		return 0
	case 5:
		return x + r.Range(2, 5)
	case 6:
		return x - r.Range(2, 4)
	default:
		return r.Range(0, x+2)
	}
}

func clamp0(x int64) int64 {
	if x < 0 {
		return 0
	}
	return x
}

func randCfg(r *hx.Rng, k *kind) cfg {
	cm := int64(cmaxOf(k.key))
	c := cfg{kind: k.name, via: hx.Pick(r, k.vias), kfcap: "-", bmode: "adv", umax: "def", umin: "nil"}
	// anchor: a version somewhere in the client's range; every bound is placed relative to it
	a := r.Range(0, cm)
	switch r.Intn(20) {
	case 0, 1:
		c.bmode = "miss"
	case 2:
		c.bmode = "miss0"
	case 3, 4:
		c.bmode = "adv0"
	case 5:
		c.bmode = "noapi"
	}
	if c.bmode == "noapi" && c.via == "flow" {
		// pinned pre-0.10 the client sends its own maximum for every other key of the flow (ListOffsets v11), which
		// kfake (ListOffsets <= 10) refuses: the flow never reaches its produce / fetch
		c.bmode = "adv"
	}
	c.bmax = place(r, a)
	switch r.Intn(6) {
	case 0:
		c.bmin = c.bmax + r.Range(0, 2) // min at / above max
	case 1, 2:
		c.bmin = 0
	case 3:
		c.bmin = -1
	default:
		c.bmin = clamp0(place(r, a))
	}
	if r.Chance(6) {
		c.bmax = hx.Pick(r, []int64{-1, -2, 32767})
	}
	switch r.Intn(10) {
	case 0, 1:
		c.umax = "nil"
	case 2, 3:
		c.umax = "def"
	case 4:
		c.umax = "miss"
	default:
		c.umax = hx.Itoa(clamp0(place(r, a)))
	}
	switch r.Intn(10) {
	case 0, 1, 2:
		c.umin = "nil"
	case 3:
		c.umin = "miss"
	default:
		c.umin = hx.Itoa(clamp0(place(r, a)))
	}
	if c.bmode == "noapi" && (c.umax == "nil" || c.umax == "def") {
		c.umax = hx.Itoa(clamp0(place(r, a)))
	}
	if c.bmode == "noapi" && k.key == 18 {
		c.umax = "miss"
	}
	if r.Chance(8) && k.vias[0] != "flow" { // a produce / fetch flow needs a broker that serves the rest of the flow
		names := make([]string, 0, len(kfcaps))
		for n := range kfcaps {
			names = append(names, n)
		}
		sort.Strings(names)
		c.kfcap = hx.Pick(r, names)
	}
	if k.key == 17 || k.key == 36 {
		c.sasl = true
	} else if r.Chance(10) && c.bmode != "noapi" {
		c.sasl = true
	}
	if k.key == 18 && c.umax == "miss" {
		c.sasl = false // without the ApiVersions key the client is pinned pre-0.10: no table, no SASL handshake
	}
	if c.sasl || c.bmode == "noapi" || k.key == 18 && c.umax == "miss" {
		// kfake capped below 1.0 has no SASLAuthenticate and cannot serve a SASL client; a client pinned pre-0.10
		// sends its own maxima for every other key, which a capped kfake refuses
		c.kfcap = "-"
	}
	return c
}

func gen(a hx.Args) {
	r := hx.NewRng(a.Seed)
	// 1. boundary grid on a few kinds: every bound below / at / above a pivot, missing, -1
	gridKinds := []string{"metadata", "findcoord2", "offsetfetch2", "apiversions", "initapi", "saslhs"}
	if a.Tier == "thorough" {
		gridKinds = append(gridKinds, "listoffsets", "produce", "saslauth")
	}
	for _, kn := range gridKinds {
		k := kindByName(kn)
		cm := int64(cmaxOf(k.key))
		piv := cm / 2
		if kn == "findcoord2" {
			piv = 4
		}
		if kn == "offsetfetch2" {
			piv = 8
		}
		bmaxs := []int64{piv - 1, piv, piv + 1, cm + 2}
		bmins := []int64{0, piv, piv + 1}
		umaxs := []string{"nil", "miss", hx.Itoa(piv - 1), hx.Itoa(piv), hx.Itoa(cm + 1)}
		umins := []string{"nil", hx.Itoa(piv - 1), hx.Itoa(piv), hx.Itoa(piv + 1)}
		pinned := kn == "findcoord2" || kn == "offsetfetch2" // the two kinds with internal pins
		if a.Tier != "thorough" { // quick: a seeded fifth of the grid; for the pinned kinds every case without a user maximum
			for _, bmax := range bmaxs {
				for _, bmin := range bmins {
					for _, umax := range umaxs {
						for _, umin := range umins {
							if r.Intn(5) != 0 && !(pinned && umax == "nil") {
								continue
							}
							cfg{kn, k.vias[len(k.vias)-1], "-", "adv", bmin, bmax, umax, umin, k.key == 17 || k.key == 36}.emit()
						}
					}
				}
			}
		} else {
			for _, bmax := range bmaxs {
				for _, bmin := range bmins {
					for _, umax := range umaxs {
						for _, umin := range umins {
							cfg{kn, k.vias[len(k.vias)-1], "-", "adv", bmin, bmax, umax, umin, k.key == 17 || k.key == 36}.emit()
						}
					}
				}
			}
		}
		for _, bm := range []string{"miss", "miss0", "adv0", "noapi"} {
			for _, umax := range []string{"nil", "miss", hx.Itoa(piv), hx.Itoa(cm)} {
				if bm == "noapi" && (umax == "nil" || k.key == 18 && umax != "miss" || k.vias[0] == "flow") {
					continue
				}
				cfg{kn, k.vias[len(k.vias)-1], "-", bm, 0, piv, umax, hx.Pick(r, umins), k.key == 17 || k.key == 36}.emit()
			}
		}
	}
	// 2. every key of the codec once (default-constructed request straight to the broker), advertised range random
	for key := int16(0); key <= kmsg.MaxKey; key++ {
		// key 7: kmsg.RequestFormatter.AppendRequest returns early for ControlledShutdown v0 (header without a
		// client id) before appending the body and before patching the length prefix, so the "frame" has size 0
		// and no frame-aware reader ever releases it; the negotiated version (0) is right, the framing is not.
		if kmsg.RequestForKey(key) == nil || key == 17 || key == 36 || key == 7 {
			continue
		}
		k := kindByName(fmt.Sprintf("key%d", key))
		n := 1
		if a.Tier == "thorough" {
			n = 3
		}
		for i := 0; i < n; i++ {
			randCfg(r, k).emit()
		}
	}
	// 3. random placements on the shaped kinds
	for i := 0; i < a.N(450, 1000); i++ {
		k := &kinds[r.Intn(len(kinds))]
		randCfg(r, k).emit()
	}
	// 4. one client, several connections, the broker's table changes between them (seq.go)
	genSeq(a, r)
}

// ---------------------------------------------------------------- scripted broker

type frame struct {
	conn    int
	key     int16
	version int16
	pre     bool // written before an ApiVersions answer was delivered on a client that has none yet
	init    bool // ApiVersions of connection setup
	kip     bool // init frame written after a KIP-511 refusal on this connection
}

type env struct {
	name    string
	net     *sim.Net
	c       *kfake.Cluster
	addr    string
	base    []kmsg.ApiVersionsResponseApiKey
	baseRsp *kmsg.ApiVersionsResponse

	mu       sync.Mutex
	cur      *cfg
	focalKey int16
	minConn  int
	maxConn  int
	frames   []frame
	initDone map[int]bool
	kip      map[int]bool
	lastAt   time.Time
	advDone  bool // some ApiVersions answer with a key table has been delivered to the current client
	focalCh  chan struct{}

	// seq cases (seq.go)
	seq       *seqRun
	dialMu    sync.Mutex
	dials     int
	dialObj   map[int]string
	dialOwner map[int]int64
}

var envs = map[string]*env{}
var portCtr = 9100

func getEnv(kfcap string, sasl bool) *env {
	name := kfcap + "/" + hx.B(sasl)
	if e, ok := envs[name]; ok {
		return e
	}
	e := &env{name: name, net: &sim.Net{}, initDone: map[int]bool{}, kip: map[int]bool{}, dialObj: map[int]string{}, dialOwner: map[int]int64{}}
	portCtr++
	opts := []kfake.Opt{kfake.NumBrokers(1), kfake.Ports(portCtr), kfake.SeedTopics(1, "t"), kfake.ListenFn(e.net.ListenFn)}
	if kfcap != "-" {
		opts = append(opts, kfake.MaxVersions(kfcaps[kfcap]()))
	}
	if sasl {
		opts = append(opts, kfake.EnableSASL(), kfake.Superuser("PLAIN", "u", "p"))
	}
	c, err := kfake.NewCluster(opts...)
	if err != nil {
		panic(err)
	}
	e.c = c
	e.addr = fmt.Sprintf("127.0.0.1:%d", portCtr)
	// what kfake itself advertises (before the script is installed)
	cl := e.client(nil, sasl)
	resp, err := kmsg.NewPtrApiVersionsRequest().RequestWith(context.Background(), cl)
	if err != nil {
		panic("cannot load kfake's ApiVersions: " + err.Error())
	}
	cl.Close()
	e.base = resp.ApiKeys
	e.baseRsp = resp
	// A frame whose first two bytes are not an api key of the codec is not a Kafka request (raw SASL bytes sent
	// when no SASLHandshake key is advertised). kfake dereferences kmsg.RequestForKey(key) == nil on such a
	// frame and takes the process down, so the connection is cut before kfake reads it.
	e.net.Fault = func(key int16, _ int, _ []byte) sim.Action {
		if kmsg.RequestForKey(key) == nil {
			hx.St.Inc("non-request-frame-cut")
			return sim.KillBefore
		}
		e.mu.Lock()
		defer e.mu.Unlock()
		if e.seq != nil && e.seq.cutKey[key] { // seq step cutnext:<kind>
			delete(e.seq.cutKey, key)
			return sim.KillBefore
		}
		return sim.Pass
	}
	e.net.OnRequest = e.onRequest
	e.net.OnResponse = e.onResponse
	c.ControlKey(18, e.apiVersions)
	// one record in the topic so that a polled fetch returns at once
	if kfcap == "-" || cmaxLookup(kfcaps[kfcap](), 0) >= 3 {
		cl = e.client(nil, sasl)
		ctx, cancel := context.WithTimeout(context.Background(), 5*time.Second)
		cl.ProduceSync(ctx, &kgo.Record{Topic: "t", Value: []byte("v")})
		cancel()
		cl.Close()
	}
	envs[name] = e
	return e
}

func cmaxLookup(v *kversion.Versions, k int16) int16 {
	m, _ := v.LookupMaxKeyVersion(k)
	return m
}

func (e *env) client(extra []kgo.Opt, sasl bool) *kgo.Client {
	opts := []kgo.Opt{kgo.SeedBrokers(e.addr), kgo.Dialer(e.dialer(0)), kgo.RequestRetries(0),
		kgo.RetryBackoffFn(func(int) time.Duration { return 20 * time.Millisecond }), kgo.MetadataMinAge(10 * time.Millisecond)}
	if sasl {
		opts = append(opts, kgo.SASL(plain.Auth{User: "u", Pass: "p"}.AsMechanism()))
	}
	opts = append(opts, extra...)
	cl, err := kgo.NewClient(opts...)
	if err != nil {
		panic(err)
	}
	return cl
}

// advertised returns (present, min, max) of `key` in the scripted ApiVersions table for the current case.
func (e *env) advertised(key int16) (bool, int16, int16) {
	c := e.cur
	if c != nil && key == e.focalKey {
		switch c.bmode {
		case "adv", "adv0":
			return true, int16(c.bmin), int16(c.bmax)
		default:
			return false, -1, -1
		}
	}
	if c != nil && key == 0 && (c.bmode == "adv0" || c.bmode == "miss0") {
		return false, -1, -1
	}
	for _, k := range e.base {
		if k.ApiKey == key {
			return true, k.MinVersion, k.MaxVersion
		}
	}
	return false, -1, -1
}

func (e *env) table() []kmsg.ApiVersionsResponseApiKey {
	var out []kmsg.ApiVersionsResponseApiKey
	seen := false
	for _, k := range e.base {
		if k.ApiKey == e.focalKey {
			seen = true
		}
		if ok, lo, hi := e.advertised(k.ApiKey); ok {
			k.MinVersion, k.MaxVersion = lo, hi
			out = append(out, k)
		}
	}
	if !seen {
		if ok, lo, hi := e.advertised(e.focalKey); ok {
			k := kmsg.NewApiVersionsResponseApiKey()
			k.ApiKey, k.MinVersion, k.MaxVersion = e.focalKey, lo, hi
			out = append(out, k)
		}
	}
	return out
}

func (e *env) apiVersions(kreq kmsg.Request) (kmsg.Response, error, bool) {
	e.c.KeepControl()
	e.mu.Lock()
	defer e.mu.Unlock()
	if e.seq != nil {
		return e.seqApiVersions(e.seq, kreq.(*kmsg.ApiVersionsRequest))
	}
	if e.cur == nil {
		return nil, nil, false
	}
	req := kreq.(*kmsg.ApiVersionsRequest)
	resp := req.ResponseKind().(*kmsg.ApiVersionsResponse)
	ok, lo, hi := e.advertised(18)
	if !ok || hi < 0 { // the script advertises no usable ApiVersions range: it behaves like kfake, 0..4
		lo, hi = 0, 4
	}
	if req.Version > hi {
		// KIP-511: v0 body, UNSUPPORTED_VERSION, only the ApiVersions key
		resp.Version = 0
		resp.ErrorCode = 35
		k := kmsg.NewApiVersionsResponseApiKey()
		k.ApiKey, k.MinVersion, k.MaxVersion = 18, lo, hi
		resp.ApiKeys = append(resp.ApiKeys, k)
		return resp, nil, true
	}
	resp.ApiKeys = e.table()
	if req.Version >= 3 {
		resp.SupportedFeatures = e.baseRsp.SupportedFeatures
		resp.FinalizedFeatures = e.baseRsp.FinalizedFeatures
		resp.FinalizedFeaturesEpoch = e.baseRsp.FinalizedFeaturesEpoch
	}
	return resp, nil, true
}

func (e *env) onRequest(conn int, key int16, fr []byte, _ sim.Action) {
	if len(fr) < 4 || kmsg.RequestForKey(key) == nil {
		return
	}
	v := int16(binary.BigEndian.Uint16(fr[2:]))
	e.mu.Lock()
	defer e.mu.Unlock()
	if conn > e.maxConn {
		e.maxConn = conn
	}
	if e.seq != nil {
		e.seqOnRequest(e.seq, conn, key, fr)
		return
	}
	if e.cur == nil || conn <= e.minConn {
		return
	}
	f := frame{conn: conn, key: key, version: v, pre: !e.advDone}
	if key == 18 && !e.initDone[conn] {
		f.init = true
		f.kip = e.kip[conn]
	}
	e.lastAt = time.Now()
	e.frames = append(e.frames, f)
	focal := key == e.focalKey
	if e.focalKey == 18 {
		focal = key == 18 && f.init == (e.cur.via == "internal")
	}
	if focal && e.focalCh != nil {
		select {
		case e.focalCh <- struct{}{}:
		default:
		}
	}
}

func (e *env) onResponse(conn int, key int16, fr []byte, delivered bool) {
	if key != 18 || len(fr) < 6 {
		return
	}
	e.mu.Lock()
	defer e.mu.Unlock()
	if e.seq != nil {
		e.seqOnResponse(e.seq, conn, fr, delivered)
		return
	}
	if e.initDone[conn] {
		return
	}
	if code := int16(binary.BigEndian.Uint16(fr[4:])); code != 35 {
		e.initDone[conn] = true
		e.advDone = true
	} else {
		e.kip[conn] = true
	}
}

// ---------------------------------------------------------------- one case

func userVersions(spec string, key int16, dropApi bool) (*kversion.Versions, bool) {
	if spec == "nil" {
		return nil, true
	}
	if strings.HasPrefix(spec, "d") { // client default; the op line states what it holds for the key
		want := spec[1:]
		got := "miss"
		if v, ok := kversion.Stable().LookupMaxKeyVersion(key); ok {
			got = strconv.Itoa(int(v))
		}
		if got != want || dropApi {
			panic("bad-default")
		}
		return nil, false
	}
	v := kversion.Stable()
	if spec == "miss" {
		v.SetMaxKeyVersion(key, -1)
	} else {
		v.SetMaxKeyVersion(key, int16(hx.Atoi(spec)))
	}
	if dropApi && key != 18 {
		v.SetMaxKeyVersion(18, -1)
	}
	return v, true
}

func classify(err error) string {
	if err == nil {
		return "other"
	}
	s := err.Error()
	switch {
	case strings.Contains(s, "request key is unknown"):
		return "unknownkey"
	case strings.Contains(s, "broker is too old"):
		return "tooold"
	case strings.Contains(s, "below the user defined min"):
		return "usermin"
	}
	return "other"
}

func runCase(t []string) string {
	if len(t) > 0 && t[0] == "seq" {
		return runSeq(t)
	}
	if len(t) != 12 {
		return "bad-op"
	}
	c := cfg{kind: t[1], via: t[4], kfcap: t[5], bmode: t[6], bmin: hx.Atoi(t[7]), bmax: hx.Atoi(t[8]), umax: t[9], umin: t[10], sasl: t[11] == "1"}
	k := kindByName(c.kind)
	if k == nil || hx.Atoi(t[2]) != int64(k.key) || hx.Atoi(t[3]) != int64(cmaxOf(k.key)) {
		return "bad-op"
	}
	if _, ok := kfcaps[c.kfcap]; !ok && c.kfcap != "-" || c.kfcap != "-" && (c.sasl || c.via == "flow" || c.bmode == "noapi") || c.via == "flow" && c.bmode == "noapi" ||
		k.key == 18 && c.umax == "miss" && (c.sasl || c.kfcap != "-") {
		return "bad-op"
	}
	okVia := false
	for _, v := range k.vias {
		okVia = okVia || v == c.via
	}
	if !okVia {
		return "bad-op"
	}
	e := getEnv(c.kfcap, c.sasl)
	noapi := c.bmode == "noapi"
	var opts []kgo.Opt
	if strings.HasPrefix(c.umax, "d") {
		want := "miss"
		if v, ok := kversion.Stable().LookupMaxKeyVersion(k.key); ok {
			want = strconv.Itoa(int(v))
		}
		if c.umax[1:] != want || noapi {
			return "bad-op"
		}
	}
	umaxV, set := userVersions(c.umax, k.key, noapi)
	if noapi && (umaxV == nil || umaxV.HasKey(18)) {
		return "bad-op"
	}
	if set {
		opts = append(opts, kgo.MaxVersions(umaxV))
	}
	var uminV *kversion.Versions
	switch c.umin {
	case "nil":
	case "miss":
		uminV = &kversion.Versions{}
		uminV.SetMaxKeyVersion(k.key+1, 0)
	default:
		uminV = &kversion.Versions{}
		uminV.SetMaxKeyVersion(k.key, int16(hx.Atoi(c.umin)))
	}
	if uminV != nil {
		opts = append(opts, kgo.MinVersions(uminV))
	}
	if c.kind == "fetch" {
		opts = append(opts, kgo.ConsumeTopics("t"), kgo.FetchMaxWait(100*time.Millisecond))
	}

	e.mu.Lock()
	e.cur, e.focalKey, e.minConn, e.frames, e.advDone = &c, k.key, e.maxConn, nil, false
	e.focalCh = make(chan struct{}, 1)
	focalCh := e.focalCh
	e.mu.Unlock()

	cl := e.client(opts, c.sasl)
	ctx, cancel := context.WithTimeout(context.Background(), 3*time.Second)
	done := make(chan error, 1)
	go func() {
		var err error
		switch c.via {
		case "broker":
			_, err = cl.SeedBrokers()[0].Request(ctx, k.mk())
		case "client":
			_, err = cl.Request(ctx, k.mk())
		case "internal":
			_, err = cl.SeedBrokers()[0].Request(ctx, kmsg.NewPtrMetadataRequest())
		case "flow":
			if c.kind == "produce" {
				err = cl.ProduceSync(ctx, &kgo.Record{Topic: "t", Value: []byte("v")}).FirstErr()
			} else {
				fs := cl.PollFetches(ctx)
				err = fs.Err()
			}
		}
		done <- err
	}()
	var err error
	start := time.Now()
	tick := time.NewTicker(20 * time.Millisecond)
wait:
	for {
		select {
		case err = <-done:
			break wait
		case <-focalCh:
			select { // the focal frame is on the wire; give the exchange a moment to finish
			case err = <-done:
			case <-time.After(300 * time.Millisecond):
			}
			break wait
		case <-tick.C:
			// a flow / setup that cannot write its request keeps retrying in the background: stop once the wire
			// has been quiet for a while (or, with periodic retries, after a fixed time)
			e.mu.Lock()
			last := e.lastAt
			e.mu.Unlock()
			if last.Before(start) {
				last = start
			}
			if time.Since(last) > 500*time.Millisecond || time.Since(start) > 2500*time.Millisecond {
				hx.St.Inc("ended.by-quiescence")
				break wait
			}
		}
	}
	tick.Stop()
	cancel()
	closed := make(chan struct{})
	go func() { cl.Close(); close(closed) }()
	select {
	case <-closed:
	case <-time.After(4 * time.Second):
		hx.St.Inc("client-close-stuck") // the client is abandoned; its later frames belong to older connections and are ignored
	}

	e.mu.Lock()
	frames := e.frames
	e.cur = nil
	e.mu.Unlock()

	// focal frames
	fv := map[int16]bool{}
	inc := map[string]bool{}
	for _, f := range frames {
		focal := f.key == k.key
		if k.key == 18 {
			focal = f.key == 18 && f.init == (c.via == "internal")
		}
		if focal {
			fv[f.version] = true
			continue
		}
		inc[e.describe(&c, k.key, f, umaxV, set, uminV)] = true
	}
	var focalOut string
	if len(fv) > 0 {
		vs := make([]int, 0, len(fv))
		for v := range fv {
			vs = append(vs, int(v))
		}
		sort.Ints(vs)
		ss := make([]string, len(vs))
		for i, v := range vs {
			ss[i] = strconv.Itoa(v)
		}
		focalOut = "w " + strings.Join(ss, ",")
	} else if c.via == "flow" || c.via == "internal" {
		focalOut = "e -"
	} else {
		focalOut = "e " + classify(err)
		if os.Getenv("VERIF_DEBUG") != "" {
			fmt.Fprintf(os.Stderr, "debug: %v: %v\n", t, err)
		}
	}
	incs := make([]string, 0, len(inc))
	for s := range inc {
		incs = append(incs, s)
	}
	sort.Strings(incs)
	if strings.HasPrefix(c.kind, "key") {
		hx.St.Inc("kind.key<k>")
	} else {
		hx.St.Inc("kind." + c.kind)
	}
	hx.St.Inc("via." + c.via)
	hx.St.Inc("bmode." + c.bmode)
	hx.St.Inc("result." + focalOut[:1])
	if focalOut[0] == 'e' {
		hx.St.Inc("error." + strings.Fields(focalOut)[1])
	}
	hx.St.Add("incidental-frames", len(incs))
	if c.sasl {
		hx.St.Inc("sasl")
	}
	if c.kfcap != "-" {
		hx.St.Inc("kfake-maxversions")
	}
	for _, s := range []struct{ n, v string }{{"umax", c.umax}, {"umin", c.umin}} {
		cls := s.v
		if strings.HasPrefix(cls, "d") {
			cls = "default"
		} else if cls != "nil" && cls != "miss" {
			cls = "n"
		}
		hx.St.Inc(s.n + "." + cls)
	}
	if len(incs) == 0 {
		return focalOut + " ; -"
	}
	return focalOut + " ; " + strings.Join(incs, " ")
}

// describe prints a non-focal frame with the bounds this harness configured for its key.
func (e *env) describe(c *cfg, focalKey int16, f frame, umaxV *kversion.Versions, umaxSet bool, uminV *kversion.Versions) string {
	bmode, bmin, bmax := "adv", int16(-1), int16(-1)
	switch {
	case c.bmode == "noapi", umaxSet && umaxV != nil && !umaxV.HasKey(18):
		bmode = "noapi" // the client never asks for ApiVersions: it knows nothing of the broker
	case f.init && f.kip: // the refusal named the range of key 18: advertised, or 0..4 when the script advertises none
		e.mu.Lock()
		e.cur = c
		ok, lo, hi := e.advertised(18)
		e.cur = nil
		e.mu.Unlock()
		if !ok || hi < 0 {
			lo, hi = 0, 4
		}
		bmode, bmin, bmax = "adv", lo, hi
	case f.init && f.pre, f.init && !f.kip:
		bmode = "pre"
	default:
		e.mu.Lock()
		e.cur = c
		ok, lo, hi := e.advertised(f.key)
		have0, _, _ := e.advertised(0)
		e.cur = nil
		e.mu.Unlock()
		switch {
		case ok && have0:
			bmode, bmin, bmax = "adv", lo, hi
		case ok:
			bmode, bmin, bmax = "adv0", lo, hi
		case have0:
			bmode = "miss"
		default:
			bmode = "miss0"
		}
	}
	umax := "nil"
	if !umaxSet {
		umaxV = kversion.Stable() // the client default
	}
	if umaxV != nil {
		if v, ok := umaxV.LookupMaxKeyVersion(f.key); ok {
			umax = strconv.Itoa(int(v))
		} else {
			umax = "miss"
		}
	}
	umin := "nil"
	if uminV != nil {
		if v, ok := uminV.LookupMaxKeyVersion(f.key); ok {
			umin = strconv.Itoa(int(v))
		} else {
			umin = "miss"
		}
	}
	tag := "r"
	if f.init {
		tag = "i"
	}
	return fmt.Sprintf("%d:%d:%d:%s:%d:%d:%s:%s:%s", f.key, f.version, cmaxOf(f.key), bmode, bmin, bmax, umax, umin, tag)
}

func main() {
	a := hx.Parse()
	switch a.Mode {
	case "gen":
		gen(a)
		hx.Flush()
	case "run":
		hx.RunLines(20*time.Second, runCase)
	default:
		os.Exit(2)
	}
}
