// C27 harness: histories of cooperative-sticky rebalance rounds through the real balancer.
//
//	reset M T            -> pre # post    (a new history: first round on the given group; sticky plan before /
//	                                       after AdjustCooperative, one engine run)
//	next                 -> pre # post    (every member owns exactly its last adjusted plan, rejoins with real
//	                                       stickyBalancer.JoinGroupMetadata at the next generation)
//	change C             -> pre # post    (as next after drop:id | subs:id:t+t | join:id:t+t changes)
package main

import (
	"sort"
	"strings"
	"time"

	"github.com/twmb/franz-go/pkg/kgo"
	"github.com/twmb/franz-go/pkg/kmsg"
	"verifharness/cmd/c25/bal"
	"verifharness/hx"
)

func clean(ms []bal.Mem) []bal.Mem { // unique ids, unique subscriptions (C25 covers the malformed ones)
	seen := map[string]bool{}
	var out []bal.Mem
	for _, m := range ms {
		if seen[m.ID] {
			continue
		}
		seen[m.ID] = true
		var subs []string
		st := map[string]bool{}
		for _, s := range m.Subs {
			if !st[s] {
				st[s] = true
				subs = append(subs, s)
			}
		}
		m.Subs = subs
		out = append(out, m)
	}
	return out
}

var caseNo int

// unbalance makes the sticky plan move owned partitions: some members lose their ownership record (they
// are new to the group), so the others hold more than their share.
func unbalance(r *hx.Rng, ms []bal.Mem) {
	if r == nil || len(ms) < 2 || !r.Chance(75) {
		return
	}
	keep := r.Intn(len(ms))
	for i := range ms {
		if i != keep && r.Chance(50) {
			ms[i].Owned = nil
			if r.Bool() {
				ms[i].Gen = -1
			}
		}
	}
}

func history(r *hx.Rng, ms []bal.Mem, ts []bal.Topic, long bool) {
	ms = clean(ms)
	unbalance(r, ms)
	caseNo++
	step := 0
	next := func() {
		step++
		hx.Emit("next %d.%d", caseNo, step)
	}
	hx.Emit("reset %s %s", bal.EncMembers(ms), bal.EncTopics(ts))
	next()
	if !long {
		return
	}
	if r == nil || len(ts) == 0 {
		return
	}
	if r.Chance(25) {
		next() // a settled group stays settled
	}
	ids := make([]string, len(ms))
	for i, m := range ms {
		ids[i] = m.ID
	}
	for c := 0; c < r.Intn(3); c++ {
		var ch []string
		for k := 0; k < 1+r.Intn(2); k++ {
			subs := func() string {
				var s []string
				for _, t := range ts {
					if r.Chance(65) {
						s = append(s, t.Name)
					}
				}
				if len(s) == 0 {
					return "-"
				}
				return strings.Join(s, "+")
			}
			switch x := r.Intn(3); {
			case x == 0 && len(ids) > 1:
				i := r.Intn(len(ids))
				ch = append(ch, "drop:"+ids[i])
				ids = append(ids[:i], ids[i+1:]...)
			case x == 1 && len(ids) > 0:
				ch = append(ch, "subs:"+hx.Pick(r, ids)+":"+subs())
			default:
				id := "n" + hx.Itoa(int64(c*10+k)) + hx.Itoa(int64(r.Intn(1000)))
				ch = append(ch, "join:"+id+":"+subs())
				ids = append(ids, id)
			}
		}
		step++
		hx.Emit("change %s %d.%d", strings.Join(ch, ";"), caseNo, step)
		next()
	}
}

func gen(a hx.Args) {
	r := hx.NewRng(a.Seed)
	thorough := a.Tier == "thorough"
	eq := func(n int, v int32) []int32 {
		g := make([]int32, n)
		for i := range g {
			g[i] = v
		}
		return g
	}
	gensFor := func(n int) [][]int32 {
		gs := [][]int32{eq(n, 1)}
		for i := 0; i < n; i++ {
			g := eq(n, 1)
			g[i] = 0
			gs = append(gs, g)
		}
		return gs
	}
	type scope struct{ n, k, p int }
	scopes := []scope{{2, 1, 2}, {2, 1, 3}}
	if thorough {
		scopes = []scope{{2, 1, 3}, {3, 1, 3}, {2, 2, 2}, {3, 2, 1}}
	}
	for _, s := range scopes {
		bal.Exhaustive(s.n, s.k, s.p, gensFor(s.n), true, func(ms []bal.Mem, ts []bal.Topic) {
			history(nil, ms, ts, false)
		})
	}
	for i := 0; i < a.N(1200, 30000); i++ {
		sh := bal.Shape{MaxMembers: 6, MaxTopics: 4, MaxParts: 8}
		if i%5 == 0 {
			sh = bal.Shape{MaxMembers: 14, MaxTopics: 8, MaxParts: 16}
		}
		ms, ts := bal.Random(r, sh)
		for len(ms) < 2 && !r.Chance(10) { // single-member groups have nothing to hand over: keep only a few
			ms, ts = bal.Random(r, sh)
		}
		history(r, ms, ts, true)
	}
	for i := 0; i < a.N(5, 50); i++ {
		ms, ts := bal.Random(r, bal.Shape{MaxMembers: 200, MaxTopics: 50, MaxParts: 24})
		history(r, ms, ts, true)
	}
}

type state struct {
	ms   []bal.Mem
	ts   []bal.Topic
	post bal.Plan
}

// rejoin: every member owns exactly what the last adjusted plan gave it and joins at generation g.
func (s *state) rejoin() (g int32) {
	g = 0
	for _, m := range s.ms {
		if m.Gen > g {
			g = m.Gen
		}
	}
	g++
	for i := range s.ms {
		m := &s.ms[i]
		m.Gen = g
		m.Owned = nil
		var names []string
		for t, ps := range s.post[m.ID] {
			if len(ps) > 0 {
				names = append(names, t)
			}
		}
		sort.Strings(names)
		for _, t := range names {
			m.Owned = append(m.Owned, bal.Own{Topic: t, Parts: append([]int32(nil), s.post[m.ID][t]...)})
		}
	}
	return g
}

// join builds the JoinGroup members the way the client does: stickyBalancer.JoinGroupMetadata on the
// current assignment, then the rack patched into the decoded metadata (consumer_group.go).
func (s *state) join() []kmsg.JoinGroupResponseMember {
	gb := kgo.CooperativeStickyBalancer()
	var out []kmsg.JoinGroupResponseMember
	for _, m := range s.ms {
		cur := map[string][]int32{}
		for _, o := range m.Owned {
			cur[o.Topic] = append(cur[o.Topic], o.Parts...)
		}
		subs := append([]string(nil), m.Subs...)
		sort.Strings(subs)
		raw := gb.JoinGroupMetadata(subs, cur, m.Gen)
		if m.Rack != nil {
			var meta kmsg.ConsumerMemberMetadata
			meta.Default()
			if err := meta.ReadFrom(raw); err != nil {
				panic(err)
			}
			meta.Rack = m.Rack
			raw = meta.AppendTo(nil)
		}
		jm := kmsg.NewJoinGroupResponseMember()
		jm.MemberID = m.ID
		jm.InstanceID = m.Inst
		jm.ProtocolMetadata = raw
		out = append(out, jm)
	}
	return out
}

func run() {
	var s state
	rounds := 0
	hx.RunLines(30*time.Second, func(t []string) string {
		hx.St.Inc("op_" + t[0])
		var join []kmsg.JoinGroupResponseMember
		switch t[0] {
		case "reset":
			s = state{}
			s.ms, s.ts = bal.DecMembers(t[1]), bal.DecTopics(t[2])
			join = bal.JoinMembers(s.ms, "coop")
			rounds = 1
		case "next":
			s.rejoin()
			join = s.join()
			rounds++
		case "change":
			s.rejoin()
			for _, c := range strings.Split(t[1], ";") {
				f := strings.Split(c, ":")
				subs := func(x string) []string {
					if x == "-" || x == "" {
						return nil
					}
					return strings.Split(x, "+")
				}
				switch f[0] {
				case "drop":
					var keep []bal.Mem
					for _, m := range s.ms {
						if m.ID != f[1] {
							keep = append(keep, m)
						}
					}
					s.ms = keep
				case "subs":
					for i := range s.ms {
						if s.ms[i].ID == f[1] {
							s.ms[i].Subs = subs(f[2])
						}
					}
				case "join":
					s.ms = append(s.ms, bal.Mem{ID: f[1], Gen: -1, Subs: subs(f[2])})
				}
			}
			join = s.join()
			rounds = 1
		default:
			return "bad-op"
		}
		pre, post := bal.RunCoopHook(join, s.ts)
		s.post = post
		withheld := bal.ShowPlan(pre) != bal.ShowPlan(post)
		if withheld {
			hx.St.Inc("round_" + hx.Itoa(int64(min(rounds, 4))) + "_withholds")
		} else {
			hx.St.Inc("round_" + hx.Itoa(int64(min(rounds, 4))) + "_complete")
		}
		return bal.ShowPlan(pre) + " # " + bal.ShowPlan(post)
	})
}

func main() {
	a := hx.Parse()
	switch a.Mode {
	case "gen":
		gen(a)
		hx.Flush()
	case "run":
		run()
	}
}
