// C17 harness: the wire primitives of pkg/kbin and of kmsg's private copy (compiled from a verbatim
// copy regenerated on every run into ./privkbin) under the same ops. The grammar is the header of
// lean/Driver/C17.lean. When the two copies answer differently the result is `<public> ## <private>`.
package main

import (
	"encoding/binary"
	"fmt"
	"math"
	"os"
	"runtime"
	"strconv"
	"strings"
	"sync"
	"time"

	"github.com/twmb/franz-go/pkg/kbin"
	priv "verifharness/cmd/c17/privkbin"
	"verifharness/hx"
)

type reader interface {
	Bool() bool
	Int8() int8
	Int16() int16
	Uint16() uint16
	Int32() int32
	Int64() int64
	Uuid() [16]byte
	Float64() float64
	Uint32() uint32
	Varint() int32
	Varlong() int64
	Uvarint() uint32
	Span(int) []byte
	UnsafeString() string
	String() string
	UnsafeCompactString() string
	CompactString() string
	UnsafeNullableString() *string
	NullableString() *string
	UnsafeCompactNullableString() *string
	CompactNullableString() *string
	Bytes() []byte
	CompactBytes() []byte
	NullableBytes() []byte
	CompactNullableBytes() []byte
	ArrayLen() int32
	VarintArrayLen() int32
	CompactArrayLen() int32
	VarintBytes() []byte
	UnsafeVarintString() string
	VarintString() string
	Complete() error
	Ok() bool
}

type api struct {
	AppendBool                    func([]byte, bool) []byte
	AppendInt8                    func([]byte, int8) []byte
	AppendInt16                   func([]byte, int16) []byte
	AppendUint16                  func([]byte, uint16) []byte
	AppendInt32                   func([]byte, int32) []byte
	AppendUint32                  func([]byte, uint32) []byte
	AppendInt64                   func([]byte, int64) []byte
	AppendFloat64                 func([]byte, float64) []byte
	AppendUuid                    func([]byte, [16]byte) []byte
	AppendVarint                  func([]byte, int32) []byte
	AppendUvarint                 func([]byte, uint32) []byte
	AppendVarlong                 func([]byte, int64) []byte
	VarintLen                     func(int32) int
	UvarintLen                    func(uint32) int
	VarlongLen                    func(int64) int
	Varint                        func([]byte) (int32, int)
	Uvarint                       func([]byte) (uint32, int)
	Varlong                       func([]byte) (int64, int)
	AppendString                  func([]byte, string) []byte
	AppendCompactString           func([]byte, string) []byte
	AppendNullableString          func([]byte, *string) []byte
	AppendCompactNullableString   func([]byte, *string) []byte
	AppendBytes                   func([]byte, []byte) []byte
	AppendCompactBytes            func([]byte, []byte) []byte
	AppendNullableBytes           func([]byte, []byte) []byte
	AppendCompactNullableBytes    func([]byte, []byte) []byte
	AppendVarintString            func([]byte, string) []byte
	AppendVarintBytes             func([]byte, []byte) []byte
	AppendArrayLen                func([]byte, int) []byte
	AppendCompactArrayLen         func([]byte, int) []byte
	AppendNullableArrayLen        func([]byte, int, bool) []byte
	AppendCompactNullableArrayLen func([]byte, int, bool) []byte
	NewReader                     func([]byte) (reader, func() []byte)
}

var pub = api{
	kbin.AppendBool, kbin.AppendInt8, kbin.AppendInt16, kbin.AppendUint16, kbin.AppendInt32, kbin.AppendUint32, kbin.AppendInt64,
	kbin.AppendFloat64, kbin.AppendUuid, kbin.AppendVarint, kbin.AppendUvarint, kbin.AppendVarlong, kbin.VarintLen, kbin.UvarintLen,
	kbin.VarlongLen, kbin.Varint, kbin.Uvarint, kbin.Varlong, kbin.AppendString, kbin.AppendCompactString, kbin.AppendNullableString,
	kbin.AppendCompactNullableString, kbin.AppendBytes, kbin.AppendCompactBytes, kbin.AppendNullableBytes, kbin.AppendCompactNullableBytes,
	kbin.AppendVarintString, kbin.AppendVarintBytes, kbin.AppendArrayLen, kbin.AppendCompactArrayLen, kbin.AppendNullableArrayLen,
	kbin.AppendCompactNullableArrayLen,
	func(src []byte) (reader, func() []byte) { r := &kbin.Reader{Src: src}; return r, func() []byte { return r.Src } },
}

var prv = api{
	priv.AppendBool, priv.AppendInt8, priv.AppendInt16, priv.AppendUint16, priv.AppendInt32, priv.AppendUint32, priv.AppendInt64,
	priv.AppendFloat64, priv.AppendUuid, priv.AppendVarint, priv.AppendUvarint, priv.AppendVarlong, priv.VarintLen, priv.UvarintLen,
	priv.VarlongLen, priv.Varint, priv.Uvarint, priv.Varlong, priv.AppendString, priv.AppendCompactString, priv.AppendNullableString,
	priv.AppendCompactNullableString, priv.AppendBytes, priv.AppendCompactBytes, priv.AppendNullableBytes, priv.AppendCompactNullableBytes,
	priv.AppendVarintString, priv.AppendVarintBytes, priv.AppendArrayLen, priv.AppendCompactArrayLen, priv.AppendNullableArrayLen,
	priv.AppendCompactNullableArrayLen,
	func(src []byte) (reader, func() []byte) { r := &priv.Reader{Src: src}; return r, func() []byte { return r.Src } },
}

// ---------------------------------------------------------------- run

func clone(b []byte) []byte { // a fresh slice with spare capacity 0, so that append never aliases across calls
	if b == nil {
		return nil
	}
	c := make([]byte, len(b))
	copy(c, b)
	return c
}

func strp(tok string) *string {
	if tok == "-" {
		return nil
	}
	s := string(hx.UnHex(tok))
	return &s
}

func pstr(p *string) string {
	if p == nil {
		return "-"
	}
	return hx.Hex([]byte(*p))
}

func enc(a *api, name string, dst []byte, args []string) string {
	i := func() int64 { return hx.Atoi(args[0]) }
	u64 := func() uint64 {
		v, err := strconv.ParseUint(args[0], 10, 64)
		if err != nil {
			panic("bad uint token")
		}
		return v
	}
	switch name {
	case "uv":
		u := uint32(i())
		return hx.Hex(a.AppendUvarint(dst, u)) + " " + strconv.Itoa(a.UvarintLen(u))
	case "v":
		v := int32(i())
		return hx.Hex(a.AppendVarint(dst, v)) + " " + strconv.Itoa(a.VarintLen(v))
	case "vl":
		v := i()
		return hx.Hex(a.AppendVarlong(dst, v)) + " " + strconv.Itoa(a.VarlongLen(v))
	case "bool":
		return hx.Hex(a.AppendBool(dst, i() != 0))
	case "i8":
		return hx.Hex(a.AppendInt8(dst, int8(i())))
	case "i16":
		return hx.Hex(a.AppendInt16(dst, int16(i())))
	case "u16":
		return hx.Hex(a.AppendUint16(dst, uint16(i())))
	case "i32":
		return hx.Hex(a.AppendInt32(dst, int32(i())))
	case "u32":
		return hx.Hex(a.AppendUint32(dst, uint32(i())))
	case "i64":
		return hx.Hex(a.AppendInt64(dst, i()))
	case "f64":
		return hx.Hex(a.AppendFloat64(dst, math.Float64frombits(u64())))
	case "uuid":
		var u [16]byte
		copy(u[:], hx.UnHex(args[0]))
		return hx.Hex(a.AppendUuid(dst, u))
	case "str":
		return hx.Hex(a.AppendString(dst, string(hx.UnHex(args[0]))))
	case "cstr":
		return hx.Hex(a.AppendCompactString(dst, string(hx.UnHex(args[0]))))
	case "nstr":
		return hx.Hex(a.AppendNullableString(dst, strp(args[0])))
	case "cnstr":
		return hx.Hex(a.AppendCompactNullableString(dst, strp(args[0])))
	case "bytes":
		return hx.Hex(a.AppendBytes(dst, hx.UnHex(args[0])))
	case "cbytes":
		return hx.Hex(a.AppendCompactBytes(dst, hx.UnHex(args[0])))
	case "nbytes":
		return hx.Hex(a.AppendNullableBytes(dst, hx.UnHex(args[0])))
	case "cnbytes":
		return hx.Hex(a.AppendCompactNullableBytes(dst, hx.UnHex(args[0])))
	case "vstr":
		return hx.Hex(a.AppendVarintString(dst, string(hx.UnHex(args[0]))))
	case "vbytes":
		return hx.Hex(a.AppendVarintBytes(dst, hx.UnHex(args[0])))
	case "alen":
		return hx.Hex(a.AppendArrayLen(dst, int(i())))
	case "calen":
		return hx.Hex(a.AppendCompactArrayLen(dst, int(i())))
	case "nalen":
		return hx.Hex(a.AppendNullableArrayLen(dst, int(i()), args[1] == "1"))
	case "cnalen":
		return hx.Hex(a.AppendCompactNullableArrayLen(dst, int(i()), args[1] == "1"))
	}
	return "bad-op"
}

func dec(a *api, name string, in []byte) string {
	switch name {
	case "uv":
		x, n := a.Uvarint(in)
		return fmt.Sprintf("%d %d", x, n)
	case "v":
		x, n := a.Varint(in)
		return fmt.Sprintf("%d %d", x, n)
	case "vl":
		x, n := a.Varlong(in)
		return fmt.Sprintf("%d %d", x, n)
	}
	return "bad-op"
}

func method(r reader, m string) string {
	switch m {
	case "bool":
		return hx.B(r.Bool())
	case "i8":
		return hx.Itoa(int64(r.Int8()))
	case "i16":
		return hx.Itoa(int64(r.Int16()))
	case "u16":
		return hx.Itoa(int64(r.Uint16()))
	case "i32":
		return hx.Itoa(int64(r.Int32()))
	case "u32":
		return hx.Itoa(int64(r.Uint32()))
	case "i64":
		return hx.Itoa(r.Int64())
	case "f64":
		return strconv.FormatUint(math.Float64bits(r.Float64()), 10)
	case "uuid":
		u := r.Uuid()
		return hx.Hex(u[:])
	case "v":
		return hx.Itoa(int64(r.Varint()))
	case "uv":
		return hx.Itoa(int64(r.Uvarint()))
	case "vl":
		return hx.Itoa(r.Varlong())
	case "str":
		return hx.Hex([]byte(r.String()))
	case "ustr":
		return hx.Hex([]byte(r.UnsafeString()))
	case "cstr":
		return hx.Hex([]byte(r.CompactString()))
	case "ucstr":
		return hx.Hex([]byte(r.UnsafeCompactString()))
	case "nstr":
		return pstr(r.NullableString())
	case "unstr":
		return pstr(r.UnsafeNullableString())
	case "cnstr":
		return pstr(r.CompactNullableString())
	case "ucnstr":
		return pstr(r.UnsafeCompactNullableString())
	case "bytes":
		return hx.Hex(r.Bytes())
	case "cbytes":
		return hx.Hex(r.CompactBytes())
	case "nbytes":
		return hx.Hex(r.NullableBytes())
	case "cnbytes":
		return hx.Hex(r.CompactNullableBytes())
	case "alen":
		return hx.Itoa(int64(r.ArrayLen()))
	case "valen":
		return hx.Itoa(int64(r.VarintArrayLen()))
	case "calen":
		return hx.Itoa(int64(r.CompactArrayLen()))
	case "vbytes":
		return hx.Hex(r.VarintBytes())
	case "vstr":
		return hx.Hex([]byte(r.VarintString()))
	case "uvstr":
		return hx.Hex([]byte(r.UnsafeVarintString()))
	}
	if strings.HasPrefix(m, "span:") {
		return hx.Hex(r.Span(int(hx.Atoi(m[5:]))))
	}
	return "bad-op"
}

func rd(a *api, src []byte, ms []string) string {
	r, get := a.NewReader(src)
	var out []string
	for _, m := range ms {
		s := method(r, m)
		if s == "" { // string results: "" prints as "."
			s = "."
		}
		if s == "bad-op" {
			return s
		}
		out = append(out, s)
	}
	ok := r.Ok()
	if (r.Complete() == nil) != ok {
		return "complete-ok-mismatch"
	}
	out = append(out, "ok="+hx.B(ok), "src="+hx.Hex(get()))
	return strings.Join(out, " ")
}

func fnv(h, x uint64) uint64 { return (h ^ x) * 1099511628211 }

func sweep(a *api, kind string, start, step, count uint64) string {
	h := uint64(14695981039346656037)
	x := start
	for i := uint64(0); i < count; i++ {
		var bs []byte
		var l int
		var dv uint64
		var dn int
		switch kind {
		case "uv":
			u := uint32(x)
			bs, l = a.AppendUvarint(nil, u), a.UvarintLen(u)
			v, n := a.Uvarint(bs)
			dv, dn = uint64(v), n
		case "v":
			u := int32(uint32(x))
			bs, l = a.AppendVarint(nil, u), a.VarintLen(u)
			v, n := a.Varint(bs)
			dv, dn = uint64(uint32(v)), n
		default:
			u := int64(x)
			bs, l = a.AppendVarlong(nil, u), a.VarlongLen(u)
			v, n := a.Varlong(bs)
			dv, dn = uint64(v), n
		}
		for _, b := range bs {
			h = fnv(h, uint64(b))
		}
		h = fnv(fnv(fnv(h, uint64(l)), dv), uint64(dn+100))
		x += step
		if kind != "vl" {
			x &= 0xffffffff
		}
	}
	return strconv.FormatUint(h, 10)
}

func one(a *api, t []string) string {
	switch t[0] {
	case "e":
		return enc(a, t[1], clone(hx.UnHex(t[2])), t[3:])
	case "d":
		return dec(a, t[1], hx.UnHex(t[2]))
	case "r":
		return rd(a, clone(hx.UnHex(t[1])), t[2:])
	case "sw":
		p := func(s string) uint64 { v, _ := strconv.ParseUint(s, 10, 64); return v }
		return sweep(a, t[1], p(t[2]), p(t[3]), p(t[4]))
	}
	return "bad-op"
}

func run() {
	hx.RunLines(120*time.Second, func(t []string) string {
		if len(t) < 2 {
			return "bad-op"
		}
		a := one(&pub, t)
		b := hx.Guard(0, func() string { return one(&prv, t) })
		switch t[0] {
		case "e":
			hx.St.Inc("op_enc_" + t[1])
		case "d":
			hx.St.Inc("op_dec_" + t[1])
			hx.St.Inc("dec_inputlen_" + bucket(len(hx.UnHex(t[2]))))
		case "sw":
			hx.St.Inc("op_sweep_" + t[1])
			if len(t) == 5 {
				n, _ := strconv.Atoi(t[4])
				hx.St["sweep_values_"+t[1]] += n
			}
		}
		if t[0] == "r" {
			hx.St.Inc(fmt.Sprintf("op_rd_methods_%d", min(len(t)-2, 4)))
			hx.St.Inc(fmt.Sprintf("rd_srclen_%s", bucket(len(hx.UnHex(t[1])))))
			if strings.Contains(a, "ok=0") {
				hx.St.Inc("rd_outcome_invalidated")
			} else {
				hx.St.Inc("rd_outcome_ok")
			}
			for _, m := range t[2:] {
				if i := strings.IndexByte(m, ':'); i >= 0 {
					m = m[:i]
				}
				hx.St.Inc("rd_method_" + m)
			}
		}
		if t[0] == "d" {
			f := strings.Fields(a)
			if len(f) == 2 {
				n, _ := strconv.Atoi(f[1])
				switch {
				case n > 0:
					hx.St.Inc("dec_result_ok_n" + f[1])
				case n == 0:
					hx.St.Inc("dec_result_short")
				default:
					hx.St.Inc("dec_result_overflow")
				}
			}
		}
		if a != b {
			return a + " ## " + b
		}
		return a
	})
}

func bucket(n int) string {
	switch {
	case n == 0:
		return "0"
	case n < 4:
		return "1-3"
	case n < 12:
		return "4-11"
	case n < 64:
		return "12-63"
	}
	return "64+"
}

// ---------------------------------------------------------------- gen

var emitted int

func emit(f string, a ...any) { hx.Emit(f, a...); emitted++ }

// boundary pools
func pool32() []uint32 {
	var p []uint32
	add := func(v uint64) { p = append(p, uint32(v)) }
	for k := 0; k <= 5; k++ {
		b := uint64(1) << (7 * k)
		for _, d := range []int64{-2, -1, 0, 1, 2} {
			add(uint64(int64(b) + d))
		}
	}
	for _, s := range []uint{8, 15, 16, 24, 28, 31, 32} {
		b := uint64(1) << s
		for _, d := range []int64{-2, -1, 0, 1} {
			add(uint64(int64(b) + d))
		}
	}
	add(0)
	add(0xffffffff)
	add(0x80000000)
	add(0x7fffffff)
	return p
}

func pool64() []uint64 {
	var p []uint64
	for k := 0; k <= 9; k++ {
		b := uint64(1) << (7 * k)
		for _, d := range []int64{-2, -1, 0, 1, 2} {
			p = append(p, uint64(int64(b)+d))
		}
	}
	for _, s := range []uint{8, 16, 31, 32, 33, 48, 56, 62, 63} {
		b := uint64(1) << s
		for _, d := range []int64{-2, -1, 0, 1} {
			p = append(p, uint64(int64(b)+d))
		}
	}
	p = append(p, 0, math.MaxUint64, math.MaxUint64-1, 1<<63, 1<<63-1)
	return p
}

func rnd32(r *hx.Rng) uint32 { // random with random bit length (uniform over widths, not over values)
	return uint32(r.U64() >> (32 + uint(r.Intn(32))))
}
func rnd64(r *hx.Rng) uint64 { return r.U64() >> uint(r.Intn(64)) }

func dstTok(r *hx.Rng) string {
	if r.Chance(85) {
		return "."
	}
	return hx.Hex(r.Bytes(1 + r.Intn(3)))
}

// payload bytes for decoder structures: boundary 7-bit groups
var groups = []byte{0x00, 0x01, 0x7f, 0x40, 0x0f, 0x10, 0x02, 0x3f}

// structured decoder inputs: for every length L (0..maxLen) and every continuation-bit pattern over the L bytes, with
// payload groups from the boundary pool and the overflow-relevant last byte values.
func genDecStructures(r *hx.Rng, kind string, maxB int, per int) {
	lastVals := []byte{0x00, 0x01, 0x02, 0x0f, 0x10, 0x11, 0x7f, 0x80, 0x81, 0x8f, 0x90, 0xff}
	for L := 0; L <= maxB+1; L++ {
		for pat := 0; pat < 1<<L; pat++ {
			for rep := 0; rep < per; rep++ {
				b := make([]byte, L)
				for i := range b {
					g := groups[r.Intn(len(groups))]
					if rep > 0 && r.Chance(50) {
						g = byte(r.U64()) & 0x7f
					}
					if pat>>i&1 == 1 {
						g |= 0x80
					}
					b[i] = g
				}
				if L >= maxB && rep < len(lastVals)*2 { // exercise the overflow test of the last byte
					b[maxB-1] = lastVals[(rep+pat)%len(lastVals)]
				}
				emit("d %s %s", kind, hx.Hex(b))
			}
		}
	}
}

type rdCase struct {
	method string
	enc    func(r *hx.Rng) []byte
}

func lenPool(r *hx.Rng) int {
	return hx.Pick(r, []int{0, 0, 1, 1, 2, 3, 5, 8, 12, 63, 64, 126, 127, 128, 129, 200})
}

func validEncoding(r *hx.Rng, m string) []byte {
	p32, p64 := pool32(), pool64()
	u32 := func() uint32 {
		if r.Chance(50) {
			return hx.Pick(r, p32)
		}
		return rnd32(r)
	}
	u64 := func() uint64 {
		if r.Chance(50) {
			return hx.Pick(r, p64)
		}
		return rnd64(r)
	}
	pl := func() []byte { return r.Bytes(lenPool(r)) }
	switch m {
	case "bool":
		return []byte{hx.Pick(r, []byte{0, 1, 2, 0xff})}
	case "i8":
		return r.Bytes(1)
	case "i16", "u16":
		return kbinRef16(uint16(u32()))
	case "i32", "u32":
		return binary.BigEndian.AppendUint32(nil, u32())
	case "i64", "f64":
		return binary.BigEndian.AppendUint64(nil, u64())
	case "uuid":
		return r.Bytes(16)
	case "uv":
		return binary.AppendUvarint(nil, uint64(u32()))
	case "v":
		return binary.AppendVarint(nil, int64(int32(u32())))
	case "vl":
		return binary.AppendVarint(nil, int64(u64()))
	case "str", "ustr", "nstr", "unstr":
		p := pl()
		if strings.Contains(m, "n") && r.Chance(20) {
			return []byte{0xff, byte(hx.Pick(r, []int{0xff, 0xfe, 0x00}))} // -1, -2, -256
		}
		return append(kbinRef16(uint16(len(p))), p...)
	case "cstr", "ucstr", "cnstr", "ucnstr", "cbytes", "cnbytes":
		p := pl()
		if r.Chance(15) {
			return []byte{0}
		}
		return append(binary.AppendUvarint(nil, uint64(len(p)+1)), p...)
	case "bytes", "nbytes":
		p := pl()
		if r.Chance(20) {
			return binary.BigEndian.AppendUint32(nil, uint32(hx.Pick(r, []int32{-1, -1, -2, math.MinInt32})))
		}
		return append(binary.BigEndian.AppendUint32(nil, uint32(len(p))), p...)
	case "vbytes", "vstr", "uvstr":
		p := pl()
		if r.Chance(20) {
			return binary.AppendVarint(nil, int64(hx.Pick(r, []int32{-1, -2, math.MinInt32})))
		}
		return append(binary.AppendVarint(nil, int64(len(p))), p...)
	case "alen", "valen", "calen":
		rest := lenPool(r)
		cnt := int64(rest) + r.Range(-3, 2)
		switch r.Intn(8) {
		case 0:
			cnt = -1
		case 1:
			cnt = int64(hx.Pick(r, []int64{math.MaxInt32, math.MinInt32, math.MaxInt32 - 1, -2}))
		}
		var hd []byte
		switch m {
		case "alen":
			hd = binary.BigEndian.AppendUint32(nil, uint32(int32(cnt)))
		case "valen":
			hd = binary.AppendVarint(nil, int64(int32(cnt)))
		default:
			u := uint32(int32(cnt) + 1)
			if r.Chance(10) {
				u = hx.Pick(r, []uint32{0x80000000, 0x80000001, 0xffffffff, 0x7fffffff})
			}
			hd = binary.AppendUvarint(nil, uint64(u))
		}
		return append(hd, r.Bytes(rest)...)
	}
	if strings.HasPrefix(m, "span:") {
		return r.Bytes(lenPool(r))
	}
	return nil
}

func kbinRef16(u uint16) []byte { return []byte{byte(u >> 8), byte(u)} }

var methods = []string{"bool", "i8", "i16", "u16", "i32", "u32", "i64", "f64", "uuid", "v", "uv", "vl", "str", "ustr", "cstr", "ucstr",
	"nstr", "unstr", "cnstr", "ucnstr", "bytes", "cbytes", "nbytes", "cnbytes", "alen", "valen", "calen", "vbytes", "vstr", "uvstr", "span"}

func pickMethod(r *hx.Rng) string {
	m := hx.Pick(r, methods)
	if m == "span" {
		m = fmt.Sprintf("span:%d", hx.Pick(r, []int{0, 0, 1, 2, 3, 8, 16, 127, 128, -1, -5, 1 << 20, math.MaxInt32, math.MinInt32}))
	}
	return m
}

func genReaders(r *hx.Rng, n int) {
	// every method on the empty and the nil reader, alone and after a failing read
	for _, m := range methods {
		if m == "span" {
			for _, l := range []int{0, 1, -1} {
				emit("r - span:%d", l)
				emit("r . span:%d", l)
				emit("r 00 i16 span:%d span:0", l)
			}
			continue
		}
		emit("r - %s", m)
		emit("r . %s", m)
		emit("r 01 i32 %s %s", m, m) // after an invalidating read: defaults, stays bad
	}
	for i := 0; i < n; i++ {
		k := 1 + r.Intn(3)
		if r.Chance(40) {
			k = 1
		}
		var src []byte
		var ms []string
		for j := 0; j < k; j++ {
			m := pickMethod(r)
			ms = append(ms, m)
			src = append(src, validEncoding(r, m)...)
		}
		switch c := r.Intn(100); {
		case c < 55: // valid, possibly with trailing bytes
			if r.Chance(30) {
				src = append(src, r.Bytes(1+r.Intn(4))...)
			}
		case c < 80: // truncated
			if len(src) > 0 {
				src = src[:r.Intn(len(src))]
			}
		case c < 90: // one byte corrupted
			if len(src) > 0 {
				src[r.Intn(len(src))] = hx.Pick(r, []byte{0x00, 0x7f, 0x80, 0xff, byte(r.U64())})
			}
		default: // malformed stream: random short bytes, often with continuation bits
			src = r.Bytes(r.Intn(13))
			if r.Chance(50) {
				for i := range src {
					src[i] |= 0x80
				}
			}
		}
		if src == nil {
			src = []byte{}
		}
		emit("r %s %s", hx.Hex(src), strings.Join(ms, " "))
	}
}

func genEnc(r *hx.Rng, n int) {
	p32, p64 := pool32(), pool64()
	for _, u := range p32 {
		emit("e uv . %d", u)
		emit("e v . %d", int32(u))
		emit("e v . %d", int32(u>>1)^-int32(u&1)) // zig-zag preimage of the boundary
		emit("e i32 . %d", int32(u))
		emit("e u32 . %d", u)
		emit("e i16 . %d", int16(u))
		emit("e u16 . %d", uint16(u))
		emit("e i8 . %d", int8(u))
		emit("e alen . %d", int32(u))
		emit("e calen . %d", u)
		emit("e nalen . %d %d", int32(u), u&1)
		emit("e cnalen . %d %d", u, u>>1&1)
	}
	for _, u := range p64 {
		emit("e vl . %d", int64(u))
		emit("e vl . %d", int64(u>>1)^-int64(u&1))
		emit("e i64 . %d", int64(u))
		emit("e f64 . %d", u)
		emit("e alen . %d", int64(u)) // int -> int32 truncation
		emit("e calen . %d", int64(u))
	}
	for _, f := range []float64{0, math.Copysign(0, -1), 1, -1, math.Inf(1), math.Inf(-1), math.MaxFloat64, math.SmallestNonzeroFloat64, math.Pi} {
		emit("e f64 . %d", math.Float64bits(f))
	}
	emit("e f64 . %d", uint64(0x7ff8000000000001)) // NaNs with payloads
	emit("e f64 . %d", uint64(0x7ff0000000000001))
	emit("e f64 . %d", uint64(0xfff8000000000000))
	emit("e bool . 0")
	emit("e bool . 1")
	emit("e bool 00ff 1")
	for _, name := range []string{"str", "cstr", "nstr", "cnstr", "bytes", "cbytes", "nbytes", "cnbytes", "vstr", "vbytes"} {
		for _, l := range []int{0, 1, 2, 62, 63, 64, 65, 126, 127, 128, 129, 8191, 8192, 16382, 16383, 16384, 16385, 32767, 32768, 32769, 65535, 65536, 65537} {
			emit("e %s %s %s", name, dstTok(r), hx.Hex(fill(r, l)))
		}
		if strings.HasPrefix(name, "n") || strings.HasPrefix(name, "cn") || name == "vbytes" {
			emit("e %s . -", name)
			emit("e %s 01 -", name)
		}
	}
	for i := 0; i < n; i++ {
		d := dstTok(r)
		switch r.Intn(14) {
		case 0, 1, 2:
			emit("e uv %s %d", d, rnd32(r))
		case 3, 4:
			emit("e v %s %d", d, int32(r.U64())>>uint(r.Intn(32)))
		case 5, 6, 7:
			emit("e vl %s %d", d, int64(r.U64())>>uint(r.Intn(64)))
		case 8:
			emit("e %s %s %d", hx.Pick(r, []string{"i32", "alen"}), d, int32(r.U64()))
		case 9:
			emit("e i64 %s %d", d, int64(r.U64()))
		case 10:
			emit("e %s %s %d", hx.Pick(r, []string{"i16", "i8"}), d, int8(r.U64()))
		case 11:
			emit("e uuid %s %s", d, hx.Hex(r.Bytes(16)))
		case 12:
			name := hx.Pick(r, []string{"str", "cstr", "nstr", "cnstr", "bytes", "cbytes", "nbytes", "cnbytes", "vstr", "vbytes"})
			emit("e %s %s %s", name, d, hx.Hex(fill(r, lenPool(r))))
		default:
			emit("e %s %s %d %d", hx.Pick(r, []string{"nalen", "cnalen"}), d, r.Intn(1<<20), r.Intn(2))
		}
	}
}

func fill(r *hx.Rng, l int) []byte {
	b := make([]byte, l)
	if l <= 256 {
		copy(b, r.Bytes(l))
		return b
	}
	c := byte(r.U64())
	for i := range b {
		b[i] = c + byte(i)
	}
	return b
}

func genDecRandom(r *hx.Rng, n int) {
	for i := 0; i < n; i++ {
		kind := hx.Pick(r, []string{"uv", "v", "vl", "vl"})
		var b []byte
		switch r.Intn(5) {
		case 0: // valid encoding + trailing garbage
			if kind == "vl" {
				b = binary.AppendUvarint(nil, rnd64(r))
			} else {
				b = binary.AppendUvarint(nil, uint64(rnd32(r)))
			}
			b = append(b, r.Bytes(r.Intn(3))...)
		case 1: // valid, truncated
			b = binary.AppendUvarint(nil, r.U64())
			b = b[:r.Intn(len(b)+1)]
		case 2: // long runs of continuation bytes
			b = r.Bytes(r.Intn(14))
			for i := range b {
				b[i] |= 0x80
			}
			if len(b) > 0 && r.Chance(70) {
				b[len(b)-1] &= 0x7f
			}
		case 3: // 64-bit values given to the 32-bit decoder and around the overflow byte
			b = binary.AppendUvarint(nil, uint64(1)<<uint(28+r.Intn(36))|r.U64()>>36)
		default:
			b = r.Bytes(r.Intn(12))
		}
		if b == nil {
			b = []byte{}
		}
		emit("d %s %s", kind, hx.Hex(b))
	}
}

func genSweeps(r *hx.Rng, chunks, size int) {
	// windows around every length boundary, then random strides over the whole range
	for k := 1; k <= 4; k++ {
		b := uint64(1) << (7 * k)
		emit("sw uv %d 1 %d", b-uint64(size/2), size)
		emit("sw v %d 1 %d", b/2-uint64(size/2), size)                // zig-zag images cross the boundary (positive side)
		emit("sw v %d 1 %d", uint64(uint32(-int32(b/2)))-uint64(size/2), size) // and the negative side
	}
	for k := 1; k <= 9; k++ {
		b := uint64(1) << (7 * k)
		emit("sw vl %d 1 %d", b/2-uint64(size/2), size)
		emit("sw vl %d 1 %d", -(b/2)-uint64(size/2), size)
	}
	emit("sw uv %d 1 %d", uint64(0xffffffff)-uint64(size/2), size)
	emit("sw v %d 1 %d", uint64(0x80000000)-uint64(size/2), size)
	emit("sw vl %d 1 %d", uint64(1)<<63-uint64(size/2), size)
	emit("sw vl %d 1 %d", -uint64(size/2), size)
	for i := 0; i < chunks; i++ {
		emit("sw uv %d %d %d", r.U64()&0xffffffff, r.U64()&0xffffff|1, size)
		emit("sw v %d %d %d", r.U64()&0xffffffff, r.U64()&0xffffff|1, size)
		emit("sw vl %d %d %d", r.U64(), r.U64()>>uint(r.Intn(40))|1, size)
	}
}

// Go-side exhaustive search (thorough tier and the search step): every 32-bit value through AppendUvarint / UvarintLen /
// Uvarint and AppendVarint / VarintLen / Varint of both copies against encoding/binary; the first differing values are
// emitted as ordinary ops, so that the Lean Spec decides them.
func exhaustive32() {
	type hit struct {
		kind string
		v    int64
	}
	var mu sync.Mutex
	var hits []hit
	workers := runtime.NumCPU()
	if workers > 8 {
		workers = 8
	}
	var wg sync.WaitGroup
	chunk := uint64(1<<32) / uint64(workers)
	for w := 0; w < workers; w++ {
		wg.Add(1)
		go func(lo, hi uint64) {
			defer wg.Done()
			defer func() { recover() }()
			var buf, ref [16]byte
			local := 0
			for x := lo; x < hi && local < 4; x++ {
				u := uint32(x)
				n := binary.PutUvarint(ref[:], uint64(u))
				for _, a := range []*api{&pub, &prv} {
					b := a.AppendUvarint(buf[:0], u)
					v, dn := a.Uvarint(b)
					if string(b) != string(ref[:n]) || a.UvarintLen(u) != n || v != u || dn != n {
						mu.Lock()
						hits = append(hits, hit{"uv", int64(u)})
						mu.Unlock()
						local++
					}
				}
				i := int32(u)
				n = binary.PutVarint(ref[:], int64(i))
				for _, a := range []*api{&pub, &prv} {
					b := a.AppendVarint(buf[:0], i)
					v, dn := a.Varint(b)
					if string(b) != string(ref[:n]) || a.VarintLen(i) != n || v != i || dn != n {
						mu.Lock()
						hits = append(hits, hit{"v", int64(i)})
						mu.Unlock()
						local++
					}
				}
			}
		}(uint64(w)*chunk, uint64(w+1)*chunk)
	}
	wg.Wait()
	for i, h := range hits {
		if i >= 16 {
			break
		}
		emit("e %s . %d", h.kind, h.v)
		emit("d %s %s", h.kind, hx.Hex(binary.AppendUvarint(nil, zz(h.kind, h.v))))
	}
}

func zz(kind string, v int64) uint64 {
	if kind == "uv" {
		return uint64(uint32(v))
	}
	return uint64(uint32(int32(v)<<1 ^ int32(v)>>31))
}

func gen(a hx.Args) {
	r := hx.NewRng(a.Seed)
	thorough := a.Tier == "thorough"
	genEnc(r, a.N(40000, 400000))
	genDecStructures(r, "uv", 5, pickN(thorough, 40, 300))
	genDecStructures(r, "v", 5, pickN(thorough, 20, 150))
	genDecStructures(r, "vl", 10, pickN(thorough, 5, 40))
	genDecRandom(r, a.N(40000, 400000))
	genReaders(r, a.N(60000, 600000))
	genSweeps(r, pickN(thorough, 4, 60), pickN(thorough, 2000, 20000))
	if thorough || a.Extra["mode"] == "search" {
		exhaustive32()
	}
	hx.Flush()
}

func pickN(thorough bool, q, t int) int {
	if thorough {
		return t
	}
	return q
}

func main() {
	a := hx.Parse()
	switch a.Mode {
	case "gen":
		gen(a)
	case "run":
		run()
	default:
		fmt.Fprintln(os.Stderr, "unknown mode")
		os.Exit(2)
	}
	hx.Flush()
}
