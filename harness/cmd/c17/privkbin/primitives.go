// Code copied on every run by props/C17.py from pkg/kmsg/internal/kbin/primitives.go of the tree under test. DO NOT EDIT.
// Package kbin contains Kafka primitive reading and writing functions.
package kbin

import (
	"encoding/binary"
	"errors"
	"math"
	"math/bits"
	"reflect"
	"unsafe"
)

// This file contains primitive type encoding and decoding.
//
// The Reader helper can be used even when content runs out
// or an error is hit; all other number requests will return
// zero so a decode will basically no-op.

// ErrNotEnoughData is returned when a type could not fully decode
// from a slice because the slice did not have enough data.
var ErrNotEnoughData = errors.New("response did not contain enough data to be valid")

// AppendBool appends 1 for true or 0 for false to dst.
func AppendBool(dst []byte, v bool) []byte {
	if v {
		return append(dst, 1)
	}
	return append(dst, 0)
}

// AppendInt8 appends an int8 to dst.
func AppendInt8(dst []byte, i int8) []byte {
	return append(dst, byte(i))
}

// AppendInt16 appends a big endian int16 to dst.
func AppendInt16(dst []byte, i int16) []byte {
	return AppendUint16(dst, uint16(i))
}

// AppendUint16 appends a big endian uint16 to dst.
func AppendUint16(dst []byte, u uint16) []byte {
	return append(dst, byte(u>>8), byte(u))
}

// AppendInt32 appends a big endian int32 to dst.
func AppendInt32(dst []byte, i int32) []byte {
	return AppendUint32(dst, uint32(i))
}

// AppendInt64 appends a big endian int64 to dst.
func AppendInt64(dst []byte, i int64) []byte {
	return appendUint64(dst, uint64(i))
}

// AppendFloat64 appends a big endian float64 to dst.
func AppendFloat64(dst []byte, f float64) []byte {
	return appendUint64(dst, math.Float64bits(f))
}

// AppendUuid appends the 16 uuid bytes to dst.
func AppendUuid(dst []byte, uuid [16]byte) []byte {
	return append(dst, uuid[:]...)
}

func appendUint64(dst []byte, u uint64) []byte {
	return append(dst, byte(u>>56), byte(u>>48), byte(u>>40), byte(u>>32),
		byte(u>>24), byte(u>>16), byte(u>>8), byte(u))
}

// AppendUint32 appends a big endian uint32 to dst.
func AppendUint32(dst []byte, u uint32) []byte {
	return append(dst, byte(u>>24), byte(u>>16), byte(u>>8), byte(u))
}

// uvarintLens could only be length 65, but using 256 allows bounds check
// elimination on lookup.
const uvarintLens = "\x01\x01\x01\x01\x01\x01\x01\x01\x02\x02\x02\x02\x02\x02\x02\x03\x03\x03\x03\x03\x03\x03\x04\x04\x04\x04\x04\x04\x04\x05\x05\x05\x05\x05\x05\x05\x06\x06\x06\x06\x06\x06\x06\x07\x07\x07\x07\x07\x07\x07\x08\x08\x08\x08\x08\x08\x08\x09\x09\x09\x09\x09\x09\x09\x0a\x00\x00\x00\x00\x00\x00\x00\x00\x00\x00\x00\x00\x00\x00\x00\x00\x00\x00\x00\x00\x00\x00\x00\x00\x00\x00\x00\x00\x00\x00\x00\x00\x00\x00\x00\x00\x00\x00\x00\x00\x00\x00\x00\x00\x00\x00\x00\x00\x00\x00\x00\x00\x00\x00\x00\x00\x00\x00\x00\x00\x00\x00\x00\x00\x00\x00\x00\x00\x00\x00\x00\x00\x00\x00\x00\x00\x00\x00\x00\x00\x00\x00\x00\x00\x00\x00\x00\x00\x00\x00\x00\x00\x00\x00\x00\x00\x00\x00\x00\x00\x00\x00\x00\x00\x00\x00\x00\x00\x00\x00\x00\x00\x00\x00\x00\x00\x00\x00\x00\x00\x00\x00\x00\x00\x00\x00\x00\x00\x00\x00\x00\x00\x00\x00\x00\x00\x00\x00\x00\x00\x00\x00\x00\x00\x00\x00\x00\x00\x00\x00\x00\x00\x00\x00\x00\x00\x00\x00\x00\x00\x00\x00\x00\x00\x00\x00\x00\x00\x00\x00\x00\x00\x00\x00\x00\x00\x00\x00\x00\x00\x00\x00\x00\x00\x00\x00\x00\x00\x00\x00\x00"

// VarintLen returns how long i would be if it were varint encoded.
func VarintLen(i int32) int {
	u := uint32(i)<<1 ^ uint32(i>>31)
	return UvarintLen(u)
}

// UvarintLen returns how long u would be if it were uvarint encoded.
func UvarintLen(u uint32) int {
	return int(uvarintLens[byte(bits.Len32(u))])
}

// VarlongLen returns how long i would be if it were varlong encoded.
func VarlongLen(i int64) int {
	u := uint64(i)<<1 ^ uint64(i>>63)
	return uvarlongLen(u)
}

func uvarlongLen(u uint64) int {
	return int(uvarintLens[byte(bits.Len64(u))])
}

// Varint is a loop unrolled 32 bit varint decoder. The return semantics
// are the same as binary.Varint, with the added benefit that overflows
// in 5 byte encodings are handled rather than left to the user.
func Varint(in []byte) (int32, int) {
	x, n := Uvarint(in)
	return int32((x >> 1) ^ -(x & 1)), n
}

// Uvarint is a loop unrolled 32 bit uvarint decoder. The return semantics
// are the same as binary.Uvarint, with the added benefit that overflows
// in 5 byte encodings are handled rather than left to the user.
func Uvarint(in []byte) (uint32, int) {
	var x uint32
	var overflow int

	if len(in) < 1 {
		goto fail
	}

	x = uint32(in[0] & 0x7f)
	if in[0]&0x80 == 0 {
		return x, 1
	} else if len(in) < 2 {
		goto fail
	}

	x |= uint32(in[1]&0x7f) << 7
	if in[1]&0x80 == 0 {
		return x, 2
	} else if len(in) < 3 {
		goto fail
	}

	x |= uint32(in[2]&0x7f) << 14
	if in[2]&0x80 == 0 {
		return x, 3
	} else if len(in) < 4 {
		goto fail
	}

	x |= uint32(in[3]&0x7f) << 21
	if in[3]&0x80 == 0 {
		return x, 4
	} else if len(in) < 5 {
		goto fail
	}

	x |= uint32(in[4]) << 28
	if in[4] <= 0x0f {
		return x, 5
	}

	overflow = -5

fail:
	return 0, overflow
}

// Varlong is a loop unrolled 64 bit varint decoder. The return semantics
// are the same as binary.Varint, with the added benefit that overflows
// in 10 byte encodings are handled rather than left to the user.
func Varlong(in []byte) (int64, int) {
	x, n := uvarlong(in)
	return int64((x >> 1) ^ -(x & 1)), n
}

func uvarlong(in []byte) (uint64, int) {
	var x uint64
	var overflow int

	if len(in) < 1 {
		goto fail
	}

	x = uint64(in[0] & 0x7f)
	if in[0]&0x80 == 0 {
		return x, 1
	} else if len(in) < 2 {
		goto fail
	}

	x |= uint64(in[1]&0x7f) << 7
	if in[1]&0x80 == 0 {
		return x, 2
	} else if len(in) < 3 {
		goto fail
	}

	x |= uint64(in[2]&0x7f) << 14
	if in[2]&0x80 == 0 {
		return x, 3
	} else if len(in) < 4 {
		goto fail
	}

	x |= uint64(in[3]&0x7f) << 21
	if in[3]&0x80 == 0 {
		return x, 4
	} else if len(in) < 5 {
		goto fail
	}

	x |= uint64(in[4]&0x7f) << 28
	if in[4]&0x80 == 0 {
		return x, 5
	} else if len(in) < 6 {
		goto fail
	}

	x |= uint64(in[5]&0x7f) << 35
	if in[5]&0x80 == 0 {
		return x, 6
	} else if len(in) < 7 {
		goto fail
	}

	x |= uint64(in[6]&0x7f) << 42
	if in[6]&0x80 == 0 {
		return x, 7
	} else if len(in) < 8 {
		goto fail
	}

	x |= uint64(in[7]&0x7f) << 49
	if in[7]&0x80 == 0 {
		return x, 8
	} else if len(in) < 9 {
		goto fail
	}

	x |= uint64(in[8]&0x7f) << 56
	if in[8]&0x80 == 0 {
		return x, 9
	} else if len(in) < 10 {
		goto fail
	}

	x |= uint64(in[9]) << 63
	if in[9] <= 0x01 {
		return x, 10
	}

	overflow = -10

fail:
	return 0, overflow
}

// AppendVarint appends a varint encoded i to dst.
func AppendVarint(dst []byte, i int32) []byte {
	return AppendUvarint(dst, uint32(i)<<1^uint32(i>>31))
}

// AppendUvarint appends a uvarint encoded u to dst.
func AppendUvarint(dst []byte, u uint32) []byte {
	switch UvarintLen(u) {
	case 5:
		return append(dst,
			byte(u&0x7f|0x80),
			byte((u>>7)&0x7f|0x80),
			byte((u>>14)&0x7f|0x80),
			byte((u>>21)&0x7f|0x80),
			byte(u>>28))
	case 4:
		return append(dst,
			byte(u&0x7f|0x80),
			byte((u>>7)&0x7f|0x80),
			byte((u>>14)&0x7f|0x80),
			byte(u>>21))
	case 3:
		return append(dst,
			byte(u&0x7f|0x80),
			byte((u>>7)&0x7f|0x80),
			byte(u>>14))
	case 2:
		return append(dst,
			byte(u&0x7f|0x80),
			byte(u>>7))
	case 1:
		return append(dst, byte(u))
	}
	return dst
}

// AppendVarlong appends a varint encoded i to dst.
func AppendVarlong(dst []byte, i int64) []byte {
	return appendUvarlong(dst, uint64(i)<<1^uint64(i>>63))
}

func appendUvarlong(dst []byte, u uint64) []byte {
	switch uvarlongLen(u) {
	case 10:
		return append(dst,
			byte(u&0x7f|0x80),
			byte((u>>7)&0x7f|0x80),
			byte((u>>14)&0x7f|0x80),
			byte((u>>21)&0x7f|0x80),
			byte((u>>28)&0x7f|0x80),
			byte((u>>35)&0x7f|0x80),
			byte((u>>42)&0x7f|0x80),
			byte((u>>49)&0x7f|0x80),
			byte((u>>56)&0x7f|0x80),
			byte(u>>63))
	case 9:
		return append(dst,
			byte(u&0x7f|0x80),
			byte((u>>7)&0x7f|0x80),
			byte((u>>14)&0x7f|0x80),
			byte((u>>21)&0x7f|0x80),
			byte((u>>28)&0x7f|0x80),
			byte((u>>35)&0x7f|0x80),
			byte((u>>42)&0x7f|0x80),
			byte((u>>49)&0x7f|0x80),
			byte(u>>56))
	case 8:
		return append(dst,
			byte(u&0x7f|0x80),
			byte((u>>7)&0x7f|0x80),
			byte((u>>14)&0x7f|0x80),
			byte((u>>21)&0x7f|0x80),
			byte((u>>28)&0x7f|0x80),
			byte((u>>35)&0x7f|0x80),
			byte((u>>42)&0x7f|0x80),
			byte(u>>49))
	case 7:
		return append(dst,
			byte(u&0x7f|0x80),
			byte((u>>7)&0x7f|0x80),
			byte((u>>14)&0x7f|0x80),
			byte((u>>21)&0x7f|0x80),
			byte((u>>28)&0x7f|0x80),
			byte((u>>35)&0x7f|0x80),
			byte(u>>42))
	case 6:
		return append(dst,
			byte(u&0x7f|0x80),
			byte((u>>7)&0x7f|0x80),
			byte((u>>14)&0x7f|0x80),
			byte((u>>21)&0x7f|0x80),
			byte((u>>28)&0x7f|0x80),
			byte(u>>35))
	case 5:
		return append(dst,
			byte(u&0x7f|0x80),
			byte((u>>7)&0x7f|0x80),
			byte((u>>14)&0x7f|0x80),
			byte((u>>21)&0x7f|0x80),
			byte(u>>28))
	case 4:
		return append(dst,
			byte(u&0x7f|0x80),
			byte((u>>7)&0x7f|0x80),
			byte((u>>14)&0x7f|0x80),
			byte(u>>21))
	case 3:
		return append(dst,
			byte(u&0x7f|0x80),
			byte((u>>7)&0x7f|0x80),
			byte(u>>14))
	case 2:
		return append(dst,
			byte(u&0x7f|0x80),
			byte(u>>7))
	case 1:
		return append(dst, byte(u))
	}
	return dst
}

// AppendString appends a string to dst prefixed with its int16 length.
func AppendString(dst []byte, s string) []byte {
	dst = AppendInt16(dst, int16(len(s)))
	return append(dst, s...)
}

// AppendCompactString appends a string to dst prefixed with its uvarint length
// starting at 1; 0 is reserved for null, which compact strings are not
// (nullable compact ones are!). Thus, the length is the decoded uvarint - 1.
//
// For KIP-482.
func AppendCompactString(dst []byte, s string) []byte {
	dst = AppendUvarint(dst, 1+uint32(len(s)))
	return append(dst, s...)
}

// AppendNullableString appends potentially nil string to dst prefixed with its
// int16 length or int16(-1) if nil.
func AppendNullableString(dst []byte, s *string) []byte {
	if s == nil {
		return AppendInt16(dst, -1)
	}
	return AppendString(dst, *s)
}

// AppendCompactNullableString appends a potentially nil string to dst with its
// uvarint length starting at 1, with 0 indicating null. Thus, the length is
// the decoded uvarint - 1.
//
// For KIP-482.
func AppendCompactNullableString(dst []byte, s *string) []byte {
	if s == nil {
		return AppendUvarint(dst, 0)
	}
	return AppendCompactString(dst, *s)
}

// AppendBytes appends bytes to dst prefixed with its int32 length.
func AppendBytes(dst, b []byte) []byte {
	dst = AppendInt32(dst, int32(len(b)))
	return append(dst, b...)
}

// AppendCompactBytes appends bytes to dst prefixed with a its uvarint length
// starting at 1; 0 is reserved for null, which compact bytes are not (nullable
// compact ones are!). Thus, the length is the decoded uvarint - 1.
//
// For KIP-482.
func AppendCompactBytes(dst, b []byte) []byte {
	dst = AppendUvarint(dst, 1+uint32(len(b)))
	return append(dst, b...)
}

// AppendNullableBytes appends a potentially nil slice to dst prefixed with its
// int32 length or int32(-1) if nil.
func AppendNullableBytes(dst, b []byte) []byte {
	if b == nil {
		return AppendInt32(dst, -1)
	}
	return AppendBytes(dst, b)
}

// AppendCompactNullableBytes appends a potentially nil slice to dst with its
// uvarint length starting at 1, with 0 indicating null. Thus, the length is
// the decoded uvarint - 1.
//
// For KIP-482.
func AppendCompactNullableBytes(dst, b []byte) []byte {
	if b == nil {
		return AppendUvarint(dst, 0)
	}
	return AppendCompactBytes(dst, b)
}

// AppendVarintString appends a string to dst prefixed with its length encoded
// as a varint.
func AppendVarintString(dst []byte, s string) []byte {
	dst = AppendVarint(dst, int32(len(s)))
	return append(dst, s...)
}

// AppendVarintBytes appends a slice to dst prefixed with its length encoded as
// a varint.
func AppendVarintBytes(dst, b []byte) []byte {
	if b == nil {
		return AppendVarint(dst, -1)
	}
	dst = AppendVarint(dst, int32(len(b)))
	return append(dst, b...)
}

// AppendArrayLen appends the length of an array as an int32 to dst.
func AppendArrayLen(dst []byte, l int) []byte {
	return AppendInt32(dst, int32(l))
}

// AppendCompactArrayLen appends the length of an array as a uvarint to dst
// as the length + 1.
//
// For KIP-482.
func AppendCompactArrayLen(dst []byte, l int) []byte {
	return AppendUvarint(dst, 1+uint32(l))
}

// AppendNullableArrayLen appends the length of an array as an int32 to dst,
// or -1 if isNil is true.
func AppendNullableArrayLen(dst []byte, l int, isNil bool) []byte {
	if isNil {
		return AppendInt32(dst, -1)
	}
	return AppendInt32(dst, int32(l))
}

// AppendCompactNullableArrayLen appends the length of an array as a uvarint to
// dst as the length + 1; if isNil is true, this appends 0 as a uvarint.
//
// For KIP-482.
func AppendCompactNullableArrayLen(dst []byte, l int, isNil bool) []byte {
	if isNil {
		return AppendUvarint(dst, 0)
	}
	return AppendUvarint(dst, 1+uint32(l))
}

// Reader is used to decode Kafka messages.
//
// For all functions on Reader, if the reader has been invalidated, functions
// return defaults (false, 0, nil, ""). Use Complete to detect if the reader
// was invalidated or if the reader has remaining data.
type Reader struct {
	Src []byte
	bad bool
}

// Bool returns a bool from the reader.
func (b *Reader) Bool() bool {
	if len(b.Src) < 1 {
		b.bad = true
		b.Src = nil
		return false
	}
	t := b.Src[0] != 0 // if '0', false
	b.Src = b.Src[1:]
	return t
}

// Int8 returns an int8 from the reader.
func (b *Reader) Int8() int8 {
	if len(b.Src) < 1 {
		b.bad = true
		b.Src = nil
		return 0
	}
	r := b.Src[0]
	b.Src = b.Src[1:]
	return int8(r)
}

// Int16 returns an int16 from the reader.
func (b *Reader) Int16() int16 {
	if len(b.Src) < 2 {
		b.bad = true
		b.Src = nil
		return 0
	}
	r := int16(binary.BigEndian.Uint16(b.Src))
	b.Src = b.Src[2:]
	return r
}

// Uint16 returns an uint16 from the reader.
func (b *Reader) Uint16() uint16 {
	if len(b.Src) < 2 {
		b.bad = true
		b.Src = nil
		return 0
	}
	r := binary.BigEndian.Uint16(b.Src)
	b.Src = b.Src[2:]
	return r
}

// Int32 returns an int32 from the reader.
func (b *Reader) Int32() int32 {
	if len(b.Src) < 4 {
		b.bad = true
		b.Src = nil
		return 0
	}
	r := int32(binary.BigEndian.Uint32(b.Src))
	b.Src = b.Src[4:]
	return r
}

// Int64 returns an int64 from the reader.
func (b *Reader) Int64() int64 {
	return int64(b.readUint64())
}

// Uuid returns a uuid from the reader.
func (b *Reader) Uuid() [16]byte {
	var r [16]byte
	copy(r[:], b.Span(16))
	return r
}

// Float64 returns a float64 from the reader.
func (b *Reader) Float64() float64 {
	return math.Float64frombits(b.readUint64())
}

func (b *Reader) readUint64() uint64 {
	if len(b.Src) < 8 {
		b.bad = true
		b.Src = nil
		return 0
	}
	r := binary.BigEndian.Uint64(b.Src)
	b.Src = b.Src[8:]
	return r
}

// Uint32 returns a uint32 from the reader.
func (b *Reader) Uint32() uint32 {
	if len(b.Src) < 4 {
		b.bad = true
		b.Src = nil
		return 0
	}
	r := binary.BigEndian.Uint32(b.Src)
	b.Src = b.Src[4:]
	return r
}

// Varint returns a varint int32 from the reader.
func (b *Reader) Varint() int32 {
	val, n := Varint(b.Src)
	if n <= 0 {
		b.bad = true
		b.Src = nil
		return 0
	}
	b.Src = b.Src[n:]
	return val
}

// Varlong returns a varlong int64 from the reader.
func (b *Reader) Varlong() int64 {
	val, n := Varlong(b.Src)
	if n <= 0 {
		b.bad = true
		b.Src = nil
		return 0
	}
	b.Src = b.Src[n:]
	return val
}

// Uvarint returns a uvarint encoded uint32 from the reader.
func (b *Reader) Uvarint() uint32 {
	val, n := Uvarint(b.Src)
	if n <= 0 {
		b.bad = true
		b.Src = nil
		return 0
	}
	b.Src = b.Src[n:]
	return val
}

// Span returns l bytes from the reader.
func (b *Reader) Span(l int) []byte {
	if len(b.Src) < l || l < 0 {
		b.bad = true
		b.Src = nil
		return nil
	}
	r := b.Src[:l:l]
	b.Src = b.Src[l:]
	return r
}

// UnsafeString returns a Kafka string from the reader without allocating using
// the unsafe package. This must be used with care; note the string holds a
// reference to the original slice.
func (b *Reader) UnsafeString() string {
	l := b.Int16()
	return UnsafeString(b.Span(int(l)))
}

// String returns a Kafka string from the reader.
func (b *Reader) String() string {
	l := b.Int16()
	return string(b.Span(int(l)))
}

// UnsafeCompactString returns a Kafka compact string from the reader without
// allocating using the unsafe package. This must be used with care; note the
// string holds a reference to the original slice.
func (b *Reader) UnsafeCompactString() string {
	l := int(b.Uvarint()) - 1
	return UnsafeString(b.Span(l))
}

// CompactString returns a Kafka compact string from the reader.
func (b *Reader) CompactString() string {
	l := int(b.Uvarint()) - 1
	return string(b.Span(l))
}

// UnsafeNullableString returns a Kafka nullable string from the reader without
// allocating using the unsafe package. This must be used with care; note the
// string holds a reference to the original slice.
func (b *Reader) UnsafeNullableString() *string {
	l := b.Int16()
	if l < 0 {
		return nil
	}
	s := UnsafeString(b.Span(int(l)))
	return &s
}

// NullableString returns a Kafka nullable string from the reader.
func (b *Reader) NullableString() *string {
	l := b.Int16()
	if l < 0 {
		return nil
	}
	s := string(b.Span(int(l)))
	return &s
}

// UnsafeCompactNullableString returns a Kafka compact nullable string from the
// reader without allocating using the unsafe package. This must be used with
// care; note the string holds a reference to the original slice.
func (b *Reader) UnsafeCompactNullableString() *string {
	l := int(b.Uvarint()) - 1
	if l < 0 {
		return nil
	}
	s := UnsafeString(b.Span(l))
	return &s
}

// CompactNullableString returns a Kafka compact nullable string from the
// reader.
func (b *Reader) CompactNullableString() *string {
	l := int(b.Uvarint()) - 1
	if l < 0 {
		return nil
	}
	s := string(b.Span(l))
	return &s
}

// Bytes returns a Kafka byte array from the reader.
//
// This never returns nil.
func (b *Reader) Bytes() []byte {
	l := b.Int32()
	// This is not to spec, but it is not clearly documented and Microsoft
	// EventHubs fails here. -1 means null, which should throw an
	// exception. EventHubs uses -1 to mean "does not exist" on some
	// non-nullable fields.
	//
	// Until EventHubs is fixed, we return an empty byte slice for null.
	if l == -1 {
		return []byte{}
	}
	return b.Span(int(l))
}

// CompactBytes returns a Kafka compact byte array from the reader.
//
// This never returns nil.
func (b *Reader) CompactBytes() []byte {
	l := int(b.Uvarint()) - 1
	if l == -1 { // same as above: -1 should not be allowed here
		return []byte{}
	}
	return b.Span(l)
}

// NullableBytes returns a Kafka nullable byte array from the reader, returning
// nil as appropriate.
func (b *Reader) NullableBytes() []byte {
	l := b.Int32()
	if l < 0 {
		return nil
	}
	r := b.Span(int(l))
	return r
}

// CompactNullableBytes returns a Kafka compact nullable byte array from the
// reader, returning nil as appropriate.
func (b *Reader) CompactNullableBytes() []byte {
	l := int(b.Uvarint()) - 1
	if l < 0 {
		return nil
	}
	r := b.Span(l)
	return r
}

// ArrayLen returns a Kafka array length from the reader.
func (b *Reader) ArrayLen() int32 {
	r := b.Int32()
	// The min size of a Kafka type is a byte, so if we do not have
	// at least the array length of bytes left, it is bad.
	if len(b.Src) < int(r) {
		b.bad = true
		b.Src = nil
		return 0
	}
	return r
}

// VarintArrayLen returns a Kafka array length from the reader.
func (b *Reader) VarintArrayLen() int32 {
	r := b.Varint()
	// The min size of a Kafka type is a byte, so if we do not have
	// at least the array length of bytes left, it is bad.
	if len(b.Src) < int(r) {
		b.bad = true
		b.Src = nil
		return 0
	}
	return r
}

// CompactArrayLen returns a Kafka compact array length from the reader.
func (b *Reader) CompactArrayLen() int32 {
	r := int32(b.Uvarint()) - 1
	// The min size of a Kafka type is a byte, so if we do not have
	// at least the array length of bytes left, it is bad.
	if len(b.Src) < int(r) {
		b.bad = true
		b.Src = nil
		return 0
	}
	return r
}

// VarintBytes returns a Kafka encoded varint array from the reader, returning
// nil as appropriate.
func (b *Reader) VarintBytes() []byte {
	l := b.Varint()
	if l < 0 {
		return nil
	}
	return b.Span(int(l))
}

// UnsafeVarintString returns a Kafka encoded varint string from the reader
// without allocating using the unsafe package. This must be used with care;
// note the string holds a reference to the original slice.
func (b *Reader) UnsafeVarintString() string {
	return UnsafeString(b.VarintBytes())
}

// VarintString returns a Kafka encoded varint string from the reader.
func (b *Reader) VarintString() string {
	return string(b.VarintBytes())
}

// Complete returns ErrNotEnoughData if the source ran out while decoding.
func (b *Reader) Complete() error {
	if b.bad {
		return ErrNotEnoughData
	}
	return nil
}

// Ok returns true if the reader is still ok.
func (b *Reader) Ok() bool {
	return !b.bad
}

// UnsafeString returns the slice as a string using unsafe rule (6).
func UnsafeString(slice []byte) string {
	var str string
	strhdr := (*reflect.StringHeader)(unsafe.Pointer(&str))             //nolint:gosec // known way to convert slice to string
	strhdr.Data = ((*reflect.SliceHeader)(unsafe.Pointer(&slice))).Data //nolint:gosec // known way to convert slice to string
	strhdr.Len = len(slice)
	return str
}
