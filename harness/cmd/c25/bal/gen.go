package bal

import (
	"fmt"
	"sort"

	"verifharness/hx"
)

func tname(i int) string { return fmt.Sprintf("t%02d", i) }
func mname(i int) string { return fmt.Sprintf("m%03d", i) }

// joinLess mirrors the order balanceGroup establishes before calling MemberBalancer.
func joinLess(l, r *Mem) bool {
	if l.Inst != nil {
		if r.Inst == nil {
			return true
		}
		return *l.Inst < *r.Inst
	}
	if r.Inst != nil {
		return false
	}
	return l.ID < r.ID
}

func SortJoin(ms []Mem) {
	sort.SliceStable(ms, func(i, j int) bool { return joinLess(&ms[i], &ms[j]) })
}

type Shape struct {
	MaxMembers, MaxTopics, MaxParts int
}

// Random builds one structured case: a group with a plausible previous assignment, then perturbed
// (new members, stale generations with conflicting claims, claims on unsubscribed / unknown topics,
// out-of-range partitions, duplicate owned entries), racks absent / partial / complete.
func Random(r *hx.Rng, sh Shape) ([]Mem, []Topic) {
	nm := 1 + r.Intn(sh.MaxMembers)
	nt := 1 + r.Intn(sh.MaxTopics)
	ts := make([]Topic, nt)
	rackNames := []string{"ra", "rb", "rc"}
	rackMode := r.Intn(4) // 0,1: none; 2: partial; 3: all
	for i := range ts {
		ts[i] = Topic{Name: tname(i), Count: int32(r.Intn(sh.MaxParts + 1))}
		if r.Chance(10) {
			ts[i].Count = 0
		}
		if rackMode >= 2 && (rackMode == 3 || r.Bool()) {
			n := int(ts[i].Count)
			if r.Chance(15) {
				n += r.Intn(3) - 1
			}
			if n < 0 {
				n = 0
			}
			ts[i].Racks = make([]string, n)
			for j := range ts[i].Racks {
				if rackMode == 3 || r.Chance(70) {
					ts[i].Racks[j] = hx.Pick(r, rackNames)
				}
			}
		}
	}
	ms := make([]Mem, nm)
	gen := int32(r.Intn(6))
	sameSubs := r.Chance(40)
	for i := range ms {
		m := Mem{ID: mname(i), Gen: gen}
		if r.Chance(25) {
			m.Inst = sp(fmt.Sprintf("i%03d", r.Intn(1000)*1000+i))
		}
		if rackMode >= 2 && (rackMode == 3 || r.Chance(60)) {
			m.Rack = sp(hx.Pick(r, rackNames))
			if r.Chance(4) {
				m.Rack = sp("")
			}
		}
		for t := range ts {
			if sameSubs || r.Chance(60) {
				m.Subs = append(m.Subs, ts[t].Name)
			}
		}
		if r.Chance(3) { // subscribed to a topic without metadata
			m.Subs = append(m.Subs, "tzz")
		}
		if r.Chance(2) && len(m.Subs) > 0 { // topic listed twice
			m.Subs = append(m.Subs, m.Subs[0])
		}
		ms[i] = m
	}
	// previous assignment: each partition to a random subscriber (mostly), as one entry per topic
	prev := make([]map[string][]int32, nm)
	for i := range prev {
		prev[i] = map[string][]int32{}
	}
	fresh := r.Chance(12) // brand new group: nobody owns anything
	for _, t := range ts {
		var subs []int
		for i, m := range ms {
			for _, s := range m.Subs {
				if s == t.Name {
					subs = append(subs, i)
					break
				}
			}
		}
		for p := int32(0); p < t.Count; p++ {
			if fresh || len(subs) == 0 || r.Chance(15) {
				continue
			}
			o := subs[int(p)%len(subs)]
			if r.Chance(30) {
				o = hx.Pick(r, subs)
			}
			prev[o][t.Name] = append(prev[o][t.Name], p)
		}
	}
	for i := range ms {
		m := &ms[i]
		k := r.Intn(100)
		switch {
		case k < 12: // new member
			prev[i] = map[string][]int32{}
			if r.Bool() {
				m.Gen = -1
			}
		case k < 24: // missed rebalances: stale generation, still claims what others may have received
			m.Gen = gen - 1 - int32(r.Intn(2))
			if m.Gen < -1 {
				m.Gen = -1
			}
			for _, t := range ts {
				if t.Count > 0 && r.Chance(50) {
					prev[i][t.Name] = append(prev[i][t.Name], int32(r.Intn(int(t.Count))))
				}
			}
		case k < 30: // conflicting claim at the same generation
			for _, t := range ts {
				if t.Count > 0 && r.Chance(40) {
					prev[i][t.Name] = append(prev[i][t.Name], int32(r.Intn(int(t.Count))))
				}
			}
		case k < 34: // claims a partition that does not exist (topic shrank / unknown topic)
			if r.Bool() {
				prev[i]["tq"] = []int32{0, 1}
			} else if len(ts) > 0 {
				t := hx.Pick(r, ts)
				prev[i][t.Name] = append(prev[i][t.Name], t.Count+int32(r.Intn(2)))
			}
		case k < 40: // unsubscribed from a topic it still owns
			if len(m.Subs) > 1 {
				m.Subs = m.Subs[1:]
			}
		}
		var names []string
		for t := range prev[i] {
			names = append(names, t)
		}
		sort.Strings(names)
		for _, t := range names {
			ps := dedupSorted(prev[i][t])
			if len(ps) == 0 {
				continue
			}
			if r.Chance(2) && len(ps) > 1 { // the same topic in two owned entries
				m.Owned = append(m.Owned, Own{t, ps[:1]}, Own{t, ps[1:]})
			} else {
				m.Owned = append(m.Owned, Own{t, ps})
			}
		}
	}
	if r.Chance(80) {
		SortJoin(ms)
	} else {
		for i := len(ms) - 1; i > 0; i-- {
			j := r.Intn(i + 1)
			ms[i], ms[j] = ms[j], ms[i]
		}
	}
	if r.Chance(1) && nm > 1 { // hostile broker: a member id listed twice
		d := ms[0]
		d.Subs = append([]string(nil), ms[1].Subs...)
		ms = append(ms, d)
	}
	if r.Chance(1) && nm > 1 { // two members with one instance id (unordered for the member sort)
		ms[0].Inst = sp("idup")
		ms[1].Inst = sp("idup")
	}
	return ms, ts
}

func dedupSorted(ps []int32) []int32 {
	sort.Slice(ps, func(i, j int) bool { return ps[i] < ps[j] })
	var out []int32
	for i, p := range ps {
		if i == 0 || p != ps[i-1] {
			out = append(out, p)
		}
	}
	return out
}

// ForKfake adapts a case to kfake's consumer group: unique member ids, one target entry per topic,
// some members away (static leave, epoch -2).
func ForKfake(r *hx.Rng, ms []Mem) []Mem {
	seen := map[string]bool{}
	var out []Mem
	for _, m := range ms {
		if seen[m.ID] {
			continue
		}
		seen[m.ID] = true
		merged := map[string][]int32{}
		var order []string
		for _, o := range m.Owned {
			if _, ok := merged[o.Topic]; !ok {
				order = append(order, o.Topic)
			}
			merged[o.Topic] = append(merged[o.Topic], o.Parts...)
		}
		m.Owned = nil
		for _, t := range order {
			m.Owned = append(m.Owned, Own{t, merged[t]})
		}
		m.Rack = nil
		m.Gen = 0
		m.Away = r != nil && r.Chance(3)
		out = append(out, m)
	}
	return out
}

// Exhaustive enumerates the small scope: n members, k topics, every partition-count vector with at most
// maxP partitions per topic, every subscription pattern, every claimant set per partition (so conflicting
// claims included), and the given generation patterns. fn is called for every case.
func Exhaustive(n, k, maxP int, gens [][]int32, owners bool, fn func([]Mem, []Topic)) {
	counts := make([]int, k)
	var recCounts func(i int)
	recCounts = func(i int) {
		if i < k {
			for c := 0; c <= maxP; c++ {
				counts[i] = c
				recCounts(i + 1)
			}
			return
		}
		ts := make([]Topic, k)
		type tp struct {
			t string
			p int32
		}
		var tps []tp
		for j := range ts {
			ts[j] = Topic{Name: tname(j), Count: int32(counts[j])}
			for p := 0; p < counts[j]; p++ {
				tps = append(tps, tp{tname(j), int32(p)})
			}
		}
		nsub := 1
		for j := 0; j < n*k; j++ {
			nsub *= 2
		}
		nown := 1
		if owners {
			for range tps {
				nown *= 1 << n
			}
		}
		for sub := 0; sub < nsub; sub++ {
			for own := 0; own < nown; own++ {
				for _, g := range gens {
					ms := make([]Mem, n)
					for i := range ms {
						ms[i] = Mem{ID: mname(i), Gen: g[i]}
						for j := 0; j < k; j++ {
							if sub>>(i*k+j)&1 == 1 {
								ms[i].Subs = append(ms[i].Subs, tname(j))
							}
						}
					}
					o := own
					for _, x := range tps {
						cl := o & (1<<n - 1)
						o >>= n
						for i := range ms {
							if cl>>i&1 == 1 {
								addOwned(&ms[i], x.t, x.p)
							}
						}
					}
					fn(ms, ts)
				}
			}
		}
	}
	recCounts(0)
}

func addOwned(m *Mem, t string, p int32) {
	for i := range m.Owned {
		if m.Owned[i].Topic == t {
			m.Owned[i].Parts = append(m.Owned[i].Parts, p)
			return
		}
	}
	m.Owned = append(m.Owned, Own{t, []int32{p}})
}

// RackVariants returns rack decorations of a small case: none, everything on matching racks, partial.
func RackVariants(ms []Mem, ts []Topic) [][2]any {
	var out [][2]any
	out = append(out, [2]any{ms, ts})
	names := []string{"ra", "rb"}
	for variant := 0; variant < 2; variant++ {
		m2 := append([]Mem(nil), ms...)
		t2 := append([]Topic(nil), ts...)
		for i := range m2 {
			if variant == 0 || i%2 == 0 {
				m2[i].Rack = sp(names[(i+variant)%2])
			}
		}
		for j := range t2 {
			t2[j].Racks = make([]string, t2[j].Count)
			for p := range t2[j].Racks {
				if variant == 0 || p%2 == 1 {
					t2[j].Racks[p] = names[(p+j)%2]
				}
			}
			if variant == 1 && j%2 == 1 {
				t2[j].Racks = nil
			}
		}
		out = append(out, [2]any{m2, t2})
	}
	return out
}
