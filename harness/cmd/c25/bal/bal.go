// Package bal: shared plumbing of the C25 / C27 harnesses: the op-line encoding of members and
// topics, construction of real JoinGroup member metadata, and runners for the real balancers.
package bal

import (
	"fmt"
	"sort"
	"strconv"
	"strings"

	"github.com/twmb/franz-go/pkg/kfake"
	"github.com/twmb/franz-go/pkg/kgo"
	"github.com/twmb/franz-go/pkg/kmsg"
	"verifharness/hx"
)

type Own struct {
	Topic string
	Parts []int32
}

// Mem is one group member as the balancers see it after parsing its metadata.
type Mem struct {
	ID    string
	Inst  *string
	Rack  *string
	Gen   int32
	Subs  []string
	Owned []Own
	Away  bool // kfake only: memberEpoch == -2
}

type Topic struct {
	Name  string
	Count int32
	Racks []string // nil = not present in partitionRacks
}

func sp(s string) *string { return &s }

func optEnc(p *string) string {
	if p == nil {
		return "-"
	}
	if *p == "" {
		return "_"
	}
	return *p
}

func optDec(s string) *string {
	if s == "-" {
		return nil
	}
	if s == "_" {
		return sp("")
	}
	return sp(s)
}

func encOwned(o []Own) string {
	if len(o) == 0 {
		return "-"
	}
	var es []string
	for _, e := range o {
		var ps []string
		for _, p := range e.Parts {
			ps = append(ps, strconv.Itoa(int(p)))
		}
		es = append(es, e.Topic+":"+strings.Join(ps, "."))
	}
	return strings.Join(es, "+")
}

func decOwned(s string) []Own {
	if s == "-" || s == "" {
		return nil
	}
	var o []Own
	for _, e := range strings.Split(s, "+") {
		t, ps, _ := strings.Cut(e, ":")
		own := Own{Topic: t}
		for _, p := range strings.Split(ps, ".") {
			if p != "" {
				own.Parts = append(own.Parts, int32(hx.Atoi(p)))
			}
		}
		o = append(o, own)
	}
	return o
}

func list(ss []string, sep string) string {
	if len(ss) == 0 {
		return "-"
	}
	return strings.Join(ss, sep)
}

func unlist(s, sep string) []string {
	if s == "-" || s == "" {
		return nil
	}
	return strings.Split(s, sep)
}

func EncMembers(ms []Mem) string {
	var es []string
	for _, m := range ms {
		es = append(es, strings.Join([]string{m.ID, optEnc(m.Inst), optEnc(m.Rack), strconv.Itoa(int(m.Gen)), list(m.Subs, "+"), encOwned(m.Owned)}, "/"))
	}
	return list(es, ";")
}

func DecMembers(s string) []Mem {
	var ms []Mem
	for _, e := range unlist(s, ";") {
		f := strings.Split(e, "/")
		if len(f) != 6 {
			panic("bad member " + e)
		}
		ms = append(ms, Mem{ID: f[0], Inst: optDec(f[1]), Rack: optDec(f[2]), Gen: int32(hx.Atoi(f[3])), Subs: unlist(f[4], "+"), Owned: decOwned(f[5])})
	}
	return ms
}

func EncKMembers(ms []Mem) string {
	var es []string
	for _, m := range ms {
		es = append(es, strings.Join([]string{m.ID, optEnc(m.Inst), hx.B(m.Away), list(m.Subs, "+"), encOwned(m.Owned)}, "/"))
	}
	return list(es, ";")
}

func DecKMembers(s string) []Mem {
	var ms []Mem
	for _, e := range unlist(s, ";") {
		f := strings.Split(e, "/")
		if len(f) != 5 {
			panic("bad kmember " + e)
		}
		ms = append(ms, Mem{ID: f[0], Inst: optDec(f[1]), Away: f[2] == "1", Subs: unlist(f[3], "+"), Owned: decOwned(f[4])})
	}
	return ms
}

func EncTopics(ts []Topic) string {
	var es []string
	for _, t := range ts {
		r := "-"
		if t.Racks != nil {
			var rs []string
			for _, x := range t.Racks {
				if x == "" {
					x = "_"
				}
				rs = append(rs, x)
			}
			r = strings.Join(rs, ".")
			if len(rs) == 0 {
				r = "-"
			}
		}
		es = append(es, fmt.Sprintf("%s:%d:%s", t.Name, t.Count, r))
	}
	return list(es, ";")
}

func DecTopics(s string) []Topic {
	var ts []Topic
	for _, e := range unlist(s, ";") {
		f := strings.Split(e, ":")
		t := Topic{Name: f[0], Count: int32(hx.Atoi(f[1]))}
		if len(f) > 2 && f[2] != "-" {
			for _, x := range strings.Split(f[2], ".") {
				if x == "_" {
					x = ""
				}
				t.Racks = append(t.Racks, x)
			}
		}
		ts = append(ts, t)
	}
	return ts
}

func TopicMaps(ts []Topic) (map[string]int32, map[string][]string) {
	counts := make(map[string]int32)
	var racks map[string][]string
	for _, t := range ts {
		counts[t.Name] = t.Count
		if t.Racks != nil {
			if racks == nil {
				racks = make(map[string][]string)
			}
			racks[t.Name] = t.Racks
		}
	}
	return counts, racks
}

type Plan = map[string]map[string][]int32

// ShowPlan prints a plan canonically: members, topics and partitions sorted; topics without
// partitions are omitted; every member key of the plan is printed.
func ShowPlan(p Plan) string {
	if len(p) == 0 {
		return "-"
	}
	ids := make([]string, 0, len(p))
	for m := range p {
		ids = append(ids, m)
	}
	sort.Strings(ids)
	var ms []string
	for _, m := range ids {
		var tn []string
		for t, ps := range p[m] {
			if len(ps) > 0 {
				tn = append(tn, t)
			}
		}
		sort.Strings(tn)
		var ts []string
		for _, t := range tn {
			ps := append([]int32(nil), p[m][t]...)
			sort.Slice(ps, func(i, j int) bool { return ps[i] < ps[j] })
			var ss []string
			for _, x := range ps {
				ss = append(ss, strconv.Itoa(int(x)))
			}
			ts = append(ts, t+":"+strings.Join(ss, "."))
		}
		ms = append(ms, m+"="+strings.Join(ts, ","))
	}
	return strings.Join(ms, ";")
}

func stickyUserData(m Mem) []byte {
	sm := kmsg.NewStickyMemberMetadata()
	sm.Generation = m.Gen
	for _, o := range m.Owned {
		a := kmsg.NewStickyMemberMetadataCurrentAssignment()
		a.Topic = o.Topic
		a.Partitions = o.Parts
		sm.CurrentAssignment = append(sm.CurrentAssignment, a)
	}
	return sm.AppendTo(nil)
}

// JoinMembers builds the JoinGroup response members with real encoded ConsumerMemberMetadata.
// mode "plain": as range / roundrobin join (owned kept in the metadata anyway: they must be ignored);
// "sticky": eager sticky, prior ownership only in the sticky user data; "coop": OwnedPartitions,
// generation and the sticky user data, exactly the fields stickyBalancer.JoinGroupMetadata writes.
func JoinMembers(ms []Mem, mode string) []kmsg.JoinGroupResponseMember {
	out := make([]kmsg.JoinGroupResponseMember, 0, len(ms))
	for _, m := range ms {
		meta := kmsg.NewConsumerMemberMetadata()
		meta.Version = 3
		meta.Topics = append([]string(nil), m.Subs...)
		meta.Generation = m.Gen
		meta.Rack = m.Rack
		if mode != "sticky" {
			for _, o := range m.Owned {
				op := kmsg.NewConsumerMemberMetadataOwnedPartition()
				op.Topic = o.Topic
				op.Partitions = o.Parts
				meta.OwnedPartitions = append(meta.OwnedPartitions, op)
			}
		}
		if mode != "plain" {
			meta.UserData = stickyUserData(m)
		}
		jm := kmsg.NewJoinGroupResponseMember()
		jm.MemberID = m.ID
		jm.InstanceID = m.Inst
		jm.ProtocolMetadata = meta.AppendTo(nil)
		out = append(out, jm)
	}
	return out
}

func fromSync(gb kgo.GroupBalancer, as []kmsg.SyncGroupRequestGroupAssignment) Plan {
	p := make(Plan, len(as))
	for _, a := range as {
		m, err := gb.ParseSyncAssignment(a.MemberAssignment)
		if err != nil {
			panic(err)
		}
		if m == nil {
			m = map[string][]int32{}
		}
		if _, dup := p[a.MemberID]; dup {
			panic("member listed twice in the sync assignment")
		}
		p[a.MemberID] = m
	}
	return p
}

// RunPublic runs a balancer through its public interfaces: MemberBalancer, (racks via the verif
// setter, as balanceGroup would from metadata), BalanceOrError, IntoSyncAssignment, ParseSyncAssignment.
func RunPublic(gb kgo.GroupBalancer, join []kmsg.JoinGroupResponseMember, ts []Topic) Plan {
	counts, racks := TopicMaps(ts)
	mb, _, err := gb.MemberBalancer(join)
	if err != nil {
		panic(err)
	}
	cb := mb.(*kgo.ConsumerBalancer)
	kgo.VerifSetPartitionRacks(cb, racks)
	into, err := cb.BalanceOrError(counts)
	if err != nil {
		panic(err)
	}
	return fromSync(gb, into.IntoSyncAssignment())
}

// RunCoopHook returns the sticky plan before and after AdjustCooperative from one engine run.
func RunCoopHook(join []kmsg.JoinGroupResponseMember, ts []Topic) (pre, post Plan) {
	counts, racks := TopicMaps(ts)
	gb := kgo.CooperativeStickyBalancer()
	mb, _, err := gb.MemberBalancer(join)
	if err != nil {
		panic(err)
	}
	cb := mb.(*kgo.ConsumerBalancer)
	kgo.VerifSetPartitionRacks(cb, racks)
	return kgo.VerifCoopStickyPlans(cb, counts)
}

func TopicUUID(name string) (u [16]byte) {
	if len(name) > 16 {
		panic("topic name too long for the uuid embedding")
	}
	copy(u[:], name)
	return u
}

func uuidTopic(u [16]byte) string { return strings.TrimRight(string(u[:]), "\x00") }

// RunKfake runs kfake's computeTargetAssignment (assignUniform / assignRange) and returns the targets of
// the active members.
func RunKfake(assignor string, ms []Mem, ts []Topic) Plan {
	var vm []kfake.VerifAssignMember
	for _, m := range ms {
		tg := make(map[[16]byte][]int32)
		for _, o := range m.Owned {
			tg[TopicUUID(o.Topic)] = append(tg[TopicUUID(o.Topic)], o.Parts...)
		}
		vm = append(vm, kfake.VerifAssignMember{ID: m.ID, InstanceID: m.Inst, Away: m.Away, Subs: m.Subs, Target: tg})
	}
	snap := make(map[string]kfake.VerifTopic)
	for _, t := range ts {
		snap[t.Name] = kfake.VerifTopic{ID: TopicUUID(t.Name), Partitions: t.Count}
	}
	res := kfake.VerifComputeTarget(assignor, vm, snap)
	p := make(Plan)
	for _, m := range ms {
		if m.Away {
			continue
		}
		mp := make(map[string][]int32)
		for id, ps := range res[m.ID] {
			mp[uuidTopic(id)] = ps
		}
		p[m.ID] = mp
	}
	return p
}
