package bal

import (
	"sort"

	"verifharness/hx"
)

// Generators for the sticky engine's complex path (members with different subscriptions): the steal
// graph search (internal/sticky/graph.go findSteal) only runs there, and its rarer branches (a steal
// path of several segments, a partition stolen A->B and later wanted back by A) need skewed prior
// ownership over many small topics that only some members can take.

func Clone(ms []Mem, ts []Topic) ([]Mem, []Topic) {
	m2 := make([]Mem, len(ms))
	for i, m := range ms {
		m2[i] = m
		m2[i].Subs = append([]string(nil), m.Subs...)
		m2[i].Owned = nil
		for _, o := range m.Owned {
			m2[i].Owned = append(m2[i].Owned, Own{o.Topic, append([]int32(nil), o.Parts...)})
		}
	}
	t2 := make([]Topic, len(ts))
	for i, t := range ts {
		t2[i] = t
		if t.Racks != nil {
			t2[i].Racks = append([]string(nil), t.Racks...)
		}
	}
	return m2, t2
}

func hasSub(m *Mem, t string) bool {
	for _, s := range m.Subs {
		if s == t {
			return true
		}
	}
	return false
}

func subscribers(ms []Mem, t string) []int {
	var out []int
	for i := range ms {
		if hasSub(&ms[i], t) {
			out = append(out, i)
		}
	}
	return out
}

func AddOwned(m *Mem, t string, p int32) { addOwned(m, t, p) }

func dropOwned(m *Mem, t string, p int32) bool {
	for i := range m.Owned {
		if m.Owned[i].Topic != t {
			continue
		}
		for j, q := range m.Owned[i].Parts {
			if q == p {
				m.Owned[i].Parts = append(m.Owned[i].Parts[:j:j], m.Owned[i].Parts[j+1:]...)
				if len(m.Owned[i].Parts) == 0 {
					m.Owned = append(m.Owned[:i:i], m.Owned[i+1:]...)
				}
				return true
			}
		}
	}
	return false
}

func normalize(ms []Mem) {
	for i := range ms {
		sort.Strings(ms[i].Subs)
		sort.Slice(ms[i].Owned, func(a, b int) bool { return ms[i].Owned[a].Topic < ms[i].Owned[b].Topic })
		for j := range ms[i].Owned {
			ps := ms[i].Owned[j].Parts
			sort.Slice(ps, func(a, b int) bool { return ps[a] < ps[b] })
		}
	}
}

func smallCount(r *hx.Rng, maxP int) int32 {
	if r.Chance(45) {
		return 1
	}
	if r.Chance(60) {
		return int32(1 + r.Intn(3))
	}
	return int32(1 + r.Intn(maxP))
}

// Hard builds one group with 3-8 members holding different, overlapping subscriptions over 4-12 small
// topics, and a skewed prior ownership: one or two members own nearly everything they can take, one or
// two own nothing, the rest a little. Mostly a legal input (every owned partition has one owner that
// subscribes to its topic, one common generation); then perturbed: stale / duplicate claims, an owner that
// dropped the topic, a member that left (its partitions owned by nobody), a member that joined.
func Hard(r *hx.Rng) ([]Mem, []Topic) {
	nm := 3 + r.Intn(6)
	nt := 4 + r.Intn(9)
	ts := make([]Topic, nt)
	for i := range ts {
		ts[i] = Topic{Name: tname(i), Count: smallCount(r, 6)}
	}
	gen := int32(1 + r.Intn(6))
	ms := make([]Mem, nm)
	for i := range ms {
		ms[i] = Mem{ID: mname(i), Gen: gen}
	}
	switch r.Intn(4) {
	case 0: // every member-topic pair with one density
		d := 30 + 15*r.Intn(3)
		for i := range ms {
			for _, t := range ts {
				if r.Chance(d) {
					ms[i].Subs = append(ms[i].Subs, t.Name)
				}
			}
		}
	case 1: // every topic has two or three subscribers
		for _, t := range ts {
			k := 2 + r.Intn(2)
			for j := 0; j < k; j++ {
				m := &ms[r.Intn(nm)]
				if !hasSub(m, t.Name) {
					m.Subs = append(m.Subs, t.Name)
				}
			}
		}
	case 2: // a chain of members linked by shared topics, plus a few extra links
		for j, t := range ts {
			a, b := j%nm, (j+1)%nm
			ms[a].Subs = append(ms[a].Subs, t.Name)
			if b != a {
				ms[b].Subs = append(ms[b].Subs, t.Name)
			}
		}
		for j := 0; j < 1+r.Intn(4); j++ {
			m, t := &ms[r.Intn(nm)], ts[r.Intn(nt)].Name
			if !hasSub(m, t) {
				m.Subs = append(m.Subs, t)
			}
		}
	default: // every member picks a few topics
		for i := range ms {
			want := 2 + r.Intn(4)
			for j := 0; j < want; j++ {
				t := ts[r.Intn(nt)].Name
				if !hasSub(&ms[i], t) {
					ms[i].Subs = append(ms[i].Subs, t)
				}
			}
		}
	}
	for i := range ms { // a member without subscriptions is rare
		if len(ms[i].Subs) == 0 && !r.Chance(5) {
			ms[i].Subs = append(ms[i].Subs, ts[r.Intn(nt)].Name)
		}
	}
	// skewed prior ownership
	weight := make([]int, nm) // 0 owns nothing, 1 a little, 8 nearly everything it can take
	for i := range weight {
		weight[i] = 1
	}
	for j := 0; j < 1+r.Intn(2); j++ {
		weight[r.Intn(nm)] = 8
	}
	for j := 0; j < 1+r.Intn(2); j++ {
		weight[r.Intn(nm)] = 0
	}
	fresh := r.Chance(4)
	for _, t := range ts {
		subs := subscribers(ms, t.Name)
		for p := int32(0); p < t.Count; p++ {
			if fresh || len(subs) == 0 || r.Chance(8) {
				continue
			}
			total := 0
			for _, s := range subs {
				total += weight[s]
			}
			if total == 0 {
				continue
			}
			k := r.Intn(total)
			for _, s := range subs {
				if k < weight[s] {
					addOwned(&ms[s], t.Name, p)
					break
				}
				k -= weight[s]
			}
		}
	}
	Perturb(r, &ms, &ts, 25)
	normalize(ms)
	if r.Chance(85) {
		SortJoin(ms)
	}
	return ms, ts
}

// Perturb applies, each with probability pct/100 scaled down per kind, the changes a group sees between two
// rebalances and the malformed claims a leader may receive.
func Perturb(r *hx.Rng, pms *[]Mem, pts *[]Topic, pct int) {
	ms, ts := *pms, *pts
	if len(ms) == 0 || len(ts) == 0 {
		return
	}
	if r.Chance(pct) { // a member missed rebalances: stale generation, claims what others may own now
		m := &ms[r.Intn(len(ms))]
		if m.Gen > 0 {
			m.Gen -= int32(1 + r.Intn(2))
			if m.Gen < -1 {
				m.Gen = -1
			}
		}
		for _, t := range ts {
			if t.Count > 0 && r.Chance(40) {
				addOwned(m, t.Name, int32(r.Intn(int(t.Count))))
			}
		}
	}
	if r.Chance(pct / 2) { // duplicate claim at the same generation
		m, t := &ms[r.Intn(len(ms))], ts[r.Intn(len(ts))]
		if t.Count > 0 {
			addOwned(m, t.Name, int32(r.Intn(int(t.Count))))
		}
	}
	if r.Chance(pct / 2) { // an owner dropped a topic it still claims
		m := &ms[r.Intn(len(ms))]
		if len(m.Owned) > 0 && len(m.Subs) > 1 {
			t := m.Owned[r.Intn(len(m.Owned))].Topic
			var s []string
			for _, x := range m.Subs {
				if x != t {
					s = append(s, x)
				}
			}
			m.Subs = s
		}
	}
	if r.Chance(pct/2) && len(ms) > 3 { // a member left: what it owned is owned by nobody
		i := r.Intn(len(ms))
		ms = append(ms[:i:i], ms[i+1:]...)
	}
	if r.Chance(pct / 2) { // a member joined owning nothing, with the subscription of another or its own
		n := Mem{ID: mname(50 + r.Intn(40)), Gen: -1}
		if r.Bool() {
			n.Gen = ms[0].Gen
		}
		if r.Bool() {
			n.Subs = append([]string(nil), ms[r.Intn(len(ms))].Subs...)
		} else {
			for _, t := range ts {
				if r.Chance(40) {
					n.Subs = append(n.Subs, t.Name)
				}
			}
		}
		dup := false
		for _, m := range ms {
			dup = dup || m.ID == n.ID
		}
		if !dup {
			ms = append(ms, n)
		}
	}
	if r.Chance(pct / 4) { // a topic shrank or grew since the claims were made
		t := &ts[r.Intn(len(ts))]
		t.Count += int32(r.Intn(3) - 1)
		if t.Count < 0 {
			t.Count = 0
		}
	}
	if r.Chance(pct / 6) { // claim on a topic nobody has metadata for
		addOwned(&ms[r.Intn(len(ms))], "tq", int32(r.Intn(2)))
	}
	*pms, *pts = ms, ts
}

// Mutate returns a perturbed copy of a known-hard input: one to four small edits of subscriptions,
// ownership, partition counts, membership, member order and generations.
func Mutate(r *hx.Rng, ms0 []Mem, ts0 []Topic) ([]Mem, []Topic) {
	ms, ts := Clone(ms0, ts0)
	n := 1 + r.Intn(4)
	for e := 0; e < n; e++ {
		if len(ms) == 0 || len(ts) == 0 {
			break
		}
		mi := r.Intn(len(ms))
		m := &ms[mi]
		t := &ts[r.Intn(len(ts))]
		switch r.Intn(12) {
		case 0, 1: // toggle one subscription
			if hasSub(m, t.Name) {
				var s []string
				for _, x := range m.Subs {
					if x != t.Name {
						s = append(s, x)
					}
				}
				m.Subs = s
			} else {
				m.Subs = append(m.Subs, t.Name)
			}
		case 2, 3: // one owned partition moves to another subscriber of its topic
			if len(m.Owned) == 0 {
				continue
			}
			o := m.Owned[r.Intn(len(m.Owned))]
			p := o.Parts[r.Intn(len(o.Parts))]
			subs := subscribers(ms, o.Topic)
			if len(subs) == 0 {
				continue
			}
			dropOwned(m, o.Topic, p)
			addOwned(&ms[subs[r.Intn(len(subs))]], o.Topic, p)
		case 4: // one owned partition is given up
			if len(m.Owned) == 0 {
				continue
			}
			o := m.Owned[r.Intn(len(m.Owned))]
			dropOwned(m, o.Topic, o.Parts[r.Intn(len(o.Parts))])
		case 5: // a partition gains a claimant (possibly a second one)
			if t.Count > 0 {
				addOwned(m, t.Name, int32(r.Intn(int(t.Count))))
			}
		case 6: // partition count of a topic
			if r.Bool() && t.Count > 0 {
				t.Count--
			} else {
				t.Count++
				subs := subscribers(ms, t.Name)
				if len(subs) > 0 && r.Chance(70) {
					addOwned(&ms[subs[r.Intn(len(subs))]], t.Name, t.Count-1)
				}
			}
		case 7: // a new small topic between two members, owned by one of them
			if len(ts) >= 14 {
				continue
			}
			nt := Topic{Name: tname(20 + len(ts)), Count: int32(1 + r.Intn(2))}
			a, b := r.Intn(len(ms)), r.Intn(len(ms))
			ms[a].Subs = append(ms[a].Subs, nt.Name)
			if b != a {
				ms[b].Subs = append(ms[b].Subs, nt.Name)
			}
			for p := int32(0); p < nt.Count; p++ {
				addOwned(&ms[a], nt.Name, p)
			}
			ts = append(ts, nt)
		case 8: // a member leaves / a member joins
			if r.Bool() && len(ms) > 3 {
				ms = append(ms[:mi:mi], ms[mi+1:]...)
			} else if len(ms) < 9 {
				n := Mem{ID: mname(60 + len(ms)), Gen: m.Gen, Subs: append([]string(nil), m.Subs...)}
				if r.Bool() {
					n.ID = "0" + n.ID // sorts before everybody
				}
				ms = append(ms, n)
			}
		case 9: // two members trade names: member numbering (and every tie-break by it) changes
			o := &ms[r.Intn(len(ms))]
			m.ID, o.ID = o.ID, m.ID
		case 10: // generation
			if r.Bool() {
				m.Gen--
			} else {
				m.Gen++
			}
			if m.Gen < -1 {
				m.Gen = -1
			}
		case 11: // two members swap their whole prior ownership (kept where subscribed)
			o := &ms[r.Intn(len(ms))]
			m.Owned, o.Owned = o.Owned, m.Owned
		}
	}
	normalize(ms)
	if r.Chance(85) {
		SortJoin(ms)
	}
	return ms, ts
}

// Sparse is the C26 generator's shape: every member a few topics (or a ring: member i subscribes to topics
// i and i+1) and a prior ownership skewed towards one subscriber per topic, so that balancing needs chains
// of moves.
func Sparse(r *hx.Rng, maxM, maxT, maxP int) ([]Mem, []Topic) {
	nm := 2 + r.Intn(maxM-1)
	nt := 1 + r.Intn(maxT)
	ring := r.Chance(35)
	if ring {
		nt = nm + r.Intn(2)
	}
	ts := make([]Topic, nt)
	for i := range ts {
		ts[i] = Topic{Name: tname(i), Count: int32(1 + r.Intn(maxP))}
		if r.Chance(5) {
			ts[i].Count = 0
		}
	}
	gen := int32(r.Intn(4))
	ms := make([]Mem, nm)
	for i := range ms {
		m := Mem{ID: mname(i), Gen: gen}
		if ring {
			m.Subs = append(m.Subs, tname(i%nt))
			if (i+1)%nt != i%nt {
				m.Subs = append(m.Subs, tname((i+1)%nt))
			}
			if r.Chance(10) {
				m.Subs = append(m.Subs, tname(r.Intn(nt)))
			}
		} else {
			want := 1 + r.Intn(3)
			for j := 0; j < want; j++ {
				m.Subs = append(m.Subs, tname(r.Intn(nt)))
			}
		}
		sort.Strings(m.Subs)
		var d []string
		for j, s := range m.Subs {
			if j == 0 || s != m.Subs[j-1] {
				d = append(d, s)
			}
		}
		m.Subs = d
		ms[i] = m
	}
	mode := r.Intn(10) // 0: nobody owns anything; 1-2: balanced-ish; else skewed
	for _, t := range ts {
		subs := subscribers(ms, t.Name)
		if len(subs) == 0 || mode == 0 {
			continue
		}
		heavy := subs[len(subs)-1]
		if r.Bool() {
			heavy = subs[0]
		}
		for p := int32(0); p < t.Count; p++ {
			if r.Chance(10) {
				continue
			}
			o := heavy
			if mode <= 2 {
				o = subs[int(p)%len(subs)]
			} else if r.Chance(25) {
				o = hx.Pick(r, subs)
			}
			addOwned(&ms[o], t.Name, p)
			if r.Chance(6) {
				c := hx.Pick(r, subs)
				if c != o {
					addOwned(&ms[c], t.Name, p)
					if r.Chance(70) && ms[c].Gen > 0 {
						ms[c].Gen--
					}
				}
			}
		}
	}
	if r.Chance(10) && nm > 2 {
		ms = ms[:nm-1]
	}
	if r.Chance(10) {
		ms = append(ms, Mem{ID: mname(len(ms) + 1), Gen: -1, Subs: append([]string(nil), ms[0].Subs...)})
	}
	return ms, ts
}

// StealBackSeed is the input of seeded/C25-steal-back-keeps-old-edge (4 members, 8 topics, 12 partitions,
// legal prior ownership at one generation): during one balance a partition is stolen A->B and a later
// search reaches B first through a topic A cannot take and then again from A through A's old partition.
func StealBackSeed() ([]Mem, []Topic) {
	ts := []Topic{{Name: "t0", Count: 1}, {Name: "t1", Count: 2}, {Name: "t2", Count: 1}, {Name: "t3", Count: 1},
		{Name: "t4", Count: 1}, {Name: "t5", Count: 3}, {Name: "t6", Count: 1}, {Name: "t7", Count: 2}}
	ms := []Mem{
		{ID: "A", Gen: 5, Subs: []string{"t0", "t2", "t3", "t4", "t6"}, Owned: []Own{{"t2", []int32{0}}, {"t3", []int32{0}}, {"t4", []int32{0}}}},
		{ID: "B", Gen: 5, Subs: []string{"t2", "t4", "t5", "t7"}, Owned: []Own{{"t5", []int32{0}}}},
		{ID: "C", Gen: 5, Subs: []string{"t1", "t2", "t5", "t7"}, Owned: []Own{{"t1", []int32{0, 1}}, {"t5", []int32{2}}, {"t7", []int32{0, 1}}}},
		{ID: "D", Gen: 5, Subs: []string{"t3", "t4", "t5"}},
	}
	return ms, ts
}
