// reachprobe (not run by ./check): shows over the wire that kfake reaches the "conflicting prior targets"
// input of assignUniform in its normal flow: a static member leaves with epoch -2, another member joins (its
// target receives the away member's partitions, which the away member's target still lists), the static
// member rejoins and inherits its old target, and the next computeTargetAssignment double-assigns.
//   cd harness && GOFLAGS=-mod=mod GOPROXY=off go run -tags verif ./cmd/c25/reachprobe
package main

import (
	"context"
	"fmt"
	"sort"
	"time"

	"github.com/twmb/franz-go/pkg/kfake"
	"github.com/twmb/franz-go/pkg/kgo"
	"github.com/twmb/franz-go/pkg/kmsg"
)

var ctx, _ = context.WithTimeout(context.Background(), 40*time.Second)

func hb(cl *kgo.Client, member string, epoch int32, inst *string, subs []string, owned []kmsg.ConsumerGroupHeartbeatRequestTopic, full bool) *kmsg.ConsumerGroupHeartbeatResponse {
	req := kmsg.NewPtrConsumerGroupHeartbeatRequest()
	req.Group = "g"
	req.MemberID = member
	req.MemberEpoch = epoch
	req.InstanceID = inst
	if full {
		req.RebalanceTimeoutMillis = 5000
		req.SubscribedTopicNames = subs
		a := "uniform"
		req.ServerAssignor = &a
		req.Topics = owned
		if req.Topics == nil {
			req.Topics = []kmsg.ConsumerGroupHeartbeatRequestTopic{}
		}
	}
	resp, err := req.RequestWith(ctx, cl)
	if err != nil {
		panic(err)
	}
	as := "nil"
	if resp.Assignment != nil {
		as = ""
		for _, t := range resp.Assignment.Topics {
			as += fmt.Sprint(t.Partitions)
		}
	}
	fmt.Printf("  hb %-3s epoch=%d -> err=%d memberEpoch=%d assignment=%s\n", member, epoch, resp.ErrorCode, resp.MemberEpoch, as)
	return resp
}

func describe(cl *kgo.Client) {
	req := kmsg.NewPtrConsumerGroupDescribeRequest()
	req.Groups = []string{"g"}
	resp, err := req.RequestWith(ctx, cl)
	if err != nil {
		panic(err)
	}
	for _, g := range resp.Groups {
		fmt.Printf("  describe: state=%s epoch=%d targetEpoch=%d\n", g.State, g.Epoch, g.AssignmentEpoch)
		sort.Slice(g.Members, func(i, j int) bool { return g.Members[i].MemberID < g.Members[j].MemberID })
		for _, m := range g.Members {
			var cur, tgt []int32
			for _, t := range m.Assignment.TopicPartitions {
				cur = append(cur, t.Partitions...)
			}
			for _, t := range m.TargetAssignment.TopicPartitions {
				tgt = append(tgt, t.Partitions...)
			}
			fmt.Printf("    member %-3s epoch=%d current=%v TARGET=%v\n", m.MemberID, m.MemberEpoch, cur, tgt)
		}
	}
}

func owned(id [16]byte, ps []int32) []kmsg.ConsumerGroupHeartbeatRequestTopic {
	t := kmsg.NewConsumerGroupHeartbeatRequestTopic()
	t.TopicID = id
	t.Partitions = ps
	return []kmsg.ConsumerGroupHeartbeatRequestTopic{t}
}

func main() {
	c, err := kfake.NewCluster(kfake.NumBrokers(1), kfake.SeedTopics(4, "t"))
	if err != nil {
		panic(err)
	}
	defer c.Close()
	cl, err := kgo.NewClient(kgo.SeedBrokers(c.ListenAddrs()...))
	if err != nil {
		panic(err)
	}
	defer cl.Close()
	tid := c.TopicInfo("t").TopicID
	i1 := "i1"
	fmt.Println("1. static member A (instance i1) joins and takes everything")
	r := hb(cl, "A", 0, &i1, []string{"t"}, nil, true)
	r = hb(cl, "A", r.MemberEpoch, &i1, []string{"t"}, owned(tid, []int32{0, 1, 2, 3}), true)
	describe(cl)
	fmt.Println("2. A sends a static leave (epoch -2)")
	hb(cl, "A", -2, &i1, nil, nil, false)
	describe(cl)
	fmt.Println("3. dynamic member B joins while A is away")
	rb := hb(cl, "B", 0, nil, []string{"t"}, nil, true)
	describe(cl)
	fmt.Println("4. the static member comes back as A2 (same instance id, same subscription)")
	ra := hb(cl, "A2", 0, &i1, []string{"t"}, nil, true)
	describe(cl)
	fmt.Println("5. a third member C joins: assignUniform now runs on the conflicting prior targets")
	hb(cl, "C", 0, nil, []string{"t"}, nil, true)
	describe(cl)
	_, _ = rb, ra
}
