// C25 harness: every built-in balancer of this tree through its public interfaces (MemberBalancer,
// BalanceOrError, IntoSyncAssignment, ParseSyncAssignment) and kfake's server-side assignors through
// computeTargetAssignment (verif hook), on generated groups.
//
//	ops:  range  M T   -> plan        rr M T -> plan        sticky M T -> plan
//	      coop   M T   -> pre # post # pub   (sticky plan before / after AdjustCooperative from one engine run; public path)
//	      krange KM S  -> plan        kuniform KM S -> plan
//
// Encodings are described in lean/Driver/C25.lean.
package main

import (
	"time"

	"github.com/twmb/franz-go/pkg/kgo"
	"verifharness/cmd/c25/bal"
	"verifharness/hx"
)

func emitAll(r *hx.Rng, ms []bal.Mem, ts []bal.Topic, kinds string) {
	m, t := bal.EncMembers(ms), bal.EncTopics(ts)
	for _, k := range kinds {
		switch k {
		case 'r':
			hx.Emit("range %s %s", m, t)
		case 'o':
			hx.Emit("rr %s %s", m, t)
		case 's':
			hx.Emit("sticky %s %s", m, t)
		case 'c':
			hx.Emit("coop %s %s", m, t)
		case 'K':
			km := bal.ForKfake(r, ms)
			hx.Emit("krange %s %s", bal.EncKMembers(km), t)
		case 'U':
			km := bal.ForKfake(r, ms)
			hx.Emit("kuniform %s %s", bal.EncKMembers(km), t)
		}
	}
}

func gen(a hx.Args) {
	r := hx.NewRng(a.Seed)
	thorough := a.Tier == "thorough"
	eq := func(n int, v int32) []int32 {
		g := make([]int32, n)
		for i := range g {
			g[i] = v
		}
		return g
	}
	// --- small-scope exhaustive enumeration
	// subscription-only balancers (range with rack variants, round robin, kfake range)
	for n := 1; n <= 3; n++ {
		for k := 1; k <= 2; k++ {
			if !thorough && (n == 3 && k == 2 || n == 1) {
				continue
			}
			bal.Exhaustive(n, k, 3, [][]int32{eq(n, 0)}, false, func(ms []bal.Mem, ts []bal.Topic) {
				for _, v := range bal.RackVariants(ms, ts) {
					emitAll(nil, v[0].([]bal.Mem), v[1].([]bal.Topic), "r")
				}
				emitAll(nil, ms, ts, "oK")
			})
		}
	}
	// ownership-sensitive balancers: all claimant sets (conflicts included), generation patterns
	gensFor := func(n int) [][]int32 {
		gs := [][]int32{eq(n, 1)}
		for i := 0; i < n; i++ { // member i stale
			g := eq(n, 1)
			g[i] = 0
			gs = append(gs, g)
		}
		if n > 1 { // member 0 without generation (old client)
			g := eq(n, 1)
			g[0] = -1
			gs = append(gs, g)
		}
		return gs
	}
	type scope struct{ n, k, p int }
	scopes := []scope{{2, 1, 2}, {2, 1, 3}}
	if thorough {
		scopes = []scope{{1, 1, 3}, {2, 1, 3}, {3, 1, 3}, {1, 2, 2}, {2, 2, 2}, {3, 2, 1}}
	}
	for _, s := range scopes {
		bal.Exhaustive(s.n, s.k, s.p, gensFor(s.n), true, func(ms []bal.Mem, ts []bal.Topic) {
			emitAll(nil, ms, ts, "sc")
			if ms[0].Gen == 1 && (len(ms) < 2 || ms[1].Gen == 1) && (len(ms) < 3 || ms[2].Gen == 1) {
				emitAll(nil, ms, ts, "U")
			}
		})
	}
	// --- random structured groups
	for i := 0; i < a.N(1500, 40000); i++ {
		sh := bal.Shape{MaxMembers: 6, MaxTopics: 4, MaxParts: 8}
		if i%5 == 0 {
			sh = bal.Shape{MaxMembers: 14, MaxTopics: 8, MaxParts: 16}
		}
		ms, ts := bal.Random(r, sh)
		for len(ms) < 2 && !r.Chance(10) { // single-member groups are trivial: keep only a few
			ms, ts = bal.Random(r, sh)
		}
		emitAll(r, ms, ts, "roscKU")
	}
	// --- large groups
	for i := 0; i < a.N(6, 60); i++ {
		ms, ts := bal.Random(r, bal.Shape{MaxMembers: 200, MaxTopics: 50, MaxParts: 24})
		emitAll(r, ms, ts, "roscKU")
	}
}

func run() {
	hx.RunLines(20*time.Second, func(t []string) string {
		if len(t) != 3 {
			return "bad-op"
		}
		hx.St.Inc("op_" + t[0])
		if t[0] == "krange" || t[0] == "kuniform" {
			ms, ts := bal.DecKMembers(t[1]), bal.DecTopics(t[2])
			stat(ms, ts)
			assignor := "range"
			if t[0] == "kuniform" {
				assignor = "uniform"
			}
			return bal.ShowPlan(bal.RunKfake(assignor, ms, ts))
		}
		ms, ts := bal.DecMembers(t[1]), bal.DecTopics(t[2])
		stat(ms, ts)
		switch t[0] {
		case "range":
			return bal.ShowPlan(bal.RunPublic(kgo.RangeBalancer(), bal.JoinMembers(ms, "plain"), ts))
		case "rr":
			return bal.ShowPlan(bal.RunPublic(kgo.RoundRobinBalancer(), bal.JoinMembers(ms, "plain"), ts))
		case "sticky":
			return bal.ShowPlan(bal.RunPublic(kgo.StickyBalancer(), bal.JoinMembers(ms, "sticky"), ts))
		case "coop":
			pre, post := bal.RunCoopHook(bal.JoinMembers(ms, "coop"), ts)
			pub := bal.RunPublic(kgo.CooperativeStickyBalancer(), bal.JoinMembers(ms, "coop"), ts)
			return bal.ShowPlan(pre) + " # " + bal.ShowPlan(post) + " # " + bal.ShowPlan(pub)
		}
		return "bad-op"
	})
}

func bucket(n int) string {
	switch {
	case n == 0:
		return "0"
	case n <= 1:
		return "1"
	case n <= 3:
		return "2-3"
	case n <= 8:
		return "4-8"
	case n <= 32:
		return "9-32"
	}
	return "33+"
}

func stat(ms []bal.Mem, ts []bal.Topic) {
	hx.St.Inc("members_" + bucket(len(ms)))
	hx.St.Inc("topics_" + bucket(len(ts)))
	parts, racks, mracks, owned, stale, away := 0, 0, 0, 0, 0, 0
	var maxGen int32 = -2
	for _, m := range ms {
		if m.Gen > maxGen {
			maxGen = m.Gen
		}
	}
	claimed := map[string]int{}
	dupSub := false
	for _, m := range ms {
		seenT := map[string]bool{}
		for _, t := range m.Subs {
			if seenT[t] {
				dupSub = true
			}
			seenT[t] = true
		}
		if m.Rack != nil {
			mracks++
		}
		if m.Away {
			away++
		}
		if len(m.Owned) > 0 {
			owned++
			if m.Gen < maxGen {
				stale++
			}
		}
		for _, o := range m.Owned {
			for _, p := range o.Parts {
				claimed[o.Topic+"/"+hx.Itoa(int64(p))]++
			}
		}
	}
	conflicts := 0
	for _, c := range claimed {
		if c > 1 {
			conflicts++
		}
	}
	for _, t := range ts {
		parts += int(t.Count)
		if t.Racks != nil {
			racks++
		}
	}
	hx.St.Inc("partitions_" + bucket(parts))
	switch {
	case racks == 0 && mracks == 0:
		hx.St.Inc("racks_absent")
	case racks == len(ts) && mracks == len(ms):
		hx.St.Inc("racks_complete")
	default:
		hx.St.Inc("racks_partial")
	}
	if owned == 0 {
		hx.St.Inc("priors_none")
	} else {
		hx.St.Inc("priors_some")
	}
	if stale > 0 {
		hx.St.Inc("priors_with_stale_generation")
	}
	if conflicts > 0 {
		hx.St.Inc("priors_with_conflicting_claims")
	}
	if away > 0 {
		hx.St.Inc("kfake_with_away_member")
	}
	if dupSub {
		hx.St.Inc("subscription_lists_topic_twice")
	}
}

func main() {
	a := hx.Parse()
	switch a.Mode {
	case "gen":
		gen(a)
		hx.Flush()
	case "run":
		run()
	}
}
