// C25 harness: every built-in balancer of this tree through its public interfaces (MemberBalancer,
// BalanceOrError, IntoSyncAssignment, ParseSyncAssignment) and kfake's server-side assignors through
// computeTargetAssignment (verif hook), on generated groups.
//
//	ops:  range  M T   -> plan        rr M T -> plan        sticky M T -> plan
//	      coop   M T   -> pre # post # pub   (sticky plan before / after AdjustCooperative from one engine run; public path)
//	      krange KM S  -> plan        kuniform KM S -> plan
//	      sticky@R M T / coop@R M T: the same input balanced R times (the engine numbers topics in Go map
//	      iteration order, so one input has several executions); the distinct outputs, sorted, joined by " @@ "
//
// Encodings are described in lean/Driver/C25.lean.
package main

import (
	"sort"
	"strconv"
	"strings"
	"time"

	"github.com/twmb/franz-go/pkg/kgo"
	"verifharness/cmd/c25/bal"
	"verifharness/hx"
)

func emitAll(r *hx.Rng, ms []bal.Mem, ts []bal.Topic, kinds string) {
	m, t := bal.EncMembers(ms), bal.EncTopics(ts)
	for _, k := range kinds {
		switch k {
		case 'r':
			hx.Emit("range %s %s", m, t)
		case 'o':
			hx.Emit("rr %s %s", m, t)
		case 's':
			hx.Emit("sticky %s %s", m, t)
		case 'c':
			hx.Emit("coop %s %s", m, t)
		case 'K':
			km := bal.ForKfake(r, ms)
			hx.Emit("krange %s %s", bal.EncKMembers(km), t)
		case 'U':
			km := bal.ForKfake(r, ms)
			hx.Emit("kuniform %s %s", bal.EncKMembers(km), t)
		}
	}
}

// emitRep emits the sticky (sreps > 0) and cooperative-sticky (creps > 0) balancers with repetitions.
func emitRep(ms []bal.Mem, ts []bal.Topic, sreps, creps int) {
	m, t := bal.EncMembers(ms), bal.EncTopics(ts)
	if sreps > 0 {
		hx.Emit("sticky@%d %s %s", sreps, m, t)
	}
	if creps > 0 {
		hx.Emit("coop@%d %s %s", creps, m, t)
	}
}

func gen(a hx.Args) {
	r := hx.NewRng(a.Seed)
	thorough := a.Tier == "thorough"
	eq := func(n int, v int32) []int32 {
		g := make([]int32, n)
		for i := range g {
			g[i] = v
		}
		return g
	}
	// --- small-scope exhaustive enumeration
	// subscription-only balancers (range with rack variants, round robin, kfake range)
	for n := 1; n <= 3; n++ {
		for k := 1; k <= 2; k++ {
			if !thorough && (n == 3 && k == 2 || n == 1) {
				continue
			}
			bal.Exhaustive(n, k, 3, [][]int32{eq(n, 0)}, false, func(ms []bal.Mem, ts []bal.Topic) {
				for _, v := range bal.RackVariants(ms, ts) {
					emitAll(nil, v[0].([]bal.Mem), v[1].([]bal.Topic), "r")
				}
				emitAll(nil, ms, ts, "oK")
			})
		}
	}
	// ownership-sensitive balancers: all claimant sets (conflicts included), generation patterns
	gensFor := func(n int) [][]int32 {
		gs := [][]int32{eq(n, 1)}
		for i := 0; i < n; i++ { // member i stale
			g := eq(n, 1)
			g[i] = 0
			gs = append(gs, g)
		}
		if n > 1 { // member 0 without generation (old client)
			g := eq(n, 1)
			g[0] = -1
			gs = append(gs, g)
		}
		return gs
	}
	type scope struct{ n, k, p int }
	scopes := []scope{{2, 1, 2}, {2, 1, 3}}
	if thorough {
		scopes = []scope{{1, 1, 3}, {2, 1, 3}, {3, 1, 3}, {1, 2, 2}, {2, 2, 2}, {3, 2, 1}}
	}
	for _, s := range scopes {
		bal.Exhaustive(s.n, s.k, s.p, gensFor(s.n), true, func(ms []bal.Mem, ts []bal.Topic) {
			emitAll(nil, ms, ts, "sc")
			if ms[0].Gen == 1 && (len(ms) < 2 || ms[1].Gen == 1) && (len(ms) < 3 || ms[2].Gen == 1) {
				emitAll(nil, ms, ts, "U")
			}
		})
	}
	// --- random structured groups
	for i := 0; i < a.N(1500, 40000); i++ {
		sh := bal.Shape{MaxMembers: 6, MaxTopics: 4, MaxParts: 8}
		if i%5 == 0 {
			sh = bal.Shape{MaxMembers: 14, MaxTopics: 8, MaxParts: 16}
		}
		ms, ts := bal.Random(r, sh)
		for len(ms) < 2 && !r.Chance(10) { // single-member groups are trivial: keep only a few
			ms, ts = bal.Random(r, sh)
		}
		emitAll(r, ms, ts, "roscKU")
	}
	// --- the sticky engine's complex path (steal graph search): members with different, overlapping
	// subscriptions over many small topics, skewed prior ownership. Every input is balanced several times.
	for i := 0; i < a.N(24000, 150000); i++ {
		ms, ts := bal.Hard(r)
		if i%2 == 0 {
			emitRep(ms, ts, 8, 4)
		} else {
			emitRep(ms, ts, 8, 0)
		}
	}
	// the C26 generator's shapes (every member a few topics, rings; ownership skewed per topic)
	for i := 0; i < a.N(2000, 30000); i++ {
		var ms []bal.Mem
		var ts []bal.Topic
		switch i % 4 {
		case 0:
			ms, ts = bal.Sparse(r, 8, 12, 3)
		case 1:
			ms, ts = bal.Sparse(r, 8, 12, 6)
		default:
			ms, ts = bal.Sparse(r, 7, 6, 5)
		}
		emitRep(ms, ts, 8, 4*(i%2))
	}
	// mutation stream: one to three rounds of small edits of a known-hard input (the steal-back input of
	// seeded/C25-steal-back-keeps-old-edge and the other seeds of bal.Seeds) ...
	sm, st := bal.Seeds()
	for i := 0; i < a.N(2500, 30000); i++ {
		k := r.Intn(len(sm))
		if i%4 == 0 {
			k = 0
		}
		ms, ts := bal.Mutate(r, sm[k], st[k])
		for d := r.Intn(3); d > 0; d-- {
			ms, ts = bal.Mutate(r, ms, ts)
		}
		emitRep(ms, ts, 12, 6*(i%2))
	}
	// ... and of fresh groups of the shapes above
	for i := 0; i < a.N(1500, 20000); i++ {
		var ms []bal.Mem
		var ts []bal.Topic
		switch i % 3 {
		case 0:
			ms, ts = bal.Sparse(r, 7, 6, 5)
		case 1:
			ms, ts = bal.Hard(r)
		default:
			ms, ts = bal.Random(r, bal.Shape{MaxMembers: 8, MaxTopics: 12, MaxParts: 6})
		}
		ms, ts = bal.Mutate(r, ms, ts)
		emitRep(ms, ts, 8, 0)
	}
	// --- large groups
	for i := 0; i < a.N(6, 60); i++ {
		ms, ts := bal.Random(r, bal.Shape{MaxMembers: 200, MaxTopics: 50, MaxParts: 24})
		emitAll(r, ms, ts, "roscKU")
	}
}

func run() {
	hx.RunLines(20*time.Second, func(t []string) string {
		if len(t) != 3 {
			return "bad-op"
		}
		reps := 1
		if i := strings.IndexByte(t[0], '@'); i >= 0 {
			reps, _ = strconv.Atoi(t[0][i+1:])
			t[0] = t[0][:i]
			if reps < 1 || reps > 1000 || (t[0] != "sticky" && t[0] != "coop") {
				return "bad-op"
			}
			hx.St.Inc("op_" + t[0] + "_repeated")
		}
		hx.St.Inc("op_" + t[0])
		if t[0] == "krange" || t[0] == "kuniform" {
			ms, ts := bal.DecKMembers(t[1]), bal.DecTopics(t[2])
			stat(ms, ts)
			assignor := "range"
			if t[0] == "kuniform" {
				assignor = "uniform"
			}
			return bal.ShowPlan(bal.RunKfake(assignor, ms, ts))
		}
		ms, ts := bal.DecMembers(t[1]), bal.DecTopics(t[2])
		stat(ms, ts)
		switch t[0] {
		case "range":
			return bal.ShowPlan(bal.RunPublic(kgo.RangeBalancer(), bal.JoinMembers(ms, "plain"), ts))
		case "rr":
			return bal.ShowPlan(bal.RunPublic(kgo.RoundRobinBalancer(), bal.JoinMembers(ms, "plain"), ts))
		case "sticky":
			return repeat(reps, 1, func() string {
				return bal.ShowPlan(bal.RunPublic(kgo.StickyBalancer(), bal.JoinMembers(ms, "sticky"), ts))
			})
		case "coop":
			return repeat(reps, 2, func() string {
				pre, post := bal.RunCoopHook(bal.JoinMembers(ms, "coop"), ts)
				pub := bal.RunPublic(kgo.CooperativeStickyBalancer(), bal.JoinMembers(ms, "coop"), ts)
				return bal.ShowPlan(pre) + " # " + bal.ShowPlan(post) + " # " + bal.ShowPlan(pub)
			})
		}
		return "bad-op"
	})
}

// repeat runs one input reps times and returns the distinct outputs, sorted, joined by " @@ ": validity does
// not depend on the engine's internal topic numbering, so every repetition is judged on its own.
func repeat(reps, enginePerRun int, f func() string) string {
	seen := map[string]bool{}
	var outs []string
	for i := 0; i < reps; i++ {
		o := f()
		if !seen[o] {
			seen[o] = true
			outs = append(outs, o)
		}
	}
	hx.St.Add("sticky_engine_runs", reps*enginePerRun)
	if reps > 1 {
		hx.St.Inc("repeated_distinct_outputs_" + bucket(len(outs)))
	}
	sort.Strings(outs)
	return strings.Join(outs, " @@ ")
}

func bucket(n int) string {
	switch {
	case n == 0:
		return "0"
	case n <= 1:
		return "1"
	case n <= 3:
		return "2-3"
	case n <= 8:
		return "4-8"
	case n <= 32:
		return "9-32"
	}
	return "33+"
}

func stat(ms []bal.Mem, ts []bal.Topic) {
	hx.St.Inc("members_" + bucket(len(ms)))
	hx.St.Inc("topics_" + bucket(len(ts)))
	parts, racks, mracks, owned, stale, away := 0, 0, 0, 0, 0, 0
	var maxGen int32 = -2
	for _, m := range ms {
		if m.Gen > maxGen {
			maxGen = m.Gen
		}
	}
	claimed := map[string]int{}
	dupSub := false
	uneven := false
	for _, m := range ms {
		if strings.Join(m.Subs, "+") != strings.Join(ms[0].Subs, "+") {
			uneven = true
		}
		seenT := map[string]bool{}
		for _, t := range m.Subs {
			if seenT[t] {
				dupSub = true
			}
			seenT[t] = true
		}
		if m.Rack != nil {
			mracks++
		}
		if m.Away {
			away++
		}
		if len(m.Owned) > 0 {
			owned++
			if m.Gen < maxGen {
				stale++
			}
		}
		for _, o := range m.Owned {
			for _, p := range o.Parts {
				claimed[o.Topic+"/"+hx.Itoa(int64(p))]++
			}
		}
	}
	conflicts := 0
	for _, c := range claimed {
		if c > 1 {
			conflicts++
		}
	}
	for _, t := range ts {
		parts += int(t.Count)
		if t.Racks != nil {
			racks++
		}
	}
	hx.St.Inc("partitions_" + bucket(parts))
	switch {
	case racks == 0 && mracks == 0:
		hx.St.Inc("racks_absent")
	case racks == len(ts) && mracks == len(ms):
		hx.St.Inc("racks_complete")
	default:
		hx.St.Inc("racks_partial")
	}
	if owned == 0 {
		hx.St.Inc("priors_none")
	} else {
		hx.St.Inc("priors_some")
	}
	if stale > 0 {
		hx.St.Inc("priors_with_stale_generation")
	}
	if conflicts > 0 {
		hx.St.Inc("priors_with_conflicting_claims")
	}
	if away > 0 {
		hx.St.Inc("kfake_with_away_member")
	}
	if dupSub {
		hx.St.Inc("subscription_lists_topic_twice")
	}
	if uneven {
		hx.St.Inc("subscriptions_uneven")
	} else {
		hx.St.Inc("subscriptions_uniform")
	}
}

func main() {
	a := hx.Parse()
	switch a.Mode {
	case "gen":
		gen(a)
		hx.Flush()
	case "run":
		run()
	}
}
