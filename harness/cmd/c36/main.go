// C36 harness: pkg/sr ConfluentHeader and Serde of this tree, through their public API.
//
//	ops (every stateless op is preceded by `reset` so that a replay is the op alone):
//	  reset                                      -> ok          (fresh Serde)
//	  enc <prehex> <id> <idx>                    -> <hex>        ConfluentHeader.AppendEncode(pre, id, idx)
//	  decid <hex>                                -> ok <id> <resthex> | err <kind> | panic
//	  decidx <hex> <maxLength>                   -> ok <idx> <resthex> | err <kind> | panic
//	  hrt <id> <idx> <payloadhex> <maxLength>    -> AppendEncode, DecodeID, DecodeIndex (when idx is not empty): ok <id> <idx> <resthex> | …
//	  reg <id> <ty> <tag> <idx> <enc> <dec>      -> ok          Serde.Register(id, T<ty>{}, Index(idx…)?, enc 0 none/1 EncodeFn/2 AppendEncodeFn, dec 0 none/1 DecodeFn/2 DecodeFn+GenerateFn)
//	  senc <ty> <prehex> <payloadhex>            -> ok <hex> | err <kind>                     Serde.AppendEncode(pre, T<ty>{payload})
//	  sdec <hex>                                 -> ok <tag> <ty> <payloadhex> | err <kind>   Serde.Decode and Serde.DecodeNew (must agree, else `split …`)
//	  srt <ty> <payloadhex>                      -> enc=<ok hex|err kind> dec=<as sdec>       Serde.Encode then Decode/DecodeNew of its output
//	idx: comma separated ints, `-` for the empty/nil index. kinds: eof unexpected-eof overflow bad-header not-registered.
//
// `run` is a supervisor: the ops are executed by a child process (`runchild`) whose address space is limited,
// because an allocation sized by a hostile count can abort the process (fatal error: out of memory), which recover
// cannot catch (DecodeIndex did exactly that before /repo a468db8; the guard stays so that a regression is an outcome). The op on which the child died is reported as `panic` and the rest continues in a new child; an op
// exceeding its 2 s deadline is reported as `hang` and the child is replaced as well
// (the ops since the last `reset` are replayed silently first).
package main

import (
	"bufio"
	"bytes"
	"errors"
	"fmt"
	"io"
	"os"
	"os/exec"
	"runtime/debug"
	"sort"
	"strconv"
	"strings"
	"syscall"
	"time"

	"github.com/twmb/franz-go/pkg/sr"
	"verifharness/hx"
)

// ---------------------------------------------------------------- values

type val interface {
	set([]byte)
	get() []byte
	ty() int
}
type (
	T0 struct{ P []byte }
	T1 struct{ P []byte }
	T2 struct{ P []byte }
	T3 struct{ P []byte }
	T4 struct{ P []byte }
	T5 struct{ P []byte }
	T6 struct{ P []byte }
	T7 struct{ P []byte }
)

func (t *T0) set(b []byte) { t.P = b }
func (t *T1) set(b []byte) { t.P = b }
func (t *T2) set(b []byte) { t.P = b }
func (t *T3) set(b []byte) { t.P = b }
func (t *T4) set(b []byte) { t.P = b }
func (t *T5) set(b []byte) { t.P = b }
func (t *T6) set(b []byte) { t.P = b }
func (t *T7) set(b []byte) { t.P = b }
func (t *T0) get() []byte  { return t.P }
func (t *T1) get() []byte  { return t.P }
func (t *T2) get() []byte  { return t.P }
func (t *T3) get() []byte  { return t.P }
func (t *T4) get() []byte  { return t.P }
func (t *T5) get() []byte  { return t.P }
func (t *T6) get() []byte  { return t.P }
func (t *T7) get() []byte  { return t.P }
func (*T0) ty() int        { return 0 }
func (*T1) ty() int        { return 1 }
func (*T2) ty() int        { return 2 }
func (*T3) ty() int        { return 3 }
func (*T4) ty() int        { return 4 }
func (*T5) ty() int        { return 5 }
func (*T6) ty() int        { return 6 }
func (*T7) ty() int        { return 7 }

const nTypes = 8

// mk returns the value registered/encoded (a struct value) and a fresh pointer for decoding.
func mk(ty int, p []byte) (v any, ptr val) {
	switch ty {
	case 0:
		return T0{p}, &T0{}
	case 1:
		return T1{p}, &T1{}
	case 2:
		return T2{p}, &T2{}
	case 3:
		return T3{p}, &T3{}
	case 4:
		return T4{p}, &T4{}
	case 5:
		return T5{p}, &T5{}
	case 6:
		return T6{p}, &T6{}
	case 7:
		return T7{p}, &T7{}
	}
	panic("bad type token")
}
func payloadOf(v any) []byte {
	switch t := v.(type) {
	case T0:
		return t.P
	case T1:
		return t.P
	case T2:
		return t.P
	case T3:
		return t.P
	case T4:
		return t.P
	case T5:
		return t.P
	case T6:
		return t.P
	case T7:
		return t.P
	}
	panic("bad value")
}

// ---------------------------------------------------------------- printing

func idxStr(ix []int) string {
	if len(ix) == 0 {
		return "-"
	}
	s := make([]string, len(ix))
	for i, v := range ix {
		s[i] = strconv.Itoa(v)
	}
	return strings.Join(s, ",")
}
func idx64Str(ix []int64) string {
	if len(ix) == 0 {
		return "-"
	}
	s := make([]string, len(ix))
	for i, v := range ix {
		s[i] = strconv.FormatInt(v, 10)
	}
	return strings.Join(s, ",")
}
func parseIdx(s string) []int {
	if s == "-" {
		return nil
	}
	var r []int
	for _, p := range strings.Split(s, ",") {
		r = append(r, int(hx.Atoi(p)))
	}
	return r
}
func hexE(b []byte) string { // nil and empty are both "."
	if len(b) == 0 {
		return "."
	}
	return hx.Hex(b)
}
func errKind(err error) string {
	switch {
	case errors.Is(err, io.ErrUnexpectedEOF):
		return "unexpected-eof"
	case errors.Is(err, io.EOF):
		return "eof"
	case errors.Is(err, sr.ErrBadHeader):
		return "bad-header"
	case errors.Is(err, sr.ErrNotRegistered):
		return "not-registered"
	case strings.Contains(err.Error(), "overflows"):
		return "overflow"
	}
	return "other:" + strings.ReplaceAll(err.Error(), " ", "_")
}

// ---------------------------------------------------------------- the implementation under test

var hdr = new(sr.ConfluentHeader)

type impl struct {
	s       *sr.Serde
	lastTag int
}

func (im *impl) decodeBoth(b []byte) string {
	// Decode into a caller-supplied value
	_, ptr := mk(0, nil)
	im.lastTag = -1
	var d string
	if err := im.s.Decode(b, ptr); err != nil {
		d = "err " + errKind(err)
	} else {
		d = fmt.Sprintf("ok %d %s", im.lastTag, hexE(ptr.get()))
	}
	// DecodeNew
	im.lastTag = -1
	var n string
	v, err := im.s.DecodeNew(b)
	if err != nil {
		n = "err " + errKind(err)
	} else if vv, ok := v.(val); ok {
		n = fmt.Sprintf("ok %d %d %s", im.lastTag, vv.ty(), hexE(vv.get()))
	} else {
		n = fmt.Sprintf("ok-unknown-value-%T", v)
	}
	// both must name the same decoder and bytes
	df, nf := strings.Fields(d), strings.Fields(n)
	if df[0] == "err" && d == n {
		return d
	}
	if df[0] == "ok" && nf[0] == "ok" && len(nf) == 4 && df[1] == nf[1] && df[2] == nf[3] {
		return n
	}
	return "split D=" + strings.ReplaceAll(d, " ", "_") + " N=" + strings.ReplaceAll(n, " ", "_")
}

func (im *impl) op(t []string) (res string) {
	defer func() {
		if r := recover(); r != nil {
			res = "panic"
		}
	}()
	switch t[0] {
	case "reset":
		im.s = sr.NewSerde()
		return "ok"
	case "enc":
		b, err := hdr.AppendEncode(hx.UnHex(t[1]), int(hx.Atoi(t[2])), parseIdx(t[3]))
		if err != nil {
			return "err " + errKind(err)
		}
		return hexE(b)
	case "decid":
		id, rest, err := hdr.DecodeID(hx.UnHex(t[1]))
		if err != nil {
			return "err " + errKind(err)
		}
		return fmt.Sprintf("ok %d %s", id, hexE(rest))
	case "decidx":
		ix, rest, err := hdr.DecodeIndex(hx.UnHex(t[1]), int(hx.Atoi(t[2])))
		if err != nil {
			return "err " + errKind(err)
		}
		return fmt.Sprintf("ok %s %s", idxStr(ix), hexE(rest))
	case "hrt":
		ix := parseIdx(t[2])
		b, err := hdr.AppendEncode(nil, int(hx.Atoi(t[1])), ix)
		if err != nil {
			return "err " + errKind(err)
		}
		b = append(b, hx.UnHex(t[3])...)
		id, rest, err := hdr.DecodeID(b)
		if err != nil {
			return "err " + errKind(err)
		}
		var got []int
		if len(ix) > 0 {
			got, rest, err = hdr.DecodeIndex(rest, int(hx.Atoi(t[4])))
			if err != nil {
				return "err " + errKind(err)
			}
		}
		return fmt.Sprintf("ok %d %s %s", id, idxStr(got), hexE(rest))
	case "reg":
		ty, tag := int(hx.Atoi(t[2])), int(hx.Atoi(t[3]))
		v, _ := mk(ty, nil)
		var opts []sr.EncodingOpt
		if ix := parseIdx(t[4]); len(ix) > 0 {
			opts = append(opts, sr.Index(ix...))
		}
		switch t[5] {
		case "1":
			opts = append(opts, sr.EncodeFn(func(v any) ([]byte, error) { return payloadOf(v), nil }))
		case "2":
			opts = append(opts, sr.AppendEncodeFn(func(b []byte, v any) ([]byte, error) { return append(b, payloadOf(v)...), nil }))
		}
		if t[6] != "0" {
			opts = append(opts, sr.DecodeFn(func(b []byte, v any) error {
				im.lastTag = tag
				v.(val).set(append([]byte(nil), b...))
				return nil
			}))
		}
		if t[6] == "2" {
			opts = append(opts, sr.GenerateFn(func() any { _, p := mk(ty, nil); return p }))
		}
		im.s.Register(int(hx.Atoi(t[1])), v, opts...)
		return "ok"
	case "senc":
		v, _ := mk(int(hx.Atoi(t[1])), hx.UnHex(t[3]))
		b, err := im.s.AppendEncode(hx.UnHex(t[2]), v)
		if err != nil {
			return "err " + errKind(err)
		}
		return "ok " + hexE(b)
	case "sdec":
		return im.decodeBoth(hx.UnHex(t[1]))
	case "srt":
		v, _ := mk(int(hx.Atoi(t[1])), hx.UnHex(t[2]))
		b, err := im.s.Encode(v)
		if err != nil {
			return "enc=err_" + errKind(err) + " dec=-"
		}
		return "enc=" + hexE(b) + " dec=" + strings.ReplaceAll(im.decodeBoth(b), " ", "_")
	}
	return "bad-op"
}

func runChild() {
	lim := uint64(4 << 30)
	_ = syscall.Setrlimit(syscall.RLIMIT_AS, &syscall.Rlimit{Cur: lim, Max: lim})
	debug.SetMemoryLimit(3 << 30)
	im := &impl{s: sr.NewSerde()}
	sc := bufio.NewScanner(os.Stdin)
	sc.Buffer(make([]byte, 1<<20), 1<<28)
	for sc.Scan() {
		line := strings.TrimSpace(sc.Text())
		if line == "" {
			continue
		}
		t := strings.Fields(line)
		res := hx.Guard(2*time.Second, func() string { return im.op(t) })
		hx.Emit("%s | %s", line, res)
		if res == "hang" {
			// the abandoned goroutine may still be allocating: continue in a fresh process
			hx.Emit("#restart")
			hx.Flush()
			os.Exit(0)
		}
		hx.Flush()
	}
}

// ---------------------------------------------------------------- supervisor

func supervise() {
	sc := bufio.NewScanner(os.Stdin)
	sc.Buffer(make([]byte, 1<<20), 1<<28)
	var ops []string
	for sc.Scan() {
		l := strings.TrimSpace(sc.Text())
		if l != "" && !strings.HasPrefix(l, "#") {
			ops = append(ops, l)
		}
	}
	out := make([]string, len(ops))
	dead := make([]bool, len(ops)) // ops never fed again: they killed a child, or hung (their output is recorded)
	next := func(j int) int {
		for j < len(ops) && dead[j] {
			j++
		}
		return j
	}
	self, _ := os.Executable()
	start := 0
	for start < len(ops) {
		r := start
		for r > 0 && ops[r] != "reset" {
			r--
		}
		cmd := exec.Command(self, "runchild")
		var errb bytes.Buffer
		cmd.Stderr = &errb
		stdin, _ := cmd.StdinPipe()
		pipe, _ := cmd.StdoutPipe()
		if err := cmd.Start(); err != nil {
			fmt.Fprintln(os.Stderr, "cannot start child:", err)
			os.Exit(3)
		}
		wdone := make(chan struct{})
		go func() { // feeds the ops lazily; ends with a write error when the child dies
			defer close(wdone)
			w := bufio.NewWriterSize(stdin, 1<<16)
			for j := next(r); j < len(ops); j = next(j + 1) {
				if _, err := w.WriteString(ops[j] + "\n"); err != nil {
					return
				}
			}
			w.Flush()
			stdin.Close()
		}()
		rd := bufio.NewScanner(pipe)
		rd.Buffer(make([]byte, 1<<20), 1<<28)
		cur, last := next(r), -1
		restart := false
		for rd.Scan() {
			l := rd.Text()
			if l == "#restart" {
				restart = true
			}
			if strings.HasPrefix(l, "#") || strings.TrimSpace(l) == "" {
				continue
			}
			if cur < len(ops) {
				if cur >= start {
					out[cur] = l
				}
				last = cur
				cur = next(cur + 1)
			}
		}
		_ = cmd.Wait()
		stdin.Close()
		<-wdone
		if cur >= len(ops) {
			break
		}
		if restart && last >= start { // deliberate exit after a `hang`: go on with the next op
			hx.St.Inc("death.restart-after-hang")
			dead[last] = true
			start = cur
			continue
		}
		if cur < start { // died while replaying state: cannot make progress
			fmt.Fprintln(os.Stderr, "child died during replay of", ops[cur], "\n", tail(errb.String()))
			os.Exit(3)
		}
		dead[cur] = true
		out[cur] = ops[cur] + " | panic"
		if strings.Contains(errb.String(), "out of memory") {
			hx.St.Inc("death.fatal-out-of-memory")
		} else {
			hx.St.Inc("death.other")
			fmt.Fprintln(os.Stderr, "child died on", ops[cur], "\n", tail(errb.String()))
		}
		start = cur + 1
	}
	for i, l := range out {
		if l == "" {
			l = ops[i] + " | lost"
		}
		hx.Emit("%s", l)
		stat(l)
	}
	hx.St.Dump()
	hx.Flush()
}

func tail(s string) string {
	if len(s) > 600 {
		return s[:600]
	}
	return s
}

// stat records the input distribution from an `op | result` line.
func stat(line string) {
	parts := strings.SplitN(line, " | ", 2)
	t := strings.Fields(parts[0])
	res := strings.Fields(parts[1] + " ?")
	cls := res[0]
	if cls == "err" {
		cls = "err." + res[1]
	}
	if len(cls) > 24 {
		cls = cls[:24]
	}
	switch t[0] {
	case "reset":
		hx.St.Inc("op.reset")
		return
	case "enc":
		hx.St.Inc("op.enc")
		hx.St.Inc("enc.depth." + depthClass(t[3]))
	case "decid":
		hx.St.Inc("op.decid." + cls)
		hx.St.Inc("decid.len." + lenClass(len(hx.UnHex(t[1]))))
	case "decidx":
		hx.St.Inc("op.decidx." + cls)
		hx.St.Inc("decidx.maxLength." + maxClass(hx.Atoi(t[2])))
		if cls == "panic" {
			hx.St.Inc("decidx.panic.maxLength." + maxClass(hx.Atoi(t[2])))
		}
		if cls == "ok" {
			hx.St.Inc("decidx.ok.depth." + depthClass(res[1]))
		}
	case "hrt":
		hx.St.Inc("op.hrt." + cls)
		hx.St.Inc("hrt.depth." + depthClass(t[2]))
	case "reg":
		hx.St.Inc("op.reg")
		hx.St.Inc("reg.depth." + depthClass(t[4]))
	case "senc":
		hx.St.Inc("op.senc." + cls)
	case "sdec":
		hx.St.Inc("op.sdec." + cls)
	case "srt":
		k := "ok"
		if strings.HasPrefix(res[0], "enc=err") {
			k = "encode-error"
		} else if len(res) > 1 && !strings.HasPrefix(res[1], "dec=ok") {
			k = "decode-" + strings.TrimPrefix(res[1], "dec=")
			if len(k) > 30 {
				k = k[:30]
			}
		}
		hx.St.Inc("op.srt." + k)
	}
}
func depthClass(ix string) string {
	n := len(parseIdx(ix))
	switch {
	case n <= 6:
		return strconv.Itoa(n)
	case n <= 40:
		return "7-40"
	}
	return "41+"
}
func lenClass(n int) string {
	switch {
	case n < 5:
		return strconv.Itoa(n)
	case n < 16:
		return "5-15"
	}
	return "16+"
}
func maxClass(m int64) string {
	switch {
	case m < 0:
		return "negative"
	case m == 0:
		return "0"
	case m == 1:
		return "1"
	case m <= 100:
		return "small"
	case m <= 1<<20:
		return "large"
	}
	return "absurd"
}

// ---------------------------------------------------------------- generator

func uvarint(x uint64) []byte {
	var b []byte
	for x >= 0x80 {
		b = append(b, byte(x)|0x80)
		x >>= 7
	}
	return append(b, byte(x))
}
func varint(v int64) []byte {
	ux := uint64(v) << 1
	if v < 0 {
		ux = ^ux
	}
	return uvarint(ux)
}

// wire is the generator's own encoder of the Confluent header (used to build valid inputs and variants of them).
func wire(id uint32, ix []int64, shortcut bool) []byte {
	b := []byte{0, byte(id >> 24), byte(id >> 16), byte(id >> 8), byte(id)}
	return append(b, wireIdx(ix, shortcut)...)
}
func wireIdx(ix []int64, shortcut bool) []byte {
	var b []byte
	if len(ix) == 0 {
		return b
	}
	if shortcut && len(ix) == 1 && ix[0] == 0 {
		return []byte{0}
	}
	b = append(b, varint(int64(len(ix)))...)
	for _, v := range ix {
		b = append(b, varint(v)...)
	}
	return b
}

var idPool = []int64{0, 1, 2, 127, 128, 255, 256, 65535, 65536, 16777215, 16777216, 2147483647, 2147483648, 4294967294, 4294967295}
var badIDPool = []int64{4294967296, 4294967301, -1, -4294967296, 9223372036854775807, -9223372036854775808}
var valPool = []int64{0, 0, 1, -1, 2, 63, 64, -64, -65, 127, 128, 8191, 8192, -8193, 2147483647, -2147483648, 4294967296,
	4611686018427387904, -4611686018427387904, 9223372036854775807, -9223372036854775808}

func genID(r *hx.Rng) int64 {
	if r.Chance(50) {
		return hx.Pick(r, idPool)
	}
	return r.Range(0, 4294967295)
}
func genVal(r *hx.Rng) int64 {
	switch r.Intn(10) {
	case 0, 1, 2, 3:
		return hx.Pick(r, valPool)
	case 4, 5, 6:
		return r.Range(-70, 70)
	case 7:
		return r.Range(-20000, 20000)
	default:
		return int64(r.U64())
	}
}
func genPath(r *hx.Rng, depth int) []int64 {
	p := make([]int64, depth)
	for i := range p {
		p[i] = genVal(r)
	}
	return p
}
func genDepth(r *hx.Rng) int {
	switch k := r.Intn(100); {
	case k < 84:
		return k % 7 // 0..6
	case k < 97:
		return 7 + r.Intn(34)
	default:
		return 41 + r.Intn(260)
	}
}
func maxPool(depth int64) []int64 {
	return []int64{-9223372036854775808, -5, -1, 0, 0, 1, 2, 3, depth - 1, depth, depth + 1, 7, 100, 1 << 20}
}
func genPayload(r *hx.Rng) []byte {
	switch r.Intn(4) {
	case 0:
		return nil
	case 1:
		return []byte{byte(r.Intn(4))}
	default:
		return r.Bytes(1 + r.Intn(12))
	}
}

var nOps int

func emitStateless(format string, a ...any) {
	hx.Emit("reset")
	hx.Emit(format, a...)
	nOps++
}

// hostile counts: negative, zero in disguise, within a sane bound, beyond anything allocatable.
var hostileCounts = []int64{-1, -2, -9223372036854775808, 1 << 45, 1<<45 + 1, 1 << 50, 1 << 62, 9223372036854775807,
	1 << 40, 1 << 33, 1<<29 + 1, 5, 300, 70000, 1 << 20}

// mixSeed decorrelates adjacent seeds (hx.NewRng's state is linear in the seed with the same increment as its
// step, so seed k+1 would be the stream of seed k shifted by one draw).
func mixSeed(s uint64) uint64 {
	z := s*0xD6E8FEB86659FD93 + 0xC36C36C36C36
	z = (z ^ (z >> 32)) * 0xD6E8FEB86659FD93
	z = (z ^ (z >> 29)) * 0x94D049BB133111EB
	return z ^ (z >> 32)
}

func gen(a hx.Args) {
	r := hx.NewRng(mixSeed(a.Seed))
	thorough := a.Tier == "thorough"
	// 1. boundary grid of header encodings and round trips
	grid := [][]int64{{}, {0}, {1}, {-1}, {63}, {64}, {-64}, {-65}, {0, 0}, {0, 1}, {1, 0}, {64, 63}, {2147483647, -2147483648},
		{9223372036854775807}, {-9223372036854775808}, {0, 0, 0}, {1, 2, 3}, {1, 2, 3, 4}, {4, 3, 2, 1, 0}, {0, 1, 2, 3, 4, 5},
		{4611686018427387904, -4611686018427387904, 63, 64, 0, 0}}
	for _, id := range idPool {
		for _, p := range grid {
			emitStateless("enc . %d %s", id, idx64Str(p))
			for _, m := range []int64{-1, 0, int64(len(p)), int64(len(p)) - 1} {
				emitStateless("hrt %d %s %s %d", id, idx64Str(p), hexE(genPayload(r)), m)
			}
		}
	}
	for _, id := range badIDPool { // ids that are not schema ids: the Go int is truncated to 32 bits (executed, outside the Spec)
		emitStateless("enc . %d %s", id, idx64Str(hx.Pick(r, grid)))
	}
	// 2. random valid headers: encode, round trip, decode of independently built wire bytes, all maxLength classes
	for i := 0; i < a.N(1200, 60000); i++ {
		id := genID(r)
		depth := genDepth(r)
		p := genPath(r, depth)
		pay := genPayload(r)
		pre := []byte(nil)
		if r.Chance(25) {
			pre = r.Bytes(1 + r.Intn(6))
		}
		emitStateless("enc %s %d %s", hexE(pre), id, idx64Str(p))
		emitStateless("hrt %d %s %s %d", id, idx64Str(p), hexE(pay), hx.Pick(r, maxPool(int64(depth))))
		w := append(wire(uint32(id), p, !r.Chance(15)), pay...)
		emitStateless("decid %s", hexE(w))
		if depth > 0 {
			emitStateless("decidx %s %d", hexE(w[5:]), hx.Pick(r, maxPool(int64(depth))))
		}
		// 3. every truncation of a sample of them, and single-byte damage
		if i%8 == 0 && len(w) <= 80 {
			for k := 0; k < len(w); k++ {
				if k <= 6 {
					emitStateless("decid %s", hexE(w[:k]))
				}
				if k >= 5 && depth > 0 {
					emitStateless("decidx %s %d", hexE(w[5:k]), hx.Pick(r, maxPool(int64(depth))))
				}
			}
		}
		if i%4 == 0 && len(w) > 5 {
			d := append([]byte(nil), w...)
			k := r.Intn(len(d))
			d[k] ^= byte(1 << r.Intn(8))
			emitStateless("decid %s", hexE(d))
			emitStateless("decidx %s %d", hexE(d[5:]), hx.Pick(r, maxPool(int64(depth))))
		}
	}
	// 4. hostile varints
	overlong := [][]byte{
		{0x80, 0x80, 0x80, 0x80, 0x80, 0x80, 0x80, 0x80, 0x80, 0x01},       // 2^62 in ten bytes
		{0x80, 0x80, 0x80, 0x80, 0x80, 0x80, 0x80, 0x80, 0x80, 0x00},       // zero in ten bytes
		{0x80, 0x80, 0x80, 0x80, 0x80, 0x80, 0x80, 0x80, 0x80, 0x02},       // tenth byte > 1: overflow
		{0xff, 0xff, 0xff, 0xff, 0xff, 0xff, 0xff, 0xff, 0xff, 0x01},       // max uint64 = -2^63
		{0xfe, 0xff, 0xff, 0xff, 0xff, 0xff, 0xff, 0xff, 0xff, 0x01},       // 2^63-1
		{0xff, 0xff, 0xff, 0xff, 0xff, 0xff, 0xff, 0xff, 0xff, 0x7f},       // overflow
		{0x80, 0x80, 0x80, 0x80, 0x80, 0x80, 0x80, 0x80, 0x80, 0x80},       // ten continuation bytes
		{0x80, 0x80, 0x80, 0x80, 0x80, 0x80, 0x80, 0x80, 0x80, 0x80, 0x01}, // eleven
		{0xff, 0xff, 0xff, 0xff, 0xff, 0xff, 0xff, 0xff, 0xff, 0xff, 0xff, 0xff},
		{0x80, 0x00}, {0x81, 0x00}, {0x82, 0x80, 0x00}, {0x80}, {0xff}, {0x80, 0x80},
	}
	allMax := []int64{-9223372036854775808, -1, 0, 1, 2, 7, 100, 1 << 20}
	for _, c := range hostileCounts {
		for _, m := range allMax {
			for _, tailN := range []int{0, 1, 3} {
				b := varint(c)
				for k := 0; k < tailN; k++ {
					b = append(b, varint(genVal(r))...)
				}
				emitStateless("decidx %s %d", hexE(b), m)
			}
		}
	}
	for _, o := range overlong {
		for _, m := range allMax {
			emitStateless("decidx %s %d", hexE(o), m)
			emitStateless("decidx %s %d", hexE(append(append([]byte(nil), o...), 0x02, 0x04)), m)
			emitStateless("decidx %s %d", hexE(append([]byte{0x04}, append(append([]byte(nil), o...), 0x02)...)), m) // count 2, hostile entry
		}
		emitStateless("decid %s", hexE(append([]byte{0, 0, 0, 0, 1}, o...)))
	}
	// caller-supplied bounds beyond anything allocatable (outside the Spec's assumption; executed and reported)
	for _, c := range []int64{1<<45 + 1, 1 << 50} {
		for _, m := range []int64{1 << 50, 9223372036854775807} {
			emitStateless("decidx %s %d", hexE(varint(c)), m)
		}
	}
	for i := 0; i < a.N(300, 20000); i++ { // random hostile counts
		var c int64
		switch r.Intn(4) {
		case 0:
			c = -r.Range(1, 1<<62)
		case 1:
			c = r.Range(1<<45+1, 9223372036854775807)
		case 2:
			c = r.Range(1<<29+1, 1<<45)
		default:
			c = r.Range(1, 1<<16)
		}
		b := varint(c)
		for k := r.Intn(4); k > 0; k-- {
			b = append(b, varint(genVal(r))...)
		}
		m := hx.Pick(r, allMax)
		emitStateless("decidx %s %d", hexE(b), m)
	}
	// 5. random bytes
	for i := 0; i < a.N(2500, 200000); i++ {
		n := r.Intn(14)
		b := r.Bytes(n)
		for k := range b {
			switch r.Intn(6) {
			case 0:
				b[k] = 0
			case 1:
				b[k] &= 0x7f
			case 2:
				b[k] |= 0x80
			case 3:
				b[k] = byte(r.Intn(8))
			}
		}
		if r.Bool() {
			emitStateless("decidx %s %d", hexE(b), hx.Pick(r, allMax))
		} else {
			if r.Chance(80) && len(b) > 0 {
				b[0] = 0
			}
			emitStateless("decid %s", hexE(b))
		}
	}
	// 6. small-scope exhaustive (thorough): every byte string of length ≤ 2, length 3 over an alphabet of edge bytes
	if thorough {
		emitStateless("decidx . 0")
		for x := 0; x < 256; x++ {
			for _, m := range []int64{0, 1} {
				emitStateless("decidx %02x %d", x, m)
			}
			for y := 0; y < 256; y++ {
				emitStateless("decidx %02x%02x %d", x, y, int64(y%3)-1)
			}
		}
		al := []byte{0x00, 0x01, 0x02, 0x03, 0x04, 0x7f, 0x80, 0x81, 0xfe, 0xff}
		for _, x := range al {
			for _, y := range al {
				for _, z := range al {
					for _, w := range al {
						emitStateless("decidx %02x%02x%02x%02x %d", x, y, z, w, int64((int(x)+int(w))%4)-1)
					}
				}
			}
		}
		vs := []int64{0, 1, -1, 63, 64, -65}
		for _, x := range vs {
			emitStateless("hrt 7 %d . 0", x)
			for _, y := range vs {
				emitStateless("hrt 7 %d,%d . 2", x, y)
				for _, z := range vs {
					emitStateless("hrt 7 %d,%d,%d . -1", x, y, z)
				}
			}
		}
	}
	// 7. Serde registries
	for g := 0; g < a.N(260, 12000); g++ {
		genSerde(r, g)
	}
}

type regd struct {
	id       int64
	ty, tag  int
	ix       []int64
	enc, dec int
}

func genSerde(r *hx.Rng, g int) {
	hx.Emit("reset")
	kind := r.Intn(100) // <72 consistent, <87 mixed (an id with and without index), <93 ids outside uint32, else flags off
	ids := []int64{1, 2, 3, 70000, 4294967295, 0}
	if kind >= 87 && kind < 93 {
		ids = []int64{1, 4294967297, -1, 2}
	}
	proto := map[int64]bool{}
	for _, id := range ids {
		proto[id] = r.Chance(65)
	}
	pathPool := [][]int64{{0}, {1}, {0, 0}, {0, 1}, {1, 0}, {1, 2}, {1, 2, 3}, {2}, {-1}, {64}, {0, 0, 0, 0}, {5, 4, 3, 2, 1, 0}, {63, -65}}
	var regs []regd
	nreg := 1 + r.Intn(7)
	for i := 0; i < nreg; i++ {
		id := hx.Pick(r, ids)
		var ix []int64
		withIdx := proto[id]
		if kind >= 72 && kind < 87 && r.Chance(40) {
			withIdx = !withIdx
		}
		if withIdx {
			if r.Chance(80) {
				ix = hx.Pick(r, pathPool)
			} else {
				ix = genPath(r, 1+r.Intn(6))
			}
		}
		enc, dec := 1+r.Intn(2), 1+r.Intn(2)
		if kind >= 93 || r.Chance(6) {
			enc, dec = r.Intn(3), r.Intn(3)
		}
		rg := regd{id, r.Intn(nTypes), g*16 + i, ix, enc, dec}
		if r.Chance(12) && len(regs) > 0 { // re-register an existing place with another (or the same) type
			o := hx.Pick(r, regs)
			rg.id, rg.ix = o.id, o.ix
		}
		regs = append(regs, rg)
		hx.Emit("reg %d %d %d %s %d %d", rg.id, rg.ty, rg.tag, idx64Str(rg.ix), rg.enc, rg.dec)
		nOps++
		if r.Chance(25) { // interleave use and registration
			hx.Emit("srt %d %s", rg.ty, hexE(genPayload(r)))
		}
	}
	for ty := 0; ty < nTypes; ty++ {
		used := false
		for _, rg := range regs {
			used = used || rg.ty == ty
		}
		if used || r.Chance(10) {
			hx.Emit("srt %d %s", ty, hexE(genPayload(r)))
			if r.Chance(30) {
				hx.Emit("senc %d %s %s", ty, hexE(r.Bytes(r.Intn(4))), hexE(genPayload(r)))
			}
		}
	}
	for k := 0; k < 6; k++ {
		rg := hx.Pick(r, regs)
		id, ix := rg.id, rg.ix
		switch r.Intn(8) {
		case 0:
			id = hx.Pick(r, []int64{9, 77, 4294967294}) // unregistered id
		case 1:
			ix = hx.Pick(r, pathPool) // perhaps unregistered path
		case 2:
			if len(ix) > 0 { // prefix / extension of a registered path
				if r.Bool() {
					ix = ix[:len(ix)-1]
				} else {
					ix = append(append([]int64(nil), ix...), genVal(r))
				}
			}
		}
		b := append(wire(uint32(id), ix, !r.Chance(15)), genPayload(r)...)
		switch r.Intn(10) {
		case 0:
			b = b[:r.Intn(len(b)+1)]
		case 1:
			b[r.Intn(len(b))] ^= byte(1 << r.Intn(8))
		case 2:
			b = append(b[:5:5], varint(hx.Pick(r, hostileCounts[:8]))...)
		case 3:
			b = r.Bytes(r.Intn(9))
		}
		hx.Emit("sdec %s", hexE(b))
	}
}

func main() {
	a := hx.Parse()
	switch a.Mode {
	case "gen":
		gen(a)
		hx.Flush()
	case "run":
		supervise()
	case "runchild":
		runChild()
	default:
		os.Exit(2)
	}
}

var _ = sort.Strings
