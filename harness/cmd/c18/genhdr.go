package main

// Header-heavy record sets. A record's headers exist only in the record-batch (v2) encoding: a message (Produce v0-v2)
// drops them, so `messageSet1Length` = key+value+38 ignores them while the v2 record carries every header byte. These
// generators put the header bytes where the size accounting decides: single records and packed batches whose
// record-batch length lands in maxBatchBytes-40 … maxBatchBytes+40 (and beyond, for records that fit only if their
// headers are not counted), buffered with the sink's version unknown (-1), known and equal to the written version, or
// (a small share, outside the model's assumption: the two listed findings) known and different from it, against
// every written version 0-13. The size helpers below only steer the generator; nothing is compared with them.

import (
	"encoding/hex"
	"strings"

	"verifharness/hx"
)

func vlen(i int64) int {
	u := uint64(i<<1) ^ uint64(i>>63)
	n := 1
	for u >= 128 {
		u >>= 7
		n++
	}
	return n
}

// tokLen is the length of a byte-string token (-1: nil).
func tokLen(s string) int {
	switch {
	case s == "-":
		return -1
	case s == ".":
		return 0
	case strings.HasPrefix(s, "~"):
		n := 0
		for _, c := range s[1:] {
			if c < '0' || c > '9' {
				break
			}
			n = n*10 + int(c-'0')
		}
		return n
	}
	return len(s) / 2
}

func nz(n int) int {
	if n < 0 {
		return 0
	}
	return n
}

func hdrBytes(hs [][2]string) int {
	n := 0
	for _, h := range hs {
		k, v := tokLen(h[0]), tokLen(h[1])
		n += vlen(int64(nz(k))) + nz(k) + vlen(int64(nz(v))) + nz(v) // a nil value is written as length -1: one byte, like 0
	}
	return n
}

// v2Len: bytes of the record in a record batch at the given timestamp and offset delta (length varint included).
func v2Len(rc recS, tsd int64, od int) int {
	k, v := tokLen(rc.key), tokLen(rc.val)
	l := 1 + vlen(tsd) + vlen(int64(od)) + vlen(int64(nz(k))) + nz(k) + vlen(int64(nz(v))) + nz(v) + vlen(int64(len(rc.hdrs))) + hdrBytes(rc.hdrs)
	return vlen(int64(l)) + l
}

func ms1Len(rc recS) int { return 38 + nz(tokLen(rc.key)) + nz(tokLen(rc.val)) }

// effMax: recBuf.maxRecordBatchBytes for the op and topic (maxRecordBatchBytesForTopic).
func effMax(o *opS, topicHex string) int {
	tl := len(topicHex) / 2
	if tl < 16 {
		tl = 16
	}
	base := 26 + nz(tokLen(o.cid)) + nz(tokLen(o.txn))
	lim := int(o.limit) - (base + 2 + tl + 4 + 4 + 4)
	if int(o.bmax) < lim {
		return int(o.bmax)
	}
	return lim
}

// headers with about `total` bytes in 1..3 entries (0 entries when total = 0); keys 0..12 bytes, values nil / empty / bytes.
func mkHeaders(r *hx.Rng, total int) [][2]string {
	if total <= 0 {
		return nil
	}
	nh := 1 + r.Intn(3)
	var hs [][2]string
	left := total
	for i := 0; i < nh; i++ {
		share := left
		if i < nh-1 {
			share = r.Intn(left + 1)
		}
		left -= share
		kl := r.Intn(13)
		if kl > share {
			kl = share
		}
		vl := share - kl - 2
		k := rnd(r, kl)
		if kl > 0 && r.Chance(50) {
			k = hex.EncodeToString([]byte("header-key-x"[:kl]))
		}
		v := "-"
		if vl > 0 {
			v = rnd(r, vl)
		} else if r.Chance(50) {
			v = "."
		}
		hs = append(hs, [2]string{k, v})
	}
	return hs
}

// fit grows the record's value (or, when inHeader, its last header's value) so that the record's v2 length is
// exactly `want` bytes (or as close below as the varint steps allow). Returns the length reached.
func fit(rc *recS, tsd int64, od int, want int, inHeader bool, fill byte) int {
	set := func(n int) {
		if inHeader && len(rc.hdrs) > 0 {
			rc.hdrs[len(rc.hdrs)-1][1] = rep(n, fill)
		} else {
			rc.val = rep(n, fill)
		}
	}
	set(0)
	need := want - v2Len(*rc, tsd, od)
	if need <= 0 {
		return v2Len(*rc, tsd, od)
	}
	n := need
	set(n)
	for n > 0 && v2Len(*rc, tsd, od) > want {
		n--
		set(n)
	}
	return v2Len(*rc, tsd, od)
}

var hdrPool = []int{0, 0, 3, 12, 25, 30, 31, 33, 40, 48, 64, 90, 127, 128, 200, 320, 450}
var hdrHeavy = []int{36, 40, 48, 64, 90, 127, 128, 200, 320, 450, 700}

// hdrOp: configuration for the header generators. pvMode: 0 unknown, 1 = written version, 2 a known other version.
func hdrOp(r *hx.Rng, v int, pvMode int) opS {
	o := baseOp(r)
	o.v = v
	switch pvMode {
	case 0:
		o.pv = -1
	case 1:
		o.pv = v
	default:
		if v >= 3 {
			o.pv = r.Intn(3) // buffered as message sets (headers not part of the batch length), written as a record batch
		} else {
			o.pv = 3 + r.Intn(11)
		}
	}
	if nz(tokLen(o.cid)) > 40 {
		o.cid = hex.EncodeToString([]byte("kgo"))
	}
	if o.txn != "-" {
		o.txn = rep(int(r.Range(1, 30)), 'y')
	}
	o.bmax = hx.Pick(r, []int64{512, 512, 513, 600, 777, 1000, 2000, 4100}) // the client refuses a maximum below 512
	o.limit = hx.Pick(r, []int64{1 << 20, 1 << 20, 65536, o.bmax + 400, o.bmax + 150})
	if o.limit < 1024 { // and BrokerMaxWriteBytes below 1024
		o.limit = 1024
	}
	o.comp = "none"
	if r.Chance(12) {
		o.comp = hx.Pick(r, []string{"same", "nil", "cut1", "cut7", "gzip", "snappy", "lz4", "zstd"})
	}
	return o
}

func pickVersions(r *hx.Rng) (v, pvMode int) {
	v = r.Intn(14)
	if r.Chance(60) {
		v = 3 + r.Intn(11)
	}
	switch k := r.Intn(100); {
	case k < 62:
		pvMode = 0
	case k < 96:
		pvMode = 1
	default:
		pvMode = 2
	}
	return
}

// one record with `hb` header bytes whose one-record batch has wireLength maxB+delta, then a small record
func hdrSingle(r *hx.Rng, o *opS, topic string, hb, delta int) []recS {
	maxB := effMax(o, topic)
	rc := recS{ts: tsBase + r.Range(0, 100000), key: nrnd(r, hx.Pick(r, []int{-1, -1, 0, 4, 20})), val: "-"}
	rc.hdrs = mkHeaders(r, hb)
	fit(&rc, 0, 0, maxB+delta-65, len(rc.hdrs) > 0 && r.Chance(35), byte('a'+r.Intn(26)))
	recs := []recS{rc}
	k := r.Intn(3)
	if k == 0 && r.Chance(75) { // mostly something is written even when the large record is failed
		k = 1
	}
	for ; k > 0; k-- {
		s := smallRec(r, rc.ts+int64(k))
		recs = append(recs, s)
	}
	return recs
}

// records with headers packed to the batch limit: filler records, then one record that takes the batch's wireLength
// to maxB+delta (delta in -40..40, mostly with enough header bytes that the headers alone decide), repeated `crossings` times
func hdrPacked(r *hx.Rng, o *opS, topic string, crossings int) []recS {
	maxB := effMax(o, topic)
	var recs []recS
	ts := tsBase + r.Range(0, 100000)
	first, w, n := ts, 65, 0
	style := r.Intn(3) // 0: every record header-heavy, 1: mixed, 2: only the crossing record has headers
	for len(recs) < 70 && crossings > 0 {
		rc := recS{ts: ts, key: nrnd(r, hx.Pick(r, []int{-1, -1, 0, 3, 9})), val: nrnd(r, hx.Pick(r, []int{-1, 0, 1, 7, 20, 45}))}
		switch style {
		case 0:
			rc.hdrs = mkHeaders(r, hx.Pick(r, []int{20, 36, 48, 70, 100}))
		case 1:
			rc.hdrs = mkHeaders(r, hx.Pick(r, hdrPool))
		}
		tsd := int64(0)
		if n > 0 {
			tsd = ts - first
		}
		nw := v2Len(rc, tsd, n)
		if w+nw > maxB-45 || (n > 0 && r.Chance(4)) {
			// the crossing record
			delta := int(r.Range(-40, 40))
			if r.Chance(35) {
				delta = int(r.Range(-3, 9))
			}
			hb := hx.Pick(r, hdrHeavy)
			if r.Chance(20) {
				hb = hx.Pick(r, hdrPool)
			}
			room := maxB + delta - w
			if hb > room-12 {
				hb = room - 12
			}
			rc.val = "-"
			rc.hdrs = mkHeaders(r, hb)
			got := fit(&rc, tsd, n, room, len(rc.hdrs) > 0 && r.Chance(50), byte('A'+r.Intn(26)))
			recs = append(recs, rc)
			crossings--
			if w+got <= maxB {
				w += got
				n++
			} else {
				first, w, n = ts, 65+v2Len(rc, 0, 0), 1
			}
			ts = nextTs(r, ts)
			continue
		}
		recs = append(recs, rc)
		w += nw
		n++
		ts = nextTs(r, ts)
	}
	for k := r.Intn(3); k > 0; k-- {
		recs = append(recs, smallRec(r, ts))
	}
	return recs
}

func genHdr(r *hx.Rng) {
	v, pvMode := pickVersions(r)
	o := hdrOp(r, v, pvMode)
	np := 1
	if r.Chance(35) {
		np = 2 + r.Intn(2)
	}
	tn := name(r, int(hx.Pick(r, []int64{1, 5, 16, 17, 40})), 1)
	if effMax(&o, tn) < 200 {
		o.limit = 1 << 20
	}
	id := topicID(r, 1)
	for p := 0; p < np; p++ {
		ps := partS{topic: tn, id: id, part: int64(p), seq: seqOf(r)}
		if r.Chance(40) {
			hb := hx.Pick(r, hdrPool)
			delta := int(r.Range(-40, 40))
			if hb > 75 && r.Chance(40) { // fits only if the headers are not counted
				delta = int(r.Range(41, int64(hb-31)))
			}
			ps.recs = hdrSingle(r, &o, tn, hb, delta)
		} else {
			ps.recs = hdrPacked(r, &o, tn, 1+r.Intn(2))
		}
		o.parts = append(o.parts, ps)
	}
	o.emit()
}

// genHdrGrid: small-scope enumeration of single records around the limit: written version x version knowledge x
// header bytes x distance of the one-record batch from the limit.
func genHdrGrid(r *hx.Rng, thorough bool) {
	versions := []int{2, 3, 8, 9, 13}
	deltas := []int{-4, -3, -2, -1, 0, 1, 2, 3, 4, 5, 6, 20, 40}
	hbs := []int{0, 60, 200}
	if thorough {
		versions = []int{0, 1, 2, 3, 4, 5, 6, 7, 8, 9, 10, 11, 12, 13}
		deltas = nil
		for d := -8; d <= 12; d++ {
			deltas = append(deltas, d)
		}
		deltas = append(deltas, -40, -20, 20, 30, 40, 100)
		hbs = []int{0, 20, 33, 40, 60, 130, 200}
	}
	for _, v := range versions {
		for pvMode := 0; pvMode < 2; pvMode++ {
			for _, hb := range hbs {
				for _, d := range deltas {
					o := opS{v: v, pv: v, acks: -1, timeout: 10000, limit: 1 << 20, bmax: 512, pid: 5, epoch: 1, txn: "-",
						cid: hex.EncodeToString([]byte("kgo")), comp: "none", corr: 7}
					if pvMode == 0 {
						o.pv = -1
					}
					if d >= 100 && hb < 140 {
						continue
					}
					tn := name(r, 3, 1)
					ps := partS{topic: tn, id: topicID(r, 1), part: 0, seq: 0}
					ps.recs = hdrSingle(r, &o, tn, hb, d)
					o.parts = append(o.parts, ps)
					o.emit()
				}
			}
		}
	}
}
