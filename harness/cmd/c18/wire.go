package main

import (
	"context"
	"encoding/binary"
	"fmt"
	"net"
	"strings"
	"sync"
	"time"

	"github.com/twmb/franz-go/pkg/kfake"
	"github.com/twmb/franz-go/pkg/kgo"
	"github.com/twmb/franz-go/pkg/kversion"
	"verifharness/hx"
)

// capConn records everything the client writes; frames are cut out afterwards.
type capConn struct {
	net.Conn
	mu  *sync.Mutex
	buf *[]byte
}

func (c capConn) Write(p []byte) (int, error) {
	c.mu.Lock()
	*c.buf = append(*c.buf, p...)
	c.mu.Unlock()
	return c.Conn.Write(p)
}

// runWire: the end-to-end path through the public API only. A real client (produce version pinned with
// MaxVersions, manual flushing, one record per partition) against the real kfake; every byte the client
// writes is captured at the dialer. After a warm-up flush (so that the sink knows the produce version) the
// records of the case are produced and flushed. Output: the produce request frames written after the warm-up.
func runWire(t []string) string {
	v := int16(hx.Atoi(t[1]))
	limit := int32(hx.Atoi(t[2]))
	nparts := int(hx.Atoi(t[3]))
	valsize := int(hx.Atoi(t[4]))
	topiclen := int(hx.Atoi(t[5]))
	topic := "w" + strings.Repeat("x", topiclen-1)

	c, err := kfake.NewCluster(kfake.NumBrokers(1), kfake.SeedTopics(int32(nparts), topic))
	if err != nil {
		return "cluster-error"
	}
	defer c.Close()

	var mu sync.Mutex
	var conns []*[]byte
	dial := func(ctx context.Context, network, addr string) (net.Conn, error) {
		var d net.Dialer
		cn, err := d.DialContext(ctx, network, addr)
		if err != nil {
			return nil, err
		}
		b := new([]byte)
		mu.Lock()
		conns = append(conns, b)
		mu.Unlock()
		return capConn{cn, &mu, b}, nil
	}
	vers := kversion.Stable()
	vers.SetMaxKeyVersion(0, v)
	cl, err := kgo.NewClient(
		kgo.SeedBrokers(c.ListenAddrs()...),
		kgo.Dialer(dial),
		kgo.MaxVersions(vers),
		kgo.ManualFlushing(),
		kgo.RecordPartitioner(kgo.ManualPartitioner()),
		kgo.BrokerMaxWriteBytes(limit),
		kgo.ProducerBatchMaxBytes(512),
		kgo.ProducerBatchCompression(kgo.NoCompression()),
		kgo.MaxBufferedRecords(1<<20),
	)
	if err != nil {
		return "cfg-error"
	}
	defer cl.Close()
	ctx, cancel := context.WithTimeout(context.Background(), 30*time.Second)
	defer cancel()

	var perr error
	var pmu sync.Mutex
	promise := func(_ *kgo.Record, err error) {
		if err != nil {
			pmu.Lock()
			perr = err
			pmu.Unlock()
		}
	}
	cl.Produce(ctx, &kgo.Record{Topic: topic, Partition: 0, Value: []byte("warm"), Timestamp: time.UnixMilli(tsBase)}, promise)
	if err := cl.Flush(ctx); err != nil {
		return "flush-error"
	}
	mu.Lock()
	skip := make(map[*[]byte]int)
	for _, b := range conns {
		skip[b] = len(*b)
	}
	mu.Unlock()
	val := make([]byte, valsize)
	for i := range val {
		val[i] = 'v'
	}
	for p := 0; p < nparts; p++ {
		cl.Produce(ctx, &kgo.Record{Topic: topic, Partition: int32(p), Value: val, Timestamp: time.UnixMilli(tsBase + int64(p))}, promise)
	}
	if err := cl.Flush(ctx); err != nil {
		return "flush-error"
	}
	pmu.Lock()
	pe := perr
	pmu.Unlock()
	if pe != nil {
		return "produce-error:" + strings.ReplaceAll(pe.Error(), " ", "_")
	}

	var lens []int
	var frames []string
	mu.Lock()
	for _, b := range conns {
		s := (*b)[skip[b]:]
		for len(s) >= 4 {
			n := int(binary.BigEndian.Uint32(s))
			if len(s) < 4+n || n < 4 {
				break
			}
			f := s[:4+n]
			s = s[4+n:]
			if binary.BigEndian.Uint16(f[4:6]) == 0 { // Produce
				lens = append(lens, len(f))
				frames = append(frames, hx.Hex(f))
			}
		}
	}
	mu.Unlock()
	var sb strings.Builder
	fmt.Fprintf(&sb, "frames=%d", len(lens))
	over := false
	for i, l := range lens {
		fmt.Fprintf(&sb, " %d %s", l, frames[i])
		if l > int(limit) {
			over = true
		}
	}
	hx.St.Inc("op.wire")
	if over {
		hx.St.Inc("op.wire.over-limit")
	}
	return sb.String()
}
