// C18 harness: produce request encoding and size accounting.
//
// Every op runs the real client code of this tree: records are buffered through
// recBuf.bufferRecord, requests are built by sink.createReq / produceRequest.tryAddBatch and
// serialized by kmsg.RequestFormatter.AppendRequest -> produceRequest.AppendTo (hook
// kgo.VerifC18Run, build tag verif), for a chosen produce version, without a broker.
//
//	op:   req <v> <pv> <tx890p2> <acks> <timeoutMs> <limit> <batchMax> <pid> <epoch> <txn|-> <clientid> <comp> <corr> <nparts> part*
//	      part := <topic> <topicID> <partition> <seq> <nrecs> rec*
//	      rec  := <tsMillis> <key> <value> <nheaders> (<hkey> <hvalue>)*
//	      byte strings: - nil, . empty, hex, or ~<n>x<hh> (n copies of byte hh)
//	      comp: none | gzip | snappy | lz4 | zstd | a+b (preference) | cut<k> | tiny | same | nil (toy compressors)
//	impl: base=<n> bmax=<..> rb=<..> e=<n> bat=<..> nreq=<k> (R <ver> <accounted> <hex>)* clog=<k> (<src> <out> <codec> <rt>)*
//	      wire <v> <limit> <nparts> <valsize> <topiclen>   (real client, public API, real kfake; frames captured at the dialer)
//	impl: frames=<k> (<len>)*
package main

import (
	"bytes"
	"context"
	"errors"
	"fmt"
	"net"
	"os"
	"strings"
	"sync"
	"time"

	"github.com/twmb/franz-go/pkg/kgo"
	"verifharness/hx"
)

// ---------------------------------------------------------------- byte tokens

func unTok(s string) []byte {
	if strings.HasPrefix(s, "~") {
		var n int
		var b int
		if _, err := fmt.Sscanf(s, "~%dx%02x", &n, &b); err != nil {
			panic("bad byte token " + s)
		}
		return bytes.Repeat([]byte{byte(b)}, n)
	}
	return hx.UnHex(s)
}

// ---------------------------------------------------------------- compressors

// logComp wraps a compressor and records every call.
type logComp struct {
	inner kgo.Compressor
	mu    sync.Mutex
	calls []compCall
}
type compCall struct {
	src, out []byte
	codec    int8
}

func (l *logComp) Compress(dst *bytes.Buffer, src []byte, flags ...kgo.CompressFlag) ([]byte, kgo.CompressionCodecType) {
	out, codec := l.inner.Compress(dst, src, flags...)
	c := compCall{src: append([]byte{}, src...), codec: int8(codec)}
	if out != nil {
		c.out = append([]byte{}, out...)
	}
	l.mu.Lock()
	l.calls = append(l.calls, c)
	l.mu.Unlock()
	return out, codec
}

// toy compressors: arbitrary outputs of controlled size (the client must cope with any compressor)
type toyComp struct {
	kind string
	k    int
}

func (t toyComp) Compress(dst *bytes.Buffer, src []byte, flags ...kgo.CompressFlag) ([]byte, kgo.CompressionCodecType) {
	switch t.kind {
	case "cut":
		n := len(src) - t.k
		if n < 0 {
			n = 0
		}
		return append([]byte{}, src[:n]...), kgo.CodecGzip
	case "tiny":
		return []byte{0x2a}, kgo.CodecLz4
	case "same":
		return append([]byte{}, src...), kgo.CodecSnappy
	default: // nil: a compressor error
		return nil, kgo.CodecError
	}
}

func mkCompressor(s string) (kgo.Compressor, bool) {
	if s == "none" {
		return nil, false
	}
	var k int
	if _, err := fmt.Sscanf(s, "cut%d", &k); err == nil {
		return toyComp{"cut", k}, true
	}
	switch s {
	case "tiny", "same", "nil":
		return toyComp{s, 0}, true
	}
	var codecs []kgo.CompressionCodec
	for _, c := range strings.Split(s, "+") {
		switch c {
		case "gzip":
			codecs = append(codecs, kgo.GzipCompression())
		case "snappy":
			codecs = append(codecs, kgo.SnappyCompression())
		case "lz4":
			codecs = append(codecs, kgo.Lz4Compression())
		case "zstd":
			codecs = append(codecs, kgo.ZstdCompression())
		case "no":
			codecs = append(codecs, kgo.NoCompression())
		default:
			panic("bad compressor " + s)
		}
	}
	c, err := kgo.DefaultCompressor(codecs...)
	if err != nil {
		panic(err)
	}
	return c, false
}

// ---------------------------------------------------------------- op `req`

type cursor struct {
	t []string
	i int
}

func (c *cursor) next() string { s := c.t[c.i]; c.i++; return s }
func (c *cursor) int() int64   { return hx.Atoi(c.next()) }

var decomp = kgo.DefaultDecompressor()

func runReq(t []string) string { return runReqMode(t, false) }

// runReqMode: lenOnly prints the length of every written request instead of its bytes (op `reqlen`, for
// requests too large to hex-encode; not generated, used for manual probes).
func runReqMode(t []string, lenOnly bool) string {
	c := &cursor{t: t, i: 1}
	v := int16(c.int())
	pv := int32(c.int())
	tx890 := c.int() != 0
	acks := c.int()
	timeout := c.int()
	limit := int32(c.int())
	batchMax := int32(c.int())
	pid := c.int()
	epoch := int16(c.int())
	txn := c.next()
	cid := string(unTok(c.next()))
	compS := c.next()
	corr := int32(c.int())
	nparts := int(c.int())
	var parts []kgo.VerifC18Part
	nrec, hdrHeavy := 0, 0
	for i := 0; i < nparts; i++ {
		var p kgo.VerifC18Part
		p.Topic = string(unTok(c.next()))
		copy(p.TopicID[:], unTok(c.next()))
		p.Partition = int32(c.int())
		p.Seq = int32(c.int())
		n := int(c.int())
		for j := 0; j < n; j++ {
			r := &kgo.Record{}
			r.Timestamp = time.UnixMilli(c.int())
			r.Key = unTok(c.next())
			r.Value = unTok(c.next())
			nh := int(c.int())
			for k := 0; k < nh; k++ {
				hk := string(unTok(c.next()))
				hv := unTok(c.next())
				r.Headers = append(r.Headers, kgo.RecordHeader{Key: hk, Value: hv})
			}
			p.Records = append(p.Records, r)
			nrec++
			hb := 0
			for _, h := range r.Headers {
				hb += len(h.Key) + len(h.Value)
			}
			hx.St.Inc("rec.headers." + bucket(nh))
			hx.St.Inc("rec.header-bytes." + bucketBytes(hb))
			if hb > 31 {
				hdrHeavy++
			}
		}
		parts = append(parts, p)
	}
	if c.i != len(t) {
		return "bad-op"
	}
	opts := []kgo.Opt{
		kgo.SeedBrokers("127.0.0.1:1"),
		kgo.Dialer(func(context.Context, string, string) (net.Conn, error) {
			return nil, errors.New("no network in this harness")
		}),
		kgo.ClientID(cid),
		kgo.ManualFlushing(),
		kgo.ProducerLinger(0),
		kgo.BrokerMaxWriteBytes(limit),
		kgo.ProducerBatchMaxBytes(batchMax),
		kgo.ProduceRequestTimeout(time.Duration(timeout) * time.Millisecond),
		kgo.MaxBufferedRecords(1 << 30),
	}
	switch acks {
	case 0:
		opts = append(opts, kgo.RequiredAcks(kgo.NoAck()), kgo.DisableIdempotentWrite())
	case 1:
		opts = append(opts, kgo.RequiredAcks(kgo.LeaderAck()), kgo.DisableIdempotentWrite())
	default:
		if pid < 0 {
			opts = append(opts, kgo.DisableIdempotentWrite())
		}
	}
	if txn != "-" {
		opts = append(opts, kgo.TransactionalID(string(unTok(txn))))
	}
	comp, toy := mkCompressor(compS)
	var lc *logComp
	if comp != nil {
		lc = &logComp{inner: comp}
		opts = append(opts, kgo.WithCompressor(lc))
	} else {
		opts = append(opts, kgo.ProducerBatchCompression(kgo.NoCompression()))
	}
	cl, err := kgo.NewClient(opts...)
	if err != nil {
		return "cfg-error:" + strings.ReplaceAll(err.Error(), " ", "_")
	}
	defer cl.Close()
	out := kgo.VerifC18Run(cl, pv, v, tx890, pid, epoch, corr, parts)

	var sb strings.Builder
	fmt.Fprintf(&sb, "base=%d bmax=", out.BaseLength)
	for i, m := range out.MaxBatchBytes {
		if i > 0 {
			sb.WriteByte(',')
		}
		fmt.Fprintf(&sb, "%d", m)
	}
	if len(out.MaxBatchBytes) == 0 {
		sb.WriteByte('_')
	}
	sb.WriteString(" rb=")
	nfail, nfailOK := 0, 0
	for i, rb := range out.RecBatch {
		if i > 0 {
			sb.WriteByte(';')
		}
		if len(rb) == 0 {
			sb.WriteByte('_')
		}
		for j, b := range rb {
			if j > 0 {
				sb.WriteByte(',')
			}
			fmt.Fprintf(&sb, "%d", b)
			if b < 0 {
				nfail++
				if strings.Contains(out.RecErr[i][j], "MESSAGE_TOO_LARGE") {
					nfailOK++
				}
			}
		}
	}
	if len(out.RecBatch) == 0 {
		sb.WriteByte('_')
	}
	fmt.Fprintf(&sb, " e=%d bat=", nfailOK)
	for i, bs := range out.Batches {
		if i > 0 {
			sb.WriteByte(';')
		}
		if len(bs) == 0 {
			sb.WriteByte('_')
		}
		for j, b := range bs {
			if j > 0 {
				sb.WriteByte('/')
			}
			fmt.Fprintf(&sb, "%d:%d:%d:%d:%d", b.NumRecords, b.WireLength, b.V1WireLength, b.FirstTimestamp, b.MaxTimestampDelta)
		}
	}
	if len(out.Batches) == 0 {
		sb.WriteByte('_')
	}
	// how close the record batches come to the configured maximum (the batch proper is wireLength-4 bytes)
	for _, bs := range out.Batches {
		for _, b := range bs {
			switch {
			case v >= 3:
				hx.St.Inc("record-batch.fill-of-batch-max." + fillNear(int(b.WireLength)-4, int(batchMax)))
			case v == 2:
				hx.St.Inc("message-set.fill-of-batch-max." + fillNear(int(b.V1WireLength), int(batchMax)))
			default:
				hx.St.Inc("message-set.fill-of-batch-max." + fillNear(int(b.V1WireLength)-8*b.NumRecords, int(batchMax)))
			}
		}
	}
	pvClass := "known=written"
	switch {
	case pv < 0 && v < 3:
		pvClass = "unknown,written-v0-2"
	case pv < 0:
		pvClass = "unknown,written-v3+"
	case int16(pv) != v:
		pvClass = "known-other-than-written"
	}
	hx.St.Inc("op.req.sink-version." + pvClass)
	if hdrHeavy > 0 {
		hx.St.Inc("op.req.with-header-heavy-record.sink-version." + pvClass)
	}
	fmt.Fprintf(&sb, " nreq=%d", len(out.Reqs))
	maxOver := 0
	for _, r := range out.Reqs {
		if lenOnly {
			fmt.Fprintf(&sb, " R %d %d len=%d", r.Version, r.Accounted, len(r.Bytes))
		} else {
			fmt.Fprintf(&sb, " R %d %d %s", r.Version, r.Accounted, hx.Hex(r.Bytes))
		}
		if d := len(r.Bytes) - int(limit); d > maxOver {
			maxOver = d
		}
		hx.St.Inc(fmt.Sprintf("req.version.%02d", r.Version))
		hx.St.Inc("req.fill." + fill(len(r.Bytes), int(limit)))
	}
	ncalls := 0
	if lc != nil {
		ncalls = len(lc.calls)
	}
	fmt.Fprintf(&sb, " clog=%d", ncalls)
	if lc != nil {
		for _, cc := range lc.calls {
			rt := "-"
			if !toy && cc.out != nil && cc.codec > 0 {
				rt = "0"
				if back, err := decomp.Decompress(cc.out, kgo.CompressionCodecType(cc.codec)); err == nil && bytes.Equal(back, cc.src) {
					rt = "1"
				}
			}
			fmt.Fprintf(&sb, " %s %s %d %s", hx.Hex(cc.src), hx.Hex(cc.out), cc.codec, rt)
			if cc.out != nil && len(cc.out) < len(cc.src) {
				hx.St.Inc("compress.used")
			} else {
				hx.St.Inc("compress.not-shorter")
			}
		}
	}
	hx.St.Inc("op.req")
	hx.St.Inc("op.req.pv." + map[bool]string{true: "unknown", false: "known"}[pv < 0])
	hx.St.Inc("op.req.comp." + compClass(compS))
	hx.St.Inc("op.req.parts." + bucket(nparts))
	hx.St.Inc("op.req.records." + bucket(nrec))
	hx.St.Inc("op.req.nreq." + bucket(len(out.Reqs)))
	if nfail > 0 {
		hx.St.Inc("op.req.with-rejected-record")
	}
	if maxOver > 0 {
		hx.St.Inc("op.req.over-limit")
	}
	return sb.String()
}

func compClass(s string) string {
	switch {
	case s == "none":
		return "none"
	case strings.Contains(s, "+"):
		return "preference"
	case s == "gzip" || s == "snappy" || s == "lz4" || s == "zstd":
		return s
	default:
		return "toy"
	}
}

func bucket(n int) string {
	switch {
	case n == 0:
		return "0"
	case n == 1:
		return "1"
	case n <= 4:
		return "2-4"
	case n <= 16:
		return "5-16"
	case n <= 64:
		return "17-64"
	default:
		return "65+"
	}
}

func bucketBytes(n int) string {
	switch {
	case n == 0:
		return "0"
	case n <= 31:
		return "1-31"
	case n <= 100:
		return "32-100"
	case n <= 300:
		return "101-300"
	default:
		return "301+"
	}
}

func fillNear(n, limit int) string {
	switch {
	case n > limit:
		return "over"
	case n == limit:
		return "exact"
	case n+8 >= limit:
		return "within8"
	case n+40 >= limit:
		return "within40"
	case 2*n >= limit:
		return "half+"
	default:
		return "low"
	}
}

func fill(n, limit int) string {
	switch {
	case n > limit:
		return "over"
	case n == limit:
		return "exact"
	case n+64 >= limit:
		return "within64"
	case 2*n >= limit:
		return "half+"
	default:
		return "low"
	}
}

func run() {
	hx.RunLines(600*time.Second, func(t []string) string {
		switch t[0] {
		case "req":
			return runReq(t)
		case "reqlen":
			return runReqMode(t, true)
		case "wire":
			return runWire(t)
		}
		return "bad-op"
	})
}

func main() {
	a := hx.Parse()
	switch a.Mode {
	case "gen":
		gen(a)
		hx.Flush()
	case "run":
		run()
	default:
		os.Exit(2)
	}
}
