package main

import (
	"encoding/hex"
	"fmt"
	"strings"

	"verifharness/hx"
)

type recS struct {
	ts       int64
	key, val string
	hdrs     [][2]string
}
type partS struct {
	topic, id string
	part      int64
	seq       int64
	recs      []recS
}
type opS struct {
	v, pv    int
	tx890    int
	acks     int
	timeout  int64
	limit    int64
	bmax     int64
	pid      int64
	epoch    int
	txn, cid string
	comp     string
	corr     int64
	parts    []partS
}

// normalize keeps the op inside the model's assumption that the sink's known produce version is the version
// requests are written at: a transactional producer without KIP-890 part 2 never writes (hence never learns) a
// version above 11, and a cluster whose metadata carries no topic IDs (all zero) never gets a version above 12.
func (o *opS) normalize() {
	vcap := 13
	anyZero := false
	for _, p := range o.parts {
		if p.id == zeroID {
			anyZero = true
		}
	}
	if anyZero {
		for i := range o.parts {
			o.parts[i].id = zeroID
		}
		vcap = 12
	}
	if o.txn != "-" && o.tx890 == 0 {
		vcap = 11
	}
	if o.v > vcap {
		o.v = vcap
	}
	if o.pv > vcap {
		o.pv = vcap
	}
}

func (o opS) emit() {
	o.normalize()
	var sb strings.Builder
	fmt.Fprintf(&sb, "req %d %d %d %d %d %d %d %d %d %s %s %s %d %d", o.v, o.pv, o.tx890, o.acks, o.timeout, o.limit, o.bmax, o.pid, o.epoch, o.txn, o.cid, o.comp, o.corr, len(o.parts))
	for _, p := range o.parts {
		fmt.Fprintf(&sb, " %s %s %d %d %d", p.topic, p.id, p.part, p.seq, len(p.recs))
		for _, r := range p.recs {
			fmt.Fprintf(&sb, " %d %s %s %d", r.ts, r.key, r.val, len(r.hdrs))
			for _, h := range r.hdrs {
				fmt.Fprintf(&sb, " %s %s", h[0], h[1])
			}
		}
	}
	hx.Emit("%s", sb.String())
}

// rep is n copies of byte b as a token.
func rep(n int, b byte) string {
	if n == 0 {
		return "."
	}
	if n <= 4 {
		return hex.EncodeToString(bytesOf(n, b))
	}
	return fmt.Sprintf("~%dx%02x", n, b)
}
func bytesOf(n int, b byte) []byte {
	x := make([]byte, n)
	for i := range x {
		x[i] = b
	}
	return x
}

// rnd is a byte string token of length n: random bytes when short, a run otherwise.
func rnd(r *hx.Rng, n int) string {
	if n == 0 {
		return "."
	}
	if n <= 24 && r.Chance(70) {
		return hex.EncodeToString(r.Bytes(n))
	}
	return rep(n, byte(r.Intn(256)))
}

// nullable byte string token
func nrnd(r *hx.Rng, n int) string {
	if n < 0 {
		return "-"
	}
	return rnd(r, n)
}

func name(r *hx.Rng, n int, salt int) string {
	// topic names: ascii, unique through the salt, padded to n bytes when n is longer than the salt prefix
	s := fmt.Sprintf("t%d", salt)
	for len(s) < n {
		s += string(rune('a' + r.Intn(26)))
	}
	return hex.EncodeToString([]byte(s))
}

func topicID(r *hx.Rng, salt int) string {
	b := r.Bytes(16)
	b[0] = byte(salt)
	b[1] = byte(salt >> 8)
	b[15] |= 1 // never the zero id
	return hex.EncodeToString(b)
}

const zeroID = "00000000000000000000000000000000"

var comps = []string{"gzip", "snappy", "lz4", "zstd", "zstd+gzip", "no+gzip", "cut1", "cut2", "cut7", "cut40", "tiny", "same", "nil"}

const tsBase = int64(1700000000000)

func baseOp(r *hx.Rng) opS {
	o := opS{v: r.Intn(14), acks: -1, timeout: hx.Pick(r, []int64{100, 10000, 30000, 2147483647}), limit: 1 << 20, bmax: 1000012 / 2,
		pid: -1, epoch: -1, txn: "-", cid: hex.EncodeToString([]byte("kgo")), comp: "none", corr: r.Range(0, 2147483647)}
	o.pv = o.v
	if r.Chance(25) {
		o.pv = -1
	}
	if r.Chance(65) {
		o.pid = hx.Pick(r, []int64{0, 1, 7, 1 << 40, 9223372036854775807})
		o.epoch = int(hx.Pick(r, []int64{0, 1, 300, 32767}))
		if r.Chance(35) {
			n := int(hx.Pick(r, []int64{1, 2, 10, 40, 126, 127, 128, 129, 300}))
			if r.Chance(3) {
				n = int(hx.Pick(r, []int64{16381, 16382}))
			}
			o.txn = rep(n, byte('a'+r.Intn(26)))
			o.tx890 = r.Intn(2)
		}
	} else {
		o.acks = int(hx.Pick(r, []int64{0, 1, -1}))
	}
	if r.Chance(40) {
		n := int(hx.Pick(r, []int64{0, 1, 2, 17, 100, 255, 256}))
		o.cid = rep(n, byte('A'+r.Intn(26)))
	}
	return o
}

func smallRec(r *hx.Rng, ts int64) recS {
	rc := recS{ts: ts}
	ks := []int{-1, -1, 0, 1, 3, 8, 20}
	vs := []int{-1, 0, 1, 5, 12, 30, 63, 64, 100}
	rc.key = nrnd(r, hx.Pick(r, ks))
	rc.val = nrnd(r, hx.Pick(r, vs))
	if r.Chance(30) {
		for h := r.Intn(3) + 1; h > 0; h-- {
			rc.hdrs = append(rc.hdrs, [2]string{rnd(r, r.Intn(6)), nrnd(r, r.Intn(8)-1)})
		}
	}
	return rc
}

func nextTs(r *hx.Rng, ts int64) int64 {
	switch r.Intn(10) {
	case 0:
		return ts - r.Range(1, 5000) // out of order timestamps: negative deltas
	case 1:
		return ts + hx.Pick(r, []int64{63, 64, 8191, 8192, 1048575, 1048576, 1 << 40})
	case 2:
		return ts
	default:
		return ts + r.Range(0, 300)
	}
}

func seqOf(r *hx.Rng) int64 {
	switch r.Intn(4) {
	case 0:
		return 0
	case 1:
		return 2147483647 - r.Range(0, 6)
	default:
		return r.Range(0, 2147483647)
	}
}

func genSmall(r *hx.Rng, withComp bool) {
	o := baseOp(r)
	o.limit = hx.Pick(r, []int64{1024, 2048, 4096, 65536, 1 << 20, 100 << 20, 1 << 30})
	o.bmax = hx.Pick(r, []int64{512, 600, 1000, 5000, 1000012})
	if o.bmax > o.limit {
		o.bmax = o.limit
	}
	if withComp {
		o.comp = hx.Pick(r, comps)
	}
	nt := r.Intn(3) + 1
	salt := 0
	for t := 0; t < nt; t++ {
		salt++
		tn := name(r, int(hx.Pick(r, []int64{1, 2, 5, 15, 16, 17, 40, 249})), salt)
		id := topicID(r, salt)
		if r.Chance(4) {
			id = zeroID
		}
		np := r.Intn(4) + 1
		used := map[int64]bool{}
		for p := 0; p < np; p++ {
			pn := int64(r.Intn(8))
			if r.Chance(10) {
				pn = hx.Pick(r, []int64{127, 128, 65535, 2147483647})
			}
			if used[pn] {
				continue
			}
			used[pn] = true
			ps := partS{topic: tn, id: id, part: pn, seq: seqOf(r)}
			ts := tsBase + r.Range(-1000000, 1000000)
			if r.Chance(3) {
				ts = hx.Pick(r, []int64{0, 1, -5, 1 << 41})
			}
			nr := r.Intn(7)
			if withComp {
				nr += 2
			}
			for i := 0; i < nr; i++ {
				rc := smallRec(r, ts)
				if withComp && r.Chance(60) {
					rc.val = rep(int(r.Range(20, 400)), byte(r.Intn(4)))
				}
				ps.recs = append(ps.recs, rc)
				ts = nextTs(r, ts)
			}
			o.parts = append(o.parts, ps)
		}
	}
	o.emit()
}

// genBoundary: one partition, sizes on varint / uvarint-prefix boundaries.
func genBoundary(r *hx.Rng, big bool) {
	o := baseOp(r)
	o.limit = 1 << 26
	o.bmax = 1 << 25
	ps := partS{topic: name(r, 3, 1), id: topicID(r, 1), part: 0, seq: seqOf(r)}
	ts := tsBase
	switch r.Intn(5) {
	case 0: // value length on a varint boundary
		n := int(hx.Pick(r, []int64{62, 63, 64, 65, 8190, 8191, 8192, 8193}))
		if big {
			n = int(hx.Pick(r, []int64{1048575, 1048576, 1048577}))
		}
		ps.recs = append(ps.recs, recS{ts: ts, key: nrnd(r, r.Intn(3)-1), val: rep(n, 0x61)})
	case 1: // record count across the offset-delta boundary (64 -> two bytes)
		n := int(r.Range(60, 70))
		for i := 0; i < n; i++ {
			ps.recs = append(ps.recs, recS{ts: ts, key: "-", val: rnd(r, r.Intn(3))})
		}
	case 2: // batch length across the one/two byte compact prefix (batchLength+1 = 128)
		n := int(r.Range(50, 80))
		ps.recs = append(ps.recs, recS{ts: ts, key: "-", val: rep(n, 0x62)})
	case 3: // batch length across the two/three byte compact prefix (16384)
		n := int(r.Range(16300, 16330))
		if big {
			n = int(r.Range(2097060, 2097100)) // three/four bytes
		}
		ps.recs = append(ps.recs, recS{ts: ts, key: "-", val: rep(n, 0x63)})
	default: // header sizes and key sizes on boundaries
		rc := recS{ts: ts, key: rep(int(hx.Pick(r, []int64{63, 64, 8191, 8192})), 0x6b), val: "-"}
		rc.hdrs = append(rc.hdrs, [2]string{rep(int(hx.Pick(r, []int64{0, 63, 64})), 0x68), rep(int(hx.Pick(r, []int64{63, 64, 8192})), 0x76)})
		ps.recs = append(ps.recs, rc)
		ps.recs = append(ps.recs, recS{ts: ts + hx.Pick(r, []int64{-65, -64, 63, 64, 8191, 8192}), key: "-", val: "."})
	}
	if r.Chance(30) {
		o.comp = hx.Pick(r, []string{"gzip", "cut1", "cut3", "lz4", "tiny"})
	}
	o.parts = append(o.parts, ps)
	o.emit()
}

// genPack: many small partitions/topics, more than one request holds: requests are packed to the limit.
func genPack(r *hx.Rng, flexOnly bool) {
	o := baseOp(r)
	o.limit = hx.Pick(r, []int64{1024, 1100, 1500, 2048, 2048, 4096, 8192})
	o.bmax = hx.Pick(r, []int64{512, 600, 1000})
	if r.Chance(75) || flexOnly {
		o.v = 9 + r.Intn(5)
		o.pv = o.v
		if r.Chance(15) {
			o.pv = -1
		}
	}
	if r.Chance(15) {
		o.comp = hx.Pick(r, comps)
	}
	if o.txn != "-" && len(o.txn) > 6 { // keep the ids short enough for the smallest limits
		o.txn = rep(int(r.Range(1, 200)), 'x')
	}
	nt := int(hx.Pick(r, []int64{1, 1, 2, 3, 5, 12, 30}))
	total := int(o.limit/70) + r.Intn(int(o.limit/30))
	if total > 260 {
		total = 260
	}
	tl := int(hx.Pick(r, []int64{1, 2, 3, 8, 20}))
	type tt struct{ n, id string }
	var topics []tt
	for t := 0; t < nt; t++ {
		topics = append(topics, tt{name(r, tl, t+1), topicID(r, t+1)})
	}
	cnt := make([]int64, nt)
	maxVal := int(hx.Pick(r, []int64{0, 3, 10, 40}))
	for i := 0; i < total; i++ {
		t := r.Intn(nt)
		ps := partS{topic: topics[t].n, id: topics[t].id, part: cnt[t], seq: r.Range(0, 1000)}
		cnt[t]++
		nr := 1
		if r.Chance(15) {
			nr = 1 + r.Intn(3)
		}
		for k := 0; k < nr; k++ {
			ps.recs = append(ps.recs, recS{ts: tsBase + int64(i), key: nrnd(r, r.Intn(2)-1), val: nrnd(r, r.Intn(maxVal+2)-1)})
		}
		o.parts = append(o.parts, ps)
	}
	o.emit()
}

// genBatchMax: one partition filled to the configured batch maximum, and single records around it.
func genBatchMax(r *hx.Rng, sweep int) {
	o := baseOp(r)
	o.bmax = hx.Pick(r, []int64{512, 513, 777, 1000})
	o.limit = hx.Pick(r, []int64{1024, 2048, 1 << 20})
	if o.bmax > o.limit {
		o.bmax = o.limit
	}
	if len(o.cid) > 40 {
		o.cid = hex.EncodeToString([]byte("kgo"))
	}
	if o.txn != "-" {
		o.txn = rep(int(r.Range(1, 30)), 'y')
	}
	ps := partS{topic: name(r, int(hx.Pick(r, []int64{2, 16, 30})), 1), id: topicID(r, 1), part: 0, seq: seqOf(r)}
	ts := tsBase
	if sweep >= 0 { // a single record around the limit: accepted just below, rejected above
		n := int(o.bmax) - 100 + sweep
		rc := recS{ts: ts, key: "-", val: rep(n, 0x7a)}
		if r.Chance(30) {
			rc.hdrs = append(rc.hdrs, [2]string{rep(r.Intn(10), 'h'), rep(r.Intn(10), 'v')})
		}
		ps.recs = append(ps.recs, rc)
		ps.recs = append(ps.recs, recS{ts: ts + 1, key: "-", val: "01"})
	} else {
		n := 10 + r.Intn(40)
		for i := 0; i < n; i++ {
			sz := r.Intn(120)
			if r.Chance(5) {
				sz = int(o.bmax) + r.Intn(20) - 90
			}
			ps.recs = append(ps.recs, recS{ts: ts, key: nrnd(r, r.Intn(4)-1), val: rep(sz, byte(i))})
			ts = nextTs(r, ts)
		}
	}
	o.parts = append(o.parts, ps)
	o.emit()
}

func gen(a hx.Args) {
	r := hx.NewRng(a.Seed)
	// the documented probe of DESIGN §8-e as a fixed first case (limit 2048, one-record partitions, v13)
	{
		o := opS{v: 13, pv: 13, acks: -1, timeout: 10000, limit: 2048, bmax: 1000, pid: 5, epoch: 0, txn: "-", cid: hex.EncodeToString([]byte("kgo")), comp: "none", corr: 7}
		id := topicID(r, 1)
		for i := 0; i < 60; i++ {
			o.parts = append(o.parts, partS{topic: hex.EncodeToString([]byte("t")), id: id, part: int64(i), seq: 0,
				recs: []recS{{ts: tsBase, key: "-", val: rep(3, 'v')}}})
		}
		o.emit()
	}
	n := a.N(900, 20000)
	for i := 0; i < n; i++ {
		switch k := r.Intn(100); {
		case k < 22:
			genSmall(r, false)
		case k < 40:
			genSmall(r, true)
		case k < 52:
			genBoundary(r, false)
		case k < 82:
			genPack(r, k < 70)
		case k < 90:
			genBatchMax(r, -1)
		default:
			genBatchMax(r, r.Intn(110))
		}
	}
	// records with headers around the batch limit (genhdr.go): a fixed small-scope grid, then random packed / single cases
	genHdrGrid(r, a.Tier == "thorough")
	for i := 0; i < a.N(320, 7000); i++ {
		genHdr(r)
	}
	// a few large cases (three/four byte compact prefixes)
	for i := 0; i < a.N(2, 8); i++ {
		genBoundary(r, true)
	}
	if a.Tier == "thorough" {
		// regression (fixed by /repo d9ff59f): version unknown, written v13, 2 short-named topics x 127 partitions x one 2 MiB
		// record, 130-byte transactional id, limit = the accounted length of the whole request before the fix (532697885):
		// it was admitted whole and written one byte over. About half a gigabyte: lengths only, thorough tier only.
		var sb strings.Builder
		n := 0
		for t := 0; t < 2; t++ {
			for p := 0; p < 127; p++ {
				fmt.Fprintf(&sb, " 74%02x %s %d 0 1 1700000000000 - ~2097152x61 0", 0x30+t, strings.Repeat(fmt.Sprintf("%02x", t+1), 16), p)
				n++
			}
		}
		hx.Emit("reqlen 13 -1 1 -1 10000 532697885 4194304 5 0 ~130x78 6b676f none 7 %d%s", n, sb.String())
	}
	for i := 0; i < a.N(3, 30); i++ {
		hx.Emit("wire %d %d %d %d %d", 3+r.Intn(11), hx.Pick(r, []int64{1024, 2048, 4096}), 20+r.Intn(120), r.Intn(30), 1+r.Intn(12))
	}
}
