// C28 harness: murmur2 (verif export), the public hashers, every built-in partitioner through the
// public Partitioner/TopicPartitioner interfaces (with the real backup iterator and, optionally, an
// injected random source: verif hooks), and doPartition's pick validation through a real client
// producing to the real kfake with ManualPartitioner.
//
//	mm <key>                                   -> <uint32>
//	hk <hasher> <key> <n>                      -> <p> | panic:…        hasher over a real hash function
//	hr <k|s|c> <hash> <n>                      -> <p> | panic:…        hasher over a constant hash value
//	reset <rr|st|sk|lb|ub> <inj|real> <hasher> [<limit> <adaptive> <keys>]   -> ok
//	p <key> <vlen> <hdrs> <n> <backups> <draws> -> <pick> | panic:…
//	nb                                         -> ok | none
//	prod <nparts> <pick>                       -> accepted | rejected | other:…
//
// Client-side ops (rc, sel, e2e, e2eflush; reset modes cinj/creal/e2e; partitioners mn, bc, df): see client.go.
//
// hasher: d = nil (the partitioner's default) / KafkaHasher(murmur2); kf = KafkaHasher(fnv32a);
// sf = SaramaHasher(fnv32a); cf = SaramaCompatHasher(fnv32a).  key: hex, "." empty, "-" nil.
// hdrs: "_" or "klen:vlen,…"; backups/draws: "_" or comma separated.
package main

import (
	"context"
	"fmt"
	"hash/fnv"
	"math"
	"math/rand"
	"os"
	"strconv"
	"strings"
	"time"

	"github.com/twmb/franz-go/pkg/kfake"
	"github.com/twmb/franz-go/pkg/kgo"
	"verifharness/hx"
)

const maxN = int64(1)<<31 - 1

func fnv32a(b []byte) uint32 {
	h := fnv.New32a()
	h.Reset()
	h.Write(b)
	return h.Sum32()
}

// ---------------------------------------------------------------- generator

func genN(r *hx.Rng) int64 {
	switch k := r.Intn(100); {
	case k < 3:
		return 1
	case k < 35:
		return r.Range(2, 16)
	case k < 55:
		n := int64(1)<<uint(r.Intn(31)) + r.Range(-1, 1)
		if n < 1 {
			n = 1
		}
		return n
	case k < 75:
		return r.Range(17, 1000)
	case k < 90:
		return r.Range(1, maxN)
	default:
		return hx.Pick(r, []int64{maxN, maxN - 1, 1 << 30, 1<<30 + 1, 65535, 65536, 65537, 2, 3, 1})
	}
}

func genKey(r *hx.Rng, l int) []byte {
	b := r.Bytes(l)
	switch r.Intn(8) {
	case 0: // high bits set everywhere (signed bytes in Java)
		for i := range b {
			b[i] |= 0x80
		}
	case 1:
		for i := range b {
			b[i] = 0xff
		}
	case 2:
		for i := range b {
			b[i] = 0
		}
	case 3: // printable
		for i := range b {
			b[i] = 'a' + b[i]%26
		}
	}
	return b
}

func csv(xs []int64) string {
	if len(xs) == 0 {
		return "_"
	}
	s := make([]string, len(xs))
	for i, x := range xs {
		s[i] = strconv.FormatInt(x, 10)
	}
	return strings.Join(s, ",")
}

func genBackups(r *hx.Rng, n int) []int64 {
	bs := make([]int64, n)
	mode := r.Intn(5)
	for i := range bs {
		switch mode {
		case 0: // all equal: every step is a tie
			bs[i] = 0
		case 1:
			bs[i] = int64(r.Intn(3))
		case 2:
			bs[i] = hx.Pick(r, []int64{0, 0, 1, 5, 1000, math.MaxInt64, math.MaxInt64 - 1})
		case 3:
			bs[i] = math.MaxInt64
		default:
			bs[i] = r.Range(0, 50)
		}
	}
	return bs
}

func gen(a hx.Args) {
	r := hx.NewRng(a.Seed)
	// first, end to end: the default partitioner on a real cluster, one leader outage per partition of the topic
	{
		pool := []string{hx.Hex(genKey(r, 1+r.Intn(12))), hx.Hex(genKey(r, 1+r.Intn(12))), hx.Hex([]byte("franz")), hx.Hex([]byte("kafka"))}
		genE2EGroup(r, "df", pool, true)
	}
	// murmur2: every length 0..64 (nil and empty included), then a few long keys
	hx.Emit("mm -")
	hx.Emit("mm .")
	for _, s := range []string{"21", "foobar", "a-little-bit-long-string", "a-little-bit-longer-string", "lkjh234lh9fiuh90y23oiuhsafujhadof229phr9h19h89h8", "abc"} {
		hx.Emit("mm %s", hx.Hex([]byte(s)))
	}
	per := a.N(40, 1500)
	for l := 1; l <= 64; l++ {
		for i := 0; i < per; i++ {
			hx.Emit("mm %s", hx.Hex(genKey(r, l)))
		}
	}
	for i := 0; i < a.N(200, 5000); i++ {
		hx.Emit("mm %s", hx.Hex(genKey(r, 65+r.Intn(400))))
	}
	// small-scope exhaustive: all keys of length 1, and all (b,b') pairs on a coarse grid
	for b := 0; b < 256; b++ {
		hx.Emit("mm %02x", b)
	}
	if a.Tier == "thorough" {
		for b := 0; b < 65536; b++ {
			hx.Emit("mm %04x", b)
		}
	}
	// hashers over real hash functions
	hashers := []string{"d", "d", "kf", "sf", "cf", "cf"}
	for i := 0; i < a.N(30000, 600000); i++ {
		l := r.Intn(65)
		key := hx.Hex(genKey(r, l))
		if l == 0 && r.Bool() {
			key = "-"
		}
		hx.Emit("hk %s %s %d", hx.Pick(r, hashers), key, genN(r))
	}
	// hashers over chosen hash values (sign-bit boundaries)
	hv := []uint32{0, 1, 2, 0x7ffffffe, 0x7fffffff, 0x80000000, 0x80000001, 0xfffffffe, 0xffffffff, 0x12345678, 0x87654321}
	ns := []int64{1, 2, 3, 7, 8, 1000, 65536, 1 << 30, maxN - 1, maxN}
	for _, k := range []string{"k", "s", "c"} {
		for _, h := range hv {
			for _, n := range ns {
				hx.Emit("hr %s %d %d", k, h, n)
			}
		}
	}
	for i := 0; i < a.N(30000, 600000); i++ {
		h := uint32(r.U64())
		if r.Chance(12) {
			h = hx.Pick(r, hv) + uint32(r.Intn(3)) - 1
		}
		hx.Emit("hr %s %d %d", hx.Pick(r, []string{"k", "s", "c"}), h, genN(r))
	}
	// stateful partitioners
	keyPool := make([]string, 12)
	for i := range keyPool {
		keyPool[i] = hx.Hex(genKey(r, r.Intn(20)))
	}
	keyPool[0] = "."
	for g := 0; g < a.N(2500, 40000); g++ {
		pt := hx.Pick(r, []string{"rr", "st", "st", "sk", "sk", "lb", "lb", "ub", "ub", "ub"})
		mode := "inj"
		if r.Chance(25) {
			mode = "real"
		}
		hasher := hx.Pick(r, []string{"d", "d", "kf", "sf", "cf"})
		backup := pt == "lb" || pt == "ub"
		adaptive, keys := false, false
		switch pt {
		case "rr", "st", "lb":
			hx.Emit("reset %s %s -", pt, mode)
		case "sk":
			hx.Emit("reset %s %s %s", pt, mode, hasher)
			keys = true
		case "ub":
			adaptive, keys = r.Bool(), r.Bool()
			hx.Emit("reset %s %s %s %d %s %s", pt, mode, hasher, hx.Pick(r, []int64{1, 40, 200, 1000, 100000}), hx.B(adaptive), hx.B(keys))
		}
		var n int64
		if backup {
			n = hx.Pick(r, []int64{1, 2, 3, 4, 8, 16, 33, 64})
			if r.Chance(3) {
				n = r.Range(100, 600)
			}
		} else {
			n = genN(r)
		}
		steps := 8 + r.Intn(30)
		for i := 0; i < steps; i++ {
			if r.Chance(10) {
				hx.Emit("nb")
				continue
			}
			if r.Chance(8) {
				hx.Emit("rc %s", genSelKey(r, keyPool))
				continue
			}
			switch k := r.Intn(100); {
			case k < 50: // same n
			case k < 75: // shrink (possibly below the pinned partition)
				n = r.Range(1, n)
			case k < 85 && !backup:
				n = genN(r)
			default: // grow
				if backup {
					n = min(n+r.Range(1, 8), 600)
				} else {
					n = min(n+r.Range(1, 1000), maxN)
				}
			}
			key := "-"
			if keys && r.Chance(60) {
				key = hx.Pick(r, keyPool)
			} else if r.Chance(20) {
				key = hx.Pick(r, keyPool) // a key the partitioner may ignore
			}
			vlen := r.Intn(300)
			if r.Chance(5) {
				vlen = r.Intn(20000)
			}
			hdrs := "_"
			if r.Chance(20) {
				var hs []string
				for j := 0; j <= r.Intn(3); j++ {
					hs = append(hs, fmt.Sprintf("%d:%d", r.Intn(70), r.Intn(200)))
				}
				hdrs = strings.Join(hs, ",")
			}
			backups := "_"
			var draws []int64
			if backup {
				backups = csv(genBackups(r, int(n)))
			}
			if mode == "inj" {
				switch pt {
				case "st", "sk", "ub":
					draws = append(draws, r.Range(0, n-1))
				case "lb":
					for j := int64(0); j < n; j++ {
						draws = append(draws, r.Range(0, 1<<20))
					}
				}
			}
			hx.Emit("p %s %d %s %d %s %s", key, vlen, hdrs, n, backups, csv(draws))
		}
	}
	// the client around the partitioner: RequiresConsistency, doPartition on crafted topics, end to end outages
	genClient(a, r, keyPool)
	// doPartition's validation
	for i := 0; i < a.N(400, 6000); i++ {
		k := hx.Pick(r, []int64{1, 3, 8})
		var pick int64
		switch r.Intn(4) {
		case 0:
			pick = r.Range(0, k-1)
		case 1:
			pick = r.Range(-3, k+3)
		case 2:
			pick = hx.Pick(r, []int64{-1, k, k - 1, 0, math.MaxInt32, math.MinInt32, k + 1})
		default:
			pick = r.Range(math.MinInt32, math.MaxInt32)
		}
		hx.Emit("prod %d %d", k, pick)
	}
}

// ---------------------------------------------------------------- implementation side

// injSource is a rand.Source whose 63-bit outputs are chosen by the op line: Int63 = raw<<32, so that
// Int31() = raw and Intn(n) = raw % n whenever raw ≤ the rejection threshold of Int31n (raw < n or raw < 2^30).
type injSource struct{ raws []int64 }

func (s *injSource) Int63() int64 {
	if len(s.raws) == 0 {
		return 0
	}
	v := s.raws[0]
	s.raws = s.raws[1:]
	return v << 32
}
func (*injSource) Seed(int64) {}

func hasherOf(tok string) kgo.PartitionerHasher {
	switch tok {
	case "d":
		return kgo.KafkaHasher(kgo.VerifMurmur2)
	case "kf":
		return kgo.KafkaHasher(fnv32a)
	case "sf":
		return kgo.SaramaHasher(fnv32a)
	case "cf":
		return kgo.SaramaCompatHasher(fnv32a)
	}
	panic("bad hasher " + tok)
}

func parseCSV(s string) []int64 {
	if s == "_" {
		return nil
	}
	var out []int64
	for _, t := range strings.Split(s, ",") {
		out = append(out, hx.Atoi(t))
	}
	return out
}

type prodEnv struct {
	c  *kfake.Cluster
	cl *kgo.Client
}

func newProdEnv() *prodEnv {
	c, err := kfake.NewCluster(kfake.NumBrokers(1), kfake.SeedTopics(1, "t1"), kfake.SeedTopics(3, "t3"), kfake.SeedTopics(8, "t8"))
	if err != nil {
		panic(err)
	}
	cl, err := kgo.NewClient(kgo.SeedBrokers(c.ListenAddrs()...), kgo.RecordPartitioner(kgo.ManualPartitioner()))
	if err != nil {
		panic(err)
	}
	return &prodEnv{c, cl}
}

func (e *prodEnv) produce(k int64, pick int32) string {
	ctx, cancel := context.WithTimeout(context.Background(), 15*time.Second)
	defer cancel()
	done := make(chan error, 1)
	e.cl.Produce(ctx, &kgo.Record{Topic: fmt.Sprintf("t%d", k), Partition: pick, Value: []byte("v")}, func(_ *kgo.Record, err error) { done <- err })
	select {
	case err := <-done:
		switch {
		case err == nil:
			return "accepted"
		case strings.Contains(err.Error(), "invalid record partitioning choice"):
			return "rejected"
		default:
			return "other:" + strings.ReplaceAll(err.Error(), " ", "_")
		}
	case <-time.After(20 * time.Second):
		return "hang"
	}
}

func nbucket(n int64) string {
	switch {
	case n == 1:
		return "1"
	case n <= 16:
		return "2-16"
	case n <= 1000:
		return "17-1000"
	case n&(n-1) == 0:
		return "pow2"
	case n >= maxN-1:
		return "max"
	default:
		return "large"
	}
}

func run() {
	var (
		tp     kgo.TopicPartitioner
		src    *injSource
		pe     *prodEnv
		lastN  int64
		ptype  string
		defKey = 0
		cs     clientState
	)
	_ = defKey
	hx.RunLines(90*time.Second, func(t []string) (res string) {
		switch t[0] {
		case "rc":
			if cs.tp != nil {
				return cs.rc(t)
			}
			if tp == nil {
				return "bad-op"
			}
			ok := tp.RequiresConsistency(&kgo.Record{Key: hx.UnHex(t[1]), Value: []byte("v")})
			hx.St.Inc("rc.key." + keyClass(t[1]) + "." + strconv.FormatBool(ok))
			return strconv.FormatBool(ok)
		case "sel":
			return cs.sel(t)
		case "e2e":
			return cs.e2eOp(t)
		case "e2eflush":
			return cs.e2eFlush()
		case "mm":
			b := hx.UnHex(t[1])
			hx.St.Inc(fmt.Sprintf("mm.len%%4=%d", len(b)%4))
			if len(b) > 64 {
				hx.St.Inc("mm.len>64")
			}
			return strconv.FormatUint(uint64(kgo.VerifMurmur2(b)), 10)
		case "hk":
			n := hx.Atoi(t[3])
			hx.St.Inc("hk." + t[1])
			hx.St.Inc("n." + nbucket(n))
			return hx.Itoa(int64(hasherOf(t[1])(hx.UnHex(t[2]), int(n))))
		case "hr":
			h, n := uint32(hx.Atoi(t[2])), hx.Atoi(t[3])
			f := func([]byte) uint32 { return h }
			hx.St.Inc("hr." + t[1])
			if h >= 1<<31 {
				hx.St.Inc("hr.signbit")
			}
			hx.St.Inc("n." + nbucket(n))
			var hs kgo.PartitionerHasher
			switch t[1] {
			case "k":
				hs = kgo.KafkaHasher(f)
			case "s":
				hs = kgo.SaramaHasher(f)
			default:
				hs = kgo.SaramaCompatHasher(f)
			}
			return hx.Itoa(int64(hs([]byte("x"), int(n))))
		case "reset":
			if t[2] == "cinj" || t[2] == "creal" || t[2] == "e2e" {
				tp, src = nil, nil
				return cs.reset(t)
			}
			cs.endGroup()
			ptype = t[1]
			var p kgo.Partitioner
			var hs kgo.PartitionerHasher
			if t[3] != "-" && t[3] != "d" {
				hs = hasherOf(t[3])
			} // "d": nil, the partitioner installs KafkaHasher(murmur2) itself
			switch ptype {
			case "rr":
				p = kgo.RoundRobinPartitioner()
			case "st":
				p = kgo.StickyPartitioner()
			case "sk":
				p = kgo.StickyKeyPartitioner(hs)
			case "lb":
				p = kgo.LeastBackupPartitioner()
			case "ub":
				p = kgo.UniformBytesPartitioner(int(hx.Atoi(t[4])), t[5] == "1", t[6] == "1", hs)
			}
			tp = p.ForTopic("t")
			src = nil
			if t[2] == "inj" && ptype != "rr" {
				src = &injSource{}
				if !kgo.VerifSetPartitionerRand(tp, rand.New(src)) {
					return "no-rng"
				}
			}
			lastN = 0
			hx.St.Inc("group." + ptype + "." + t[2])
			return "ok"
		case "nb":
			hx.St.Inc("op.nb")
			if nb, ok := tp.(kgo.TopicPartitionerOnNewBatch); ok {
				nb.OnNewBatch()
				return "ok"
			}
			return "none"
		case "p":
			rec := &kgo.Record{Key: hx.UnHex(t[1]), Value: make([]byte, hx.Atoi(t[2]))}
			if t[3] != "_" {
				for _, h := range strings.Split(t[3], ",") {
					kv := strings.Split(h, ":")
					rec.Headers = append(rec.Headers, kgo.RecordHeader{Key: strings.Repeat("h", int(hx.Atoi(kv[0]))), Value: make([]byte, hx.Atoi(kv[1]))})
				}
			}
			n := hx.Atoi(t[4])
			if src != nil {
				src.raws = parseCSV(t[6])
			}
			hx.St.Inc("op.p." + ptype)
			hx.St.Inc("n." + nbucket(n))
			if lastN != 0 {
				switch {
				case n < lastN:
					hx.St.Inc("seq.shrink")
				case n > lastN:
					hx.St.Inc("seq.grow")
				default:
					hx.St.Inc("seq.same")
				}
			}
			lastN = n
			if rec.Key != nil {
				hx.St.Inc("p.keyed")
			}
			var pick int
			if tb, ok := tp.(kgo.TopicBackupPartitioner); ok { // as doPartition does
				bs := parseCSV(t[5])
				if int64(len(bs)) != n {
					return "bad-op"
				}
				pick = tb.PartitionByBackup(rec, int(n), kgo.VerifBackupIter(bs))
			} else {
				pick = tp.Partition(rec, int(n))
			}
			if pick < 0 || int64(pick) >= n {
				hx.St.Inc("p.out-of-range")
			}
			return strconv.Itoa(pick)
		case "prod":
			if pe == nil {
				pe = newProdEnv()
			}
			res := pe.produce(hx.Atoi(t[1]), int32(hx.Atoi(t[2])))
			hx.St.Inc("prod." + strings.SplitN(res, ":", 2)[0])
			return res
		}
		return "bad-op"
	})
}

func main() {
	a := hx.Parse()
	switch a.Mode {
	case "gen":
		gen(a)
		hx.Flush()
	case "run":
		run()
	default:
		os.Exit(2)
	}
}
