// C28 harness, client side: RequiresConsistency of every built-in topic partitioner, and the client's real
// partition selection (Produce -> partitionsForTopicProduce -> doPartition -> bufferRecord) on
//   - a producer topic of a chosen shape (all partitions / writable subset / buffered counts / load error) put into a
//     broker-less ManualFlushing client by the verif hook VerifC28SetTopic (modes cinj, creal), and
//   - a real kfake cluster whose Metadata responses mark chosen partitions LEADER_NOT_AVAILABLE (mode e2e).
//
//	reset <rr|st|sk|lb|ub|mn|bc|df> <cinj|creal|e2e> <hasher> [<limit> <adaptive> <keys>]   -> ok
//	rc <key>                                                             -> true | false
//	sel <key> <vlen> <hdrs> <rpart> <nAll> <writable> <buffered> <0|r|f> <draw|_>
//	                                      -> part=<p> | err:load | err:invalid:<pick>:<len> | err:nousable | err:other:…
//	e2e <nAll> <leaderless> <key>                                        -> part=<p> | …
//	e2eflush                                                             -> ok | err:…
//
// mn = ManualPartitioner, bc = BasicConsistentPartitioner over hasher(r.Key, n), df = the client's default partitioner
// (no RecordPartitioner option). writable / leaderless: "_" or ascending partition numbers; loaderr: 0 none,
// r = LEADER_NOT_AVAILABLE on the topic (retriable), f = TOPIC_AUTHORIZATION_FAILED (not retriable).
package main

import (
	"context"
	"fmt"
	"math/rand"
	"net"
	"slices"
	"strconv"
	"strings"
	"sync/atomic"
	"time"

	"github.com/twmb/franz-go/pkg/kerr"
	"github.com/twmb/franz-go/pkg/kfake"
	"github.com/twmb/franz-go/pkg/kgo"
	"github.com/twmb/franz-go/pkg/kmsg"
	"verifharness/hx"
)

// ---------------------------------------------------------------- generator

func csvInts[T ~int | ~int32 | ~int64](xs []T) string {
	if len(xs) == 0 {
		return "_"
	}
	s := make([]string, len(xs))
	for i, x := range xs {
		s[i] = strconv.FormatInt(int64(x), 10)
	}
	return strings.Join(s, ",")
}

// genSubset: an ascending subset of 0..n-1 (the partitions with a leader).
func genSubset(r *hx.Rng, n int) []int64 {
	all := make([]int64, n)
	for i := range all {
		all[i] = int64(i)
	}
	switch k := r.Intn(100); {
	case k < 35:
		return all
	case k < 62: // one partition is leaderless
		d := r.Intn(n)
		return append(append([]int64{}, all[:d]...), all[d+1:]...)
	case k < 85: // several are
		var out []int64
		for _, p := range all {
			if r.Chance(60) {
				out = append(out, p)
			}
		}
		return out
	case k < 92:
		return []int64{int64(r.Intn(n))}
	default:
		return nil
	}
}

func genSelKey(r *hx.Rng, keyPool []string) string {
	switch k := r.Intn(100); {
	case k < 25:
		return "." // empty, non-nil
	case k < 72:
		return hx.Pick(r, keyPool)
	default:
		return "-"
	}
}

func emitClientReset(r *hx.Rng, pt, mode string) {
	hasher := hx.Pick(r, []string{"d", "d", "kf", "sf", "cf"})
	switch pt {
	case "rr", "st", "lb", "mn", "df":
		hx.Emit("reset %s %s -", pt, mode)
	case "sk", "bc":
		hx.Emit("reset %s %s %s", pt, mode, hasher)
	case "ub":
		hx.Emit("reset %s %s %s %d %s %s", pt, mode, hasher, hx.Pick(r, []int64{1, 40, 200, 1000, 100000}), hx.B(r.Bool()), hx.B(r.Chance(65)))
	}
}

func genClient(a hx.Args, r *hx.Rng, keyPool []string) {
	for g := 0; g < a.N(700, 12000); g++ {
		pt := hx.Pick(r, []string{"rr", "st", "sk", "sk", "lb", "ub", "ub", "ub", "df", "mn", "bc"})
		mode := "cinj"
		if r.Chance(20) {
			mode = "creal"
		}
		emitClientReset(r, pt, mode)
		nAll := hx.Pick(r, []int{1, 2, 3, 4, 4, 5, 6, 8, 12, 16})
		steps := 8 + r.Intn(16)
		for i := 0; i < steps; i++ {
			if r.Chance(12) {
				hx.Emit("rc %s", genSelKey(r, keyPool))
				continue
			}
			if r.Chance(8) && nAll < 24 { // partitions were added
				nAll += 1 + r.Intn(3)
			}
			vlen := r.Intn(300)
			if r.Chance(5) {
				vlen = r.Intn(20000)
			}
			hdrs := "_"
			if r.Chance(15) {
				hdrs = fmt.Sprintf("%d:%d", r.Intn(70), r.Intn(200))
			}
			rpart := int64(0)
			if pt == "mn" {
				switch k := r.Intn(10); {
				case k < 7:
					rpart = int64(r.Intn(nAll))
				case k < 9:
					rpart = r.Range(-2, int64(nAll)+2)
				default:
					rpart = hx.Pick(r, []int64{-1, int64(nAll), 2147483647, -2147483648})
				}
			} else if r.Chance(10) {
				rpart = r.Range(-1, int64(nAll))
			}
			loaderr := "0"
			switch k := r.Intn(100); {
			case k < 3:
				loaderr = "r"
			case k < 6:
				loaderr = "f"
			}
			draw := "_"
			if mode == "cinj" {
				if r.Chance(70) {
					draw = strconv.Itoa(r.Intn(8))
				} else {
					draw = strconv.Itoa(r.Intn(1 << 20))
				}
			}
			hx.Emit("sel %s %d %s %d %d %s %s %s %s", genSelKey(r, keyPool), vlen, hdrs, rpart, nAll,
				csvInts(genSubset(r, nAll)), csvInts(genBackups(r, nAll)), loaderr, draw)
		}
	}
	// end to end: a real cluster, partitions made leaderless by its Metadata responses
	for g := 0; g < a.N(6, 40); g++ {
		genE2EGroup(r, hx.Pick(r, []string{"df", "df", "sk", "ub", "st", "bc"}), keyPool, false)
	}
}

// genE2EGroup: the same keys (the empty one first) produced while all partitions have a leader, during outages, and
// after; cycle = one outage per partition of the topic, in random order, instead of one or two outages.
func genE2EGroup(r *hx.Rng, pt string, keyPool []string, cycle bool) {
	switch pt {
	case "ub": // keys on: the interesting configuration
		hx.Emit("reset ub e2e %s %d %s 1", hx.Pick(r, []string{"d", "cf"}), hx.Pick(r, []int64{1, 1000, 100000}), hx.B(r.Bool()))
	default:
		emitClientReset(r, pt, "e2e")
	}
	nAll := hx.Pick(r, []int{3, 4, 4, 5, 6})
	keys := []string{".", hx.Pick(r, keyPool), hx.Pick(r, keyPool), hx.Hex(genKey(r, 1+r.Intn(8)))}
	var phases [][]int64
	phases = append(phases, nil)
	if cycle {
		order := make([]int64, nAll)
		for i := range order {
			order[i] = int64(i)
		}
		for i := len(order) - 1; i > 0; i-- {
			j := r.Intn(i + 1)
			order[i], order[j] = order[j], order[i]
		}
		for _, d := range order {
			phases = append(phases, []int64{d})
		}
		phases = append(phases, nil)
	} else {
		dead := []int64{int64(r.Intn(nAll))} // outage of one or two partitions
		if r.Chance(30) {
			if d2 := int64(r.Intn(nAll)); d2 != dead[0] {
				dead = append(dead, d2)
				slices.Sort(dead)
			}
		}
		phases = append(phases, dead)
		if r.Chance(50) {
			phases = append(phases, nil)
		} else {
			phases = append(phases, []int64{int64(r.Intn(nAll))})
		}
	}
	for _, dead := range phases {
		for _, k := range keys {
			hx.Emit("e2e %d %s %s", nAll, csvInts(dead), k)
		}
		if r.Chance(50) {
			hx.Emit("e2e %d %s -", nAll, csvInts(dead))
		}
	}
	hx.Emit("e2eflush")
}

// ---------------------------------------------------------------- implementation side

// constSource: every Int63 is v<<32, so Int31() = v and Intn(n) = v % n (v < 2^30).
type constSource struct{ v int64 }

func (s *constSource) Int63() int64 { return s.v << 32 }
func (*constSource) Seed(int64)     {}

// partHook observes the partition a record is buffered on (public hook, called inside bufferRecord).
type partHook struct{ ch chan int32 }

func (h *partHook) OnProduceRecordPartitioned(r *kgo.Record, _ int32) {
	select {
	case h.ch <- r.Partition:
	default:
	}
}

func partitionerOf(t []string) kgo.Partitioner {
	var hs kgo.PartitionerHasher
	if len(t) > 3 && t[3] != "-" && t[3] != "d" {
		hs = hasherOf(t[3])
	}
	switch t[1] {
	case "rr":
		return kgo.RoundRobinPartitioner()
	case "st":
		return kgo.StickyPartitioner()
	case "sk":
		return kgo.StickyKeyPartitioner(hs)
	case "lb":
		return kgo.LeastBackupPartitioner()
	case "ub":
		return kgo.UniformBytesPartitioner(int(hx.Atoi(t[4])), t[5] == "1", t[6] == "1", hs)
	case "mn":
		return kgo.ManualPartitioner()
	case "bc":
		h := hasherOf(t[3])
		return kgo.BasicConsistentPartitioner(func(string) func(*kgo.Record, int) int {
			return func(r *kgo.Record, n int) int { return h(r.Key, n) }
		})
	}
	return nil // df: the client's default
}

type clientEnv struct {
	cl   *kgo.Client
	hook *partHook
}

type pending struct {
	rec  *kgo.Record
	part int32
	errc chan error
}

type e2eEnv struct {
	c     *kfake.Cluster
	cl    *kgo.Client
	hook  *partHook
	nAll  int
	dead  atomic.Pointer[[]int32]
	pend  []*pending
	known bool
}

type clientState struct {
	clients map[string]*clientEnv
	cur     *clientEnv
	topic   string
	ngroup  int
	src     *constSource
	tp      kgo.TopicPartitioner
	e2e     *e2eEnv
	e2eCfg  []string
}

func (cs *clientState) endGroup() {
	if cs.cur != nil {
		kgo.VerifC28DropTopic(cs.cur.cl, cs.topic)
		for i := 0; i < 2000 && cs.cur.cl.BufferedProduceRecords() > 0; i++ {
			time.Sleep(time.Millisecond)
		}
		cs.cur = nil
	}
	if cs.e2e != nil {
		cs.e2e.cl.Close()
		cs.e2e.c.Close()
		cs.e2e = nil
	}
	cs.tp, cs.src, cs.e2eCfg = nil, nil, nil
}

func (cs *clientState) reset(t []string) string {
	cs.endGroup()
	cs.ngroup++
	hx.St.Inc("group." + t[1] + "." + t[2])
	if t[2] == "e2e" {
		cs.e2eCfg = t
		// RequiresConsistency is asked of a topic partitioner made the way the client makes it
		if p := partitionerOf(t); p != nil {
			cs.tp = p.ForTopic("e")
		} else {
			cs.tp = kgo.UniformBytesPartitioner(64<<10, true, true, nil).ForTopic("e")
		}
		return "ok"
	}
	key := strings.Join(append([]string{t[1]}, t[3:]...), " ")
	if cs.clients == nil {
		cs.clients = map[string]*clientEnv{}
	}
	env := cs.clients[key]
	if env == nil {
		hook := &partHook{make(chan int32, 1)}
		opts := []kgo.Opt{kgo.SeedBrokers("127.0.0.1:1"), kgo.ManualFlushing(), kgo.MaxBufferedRecords(1 << 20), kgo.WithHooks(hook)}
		if p := partitionerOf(t); p != nil {
			opts = append(opts, kgo.RecordPartitioner(p))
		}
		cl, err := kgo.NewClient(opts...)
		if err != nil {
			panic(err)
		}
		env = &clientEnv{cl, hook}
		cs.clients[key] = env
	}
	cs.cur = env
	cs.topic = fmt.Sprintf("g%d", cs.ngroup)
	if !kgo.VerifC28SetTopic(env.cl, cs.topic, 0, nil, nil, 0) {
		return "bad-topic"
	}
	cs.tp = kgo.VerifC28TopicPartitioner(env.cl, cs.topic)
	if cs.tp == nil {
		return "no-partitioner"
	}
	if t[2] == "cinj" {
		cs.src = &constSource{}
		if !kgo.VerifSetPartitionerRand(cs.tp, rand.New(cs.src)) {
			cs.src = nil // round robin, basic: no random source
		}
	}
	return "ok"
}

func classifyErr(err error) string {
	msg := err.Error()
	switch {
	case strings.HasPrefix(msg, "invalid record partitioning choice of "):
		var pick, n int64
		if _, e := fmt.Sscanf(msg, "invalid record partitioning choice of %d from %d available", &pick, &n); e == nil {
			return fmt.Sprintf("err:invalid:%d:%d", pick, n)
		}
	case strings.Contains(msg, "no usable partitions"):
		return "err:nousable"
	case err == kerr.TopicAuthorizationFailed || err == kerr.LeaderNotAvailable:
		return "err:load"
	}
	return "err:other:" + strings.ReplaceAll(msg, " ", "_")
}

func mkRecord(topic, key string, vlen int64, hdrs string, rpart int64) *kgo.Record {
	rec := &kgo.Record{Topic: topic, Key: hx.UnHex(key), Value: make([]byte, vlen), Partition: int32(rpart)}
	if hdrs != "_" {
		for _, h := range strings.Split(hdrs, ",") {
			kv := strings.Split(h, ":")
			rec.Headers = append(rec.Headers, kgo.RecordHeader{Key: strings.Repeat("h", int(hx.Atoi(kv[0]))), Value: make([]byte, hx.Atoi(kv[1]))})
		}
	}
	return rec
}

func keyClass(k string) string {
	switch k {
	case "-":
		return "nil"
	case ".":
		return "empty"
	}
	return "nonempty"
}

func (cs *clientState) sel(t []string) string {
	env := cs.cur
	if env == nil {
		return "bad-op"
	}
	nAll := int(hx.Atoi(t[5]))
	var writable []int32
	for _, w := range parseCSV(t[6]) {
		writable = append(writable, int32(w))
	}
	var code int16
	switch t[8] {
	case "r":
		code = kerr.LeaderNotAvailable.Code
	case "f":
		code = kerr.TopicAuthorizationFailed.Code
	}
	if !kgo.VerifC28SetTopic(env.cl, cs.topic, nAll, writable, parseCSV(t[7]), code) {
		return "bad-op"
	}
	if cs.src != nil {
		cs.src.v = hx.Atoi(t[9])
	}
	hx.St.Inc("op.sel." + cs.e2eOrPt(t))
	hx.St.Inc("sel.key." + keyClass(t[1]))
	switch {
	case len(writable) == nAll:
		hx.St.Inc("sel.writable.all")
	case len(writable) == 0:
		hx.St.Inc("sel.writable.none")
	default:
		hx.St.Inc("sel.writable.some")
	}
	select {
	case <-env.hook.ch:
	default:
	}
	rec := mkRecord(cs.topic, t[1], hx.Atoi(t[2]), t[3], hx.Atoi(t[4]))
	errc := make(chan error, 1)
	env.cl.Produce(context.Background(), rec, func(_ *kgo.Record, err error) {
		select {
		case errc <- err:
		default:
		}
	})
	res := ""
	select {
	case p := <-env.hook.ch: // buffered inside Produce
		res = fmt.Sprintf("part=%d", p)
	default:
		select {
		case p := <-env.hook.ch:
			res = fmt.Sprintf("part=%d", p)
		case err := <-errc:
			if err == nil {
				res = "err:other:nil"
			} else {
				res = classifyErr(err)
			}
		case <-time.After(10 * time.Second):
			res = "hang"
		}
	}
	switch f := strings.SplitN(res, ":", 3); {
	case strings.HasPrefix(res, "part="):
		hx.St.Inc("sel.outcome.placed")
	case len(f) >= 2:
		hx.St.Inc("sel.outcome." + f[1])
	default:
		hx.St.Inc("sel.outcome." + res)
	}
	return res
}

func (cs *clientState) e2eOrPt(t []string) string {
	if cs.e2eCfg != nil {
		return "e2e"
	}
	return "client"
}

func (cs *clientState) rc(t []string) string {
	if cs.tp == nil {
		return "bad-op"
	}
	ok := cs.tp.RequiresConsistency(&kgo.Record{Key: hx.UnHex(t[1]), Value: []byte("v")})
	hx.St.Inc("rc.key." + keyClass(t[1]) + "." + strconv.FormatBool(ok))
	return strconv.FormatBool(ok)
}

const e2eTopic = "e"

func (cs *clientState) newE2E(nAll int) *e2eEnv {
	c, err := kfake.NewCluster(kfake.NumBrokers(1), kfake.SeedTopics(int32(nAll), e2eTopic))
	if err != nil {
		panic(err)
	}
	e := &e2eEnv{c: c, nAll: nAll, hook: &partHook{make(chan int32, 1)}}
	none := []int32{}
	e.dead.Store(&none)
	ti := c.TopicInfo(e2eTopic)
	pis := c.PartitionInfos(e2eTopic)
	host, portStr, _ := net.SplitHostPort(c.ListenAddrs()[0])
	port, _ := strconv.Atoi(portStr)
	c.ControlKey(int16(kmsg.Metadata), func(kreq kmsg.Request) (kmsg.Response, error, bool) {
		c.KeepControl()
		dead := *e.dead.Load()
		if len(dead) == 0 {
			return nil, nil, false // the cluster answers normally
		}
		req := kreq.(*kmsg.MetadataRequest)
		resp := req.ResponseKind().(*kmsg.MetadataResponse)
		sb := kmsg.NewMetadataResponseBroker()
		sb.NodeID = pis[0].Leader
		sb.Host = host
		sb.Port = int32(port)
		resp.Brokers = append(resp.Brokers, sb)
		resp.ControllerID = pis[0].Leader
		st := kmsg.NewMetadataResponseTopic()
		st.Topic = kmsg.StringPtr(e2eTopic)
		st.TopicID = ti.TopicID
		for _, pi := range pis {
			sp := kmsg.NewMetadataResponseTopicPartition()
			sp.Partition = pi.Partition
			sp.Leader = pi.Leader
			sp.LeaderEpoch = pi.Epoch
			sp.Replicas = []int32{pi.Leader}
			sp.ISR = []int32{pi.Leader}
			if slices.Contains(dead, pi.Partition) {
				sp.ErrorCode = kerr.LeaderNotAvailable.Code
				sp.Leader = -1
			}
			st.Partitions = append(st.Partitions, sp)
		}
		resp.Topics = append(resp.Topics, st)
		return resp, nil, true
	})
	opts := []kgo.Opt{kgo.SeedBrokers(c.ListenAddrs()...), kgo.MetadataMinAge(25 * time.Millisecond), kgo.WithHooks(e.hook)}
	if p := partitionerOf(cs.e2eCfg); p != nil {
		opts = append(opts, kgo.RecordPartitioner(p))
	}
	cl, err := kgo.NewClient(opts...)
	if err != nil {
		panic(err)
	}
	e.cl = cl
	return e
}

// waitShape: until the client's view of the topic (what doPartition reads) has exactly these writable partitions.
func (e *e2eEnv) waitShape(want []int32) bool {
	deadline := time.Now().Add(20 * time.Second)
	for time.Now().Before(deadline) {
		all, writable, _, ok := kgo.VerifC28TopicShape(e.cl, e2eTopic)
		if ok && len(all) == e.nAll && slices.Equal(writable, want) {
			return true
		}
		e.cl.ForceMetadataRefresh()
		time.Sleep(10 * time.Millisecond)
	}
	return false
}

func (cs *clientState) e2eOp(t []string) string {
	if cs.e2eCfg == nil {
		return "bad-op"
	}
	nAll := int(hx.Atoi(t[1]))
	if cs.e2e == nil {
		cs.e2e = cs.newE2E(nAll)
	}
	e := cs.e2e
	if nAll != e.nAll {
		return "bad-op"
	}
	var dead, want []int32
	for _, d := range parseCSV(t[2]) {
		dead = append(dead, int32(d))
	}
	for p := int32(0); p < int32(nAll); p++ {
		if !slices.Contains(dead, p) {
			want = append(want, p)
		}
	}
	e.dead.Store(&dead)
	if e.known && !e.waitShape(want) {
		return "hang-metadata"
	}
	hx.St.Inc("op.e2e")
	hx.St.Inc("e2e.key." + keyClass(t[3]))
	if len(dead) > 0 {
		hx.St.Inc("e2e.during-outage")
	}
	select {
	case <-e.hook.ch:
	default:
	}
	pd := &pending{rec: &kgo.Record{Topic: e2eTopic, Key: hx.UnHex(t[3]), Value: []byte("v")}, errc: make(chan error, 1)}
	e.cl.Produce(context.Background(), pd.rec, func(_ *kgo.Record, err error) { pd.errc <- err })
	select {
	case p := <-e.hook.ch:
		pd.part = p
		e.pend = append(e.pend, pd)
		e.known = true
		return fmt.Sprintf("part=%d", p)
	case err := <-pd.errc:
		if err == nil {
			return "err:other:promised-before-partitioned"
		}
		return classifyErr(err)
	case <-time.After(20 * time.Second):
		return "hang"
	}
}

// e2eFlush: the outage ends; every record produced in the group must be delivered to the partition it was buffered on.
func (cs *clientState) e2eFlush() string {
	e := cs.e2e
	if e == nil {
		return "bad-op"
	}
	var want []int32
	for p := int32(0); p < int32(e.nAll); p++ {
		want = append(want, p)
	}
	e.dead.Store(&[]int32{})
	if !e.waitShape(want) {
		return "err:metadata-never-healed"
	}
	ctx, cancel := context.WithTimeout(context.Background(), 40*time.Second)
	defer cancel()
	if err := e.cl.Flush(ctx); err != nil {
		return "err:flush:" + strings.ReplaceAll(err.Error(), " ", "_")
	}
	for _, pd := range e.pend {
		select {
		case err := <-pd.errc:
			if err != nil {
				return "err:delivery:" + strings.ReplaceAll(err.Error(), " ", "_")
			}
			if pd.rec.Partition != pd.part {
				return fmt.Sprintf("err:moved:%d:%d", pd.part, pd.rec.Partition)
			}
		default:
			return "err:not-promised"
		}
	}
	hx.St.Add("e2e.delivered", len(e.pend))
	return "ok"
}
