// C35 harness: kadm.CalculateGroupLag / CalculateGroupLagWithStartOffsets, GroupLag.Total and
// TotalByTopic of this tree, called in-process on generated described groups, commits and
// listed offsets. The grammar of the op lines and of the output is the header of
// lean/Driver/C35.lean (topics are numbers n, passed to kadm as "t<n>"; errors are 0 = nil,
// 1 = kadm's "missing from list offsets", k >= 2 = the k-th error value below).
package main

import (
	"errors"
	"fmt"
	"os"
	"sort"
	"strconv"
	"strings"
	"time"

	"github.com/twmb/franz-go/pkg/kadm"
	"github.com/twmb/franz-go/pkg/kerr"
	"github.com/twmb/franz-go/pkg/kmsg"
	"verifharness/hx"
)

type tparts struct {
	t  int
	ps []int32
}
type member struct {
	ac, jc bool
	asg    []tparts
	join   []int
}
type centry struct {
	p   int32
	at  int64
	ep  int32
	err int
}
type ctopic struct {
	t  int
	ps []centry
}
type lentry struct {
	p   int32
	off int64
	err int
}
type ltopic struct {
	t  int
	ps []lentry
}
type cas struct {
	members  []member
	commit   []ctopic
	startNil bool
	start    []ltopic
	end      []ltopic
}

var errVals = []error{nil, nil,
	kerr.UnknownTopicOrPartition, kerr.GroupAuthorizationFailed, // commit errors
	kerr.NotLeaderForPartition, errors.New("dial tcp: connection refused"), // end errors
	kerr.LeaderNotAvailable, // start errors
}

func errCode(e error) int {
	if e == nil {
		return 0
	}
	if e.Error() == "missing from list offsets" {
		return 1
	}
	for i := 2; i < len(errVals); i++ {
		if e == errVals[i] {
			return i
		}
	}
	return 99
}

// ---------------------------------------------------------------- printing / parsing

func (c *cas) String() string {
	var b strings.Builder
	w := func(f string, a ...any) { fmt.Fprintf(&b, f, a...) }
	w("lag M %d", len(c.members))
	for _, m := range c.members {
		w(" %s %s %d", hx.B(m.ac), hx.B(m.jc), len(m.asg))
		for _, tp := range m.asg {
			w(" %d %d", tp.t, len(tp.ps))
			for _, p := range tp.ps {
				w(" %d", p)
			}
		}
		w(" %d", len(m.join))
		for _, t := range m.join {
			w(" %d", t)
		}
	}
	w(" C %d", len(c.commit))
	for _, ct := range c.commit {
		w(" %d %d", ct.t, len(ct.ps))
		for _, e := range ct.ps {
			w(" %d %d %d %d", e.p, e.at, e.ep, e.err)
		}
	}
	pl := func(ls []ltopic) {
		w(" %d", len(ls))
		for _, lt := range ls {
			w(" %d %d", lt.t, len(lt.ps))
			for _, e := range lt.ps {
				w(" %d %d %d", e.p, e.off, e.err)
			}
		}
	}
	if c.startNil {
		w(" S -")
	} else {
		w(" S")
		pl(c.start)
	}
	w(" E")
	pl(c.end)
	return b.String()
}

type toks struct {
	t []string
	i int
}

func (s *toks) next() string {
	if s.i >= len(s.t) {
		panic("short op")
	}
	s.i++
	return s.t[s.i-1]
}
func (s *toks) int() int64 { return hx.Atoi(s.next()) }
func (s *toks) n() int {
	v := s.int()
	if v < 0 || v > 1<<20 {
		panic("bad count")
	}
	return int(v)
}
func (s *toks) lit(x string) {
	if s.next() != x {
		panic("expected " + x)
	}
}
func (s *toks) listed() []ltopic {
	var ls []ltopic
	for i, n := 0, s.n(); i < n; i++ {
		lt := ltopic{t: int(s.int())}
		for j, np := 0, s.n(); j < np; j++ {
			lt.ps = append(lt.ps, lentry{int32(s.int()), s.int(), int(s.int())})
		}
		ls = append(ls, lt)
	}
	return ls
}

func parse(t []string) *cas {
	s := &toks{t: t}
	c := &cas{}
	s.lit("lag")
	s.lit("M")
	for i, n := 0, s.n(); i < n; i++ {
		m := member{ac: s.next() == "1", jc: s.next() == "1"}
		for j, nt := 0, s.n(); j < nt; j++ {
			tp := tparts{t: int(s.int())}
			for k, np := 0, s.n(); k < np; k++ {
				tp.ps = append(tp.ps, int32(s.int()))
			}
			m.asg = append(m.asg, tp)
		}
		for j, nj := 0, s.n(); j < nj; j++ {
			m.join = append(m.join, int(s.int()))
		}
		c.members = append(c.members, m)
	}
	s.lit("C")
	for i, n := 0, s.n(); i < n; i++ {
		ct := ctopic{t: int(s.int())}
		for j, np := 0, s.n(); j < np; j++ {
			ct.ps = append(ct.ps, centry{int32(s.int()), s.int(), int32(s.int()), int(s.int())})
		}
		c.commit = append(c.commit, ct)
	}
	s.lit("S")
	if s.t[s.i] == "-" {
		s.i++
		c.startNil = true
	} else {
		c.start = s.listed()
	}
	s.lit("E")
	c.end = s.listed()
	if s.i != len(s.t) {
		panic("trailing tokens")
	}
	return c
}

// ---------------------------------------------------------------- running the real code

func tname(t int) string { return "t" + strconv.Itoa(t) }
func tid(s string) int {
	n, err := strconv.Atoi(strings.TrimPrefix(s, "t"))
	if err != nil || !strings.HasPrefix(s, "t") {
		return -999
	}
	return n
}

func inErr(k int) error {
	if k < 2 || k >= len(errVals) {
		if k == 0 {
			return nil
		}
		panic("bad error code in op")
	}
	return errVals[k]
}

func listed(ls []ltopic) kadm.ListedOffsets {
	if len(ls) == 0 {
		return nil
	}
	m := make(kadm.ListedOffsets)
	for _, lt := range ls {
		if _, dup := m[tname(lt.t)]; dup {
			panic("duplicate topic in op")
		}
		mt := make(map[int32]kadm.ListedOffset)
		for _, e := range lt.ps {
			if _, dup := mt[e.p]; dup {
				panic("duplicate partition in op")
			}
			mt[e.p] = kadm.ListedOffset{Topic: tname(lt.t), Partition: e.p, Timestamp: -1, Offset: e.off, LeaderEpoch: -1, Err: inErr(e.err)}
		}
		m[tname(lt.t)] = mt
	}
	return m
}

type row struct {
	member, t   int
	p           int32
	cAt         int64
	cEp         int32
	sOff        int64
	sErr        int
	eOff        int64
	eErr        int
	lag         int64
	err         int
	keyMismatch bool
	pass        int
}

func runCase(c *cas) string {
	g := kadm.DescribedGroup{Group: "g", State: "Stable", ProtocolType: "consumer"}
	if len(c.members) == 0 {
		g.State = "Empty"
	}
	assigned := map[[2]int64]int{}
	for i, m := range c.members {
		dm := kadm.DescribedGroupMember{MemberID: "m" + strconv.Itoa(i)}
		if m.ac {
			a := &kmsg.ConsumerMemberAssignment{}
			for _, tp := range m.asg {
				a.Topics = append(a.Topics, kmsg.ConsumerMemberAssignmentTopic{Topic: tname(tp.t), Partitions: append([]int32(nil), tp.ps...)})
				for _, p := range tp.ps {
					assigned[[2]int64{int64(tp.t), int64(p)}]++
				}
			}
			dm.Assigned = kadm.VerifGroupMemberAssignment(a)
		} else if i%2 == 0 {
			dm.Assigned = kadm.VerifGroupMemberAssignment([]byte{1, 2})
		} else {
			dm.Assigned = kadm.VerifGroupMemberAssignment(&kmsg.ConnectMemberAssignment{})
		}
		if m.jc {
			j := &kmsg.ConsumerMemberMetadata{}
			for _, t := range m.join {
				j.Topics = append(j.Topics, tname(t))
			}
			dm.Join = kadm.VerifGroupMemberMetadata(j)
		} else {
			dm.Join = kadm.VerifGroupMemberMetadata([]byte{})
		}
		g.Members = append(g.Members, dm)
	}
	var commit kadm.OffsetResponses
	committed := map[[2]int64]bool{}
	if len(c.commit) > 0 {
		commit = make(kadm.OffsetResponses)
		for _, ct := range c.commit {
			if _, dup := commit[tname(ct.t)]; dup {
				panic("duplicate topic in op")
			}
			mt := make(map[int32]kadm.OffsetResponse)
			for _, e := range ct.ps {
				if _, dup := mt[e.p]; dup {
					panic("duplicate partition in op")
				}
				mt[e.p] = kadm.OffsetResponse{Offset: kadm.Offset{Topic: tname(ct.t), Partition: e.p, At: e.at, LeaderEpoch: e.ep}, Err: inErr(e.err)}
				committed[[2]int64{int64(ct.t), int64(e.p)}] = true
			}
			commit[tname(ct.t)] = mt
		}
	}
	end := listed(c.end)
	var l kadm.GroupLag
	if c.startNil {
		hx.St.Inc("entry.CalculateGroupLag")
		l = kadm.CalculateGroupLag(g, commit, end)
	} else {
		hx.St.Inc("entry.CalculateGroupLagWithStartOffsets")
		l = kadm.CalculateGroupLagWithStartOffsets(g, commit, listed(c.start), end)
	}
	var rows []row
	for t, ps := range l {
		for p, r := range ps {
			x := row{member: -1, t: tid(r.Topic), p: r.Partition, cAt: r.Commit.At, cEp: r.Commit.LeaderEpoch,
				sOff: r.Start.Offset, sErr: errCode(r.Start.Err), eOff: r.End.Offset, eErr: errCode(r.End.Err),
				lag: r.Lag, err: errCode(r.Err)}
			if r.Topic != t || r.Partition != p || r.Commit.Topic != "" && (r.Commit.Topic != t || r.Commit.Partition != p) ||
				r.Start.Topic != t || r.Start.Partition != p || r.End.Topic != t || r.End.Partition != p {
				x.keyMismatch = true
			}
			if r.Member != nil {
				x.member = -2
				for i := range g.Members {
					if r.Member == &g.Members[i] {
						x.member = i
					}
				}
			}
			k := [2]int64{int64(x.t), int64(x.p)}
			switch {
			case assigned[k] > 0:
				x.pass = 1
				if assigned[k] > 1 {
					hx.St.Inc("row.assigned-more-than-once")
				}
			case committed[k]:
				x.pass = 2
			default:
				x.pass = 3
			}
			rows = append(rows, x)
		}
	}
	sort.Slice(rows, func(i, j int) bool {
		if rows[i].t != rows[j].t {
			return rows[i].t < rows[j].t
		}
		return rows[i].p < rows[j].p
	})
	var b strings.Builder
	fmt.Fprintf(&b, "R %d", len(rows))
	for _, x := range rows {
		if x.keyMismatch {
			b.WriteString(" KEYMISMATCH")
		}
		fmt.Fprintf(&b, " %d %d %d %d %d %d %d %d %d %d %d", x.member, x.t, x.p, x.cAt, x.cEp, x.sOff, x.sErr, x.eOff, x.eErr, x.lag, x.err)
		hx.St.Inc(fmt.Sprintf("row.pass%d", x.pass))
		switch {
		case x.err != 0 && x.lag == -1:
			hx.St.Inc(fmt.Sprintf("row.err%d", min(x.err, 2)*1)) // 1 = missing, 2 = an input error
		case x.err != 0:
			hx.St.Inc("row.err-with-lag>=0")
		case x.cAt >= 0 && x.lag == 0 && x.eOff < x.cAt:
			hx.St.Inc("row.commit-beyond-end-floored")
		case x.cAt >= 0:
			hx.St.Inc("row.lag-from-commit")
		case x.sErr == 0 && x.lag == 0 && x.eOff < x.sOff:
			hx.St.Inc("row.start-beyond-end-floored")
		case x.sErr == 0:
			hx.St.Inc("row.lag-from-start")
		default:
			hx.St.Inc("row.lag-is-end")
		}
		if x.eErr == 1 && x.sErr == 0 {
			hx.St.Inc("row.start-without-end")
		}
	}
	tbt := l.TotalByTopic()
	type tv struct {
		t int
		v int64
	}
	var tvs []tv
	for t, v := range tbt {
		if v.Topic != t {
			b.WriteString(" KEYMISMATCH")
		}
		tvs = append(tvs, tv{tid(t), v.Lag})
	}
	sort.Slice(tvs, func(i, j int) bool { return tvs[i].t < tvs[j].t })
	fmt.Fprintf(&b, " T %d", len(tvs))
	for _, x := range tvs {
		fmt.Fprintf(&b, " %d %d", x.t, x.v)
	}
	fmt.Fprintf(&b, " %d", l.Total())
	hx.St.Inc(fmt.Sprintf("members.%d", min(len(c.members), 5)))
	hx.St.Inc(fmt.Sprintf("rows.%s", bucket(len(rows))))
	if len(c.members) == 0 {
		hx.St.Inc("group.empty")
	}
	if len(c.commit) == 0 {
		hx.St.Inc("commit.nil")
	}
	if len(c.end) == 0 {
		hx.St.Inc("end.nil")
	}
	for _, lt := range c.end {
		for _, e := range lt.ps {
			if e.err == 0 && e.off < 0 {
				hx.St.Inc("excluded.negative-error-free-end-offset")
			}
		}
	}
	return b.String()
}

func bucket(n int) string {
	switch {
	case n == 0:
		return "0"
	case n <= 2:
		return "1-2"
	case n <= 6:
		return "3-6"
	case n <= 12:
		return "7-12"
	}
	return "13+"
}

// ---------------------------------------------------------------- generator

// one partition's situation in the small-scope enumeration
type sit struct{ assigned, commit, start, end int }

func enumCase(sits []sit, joinPrimed bool, startNilAll bool) *cas {
	c := &cas{}
	m := member{ac: true, jc: joinPrimed}
	if joinPrimed {
		m.join = []int{0}
	}
	var asg tparts
	var ct ctopic
	var st, en ltopic
	anyAssigned := false
	for i, s := range sits {
		p := int32(i)
		if s.assigned == 1 {
			asg.ps = append(asg.ps, p)
			anyAssigned = true
		}
		switch s.commit {
		case 1:
			ct.ps = append(ct.ps, centry{p, -1, -1, 0})
		case 2:
			ct.ps = append(ct.ps, centry{p, 3, 1, 0})
		case 3:
			ct.ps = append(ct.ps, centry{p, 20, 1, 0})
		case 4:
			ct.ps = append(ct.ps, centry{p, 3, 1, 2})
		}
		switch s.start {
		case 1:
			st.ps = append(st.ps, lentry{p, 2, 0})
		case 2:
			st.ps = append(st.ps, lentry{p, 30, 0})
		case 3:
			st.ps = append(st.ps, lentry{p, 2, 6})
		}
		switch s.end {
		case 1:
			en.ps = append(en.ps, lentry{p, 10, 0})
		case 2:
			en.ps = append(en.ps, lentry{p, 10, 4})
		case 3:
			en.ps = append(en.ps, lentry{p, -1, 5})
		}
	}
	if anyAssigned {
		m.asg = []tparts{asg}
	}
	if anyAssigned || joinPrimed {
		c.members = []member{m}
	}
	if len(ct.ps) > 0 {
		c.commit = []ctopic{ct}
	}
	if len(en.ps) > 0 {
		c.end = []ltopic{en}
	}
	if startNilAll {
		c.startNil = true
	} else if len(st.ps) > 0 {
		c.start = []ltopic{st}
	}
	return c
}

func genEnum(a hx.Args) {
	var all []sit
	for as := 0; as < 2; as++ {
		for cm := 0; cm < 5; cm++ {
			for st := 0; st < 4; st++ {
				for en := 0; en < 4; en++ {
					all = append(all, sit{as, cm, st, en})
				}
			}
		}
	}
	for _, s := range all {
		for _, jp := range []bool{false, true} {
			hx.Emit("%s", enumCase([]sit{s}, jp, false))
		}
		if s.start == 0 {
			hx.Emit("%s", enumCase([]sit{s}, true, true))
		}
	}
	if a.Tier == "thorough" {
		for _, s1 := range all {
			for _, s2 := range all {
				if s2.end == 3 || s1.end == 3 {
					continue
				}
				hx.Emit("%s", enumCase([]sit{s1, s2}, (s1.assigned+s2.commit)%2 == 0, false))
			}
		}
	}
}

func genRandom(r *hx.Rng) *cas {
	c := &cas{}
	nt := 1 + r.Intn(4)
	nparts := make([]int, nt+1)
	for t := range nparts {
		nparts[t] = 1 + r.Intn(4)
	}
	scale := int64(1)
	if r.Chance(10) {
		scale = 1 << 33
	}
	pid := func(t, i int) int32 {
		if t == 0 && i == 3 {
			return 2147483647
		}
		return int32(i)
	}
	// end offsets first (commits and starts are placed relative to them)
	endOff := map[[2]int]int64{}
	if !r.Chance(6) {
		for t := 0; t <= nt; t++ {
			if r.Chance(12) || (t == nt && r.Chance(60)) {
				continue
			}
			lt := ltopic{t: t}
			np := nparts[t]
			if r.Chance(30) {
				np += 1 + r.Intn(2) // partitions nobody is assigned: only known from the listing
			}
			for i := 0; i < np; i++ {
				if r.Chance(12) {
					continue
				}
				e := lentry{p: pid(t, i)}
				switch {
				case r.Chance(14):
					e.err = 4 + r.Intn(2)
					e.off = hx.Pick(r, []int64{-1, -1, 0, 17})
				case r.Chance(10):
					e.off = 0
				default:
					e.off = r.Range(1, 100) * scale
				}
				if e.err == 0 {
					endOff[[2]int{t, i}] = e.off
				}
				lt.ps = append(lt.ps, e)
			}
			c.end = append(c.end, lt)
		}
	}
	near := func(t, i int) int64 { // an offset around the end offset of (t,i)
		e, ok := endOff[[2]int{t, i}]
		if !ok {
			e = 50 * scale
		}
		switch r.Intn(10) {
		case 0:
			return e
		case 1:
			return e + r.Range(1, 20)*scale // beyond the end
		case 2:
			return 0
		default:
			return r.Range(0, max(e/scale, 1)) * scale
		}
	}
	// members
	nm := 0
	if !r.Chance(15) {
		nm = 1 + r.Intn(4)
	}
	for mi := 0; mi < nm; mi++ {
		m := member{ac: !r.Chance(12), jc: !r.Chance(15)}
		if m.ac {
			for t := 0; t < nt; t++ {
				if !r.Chance(60) {
					continue
				}
				tp := tparts{t: t}
				for i := 0; i < nparts[t]; i++ {
					if r.Chance(60) {
						tp.ps = append(tp.ps, pid(t, i))
					}
				}
				if len(tp.ps) > 0 && r.Chance(5) {
					tp.ps = append(tp.ps, tp.ps[0]) // duplicate inside one assignment
				}
				m.asg = append(m.asg, tp)
			}
			if mi > 0 && r.Chance(25) { // the same partitions assigned to two members
				prev := c.members[r.Intn(mi)]
				if len(prev.asg) > 0 {
					m.asg = append(m.asg, hx.Pick(r, prev.asg))
				}
			}
		}
		if m.jc {
			for _, tp := range m.asg {
				if !r.Chance(10) {
					m.join = append(m.join, tp.t)
				}
			}
			if r.Chance(35) {
				m.join = append(m.join, r.Intn(nt+1))
			}
		}
		c.members = append(c.members, m)
	}
	// commits
	if !r.Chance(10) {
		for t := 0; t <= nt; t++ {
			if !r.Chance(65) {
				continue
			}
			ct := ctopic{t: t}
			for i := 0; i < nparts[t]+1; i++ {
				if !r.Chance(60) {
					continue
				}
				e := centry{p: pid(t, i), ep: int32(r.Range(-1, 3))}
				switch {
				case r.Chance(10):
					e.at = -1
				case r.Chance(4):
					e.at = -2
				default:
					e.at = near(t, i)
				}
				if r.Chance(12) {
					e.err = 2 + r.Intn(2)
					if r.Bool() {
						e.at = -1
					}
				}
				ct.ps = append(ct.ps, e)
			}
			c.commit = append(c.commit, ct)
		}
	}
	// start offsets
	switch {
	case r.Chance(25):
		c.startNil = true
	case r.Chance(5):
	default:
		for t := 0; t <= nt; t++ {
			if r.Chance(15) {
				continue
			}
			lt := ltopic{t: t}
			for i := 0; i < nparts[t]+2; i++ {
				if r.Chance(25) {
					continue
				}
				e := lentry{p: pid(t, i)}
				if r.Chance(15) {
					e.err = 6
					e.off = -1
				} else {
					e.off = near(t, i)
				}
				lt.ps = append(lt.ps, e)
			}
			c.start = append(c.start, lt)
		}
	}
	// the excluded point: an error-free negative end offset
	if r.Chance(2) && len(c.end) > 0 {
		lt := &c.end[r.Intn(len(c.end))]
		if len(lt.ps) > 0 {
			e := &lt.ps[r.Intn(len(lt.ps))]
			e.err = 0
			e.off = hx.Pick(r, []int64{-1, -5})
		}
	}
	return c
}

func gen(a hx.Args) {
	// hx.NewRng(k) is hx.NewRng(1) advanced by k-1 draws, and cases consume a variable number of draws, so
	// consecutive seeds would soon generate the same cases; seed the case stream with a hashed draw instead.
	r := hx.NewRng(hx.NewRng(a.Seed).U64())
	genEnum(a)
	for i := 0; i < a.N(30000, 400000); i++ {
		hx.Emit("%s", genRandom(r))
	}
}

func run() {
	hx.RunLines(20*time.Second, func(t []string) string {
		if t[0] != "lag" {
			return "bad-op"
		}
		return runCase(parse(t))
	})
}

func main() {
	a := hx.Parse()
	switch a.Mode {
	case "gen":
		gen(a)
		hx.Flush()
	case "run":
		run()
	default:
		os.Exit(2)
	}
}
