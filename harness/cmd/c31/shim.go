package main

// Cooperative scheduler and the shim primitives the rewritten source (sut_gen.go) runs on.
//
// Every shim operation is a scheduling point: the calling thread publishes the operation it is about
// to perform and hands control back; the scheduler resumes a thread only when its pending operation is
// enabled; the resumed thread performs the operation and runs on to its next shim operation (or its
// end). Exactly one goroutine runs at a time, so a schedule determines the run.

import (
	"context"
	"fmt"
	"runtime"
	"strings"
)

type opKind int

const (
	opNone opKind = iota
	opRecv
	opSend
	opTry // select with default: always enabled
	opLock
	opUnlock
	opPark
	opWake
)

type pending struct {
	kind opKind
	ch   *Chan
	mu   *GMutex
	t    *thread
}

type thread struct {
	id       int
	resume   chan struct{}
	pend     pending
	done     bool
	notified bool
	ev       strings.Builder
}

type Sched struct {
	ths   []*thread
	cur   *thread
	back  chan struct{}
	abort bool
}

// sched is the scheduler of the run in progress; nil = set-up mode (operations execute directly).
var sched *Sched

func (s *Sched) spawn(body func()) {
	t := &thread{id: len(s.ths), resume: make(chan struct{})}
	s.ths = append(s.ths, t)
	go func() {
		<-t.resume
		defer func() {
			if r := recover(); r != nil {
				t.ev.WriteString(":panic")
			}
			t.done = true
			s.back <- struct{}{}
		}()
		if !s.abort {
			body()
		}
	}()
}

// yield publishes the pending operation and waits to be resumed. It returns false when the run is being
// torn down (the operation must then do nothing: deferred unlocks still run while a goroutine exits).
func (s *Sched) yield(p pending) bool {
	if s.abort {
		return false
	}
	t := s.cur
	p.t = t
	t.pend = p
	s.back <- struct{}{}
	<-t.resume
	if s.abort {
		runtime.Goexit()
	}
	return true
}

func (s *Sched) enabled(t *thread) bool {
	if t.done {
		return false
	}
	switch t.pend.kind {
	case opNone, opTry, opUnlock, opPark:
		return true
	case opRecv:
		return t.pend.ch.n > 0
	case opSend:
		return t.pend.ch.n < t.pend.ch.cap
	case opLock:
		return !t.pend.mu.held
	case opWake:
		return t.notified && !t.pend.mu.held
	}
	return false
}

func (s *Sched) enabledIDs() []int {
	var r []int
	for _, t := range s.ths {
		if s.enabled(t) {
			r = append(r, t.id)
		}
	}
	return r
}

func (s *Sched) allDone() bool {
	for _, t := range s.ths {
		if !t.done {
			return false
		}
	}
	return true
}

// run resumes thread i for one action and returns the events it emitted.
func (s *Sched) run(i int) string {
	t := s.ths[i]
	t.ev.Reset()
	s.cur = t
	t.resume <- struct{}{}
	<-s.back
	s.cur = nil
	return t.ev.String()
}

// kill lets every unfinished goroutine exit (deadlocked or capped runs).
func (s *Sched) kill() {
	s.abort = true
	for _, t := range s.ths {
		if !t.done {
			s.cur = t
			t.resume <- struct{}{}
			<-s.back
		}
	}
}

func emitEv(e string) {
	if sched != nil && sched.cur != nil {
		sched.cur.ev.WriteString(e)
	}
}

// section is the client's own work inside a critical section: one always-enabled action.
func section() { sched.yield(pending{kind: opNone}) }

// ---- channel of struct{} with a buffer

type Chan struct{ n, cap int }

func newChan(c int) *Chan {
	if c < 1 {
		panic("shim: unbuffered channel")
	}
	return &Chan{cap: c}
}

func (c *Chan) Recv() {
	if sched == nil {
		if c.n == 0 {
			panic("shim: blocking receive during set-up")
		}
		c.n--
		return
	}
	if !sched.yield(pending{kind: opRecv, ch: c}) {
		return
	}
	if c.n == 0 {
		panic("shim: receive resumed on empty channel")
	}
	c.n--
}

func (c *Chan) Send() {
	if sched == nil {
		if c.n >= c.cap {
			panic("shim: blocking send during set-up")
		}
		c.n++
		return
	}
	if !sched.yield(pending{kind: opSend, ch: c}) {
		return
	}
	if c.n >= c.cap {
		panic("shim: send resumed on full channel")
	}
	c.n++
}

func (c *Chan) TryRecv() bool {
	if sched != nil && !sched.yield(pending{kind: opTry, ch: c}) {
		return false
	}
	if c.n > 0 {
		c.n--
		return true
	}
	return false
}

func (c *Chan) TrySend() bool {
	if sched != nil && !sched.yield(pending{kind: opTry, ch: c}) {
		return false
	}
	if c.n < c.cap {
		c.n++
		return true
	}
	return false
}

// ---- the mutex and condition variable of the gate (xsync.Mutex / sync.Cond in consumer.go)

type GMutex struct{ held bool }

func (m *GMutex) Lock() {
	if !sched.yield(pending{kind: opLock, mu: m}) {
		return
	}
	if m.held {
		panic("shim: lock resumed on held mutex")
	}
	m.held = true
}

func (m *GMutex) Unlock() {
	if !sched.yield(pending{kind: opUnlock, mu: m}) {
		return
	}
	if !m.held {
		panic("sync: unlock of unlocked mutex")
	}
	m.held = false
}

func (m *GMutex) TryLock() bool {
	if !sched.yield(pending{kind: opTry}) {
		return false
	}
	if m.held {
		return false
	}
	m.held = true
	return true
}

type GCond struct {
	L       *GMutex
	waiters []*thread
}

func newGCond(l *GMutex) *GCond { return &GCond{L: l} }

func (c *GCond) Wait() {
	if !sched.yield(pending{kind: opPark, mu: c.L}) {
		return
	}
	t := sched.cur
	if !c.L.held {
		panic("sync: unlock of unlocked mutex")
	}
	c.L.held = false
	t.notified = false
	c.waiters = append(c.waiters, t)
	if !sched.yield(pending{kind: opWake, mu: c.L}) {
		return
	}
	c.L.held = true
}

// Broadcast and Signal are not scheduling points: in the gate they run with the mutex held.
func (c *GCond) Broadcast() {
	for _, t := range c.waiters {
		t.notified = true
	}
	c.waiters = nil
}

func (c *GCond) Signal() {
	if len(c.waiters) > 0 {
		c.waiters[0].notified = true
		c.waiters = c.waiters[1:]
	}
}

// ---- the part of Client / cfg the gate functions read

type Client struct {
	cfg cfg
	ctx context.Context
}

type cfg struct {
	blockRebalanceOnPoll bool
	onBlocked            func(context.Context, *Client)
}

func newGate() *consumer {
	c := &consumer{cl: &Client{ctx: context.Background()}}
	c.cl.cfg.blockRebalanceOnPoll = true
	c.cl.cfg.onBlocked = func(context.Context, *Client) { emitEv(":blocked") }
	c.pollWaitC = newGCond(&c.pollWaitMu)
	return c
}

func gateState(c *consumer) string {
	mu := 0
	if c.pollWaitMu.held {
		mu = 1
	}
	return fmt.Sprintf("%d.%d.%d", c.pollWaitState&0xffffffff, c.pollWaitState>>32, mu)
}
