package main

// Generator: (thread programs, schedule) cases.
//
//   - small scopes: for a list of small configurations every maximal schedule is enumerated by stateless
//     exploration of the implementation itself (odometer over the branching factors observed in the run);
//     when a configuration has more schedules than the budget, the budget is spent on random schedules;
//   - random: programs drawn from weighted pools (mostly contract-abiding, some unbalanced) with long random schedules.

import (
	"fmt"
	"strings"

	"verifharness/hx"
)

// explore enumerates every maximal schedule of the configuration (at most budget); it returns false if the
// budget was exhausted before the enumeration finished.
func explore(kind string, progs []string, budget int, emit func(sched []int)) bool {
	var cur []int
	for n := 0; n < budget; n++ {
		_, branch := runCase(kind, progs, cur)
		full := make([]int, len(branch))
		copy(full, cur)
		emit(full)
		// next schedule: increment the last position that still has an untried alternative
		k := len(branch) - 1
		for k >= 0 && full[k]+1 >= branch[k] {
			k--
		}
		if k < 0 {
			return true
		}
		cur = append(full[:k:k], full[k]+1)
	}
	return false
}

func randSched(r *hx.Rng, n int) []int {
	s := make([]int, n)
	for i := range s {
		// bias towards 0/1 so that runs of one thread and alternations both occur
		switch r.Intn(4) {
		case 0:
			s[i] = 0
		case 1:
			s[i] = 1
		default:
			s[i] = r.Intn(10)
		}
	}
	return s
}

func randProg(r *hx.Rng, pool []string, weights []int, maxOps int) string {
	n := 1 + r.Intn(maxOps)
	tot := 0
	for _, w := range weights {
		tot += w
	}
	var b strings.Builder
	for i := 0; i < n; i++ {
		x := r.Intn(tot)
		for j, w := range weights {
			if x < w {
				b.WriteString(pool[j])
				break
			}
			x -= w
		}
	}
	return b.String()
}

// gate programs: pollers end with A (the documented loop poll, process, AllowRebalance), rebalancers only rebalance.
func randGateProgs(r *hx.Rng) []string {
	n := 2 + r.Intn(3)
	progs := make([]string, n)
	hasR := false
	for i := range progs {
		switch {
		case r.Chance(35) || (i == n-1 && !hasR):
			progs[i] = strings.Repeat("R", 1+r.Intn(2))
			hasR = true
		case r.Chance(8): // contract breakers: poll without a final allow / poller that also rebalances
			progs[i] = randProg(r, []string{"P", "Q", "A", "R"}, []int{3, 2, 1, 1}, 3)
		default:
			progs[i] = randProg(r, []string{"P", "Q", "A", "PA", "QA"}, []int{3, 3, 1, 3, 1}, 3) + "A"
		}
	}
	return progs
}

func randMxProgs(r *hx.Rng) []string {
	n := 2 + r.Intn(3)
	progs := make([]string, n)
	for i := range progs {
		if r.Chance(7) {
			progs[i] = randProg(r, []string{"L", "T", "U"}, []int{2, 2, 2}, 3)
		} else {
			progs[i] = randProg(r, []string{"L", "T"}, []int{3, 2}, 3)
		}
	}
	return progs
}

func randRwProgs(r *hx.Rng) []string {
	n := 2 + r.Intn(3)
	progs := make([]string, n)
	for i := range progs {
		if r.Chance(7) {
			progs[i] = randProg(r, []string{"R", "W", "r", "w", "u", "U"}, []int{2, 2, 1, 1, 2, 2}, 3)
		} else {
			progs[i] = randProg(r, []string{"R", "W", "r", "w"}, []int{4, 3, 2, 2}, 3)
		}
	}
	return progs
}

var gateSmall = [][]string{
	{"PA", "R"}, {"QA", "R"}, {"PPA", "R"}, {"PA", "PA", "R"}, {"Q", "A", "R"}, {"Q", "AP", "R"}, {"Q", "APA", "R"},
	{"PA", "R", "R"}, {"PAQ", "RR"}, {"QA", "PA", "R"}, {"P", "R"}, {"PR", "A"}, {"PAPA", "R"}, {"QQA", "PA", "RR"},
}
var mxSmall = [][]string{
	{"L", "L"}, {"L", "T"}, {"T", "T"}, {"LL", "LT"}, {"L", "L", "L"}, {"L", "T", "T"}, {"LT", "TL", "L"}, {"L", "U"}, {"U", "T"}, {"LLL", "TTT"},
}
var rwSmall = [][]string{
	{"R", "W"}, {"R", "R"}, {"W", "W"}, {"R", "w"}, {"r", "W"}, {"r", "w"}, {"RR", "W"}, {"R", "WW"}, {"RW", "WR"},
	{"R", "R", "W"}, {"R", "W", "W"}, {"R", "W", "r"}, {"R", "W", "w"}, {"R", "u"}, {"W", "U"}, {"u", "W"}, {"rw", "Rw"},
}

func gen(a hx.Args) {
	r := hx.NewRng(a.Seed)
	thorough := a.Tier == "thorough"
	budget := 400
	nrand := a.N(700, 12000)
	if thorough {
		budget = 40000
	}
	line := func(kind string, progs []string, s []int) {
		ps := make([]string, len(progs))
		for i, p := range progs {
			if p == "" {
				p = "-"
			}
			ps[i] = p
		}
		hx.Emit("%s %s %s", kind, strings.Join(ps, ";"), schedStr(s))
	}
	small := func(kind string, cfgs [][]string) {
		for _, progs := range cfgs {
			n := 0
			complete := explore(kind, progs, budget, func(s []int) { line(kind, progs, s); n++ })
			if !complete { // too many schedules: spend as much again on random ones
				for i := 0; i < budget; i++ {
					line(kind, progs, randSched(r, 60))
				}
			}
			hx.Emit("# %s %s exhaustive=%v schedules=%d", kind, strings.Join(progs, ";"), complete, n)
		}
	}
	small("gate", gateSmall)
	small("mx", mxSmall)
	small("rw", rwSmall)
	if thorough { // all pairs of one/two-op programs
		var g2, m2, r2 [][]string
		gp := []string{"P", "Q", "A", "PA", "QA", "AP", "PP", "R", "RR"}
		for _, x := range gp {
			for _, y := range gp {
				g2 = append(g2, []string{x, y, "R"})
			}
		}
		mp := []string{"L", "T", "LL", "LT", "TL", "TT"}
		for _, x := range mp {
			for _, y := range mp {
				m2 = append(m2, []string{x, y})
			}
		}
		rp := []string{"R", "W", "r", "w", "RW", "WR", "Rw", "rW", "RR", "WW"}
		for _, x := range rp {
			for _, y := range rp {
				r2 = append(r2, []string{x, y})
			}
		}
		budget = 6000
		small("gate", g2)
		small("mx", m2)
		small("rw", r2)
	}
	for i := 0; i < nrand; i++ {
		switch i % 3 {
		case 0:
			line("gate", randGateProgs(r), randSched(r, 20+r.Intn(60)))
		case 1:
			line("mx", randMxProgs(r), randSched(r, 10+r.Intn(40)))
		default:
			line("rw", randRwProgs(r), randSched(r, 20+r.Intn(80)))
		}
	}
	_ = fmt.Sprint
}
