// Harness C31: the poll/rebalance gate of consumer.go and the channel Mutex / RWMutex of
// synctest_mutex.go, copied from the current tree by ./rewrite into sut_gen.go and run on a cooperative
// scheduler (shim.go), so that a schedule string determines the interleaving.
//
//	op line   <kind> <programs> <schedule>          kind: gate | mx | rw
//	          programs: one word per thread separated by ';' ('-' = empty program)
//	            gate  P poll that keeps records   Q poll that finds nothing (add … unadd)   A AllowRebalance
//	                  R rebalance (waitAndAddRebalance … unaddRebalance)
//	            mx    L Lock…Unlock   T TryLock(+Unlock)   U bare Unlock
//	            rw    R RLock…RUnlock  W Lock…Unlock  r TryRLock(+RUnlock)  w TryLock(+Unlock)  u bare RUnlock  U bare Unlock
//	          schedule: digits; digit d picks the (d mod n)-th of the n enabled threads; afterwards 0 ('-' = empty)
//	output    one token `tid[:event]/state` per action, then done | deadlock | cap
package main

import (
	"fmt"
	"os"
	"strings"
	"time"

	"verifharness/hx"
)

const stepCap = 4000

type runner struct {
	kind  string
	state func() string
	body  func(prog string) func()
}

func newRunner(kind string) *runner {
	switch kind {
	case "gate":
		c := newGate()
		return &runner{kind: kind, state: func() string { return gateState(c) }, body: func(prog string) func() {
			return func() {
				for _, o := range prog {
					switch o {
					case 'P':
						c.waitAndAddPoller()
						emitEv(":padd")
					case 'Q':
						c.waitAndAddPoller()
						emitEv(":padd")
						c.unaddPoller()
						emitEv(":unadd")
					case 'A':
						c.allowRebalance()
						emitEv(":allow")
					case 'R':
						c.waitAndAddRebalance()
						emitEv(":enter")
						c.unaddRebalance()
						emitEv(":exit")
					default:
						panic("bad op")
					}
				}
			}
		}}
	case "mx":
		m := &Mutex{}
		m.init()
		return &runner{kind: kind, state: func() string { return fmt.Sprint(m.ch.n) }, body: func(prog string) func() {
			return func() {
				for _, o := range prog {
					switch o {
					case 'L':
						m.Lock()
						emitEv(":in")
						m.Unlock()
						emitEv(":out")
					case 'T':
						if m.TryLock() {
							emitEv(":t1")
							m.Unlock()
							emitEv(":out")
						} else {
							emitEv(":t0")
						}
					case 'U':
						m.Unlock()
						emitEv(":out")
					default:
						panic("bad op")
					}
				}
			}
		}}
	case "rw":
		rw := &RWMutex{}
		rw.init()
		return &runner{kind: kind, state: func() string {
			return fmt.Sprintf("%d.%d.%d.%d", rw.gate.n, rw.mu.ch.n, rw.readerCount, rw.writerSignal.n)
		}, body: func(prog string) func() {
			return func() {
				for _, o := range prog {
					switch o {
					case 'R':
						rw.RLock()
						emitEv(":rin")
						section()
						emitEv(":rout")
						rw.RUnlock()
					case 'W':
						rw.Lock()
						emitEv(":win")
						rw.Unlock()
						emitEv(":wout")
					case 'r':
						if rw.TryRLock() {
							emitEv(":tr1")
							section()
							emitEv(":rout")
							rw.RUnlock()
						} else {
							emitEv(":tr0")
						}
					case 'w':
						if rw.TryLock() {
							emitEv(":tw1")
							rw.Unlock()
							emitEv(":wout")
						} else {
							emitEv(":tw0")
						}
					case 'u':
						rw.RUnlock()
					case 'U':
						rw.Unlock()
						emitEv(":wout")
					default:
						panic("bad op")
					}
				}
			}
		}}
	}
	panic("bad kind " + kind)
}

// runCase executes one (programs, schedule) and returns the trace and the number of enabled threads at each step.
func runCase(kind string, progs []string, schedule []int) (string, []int) {
	sched = nil
	r := newRunner(kind) // set-up mode: init() runs directly
	s := &Sched{back: make(chan struct{})}
	sched = s
	for _, p := range progs {
		if p == "-" {
			p = ""
		}
		s.spawn(r.body(p))
	}
	for i := range s.ths { // every thread runs up to its first synchronisation operation
		s.run(i)
	}
	var out []string
	var branch []int
	end := "cap"
	for step := 0; step < stepCap; step++ {
		en := s.enabledIDs()
		if len(en) == 0 {
			if s.allDone() {
				end = "done"
			} else {
				end = "deadlock"
			}
			break
		}
		c := 0
		if step < len(schedule) {
			c = schedule[step]
		}
		branch = append(branch, len(en))
		i := en[c%len(en)]
		ev := s.run(i)
		out = append(out, fmt.Sprintf("%d%s/%s", i, ev, r.state()))
	}
	s.kill()
	sched = nil
	out = append(out, end)
	return strings.Join(out, " "), branch
}

func parseSched(w string) []int {
	if w == "-" {
		return nil
	}
	r := make([]int, len(w))
	for i, c := range w {
		if c < '0' || c > '9' {
			panic("bad schedule " + w)
		}
		r[i] = int(c - '0')
	}
	return r
}

func schedStr(s []int) string {
	if len(s) == 0 {
		return "-"
	}
	var b strings.Builder
	for _, c := range s {
		b.WriteByte(byte('0' + c))
	}
	return b.String()
}

func main() {
	a := hx.Parse()
	switch a.Mode {
	case "gen":
		gen(a)
		hx.Flush()
	case "run":
		hx.RunLines(20*time.Second, func(t []string) string {
			if len(t) != 3 {
				return "bad-op"
			}
			progs := strings.Split(t[1], ";")
			res, branch := runCase(t[0], progs, parseSched(t[2]))
			hx.St.Inc("kind_" + t[0])
			hx.St.Inc(fmt.Sprintf("threads_%d", len(progs)))
			hx.St.Inc("end_" + res[strings.LastIndexByte(res, ' ')+1:])
			steps := len(branch)
			hx.St.Inc(fmt.Sprintf("steps_%02d-%02d", steps/10*10, steps/10*10+9))
			mb := 0
			for _, b := range branch {
				if b > mb {
					mb = b
				}
			}
			hx.St.Inc(fmt.Sprintf("max_enabled_%d", mb))
			for _, ev := range []string{":blocked", ":panic", ":t0", ":tr0", ":tw0", ":tw1", ":tr1"} {
				if strings.Contains(res, ev+"/") {
					hx.St.Inc("runs_with" + strings.ReplaceAll(ev, ":", "_"))
				}
			}
			return res
		})
	default:
		fmt.Fprintln(os.Stderr, "usage: gen|run")
		os.Exit(2)
	}
}
