// rewrite: copies the CURRENT source of the code under verification for C31 into one Go file of package
// main (harness/cmd/c31/sut_gen.go), with every synchronisation primitive replaced by a shim that is a
// scheduling point of the cooperative scheduler in shim.go:
//
//	synctest_mutex.go  chan struct{} -> *Chan, make(chan T, n) -> newChan(n), `<-c` -> c.Recv(),
//	                   `c <- v` -> c.Send(), `select { case <-c / c <- v: A; default: B }` -> if c.TryRecv()/TrySend() {A} else {B}
//	consumer.go        the gate functions of *consumer and the three pollWait* fields; xsync.Mutex -> GMutex,
//	                   *sync.Cond -> *GCond, `go f(x)` -> `f(x)`
//
// Anything the rewriter does not understand (another select shape, a receive used as a value, an
// unbuffered channel, a missing function) is an error: the translator refuses rather than guesses.
//
// usage: rewrite <repo>  (prints the generated file on stdout)
package main

import (
	"bytes"
	"fmt"
	"go/ast"
	"go/format"
	"go/parser"
	"go/printer"
	"go/token"
	"os"
	"path/filepath"
	"strings"
)

var gateFuncs = []string{"waitAndAddPoller", "unaddPoller", "allowRebalance", "waitAndAddRebalance",
	"waitAndAddRebalanceSilent", "waitAndAddRebalanceMaybeSignal", "unaddRebalance"}
var gateFields = []string{"pollWaitMu", "pollWaitC", "pollWaitState"}

func die(format string, a ...any) {
	fmt.Fprintf(os.Stderr, "rewrite: "+format+"\n", a...)
	os.Exit(1)
}

func call(x ast.Expr, method string) *ast.CallExpr {
	return &ast.CallExpr{Fun: &ast.SelectorExpr{X: x, Sel: ast.NewIdent(method)}}
}

func isSel(e ast.Expr, pkg, name string) bool {
	s, ok := e.(*ast.SelectorExpr)
	if !ok {
		return false
	}
	id, ok := s.X.(*ast.Ident)
	return ok && id.Name == pkg && s.Sel.Name == name
}

// rewriteExpr replaces channel types / make / xsync.Mutex / sync.Cond inside expressions and types.
func rewriteExpr(e ast.Expr) ast.Expr {
	switch v := e.(type) {
	case *ast.ChanType:
		return &ast.StarExpr{X: ast.NewIdent("Chan")}
	case *ast.CallExpr:
		if id, ok := v.Fun.(*ast.Ident); ok && id.Name == "make" && len(v.Args) >= 1 {
			if _, ok := v.Args[0].(*ast.ChanType); ok {
				if len(v.Args) != 2 {
					die("unbuffered channel (make without capacity): not supported")
				}
				return &ast.CallExpr{Fun: ast.NewIdent("newChan"), Args: []ast.Expr{v.Args[1]}}
			}
		}
	case *ast.UnaryExpr:
		if v.Op == token.ARROW {
			die("channel receive used as a value: not supported")
		}
	case *ast.SelectorExpr:
		if isSel(v, "xsync", "Mutex") {
			return ast.NewIdent("GMutex")
		}
		if isSel(v, "sync", "Cond") {
			return ast.NewIdent("GCond")
		}
	}
	return e
}

func commOf(s ast.Stmt) (ast.Expr, string, bool) {
	switch c := s.(type) {
	case *ast.ExprStmt:
		if u, ok := c.X.(*ast.UnaryExpr); ok && u.Op == token.ARROW {
			return u.X, "Recv", true
		}
	case *ast.SendStmt:
		return c.Chan, "Send", true
	}
	return nil, "", false
}

func rewriteStmt(s ast.Stmt) ast.Stmt {
	switch v := s.(type) {
	case *ast.ExprStmt:
		if x, m, ok := commOf(v); ok {
			return &ast.ExprStmt{X: call(x, m)}
		}
	case *ast.SendStmt:
		x, m, _ := commOf(v)
		return &ast.ExprStmt{X: call(x, m)}
	case *ast.GoStmt:
		return &ast.ExprStmt{X: v.Call}
	case *ast.SelectStmt:
		if len(v.Body.List) != 2 {
			die("select with %d clauses: only `case comm: … default: …` is supported", len(v.Body.List))
		}
		var comm, def *ast.CommClause
		for _, c := range v.Body.List {
			cc := c.(*ast.CommClause)
			if cc.Comm == nil {
				def = cc
			} else {
				comm = cc
			}
		}
		if comm == nil || def == nil {
			die("select without default (blocking select): not supported")
		}
		x, m, ok := commOf(comm.Comm)
		if !ok {
			die("select case is neither `<-c` nor `c <- v`")
		}
		ifs := &ast.IfStmt{Cond: call(x, "Try"+m), Body: &ast.BlockStmt{List: comm.Body}}
		if len(def.Body) > 0 {
			ifs.Else = &ast.BlockStmt{List: def.Body}
		}
		return ifs
	}
	return s
}

// walk applies the statement and expression rewrites bottom-up over a declaration.
func walk(n ast.Node) {
	ast.Inspect(n, func(n ast.Node) bool {
		switch v := n.(type) {
		case *ast.BlockStmt:
			for i, s := range v.List {
				v.List[i] = rewriteStmt(s)
			}
		case *ast.CaseClause:
			for i, s := range v.Body {
				v.Body[i] = rewriteStmt(s)
			}
		case *ast.Field:
			v.Type = rewriteType(v.Type)
		case *ast.AssignStmt:
			for i, e := range v.Rhs {
				v.Rhs[i] = rewriteExpr(e)
			}
		case *ast.ValueSpec:
			if v.Type != nil {
				v.Type = rewriteType(v.Type)
			}
			for i, e := range v.Values {
				v.Values[i] = rewriteExpr(e)
			}
		case *ast.ReturnStmt:
			for i, e := range v.Results {
				v.Results[i] = rewriteExpr(e)
			}
		}
		return true
	})
}

func rewriteType(t ast.Expr) ast.Expr {
	if st, ok := t.(*ast.StarExpr); ok {
		st.X = rewriteExpr(st.X)
		return st
	}
	return rewriteExpr(t)
}

func parse(path string) (*token.FileSet, *ast.File) {
	fset := token.NewFileSet()
	f, err := parser.ParseFile(fset, path, nil, 0) // comments dropped
	if err != nil {
		die("%v", err)
	}
	return fset, f
}

func emit(out *bytes.Buffer, fset *token.FileSet, d ast.Decl) {
	if err := printer.Fprint(out, fset, d); err != nil {
		die("%v", err)
	}
	out.WriteString("\n\n")
}

func recvName(fd *ast.FuncDecl) string {
	if fd.Recv == nil || len(fd.Recv.List) != 1 {
		return ""
	}
	t := fd.Recv.List[0].Type
	if s, ok := t.(*ast.StarExpr); ok {
		t = s.X
	}
	if id, ok := t.(*ast.Ident); ok {
		return id.Name
	}
	return ""
}

func main() {
	if len(os.Args) != 2 {
		die("usage: rewrite <repo>")
	}
	repo := os.Args[1]
	var out bytes.Buffer
	out.WriteString("// Code generated by harness/cmd/c31/rewrite from " +
		"pkg/kgo/internal/xsync/synctest_mutex.go and pkg/kgo/consumer.go; DO NOT EDIT.\n\npackage main\n\n")
	out.WriteString("import (\n\t\"math\"\n\t\"sync\"\n)\n\nvar _ = math.MaxUint32\nvar _ sync.Locker\n\n")

	// ---- synctest_mutex.go: everything except the imports
	fset, f := parse(filepath.Join(repo, "pkg/kgo/internal/xsync/synctest_mutex.go"))
	for _, imp := range f.Imports {
		if p := strings.Trim(imp.Path.Value, `"`); p != "sync" {
			die("synctest_mutex.go imports %s: not supported", p)
		}
	}
	n := 0
	for _, d := range f.Decls {
		if g, ok := d.(*ast.GenDecl); ok && g.Tok == token.IMPORT {
			continue
		}
		walk(d)
		emit(&out, fset, d)
		n++
	}
	if n == 0 {
		die("no declarations in synctest_mutex.go")
	}

	// ---- consumer.go: the gate fields and functions
	fset, f = parse(filepath.Join(repo, "pkg/kgo/consumer.go"))
	fields := map[string]*ast.Field{}
	funcs := map[string]*ast.FuncDecl{}
	for _, d := range f.Decls {
		switch v := d.(type) {
		case *ast.GenDecl:
			for _, sp := range v.Specs {
				ts, ok := sp.(*ast.TypeSpec)
				if !ok || ts.Name.Name != "consumer" {
					continue
				}
				st, ok := ts.Type.(*ast.StructType)
				if !ok {
					die("type consumer is not a struct")
				}
				for _, fl := range st.Fields.List {
					for _, nm := range fl.Names {
						fields[nm.Name] = &ast.Field{Names: []*ast.Ident{ast.NewIdent(nm.Name)}, Type: fl.Type}
					}
				}
			}
		case *ast.FuncDecl:
			if recvName(v) == "consumer" {
				funcs[v.Name.Name] = v
			}
		}
	}
	st := &ast.StructType{Fields: &ast.FieldList{}}
	st.Fields.List = append(st.Fields.List, &ast.Field{Names: []*ast.Ident{ast.NewIdent("cl")}, Type: &ast.StarExpr{X: ast.NewIdent("Client")}})
	for _, nm := range gateFields {
		fl, ok := fields[nm]
		if !ok {
			die("consumer has no field %s", nm)
		}
		st.Fields.List = append(st.Fields.List, fl)
	}
	td := &ast.GenDecl{Tok: token.TYPE, Specs: []ast.Spec{&ast.TypeSpec{Name: ast.NewIdent("consumer"), Type: st}}}
	walk(td)
	emit(&out, token.NewFileSet(), td)
	for _, nm := range gateFuncs {
		fd, ok := funcs[nm]
		if !ok {
			die("consumer has no method %s", nm)
		}
		walk(fd)
		emit(&out, fset, fd)
	}
	src, err := format.Source(out.Bytes())
	if err != nil {
		die("generated file does not parse: %v\n%s", err, out.String())
	}
	os.Stdout.Write(src)
}
