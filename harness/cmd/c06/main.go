// C06 harness: kgo.ProcessFetchPartition of this tree on generated partition responses.
//
//	op:   pfp <req> <rc> <keepctl> <crcoff> <kerr> <aborted> <bytes> <dectable> <descr>
//	impl: <next> <err-class> <n> <rec>…   |  panic:… | hang
//
// `gen` builds logs with kmsg's encoders and the real compressors of this tree (kgo.DefaultCompressor), and
// records the graph of the real kgo.DefaultDecompressor on every payload the parser hands to it (a dry run
// under the same guard) so that the Lean model's codec parameter is a table lookup.
package main

import (
	"bytes"
	"encoding/binary"
	"fmt"
	"hash/crc32"
	"os"
	"strings"
	"time"

	"github.com/twmb/franz-go/pkg/kgo"
	"github.com/twmb/franz-go/pkg/kmsg"
	"verifharness/hx"
)

var crc32c = crc32.MakeTable(crc32.Castagnoli)

// ---------------------------------------------------------------- ground truth (what the generator wrote)

type lrec struct {
	off   int64
	ts    int64
	hasTs bool
	key   []byte
	val   []byte
	hdrs  []kmsg.Header
}

type lbatch struct {
	first, last int64
	pid         int64
	pepoch      int16
	lepoch      int32
	attrs       uint8
	recs        []lrec
	present     int
	raw         []byte // the frame as written
	noTruth     bool   // the frame deliberately departs from the log format: the case carries no ground truth
}

func hexKey(s string) string {
	if len(s) == 0 {
		return "."
	}
	return hx.Hex([]byte(s))
}

func (b *lbatch) descr() string {
	var rs []string
	for _, r := range b.recs {
		ts := "z"
		if r.hasTs {
			ts = hx.Itoa(r.ts)
		}
		var hp []string
		for _, x := range r.hdrs {
			hp = append(hp, hexKey(x.Key)+"="+hx.Hex(x.Value))
		}
		hs := "n"
		if len(hp) > 0 {
			hs = strings.Join(hp, "~")
		}
		rs = append(rs, fmt.Sprintf("%d_%s_%s_%s_%s", r.off, ts, hx.Hex(r.key), hx.Hex(r.val), hs))
	}
	rstr := "e"
	if len(rs) > 0 {
		rstr = strings.Join(rs, "+")
	}
	return fmt.Sprintf("%d,%d,%d,%d,%d,%d,%d,%s", b.first, b.last, b.pid, b.pepoch, b.lepoch, b.attrs, b.present, rstr)
}

// ---------------------------------------------------------------- encoders

func compress(codec int, src []byte) []byte {
	if codec == 0 {
		return src
	}
	var cc kgo.CompressionCodec
	switch codec {
	case 1:
		cc = kgo.GzipCompression()
	case 2:
		cc = kgo.SnappyCompression()
	case 3:
		cc = kgo.Lz4Compression()
	default:
		cc = kgo.ZstdCompression()
	}
	c, err := kgo.DefaultCompressor(cc)
	if err != nil || c == nil {
		panic("no compressor")
	}
	out, used := c.Compress(new(bytes.Buffer), src)
	if int(used) != codec {
		panic("compressor declined")
	}
	return append([]byte(nil), out...)
}

type krec struct {
	offDelta int32
	tsDelta  int64
	key, val []byte
	hdrs     []kmsg.Header
}

func encRecord(k krec) []byte {
	r := kmsg.Record{TimestampDelta64: k.tsDelta, OffsetDelta: k.offDelta, Key: k.key, Value: k.val, Headers: k.hdrs}
	if k.tsDelta == 0 {
		r.TimestampDelta = 0
	}
	b := r.AppendTo(nil) // varint(0) + body
	r.Length = int32(len(b) - 1)
	return r.AppendTo(nil)
}

type v2spec struct {
	first           int64
	lastDelta       int32
	attrs           int16 // without codec bits
	codec           int
	pid             int64
	pepoch          int16
	lepoch          int32
	firstTs, maxTs  int64
	recs            []krec
	claim           int32
	payloadOverride []byte // raw (uncompressed) record bytes instead of recs
	magic           int8
}

func encV2(s v2spec) []byte {
	var payload []byte
	for _, k := range s.recs {
		payload = append(payload, encRecord(k)...)
	}
	if s.payloadOverride != nil {
		payload = s.payloadOverride
	}
	payload = compress(s.codec, payload)
	magic := s.magic
	if magic == 0 {
		magic = 2
	}
	b := kmsg.RecordBatch{FirstOffset: s.first, PartitionLeaderEpoch: s.lepoch, Magic: magic, Attributes: s.attrs | int16(s.codec),
		LastOffsetDelta: s.lastDelta, FirstTimestamp: s.firstTs, MaxTimestamp: s.maxTs, ProducerID: s.pid, ProducerEpoch: s.pepoch,
		FirstSequence: 0, NumRecords: s.claim, Records: payload}
	b.Length = int32(49 + len(payload))
	raw := b.AppendTo(nil)
	binary.BigEndian.PutUint32(raw[17:], crc32.Checksum(raw[21:], crc32c))
	return raw
}

func encMsg(v1 bool, offset int64, attrs int8, ts int64, key, val []byte) []byte {
	var raw []byte
	if v1 {
		m := kmsg.MessageV1{Offset: offset, Magic: 1, Attributes: attrs, Timestamp: ts, Key: key, Value: val}
		raw = m.AppendTo(nil)
	} else {
		m := kmsg.MessageV0{Offset: offset, Magic: 0, Attributes: attrs, Key: key, Value: val}
		raw = m.AppendTo(nil)
	}
	binary.BigEndian.PutUint32(raw[8:], uint32(len(raw)-12))
	binary.BigEndian.PutUint32(raw[12:], crc32.ChecksumIEEE(raw[16:]))
	return raw
}

// refix recomputes length-consistent CRCs of every frame it can walk (after a mutation)
func refix(raw []byte) {
	in := raw
	for len(in) > 17 {
		l := int(int32(binary.BigEndian.Uint32(in[8:]))) + 12
		if l < 22 || l > len(in) {
			return
		}
		switch in[16] {
		case 0, 1:
			binary.BigEndian.PutUint32(in[12:], crc32.ChecksumIEEE(in[16:l]))
		case 2:
			binary.BigEndian.PutUint32(in[17:], crc32.Checksum(in[21:l], crc32c))
		default:
			return
		}
		in = in[l:]
	}
}

// ---------------------------------------------------------------- running the implementation

type recDec struct {
	inner kgo.Decompressor
	seen  map[string]bool
	table []string
}

func (d *recDec) Decompress(src []byte, c kgo.CompressionCodecType) ([]byte, error) {
	out, err := d.inner.Decompress(src, c)
	k := fmt.Sprintf("%d:%s", int(c), hx.Hex(append([]byte{}, src...)))
	if !d.seen[k] {
		d.seen[k] = true
		if err != nil {
			d.table = append(d.table, k+":!")
		} else {
			d.table = append(d.table, k+":"+hx.Hex(append([]byte{}, out...)))
		}
	}
	return out, err
}

type acase struct {
	req               int64
	rc, keep, crcoff  bool
	kerr              bool
	aborted           [][2]int64
	raw               []byte
	descr             string
}

func errClass(err error) string {
	if err == nil {
		return "none"
	}
	s := err.Error()
	for _, p := range [][2]string{
		{"unknown magic", "unknown-magic"}, {"unable to read", "short"}, {"encoded length", "len-mismatch"},
		{"length ", "crc-short"}, {"encoded crc", "crc"}, {"unable to decompress", "decompress"},
		{"unknown batch magic", "batch-magic"}, {"invalid record batch: negative", "neg-count"},
		{"invalid record batch:", "claim-nobytes"}, {"unknown message magic", "msg-magic"},
		{"unknown attributes", "msg-attrs"}, {"message set v1 has inner", "inner-magic"},
		{"invalid compressed message set", "wrapper-offset"},
	} {
		if strings.HasPrefix(s, p[0]) {
			return p[1]
		}
	}
	return "kerr"
}

func runImpl(c acase, d kgo.Decompressor) string {
	rp := &kmsg.FetchResponseTopicPartition{Partition: 3, RecordBatches: append([]byte{}, c.raw...)}
	if c.raw == nil {
		rp.RecordBatches = nil
	}
	if c.kerr {
		rp.ErrorCode = 3
	}
	for _, a := range c.aborted {
		rp.AbortedTransactions = append(rp.AbortedTransactions, kmsg.FetchResponseTopicPartitionAbortedTransaction{ProducerID: a[0], FirstOffset: a[1]})
	}
	o := kgo.ProcessFetchPartitionOpts{KeepControlRecords: c.keep, DisableCRCValidation: c.crcoff, Offset: c.req, Topic: "t", Partition: 3}
	if c.rc {
		o.IsolationLevel = kgo.ReadCommitted()
	}
	fp, next := kgo.ProcessFetchPartition(o, rp, d, nil)
	var sb strings.Builder
	fmt.Fprintf(&sb, "%d %s %d", next, errClass(fp.Err), len(fp.Records))
	for _, r := range fp.Records {
		ts := "z"
		if !r.Timestamp.IsZero() {
			ts = hx.Itoa(r.Timestamp.UnixNano())
		}
		var hp []string
		for _, h := range r.Headers {
			hp = append(hp, hexKey(h.Key)+"="+hx.Hex(h.Value))
		}
		hs := "n"
		if len(hp) > 0 {
			hs = strings.Join(hp, "~")
		}
		fmt.Fprintf(&sb, " %d_%s_%s_%s_%s_%d.%d.%s.%s_%d_%d_%d", r.Offset, ts, hx.Hex(r.Key), hx.Hex(r.Value), hs,
			r.Attrs.TimestampType(), r.Attrs.CompressionType(), hx.B(r.Attrs.IsTransactional()), hx.B(r.Attrs.IsControl()),
			r.ProducerID, r.ProducerEpoch, r.LeaderEpoch)
		if r.Topic != "t" || r.Partition != 3 {
			sb.WriteString("!topic")
		}
	}
	return sb.String()
}

func (c acase) emit() {
	// dry run: the graph of the real decompressor on this input
	d := &recDec{inner: kgo.DefaultDecompressor(), seen: map[string]bool{}}
	hx.Guard(5*time.Second, func() string { return runImpl(c, d) })
	table := "-"
	if len(d.table) > 0 {
		table = strings.Join(d.table, ",")
	}
	ab := "-"
	if len(c.aborted) > 0 {
		var p []string
		for _, a := range c.aborted {
			p = append(p, fmt.Sprintf("%d:%d", a[0], a[1]))
		}
		ab = strings.Join(p, ",")
	}
	rawHex := "."
	if len(c.raw) > 0 {
		rawHex = hx.Hex(c.raw)
	}
	hx.Emit("pfp %d %s %s %s %s %s %s %s %s", c.req, hx.B(c.rc), hx.B(c.keep), hx.B(c.crcoff), hx.B(c.kerr), ab, rawHex, table, c.descr)
}

// ---------------------------------------------------------------- log generator

var boundary32 = []int32{0, 1, -1, 63, 64, -64, -65, 8191, 8192, -8192, -8193, 1048575, 1048576, 134217727, 134217728, 2147483647, -2147483648}

func smallBytes(r *hx.Rng, allowNil bool) []byte {
	switch r.Intn(6) {
	case 0:
		if allowNil {
			return nil
		}
		return []byte{}
	case 1:
		return []byte{}
	default:
		return r.Bytes(1 + r.Intn(5))
	}
}

type logGen struct {
	r       *hx.Rng
	off     int64
	batches []*lbatch
	aborted [][2]int64
	open    map[int64]int64 // pid -> first offset of the open transaction
	st      map[string]int
}

func (g *logGen) hdrs() []kmsg.Header {
	if !g.r.Chance(25) {
		return nil
	}
	var h []kmsg.Header
	for i := 0; i <= g.r.Intn(2); i++ {
		h = append(h, kmsg.Header{Key: string(smallBytes(g.r, false)), Value: smallBytes(g.r, true)})
	}
	return h
}

// one v2 batch at the current offset. kind: 0 plain, 1 transactional data, 2 control marker
func (g *logGen) v2(kind int, pid int64, abortMarker bool) {
	r := g.r
	n := 1 + r.Intn(4)
	if kind == 2 {
		n = 1
	}
	s := v2spec{first: g.off, pid: pid, pepoch: int16(r.Intn(3)), lepoch: int32(r.Intn(5)), firstTs: 1600000000000 + r.Range(0, 1000), codec: 0}
	if pid < 0 {
		s.pepoch = -1
	}
	if kind != 2 && r.Chance(45) {
		s.codec = 1 + r.Intn(4)
	}
	if r.Chance(15) {
		s.attrs |= 8 // LogAppendTime
	}
	if kind >= 1 {
		s.attrs |= 16
	}
	if kind == 2 {
		s.attrs |= 32
	}
	s.maxTs = s.firstTs + r.Range(0, 50)
	lb := &lbatch{first: g.off, pid: pid, pepoch: s.pepoch, lepoch: s.lepoch, attrs: uint8(s.attrs) | uint8(s.codec)}
	// record deltas with compaction gaps
	delta := int32(0)
	if kind != 2 && r.Chance(20) {
		delta = int32(1 + r.Intn(3)) // the first records were compacted away
	}
	empty := kind == 0 && r.Chance(8)
	for i := 0; i < n && !empty; i++ {
		k := krec{offDelta: delta, tsDelta: r.Range(0, 40), key: smallBytes(r, true), val: smallBytes(r, true), hdrs: g.hdrs()}
		if r.Chance(3) {
			k.tsDelta = int64(hx.Pick(r, boundary32))
		} else if r.Chance(3) {
			// the timestamp delta is a varlong: batches that span more than 2^31 ms (24.8 days) are legal
			k.tsDelta = hx.Pick(r, []int64{2147483648, 2147483655, -2147483649, 3456000000, 1099511627776, -8589934592})
		}
		if kind == 2 {
			typ := byte(1)
			if abortMarker {
				typ = 0
			}
			k = krec{offDelta: 0, key: []byte{0, 0, 0, typ}, val: []byte{0, 0, 0, 0, 0, 0}}
		}
		s.recs = append(s.recs, k)
		ts := s.firstTs + k.tsDelta
		if s.attrs&8 != 0 {
			ts = s.maxTs
		}
		lb.recs = append(lb.recs, lrec{off: g.off + int64(k.offDelta), ts: ts, hasTs: true, key: k.key, val: k.val, hdrs: k.hdrs})
		delta++
		if kind != 2 && r.Chance(15) {
			delta += int32(1 + r.Intn(2)) // gap
		}
	}
	s.lastDelta = delta - 1
	if empty || (kind != 2 && r.Chance(15)) {
		s.lastDelta = delta + int32(r.Intn(3)) // the last records were compacted away (KAFKA-5443)
	}
	if s.lastDelta < 0 {
		s.lastDelta = 0
	}
	s.claim = int32(len(s.recs))
	lb.present = len(lb.recs)
	lb.last = g.off + int64(s.lastDelta)
	if empty {
		g.st["empty-batch"]++
	}
	g.st[fmt.Sprintf("codec%d", s.codec)]++
	lb.raw = encV2(s)
	g.batches = append(g.batches, lb)
	g.off = lb.last + 1
	if r.Chance(10) {
		g.off += int64(1 + r.Intn(4)) // whole batches compacted away
	}
}

// a batch cut short inside: claims more records than its bytes hold
func (g *logGen) v2short() {
	r := g.r
	n := 2 + r.Intn(3)
	s := v2spec{first: g.off, pid: -1, pepoch: -1, firstTs: 1600000000000, maxTs: 1600000000100}
	lb := &lbatch{first: g.off, pid: -1, pepoch: -1, attrs: 0}
	for i := 0; i < n; i++ {
		k := krec{offDelta: int32(i), tsDelta: int64(i), key: smallBytes(r, true), val: smallBytes(r, true)}
		s.recs = append(s.recs, k)
		lb.recs = append(lb.recs, lrec{off: g.off + int64(i), ts: s.firstTs + int64(i), hasTs: true, key: k.key, val: k.val})
	}
	s.lastDelta = int32(n - 1)
	s.claim = int32(n)
	keep := r.Intn(n) // records whose bytes survive
	var payload []byte
	for i, k := range s.recs {
		e := encRecord(k)
		if i == keep {
			e = e[:r.Intn(len(e))] // partial record
		}
		if i > keep {
			break
		}
		payload = append(payload, e...)
	}
	if len(payload) == 0 {
		payload = []byte{0x7f} // a length varint with nothing behind it
	}
	s.payloadOverride = payload
	s.recs = nil
	lb.present = keep
	lb.last = g.off + int64(n-1)
	lb.raw = encV2(s)
	g.batches = append(g.batches, lb)
	g.off = lb.last + 1
	g.st["short-inside"]++
}

// v0 / v1 messages, single or a compressed wrapper
func (g *logGen) msgs(v1 bool) {
	r := g.r
	ver := "v0"
	if v1 {
		ver = "v1"
	}
	if r.Chance(50) {
		ts := int64(1500000000000) + r.Range(0, 1000)
		if v1 && r.Chance(10) {
			ts = -1
		}
		tsbit := int8(0)
		if v1 && r.Chance(20) {
			tsbit = 8
		}
		key, val := smallBytes(r, true), smallBytes(r, true)
		lb := &lbatch{first: g.off, last: g.off, pid: -1, pepoch: -1, lepoch: -1, attrs: uint8(tsbit), present: 1}
		if !v1 {
			lb.attrs |= 128
		}
		lb.recs = []lrec{{off: g.off, ts: ts, hasTs: v1, key: key, val: val}}
		lb.raw = encMsg(v1, g.off, tsbit, ts, key, val)
		g.batches = append(g.batches, lb)
		g.off++
		g.st[ver+"-single"]++
		return
	}
	codec := 1 + r.Intn(3)
	n := 1 + r.Intn(4)
	var inner []byte
	lb := &lbatch{first: g.off, pid: -1, pepoch: -1, lepoch: -1, attrs: uint8(codec)}
	if !v1 {
		lb.attrs |= 128
	}
	abs := g.off
	var absOffs []int64
	for i := 0; i < n; i++ {
		absOffs = append(absOffs, abs)
		abs++
		if r.Chance(25) {
			abs += int64(1 + r.Intn(3)) // compaction gap inside the wrapper
		}
	}
	// a v1 wrapper stamped LogAppendTime by the broker: attribute bit 3 and the append time on the wrapper only; the log
	// format gives every inner message the wrapper's timestamp and timestamp type (repaired in /repo 581b089)
	lat := v1 && r.Chance(30)
	wrapTs := int64(1500000000000) + r.Range(0, 1000)
	if lat {
		lb.attrs |= 8
	}
	lastAbs := absOffs[n-1]
	relBase := absOffs[0]
	if v1 && r.Chance(20) {
		relBase -= int64(r.Intn(3)) // first inner messages compacted away: relative offsets do not start at 0
		if relBase < 0 {
			relBase = 0
		}
	}
	for i := 0; i < n; i++ {
		ts := int64(1500000000000) + r.Range(0, 1000)
		key, val := smallBytes(r, true), smallBytes(r, true)
		stored := absOffs[i]
		if v1 {
			stored = absOffs[i] - relBase
		}
		innerV1 := v1
		inner = append(inner, encMsg(innerV1, stored, 0, ts, key, val)...)
		recTs := ts
		if lat {
			recTs = wrapTs
		}
		lb.recs = append(lb.recs, lrec{off: absOffs[i], ts: recTs, hasTs: innerV1, key: key, val: val})
	}
	if v1 && lastAbs == 0 {
		// wrapper offset 0 is the "use inner offsets as is" quirk; avoid it in the well-formed stream
		g.off++
		return
	}
	lb.present = n
	lb.last = lastAbs
	wrapOff := lastAbs
	wattrs := int8(codec)
	if lat {
		wattrs |= 8
		g.st["v1-wrapper-logappendtime"]++
	}
	lb.raw = encMsg(v1, wrapOff, wattrs, wrapTs, nil, compress(codec, inner))
	g.batches = append(g.batches, lb)
	g.off = lastAbs + 1
	g.st[ver+"-wrapper"]++
}

func (g *logGen) build(nb int, era int) {
	r := g.r
	pids := []int64{100, 200, 300}[:1+r.Intn(3)] // one to three transactional producers
	endp := hx.Pick(r, []int{37, 37, 60, 75}) // how eagerly open transactions are ended
	for i := 0; i < nb; i++ {
		// era 0: v0 only, 1: v0+v1, 2: v1 then v2, 3: v2 only, 4: any mix
		var fmtv int
		switch era {
		case 0:
			fmtv = 0
		case 1:
			fmtv = r.Intn(2)
		case 2:
			fmtv = 1
			if i*2 >= nb {
				fmtv = 2
			}
		case 3:
			fmtv = 2
		default:
			fmtv = r.Intn(3)
		}
		if fmtv < 2 {
			g.msgs(fmtv == 1)
			continue
		}
		k := r.Intn(100)
		pid := hx.Pick(r, pids)
		_, isOpen := g.open[pid]
		switch {
		case k < 25: // non-transactional (idempotent or not)
			p := int64(-1)
			if r.Bool() {
				p = 400
			}
			g.v2(0, p, false)
		case k < 100-endp || !isOpen: // transactional data
			if !isOpen {
				g.open[pid] = g.off
			}
			g.v2(1, pid, false)
		case i == nb-1 && k < 75: // only the last batch of a response can be cut short inside
			g.v2short()
		default: // end the transaction
			abort := r.Chance(55)
			if abort {
				g.aborted = append(g.aborted, [2]int64{pid, g.open[pid]})
				g.st["txn-aborted"]++
			} else {
				g.st["txn-committed"]++
			}
			g.v2(2, pid, abort)
			delete(g.open, pid)
		}
	}
	// transactions still open at the end of the response: the broker lists the aborted ones (their marker lies beyond)
	for _, pid := range pids {
		if fo, ok := g.open[pid]; ok && r.Chance(50) {
			g.aborted = append(g.aborted, [2]int64{pid, fo})
			g.st["txn-open-aborted"]++
		}
	}
}

func (g *logGen) raw() []byte {
	var raw []byte
	for _, b := range g.batches {
		raw = append(raw, b.raw...)
	}
	return raw
}

func (g *logGen) descr(nwhole int) string {
	var p []string
	for _, b := range g.batches {
		p = append(p, b.descr())
	}
	if len(p) == 0 {
		return fmt.Sprintf("%d/e", nwhole)
	}
	return fmt.Sprintf("%d/%s", nwhole, strings.Join(p, ";"))
}

func shuffle(r *hx.Rng, a [][2]int64) [][2]int64 {
	b := append([][2]int64{}, a...)
	for i := len(b) - 1; i > 0; i-- {
		j := r.Intn(i + 1)
		b[i], b[j] = b[j], b[i]
	}
	return b
}

func newLog(r *hx.Rng, st map[string]int) *logGen {
	return &logGen{r: r, off: r.Range(0, 50), open: map[int64]int64{}, st: st}
}

// the aborted transactions a broker would list for a fetch at req: those whose marker (or still-open end) is at/after req
func (g *logGen) abortedFor(req int64) [][2]int64 {
	var res [][2]int64
	for _, a := range g.aborted {
		end := int64(1) << 60
		for _, b := range g.batches {
			if b.pid == a[0] && b.attrs&32 != 0 && b.first >= a[1] {
				end = b.first
				break
			}
		}
		if end >= req {
			res = append(res, a)
		}
	}
	return res
}

func (g *logGen) pickReq() int64 {
	r := g.r
	if len(g.batches) == 0 {
		return r.Range(0, 10)
	}
	lo, hi := g.batches[0].first, g.batches[len(g.batches)-1].last
	switch r.Intn(6) {
	case 0:
		return lo
	case 1:
		return lo + r.Range(-3, 0)
	case 2:
		return hi + r.Range(0, 2)
	case 3: // the first record of the first batch or inside it (a fetch lands mid-batch)
		return lo + r.Range(0, g.batches[0].last-lo)
	default:
		return r.Range(lo, hi)
	}
}

func gen(a hx.Args) {
	r := hx.NewRng(a.Seed)
	st := map[string]int{}
	hx.Emit("reset")
	// 1. well-formed logs, whole
	for i := 0; i < a.N(500, 12000); i++ {
		g := newLog(r, st)
		g.build(1+r.Intn(12), hx.Pick(r, []int{0, 1, 2, 3, 3, 3, 3, 3, 4, 4}))
		req := g.pickReq()
		c := acase{req: req, rc: r.Chance(65), keep: r.Chance(30), crcoff: r.Chance(8), raw: g.raw(), descr: g.descr(len(g.batches))}
		c.aborted = shuffle(r, g.abortedFor(req))
		if r.Chance(2) {
			c.kerr = true
		}
		c.emit()
		// the same response with the aborted list in another order
		if len(c.aborted) > 1 {
			c.aborted = shuffle(r, c.aborted)
			c.emit()
		}
	}
	// 2. truncation at every byte boundary of small logs
	for i := 0; i < a.N(12, 300); i++ {
		g := newLog(r, st)
		g.build(2+r.Intn(3), hx.Pick(r, []int{1, 2, 3, 3, 4}))
		raw := g.raw()
		req := g.pickReq()
		rc, keep := r.Chance(65), r.Chance(30)
		ab := shuffle(r, g.abortedFor(req))
		var ends []int
		e := 0
		for _, b := range g.batches {
			e += len(b.raw)
			ends = append(ends, e)
		}
		for cut := 0; cut <= len(raw); cut++ {
			nwhole := 0
			for _, e := range ends {
				if e <= cut {
					nwhole++
				}
			}
			acase{req: req, rc: rc, keep: keep, aborted: ab, raw: raw[:cut], descr: g.descr(nwhole)}.emit()
		}
	}
	// 3. departures from the format (no ground truth): structure-aware mutations, excluded points of the theorems
	for i := 0; i < a.N(500, 12000); i++ {
		g := newLog(r, st)
		g.build(1+r.Intn(5), hx.Pick(r, []int{0, 1, 2, 3, 3, 4}))
		req := g.pickReq()
		c := acase{req: req, rc: r.Chance(70), keep: r.Chance(30), crcoff: r.Chance(10), descr: "-"}
		c.aborted = shuffle(r, g.abortedFor(req))
		raw := g.raw()
		kind := r.Intn(12)
		st[fmt.Sprintf("malformed-kind%d", kind)]++
		switch kind {
		case 0: // aborted list inconsistent with the log: duplicates, extra entries, missing entries
			if len(c.aborted) > 0 && r.Bool() {
				c.aborted = append(c.aborted, hx.Pick(r, c.aborted))
			}
			if r.Bool() {
				c.aborted = append(c.aborted, [2]int64{hx.Pick(r, []int64{100, 200, 300, 400, -1}), r.Range(0, g.off)})
			}
			if len(c.aborted) > 0 && r.Chance(30) {
				c.aborted = c.aborted[1:]
			}
			c.aborted = shuffle(r, c.aborted)
		case 1: // every aborted transaction of the log, whatever the requested offset
			c.aborted = shuffle(r, g.aborted)
		case 2: // duplicate or reorder frames (offsets go backwards)
			if len(g.batches) > 1 {
				i, j := r.Intn(len(g.batches)), r.Intn(len(g.batches))
				g.batches[i], g.batches[j] = g.batches[j], g.batches[i]
				if r.Bool() {
					g.batches = append(g.batches, g.batches[r.Intn(len(g.batches))])
				}
				raw = g.raw()
			}
		case 3: // hostile v2 batches
			s := v2spec{first: g.off, pid: hx.Pick(r, []int64{-1, 100, 200}), firstTs: 5, maxTs: 9, attrs: int16(hx.Pick(r, []int{0, 16, 48, 32, 0x40, 0x80, 8}))}
			n := r.Intn(4)
			for k := 0; k < n; k++ {
				s.recs = append(s.recs, krec{offDelta: hx.Pick(r, []int32{int32(k), int32(k), 0, -1, 5, 2147483647, -2147483648}), tsDelta: r.Range(-5, 5),
					key: hx.Pick(r, [][]byte{nil, {}, {0, 0, 0, 0}, {0, 0, 0, 1}, {0, 0, 0}, {1, 2, 0, 0, 9}}), val: smallBytes(r, true), hdrs: g.hdrs()})
			}
			s.lastDelta = hx.Pick(r, []int32{int32(n) - 1, int32(n), 0, -1, 7, 2147483647})
			s.claim = hx.Pick(r, []int32{int32(n), int32(n), int32(n) + 1, int32(n) - 1, 0, -1, 1000, 2147483647, -2147483648})
			s.codec = hx.Pick(r, []int{0, 0, 1, 2, 3, 4})
			if r.Chance(15) {
				s.first = hx.Pick(r, []int64{-1, 0, -5})
			}
			if r.Chance(25) {
				s.payloadOverride = hx.Pick(r, [][]byte{{}, {0xff, 0xff, 0xff, 0xff, 0x7f, 0, 0}, {0xff, 0xff, 0xff, 0xff, 0x0f}, {0x01}, {0x02, 0x00}, {0x80},
					{0x0e, 0, 0, 0, 1, 0, 1, 0, 0xff, 0xff, 0xff, 0xff, 0x7f}, r.Bytes(1 + r.Intn(12))})
			}
			raw = append(raw, encV2(s)...)
			if r.Bool() {
				g2 := newLog(r, st)
				g2.off = g.off + 10
				g2.build(1, 3)
				raw = append(raw, g2.raw()...)
			}
		case 4: // control batches with several markers / markers of producers without aborted transactions
			pid := hx.Pick(r, []int64{100, 200, 300})
			s := v2spec{first: g.off, pid: pid, attrs: 48, firstTs: 1, maxTs: 1}
			n := 1 + r.Intn(3)
			for k := 0; k < n; k++ {
				s.recs = append(s.recs, krec{offDelta: int32(k), key: []byte{0, 0, 0, byte(r.Intn(2))}, val: []byte{0, 0, 0, 0, 0, 0}})
			}
			s.lastDelta, s.claim = int32(n-1), int32(n)
			raw = append(raw, encV2(s)...)
			g2 := newLog(r, st)
			g2.off = g.off + int64(n)
			g2.build(2, 3)
			raw = append(raw, g2.raw()...)
			c.aborted = shuffle(r, append(c.aborted, g2.aborted...))
		case 5: // unknown magic / magic that disagrees with the layout
			if len(raw) > 17 {
				raw[16] = hx.Pick(r, []byte{3, 0, 1, 2, 255})
				refix(raw)
			}
		case 6: // wrapper quirks: wrapper offset 0, wrapper offset below the last inner, invalid inner magic, v0 inner in v1
			var inner []byte
			n := 1 + r.Intn(3)
			for k := 0; k < n; k++ {
				m := encMsg(r.Chance(70), int64(k)+hx.Pick(r, []int64{0, 0, 5}), 0, 77, smallBytes(r, true), smallBytes(r, true))
				if r.Chance(15) {
					m[16] = hx.Pick(r, []byte{2, 3})
				}
				if r.Chance(15) {
					m[17] = hx.Pick(r, []byte{1, 8, 16, 0x80})
					binary.BigEndian.PutUint32(m[12:], crc32.ChecksumIEEE(m[16:]))
				}
				inner = append(inner, m...)
			}
			if r.Chance(20) {
				inner = inner[:r.Intn(len(inner)+1)]
			}
			codec := 1 + r.Intn(3)
			wrapper := encMsg(r.Chance(70), hx.Pick(r, []int64{0, g.off, g.off + int64(n) - 1, 1, 100}), int8(codec)|hx.Pick(r, []int8{0, 0, 0, 8, 16}), 5, nil, compress(codec, inner))
			raw = append(raw, wrapper...)
		case 7: // corrupt a compressed payload / CRC
			if len(raw) > 70 {
				p := 61 + r.Intn(len(raw)-61)
				raw[p] ^= byte(1 << r.Intn(8))
				if r.Chance(70) {
					refix(raw)
				}
			}
		case 8: // field boundary values written into the first frame header, CRC fixed
			if len(raw) > 61 {
				switch r.Intn(5) {
				case 0:
					binary.BigEndian.PutUint32(raw[8:], uint32(hx.Pick(r, []int32{-1, -12, -13, 0, 5, 14, 2147483647, 2147483647 - 11, 2147483647 - 12, -2147483648, int32(len(raw)) - 12, int32(len(raw)) - 11})))
				case 1:
					binary.BigEndian.PutUint64(raw[0:], uint64(hx.Pick(r, []int64{-1, 0, 1 << 40, -(1 << 40), g.off + 100})))
				case 2:
					if raw[16] == 2 {
						binary.BigEndian.PutUint32(raw[57:], uint32(hx.Pick(r, boundary32)))
					}
				case 3:
					if raw[16] == 2 {
						binary.BigEndian.PutUint32(raw[23:], uint32(hx.Pick(r, boundary32)))
					}
				default:
					if raw[16] == 2 {
						binary.BigEndian.PutUint16(raw[21:], uint16(r.Intn(1<<16)))
					}
				}
				refix(raw)
			}
		case 9: // random byte mutations
			for k := 0; k <= r.Intn(4) && len(raw) > 0; k++ {
				p := r.Intn(len(raw))
				switch r.Intn(3) {
				case 0:
					raw[p] = byte(r.U64())
				case 1:
					raw[p] ^= byte(1 << r.Intn(8))
				default:
					raw[p] = hx.Pick(r, []byte{0, 1, 0x7f, 0x80, 0xff})
				}
			}
			if r.Chance(60) {
				refix(raw)
			}
		case 10: // arbitrary bytes
			raw = r.Bytes(r.Intn(90))
			if r.Bool() && len(raw) > 17 {
				raw[16] = byte(r.Intn(3))
				binary.BigEndian.PutUint32(raw[8:], uint32(r.Intn(len(raw))))
				refix(raw)
			}
		default: // offsets at the edge of int64 (outside the model's integers: run for "no panic" only)
			if len(raw) > 17 {
				binary.BigEndian.PutUint64(raw[0:], uint64(hx.Pick(r, []int64{1<<63 - 1, 1<<63 - 2, -1 << 63, 1 << 62})))
				refix(raw)
			}
		}
		c.raw = raw
		c.emit()
	}
	// 4. regression witnesses
	{
		s := v2spec{first: 0, pid: -1, pepoch: -1, claim: 1, payloadOverride: []byte{0xff, 0xff, 0xff, 0xff, 0x7f, 0, 0}}
		acase{raw: encV2(s), descr: "-"}.emit()
	}
	hx.Flush()
}

func main() {
	a := hx.Parse()
	switch a.Mode {
	case "gen":
		gen(a)
		hx.Flush()
	case "run":
		dec := kgo.DefaultDecompressor()
		hx.RunLines(5*time.Second, func(t []string) string {
			if t[0] == "reset" {
				return "ok"
			}
			if t[0] != "pfp" || len(t) != 10 {
				return "bad-op"
			}
			c := acase{req: hx.Atoi(t[1]), rc: t[2] == "1", keep: t[3] == "1", crcoff: t[4] == "1", kerr: t[5] == "1", raw: hx.UnHex(t[7])}
			if c.raw == nil {
				c.raw = []byte{}
			}
			if t[6] != "-" {
				for _, e := range strings.Split(t[6], ",") {
					p := strings.Split(e, ":")
					c.aborted = append(c.aborted, [2]int64{hx.Atoi(p[0]), hx.Atoi(p[1])})
				}
			}
			hx.St.Inc("ops")
			if t[9] == "-" {
				hx.St.Inc("descr:none(no-ground-truth)")
			} else {
				hx.St.Inc("descr:ground-truth")
			}
			if len(c.aborted) > 0 {
				hx.St.Inc(fmt.Sprintf("aborted-list-len:%d", min(len(c.aborted), 4)))
			}
			if c.rc {
				hx.St.Inc("read_committed")
			}
			if c.keep {
				hx.St.Inc("keep-control")
			}
			hx.St.Inc(fmt.Sprintf("bytes:<%d", (len(c.raw)/128+1)*128))
			if t[8] != "-" {
				for _, e := range strings.Split(t[8], ",") {
					k := "decompress:codec" + e[:strings.IndexByte(e, ':')]
					if strings.HasSuffix(e, ":!") {
						k += ":error"
					}
					hx.St.Inc(k)
				}
			}
			if t[9] != "-" {
				d := t[9][strings.IndexByte(t[9], '/')+1:]
				nb := strings.Count(d, ";") + 1
				hx.St.Inc(fmt.Sprintf("log-batches:%d", min(nb, 10)))
				if !strings.HasPrefix(t[9], fmt.Sprintf("%d/", nb)) {
					hx.St.Inc("truncated-response")
				}
				for _, b := range strings.Split(d, ";") {
					// first,last,pid,pepoch,lepoch,attrs,…: a message-set batch (leader epoch -1) with a codec and the LogAppendTime bit
					if f := strings.Split(b, ","); len(f) >= 6 && f[4] == "-1" {
						if at := hx.Atoi(f[5]); at&8 != 0 && at&7 != 0 {
							hx.St.Inc("v1-wrapper-logappendtime")
						}
					}
				}
			}
			res := runImpl(c, dec)
			f := strings.Fields(res)
			if len(f) >= 3 {
				hx.St.Inc("err:" + f[1])
				hx.St.Inc(fmt.Sprintf("records-returned:%d", min(int(hx.Atoi(f[2])), 8)))
			}
			return res
		})
	default:
		fmt.Fprintln(os.Stderr, "usage: gen|run")
		os.Exit(2)
	}
}
