// C33 harness: kfake persistence under crashes at every file-system operation.
//
// A real kfake (DataDir + SyncWrites) runs on a recording, crash-simulating file system (cfs.go, injected through
// the verif hook kfake.VerifWithFS). A workload of raw protocol requests is executed once; the trace holds every
// fs operation with its bytes, interleaved with `Q:` (request issued) and `A:` (request acknowledged) marks and
// `N:` annotations (the harness' JSON decoding of state files, JSON is not modelled). Crash images are then
// materialised for a prefix of the trace and a choice of lost unsynced tails, a new real kfake is started on the
// image and the protocol-visible state is read back.
//
//	reset <wseed> <n> [flags]    -> T <trace items>          generation 1 on an empty fs (m: memoised, no live instance; r: rolls)
//	cont <wseed> <n>             -> T <trace items>          more workload on the live instance (trace since its start)
//	peek <k> <tail>              -> R <state tokens>         image = base + trace[0:k] + tail; restart; read back; no advance
//	crash <k> <tail>             -> R <state tokens>         same, and the lineage continues on the restarted instance
//	close                        -> T <trace> # B <state before Close> # R <state after restart>; lineage continues
//	probe                        -> T <trace> # R <live state> after one plain produce to every partition of t0
//
// tail: K keep all unsynced tails, L lose all, K.i.n / L.i.n same but the i-th file with a tail keeps n bytes of it.
package main

import (
	"context"
	"encoding/binary"
	"encoding/json"
	"fmt"
	"hash/crc32"
	"os"
	"sort"
	"strings"
	"time"

	"github.com/twmb/franz-go/pkg/kfake"
	"github.com/twmb/franz-go/pkg/kgo"
	"github.com/twmb/franz-go/pkg/kmsg"
	"verifharness/hx"
)

const dataDir = "/d"

var castagnoli = crc32.MakeTable(crc32.Castagnoli)

// ---------------------------------------------------------------- annotations (JSON is decoded here, not modelled)

func annotate(name string, b []byte) string {
	switch {
	case strings.HasSuffix(name, "/groups.log") || strings.HasSuffix(name, "/groups.log.tmp"):
		if len(b) < 10 {
			return "gl,other"
		}
		var e struct {
			Type  string `json:"type"`
			Group string `json:"g"`
			Topic string `json:"t"`
			Part  int32  `json:"p"`
			Off   int64  `json:"o"`
		}
		if json.Unmarshal(b[10:], &e) != nil {
			return "gl,bad"
		}
		switch e.Type {
		case "commit":
			return fmt.Sprintf("gl,commit,%s,%s-%d,%d", e.Group, e.Topic, e.Part, e.Off)
		case "delete":
			return fmt.Sprintf("gl,delete,%s,%s-%d", e.Group, e.Topic, e.Part)
		}
		return "gl,other"
	case strings.HasSuffix(name, "/snapshot.json.tmp"):
		var s struct {
			HWM     int64 `json:"high_watermark"`
			LSO     int64 `json:"last_stable_offset"`
			Start   int64 `json:"log_start_offset"`
			Aborted []struct {
				PID   int64 `json:"producer_id"`
				First int64 `json:"first_offset"`
				Last  int64 `json:"last_offset"`
			} `json:"aborted_txns"`
			Segs []struct {
				Base int64 `json:"base_offset"`
				Size int64 `json:"size"`
			} `json:"segments"`
		}
		if json.Unmarshal(b, &s) != nil {
			return "json"
		}
		var ab, sg []string
		for _, a := range s.Aborted {
			ab = append(ab, fmt.Sprintf("%d@%d@%d", a.PID, a.First, a.Last))
		}
		for _, g := range s.Segs {
			sg = append(sg, fmt.Sprintf("%d@%d", g.Base, g.Size))
		}
		return fmt.Sprintf("snap,%d,%d,%d,%s,%s", s.HWM, s.LSO, s.Start, joinOr(ab, ";"), joinOr(sg, ";"))
	case strings.HasSuffix(name, "/topics.json.tmp"):
		var s struct {
			Topics []struct {
				Name string `json:"name"`
				N    int    `json:"partitions"`
			} `json:"topics"`
		}
		if json.Unmarshal(b, &s) != nil {
			return "json"
		}
		var ts []string
		for _, t := range s.Topics {
			ts = append(ts, fmt.Sprintf("%s@%d", t.Name, t.N))
		}
		sort.Strings(ts)
		return "topics," + joinOr(ts, ";")
	case strings.HasSuffix(name, "/session_state.json.tmp"):
		var ss struct {
			Txns []struct {
				PID    int64                      `json:"pid"`
				Firsts map[string]map[int32]int64 `json:"txPartFirstOffsets"`
			} `json:"inProgressTxns"`
		}
		if json.Unmarshal(b, &ss) != nil {
			return "json"
		}
		var es []string
		for _, t := range ss.Txns {
			for topic, parts := range t.Firsts {
				for part, first := range parts {
					es = append(es, fmt.Sprintf("%d@%s-%d@%d", t.PID, topic, part, first))
				}
			}
		}
		sort.Strings(es)
		return "sess," + joinOr(es, ";")
	case strings.HasSuffix(name, ".json.tmp"):
		return "json"
	}
	return ""
}

func joinOr(xs []string, sep string) string {
	if len(xs) == 0 {
		return "-"
	}
	return strings.Join(xs, sep)
}

// ---------------------------------------------------------------- one running kfake on a cfs

type inst struct {
	fs     *cfs
	c      *kfake.Cluster
	cl     *kgo.Client
	topics map[string][16]byte
	nparts map[string]int
	qid    int
}

var seedOpts = []kfake.Opt{kfake.NumBrokers(1), kfake.SeedTopics(2, "t0"), kfake.DataDir(dataDir), kfake.SyncWrites()}

// rollSegments: the lineage runs with log.segment.bytes=150, every second or third batch rolls the segment.
var rollSegments = false

func start(fs *cfs) (*inst, error) {
	opts := append([]kfake.Opt{kfake.VerifWithFS(fs)}, seedOpts...)
	if rollSegments {
		opts = append(opts, kfake.BrokerConfigs(map[string]string{"log.segment.bytes": "150"}))
	}
	c, err := kfake.NewCluster(opts...)
	if err != nil {
		return nil, err
	}
	cl, err := kgo.NewClient(kgo.SeedBrokers(c.ListenAddrs()...), kgo.DisableIdempotentWrite(), kgo.RequestRetries(0))
	if err != nil {
		c.Close()
		return nil, err
	}
	return &inst{fs: fs, c: c, cl: cl, topics: map[string][16]byte{}, nparts: map[string]int{}}, nil
}

func (in *inst) stop() {
	if in == nil {
		return
	}
	in.cl.Close()
	in.c.Close()
}

func (in *inst) do(req kmsg.Request) (kmsg.Response, error) {
	ctx, cancel := context.WithTimeout(context.Background(), 10*time.Second)
	defer cancel()
	return in.cl.Broker(0).RetriableRequest(ctx, req)
}

func (in *inst) refreshTopics() error {
	req := kmsg.NewPtrMetadataRequest()
	req.Topics = nil // all
	kresp, err := in.do(req)
	if err != nil {
		return err
	}
	in.topics, in.nparts = map[string][16]byte{}, map[string]int{}
	for _, t := range kresp.(*kmsg.MetadataResponse).Topics {
		if t.Topic != nil && t.ErrorCode == 0 {
			in.topics[*t.Topic] = t.TopicID
			in.nparts[*t.Topic] = len(t.Partitions)
		}
	}
	return nil
}

func buildBatch(pid int64, epoch int16, seq, n int32, tx bool, tag string) ([]byte, uint32) {
	b := kmsg.RecordBatch{
		PartitionLeaderEpoch: -1, Magic: 2, LastOffsetDelta: n - 1, FirstTimestamp: 1000, MaxTimestamp: 1000,
		ProducerID: pid, ProducerEpoch: epoch, FirstSequence: seq, NumRecords: n,
	}
	if tx {
		b.Attributes = 0x10
	}
	for i := int32(0); i < n; i++ {
		rec := kmsg.Record{OffsetDelta: i, Value: []byte(fmt.Sprintf("%s.%d", tag, i))}
		rec.Length = int32(len(rec.AppendTo(nil)) - 1)
		b.Records = rec.AppendTo(b.Records)
	}
	raw := b.AppendTo(nil)
	b.Length = int32(len(raw) - 12)
	raw = b.AppendTo(nil)
	crc := crc32.Checksum(raw[21:], castagnoli)
	b.CRC = int32(crc)
	return b.AppendTo(nil), crc
}

// ---------------------------------------------------------------- workload

type txProducer struct {
	txid   string
	pid    int64
	epoch  int16
	inited bool
	open   bool
	parts  map[string]bool
	seq    map[string]int32
}

type workload struct {
	in     *inst
	r      *hx.Rng
	tag    string
	ctr    int
	idem   *txProducer // idempotent, non-transactional
	txs    []*txProducer
	plain  map[string]int32
	script int
}

func (w *workload) q(desc string) int {
	w.in.qid++
	w.in.fs.Mark(fmt.Sprintf("Q:%d:%s", w.in.qid, desc))
	return w.in.qid
}

func (w *workload) a(id int, res string) {
	w.in.fs.Mark(fmt.Sprintf("A:%d:%s", id, res))
}

func (w *workload) tps() []string {
	var out []string
	for t, n := range w.in.nparts {
		for p := 0; p < n; p++ {
			out = append(out, fmt.Sprintf("%s-%d", t, p))
		}
	}
	sort.Strings(out)
	return out
}

func splitTP(tp string) (string, int32) {
	i := strings.LastIndexByte(tp, '-')
	return tp[:i], int32(hx.Atoi(tp[i+1:]))
}

func (w *workload) produce(tp, kind string, p *txProducer) {
	n := int32(1 + w.r.Intn(3))
	pid, epoch, seq := int64(-1), int16(-1), int32(-1)
	if p != nil {
		pid, epoch, seq = p.pid, p.epoch, p.seq[tp]
	}
	w.ctr++
	raw, crc := buildBatch(pid, epoch, seq, n, kind == "t", fmt.Sprintf("%s%d", w.tag, w.ctr))
	topic, part := splitTP(tp)
	req := kmsg.NewPtrProduceRequest()
	req.Acks = -1
	req.TimeoutMillis = 5000
	if kind == "t" {
		req.TransactionID = &p.txid
	}
	rt := kmsg.NewProduceRequestTopic()
	rt.Topic = topic
	rt.TopicID = w.in.topics[topic]
	rp := kmsg.NewProduceRequestTopicPartition()
	rp.Partition = part
	rp.Records = raw
	rt.Partitions = append(rt.Partitions, rp)
	req.Topics = append(req.Topics, rt)
	if kind == "t" {
		p.open = true
		p.parts[tp] = true
	}
	id := w.q(fmt.Sprintf("P:%s:%s:%d:%d:%d:%d:%08x", tp, kind, pid, epoch, seq, n, crc))
	kresp, err := w.in.do(req)
	if err != nil {
		w.a(id, "-1:-1")
		return
	}
	r := kresp.(*kmsg.ProduceResponse).Topics[0].Partitions[0]
	if r.ErrorCode == 0 && p != nil {
		p.seq[tp] = seq + n
	}
	w.a(id, fmt.Sprintf("%d:%d", r.ErrorCode, r.BaseOffset))
}

func (w *workload) initPID(p *txProducer) {
	req := kmsg.NewPtrInitProducerIDRequest()
	desc := "-"
	if p.txid != "" {
		req.TransactionalID = &p.txid
		req.TransactionTimeoutMillis = 60000
		desc = p.txid
	}
	req.ProducerID = -1
	req.ProducerEpoch = -1
	id := w.q("IP:" + desc)
	kresp, err := w.in.do(req)
	if err != nil {
		w.a(id, "-1:-1:-1")
		return
	}
	r := kresp.(*kmsg.InitProducerIDResponse)
	if r.ErrorCode == 0 {
		p.pid, p.epoch, p.inited, p.open = r.ProducerID, r.ProducerEpoch, true, false
		p.seq, p.parts = map[string]int32{}, map[string]bool{}
	}
	w.a(id, fmt.Sprintf("%d:%d:%d", r.ErrorCode, r.ProducerID, r.ProducerEpoch))
}

func (w *workload) endTxn(p *txProducer, commit bool) {
	req := kmsg.NewPtrEndTxnRequest()
	req.TransactionalID = p.txid
	req.ProducerID = p.pid
	req.ProducerEpoch = p.epoch
	req.Commit = commit
	var parts []string
	for tp := range p.parts {
		parts = append(parts, tp)
	}
	sort.Strings(parts)
	id := w.q(fmt.Sprintf("E:%d:%s:%s", p.pid, hx.B(commit), joinOr(parts, ",")))
	kresp, err := w.in.do(req)
	if err != nil {
		w.a(id, "-1")
		return
	}
	r := kresp.(*kmsg.EndTxnResponse)
	if r.ErrorCode == 0 {
		p.open = false
		p.parts = map[string]bool{}
		if r.ProducerEpoch > p.epoch && r.ProducerID == p.pid { // KIP-890 epoch bump: sequences restart
			p.epoch = r.ProducerEpoch
			p.seq = map[string]int32{}
		}
	}
	w.a(id, fmt.Sprintf("%d", r.ErrorCode))
}

func (w *workload) commit(group, tp string, off int64) {
	topic, part := splitTP(tp)
	req := kmsg.NewPtrOffsetCommitRequest()
	req.Group = group
	req.Generation = -1
	rt := kmsg.NewOffsetCommitRequestTopic()
	rt.Topic = topic
	rt.TopicID = w.in.topics[topic]
	rp := kmsg.NewOffsetCommitRequestTopicPartition()
	rp.Partition = part
	rp.Offset = off
	rp.LeaderEpoch = -1
	rt.Partitions = append(rt.Partitions, rp)
	req.Topics = append(req.Topics, rt)
	id := w.q(fmt.Sprintf("O:%s:%s:%d", group, tp, off))
	kresp, err := w.in.do(req)
	if err != nil {
		w.a(id, "-1")
		return
	}
	r := kresp.(*kmsg.OffsetCommitResponse)
	code := int16(-2)
	if len(r.Topics) == 1 && len(r.Topics[0].Partitions) == 1 {
		code = r.Topics[0].Partitions[0].ErrorCode
	}
	w.a(id, fmt.Sprintf("%d", code))
}

func (w *workload) createTopic(name string, n int32) {
	req := kmsg.NewPtrCreateTopicsRequest()
	req.TimeoutMillis = 5000
	rt := kmsg.NewCreateTopicsRequestTopic()
	rt.Topic = name
	rt.NumPartitions = n
	rt.ReplicationFactor = 1
	req.Topics = append(req.Topics, rt)
	id := w.q(fmt.Sprintf("CT:%s:%d", name, n))
	kresp, err := w.in.do(req)
	if err != nil {
		w.a(id, "-1")
		return
	}
	r := kresp.(*kmsg.CreateTopicsResponse).Topics[0]
	if r.ErrorCode == 0 {
		w.in.topics[name] = r.TopicID
		w.in.nparts[name] = int(n)
	}
	w.a(id, fmt.Sprintf("%d", r.ErrorCode))
}

// createPartitions raises the partition count of a topic; with explicit set, the request carries a replica assignment
// for every new partition (kfake builds those partitions on a different branch than without an assignment).
func (w *workload) createPartitions(name string, count int32, explicit bool) {
	req := kmsg.NewPtrCreatePartitionsRequest()
	req.TimeoutMillis = 5000
	rt := kmsg.NewCreatePartitionsRequestTopic()
	rt.Topic = name
	rt.Count = count
	if explicit {
		for i := int32(w.in.nparts[name]); i < count; i++ {
			a := kmsg.NewCreatePartitionsRequestTopicAssignment()
			a.Replicas = []int32{0}
			rt.Assignment = append(rt.Assignment, a)
		}
	}
	req.Topics = append(req.Topics, rt)
	id := w.q(fmt.Sprintf("CP:%s:%d", name, count))
	kresp, err := w.in.do(req)
	if err != nil {
		w.a(id, "-1")
		return
	}
	r := kresp.(*kmsg.CreatePartitionsResponse).Topics[0]
	if r.ErrorCode == 0 {
		w.in.nparts[name] = int(count)
	}
	w.a(id, fmt.Sprintf("%d", r.ErrorCode))
}

// run executes n steps. Every step is one request (occasionally preceded by the InitProducerID it needs).
func (w *workload) run(n int) {
	if w.script > 0 {
		w.scripted()
		return
	}
	for i := 0; i < n; i++ {
		tps := w.tps()
		if len(tps) == 0 {
			return
		}
		tp := hx.Pick(w.r, tps)
		k := w.r.Intn(100)
		if i == 0 && w.in.nparts["t0"] > 0 { // every generation appends to t0-0: later generations meet earlier data
			tp, k = "t0-0", 0
		}
		switch {
		case k < 4 && w.in.nparts["t0"] > 0 && w.in.nparts["t0"] < 4:
			// the topic grows (more often with an explicit replica assignment); later steps produce to the new partitions
			explicit := w.r.Chance(60)
			w.createPartitions("t0", int32(w.in.nparts["t0"]+1+w.r.Intn(2)), explicit)
			hx.St.Inc(fmt.Sprintf("req.createpartitions.explicit-%v", explicit))
		case k < 18:
			w.produce(tp, "p", nil)
			hx.St.Inc("req.produce.plain")
		case k < 30:
			if !w.idem.inited {
				w.initPID(w.idem)
				hx.St.Inc("req.initpid")
			}
			if w.idem.inited {
				w.produce(tp, "i", w.idem)
				hx.St.Inc("req.produce.idem")
			}
		case k < 62:
			p := hx.Pick(w.r, w.txs)
			if !p.inited {
				w.initPID(p)
				hx.St.Inc("req.initpid")
			}
			if p.inited {
				w.produce(tp, "t", p)
				hx.St.Inc("req.produce.txn")
			}
		case k < 82:
			var open []*txProducer
			for _, p := range w.txs {
				if p.open {
					open = append(open, p)
				}
			}
			if len(open) == 0 {
				w.produce(tp, "p", nil)
				hx.St.Inc("req.produce.plain")
				break
			}
			w.endTxn(hx.Pick(w.r, open), w.r.Chance(50))
			hx.St.Inc("req.endtxn")
		case k < 95:
			w.commit(hx.Pick(w.r, []string{"g0", "g1"}), tp, int64(w.r.Intn(50)))
			hx.St.Inc("req.offsetcommit")
		default:
			if _, ok := w.in.topics["t1"]; ok {
				if tn := hx.Pick(w.r, []string{"t0", "t1"}); w.in.nparts[tn] > 0 && w.in.nparts[tn] < 4 && w.r.Chance(60) {
					explicit := w.r.Chance(60)
					w.createPartitions(tn, int32(w.in.nparts[tn]+1+w.r.Intn(2)), explicit)
					hx.St.Inc(fmt.Sprintf("req.createpartitions.explicit-%v", explicit))
					break
				}
				w.commit("g0", tp, int64(w.r.Intn(50)))
				hx.St.Inc("req.offsetcommit")
			} else {
				w.createTopic("t1", 1)
				hx.St.Inc("req.createtopic")
			}
		}
	}
}

// scripted runs one of the fixed directed workloads (seeds 2000000000 + script number).
func (w *workload) scripted() {
	x0 := w.txs[0]
	hx.St.Inc(fmt.Sprintf("script.%d", w.script))
	switch w.script {
	case 1: // one plain batch
		w.produce("t0-0", "p", nil)
	case 2: // a transaction that is aborted
		w.initPID(x0)
		w.produce("t0-0", "t", x0)
		w.endTxn(x0, false)
	case 3: // a transaction left open
		w.initPID(x0)
		w.produce("t0-0", "t", x0)
	case 4: // plain batch and an offset commit
		w.produce("t0-0", "p", nil)
		w.commit("g0", "t0-0", 7)
	case 5: // a committed transaction followed by a plain batch
		w.initPID(x0)
		w.produce("t0-0", "t", x0)
		w.endTxn(x0, true)
		w.produce("t0-0", "p", nil)
	case 6: // two offset commits
		w.commit("g0", "t0-0", 5)
		w.commit("g0", "t0-0", 9)
	case 8: // a transaction left open with an acknowledged plain batch above it
		w.initPID(x0)
		w.produce("t0-0", "t", x0)
		w.produce("t0-0", "p", nil)
	case 7: // transactional producer initialised twice (two pids.log entries), then a committed transaction
		w.initPID(x0)
		w.initPID(w.txs[1])
		w.produce("t0-1", "t", x0)
		w.endTxn(x0, true)
	}
}

func newWorkload(in *inst, seed uint64, tag string) *workload {
	w := &workload{in: in, r: hx.NewRng(seed), tag: tag, plain: map[string]int32{}}
	if seed >= 2000000000 {
		w.script = int(seed - 2000000000)
	}
	w.idem = &txProducer{}
	// transactional ids are per generation: a new generation initialises its own producers (a re-init of an id
	// used before the crash bumps the epoch, which is what a restarted client does)
	w.txs = []*txProducer{{txid: "x0"}, {txid: "x1"}}
	return w
}

// ---------------------------------------------------------------- read back

func batchTokens(raw []byte) string {
	var out []string
	for len(raw) > 0 {
		if len(raw) < 61 {
			out = append(out, "garbage")
			break
		}
		sz := 12 + int(binary.BigEndian.Uint32(raw[8:12]))
		if sz < 61 || sz > len(raw) {
			out = append(out, "garbage")
			break
		}
		var b kmsg.RecordBatch
		if b.ReadFrom(raw[:sz]) != nil {
			out = append(out, "garbage")
			break
		}
		crcOK := crc32.Checksum(raw[21:sz], castagnoli) == uint32(b.CRC)
		fl := "d"
		switch {
		case b.Attributes&0x20 != 0:
			fl = "X"
			var rec kmsg.Record
			if rec.ReadFrom(b.Records) == nil && len(rec.Key) >= 4 {
				if binary.BigEndian.Uint16(rec.Key[2:4]) == 0 {
					fl = "A"
				} else {
					fl = "C"
				}
			}
		case b.Attributes&0x10 != 0:
			fl = "t"
		}
		if !crcOK {
			fl += "!"
		}
		out = append(out, fmt.Sprintf("%d.%d.%d.%d.%d.%s.%08x", b.FirstOffset, b.LastOffsetDelta+1, b.ProducerID, b.ProducerEpoch, b.FirstSequence, fl, uint32(b.CRC)))
		raw = raw[sz:]
	}
	return joinOr(out, "+")
}

func (in *inst) fetch(topic string, part int32, iso int8) (*kmsg.FetchResponseTopicPartition, error) {
	req := kmsg.NewPtrFetchRequest()
	req.ReplicaID = -1
	req.MaxWaitMillis = 0
	req.MinBytes = 0
	req.MaxBytes = 1 << 26
	req.IsolationLevel = iso
	rt := kmsg.NewFetchRequestTopic()
	rt.Topic = topic
	rt.TopicID = in.topics[topic]
	rp := kmsg.NewFetchRequestTopicPartition()
	rp.Partition = part
	rp.FetchOffset = -2 // replaced below
	rp.PartitionMaxBytes = 1 << 26
	rp.CurrentLeaderEpoch = -1
	rp.LastFetchedEpoch = -1
	rp.LogStartOffset = -1
	rt.Partitions = append(rt.Partitions, rp)
	req.Topics = append(req.Topics, rt)
	// find the log start first
	lo := kmsg.NewPtrListOffsetsRequest()
	lo.ReplicaID = -1
	lt := kmsg.NewListOffsetsRequestTopic()
	lt.Topic = topic
	lp := kmsg.NewListOffsetsRequestTopicPartition()
	lp.Partition = part
	lp.Timestamp = -2
	lp.CurrentLeaderEpoch = -1
	lt.Partitions = append(lt.Partitions, lp)
	lo.Topics = append(lo.Topics, lt)
	kresp, err := in.do(lo)
	if err != nil {
		return nil, err
	}
	req.Topics[0].Partitions[0].FetchOffset = kresp.(*kmsg.ListOffsetsResponse).Topics[0].Partitions[0].Offset
	kresp, err = in.do(req)
	if err != nil {
		return nil, err
	}
	resp := kresp.(*kmsg.FetchResponse)
	if len(resp.Topics) != 1 || len(resp.Topics[0].Partitions) != 1 {
		return nil, fmt.Errorf("fetch: unexpected shape")
	}
	return &resp.Topics[0].Partitions[0], nil
}

// readback returns the protocol-visible state as tokens: modelled kinds first (t p u a c g), then d and x.
func (in *inst) readback() []string {
	if err := in.refreshTopics(); err != nil {
		return []string{"readback-error:" + strings.ReplaceAll(err.Error(), " ", "_")}
	}
	var names []string
	for t := range in.topics {
		names = append(names, t)
	}
	sort.Strings(names)
	var out, tail []string
	for _, t := range names {
		out = append(out, fmt.Sprintf("t:%s:%d", t, in.nparts[t]))
	}
	for _, t := range names {
		for p := 0; p < in.nparts[t]; p++ {
			tp := fmt.Sprintf("%s-%d", t, p)
			ru, err := in.fetch(t, int32(p), 0)
			if err != nil {
				out = append(out, "p:"+tp+":fetch-error")
				continue
			}
			rc, err := in.fetch(t, int32(p), 1)
			if err != nil {
				out = append(out, "p:"+tp+":fetch-error")
				continue
			}
			out = append(out, fmt.Sprintf("p:%s:%d:%d:%d:%d", tp, ru.ErrorCode, ru.HighWatermark, ru.LastStableOffset, ru.LogStartOffset))
			out = append(out, "u:"+tp+":"+batchTokens(ru.RecordBatches))
			var ab []string
			for _, a := range rc.AbortedTransactions {
				ab = append(ab, fmt.Sprintf("%d@%d", a.ProducerID, a.FirstOffset))
			}
			out = append(out, "a:"+tp+":"+joinOr(ab, "+"))
			out = append(out, "c:"+tp+":"+batchTokens(rc.RecordBatches))
			// producer state (not modelled)
			dp := kmsg.NewPtrDescribeProducersRequest()
			dt := kmsg.NewDescribeProducersRequestTopic()
			dt.Topic = t
			dt.Partitions = []int32{int32(p)}
			dp.Topics = append(dp.Topics, dt)
			if kresp, err := in.do(dp); err == nil {
				for _, rt := range kresp.(*kmsg.DescribeProducersResponse).Topics {
					for _, rp := range rt.Partitions {
						var ps []string
						for _, a := range rp.ActiveProducers {
							ps = append(ps, fmt.Sprintf("%d/%d/%d/%d", a.ProducerID, a.ProducerEpoch, a.LastSequence, a.CurrentTxnStartOffset))
						}
						sort.Strings(ps)
						tail = append(tail, "d:"+tp+":"+joinOr(ps, "+"))
					}
				}
			}
		}
	}
	for _, g := range []string{"g0", "g1"} {
		req := kmsg.NewPtrOffsetFetchRequest()
		req.Group = g
		rg := kmsg.NewOffsetFetchRequestGroup()
		rg.Group = g
		req.Groups = append(req.Groups, rg)
		kresp, err := in.do(req)
		if err != nil {
			out = append(out, "g:"+g+":error")
			continue
		}
		resp := kresp.(*kmsg.OffsetFetchResponse)
		var gs []string
		add := func(topic string, part int32, off int64, code int16) {
			if code == 0 && off >= 0 {
				gs = append(gs, fmt.Sprintf("g:%s:%s-%d:%d", g, topic, part, off))
			}
		}
		for _, t := range resp.Topics {
			for _, p := range t.Partitions {
				add(t.Topic, p.Partition, p.Offset, p.ErrorCode)
			}
		}
		for _, rg := range resp.Groups {
			for _, t := range rg.Topics {
				name := t.Topic
				if name == "" {
					for n, id := range in.topics {
						if id == t.TopicID {
							name = n
						}
					}
				}
				for _, p := range t.Partitions {
					add(name, p.Partition, p.Offset, p.ErrorCode)
				}
			}
		}
		sort.Strings(gs)
		out = append(out, gs...)
	}
	lt := kmsg.NewPtrListTransactionsRequest()
	if kresp, err := in.do(lt); err == nil {
		var xs []string
		for _, s := range kresp.(*kmsg.ListTransactionsResponse).TransactionStates {
			xs = append(xs, fmt.Sprintf("x:%s:%d:%s", s.TransactionalID, s.ProducerID, s.TransactionState))
		}
		sort.Strings(xs)
		tail = append(tail, xs...)
	}
	return append(out, tail...)
}

// ---------------------------------------------------------------- run mode

// runner holds one lineage: the image the live instance was started on, the operations recorded since that start
// (as last printed in a `T` line), and the live instance.
type runner struct {
	base  *cfs  // image (before recovery) the live instance started on; empty for generation 1
	trace []op  // operations since that start, as last printed
	live  *inst // nil after a memoised reset
	memo  map[string][]op
}

func traceText(ops []op) string {
	var sb strings.Builder
	for i, o := range ops {
		if i > 0 {
			sb.WriteByte(' ')
		}
		sb.WriteString(o.text)
	}
	if len(ops) == 0 {
		return "-"
	}
	return sb.String()
}

// sync appends what the live instance recorded since the last call.
func (r *runner) sync() string {
	if r.live == nil {
		return ""
	}
	r.trace = append(append([]op{}, r.trace...), r.live.fs.takeTrace()...)
	return r.live.fs.bad
}

// reset starts generation 1 on an empty file system. flags: m = the trace may be memoised (the group only peeks /
// crashes, no live instance is kept), r = small log.segment.bytes so that segments roll.
func (r *runner) reset(seed uint64, n int, flags string) string {
	r.live.stop()
	r.live, r.trace = nil, nil
	r.base = newCFS()
	rollSegments = strings.Contains(flags, "r")
	memo := strings.Contains(flags, "m")
	key := fmt.Sprintf("%d/%d/%s", seed, n, flags)
	if ops, ok := r.memo[key]; ok && memo {
		r.trace = ops
		return "T " + traceText(ops)
	}
	fs := newCFS()
	in, err := start(fs)
	if err != nil {
		return "start-error:" + strings.ReplaceAll(err.Error(), " ", "_")
	}
	if err := in.refreshTopics(); err != nil {
		in.stop()
		return "metadata-error"
	}
	r.live = in
	newWorkload(in, seed, "a").run(n)
	if bad := r.sync(); bad != "" {
		return "fs-anomaly:" + bad
	}
	hx.St.Add("trace.items", len(r.trace))
	if memo {
		r.memo[key] = r.trace
		r.live.stop()
		r.live = nil
	}
	return "T " + traceText(r.trace)
}

func restartAndRead(img *cfs) (*inst, string) {
	files := img.fileTokens()
	fs := img.clone()
	in, err := start(fs)
	if err != nil {
		hx.St.Inc("restart.fail")
		return nil, "R fail " + strings.Join(files, " ")
	}
	hx.St.Inc("restart.ok")
	toks := in.readback()
	return in, "R ok " + strings.Join(append(files, toks...), " ")
}

// peek: crash image of the printed trace, restart, read back; the lineage is not advanced.
func (r *runner) peek(k int, tail string) string {
	if r.base == nil {
		return "no-trace"
	}
	k = k % (len(r.trace) + 1)
	in, res := restartAndRead(image(r.base, r.trace, k, tail))
	in.stop()
	return res
}

// crash: as peek, but the lineage continues on the restarted instance.
func (r *runner) crash(k int, tail string) string {
	if r.base == nil {
		return "no-trace"
	}
	k = k % (len(r.trace) + 1)
	img := image(r.base, r.trace, k, tail)
	r.live.stop()
	in, res := restartAndRead(img)
	r.live, r.base, r.trace = in, img, nil
	return res
}

var genTag = 0

func (r *runner) cont(seed uint64, n int) string {
	if r.live == nil {
		return "no-instance"
	}
	genTag++
	newWorkload(r.live, seed, fmt.Sprintf("g%d", genTag)).run(n)
	if bad := r.sync(); bad != "" {
		return "fs-anomaly:" + bad
	}
	hx.St.Add("trace.items", len(r.trace))
	return "T " + traceText(r.trace)
}

// close: clean Close of the live instance, restart on what it left, read back.
func (r *runner) close() string {
	if r.live == nil {
		return "no-instance"
	}
	r.sync()
	before := r.live.readback()
	r.live.stop()
	r.sync()
	img := image(r.base, r.trace, len(r.trace), "K")
	full := r.trace
	in, res := restartAndRead(img)
	r.live, r.base, r.trace = in, img, nil
	return "T " + traceText(full) + " # B " + strings.Join(before, " ") + " # " + res
}

// probe: one plain produce to every partition of t0 on the live instance, then a live read back.
func (r *runner) probe() string {
	if r.live == nil {
		return "no-instance"
	}
	genTag++
	w := newWorkload(r.live, 1, fmt.Sprintf("p%d", genTag))
	for _, tp := range w.tps() {
		if strings.HasPrefix(tp, "t0-") {
			w.produce(tp, "p", nil)
		}
	}
	if bad := r.sync(); bad != "" {
		return "fs-anomaly:" + bad
	}
	return "T " + traceText(r.trace) + " # R ok " + strings.Join(r.live.readback(), " ")
}

func run() {
	r := &runner{memo: map[string][]op{}}
	hx.RunLines(60*time.Second, func(t []string) string {
		hx.St.Inc("op." + t[0])
		switch t[0] {
		case "reset":
			flags := ""
			if len(t) > 3 {
				flags = t[3]
			}
			return r.reset(uint64(hx.Atoi(t[1])), int(hx.Atoi(t[2])), flags)
		case "peek", "crash":
			hx.St.Inc("tail." + t[2][:1] + fmt.Sprint(strings.Count(t[2], ".")/2))
			k := len(r.trace) // "e": the end of the printed trace
			if t[1] != "e" {
				k = int(hx.Atoi(t[1]))
			}
			if t[0] == "peek" {
				return r.peek(k, t[2])
			}
			return r.crash(k, t[2])
		case "cont":
			return r.cont(uint64(hx.Atoi(t[1])), int(hx.Atoi(t[2])))
		case "close":
			return r.close()
		case "probe":
			return r.probe()
		}
		return "bad-op"
	})
	r.live.stop()
}

func main() {
	a := hx.Parse()
	switch a.Mode {
	case "gen":
		gen(a)
		hx.Flush()
	case "run":
		run()
	default:
		os.Exit(2)
	}
}
