package main

// Crash-simulating in-memory file system. Every mutating operation is recorded (with the bytes written)
// in a trace; the model of durability is the one stated in the property: a file is `synced bytes ++ unsynced
// tail`; create / truncate / rename / remove / mkdir are atomic and durable when they return; a crash keeps,
// per file, the synced bytes plus any prefix of the unsynced tail.

import (
	"encoding/hex"
	"fmt"
	"io"
	"os"
	"sort"
	"strings"
	"sync"
	"time"

	"github.com/twmb/franz-go/pkg/kfake"
)

type opKind byte

const (
	opCreate opKind = iota
	opWrite
	opSync
	opRename
	opRemove
	opRemoveAll
	opTruncate
	opMkdir
	opMark // not a file-system operation: request issued / acknowledged / annotation
)

type op struct {
	kind opKind
	a, b string
	data []byte
	n    int64
	text string // rendered item
}

type node struct {
	name   string
	data   []byte
	synced int
}

type cfs struct {
	mu    sync.Mutex
	files map[string]*node
	dirs  map[string]bool
	trace []op
	bad   string // first anomaly (a write that is not an append, ...)
}

func newCFS() *cfs { return &cfs{files: map[string]*node{}, dirs: map[string]bool{"/": true}} }

func (m *cfs) clone() *cfs {
	m.mu.Lock()
	defer m.mu.Unlock()
	c := newCFS()
	for k, n := range m.files {
		c.files[k] = &node{name: n.name, data: append([]byte(nil), n.data...), synced: n.synced}
	}
	for k := range m.dirs {
		c.dirs[k] = true
	}
	return c
}

func (m *cfs) rec(o op) {
	switch o.kind {
	case opCreate:
		o.text = "C:" + o.a
	case opWrite:
		o.text = "W:" + o.a + ":" + hex.EncodeToString(o.data)
	case opSync:
		o.text = "S:" + o.a
	case opRename:
		o.text = "R:" + o.a + ":" + o.b
	case opRemove:
		o.text = "X:" + o.a
	case opRemoveAll:
		o.text = "XA:" + o.a
	case opTruncate:
		o.text = fmt.Sprintf("T:%s:%d", o.a, o.n)
	case opMkdir:
		o.text = "M:" + o.a
	}
	m.trace = append(m.trace, o)
}

// Mark appends a non-fs item (request issued / acknowledged).
func (m *cfs) Mark(s string) {
	m.mu.Lock()
	m.trace = append(m.trace, op{kind: opMark, text: s})
	m.mu.Unlock()
}

func (m *cfs) takeTrace() []op {
	m.mu.Lock()
	defer m.mu.Unlock()
	t := m.trace
	m.trace = nil
	return t
}

// apply performs o on the file system state without recording (used to materialise crash images).
func (m *cfs) apply(o op) {
	switch o.kind {
	case opCreate:
		if n, ok := m.files[o.a]; ok {
			n.data, n.synced = nil, 0
		} else {
			m.files[o.a] = &node{name: o.a}
		}
	case opWrite:
		if n, ok := m.files[o.a]; ok {
			n.data = append(n.data, o.data...)
		}
	case opSync:
		if n, ok := m.files[o.a]; ok {
			n.synced = len(n.data)
		}
	case opRename:
		if n, ok := m.files[o.a]; ok {
			delete(m.files, o.a)
			n.name = o.b
			m.files[o.b] = n
		}
	case opRemove:
		delete(m.files, o.a)
		delete(m.dirs, o.a)
	case opRemoveAll:
		pre := o.a + "/"
		for k := range m.files {
			if k == o.a || strings.HasPrefix(k, pre) {
				delete(m.files, k)
			}
		}
		for k := range m.dirs {
			if k == o.a || strings.HasPrefix(k, pre) {
				delete(m.dirs, k)
			}
		}
	case opTruncate:
		if n, ok := m.files[o.a]; ok {
			truncNode(n, o.n)
		}
	case opMkdir:
		m.dirs[o.a] = true
	}
}

func truncNode(n *node, size int64) {
	if size < int64(len(n.data)) {
		n.data = n.data[:size]
		if n.synced > int(size) {
			n.synced = int(size)
		}
	} else {
		n.data = append(n.data, make([]byte, int(size)-len(n.data))...)
	}
}

// tailFiles lists the paths that have a non-empty unsynced tail, sorted.
func (m *cfs) tailFiles() []string {
	var out []string
	for k, n := range m.files {
		if n.synced < len(n.data) {
			out = append(out, k)
		}
	}
	sort.Strings(out)
	return out
}

// crash applies a tail choice: "K" keep every unsynced tail, "L" lose every unsynced tail, "K.i.n" / "L.i.n" the
// same except that the i-th (mod count) file with a tail keeps exactly n (mod taillen+1) bytes of it. Afterwards
// everything that survived is durable.
func (m *cfs) crash(choice string) {
	parts := strings.Split(choice, ".")
	tf := m.tailFiles()
	special, keep := "", 0
	if len(parts) == 3 && len(tf) > 0 {
		var i, n int
		fmt.Sscan(parts[1], &i)
		fmt.Sscan(parts[2], &n)
		special = tf[i%len(tf)]
		nd := m.files[special]
		keep = n % (len(nd.data) - nd.synced + 1)
	}
	for k, n := range m.files {
		switch {
		case k == special:
			n.data = n.data[:n.synced+keep]
		case parts[0] == "L":
			n.data = n.data[:n.synced]
		}
		n.synced = len(n.data)
	}
}

// image builds base + ops[0:k] + tail choice.
func image(base *cfs, ops []op, k int, choice string) *cfs {
	im := base.clone()
	for _, o := range ops[:k] {
		if o.kind != opMark {
			im.apply(o)
		}
	}
	im.crash(choice)
	return im
}

func (m *cfs) fileTokens() []string {
	var out []string
	for k, n := range m.files {
		out = append(out, fmt.Sprintf("f:%s:%d", k, len(n.data)))
	}
	sort.Strings(out)
	return out
}

// ---------------------------------------------------------------- kfake.VerifFS

type handle struct {
	fs   *cfs
	n    *node
	pos  int64
	flag int
}

func (m *cfs) OpenFile(name string, flag int, _ os.FileMode) (kfake.VerifFile, error) {
	m.mu.Lock()
	defer m.mu.Unlock()
	n, exists := m.files[name]
	if !exists {
		if flag&os.O_CREATE == 0 {
			return nil, &os.PathError{Op: "open", Path: name, Err: os.ErrNotExist}
		}
		n = &node{name: name}
		m.files[name] = n
		m.rec(op{kind: opCreate, a: name})
	} else if flag&os.O_TRUNC != 0 {
		n.data, n.synced = nil, 0
		m.rec(op{kind: opCreate, a: name})
	}
	var pos int64
	if flag&os.O_APPEND != 0 {
		pos = int64(len(n.data))
	}
	return &handle{fs: m, n: n, pos: pos, flag: flag}, nil
}

func (m *cfs) Rename(oldpath, newpath string) error {
	m.mu.Lock()
	defer m.mu.Unlock()
	n, ok := m.files[oldpath]
	if !ok {
		return &os.PathError{Op: "rename", Path: oldpath, Err: os.ErrNotExist}
	}
	if old, ok := m.files[newpath]; ok {
		old.name = ""
	}
	delete(m.files, oldpath)
	n.name = newpath
	m.files[newpath] = n
	m.rec(op{kind: opRename, a: oldpath, b: newpath})
	return nil
}

func (m *cfs) Remove(name string) error {
	m.mu.Lock()
	defer m.mu.Unlock()
	if n, ok := m.files[name]; ok {
		n.name = ""
		delete(m.files, name)
		m.rec(op{kind: opRemove, a: name})
		return nil
	}
	if m.dirs[name] {
		delete(m.dirs, name)
		m.rec(op{kind: opRemove, a: name})
		return nil
	}
	return &os.PathError{Op: "remove", Path: name, Err: os.ErrNotExist}
}

func (m *cfs) RemoveAll(path string) error {
	m.mu.Lock()
	defer m.mu.Unlock()
	o := op{kind: opRemoveAll, a: path}
	for k, n := range m.files {
		if k == path || strings.HasPrefix(k, path+"/") {
			n.name = ""
		}
	}
	m.apply(o)
	m.rec(o)
	return nil
}

func (m *cfs) MkdirAll(path string, _ os.FileMode) error {
	m.mu.Lock()
	defer m.mu.Unlock()
	if !m.dirs[path] {
		m.dirs[path] = true
		m.rec(op{kind: opMkdir, a: path})
	}
	return nil
}

type dirEntry struct {
	name  string
	isDir bool
	size  int64
}

func (e dirEntry) Name() string               { return e.name }
func (e dirEntry) IsDir() bool                { return e.isDir }
func (dirEntry) Type() os.FileMode            { return 0 }
func (e dirEntry) Info() (os.FileInfo, error) { return fileInfo{e.name, e.size, e.isDir}, nil }

type fileInfo struct {
	name  string
	size  int64
	isDir bool
}

func (i fileInfo) Name() string     { return i.name }
func (i fileInfo) Size() int64      { return i.size }
func (fileInfo) Mode() os.FileMode  { return 0o644 }
func (fileInfo) ModTime() time.Time { return time.Time{} }
func (i fileInfo) IsDir() bool      { return i.isDir }
func (fileInfo) Sys() any           { return nil }

func (m *cfs) ReadDir(name string) ([]os.DirEntry, error) {
	m.mu.Lock()
	defer m.mu.Unlock()
	prefix := name
	if prefix != "/" && !strings.HasSuffix(prefix, "/") {
		prefix += "/"
	}
	seen := map[string]bool{}
	var entries []os.DirEntry
	for k, n := range m.files {
		if !strings.HasPrefix(k, prefix) {
			continue
		}
		rest := k[len(prefix):]
		if i := strings.IndexByte(rest, '/'); i >= 0 {
			if d := rest[:i]; !seen[d] {
				seen[d] = true
				entries = append(entries, dirEntry{name: d, isDir: true})
			}
			continue
		}
		if rest != "" && !seen[rest] {
			seen[rest] = true
			entries = append(entries, dirEntry{name: rest, size: int64(len(n.data))})
		}
	}
	for k := range m.dirs {
		if !strings.HasPrefix(k, prefix) {
			continue
		}
		rest := k[len(prefix):]
		if rest != "" && !strings.Contains(rest, "/") && !seen[rest] {
			seen[rest] = true
			entries = append(entries, dirEntry{name: rest, isDir: true})
		}
	}
	if len(entries) == 0 && !m.dirs[name] {
		return nil, &os.PathError{Op: "readdir", Path: name, Err: os.ErrNotExist}
	}
	sort.Slice(entries, func(i, j int) bool { return entries[i].Name() < entries[j].Name() })
	return entries, nil
}

func (m *cfs) ReadFile(name string) ([]byte, error) {
	m.mu.Lock()
	defer m.mu.Unlock()
	n, ok := m.files[name]
	if !ok {
		return nil, &os.PathError{Op: "read", Path: name, Err: os.ErrNotExist}
	}
	return append([]byte{}, n.data...), nil
}

func (m *cfs) Stat(name string) (os.FileInfo, error) {
	m.mu.Lock()
	defer m.mu.Unlock()
	if n, ok := m.files[name]; ok {
		return fileInfo{name: name, size: int64(len(n.data))}, nil
	}
	if m.dirs[name] {
		return fileInfo{name: name, isDir: true}, nil
	}
	return nil, &os.PathError{Op: "stat", Path: name, Err: os.ErrNotExist}
}

func (h *handle) Write(b []byte) (int, error) {
	h.fs.mu.Lock()
	defer h.fs.mu.Unlock()
	if h.flag&os.O_APPEND != 0 {
		h.pos = int64(len(h.n.data))
	}
	if h.pos != int64(len(h.n.data)) {
		if h.fs.bad == "" {
			h.fs.bad = fmt.Sprintf("non-append-write:%s@%d/%d", h.n.name, h.pos, len(h.n.data))
		}
		return 0, fmt.Errorf("verif cfs: non-append write")
	}
	h.n.data = append(h.n.data, b...)
	h.pos += int64(len(b))
	if h.n.name != "" {
		h.fs.rec(op{kind: opWrite, a: h.n.name, data: append([]byte(nil), b...)})
		if ann := annotate(h.n.name, b); ann != "" {
			h.fs.trace = append(h.fs.trace, op{kind: opMark, text: "N:" + ann})
		}
	}
	return len(b), nil
}

func (h *handle) Read(b []byte) (int, error) {
	h.fs.mu.Lock()
	defer h.fs.mu.Unlock()
	if h.pos >= int64(len(h.n.data)) {
		return 0, io.EOF
	}
	n := copy(b, h.n.data[h.pos:])
	h.pos += int64(n)
	return n, nil
}

func (h *handle) Seek(offset int64, whence int) (int64, error) {
	h.fs.mu.Lock()
	defer h.fs.mu.Unlock()
	switch whence {
	case io.SeekStart:
		h.pos = offset
	case io.SeekCurrent:
		h.pos += offset
	case io.SeekEnd:
		h.pos = int64(len(h.n.data)) + offset
	}
	return h.pos, nil
}

func (h *handle) Truncate(size int64) error {
	h.fs.mu.Lock()
	defer h.fs.mu.Unlock()
	truncNode(h.n, size)
	if h.n.name != "" {
		h.fs.rec(op{kind: opTruncate, a: h.n.name, n: size})
	}
	return nil
}

func (h *handle) Sync() error {
	h.fs.mu.Lock()
	defer h.fs.mu.Unlock()
	h.n.synced = len(h.n.data)
	if h.n.name != "" {
		h.fs.rec(op{kind: opSync, a: h.n.name})
	}
	return nil
}

func (*handle) Close() error { return nil }
