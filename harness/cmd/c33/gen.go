package main

// Generator. It executes each workload once itself (the trace length and the positions of unsynced tails are
// only known after running the real kfake) and then emits, for EVERY prefix of the fs operation sequence, the
// tail choices: all kept, all lost, and per file with an unsynced tail: only that file kept in full, plus cuts of
// that file (one random cut in the quick tier, every cut in the thorough tier) with the other tails kept / lost.
// Lineages: 2..4 generations in every order of clean Close / crash (with tail loss), with and without segment rolls,
// sampled crash points of every generation, and a produce + read back after the last restart.

import (
	"fmt"
	"strings"

	"verifharness/hx"
)

type tailInfo struct {
	path string
	n    int
}

// tailsAt returns, for every k, the files with an unsynced tail after ops[0:k] on base (sorted by path).
func tailsAt(base *cfs, ops []op) [][]tailInfo {
	im := base.clone()
	out := make([][]tailInfo, len(ops)+1)
	snap := func() []tailInfo {
		var ts []tailInfo
		for _, p := range im.tailFiles() {
			nd := im.files[p]
			ts = append(ts, tailInfo{p, len(nd.data) - nd.synced})
		}
		return ts
	}
	out[0] = snap()
	for i, o := range ops {
		if o.kind != opMark {
			im.apply(o)
		}
		out[i+1] = snap()
	}
	return out
}

func boundaries(ops []op) []int {
	ks := []int{0}
	for i, o := range ops {
		if o.kind != opMark {
			ks = append(ks, i+1)
		}
	}
	return ks
}

type crashChoice struct {
	k    int
	tail string
	torn bool
}

func choices(r *hx.Rng, ops []op, base *cfs, thorough bool) []crashChoice {
	tails := tailsAt(base, ops)
	var out []crashChoice
	for _, k := range boundaries(ops) {
		out = append(out, crashChoice{k, "K", false})
		ts := tails[k]
		if len(ts) == 0 {
			continue
		}
		out = append(out, crashChoice{k, "L", true})
		for i, t := range ts {
			if len(ts) > 1 {
				out = append(out, crashChoice{k, fmt.Sprintf("L.%d.%d", i, t.n), true}) // only file i survives in full
			}
			if thorough {
				for n := 0; n < t.n; n++ {
					out = append(out, crashChoice{k, fmt.Sprintf("K.%d.%d", i, n), true})
					if len(ts) > 1 && n > 0 {
						out = append(out, crashChoice{k, fmt.Sprintf("L.%d.%d", i, n), true})
					}
				}
			} else if t.n > 1 {
				out = append(out, crashChoice{k, fmt.Sprintf("K.%d.%d", i, 1+r.Intn(t.n-1)), true})
				if len(ts) > 1 {
					out = append(out, crashChoice{k, fmt.Sprintf("L.%d.%d", i, 1+r.Intn(t.n-1)), true})
				}
			}
		}
	}
	return out
}

// pick draws a crash choice for the end of a generation: the end of the trace with everything kept (all requests
// acknowledged and durable), a torn choice, or any choice.
func pickStop(r *hx.Rng, cs []crashChoice, end int) crashChoice {
	var torn []crashChoice
	for _, c := range cs {
		if c.torn {
			torn = append(torn, c)
		}
	}
	switch k := r.Intn(100); {
	case k < 35 || len(cs) == 0:
		return crashChoice{end, "K", false}
	case k < 75 && len(torn) > 0:
		return torn[r.Intn(len(torn))]
	default:
		return cs[r.Intn(len(cs))]
	}
}

// every order of clean close (C) and crash (X) over 2..4 generations; the ones with a crash after a close first
func patterns() []string {
	var out, rest []string
	for n := 2; n <= 4; n++ {
		for m := 0; m < 1<<n; m++ {
			p := ""
			for i := 0; i < n; i++ {
				if m>>i&1 == 1 {
					p += "X"
				} else {
					p += "C"
				}
			}
			if strings.Contains(p, "CX") {
				out = append(out, p)
			} else {
				rest = append(rest, p)
			}
		}
	}
	return append(out, rest...)
}

func gen(a hx.Args) {
	r := hx.NewRng(a.Seed)
	thorough := a.Tier == "thorough"
	run := &runner{memo: map[string][]op{}}
	defer func() { run.live.stop() }()
	tok := func(s string) bool { return len(s) >= 2 && s[:2] == "T " }

	// A. every prefix of a generation-1 workload x tail choices
	nW := a.N(3, 6)
	for wi := 0; wi < nW; wi++ {
		wseed := r.U64() % 1000000000
		n := 5 + r.Intn(6)
		if thorough && wi < 2 {
			n = 3 + r.Intn(3) // small workloads, every cut of every tail
		}
		flags := "m"
		if wi%2 == 1 {
			flags = "mr"
		}
		if !tok(run.reset(wseed, n, flags)) {
			hx.Emit("reset %d %d %s", wseed, n, flags) // the run will report the same failure
			continue
		}
		cs := choices(r, run.trace, newCFS(), thorough && wi < 2)
		if wi > 0 { // the start-up phase (initial saveToDisk) is the same in every workload: enumerate it once
			first := 0
			for i, o := range run.trace {
				if o.kind == opMark {
					first = i
					break
				}
			}
			var keep []crashChoice
			for _, c := range cs {
				if c.k >= first {
					keep = append(keep, c)
				}
			}
			cs = keep
		}
		for i, c := range cs {
			if i%40 == 0 {
				hx.Emit("reset %d %d %s", wseed, n, flags)
			}
			hx.Emit("peek %d %s w%d", c.k, c.tail, wseed)
		}
	}

	// B. lineages of 2..4 generations in every order of clean close / crash, with and without segment rolls; sampled
	// crash points of every generation (peek), a produce + read after the last restart (probe)
	pats := patterns()
	nL := a.N(56, 300)
	off := int(a.Seed % uint64(len(pats)))
	for li := 0; li < nL; li++ {
		pat := pats[(li+off)%len(pats)]
		if li < 6 { // always some close -> crash lineages, whatever the rotation
			pat = pats[li%6]
		}
		flags := "-"
		if r.Chance(35) {
			flags = "r"
		}
		wseed := r.U64() % 1000000000
		n := 3 + r.Intn(5)
		id := fmt.Sprintf("L%d.%s.%d", li, pat, wseed)
		hx.Emit("reset %d %d %s %s", wseed, n, flags, id)
		if !tok(run.reset(wseed, n, flags)) {
			continue
		}
		ok := true
		for gi, stop := range pat {
			if gi > 0 {
				w2 := r.U64() % 1000000000
				n2 := 2 + r.Intn(5)
				hx.Emit("cont %d %d %s.g%d", w2, n2, id, gi)
				if !tok(run.cont(w2, n2)) {
					ok = false
					break
				}
			}
			cs := choices(r, run.trace, run.base, false)
			end := len(run.trace)
			// crash points of this generation that do not advance the lineage
			np := 3
			if thorough {
				np = 8
			}
			if gi > 0 {
				hx.Emit("peek e K %s.g%d", id, gi)
				hx.Emit("peek e L %s.g%d", id, gi)
				for i := 0; i < np && len(cs) > 0; i++ {
					c := cs[r.Intn(len(cs))]
					hx.Emit("peek %d %s %s.g%d", c.k, c.tail, id, gi)
				}
			}
			if stop == 'C' {
				hx.Emit("close %s.g%d", id, gi)
				if run.close(); run.live == nil {
					ok = false
					break
				}
			} else {
				c := pickStop(r, cs, end)
				hx.Emit("crash %d %s %s.g%d", c.k, c.tail, id, gi)
				if run.crash(c.k, c.tail); run.live == nil {
					ok = false
					break
				}
			}
		}
		if ok {
			hx.Emit("probe %s", id)
		}
	}
}
