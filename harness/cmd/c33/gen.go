package main

// Generator. It executes each workload once itself (the trace length and the positions of unsynced tails are
// only known after running the real kfake) and then emits, for EVERY prefix of the fs operation sequence, the
// tail choices: all kept, all lost, and per file with an unsynced tail: only that file kept in full, plus cuts of
// that file (one random cut in the quick tier, every cut in the thorough tier) with the other tails kept / lost.
// Second generation: for sampled first crashes (all torn ones first) a continuation workload, crashes of it, and
// a clean Close + restart.

import (
	"fmt"

	"verifharness/hx"
)

type tailInfo struct {
	path string
	n    int
}

// tailsAt returns, for every k, the files with an unsynced tail after ops[0:k] on base (sorted by path).
func tailsAt(base *cfs, ops []op) [][]tailInfo {
	im := base.clone()
	out := make([][]tailInfo, len(ops)+1)
	snap := func() []tailInfo {
		var ts []tailInfo
		for _, p := range im.tailFiles() {
			nd := im.files[p]
			ts = append(ts, tailInfo{p, len(nd.data) - nd.synced})
		}
		return ts
	}
	out[0] = snap()
	for i, o := range ops {
		if o.kind != opMark {
			im.apply(o)
		}
		out[i+1] = snap()
	}
	return out
}

func boundaries(ops []op) []int {
	ks := []int{0}
	for i, o := range ops {
		if o.kind != opMark {
			ks = append(ks, i+1)
		}
	}
	return ks
}

type crashChoice struct {
	k    int
	tail string
	torn bool
}

func choices(r *hx.Rng, ops []op, base *cfs, thorough bool) []crashChoice {
	tails := tailsAt(base, ops)
	var out []crashChoice
	for _, k := range boundaries(ops) {
		out = append(out, crashChoice{k, "K", false})
		ts := tails[k]
		if len(ts) == 0 {
			continue
		}
		out = append(out, crashChoice{k, "L", true})
		for i, t := range ts {
			if len(ts) > 1 {
				out = append(out, crashChoice{k, fmt.Sprintf("L.%d.%d", i, t.n), true}) // only file i survives in full
			}
			if thorough {
				for n := 0; n < t.n; n++ {
					out = append(out, crashChoice{k, fmt.Sprintf("K.%d.%d", i, n), true})
					if len(ts) > 1 && n > 0 {
						out = append(out, crashChoice{k, fmt.Sprintf("L.%d.%d", i, n), true})
					}
				}
			} else if t.n > 1 {
				out = append(out, crashChoice{k, fmt.Sprintf("K.%d.%d", i, 1+r.Intn(t.n-1)), true})
				if len(ts) > 1 {
					out = append(out, crashChoice{k, fmt.Sprintf("L.%d.%d", i, 1+r.Intn(t.n-1)), true})
				}
			}
		}
	}
	return out
}

func gen(a hx.Args) {
	r := hx.NewRng(a.Seed)
	thorough := a.Tier == "thorough"
	run := &runner{memo: map[string][]op{}}
	defer func() { run.cur.stop() }()
	nW := a.N(3, 8)
	for wi := 0; wi < nW; wi++ {
		wseed := r.U64() % 1000000000
		n := 5 + r.Intn(6)
		if thorough && wi < 3 {
			n = 3 + r.Intn(3) // small workloads, every cut of every tail
		}
		res := run.reset(wseed, n)
		if len(res) < 2 || res[:2] != "T " {
			hx.Emit("reset %d %d", wseed, n) // the run will report the same failure
			continue
		}
		cs := choices(r, run.ops1, newCFS(), thorough && wi < 3)
		if wi > 0 { // the start-up phase (initial saveToDisk) is the same in every workload: enumerate it once
			first := 0
			for i, o := range run.ops1 {
				if o.kind == opMark {
					first = i
					break
				}
			}
			var keep []crashChoice
			for _, c := range cs {
				if c.k >= first {
					keep = append(keep, c)
				}
			}
			cs = keep
		}
		for i, c := range cs {
			if i%40 == 0 {
				hx.Emit("reset %d %d", wseed, n)
			}
			hx.Emit("crash %d %s w%d", c.k, c.tail, wseed)
		}
		// second generation
		var torn, rest []crashChoice
		for _, c := range cs {
			if c.torn {
				torn = append(torn, c)
			} else {
				rest = append(rest, c)
			}
		}
		nTorn, nRest := 10, 3
		if thorough {
			nTorn, nRest = 40, 8
		}
		var picks []crashChoice
		for i := 0; i < nTorn && len(torn) > 0; i++ {
			j := r.Intn(len(torn))
			picks = append(picks, torn[j])
			torn = append(torn[:j], torn[j+1:]...)
		}
		for i := 0; i < nRest && len(rest) > 0; i++ {
			j := r.Intn(len(rest))
			picks = append(picks, rest[j])
			rest = append(rest[:j], rest[j+1:]...)
		}
		if len(rest) > 0 { // always: the complete first generation, nothing lost
			picks = append(picks, rest[len(rest)-1])
		}
		for _, c := range picks {
			w2 := r.U64() % 1000000000
			n2 := 3 + r.Intn(5)
			hx.Emit("reset %d %d", wseed, n)
			hx.Emit("crash %d %s w%d", c.k, c.tail, wseed)
			hx.Emit("cont %d %d", w2, n2)
			run.reset(wseed, n)
			run.crash(c.k, c.tail)
			if run.cur == nil {
				continue
			}
			if t := run.cont(w2, n2); len(t) < 2 || t[:2] != "T " {
				continue
			}
			cs2 := choices(r, run.ops2, run.curImg, false)
			max2 := 10
			if thorough {
				max2 = 40
			}
			// always the end of the second generation with everything synced kept / unsynced lost
			end := len(run.ops2)
			hx.Emit("crash2 %d K w%d.%d.%s.%d", end, wseed, c.k, c.tail, w2)
			hx.Emit("crash2 %d L w%d.%d.%s.%d", end, wseed, c.k, c.tail, w2)
			for i := 0; i < max2 && len(cs2) > 0; i++ {
				j := r.Intn(len(cs2))
				hx.Emit("crash2 %d %s w%d.%d.%s.%d", cs2[j].k, cs2[j].tail, wseed, c.k, c.tail, w2)
				cs2 = append(cs2[:j], cs2[j+1:]...)
			}
			hx.Emit("close2 w%d.%d.%s.%d", wseed, c.k, c.tail, w2)
		}
	}
}
