// C29 harness: client incrementSequence (verif export) and kfake's sequence window through raw
// produce requests to the real kfake of this tree.
//
//	ops:  inc <s> <n>                       -> <result>
//	      reset                             -> ok            (fresh producer id)
//	      push <epoch> <first> <n>          -> accept <off> | dup <off> | reject | err <code>
//	      scen <start> <pausems> <lingerms> <maxbatchbytes> <brokers> <step>...  -> history (scen.go)
package main

import (
	"context"
	"fmt"
	"hash/crc32"
	"os"
	"strings"
	"time"

	"github.com/twmb/franz-go/pkg/kfake"
	"github.com/twmb/franz-go/pkg/kgo"
	"github.com/twmb/franz-go/pkg/kmsg"
	"verifharness/hx"
)

const M = int64(1) << 31

func gen(a hx.Args) {
	r := hx.NewRng(a.Seed)
	// client function: boundaries first, then random
	bs := []int64{0, 1, 2, 5, M/2 - 1, M / 2, M - 9, M - 3, M - 2, M - 1}
	ns := []int64{1, 2, 3, 7, 8, M / 2, M - 2, M - 1}
	for _, s := range bs {
		for _, n := range ns {
			hx.Emit("inc %d %d", s, n)
		}
	}
	for i := 0; i < a.N(4000, 400000); i++ {
		var s, n int64
		switch r.Intn(4) {
		case 0:
			s, n = r.Range(0, M-1), r.Range(1, M-1)
		case 1:
			n = r.Range(1, 64)
			s = M - n + r.Range(-4, 4)
		case 2:
			s = r.Range(M-100, M-1)
			n = r.Range(1, 200)
		default:
			n = r.Range(M-100, M-1)
			s = r.Range(0, 200)
		}
		if s < 0 {
			s = 0
		}
		if s > M-1 {
			s = M - 1
		}
		hx.Emit("inc %d %d", s, n)
	}
	// kfake histories
	for c := 0; c < a.N(150, 6000); c++ {
		hx.Emit("reset")
		epoch := int64(r.Intn(3))
		var seq int64
		switch r.Intn(5) {
		case 0:
			seq = 0
		case 1:
			seq = r.Range(0, M-1)
		default:
			seq = M - r.Range(1, 40) // close to the wrap
		}
		type acc struct{ first, n int64 }
		var hist []acc
		steps := 6 + r.Intn(14)
		for i := 0; i < steps; i++ {
			n := r.Range(1, 12)
			if r.Chance(5) {
				n = r.Range(M-50, M-1)
			}
			k := r.Intn(100)
			switch {
			case i == 0 || k < 55: // the correctly advanced next batch
				hx.Emit("push %d %d %d", epoch, seq, n)
				hist = append(hist, acc{seq, n})
				seq = (seq + n) % M
			case k < 75 && len(hist) > 0: // retry of a recent (or already evicted) batch
				h := hist[len(hist)-1-r.Intn(min(len(hist), 7))]
				hx.Emit("push %d %d %d", epoch, h.first, h.n)
			case k < 85: // wrong sequence around the expected one
				d := hx.Pick(r, []int64{-2, -1, 1, 2, M - 1})
				hx.Emit("push %d %d %d", epoch, ((seq+d)%M+M)%M, n)
			case k < 90: // sequence zero without epoch change
				hx.Emit("push %d 0 %d", epoch, n)
				if seq == 0 {
					hist = append(hist, acc{0, n})
					seq = n % M
				}
			case k < 96: // epoch bump, restart at 0
				epoch++
				hx.Emit("push %d 0 %d", epoch, n)
				hist = []acc{{0, n}}
				seq = n % M
			default: // epoch bump with a non-zero sequence: rejected, but kfake records the epoch
				hx.Emit("push %d %d %d", epoch+1, seq+1, n)
				epoch++
			}
		}
	}
	genScen(a, r)
}

type impl struct {
	c       *kfake.Cluster
	cl      *kgo.Client
	topicID [16]byte
	pid     int64
}

func newImpl() *impl {
	c, err := kfake.NewCluster(kfake.NumBrokers(1), kfake.SeedTopics(1, "t"))
	if err != nil {
		panic(err)
	}
	cl, err := kgo.NewClient(kgo.SeedBrokers(c.ListenAddrs()...), kgo.DisableIdempotentWrite(), kgo.RequestRetries(0))
	if err != nil {
		panic(err)
	}
	return &impl{c: c, cl: cl, topicID: c.TopicInfo("t").TopicID, pid: 1000}
}

func (im *impl) push(epoch int16, first, n int32) string {
	b := kmsg.RecordBatch{
		PartitionLeaderEpoch: -1, Magic: 2, Attributes: 0, LastOffsetDelta: n - 1,
		FirstTimestamp: 1, MaxTimestamp: 1, ProducerID: im.pid, ProducerEpoch: epoch, FirstSequence: first,
		NumRecords: n,
	}
	rec := kmsg.Record{Length: 0, Value: []byte("v")}
	recb := rec.AppendTo(nil)
	// the record's own length prefix: body length as varint (kmsg.Record.AppendTo writes Length as given)
	rec.Length = int32(len(recb) - 1)
	b.Records = rec.AppendTo(nil)
	raw := b.AppendTo(nil)
	b.Length = int32(len(raw) - 12)
	raw = b.AppendTo(nil)
	b.CRC = int32(crc32.Checksum(raw[21:], crc32.MakeTable(crc32.Castagnoli)))
	raw = b.AppendTo(nil)

	req := kmsg.NewPtrProduceRequest()
	req.Acks = -1
	req.TimeoutMillis = 5000
	rt := kmsg.NewProduceRequestTopic()
	rt.Topic = "t"
	rt.TopicID = im.topicID
	rp := kmsg.NewProduceRequestTopicPartition()
	rp.Partition = 0
	rp.Records = raw
	rt.Partitions = append(rt.Partitions, rp)
	req.Topics = append(req.Topics, rt)
	ctx, cancel := context.WithTimeout(context.Background(), 10*time.Second)
	defer cancel()
	kresp, err := im.cl.Broker(0).RetriableRequest(ctx, req)
	if err != nil {
		return "err-request:" + fmt.Sprint(err)
	}
	p := kresp.(*kmsg.ProduceResponse).Topics[0].Partitions[0]
	switch p.ErrorCode {
	case 0:
		// a duplicate is answered with the original offset; distinguishing it from an append needs the
		// high watermark, which ListOffsets gives us
		return fmt.Sprintf("ok %d", p.BaseOffset)
	case 45:
		return "reject"
	default:
		return fmt.Sprintf("err %d", p.ErrorCode)
	}
}

func (im *impl) hwm() int64 {
	req := kmsg.NewPtrListOffsetsRequest()
	req.ReplicaID = -1
	rt := kmsg.NewListOffsetsRequestTopic()
	rt.Topic = "t"
	rp := kmsg.NewListOffsetsRequestTopicPartition()
	rp.Partition = 0
	rp.Timestamp = -1
	rp.CurrentLeaderEpoch = -1
	rt.Partitions = append(rt.Partitions, rp)
	req.Topics = append(req.Topics, rt)
	ctx, cancel := context.WithTimeout(context.Background(), 10*time.Second)
	defer cancel()
	resp, err := req.RequestWith(ctx, im.cl.Broker(0))
	if err != nil {
		panic(err)
	}
	return resp.Topics[0].Partitions[0].Offset
}

func run() {
	var im *impl
	hx.RunLines(90*time.Second, func(t []string) (res string) {
		defer func() {
			if t[0] == "inc" {
				hx.St.Inc("op.inc")
			} else {
				hx.St.Inc("op." + t[0] + "." + strings.SplitN(strings.Fields(res + " ?")[0], ":", 2)[0])
			}
			if t[0] == "push" && len(t) == 4 || t[0] == "inc" {
				if a, b := hx.Atoi(t[len(t)-2]), hx.Atoi(t[len(t)-1]); a+b >= M {
					hx.St.Inc("wraps." + t[0])
				}
			}
		}()
		switch t[0] {
		case "inc":
			return hx.Itoa(int64(kgo.VerifIncrementSequence(int32(hx.Atoi(t[1])), int32(hx.Atoi(t[2])))))
		case "reset":
			if im == nil {
				im = newImpl()
			}
			im.pid++
			return "ok"
		case "push":
			before := im.hwm()
			res := im.push(int16(hx.Atoi(t[1])), int32(hx.Atoi(t[2])), int32(hx.Atoi(t[3])))
			var off int64
			if _, err := fmt.Sscanf(res, "ok %d", &off); err == nil {
				if im.hwm() != before {
					return fmt.Sprintf("accept %d", off)
				}
				return fmt.Sprintf("dup %d", off)
			}
			return res
		case "scen":
			return runScen(t)
		}
		return "bad-op"
	})
}

func main() {
	a := hx.Parse()
	switch a.Mode {
	case "gen":
		gen(a)
		hx.Flush()
	case "run":
		run()
	default:
		os.Exit(2)
	}
}
