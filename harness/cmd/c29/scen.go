// C29 scenarios: the REAL kgo producer of this tree against the real in-process kfake of this tree, with a
// partition whose producer sequence has been set just below 2^31 (verif hook
// kgo.VerifC29SetPartitionSequence), batches that cross the wrap, and forced REWINDS afterwards: leader
// moves (NOT_LEADER_FOR_PARTITION), retriable produce errors, connections cut before the broker saw a
// produce request and after it handled one.
//
//	op:   scen <start> <pausems> <lingerms> <maxbatchbytes> <brokers> <step>...
//	      pausems > 0: while producing, pause that long after every 5 records (several batches, up to 5 requests in flight)
//	steps pK   produce K records (async) and wait until every record so far is acknowledged
//	      aK   produce K records (async), do not wait
//	      sN   sleep N ms
//	      mv   move the partition's leader to the next broker
//	      kb   the next produce request is cut before kfake sees it (connection closed)
//	      da   the next produce request is handled by kfake, its response swallowed, the connection closed
//	      eC   the next produce request is answered with error code C by the broker without being handled
//
//	impl: h <event>...
//	      st:<seq>:<batch0Seq>         hook read-back before the first produce to the partition
//	      q:<rq>:<act>:<epoch>:<first>:<n>:<rid>   a produce batch for the partition as it reached the broker side, in arrival order
//	                                   (rq = request number; act 0 passed on, 1 cut before, 2 handled but response swallowed;
//	                                   rid = id of the first record in the batch)
//	      r:<rq>:<err>:<base>:<deliv>  the broker's answer for the partition (deliv 0 = swallowed)
//	      mv:<node>                    leader moved
//	      dl                           the client's data-loss hook fired
//	      pf:<k>                       number of records whose promise carried an error
//	      ep:<e>                       the client's producer epoch at the end
//	      want:<N>                     records produced
//	      log:<a-b,c-d,...>            final log of the partition: record ids in offset order as maximal runs of consecutive ids ("-" if empty)
//	      Q                            end (anything else at the end: ERR:<what>)
package main

import (
	"context"
	"fmt"
	"strconv"
	"strings"
	"sync"
	"sync/atomic"
	"time"

	"github.com/twmb/franz-go/pkg/kbin"
	"github.com/twmb/franz-go/pkg/kfake"
	"github.com/twmb/franz-go/pkg/kgo"
	"github.com/twmb/franz-go/pkg/kmsg"
	"verifharness/hx"
	"verifharness/sim"
)

const scenPart = int32(1)

func genScen(a hx.Args, r *hx.Rng) {
	n := a.N(60, 2500)
	for i := 0; i < n; i++ {
		// start: mostly so close to the wrap that the first or second batch crosses it
		var start int64
		switch r.Intn(10) {
		case 0:
			start = M - 1
		case 1:
			start = M - r.Range(100, 400) // crossed later in the scenario
		default:
			start = M - r.Range(1, 40)
		}
		pause := hx.Pick(r, []int{0, 0, 1, 2})
		linger := hx.Pick(r, []int{0, 0, 2, 5})
		maxb := hx.Pick(r, []int{0, 0, 0, 512, 700})
		brokers := hx.Pick(r, []int{1, 2, 2, 3})
		var steps []string
		// a first batch (or two) that is acknowledged, crossing the wrap when start is close enough
		steps = append(steps, fmt.Sprintf("p%d", r.Range(1, 60)))
		nf := 2 + r.Intn(5)
		for f := 0; f < nf; f++ {
			// a fault, then traffic that has to be re-sent
			switch k := r.Intn(10); {
			case k < 3 && brokers > 1:
				steps = append(steps, "mv")
			case k < 5:
				steps = append(steps, "kb")
			case k < 7:
				steps = append(steps, "da")
			case k < 9:
				steps = append(steps, fmt.Sprintf("e%d", hx.Pick(r, []int{6, 7, 19, 5})))
			default:
				if brokers > 1 {
					steps = append(steps, "mv")
				} else {
					steps = append(steps, "da")
				}
			}
			if r.Chance(35) { // several batches in flight when the fault hits
				steps = append(steps, fmt.Sprintf("a%d", r.Range(1, 30)))
				if r.Chance(50) {
					steps = append(steps, fmt.Sprintf("s%d", r.Range(1, 8)))
				}
				if r.Chance(40) {
					steps = append(steps, hx.Pick(r, []string{"kb", "da", "e6", "mv"}))
				}
			}
			steps = append(steps, fmt.Sprintf("p%d", r.Range(1, 40)))
		}
		hx.Emit("reset")
		hx.Emit("scen %d %d %d %d %d %s", start, pause, linger, maxb, brokers, strings.Join(steps, " "))
	}
}

func parseProduce(frame []byte) (*kmsg.ProduceRequest, bool) {
	if len(frame) < 8 {
		return nil, false
	}
	version := int16(uint16(frame[2])<<8 | uint16(frame[3]))
	req := kmsg.NewPtrProduceRequest()
	req.SetVersion(version)
	b := kbin.Reader{Src: frame[8:]}
	b.NullableString() // client id
	if req.IsFlexible() {
		kmsg.SkipTags(&b)
	}
	if err := req.ReadFrom(b.Src); err != nil {
		return nil, false
	}
	return req, true
}

func parseProduceResp(version int16, frame []byte) (*kmsg.ProduceResponse, bool) {
	resp := kmsg.NewPtrProduceResponse()
	resp.SetVersion(version)
	b := kbin.Reader{Src: frame[4:]}
	if resp.IsFlexible() {
		kmsg.SkipTags(&b)
	}
	if err := resp.ReadFrom(b.Src); err != nil {
		return nil, false
	}
	return resp, true
}

var scenPortBase atomic.Int64

// runs compresses record ids in offset order into maximal runs of consecutive numbers: "0-55,56-71"; "-" if empty.
func runs(ids []string) string {
	if len(ids) == 0 {
		return "-"
	}
	var out []string
	var lo, hi int64
	open := false
	flush := func() {
		if open {
			out = append(out, fmt.Sprintf("%d-%d", lo, hi))
		}
		open = false
	}
	for _, s := range ids {
		v, err := strconv.ParseInt(s, 10, 64)
		if err != nil {
			flush()
			out = append(out, "x"+s)
			continue
		}
		if open && v == hi+1 {
			hi = v
			continue
		}
		flush()
		lo, hi, open = v, v, true
	}
	flush()
	return strings.Join(out, ",")
}

func runScen(tk []string) string {
	if len(tk) < 7 {
		return "bad-op"
	}
	start := int32(hx.Atoi(tk[1]))
	pause, linger, maxb, brokers := int(hx.Atoi(tk[2])), int(hx.Atoi(tk[3])), int(hx.Atoi(tk[4])), int(hx.Atoi(tk[5]))
	steps := tk[6:]
	log := &sim.Log{}
	fail := func(what string) string { return "h " + log.String() + " ERR:" + what }

	net := &sim.Net{}
	// armed faults: consumed by produce request frames in arrival order
	var fmu sync.Mutex
	var armed []sim.Action
	var armedErr []int16
	net.Fault = func(key int16, nth int, frame []byte) sim.Action {
		if key != 0 {
			return sim.Pass
		}
		fmu.Lock()
		defer fmu.Unlock()
		if len(armed) == 0 {
			return sim.Pass
		}
		a := armed[0]
		armed = armed[1:]
		return a
	}
	type reqInfo struct {
		n       int
		version int16
		has     bool
	}
	var wmu sync.Mutex
	reqN := 0
	pendingReqs := map[int][]reqInfo{}
	net.OnRequest = func(conn int, key int16, frame []byte, act sim.Action) {
		if key != 0 {
			return
		}
		req, ok := parseProduce(frame)
		if !ok {
			log.Add("Wbad")
			return
		}
		wmu.Lock()
		defer wmu.Unlock()
		reqN++
		has := false
		for _, rt := range req.Topics {
			for _, rp := range rt.Partitions {
				if rp.Partition != scenPart {
					continue
				}
				var b kmsg.RecordBatch
				if err := b.ReadFrom(rp.Records); err != nil {
					log.Add("Wbad")
					continue
				}
				has = true
				rid := "?"
				rr := kbin.Reader{Src: b.Records}
				if l := rr.Varint(); rr.Ok() {
					body := rr.Span(int(l))
					var rec kmsg.Record
					full := append(kbin.AppendVarint(nil, l), body...)
					if rec.ReadFrom(full) == nil {
						rid = string(rec.Key)
					}
				}
				log.Add("q:%d:%d:%d:%d:%d:%s", reqN, int(act), b.ProducerEpoch, b.FirstSequence, b.NumRecords, rid)
			}
		}
		if act != sim.KillBefore {
			pendingReqs[conn] = append(pendingReqs[conn], reqInfo{reqN, req.Version, has})
		}
	}
	net.OnResponse = func(conn int, key int16, frame []byte, delivered bool) {
		if key != 0 {
			return
		}
		wmu.Lock()
		defer wmu.Unlock()
		q := pendingReqs[conn]
		if len(q) == 0 {
			return
		}
		ri := q[0]
		pendingReqs[conn] = q[1:]
		if !ri.has {
			return
		}
		resp, ok := parseProduceResp(ri.version, frame)
		if !ok {
			log.Add("Wbad")
			return
		}
		for _, rt := range resp.Topics {
			for _, rp := range rt.Partitions {
				if rp.Partition == scenPart {
					d := 0
					if delivered {
						d = 1
					}
					log.Add("r:%d:%d:%d:%d", ri.n, rp.ErrorCode, rp.BaseOffset, d)
				}
			}
		}
	}
	ports := make([]int, brokers)
	base := int(9000 + (scenPortBase.Add(1)%500)*10)
	for i := range ports {
		ports[i] = base + i
	}
	cluster, err := kfake.NewCluster(kfake.NumBrokers(brokers), kfake.Ports(ports...), kfake.SeedTopics(2, "t"), kfake.ListenFn(net.ListenFn))
	if err != nil {
		return fail("cluster:" + err.Error())
	}
	defer cluster.Close()
	cluster.ControlKey(0, func(kreq kmsg.Request) (kmsg.Response, error, bool) {
		cluster.KeepControl()
		fmu.Lock()
		var code int16
		if len(armedErr) > 0 {
			code = armedErr[0]
			armedErr = armedErr[1:]
		}
		fmu.Unlock()
		if code == 0 {
			return nil, nil, false
		}
		hx.St.Inc("fault.errcode")
		req := kreq.(*kmsg.ProduceRequest)
		resp := req.ResponseKind().(*kmsg.ProduceResponse)
		for _, rt := range req.Topics {
			st := kmsg.NewProduceResponseTopic()
			st.Topic, st.TopicID = rt.Topic, rt.TopicID
			for _, rp := range rt.Partitions {
				sp := kmsg.NewProduceResponseTopicPartition()
				sp.Partition = rp.Partition
				sp.ErrorCode = code
				st.Partitions = append(st.Partitions, sp)
			}
			resp.Topics = append(resp.Topics, st)
		}
		return resp, nil, true
	})

	var nDL atomic.Int64
	opts := []kgo.Opt{
		kgo.SeedBrokers(cluster.ListenAddrs()...), kgo.Dialer(net.Stack.DialContext),
		kgo.DefaultProduceTopic("t"), kgo.RecordPartitioner(kgo.ManualPartitioner()),
		kgo.ProducerLinger(time.Duration(linger) * time.Millisecond), kgo.ProducerBatchCompression(kgo.NoCompression()),
		kgo.MetadataMinAge(10 * time.Millisecond),
		kgo.RetryBackoffFn(func(int) time.Duration { return 5 * time.Millisecond }),
		kgo.ProducerOnDataLossDetected(func(string, int32) {
			nDL.Add(1)
			log.Add("dl")
		}),
	}
	if maxb > 0 {
		opts = append(opts, kgo.ProducerBatchMaxBytes(int32(maxb)))
	}
	cl, err := kgo.NewClient(opts...)
	if err != nil {
		return fail("client:" + err.Error())
	}
	defer cl.Close()
	ctx, cancel := context.WithTimeout(context.Background(), 60*time.Second)
	defer cancel()
	// metadata for the topic and a producer id: one record to the other partition
	if err := cl.ProduceSync(ctx, &kgo.Record{Partition: 0, Key: []byte("warmup")}).FirstErr(); err != nil {
		return fail("warmup:" + err.Error())
	}
	if !kgo.VerifC29SetPartitionSequence(cl, "t", scenPart, start) {
		return fail("hook")
	}
	s0, b0, nsr, ok := kgo.VerifC29PartitionSequence(cl, "t", scenPart)
	if !ok || nsr {
		return fail("hook-readback")
	}
	log.Add("st:%d:%d", s0, b0)

	var (
		nextID    int64
		pmu       sync.Mutex
		done      int64
		failed    int64
		doneCh    = make(chan struct{}, 1)
		crossed   bool
		produced  int64
		nFault    int
		waitAllTO bool
	)
	waitAll := func() bool {
		deadline := time.After(40 * time.Second)
		for {
			pmu.Lock()
			fin := done == nextID
			pmu.Unlock()
			if fin {
				return true
			}
			select {
			case <-doneCh:
			case <-time.After(20 * time.Millisecond):
			case <-deadline:
				return false
			}
		}
	}
	produce := func(k int) {
		for i := 0; i < k; i++ {
			pmu.Lock()
			id := nextID
			nextID++
			pmu.Unlock()
			rec := &kgo.Record{Partition: scenPart, Key: []byte(strconv.FormatInt(id, 10)), Value: []byte("v")}
			cl.Produce(ctx, rec, func(_ *kgo.Record, err error) {
				pmu.Lock()
				done++
				if err != nil {
					failed++
				}
				pmu.Unlock()
				select {
				case doneCh <- struct{}{}:
				default:
				}
			})
			if pause > 0 && i%5 == 4 {
				time.Sleep(time.Duration(pause) * time.Millisecond)
			}
		}
		produced += int64(k)
		if int64(start)+produced >= M {
			crossed = true
		}
	}
	for _, st := range steps {
		switch {
		case st == "mv":
			if brokers > 1 {
				to := (cluster.LeaderFor("t", scenPart) + 1) % int32(brokers)
				if cluster.MoveTopicPartition("t", scenPart, to) == nil {
					log.Add("mv:%d", to)
					hx.St.Inc("fault.leadermove")
					nFault++
				}
			}
		case st == "kb":
			fmu.Lock()
			armed = append(armed, sim.KillBefore)
			fmu.Unlock()
			hx.St.Inc("fault.killbefore")
			nFault++
		case st == "da":
			fmu.Lock()
			armed = append(armed, sim.DropAfter)
			fmu.Unlock()
			hx.St.Inc("fault.dropafter")
			nFault++
		case st[0] == 'e':
			fmu.Lock()
			armedErr = append(armedErr, int16(hx.Atoi(st[1:])))
			fmu.Unlock()
			nFault++
		case st[0] == 's':
			time.Sleep(time.Duration(hx.Atoi(st[1:])) * time.Millisecond)
		case st[0] == 'a':
			produce(int(hx.Atoi(st[1:])))
		case st[0] == 'p':
			produce(int(hx.Atoi(st[1:])))
			if !waitAll() {
				waitAllTO = true
			}
		default:
			return fail("bad-step:" + st)
		}
		if waitAllTO {
			break
		}
	}
	if waitAllTO || !waitAll() {
		return fail("records-not-acknowledged")
	}
	pmu.Lock()
	log.Add("pf:%d", failed)
	pmu.Unlock()
	pctx, pc := context.WithTimeout(ctx, 10*time.Second)
	_, ep, perr := cl.ProducerID(pctx)
	pc()
	if perr != nil {
		return fail("producer-id:" + perr.Error())
	}
	// the data-loss hook runs in its own goroutine: give a late one a moment
	time.Sleep(5 * time.Millisecond)
	log.Add("ep:%d", ep)
	log.Add("want:%d", nextID)
	cl.Close()

	// read the partition back
	end := cluster.PartitionInfo("t", scenPart).HighWatermark
	co, err := kgo.NewClient(kgo.SeedBrokers(cluster.ListenAddrs()...), kgo.Dialer(net.Stack.DialContext),
		kgo.ConsumePartitions(map[string]map[int32]kgo.Offset{"t": {scenPart: kgo.NewOffset().AtStart()}}),
		kgo.FetchMaxWait(100*time.Millisecond))
	if err != nil {
		return fail("consumer:" + err.Error())
	}
	defer co.Close()
	var ids []string
	var got int64
	dl := time.Now().Add(30 * time.Second)
	for got < end && time.Now().Before(dl) {
		fctx, fc := context.WithTimeout(ctx, 2*time.Second)
		fs := co.PollFetches(fctx)
		fc()
		fs.EachRecord(func(r *kgo.Record) {
			ids = append(ids, string(r.Key))
			if r.Offset+1 > got {
				got = r.Offset + 1
			}
		})
	}
	if got < end {
		return fail("readback-incomplete")
	}
	log.Add("log:%s", runs(ids))
	log.Add("Q")
	hx.St.Inc("scen.total")
	if crossed {
		hx.St.Inc("scen.crossed-wrap")
	}
	hx.St.Add("scen.faults", nFault)
	hx.St.Add("scen.records", int(nextID))
	return "h " + log.String()
}
