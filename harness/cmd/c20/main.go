// C20 harness: kgo.RecordFormatter output read back by kgo.RecordReader with the same layout.
//
//	ops:  rt <ast> <layoutHex> <chunk> <k> <rec>*k   -> S=<hex of the formatted stream> R=<rec>/…/<term>
//	      rd <ast> <layoutHex> <chunk> <streamHex>    -> R=<rec>/…/<term>
//	      fm <ast> <layoutHex> <chunk> <k> <rec>*k   -> S=<hex of the formatted stream>      (formatter alone)
//
// <ast> is the layout as a syntax tree (what the Lean model interprets), <layoutHex> the layout string printed
// from it (what the Go code parses; aliases, brace forms and escapes are chosen at random by the printer),
// <chunk> the size of the pieces the io.Reader hands out (0: everything at once).  See lean/Driver/C20.lean
// for the token grammar.
package main

import (
	"bytes"
	"encoding/hex"
	"errors"
	"fmt"
	"io"
	"os"
	"strconv"
	"strings"
	"time"

	"github.com/twmb/franz-go/pkg/kgo"
	"verifharness/hx"
)

// ---------------------------------------------------------------- AST

type fitem struct {
	kind byte // 'L' literal, 'N' number, 'X' text
	lit  []byte
	fld  byte   // N: T K V H p o e d x y; X: t k v
	nf   string // a h64 h32 h16 h8 h4 b64 b32 b16 l64 l32 l16 y o
	enc  byte   // p h b
}

type item struct {
	f     fitem
	isHdr bool
	inner []fitem
}

func (f fitem) tok() string {
	switch f.kind {
	case 'L':
		return "L" + hex.EncodeToString(f.lit)
	case 'N':
		return "N:" + string(f.fld) + ":" + f.nf
	default:
		return "X:" + string(f.fld) + ":" + string(f.enc)
	}
}

func astTok(L []item) string {
	var parts []string
	for _, it := range L {
		if it.isHdr {
			var in []string
			for _, f := range it.inner {
				in = append(in, f.tok())
			}
			parts = append(parts, "H("+strings.Join(in, ";")+")")
		} else {
			parts = append(parts, it.f.tok())
		}
	}
	return strings.Join(parts, ",")
}

var fmtBits = map[string]int{"h64": 64, "h32": 32, "h16": 16, "h8": 8, "h4": 4, "b64": 64, "b32": 32, "b16": 16,
	"l64": 64, "l32": 32, "l16": 16, "y": 8}
var fmtNames = map[string][]string{"a": {"", "{ascii}", "{number}"}, "h64": {"{hex64}"}, "h32": {"{hex32}"}, "h16": {"{hex16}"},
	"h8": {"{hex8}"}, "h4": {"{hex4}"}, "b64": {"{big64}"}, "b32": {"{big32}"}, "b16": {"{big16}"},
	"l64": {"{little64}"}, "l32": {"{little32}"}, "l16": {"{little16}"}, "y": {"{byte}", "{big8}", "{little8}"}, "o": {"{bool}"}}
var allFmts = []string{"a", "h64", "h32", "h16", "h8", "h4", "b64", "b32", "b16", "l64", "l32", "l16", "y", "o"}

func typeBits(fld byte) int {
	switch fld {
	case 'p', 'e':
		return 32
	case 'y':
		return 16
	}
	return 64
}

// ---------------------------------------------------------------- AST -> layout string (generator glue)

func litString(r *hx.Rng, b []byte, inHdr bool) string {
	var sb strings.Builder
	hexEsc := func(c byte) {
		if r.Bool() {
			fmt.Fprintf(&sb, "\\x%02x", c)
		} else {
			fmt.Fprintf(&sb, "\\x%02X", c)
		}
	}
	for _, c := range b {
		switch {
		case c == '%':
			if inHdr || r.Chance(30) { // "%%" directly before the closing brace of %h{…} hides that brace from the scanner
				hexEsc(c)
			} else {
				sb.WriteString("%%")
			}
		case c == '{' || c == '}':
			if r.Chance(30) {
				hexEsc(c)
			} else {
				sb.WriteByte('%')
				sb.WriteByte(c)
			}
		case c == '\\':
			if r.Chance(30) {
				hexEsc(c)
			} else {
				sb.WriteString("\\\\")
			}
		case c == '\t' && r.Chance(60):
			sb.WriteString("\\t")
		case c == '\n' && r.Chance(60):
			sb.WriteString("\\n")
		case c == '\r' && r.Chance(60):
			sb.WriteString("\\r")
		case c >= 0x20 && c < 0x7f:
			if r.Chance(10) {
				hexEsc(c)
			} else {
				sb.WriteByte(c)
			}
		default: // control bytes and bytes >= 0x80: mostly escaped, sometimes raw
			if r.Chance(25) {
				sb.WriteByte(c)
			} else {
				hexEsc(c)
			}
		}
	}
	return sb.String()
}

func fitemString(r *hx.Rng, f fitem, inHdr bool) string {
	switch f.kind {
	case 'L':
		return litString(r, f.lit, inHdr)
	case 'N':
		return "%" + string(f.fld) + hx.Pick(r, fmtNames[f.nf])
	default:
		switch f.enc {
		case 'h':
			return "%" + string(f.fld) + "{hex}"
		case 'b':
			return "%" + string(f.fld) + "{base64}"
		}
		if r.Chance(30) {
			return "%" + string(f.fld) + "{}"
		}
		return "%" + string(f.fld)
	}
}

func layoutString(r *hx.Rng, L []item) string {
	var sb strings.Builder
	for _, it := range L {
		if it.isHdr {
			sb.WriteString("%h{")
			for _, f := range it.inner {
				sb.WriteString(fitemString(r, f, true))
			}
			sb.WriteString("}")
		} else {
			sb.WriteString(fitemString(r, it.f, false))
		}
	}
	return sb.String()
}

// ---------------------------------------------------------------- records

type hdr struct{ k, v []byte }
type rec struct {
	topic, key, value []byte // nil key/value are printed "-"
	part, off, ts     int64
	le, pid, pe       int64
	hdrs              []hdr
}

func (x rec) tok() string {
	hs := "."
	if len(x.hdrs) > 0 {
		var p []string
		for _, h := range x.hdrs {
			p = append(p, hx.Hex(nonNil(h.k))+":"+hx.Hex(h.v))
		}
		hs = strings.Join(p, ",")
	}
	return fmt.Sprintf("%s;%s;%s;%d;%d;%d;%d;%d;%d;%s", hx.Hex(nonNil(x.topic)), hx.Hex(x.key), hx.Hex(x.value), x.part, x.off, x.ts, x.le, x.pid, x.pe, hs)
}

func nonNil(b []byte) []byte {
	if b == nil {
		return []byte{}
	}
	return b
}

func parseRec(s string) rec {
	p := strings.Split(s, ";")
	if len(p) != 10 {
		panic("bad record token " + s)
	}
	x := rec{topic: hx.UnHex(p[0]), key: hx.UnHex(p[1]), value: hx.UnHex(p[2]), part: hx.Atoi(p[3]), off: hx.Atoi(p[4]),
		ts: hx.Atoi(p[5]), le: hx.Atoi(p[6]), pid: hx.Atoi(p[7]), pe: hx.Atoi(p[8])}
	if p[9] != "." {
		for _, h := range strings.Split(p[9], ",") {
			kv := strings.Split(h, ":")
			x.hdrs = append(x.hdrs, hdr{hx.UnHex(kv[0]), hx.UnHex(kv[1])})
		}
	}
	return x
}

func (x rec) kgo() *kgo.Record {
	r := &kgo.Record{Topic: string(x.topic), Key: x.key, Value: x.value, Partition: int32(x.part), Offset: x.off,
		Timestamp: time.Unix(0, x.ts), LeaderEpoch: int32(x.le), ProducerID: x.pid, ProducerEpoch: int16(x.pe)}
	for _, h := range x.hdrs {
		r.Headers = append(r.Headers, kgo.RecordHeader{Key: string(h.k), Value: h.v})
	}
	return r
}

// what the reader returned, printed with nil-ness as Go has it
func showRead(r *kgo.Record) string {
	hs := "."
	if len(r.Headers) > 0 {
		var p []string
		for _, h := range r.Headers {
			p = append(p, hx.Hex([]byte(h.Key))+":"+hx.Hex(h.Value))
		}
		hs = strings.Join(p, ",")
	}
	ts := "z"
	if !r.Timestamp.IsZero() {
		ts = strconv.FormatInt(r.Timestamp.UnixNano(), 10)
	}
	return fmt.Sprintf("%s;%s;%s;%d;%d;%s;%d;%d;%d;%s", hx.Hex([]byte(r.Topic)), hx.Hex(r.Key), hx.Hex(r.Value), r.Partition, r.Offset, ts,
		r.LeaderEpoch, r.ProducerID, r.ProducerEpoch, hs)
}

// ---------------------------------------------------------------- generator

var i64pool = []int64{0, 1, 9, 10, 99, 100, 127, 128, 255, 256, 32767, 32768, 65535, 65536, 2147483647, 2147483648, 4294967295, 4294967296,
	9223372036854775807, -1, -1, -1, -2, -128, -129, -32768, -2147483648, -9223372036854775808, 1234567890123, 15, 16}

var msPool = []int64{0, 1, 999, 1000, 1700000000000, 1700000000123, -1, -1000, 2147483648, 9223372036854, -9223372036854, 255, 256, 65535}

func clampTo(bits int, v int64) int64 {
	switch bits {
	case 16:
		return int64(int16(v))
	case 32:
		return int64(int32(v))
	}
	return v
}

func fitsVal(fld byte, nf string, v int64) bool {
	switch nf {
	case "a":
		return true
	case "o":
		return v == 0 || v == 1
	}
	w := fmtBits[nf]
	if typeBits(fld) <= w {
		return true
	}
	return v >= 0 && (w >= 63 || v < int64(1)<<uint(w))
}

// formats with which a numeric field / a length is printed in the layout
func mentions(L []item, inner bool) map[byte][]string {
	m := map[byte][]string{}
	for _, it := range L {
		if it.isHdr {
			if inner {
				for _, f := range it.inner {
					if f.kind == 'N' {
						m[f.fld] = append(m[f.fld], f.nf)
					}
				}
			}
		} else if !inner && it.f.kind == 'N' {
			m[it.f.fld] = append(m[it.f.fld], it.f.nf)
		}
	}
	return m
}

func fitsAll(fld byte, nfs []string, v int64) bool {
	for _, nf := range nfs {
		if !fitsVal(fld, nf, v) {
			return false
		}
	}
	return true
}

func genNum(r *hx.Rng, fld byte, nfs []string, wantFit, nonNeg bool) int64 {
	var v int64
	for try := 0; try < 40; try++ {
		if fld == 'd' {
			ms := hx.Pick(r, msPool)
			if r.Chance(30) {
				ms = r.Range(-9223372036854, 9223372036854)
			}
			if r.Chance(25) {
				ms = r.Range(0, 70000)
			}
			v = ms
		} else {
			switch r.Intn(4) {
			case 0:
				v = int64(r.U64())
			case 1:
				v = r.Range(0, 300)
			default:
				v = hx.Pick(r, i64pool)
			}
			v = clampTo(typeBits(fld), v)
		}
		if nonNeg && v < 0 {
			v = clampTo(typeBits(fld), -v)
			if v < 0 {
				v = 0
			}
		}
		if !wantFit || fitsAll(fld, nfs, v) {
			return v
		}
	}
	if wantFit {
		if fitsAll(fld, nfs, 1) {
			return int64(r.Intn(2))
		}
		return 0
	}
	return v
}

var lenPool = []int{0, 0, 1, 1, 2, 3, 3, 4, 5, 6, 7, 8, 12, 15, 16, 17, 31, 32, 33, 100, 255, 256, 257, 300}

func genLen(r *hx.Rng, fld byte, nfs []string, wantFit bool, big bool) int {
	for try := 0; try < 40; try++ {
		n := hx.Pick(r, lenPool)
		if r.Chance(40) {
			n = r.Intn(12)
		}
		if big && r.Chance(3) {
			n = hx.Pick(r, []int{65535, 65536, 65537, 70000, 131072})
		}
		if !wantFit || fitsAll(fld, nfs, int64(n)) {
			return n
		}
	}
	return 0
}

func genBytes(r *hx.Rng, n int) []byte {
	if n == 0 {
		if r.Bool() {
			return nil
		}
		return []byte{}
	}
	b := r.Bytes(n)
	switch r.Intn(5) {
	case 0: // text that looks like the layout language / numbers / base64
		const al = "0123456789-+abcdefABCDEF=/\n\r%{} truefalse"
		for i := range b {
			b[i] = al[r.Intn(len(al))]
		}
	case 1:
		for i := range b {
			b[i] = byte('0' + r.Intn(10))
		}
	}
	return b
}

func genRec(r *hx.Rng, L []item, wantFit, nonNeg, big bool) rec {
	top := mentions(L, false)
	in := mentions(L, true)
	x := rec{}
	x.topic = genBytes(r, genLen(r, 'T', top['T'], wantFit, false))
	x.key = genBytes(r, genLen(r, 'K', top['K'], wantFit, big))
	x.value = genBytes(r, genLen(r, 'V', top['V'], wantFit, big))
	x.part = genNum(r, 'p', top['p'], wantFit, nonNeg)
	x.off = genNum(r, 'o', top['o'], wantFit, nonNeg)
	x.le = genNum(r, 'e', top['e'], wantFit, nonNeg)
	x.pid = genNum(r, 'x', top['x'], wantFit, nonNeg)
	x.pe = genNum(r, 'y', top['y'], wantFit, nonNeg)
	ms := genNum(r, 'd', top['d'], wantFit, nonNeg)
	x.ts = ms * 1000000
	if r.Chance(30) && ms > -9223372036854 && ms < 9223372036854 { // sub-millisecond part (lost by the layout language)
		sub := r.Range(0, 999999)
		if ms < 0 {
			x.ts -= sub
		} else {
			x.ts += sub
		}
		if ms == 0 && r.Bool() && !nonNeg {
			x.ts = -sub
		}
	}
	var nh int
	for try := 0; try < 40; try++ {
		nh = r.Intn(4)
		if r.Chance(20) {
			nh = hx.Pick(r, []int{0, 5, 15, 16, 17, 40})
		}
		if big && r.Chance(2) {
			nh = hx.Pick(r, []int{255, 256, 257})
		}
		if !wantFit || fitsAll('H', top['H'], int64(nh)) {
			break
		}
		nh = 0
	}
	for i := 0; i < nh; i++ {
		k := genBytes(r, genLen(r, 'K', in['K'], wantFit, false))
		v := genBytes(r, genLen(r, 'V', in['V'], wantFit, false))
		x.hdrs = append(x.hdrs, hdr{nonNil(k), v})
	}
	return x
}

var litPool = []string{"\n", " ", "\t", ",", ";", ":", "|", "\r\n", "=", "%", "{", "}", "\\", "%{", "}%", "key=", " v:", "\x00", "\xff", "\x80\x81", "é", "::", "a", "x9", "--", "-", "+", "7", "true", "f"}

func genLit(r *hx.Rng, afterASCII, safe bool) []byte {
	for {
		var b []byte
		if r.Chance(75) {
			b = []byte(hx.Pick(r, litPool))
		} else {
			b = r.Bytes(1 + r.Intn(4))
		}
		if afterASCII && safe && (b[0] >= '0' && b[0] <= '9' || b[0] == '-' || b[0] == '+') {
			continue
		}
		return b
	}
}

type genOpts struct {
	plainOnly bool // no {hex}/{base64} text
	noASCII   bool
	safeDelim bool // every ascii number is followed by an unambiguous literal
}

func genNumFmt(r *hx.Rng, fld byte, o genOpts) string {
	for {
		nf := hx.Pick(r, allFmts)
		if r.Chance(25) {
			nf = "a"
		}
		if nf == "a" && o.noASCII {
			continue
		}
		if nf == "o" && r.Chance(70) { // bool carries one bit; keep it rarer
			continue
		}
		return nf
	}
}

func genEnc(r *hx.Rng, o genOpts) byte {
	if o.plainOnly || r.Chance(50) {
		return 'p'
	}
	if r.Bool() {
		return 'h'
	}
	return 'b'
}

// a flat unit list over the given size/text verb letters; sizes precede their text
func genFlat(r *hx.Rng, texts []byte, nums []byte, o genOpts, allowHdr bool) []item {
	var L []item
	sizeOf := map[byte]byte{'t': 'T', 'k': 'K', 'v': 'V'}
	var pre []item  // size verbs hoisted to the front region
	var body []item // everything else in order
	for _, t := range texts {
		if !r.Chance(65) {
			continue
		}
		sz := item{f: fitem{kind: 'N', fld: sizeOf[t], nf: genNumFmt(r, sizeOf[t], o)}}
		tx := item{f: fitem{kind: 'X', fld: t, enc: genEnc(r, o)}}
		if r.Chance(25) {
			pre = append(pre, sz)
			body = append(body, tx)
		} else {
			body = append(body, sz, tx)
		}
		if r.Chance(6) { // the same text twice with one size verb
			body = append(body, tx)
		}
	}
	for _, n := range nums {
		if r.Chance(45) {
			body = append(body, item{f: fitem{kind: 'N', fld: n, nf: genNumFmt(r, n, o)}})
			if r.Chance(5) {
				body = append(body, item{f: fitem{kind: 'N', fld: n, nf: genNumFmt(r, n, o)}})
			}
		}
	}
	if allowHdr && r.Chance(50) {
		cnt := item{f: fitem{kind: 'N', fld: 'H', nf: genNumFmt(r, 'H', o)}}
		var inner []fitem
		for len(inner) == 0 {
			for _, it := range genFlat(r, []byte{'k', 'v'}, nil, o, false) {
				inner = append(inner, it.f)
			}
		}
		blk := item{isHdr: true, inner: inner}
		if r.Chance(25) {
			pre = append(pre, cnt)
			body = append(body, blk)
		} else if r.Chance(10) {
			body = append(body, cnt) // count without block
		} else {
			body = append(body, cnt, blk)
		}
	}
	// shuffle units of body while keeping size-before-text: shuffle groups
	groups := [][]item{}
	for i := 0; i < len(body); i++ {
		g := []item{body[i]}
		if body[i].f.kind == 'N' && strings.IndexByte("TKVH", body[i].f.fld) >= 0 && !body[i].isHdr && i+1 < len(body) {
			g = append(g, body[i+1])
			i++
		}
		groups = append(groups, g)
	}
	for i := len(groups) - 1; i > 0; i-- {
		j := r.Intn(i + 1)
		groups[i], groups[j] = groups[j], groups[i]
	}
	// a duplicated text verb may have been shuffled before its size verb: hoist all pre sizes first, then check below
	L = append(L, pre...)
	for _, g := range groups {
		L = append(L, g...)
	}
	// repair size-before-text order
	seen := map[byte]bool{}
	var fixed []item
	for _, it := range L {
		if it.isHdr {
			if !seen['H'] {
				continue
			}
		} else if it.f.kind == 'N' {
			if seen[it.f.fld] && strings.IndexByte("TKVH", it.f.fld) >= 0 {
				continue
			}
			seen[it.f.fld] = true
		} else if it.f.kind == 'X' && !seen[sizeOf[it.f.fld]] {
			continue
		}
		fixed = append(fixed, it)
	}
	L = fixed
	// literals: after ascii numbers, and sprinkled
	var out []item
	for i, it := range L {
		if i == 0 && r.Chance(25) {
			out = append(out, item{f: fitem{kind: 'L', lit: genLit(r, false, true)}})
		}
		out = append(out, it)
		isASCII := !it.isHdr && it.f.kind == 'N' && it.f.nf == "a"
		if isASCII && (o.safeDelim || r.Chance(90)) {
			out = append(out, item{f: fitem{kind: 'L', lit: genLit(r, true, o.safeDelim || r.Chance(90))}})
		} else if !isASCII && r.Chance(35) {
			out = append(out, item{f: fitem{kind: 'L', lit: genLit(r, false, true)}})
		}
	}
	return out
}

func genLayout(r *hx.Rng, o genOpts) []item {
	for {
		L := genFlat(r, []byte{'t', 'k', 'v'}, []byte{'p', 'o', 'e', 'd', 'x', 'y'}, o, true)
		// the inner ascii numbers of a header block need their literal inside the block
		ok := len(L) > 0
		for i := range L {
			if L[i].isHdr {
				in := L[i].inner
				if n := len(in); n > 0 && in[n-1].kind == 'N' && in[n-1].nf == "a" {
					L[i].inner = append(in, fitem{kind: 'L', lit: genLit(r, true, true)})
				}
			}
		}
		// a layout must start with something that reads (always true here) and have at least one verb
		verbs := 0
		for _, it := range L {
			if it.isHdr || it.f.kind != 'L' {
				verbs++
			}
		}
		if ok && verbs > 0 {
			return L
		}
	}
}

// Cases outside the class of roundtrip_partial (encoded text, ascii numbers that may be negative) can end in a
// known-finding verdict, and the pipeline does not report model/implementation differences on such lines. So the
// same content is also emitted as `fm` (formatter alone) and `rd` (reader alone on the formatter's bytes), whose
// verdict is `-`: there every difference between model and code counts.
func outsideProved(L []item) bool {
	chk := func(f fitem) bool { return f.kind == 'X' && f.enc != 'p' || f.kind == 'N' && f.nf == "a" }
	for _, it := range L {
		if it.isHdr {
			for _, f := range it.inner {
				if chk(f) {
					return true
				}
			}
		} else if chk(it.f) {
			return true
		}
	}
	return false
}

func emitRT(r *hx.Rng, L []item, recs []rec) {
	var sb strings.Builder
	lay := layoutString(r, L)
	fmt.Fprintf(&sb, "%s %s %d %d", astTok(L), hex.EncodeToString([]byte(lay)), hx.Pick(r, []int{0, 0, 0, 1, 2, 3, 7, 4096}), len(recs))
	for _, x := range recs {
		sb.WriteByte(' ')
		sb.WriteString(x.tok())
	}
	hx.Emit("rt %s", sb.String())
	if outsideProved(L) && len(recs) > 0 {
		hx.Emit("fm %s", sb.String())
		s, err := formatStream(lay, recs)
		if err != nil {
			panic("generator: layout rejected by the formatter: " + lay + ": " + err.Error())
		}
		if len(s) <= 1<<16 {
			hx.Emit("rd %s %s %d %s", astTok(L), hex.EncodeToString([]byte(lay)), hx.Pick(r, []int{0, 1, 5}), hx.Hex(nonNil(s)))
		}
	}
}

func emitRD(r *hx.Rng, L []item, stream []byte) {
	hx.Emit("rd %s %s %d %s", astTok(L), hex.EncodeToString([]byte(layoutString(r, L))), hx.Pick(r, []int{0, 0, 1, 3, 4096}), hx.Hex(nonNil(stream)))
}

func formatStream(layout string, recs []rec) ([]byte, error) {
	f, err := kgo.NewRecordFormatter(layout)
	if err != nil {
		return nil, err
	}
	var b []byte
	for _, x := range recs {
		b = f.AppendRecord(b, x.kgo())
	}
	return b, nil
}

func mutate(r *hx.Rng, s []byte) ([]byte, string) {
	s = append([]byte{}, s...)
	switch k := r.Intn(10); {
	case k < 4 && len(s) > 0: // truncation
		var n int
		switch r.Intn(4) {
		case 0:
			n = len(s) - 1
		case 1:
			n = r.Intn(min(len(s), 6))
		default:
			n = r.Intn(len(s))
		}
		return s[:n], "truncate"
	case k < 6 && len(s) > 0: // one byte changed
		i := r.Intn(len(s))
		s[i] = hx.Pick(r, []byte{0, 0xff, '0', '9', '-', 'g', '=', '\n', s[i] ^ 1, s[i] + 1, byte(r.U64())})
		return s, "flip"
	case k < 7: // bytes inserted
		i := r.Intn(len(s) + 1)
		ins := hx.Pick(r, [][]byte{[]byte("9"), []byte("99999999999999999999"), []byte("18446744073709551615"), bytes.Repeat([]byte{0xff}, 8),
			{0x7f, 0xff, 0xff, 0xff, 0xff, 0xff, 0xff, 0xff}, []byte("ffffffffffffffff"), []byte("\n"), []byte("true"), []byte("fals"), r.Bytes(1 + r.Intn(3))})
		return append(s[:i], append(append([]byte{}, ins...), s[i:]...)...), "insert"
	case k < 8 && len(s) > 1: // bytes removed
		i := r.Intn(len(s) - 1)
		n := 1 + r.Intn(min(3, len(s)-i-1))
		return append(s[:i], s[i+n:]...), "delete"
	case k < 9: // stream repeated / appended garbage
		return append(s, r.Bytes(1+r.Intn(5))...), "append"
	default:
		return r.Bytes(r.Intn(12)), "random"
	}
}

func boundaryRecs(fld byte, nf string) []rec {
	var out []rec
	for _, v := range i64pool {
		x := rec{ts: 0}
		v = clampTo(typeBits(fld), v)
		switch fld {
		case 'p':
			x.part = v
		case 'o':
			x.off = v
		case 'e':
			x.le = v
		case 'x':
			x.pid = v
		case 'y':
			x.pe = v
		case 'd':
			if v > 9223372036854 || v < -9223372036854 {
				continue
			}
			x.ts = v * 1000000
		}
		out = append(out, x)
	}
	return out
}

func gen(a hx.Args) {
	r := hx.NewRng(a.Seed)
	nl := item{f: fitem{kind: 'L', lit: []byte("\n")}}
	// 1. small-scope enumeration: every numeric verb x every number format x the boundary pool
	for _, fld := range []byte{'p', 'o', 'e', 'd', 'x', 'y'} {
		for _, nf := range allFmts {
			L := []item{{f: fitem{kind: 'N', fld: fld, nf: nf}}, nl}
			for _, x := range boundaryRecs(fld, nf) {
				emitRT(r, L, []rec{x})
			}
			emitRT(r, L, boundaryRecs(fld, nf)) // and as one stream
		}
	}
	// every text verb x encoding x size format x lengths 0..5 (+ boundary lengths of the size format)
	for _, t := range []byte{'t', 'k', 'v'} {
		for _, e := range []byte{'p', 'h', 'b'} {
			for _, nf := range allFmts {
				sz := map[byte]byte{'t': 'T', 'k': 'K', 'v': 'V'}[t]
				L := []item{{f: fitem{kind: 'N', fld: sz, nf: nf}}}
				if nf == "a" {
					L = append(L, item{f: fitem{kind: 'L', lit: []byte(":")}})
				}
				L = append(L, item{f: fitem{kind: 'X', fld: t, enc: e}}, nl)
				for _, n := range []int{0, 1, 2, 3, 4, 5, 15, 16, 255, 256} {
					x := rec{}
					b := r.Bytes(n)
					switch t {
					case 't':
						x.topic = b
					case 'k':
						x.key = b
					case 'v':
						x.value = b
					}
					emitRT(r, L, []rec{x, x})
				}
			}
		}
	}
	// header blocks: count format x 0..3 headers x encodings
	for _, nf := range allFmts {
		for _, e := range []byte{'p', 'h', 'b'} {
			L := []item{{f: fitem{kind: 'N', fld: 'H', nf: nf}}}
			if nf == "a" {
				L = append(L, item{f: fitem{kind: 'L', lit: []byte(" ")}})
			}
			L = append(L, item{isHdr: true, inner: []fitem{{kind: 'N', fld: 'K', nf: "y"}, {kind: 'X', fld: 'k', enc: e}, {kind: 'N', fld: 'V', nf: "b32"}, {kind: 'X', fld: 'v', enc: 'p'}}}, nl)
			for nh := 0; nh <= 3; nh++ {
				x := rec{}
				for i := 0; i < nh; i++ {
					x.hdrs = append(x.hdrs, hdr{nonNil(genBytes(r, r.Intn(4))), genBytes(r, r.Intn(4))})
				}
				emitRT(r, L, []rec{x, x})
			}
		}
	}
	// 2. random layouts and records. Half of the cases stay inside the class where the full statement is
	// expected to hold for the code as it is (plain text, non-negative ascii), so that a regression there shows.
	n := a.N(6000, 30000)
	for i := 0; i < n; i++ {
		o := genOpts{}
		nonNeg := false
		switch r.Intn(10) {
		case 0, 1, 2, 3, 4:
			o.plainOnly, o.safeDelim, nonNeg = true, true, true
		case 5:
			o.plainOnly, o.safeDelim = true, true // negative ascii numbers possible
		case 6, 7:
			o.safeDelim, nonNeg = true, true // encoded text possible
		case 8:
			o.safeDelim = true
		default:
		}
		L := genLayout(r, o)
		wantFit := r.Chance(92)
		k := hx.Pick(r, []int{0, 1, 1, 1, 2, 2, 3, 5})
		big := r.Chance(4)
		var recs []rec
		for j := 0; j < k; j++ {
			recs = append(recs, genRec(r, L, wantFit, nonNeg, big && o.plainOnly))
		}
		emitRT(r, L, recs)
		// 3. malformed streams for the reader, derived from what the formatter wrote
		if r.Chance(35) {
			o2 := o
			if r.Chance(70) {
				o2.plainOnly = true
			}
			L2 := genLayout(r, o2)
			var rs []rec
			for j := 0; j < 1+r.Intn(3); j++ {
				rs = append(rs, genRec(r, L2, true, r.Chance(80), false))
			}
			lay := layoutString(r, L2)
			s, err := formatStream(lay, rs)
			if err != nil {
				panic("generator: layout rejected by the formatter: " + lay + ": " + err.Error())
			}
			s, _ = mutate(r, s)
			if r.Chance(15) {
				s, _ = mutate(r, s)
			}
			emitRD(r, L2, s)
		}
	}
}

// ---------------------------------------------------------------- run

type chunkReader struct {
	b []byte
	n int
}

func (c *chunkReader) Read(p []byte) (int, error) {
	if len(c.b) == 0 {
		return 0, io.EOF
	}
	n := len(p)
	if c.n > 0 && n > c.n {
		n = c.n
	}
	if n > len(c.b) {
		n = len(c.b)
	}
	copy(p, c.b[:n])
	c.b = c.b[n:]
	return n, nil
}

const maxReads = 1000

func readAll(layout string, stream []byte, chunk int) string {
	rd, err := kgo.NewRecordReader(&chunkReader{b: stream, n: chunk}, layout)
	if err != nil {
		return "nr-err"
	}
	var parts []string
	term := "more"
	for i := 0; i < maxReads; i++ {
		rec, err := rd.ReadRecord()
		if err != nil {
			switch {
			case err == io.EOF:
				term = "eof"
			case errors.Is(err, io.ErrUnexpectedEOF):
				term = "ueof"
			default:
				term = "err"
			}
			hx.St.Inc("term." + term)
			break
		}
		parts = append(parts, showRead(rec))
	}
	if term == "more" {
		hx.St.Inc("term.more")
	}
	parts = append(parts, term)
	return "R=" + strings.Join(parts, "/")
}

func classify(ast string) {
	for _, it := range strings.FieldsFunc(ast, func(c rune) bool { return c == ',' || c == ';' || c == '(' || c == ')' }) {
		switch {
		case strings.HasPrefix(it, "N:"):
			p := strings.Split(it, ":")
			hx.St.Inc("verb.%" + p[1])
			hx.St.Inc("numfmt." + p[2])
		case strings.HasPrefix(it, "X:"):
			p := strings.Split(it, ":")
			hx.St.Inc("verb.%" + p[1])
			hx.St.Inc("textenc." + p[2])
		case it == "H":
			hx.St.Inc("verb.%h")
		case strings.HasPrefix(it, "L"):
			hx.St.Inc("literal")
		}
	}
}

func run() {
	hx.RunLines(20*time.Second, func(t []string) string {
		hx.St.Inc("op." + t[0])
		classify(t[1])
		lay, err := hex.DecodeString(t[2])
		if err != nil {
			panic("bad layout hex")
		}
		layout := string(lay)
		chunk := int(hx.Atoi(t[3]))
		switch t[0] {
		case "rt", "fm":
			k := int(hx.Atoi(t[4]))
			if len(t) != 5+k {
				panic("bad rt op")
			}
			hx.St.Inc("records." + bucket(k))
			f, err := kgo.NewRecordFormatter(layout)
			if err != nil {
				hx.St.Inc("formatter-rejected")
				return "nf-err"
			}
			var s []byte
			for _, tok := range t[5:] {
				x := parseRec(tok)
				hx.St.Inc(fmt.Sprintf("headers.%s", bucket(len(x.hdrs))))
				hx.St.Inc(fmt.Sprintf("valuelen.%s", bucket(len(x.value))))
				s = f.AppendRecord(s, x.kgo())
			}
			if t[0] == "fm" {
				return "S=" + hx.Hex(nonNil(s))
			}
			res := readAll(layout, s, chunk)
			if res == "nr-err" {
				return res
			}
			return "S=" + hx.Hex(nonNil(s)) + " " + res
		case "rd":
			s := hx.UnHex(t[4])
			return readAll(layout, s, chunk)
		}
		panic("unknown op " + t[0])
	})
}

func bucket(n int) string {
	switch {
	case n == 0:
		return "0"
	case n <= 1:
		return "1"
	case n <= 4:
		return "2-4"
	case n <= 16:
		return "5-16"
	case n <= 255:
		return "17-255"
	case n <= 65535:
		return "256-65535"
	}
	return "65536+"
}

func main() {
	a := hx.Parse()
	switch a.Mode {
	case "gen":
		gen(a)
		hx.Flush()
	case "run":
		run()
	default:
		fmt.Fprintln(os.Stderr, "unknown mode")
		os.Exit(2)
	}
}
