// C38 harness: builds kgo.Fetches values in-process from a shape and calls every accessor.
//
//	op:  fx <lim> <shape tokens…>     (grammar in lean/Driver/C38.lean)
//	out: iter= all= brk= each= recs= num= empty= parts= topics= errors= eacherr= err= err0= closed=
//
// Record identity is Record.Offset. Error codes: 0 nil, 1 kgo.ErrClientClosed, 2 an error wrapping it,
// 3.. a pool of kerr / context / *ErrDataLoss / errors.New values. Topic IDs are decimal numbers written
// big-endian into the 16 bytes.
package main

import (
	"context"
	"errors"
	"fmt"
	"math/big"
	"os"
	"sort"
	"strconv"
	"strings"
	"time"

	"github.com/twmb/franz-go/pkg/kerr"
	"github.com/twmb/franz-go/pkg/kgo"
	"verifharness/hx"
)

var errPool = []error{
	nil,
	kgo.ErrClientClosed,
	fmt.Errorf("wrapped: %w", kgo.ErrClientClosed),
	kerr.OffsetOutOfRange,
	kerr.UnknownTopicOrPartition,
	context.Canceled,
	&kgo.ErrDataLoss{Topic: "x", Partition: 1, ConsumedTo: 5, ResetTo: 2},
	errors.New("e7"),
	errors.New("e8"),
}
var errCode = map[error]int{}

func init() {
	for i, e := range errPool {
		if e != nil {
			errCode[e] = i
		}
	}
}

func code(e error) string {
	if e == nil {
		return "0"
	}
	c, ok := errCode[e]
	if !ok {
		return "unknown-error"
	}
	return strconv.Itoa(c)
}

// ---------------------------------------------------------------- generator

var idPool = []string{"0", "1", "2", "255", "256", "18446744073709551616", "1329227995784915872903807060280344576", "340282366920938463463374607431768211455"}
var names = []string{"a", "b", "c", "d", ""}

type gen struct {
	r      *hx.Rng
	nextID int64
	sb     strings.Builder
}

func (g *gen) part(nrec int, err int) {
	fmt.Fprintf(&g.sb, " P %d %d %d", g.r.Range(-1, 5), err, nrec)
	for i := 0; i < nrec; i++ {
		g.nextID++
		fmt.Fprintf(&g.sb, " %d", g.nextID)
	}
}

func (g *gen) errChoice() int {
	if g.r.Chance(70) {
		return 0
	}
	return 1 + g.r.Intn(len(errPool)-1)
}

// idFor: a topic name mostly keeps one non-zero id, sometimes reports zero, rarely another id
func (g *gen) idFor(name string, home map[string]string) string {
	h, ok := home[name]
	if !ok {
		h = hx.Pick(g.r, idPool)
		home[name] = h
	}
	switch k := g.r.Intn(100); {
	case k < 60:
		return h
	case k < 90:
		return "0"
	default:
		return hx.Pick(g.r, idPool)
	}
}

func (g *gen) random(maxF, maxT, maxP, maxR int) string {
	g.sb.Reset()
	g.nextID = 0
	home := map[string]string{}
	some := func(pZero, max int) int { // mostly at least one
		if g.r.Chance(pZero) {
			return 0
		}
		return 1 + g.r.Intn(max)
	}
	nf := some(4, maxF)
	for f := 0; f < nf; f++ {
		g.sb.WriteString(" F")
		nt := some(10, maxT)
		for t := 0; t < nt; t++ {
			name := hx.Pick(g.r, names)
			fmt.Fprintf(&g.sb, " T _%s %s", name, g.idFor(name, home))
			np := some(15, maxP)
			for p := 0; p < np; p++ {
				nrec := 0
				if g.r.Chance(60) {
					nrec = 1 + g.r.Intn(maxR)
				}
				g.part(nrec, g.errChoice())
			}
		}
	}
	return g.sb.String()
}

func (g *gen) lim() int {
	if g.r.Chance(30) {
		return 0
	}
	return 1 + g.r.Intn(int(g.nextID)+2)
}

// exhaustive skeletons: ≤ 3 fetches, ≤ 2 topics per fetch, ≤ 2 partitions per topic, 0 or 2 records per
// partition; names, ids and errors are drawn from the rng for each skeleton.
func (g *gen) exhaustive() {
	partShapes := [][]int{{}, {0}, {2}, {0, 0}, {0, 2}, {2, 0}, {2, 2}}
	var fetchShapes [][][]int // fetch = list of topics = list of partition record counts
	fetchShapes = append(fetchShapes, [][]int{})
	for _, a := range partShapes {
		fetchShapes = append(fetchShapes, [][]int{a})
	}
	for _, a := range partShapes {
		for _, b := range partShapes {
			fetchShapes = append(fetchShapes, [][]int{a, b})
		}
	}
	emit := func(fs [][][]int) {
		g.sb.Reset()
		g.nextID = 0
		home := map[string]string{}
		for _, f := range fs {
			g.sb.WriteString(" F")
			for _, t := range f {
				name := hx.Pick(g.r, names[:2])
				if g.r.Chance(10) {
					name = hx.Pick(g.r, names)
				}
				fmt.Fprintf(&g.sb, " T _%s %s", name, g.idFor(name, home))
				for _, n := range t {
					g.part(n, g.errChoice())
				}
			}
		}
		s := g.sb.String()
		hx.Emit("fx %d%s", g.lim(), s)
	}
	emit(nil)
	for _, a := range fetchShapes {
		emit([][][]int{a})
	}
	for _, a := range fetchShapes {
		for _, b := range fetchShapes {
			emit([][][]int{a, b})
		}
	}
	for _, a := range fetchShapes {
		for _, b := range fetchShapes {
			for _, c := range fetchShapes {
				emit([][][]int{a, b, c})
			}
		}
	}
}

// seedMix scatters VERIF_SEED before it reaches hx.NewRng: NewRng's state is seed*G+c and every draw adds G, so
// consecutive seeds would otherwise yield the same stream shifted by one draw (measured: seeds 1 and 2 gave
// op files differing in 4 of 17784 lines). All random choices still derive from hx.NewRng.
func seedMix(s uint64) uint64 {
	z := s + 0x9E3779B97F4A7C15
	z = (z ^ (z >> 30)) * 0xBF58476D1CE4E5B9
	z = (z ^ (z >> 27)) * 0x94D049BB133111EB
	return z ^ (z >> 31)
}

func generate(a hx.Args) {
	g := &gen{r: hx.NewRng(seedMix(a.Seed))}
	// fixed boundary shapes
	for _, s := range []string{
		"fx 0", "fx 0 F", "fx 1 F F F", "fx 0 F T _a 0", "fx 0 F T _a 5 P 0 0 0",
		"fx 0 F T _a 0 P 0 1 0", "fx 0 F T _a 0 P 0 2 0", "fx 0 F T _a 0 P 0 1 0 P 1 1 0", "fx 0 F T _a 0 P 0 1 0 F",
		"fx 0 F T _a 0 P 0 5 0 F T _a 9 P 1 0 1 7", "fx 2 F T _a 9 P 0 0 0 P 1 0 3 1 2 3 F T _a 0 P 2 0 1 4 F T _b 0 F T _a 3 P 3 3 0",
		"fx 1 F T _a 1 P 0 0 0 T _a 2 P 1 0 1 1", "fx 0 F T _a 1 P 0 0 1 1 T _b 0 T _a 0 P 1 0 1 2 F",
	} {
		hx.Emit("%s", s)
	}
	for i := 0; i < a.N(20000, 100000); i++ {
		s := g.random(4, 4, 4, 5)
		hx.Emit("fx %d%s", g.lim(), s)
	}
	for i := 0; i < a.N(20, 200); i++ {
		s := g.random(30, 8, 8, 20)
		hx.Emit("fx %d%s", g.lim(), s)
	}
	if a.Tier == "thorough" {
		g.exhaustive()
	}
}

// ---------------------------------------------------------------- implementation side

func topicID(dec string) [16]byte {
	n, ok := new(big.Int).SetString(dec, 10)
	if !ok || n.Sign() < 0 || n.BitLen() > 128 {
		panic("bad topic id " + dec)
	}
	var id [16]byte
	n.FillBytes(id[:])
	return id
}

func idDec(id [16]byte) string { return new(big.Int).SetBytes(id[:]).String() }

func build(t []string) (kgo.Fetches, int, int) {
	var fs kgo.Fetches
	nparts, nrecs := 0, 0
	for i := 0; i < len(t); {
		switch t[i] {
		case "F":
			fs = append(fs, kgo.Fetch{})
			i++
		case "T":
			f := &fs[len(fs)-1]
			f.Topics = append(f.Topics, kgo.FetchTopic{Topic: strings.TrimPrefix(t[i+1], "_"), TopicID: topicID(t[i+2])})
			i += 3
		case "P":
			f := &fs[len(fs)-1]
			tp := &f.Topics[len(f.Topics)-1]
			n := int(hx.Atoi(t[i+3]))
			p := kgo.FetchPartition{Partition: int32(hx.Atoi(t[i+1])), Err: errPool[hx.Atoi(t[i+2])]}
			for j := 0; j < n; j++ {
				p.Records = append(p.Records, &kgo.Record{Offset: hx.Atoi(t[i+4+j]), Topic: tp.Topic, Partition: p.Partition})
			}
			tp.Partitions = append(tp.Partitions, p)
			nparts++
			nrecs += n
			i += 4 + n
		default:
			panic("bad shape token " + t[i])
		}
	}
	return fs, nparts, nrecs
}

func ids(rs []*kgo.Record) string {
	if len(rs) == 0 {
		return "~"
	}
	var sb strings.Builder
	for i, r := range rs {
		if i > 0 {
			sb.WriteByte(',')
		}
		sb.WriteString(strconv.FormatInt(r.Offset, 10))
	}
	return sb.String()
}

func joinOr(sep string, xs []string) string {
	if len(xs) == 0 {
		return "~"
	}
	return strings.Join(xs, sep)
}

func bucket(n int) string {
	switch {
	case n == 0:
		return "0"
	case n == 1:
		return "1"
	case n <= 4:
		return "2-4"
	case n <= 16:
		return "5-16"
	case n <= 100:
		return "17-100"
	}
	return ">100"
}

func runOp(t []string) string {
	if t[0] != "fx" || len(t) < 2 {
		return "bad-op"
	}
	lim := int(hx.Atoi(t[1]))
	fs, nparts, nrecs := build(t[2:])
	hx.St.Inc("fetches." + bucket(len(fs)))
	hx.St.Inc("partitions." + bucket(nparts))
	hx.St.Inc("records." + bucket(nrecs))
	if lim == 0 {
		hx.St.Inc("break.none")
	} else if lim <= nrecs {
		hx.St.Inc("break.inside")
	} else {
		hx.St.Inc("break.beyond")
	}

	var iter []*kgo.Record
	for it := fs.RecordIter(); !it.Done(); {
		iter = append(iter, it.Next())
	}
	var all, brk []*kgo.Record
	for r := range fs.RecordsAll() {
		all = append(all, r)
	}
	for r := range fs.RecordsAll() {
		brk = append(brk, r)
		if len(brk) == lim {
			break
		}
	}
	var each []*kgo.Record
	fs.EachRecord(func(r *kgo.Record) { each = append(each, r) })
	recs := fs.Records()
	num := fs.NumRecords()
	empty := fs.Empty()

	var parts []string
	fs.EachPartition(func(p kgo.FetchTopicPartition) {
		parts = append(parts, fmt.Sprintf("_%s/%d/%s/%s", p.Topic, p.Partition, code(p.Err), ids(p.Records)))
	})
	type tp struct{ name, s string }
	var topics []tp
	repeated, seen := false, map[string]bool{}
	for _, f := range fs {
		for _, t := range f.Topics {
			if seen[t.Topic] {
				repeated = true
			}
			seen[t.Topic] = true
		}
	}
	if repeated {
		hx.St.Inc("topic-repeated")
	}
	fs.EachTopic(func(t kgo.FetchTopic) {
		var ps []string
		for _, p := range t.Partitions {
			ps = append(ps, fmt.Sprintf("%d:%s:%s", p.Partition, code(p.Err), ids(p.Records)))
		}
		topics = append(topics, tp{t.Topic, fmt.Sprintf("_%s/%s/%s", t.Topic, idDec(t.TopicID), joinOr("|", ps))})
	})
	if len(fs) >= 2 { // Go map order: canonicalise by name (stable)
		sort.SliceStable(topics, func(i, j int) bool { return topics[i].name < topics[j].name })
	}
	var ts []string
	for _, t := range topics {
		ts = append(ts, t.s)
	}
	var errs, eacherr []string
	for _, e := range fs.Errors() {
		errs = append(errs, fmt.Sprintf("_%s/%d/%s", e.Topic, e.Partition, code(e.Err)))
	}
	fs.EachError(func(t string, p int32, e error) {
		eacherr = append(eacherr, fmt.Sprintf("_%s/%d/%s", t, p, code(e)))
	})
	if len(errs) > 0 {
		hx.St.Inc("with-errors")
	}
	return fmt.Sprintf("iter=%s all=%s brk=%s each=%s recs=%s num=%d empty=%s parts=%s topics=%s errors=%s eacherr=%s err=%s err0=%s closed=%s",
		ids(iter), ids(all), ids(brk), ids(each), ids(recs), num, hx.B(empty), joinOr(";", parts), joinOr(";", ts),
		joinOr(";", errs), joinOr(";", eacherr), code(fs.Err()), code(fs.Err0()), hx.B(fs.IsClientClosed()))
}

func main() {
	a := hx.Parse()
	switch a.Mode {
	case "gen":
		generate(a)
		hx.Flush()
	case "run":
		hx.RunLines(20*time.Second, runOp)
	default:
		os.Exit(2)
	}
}
