// sim03: direct consumer (C04 each record once in order, C05 read_committed, C14 fetch hooks).
// Plain and transactional producers of this tree fill shared partitions of a real kfake while a direct
// consumer of this tree polls under fetch faults, pause/resume, small PollRecords limits and leader moves.
//
// op:   cons <seed> <parts> <brokers> <committed 0|1> <plainN> <txnProducers> <txnsEach> <faultpct> <pollmax> <keepctl 0|1> <startoff>
// impl: cfg:<parts>:<committed>:<keepctl>:<startoff> then events
//
//	D:id:part:off:txn      a produced record was acknowledged (txn = 0 for non-transactional, else the transaction number)
//	Ts:txn:c|a             EndTransaction(commit|abort) is about to be called for transaction txn
//	Te:txn:c|a:ok|err      EndTransaction returned
//	Ps / Pe                a poll call began / returned; the records it returned follow Pe as
//	V:part:off:id:ctl      (id = 0 for a control record)
//	Hb:part:off Hu:part:off:polled   OnFetchRecordBuffered / OnFetchRecordUnbuffered
//	Pa:part / Re:part      partition paused / resumed
//	Mv:part:node           leader moved
//	G:n                    BufferedFetchRecords after the consumer was closed
//	End:part:hwm           high watermark at the end
//	Q
package main

import (
	"context"
	"fmt"
	"os"
	"strconv"
	"strings"
	"sync"
	"sync/atomic"
	"testing"
	"testing/synctest"
	"time"

	"github.com/twmb/franz-go/pkg/kbin"
	"github.com/twmb/franz-go/pkg/kerr"
	"github.com/twmb/franz-go/pkg/kfake"
	"github.com/twmb/franz-go/pkg/kgo"
	"github.com/twmb/franz-go/pkg/kmsg"
	"verifharness/hx"
	"verifharness/sim"
)

// consMissing counts the acknowledged records at or after the start position that the consumer has to return (all of
// them, or under read_committed those that are not part of a transaction or whose transaction was committed) and that
// no poll has returned yet, from the history logged so far.
func consMissing(hist string, committed bool, start int64) int {
	type rec struct {
		part, off, txn int64
	}
	var recs []rec
	outcome := map[int64]string{}
	seen := map[[2]int64]bool{}
	for _, t := range strings.Fields(hist) {
		f := strings.Split(t, ":")
		switch {
		case f[0] == "D" && len(f) == 5:
			recs = append(recs, rec{hx.Atoi(f[2]), hx.Atoi(f[3]), hx.Atoi(f[4])})
		case f[0] == "Te" && len(f) == 4 && f[3] == "ok":
			outcome[hx.Atoi(f[1])] = f[2]
		case f[0] == "V" && len(f) == 5:
			seen[[2]int64{hx.Atoi(f[1]), hx.Atoi(f[2])}] = true
		}
	}
	n := 0
	for _, r := range recs {
		if r.off < start || seen[[2]int64{r.part, r.off}] {
			continue
		}
		if committed && r.txn != 0 && outcome[r.txn] != "c" {
			continue
		}
		n++
	}
	return n
}

func genCons(a hx.Args) {
	r := hx.NewRng(a.Seed)
	n := a.N(300, 3000)
	for i := 0; i < n; i++ {
		parts := 1 + r.Intn(4)
		brokers := 1 + r.Intn(3)
		committed := r.Intn(2)
		plainN := r.Intn(60)
		txnProd := r.Intn(3)
		txnsEach := 1 + r.Intn(5)
		faultpct := hx.Pick(r, []int{0, 5, 15, 30})
		pollmax := hx.Pick(r, []int{0, 0, 1, 2, 5, 17})
		keepctl := 0
		if r.Chance(15) {
			keepctl = 1
		}
		startoff := hx.Pick(r, []int{0, 0, 0, 3, 10})
		hx.Emit("cons %d %d %d %d %d %d %d %d %d %d %d", r.U64()%1000000, parts, brokers, committed, plainN, txnProd, txnsEach, faultpct, pollmax, keepctl, startoff)
	}
}

type consHooks struct{ log *sim.Log }

func (h *consHooks) OnFetchRecordBuffered(r *kgo.Record) {
	h.log.Add("Hb:%d:%d", r.Partition, r.Offset)
}
func (h *consHooks) OnFetchRecordUnbuffered(r *kgo.Record, polled bool) {
	h.log.Add("Hu:%d:%d:%d", r.Partition, r.Offset, b2i(polled))
}

func runCons(t *testing.T, tk []string) string {
	if tk[0] != "cons" || len(tk) != 12 {
		return "bad-op"
	}
	if os.Getenv("VERIF_CONS_WIRE") != "" {
		fmt.Fprintf(os.Stderr, "WIRE begin %v\n", tk)
	}
	seed := uint64(hx.Atoi(tk[1]))
	parts, brokers, committed := int(hx.Atoi(tk[2])), int(hx.Atoi(tk[3])), tk[4] == "1"
	plainN, txnProd, txnsEach, faultpct := int(hx.Atoi(tk[5])), int(hx.Atoi(tk[6])), int(hx.Atoi(tk[7])), int(hx.Atoi(tk[8]))
	pollmax, keepctl, startoff := int(hx.Atoi(tk[9])), tk[10] == "1", hx.Atoi(tk[11])
	rng := hx.NewRng(seed)
	log := &sim.Log{}
	partial := func() string { return log.String() }
	sim.Partial.Store(&partial)
	defer sim.Partial.Store(nil)
	net := &sim.Net{}
	var faultsOn atomic.Bool
	faultsOn.Store(true)
	var fmu sync.Mutex
	frng := hx.NewRng(seed ^ 0xabcdef)
	net.Fault = func(key int16, nth int, frame []byte) sim.Action {
		if !faultsOn.Load() || faultpct == 0 || key != 1 { // only fetch requests
			return sim.Pass
		}
		fmu.Lock()
		defer fmu.Unlock()
		if frng.Intn(100) >= faultpct {
			return sim.Pass
		}
		if frng.Bool() {
			hx.St.Inc("fault.fetch-dropafter")
			return sim.DropAfter
		}
		hx.St.Inc("fault.fetch-killbefore")
		return sim.KillBefore
	}
	// wire view of fetch responses: per partition the bounds and the aborted-transaction list kfake sent
	var wmu sync.Mutex
	fetchVers := map[int][]int16{}
	net.OnRequest = func(conn int, key int16, frame []byte, act sim.Action) {
		if key != 1 || act == sim.KillBefore || len(frame) < 4 {
			return
		}
		v := int16(uint16(frame[2])<<8 | uint16(frame[3]))
		wmu.Lock()
		fetchVers[conn] = append(fetchVers[conn], v)
		wmu.Unlock()
		req := kmsg.NewPtrFetchRequest()
		req.SetVersion(v)
		b := kbin.Reader{Src: frame[8:]}
		b.NullableString()
		if req.IsFlexible() {
			kmsg.SkipTags(&b)
		}
		if req.ReadFrom(b.Src) == nil {
			if len(req.Topics) == 0 {
				log.Add("Fq0:%d:%d:%d", conn, req.SessionID, req.SessionEpoch)
			}
			for _, rt := range req.Topics {
				for _, rp := range rt.Partitions {
					log.Add("Fq:%d:%d:%d:%d:%d", conn, rp.Partition, rp.FetchOffset, req.SessionID, req.SessionEpoch)
					if os.Getenv("VERIF_CONS_WIRE") != "" {
						fmt.Fprintf(os.Stderr, "WIRE req conn=%d sid=%d/%d p%d off=%d epoch=%d act=%d\n", conn, req.SessionID, req.SessionEpoch, rp.Partition, rp.FetchOffset, rp.CurrentLeaderEpoch, act)
					}
				}
			}
		}
	}
	net.OnResponse = func(conn int, key int16, frame []byte, delivered bool) {
		if key != 1 {
			return
		}
		wmu.Lock()
		q := fetchVers[conn]
		if len(q) == 0 {
			wmu.Unlock()
			return
		}
		v := q[0]
		fetchVers[conn] = q[1:]
		wmu.Unlock()
		if !delivered {
			return
		}
		resp := kmsg.NewPtrFetchResponse()
		resp.SetVersion(v)
		b := kbin.Reader{Src: frame[4:]}
		if resp.IsFlexible() {
			kmsg.SkipTags(&b)
		}
		if err := resp.ReadFrom(b.Src); err != nil {
			log.Add("Wbad")
			return
		}
		if os.Getenv("VERIF_CONS_WIRE") != "" { // debugging aid: every partition of every delivered fetch response
			fmt.Fprintf(os.Stderr, "WIRE resp conn=%d err=%d sid=%d:", conn, resp.ErrorCode, resp.SessionID)
			for _, rt := range resp.Topics {
				for _, rp := range rt.Partitions {
					fmt.Fprintf(os.Stderr, " p%d(code=%d hwm=%d bytes=%d leader=%d/%d)", rp.Partition, rp.ErrorCode, rp.HighWatermark, len(rp.RecordBatches), rp.CurrentLeader.LeaderID, rp.CurrentLeader.LeaderEpoch)
				}
			}
			fmt.Fprintf(os.Stderr, " brokers=%d\n", len(resp.Brokers))
		}
		for _, rt := range resp.Topics {
			for _, rp := range rt.Partitions {
				if rp.ErrorCode != 0 || len(rp.RecordBatches) == 0 {
					continue
				}
				ab := ""
				for _, a := range rp.AbortedTransactions {
					ab += fmt.Sprintf("%d@%d;", a.ProducerID%1000, a.FirstOffset)
				}
				first := int64(-1)
				var rb kmsg.RecordBatch
				if rb.ReadFrom(rp.RecordBatches) == nil {
					first = rb.FirstOffset
				}
				log.Add("Fr:%d:%d:%d:%d:%d:%s", rp.Partition, rp.HighWatermark, rp.LastStableOffset, first, len(rp.RecordBatches), ab)
			}
		}
	}
	ports := make([]int, brokers)
	base := int(9000 + (portBase.Add(1)%500)*10)
	for i := range ports {
		ports[i] = base + i
	}
	cluster, err := kfake.NewCluster(kfake.NumBrokers(brokers), kfake.Ports(ports...), kfake.SeedTopics(int32(parts), "t"),
		kfake.ListenFn(net.ListenFn))
	if err != nil {
		return "ERR:cluster:" + err.Error()
	}
	defer cluster.Close()
	// fetch-session and partition errors on fetch
	var emu sync.Mutex
	erng := hx.NewRng(seed ^ 0x5151)
	cluster.ControlKey(1, func(kreq kmsg.Request) (kmsg.Response, error, bool) {
		cluster.KeepControl()
		emu.Lock()
		inject := faultsOn.Load() && faultpct > 0 && erng.Intn(100) < faultpct/2
		kind := erng.Intn(4)
		emu.Unlock()
		if !inject {
			return nil, nil, false
		}
		req := kreq.(*kmsg.FetchRequest)
		resp := req.ResponseKind().(*kmsg.FetchResponse)
		switch kind {
		case 0:
			hx.St.Inc("fault.fetch-session-id-not-found")
			resp.ErrorCode = kerr.FetchSessionIDNotFound.Code
		case 1:
			hx.St.Inc("fault.invalid-fetch-session-epoch")
			resp.ErrorCode = kerr.InvalidFetchSessionEpoch.Code
		default:
			// A fabricated per-partition error answer bypasses kfake's session bookkeeping, so it is only
			// given to requests that do not continue a session, and it establishes none (SessionID 0): a
			// real broker that answers inside a session also records the request's offsets.
			if req.SessionEpoch > 0 {
				return nil, nil, false
			}
			hx.St.Inc("fault.fetch-partition-error")
			resp.SessionID = 0
			for _, rt := range req.Topics {
				st := kmsg.NewFetchResponseTopic()
				st.Topic, st.TopicID = rt.Topic, rt.TopicID
				for _, rp := range rt.Partitions {
					sp := kmsg.NewFetchResponseTopicPartition()
					sp.Partition = rp.Partition
					sp.ErrorCode = kerr.NotLeaderForPartition.Code
					if kind == 3 {
						sp.ErrorCode = kerr.UnknownServerError.Code
					}
					st.Partitions = append(st.Partitions, sp)
				}
				resp.Topics = append(resp.Topics, st)
			}
		}
		return resp, nil, true
	})

	ctx, cancel := context.WithCancel(context.Background())
	defer cancel()
	common := []kgo.Opt{kgo.SeedBrokers(cluster.ListenAddrs()...), kgo.Dialer(net.Stack.DialContext),
		kgo.RetryBackoffFn(func(int) time.Duration { return 10 * time.Millisecond })}
	var nextID, nextTxn atomic.Int64
	var pwg sync.WaitGroup
	produce := func(cl *kgo.Client, wr *hx.Rng, txn int64, done *sync.WaitGroup) {
		id := nextID.Add(1)
		done.Add(1)
		rec := &kgo.Record{Topic: "t", Partition: int32(wr.Intn(parts)), Key: []byte(strconv.FormatInt(id, 10)), Value: make([]byte, wr.Intn(40))}
		cl.Produce(ctx, rec, func(r *kgo.Record, err error) {
			if err == nil {
				log.Add("D:%d:%d:%d:%d", id, r.Partition, r.Offset, txn)
			} else {
				log.Add("Dx:%d", id)
			}
			done.Done()
		})
	}
	// prefill so that every partition already holds the start offset when the consumer resolves it
	if startoff > 0 {
		wr := hx.NewRng(seed*5 + 3)
		cl, err := kgo.NewClient(append([]kgo.Opt{kgo.RecordPartitioner(kgo.ManualPartitioner()), kgo.ProducerLinger(0)}, common...)...)
		if err != nil {
			return "ERR:client:" + err.Error()
		}
		var done sync.WaitGroup
		for p := 0; p < parts; p++ {
			for i := int64(0); i < startoff+2; i++ {
				id := nextID.Add(1)
				done.Add(1)
				rec := &kgo.Record{Topic: "t", Partition: int32(p), Key: []byte(strconv.FormatInt(id, 10)), Value: make([]byte, wr.Intn(40))}
				cl.Produce(ctx, rec, func(r *kgo.Record, err error) {
					if err == nil {
						log.Add("D:%d:%d:%d:0", id, r.Partition, r.Offset)
					} else {
						log.Add("Dx:%d", id)
					}
					done.Done()
				})
			}
		}
		done.Wait()
		cl.Close()
	}
	// prelude (a quarter of the scenarios that start at offset 0): two transactions write the same number of records
	// to every partition and are committed or aborted, then the log start of every partition is advanced by
	// DeleteRecords to one offset inside what was written -- possibly inside an aborted transaction, whose remaining
	// records must stay invisible to a read_committed consumer. The consumer's start position is then that offset.
	cfgStart := startoff
	if startoff == 0 && seed%4 == 3 {
		wr := hx.NewRng(seed*17 + 5)
		cl, err := kgo.NewClient(append([]kgo.Opt{kgo.RecordPartitioner(kgo.ManualPartitioner()), kgo.ProducerLinger(0),
			kgo.TransactionalID(fmt.Sprintf("pre-%d", seed)), kgo.TransactionTimeout(30 * time.Second)}, common...)...)
		if err != nil {
			return "ERR:client:" + err.Error()
		}
		total, ok := int64(0), true
		for k := 0; k < 2 && ok; k++ {
			txn := nextTxn.Add(1)
			if err := cl.BeginTransaction(); err != nil {
				return "ERR:prelude-begin:" + err.Error()
			}
			var done sync.WaitGroup
			n := 2 + wr.Intn(4)
			for i := 0; i < n; i++ {
				for p := 0; p < parts; p++ {
					id := nextID.Add(1)
					done.Add(1)
					rec := &kgo.Record{Topic: "t", Partition: int32(p), Key: []byte(strconv.FormatInt(id, 10)), Value: make([]byte, wr.Intn(40))}
					cl.Produce(ctx, rec, func(r *kgo.Record, err error) {
						if err == nil {
							log.Add("D:%d:%d:%d:%d", id, r.Partition, r.Offset, txn)
						} else {
							log.Add("Dx:%d", id)
							ok = false
						}
						done.Done()
					})
				}
			}
			cl.Flush(ctx)
			done.Wait()
			c := "a"
			if wr.Chance(40) {
				c = "c"
			}
			log.Add("Ts:%d:%s", txn, c)
			if err := cl.EndTransaction(ctx, kgo.TransactionEndTry(c == "c")); err != nil {
				log.Add("Te:%d:%s:err", txn, c)
				ok = false
				break
			}
			log.Add("Te:%d:%s:ok", txn, c)
			total += int64(n) + 1
		}
		cl.Close()
		if ok && total > 2 {
			d := 1 + int64(wr.Intn(int(total-1)))
			adm, err := kgo.NewClient(common...)
			if err != nil {
				return "ERR:client:" + err.Error()
			}
			req := kmsg.NewPtrDeleteRecordsRequest()
			rt := kmsg.NewDeleteRecordsRequestTopic()
			rt.Topic = "t"
			for p := 0; p < parts; p++ {
				rp := kmsg.NewDeleteRecordsRequestTopicPartition()
				rp.Partition, rp.Offset = int32(p), d
				rt.Partitions = append(rt.Partitions, rp)
			}
			req.Topics = append(req.Topics, rt)
			req.TimeoutMillis = 5000
			resp, err := req.RequestWith(ctx, adm)
			adm.Close()
			if err != nil {
				return "ERR:prelude-delete:" + err.Error()
			}
			for _, t := range resp.Topics {
				for _, p := range t.Partitions {
					if p.ErrorCode != 0 || p.LowWatermark != d {
						return fmt.Sprintf("ERR:prelude-delete:partition %d code %d low watermark %d want %d", p.Partition, p.ErrorCode, p.LowWatermark, d)
					}
				}
			}
			cfgStart = d
			hx.St.Inc("scen.cons.prelude-delete-records")
		}
	}
	// plain producer
	if plainN > 0 {
		pwg.Add(1)
		go func() {
			defer pwg.Done()
			wr := hx.NewRng(seed*7 + 1)
			cl, err := kgo.NewClient(append([]kgo.Opt{kgo.RecordPartitioner(kgo.ManualPartitioner()), kgo.ProducerLinger(0)}, common...)...)
			if err != nil {
				log.Add("ERRclient")
				return
			}
			defer cl.Close()
			var done sync.WaitGroup
			for i := 0; i < plainN; i++ {
				produce(cl, wr, 0, &done)
				if wr.Chance(40) {
					time.Sleep(time.Duration(wr.Intn(20)) * time.Millisecond)
				}
			}
			done.Wait()
		}()
	}
	for tp := 0; tp < txnProd; tp++ {
		pwg.Add(1)
		go func(tp int) {
			defer pwg.Done()
			wr := hx.NewRng(seed*13 + uint64(tp))
			cl, err := kgo.NewClient(append([]kgo.Opt{kgo.RecordPartitioner(kgo.ManualPartitioner()), kgo.ProducerLinger(0),
				kgo.TransactionalID(fmt.Sprintf("tx-%d-%d", seed, tp)), kgo.TransactionTimeout(30 * time.Second)}, common...)...)
			if err != nil {
				log.Add("ERRclient")
				return
			}
			defer cl.Close()
			for k := 0; k < txnsEach; k++ {
				txn := nextTxn.Add(1)
				if err := cl.BeginTransaction(); err != nil {
					log.Add("ERRbegin")
					return
				}
				var done sync.WaitGroup
				n := 1 + wr.Intn(8)
				for i := 0; i < n; i++ {
					produce(cl, wr, txn, &done)
					if wr.Chance(30) {
						time.Sleep(time.Duration(wr.Intn(15)) * time.Millisecond)
					}
				}
				if err := cl.Flush(ctx); err != nil {
					log.Add("ERRflush")
				}
				done.Wait()
				if wr.Chance(50) {
					time.Sleep(time.Duration(wr.Intn(60)) * time.Millisecond) // leave it open for a while
				}
				commit := wr.Chance(60)
				c := "a"
				if commit {
					c = "c"
				}
				log.Add("Ts:%d:%s", txn, c)
				err := cl.EndTransaction(ctx, kgo.TransactionEndTry(commit))
				if err != nil {
					log.Add("Te:%d:%s:err", txn, c)
					return
				}
				log.Add("Te:%d:%s:ok", txn, c)
			}
		}(tp)
	}
	// leader mover
	stop := make(chan struct{})
	var mwg sync.WaitGroup
	if brokers > 1 {
		mwg.Add(1)
		go func() {
			defer mwg.Done()
			for {
				select {
				case <-stop:
					return
				case <-time.After(time.Duration(40+rng.Intn(200)) * time.Millisecond):
				}
				p, n := int32(rng.Intn(parts)), int32(rng.Intn(brokers))
				if cluster.MoveTopicPartition("t", p, n) == nil {
					log.Add("Mv:%d:%d", p, n)
				}
			}
		}()
	}
	// the consumer under test
	copts := append([]kgo.Opt{kgo.WithHooks(&consHooks{log}), kgo.FetchMaxWait(50 * time.Millisecond),
		kgo.FetchMaxBytes(int32(hx.Pick(rng, []int{200, 1000, 1 << 20}))), kgo.FetchMaxPartitionBytes(int32(hx.Pick(rng, []int{150, 600, 1 << 20})))}, common...)
	offs := map[int32]kgo.Offset{}
	for p := 0; p < parts; p++ {
		offs[int32(p)] = kgo.NewOffset().At(startoff)
	}
	if startoff == 0 && rng.Bool() {
		copts = append(copts, kgo.ConsumeTopics("t"), kgo.ConsumeResetOffset(kgo.NewOffset().AtStart()))
	} else {
		copts = append(copts, kgo.ConsumePartitions(map[string]map[int32]kgo.Offset{"t": offs}))
	}
	if committed {
		copts = append(copts, kgo.FetchIsolationLevel(kgo.ReadCommitted()))
	}
	if keepctl {
		copts = append(copts, kgo.KeepControlRecords())
	}
	if os.Getenv("VERIF_DEBUG") != "" {
		copts = append(copts, kgo.WithLogger(kgo.BasicLogger(os.Stderr, kgo.LogLevelDebug, nil)))
	}
	co, err := kgo.NewClient(copts...)
	if err != nil {
		return "ERR:consumer:" + err.Error()
	}
	crng := hx.NewRng(seed ^ 0x77)
	paused := map[int32]bool{}
	poll := func(d time.Duration) int {
		pctx, pc := context.WithTimeout(ctx, d)
		defer pc()
		log.Add("Ps")
		var fs kgo.Fetches
		if pollmax > 0 {
			fs = co.PollRecords(pctx, pollmax)
		} else {
			fs = co.PollFetches(pctx)
		}
		log.Add("Pe")
		n := 0
		fs.EachRecord(func(r *kgo.Record) {
			id := int64(0)
			if !r.Attrs.IsControl() {
				id, _ = strconv.ParseInt(string(r.Key), 10, 64)
			}
			log.Add("V:%d:%d:%d:%d", r.Partition, r.Offset, id, b2i(r.Attrs.IsControl()))
			n++
		})
		return n
	}
	producersDone := make(chan struct{})
	go func() { pwg.Wait(); close(producersDone) }()
	running := true
	for running {
		select {
		case <-producersDone:
			running = false
		default:
		}
		poll(time.Duration(20+crng.Intn(200)) * time.Millisecond)
		switch crng.Intn(12) {
		case 0, 4:
			p := int32(crng.Intn(parts))
			if crng.Chance(60) {
				// let a fetch of several partitions sit buffered before the pause, so that the next poll has to
				// strip the paused partition out of an already buffered fetch
				time.Sleep(time.Duration(100+crng.Intn(300)) * time.Millisecond)
			}
			if !paused[p] {
				co.PauseFetchPartitions(map[string][]int32{"t": {p}})
				paused[p] = true
				log.Add("Pa:%d", p)
			}
		case 1, 2:
			for p := range paused {
				co.ResumeFetchPartitions(map[string][]int32{"t": {p}})
				delete(paused, p)
				log.Add("Re:%d", p)
				break
			}
		case 3:
			time.Sleep(time.Duration(crng.Intn(80)) * time.Millisecond)
		}
	}
	// quiet phase: no faults, nothing paused, poll until three empty polls in a row
	faultsOn.Store(false)
	close(stop)
	mwg.Wait()
	for p := range paused {
		co.ResumeFetchPartitions(map[string][]int32{"t": {p}})
		log.Add("Re:%d", p)
	}
	empty := 0
	for i := 0; empty < 4 && i < 400; i++ {
		if poll(400*time.Millisecond) == 0 {
			empty++
		} else {
			empty = 0
		}
	}
	// "eventually": when an acknowledged record the consumer must return is still missing after the quiet polls, the
	// consumer gets six more (virtual) minutes -- longer than its periodic metadata refresh -- before the history ends
	if consMissing(log.String(), committed, cfgStart) > 0 {
		hx.St.Inc("scen.cons.records-missing-after-quiet-polls")
		for i := 0; i < 900 && consMissing(log.String(), committed, cfgStart) > 0; i++ {
			poll(400 * time.Millisecond)
		}
		if consMissing(log.String(), committed, cfgStart) == 0 {
			hx.St.Inc("scen.cons.records-missing-arrived-within-six-minutes")
		}
	}
	co.Close()
	log.Add("G:%d", co.BufferedFetchRecords())
	for p := 0; p < parts; p++ {
		log.Add("End:%d:%d", p, cluster.PartitionInfo("t", int32(p)).HighWatermark)
	}
	cancel()
	synctest.Wait()
	log.Add("Q")
	hx.St.Inc("scen.total")
	return fmt.Sprintf("cfg:%d:%d:%d:%d ", parts, b2i(committed), b2i(keepctl), cfgStart) + log.String()
}
