// sim01: producer scenarios (C01 promise exactly once, C03 buffer limits + Flush, C14 produce hooks).
//
// op:   prod <seed> <maxrec> <maxbytes> <lingerms> <manual> <nprod> <perprod> <faultpct> <closeat> <brokers>
// impl: the event history of the scenario (space-separated tokens, see ev* below)
//
//	P:id:kind:sz   Produce(p)/TryProduce(t)/ProduceSync(s) called with a fresh record id
//	B:id           OnProduceRecordBuffered        U:id:e   OnProduceRecordUnbuffered (e = error token)
//	A:id:n:b:sz    admitted (verif event, under the producer mutex; n,b = the client's counters after; sz = record size)
//	K:id / W:id:bl blocked at the limit / stopped blocking, bl = blocked producers after (verif events)
//	Ww:id:n:fl  Dw:id:bl:fl   waiter snapshot right after W / D, in the same critical section (n buffered records, bl blocked, fl flushers)
//	Bc:site        the producer condition variable was broadcast (verif event)
//	D:id:n:b       accounting released (verif event)
//	R:id:e:off     promise called (off = offset or -1)
//	X:id           the produce call returned to the caller
//	Fs:k  Fe:k:e   Flush k entered / returned (e=0 nil)
//	As:k  Ae:k:e   AbortBufferedRecords
//	Cs / Ce        Close entered / returned
//	Q:n:b:ok       quiescent point after everything (gauges BufferedProduceRecords/Bytes; ok=1 if the bubble drained)
package main

import (
	"context"
	"errors"
	"fmt"
	"hash/fnv"
	"strconv"
	"sync"
	"sync/atomic"
	"testing"
	"testing/synctest"
	"time"

	"github.com/twmb/franz-go/pkg/kerr"
	"github.com/twmb/franz-go/pkg/kfake"
	"github.com/twmb/franz-go/pkg/kgo"
	"github.com/twmb/franz-go/pkg/kmsg"
	"verifharness/hx"
	"verifharness/sim"
)

func genProd(a hx.Args) {
	r := hx.NewRng(a.Seed)
	n := a.N(300, 3000)
	for i := 0; i < n; i++ {
		maxrec := hx.Pick(r, []int{1, 2, 3, 5, 8, 20, 50})
		maxbytes := 0
		if r.Chance(35) {
			maxbytes = hx.Pick(r, []int{40, 100, 300, 1000})
		}
		linger := hx.Pick(r, []int{0, 0, 5, 20})
		manual := 0
		if r.Chance(15) {
			manual = 1
		}
		nprod := 1 + r.Intn(5)
		perprod := 5 + r.Intn(40)
		faultpct := hx.Pick(r, []int{0, 0, 5, 15, 30})
		closeat := 0
		if r.Chance(30) {
			closeat = 1 + r.Intn(400) // virtual ms after start at which Close is called
		}
		brokers := 1 + r.Intn(3)
		hx.Emit("prod %d %d %d %d %d %d %d %d %d %d", r.U64()%1000000, maxrec, maxbytes, linger, manual, nprod, perprod, faultpct, closeat, brokers)
	}
}

func prodErrTok(err error) string {
	if err == nil {
		return "0"
	}
	var class string
	switch {
	case errors.Is(err, kgo.ErrMaxBuffered):
		class = "maxbuf"
	case errors.Is(err, context.Canceled), errors.Is(err, context.DeadlineExceeded):
		class = "ctx"
	case errors.Is(err, kgo.ErrClientClosed):
		class = "closed"
	case errors.Is(err, kgo.ErrAborting):
		class = "abort"
	case errors.Is(err, kgo.ErrRecordTimeout):
		class = "timeout"
	case errors.Is(err, kgo.ErrRecordRetries):
		class = "retries"
	case errors.Is(err, kerr.UnknownTopicOrPartition):
		class = "unknowntopic"
	case errors.Is(err, kerr.MessageTooLarge):
		class = "toolarge"
	default:
		class = "other"
	}
	h := fnv.New32a()
	h.Write([]byte(err.Error()))
	return fmt.Sprintf("%s/%x", class, h.Sum32()&0xffff)
}

type prodHooks struct {
	log *sim.Log
	mut int // 1: the buffered-hook adds a header to every second record, 2: it halves the value (interceptors may do both)
}

func recSize(r *kgo.Record) int {
	n := len(r.Key) + len(r.Value)
	for _, h := range r.Headers {
		n += len(h.Key) + len(h.Value)
	}
	return n
}

// mutate is what the buffered-hook does to a record ("interceptors that modify a record's key / value / headers before
// being produced"); the size the client accounts for the record is its size after the hook.
func (h *prodHooks) mutate(r *kgo.Record) {
	switch h.mut {
	case 1:
		if len(r.Key) > 0 && r.Key[len(r.Key)-1]%2 == 0 {
			r.Headers = append(r.Headers, kgo.RecordHeader{Key: "trace", Value: make([]byte, 24)})
		}
	case 2:
		r.Value = r.Value[:len(r.Value)/2]
	}
}

func rid(r *kgo.Record) string {
	if len(r.Key) == 0 {
		return "?"
	}
	return string(r.Key)
}
func (h *prodHooks) OnProduceRecordBuffered(r *kgo.Record) { h.mutate(r); h.log.Add("B:%s", rid(r)) }
func (h *prodHooks) OnProduceRecordUnbuffered(r *kgo.Record, err error) {
	h.log.Add("U:%s:%s", rid(r), prodErrTok(err))
}

var portBase atomic.Int64

func runProd(t *testing.T, tk []string) string {
	if tk[0] != "prod" || len(tk) != 11 {
		return "bad-op"
	}
	seed := uint64(hx.Atoi(tk[1]))
	maxrec, maxbytes, linger, manual := int(hx.Atoi(tk[2])), int(hx.Atoi(tk[3])), int(hx.Atoi(tk[4])), tk[5] == "1"
	nprod, perprod, faultpct, closeat, brokers := int(hx.Atoi(tk[6])), int(hx.Atoi(tk[7])), int(hx.Atoi(tk[8])), int(hx.Atoi(tk[9])), int(hx.Atoi(tk[10]))
	rng := hx.NewRng(seed)
	log := &sim.Log{}
	var fmu sync.Mutex
	frng := hx.NewRng(seed ^ 0xabcdef)
	net := &sim.Net{}
	faultsOn := atomic.Bool{}
	faultsOn.Store(true)
	net.Fault = func(key int16, nth int, frame []byte) sim.Action {
		if !faultsOn.Load() || faultpct == 0 {
			return sim.Pass
		}
		fmu.Lock()
		defer fmu.Unlock()
		if key != 0 && key != 3 { // produce, metadata
			return sim.Pass
		}
		if frng.Intn(100) >= faultpct {
			return sim.Pass
		}
		if key == 0 && frng.Bool() {
			hx.St.Inc("fault.dropafter")
			return sim.DropAfter
		}
		hx.St.Inc("fault.killbefore")
		return sim.KillBefore
	}
	ports := make([]int, brokers)
	base := int(9000 + (portBase.Add(1)%500)*10)
	for i := range ports {
		ports[i] = base + i
	}
	cluster, err := kfake.NewCluster(kfake.NumBrokers(brokers), kfake.Ports(ports...), kfake.SeedTopics(3, "t", "u"),
		kfake.ListenFn(net.ListenFn))
	if err != nil {
		return "ERR:cluster:" + err.Error()
	}
	defer cluster.Close()
	// retriable error injection on produce
	var emu sync.Mutex
	erng := hx.NewRng(seed ^ 0x5151)
	cluster.ControlKey(0, func(kreq kmsg.Request) (kmsg.Response, error, bool) {
		cluster.KeepControl()
		emu.Lock()
		inject := faultsOn.Load() && faultpct > 0 && erng.Intn(100) < faultpct/2
		code := hx.Pick(erng, []int16{kerr.NotLeaderForPartition.Code, kerr.RequestTimedOut.Code, kerr.NotEnoughReplicas.Code, kerr.UnknownTopicOrPartition.Code})
		emu.Unlock()
		if !inject {
			return nil, nil, false
		}
		hx.St.Inc("fault.errcode")
		req := kreq.(*kmsg.ProduceRequest)
		resp := req.ResponseKind().(*kmsg.ProduceResponse)
		for _, rt := range req.Topics {
			st := kmsg.NewProduceResponseTopic()
			st.Topic, st.TopicID = rt.Topic, rt.TopicID
			for _, rp := range rt.Partitions {
				sp := kmsg.NewProduceResponseTopicPartition()
				sp.Partition = rp.Partition
				sp.ErrorCode = code
				st.Partitions = append(st.Partitions, sp)
			}
			resp.Topics = append(resp.Topics, st)
		}
		return resp, nil, true
	})

	var lastKind atomic.Value // "unblock" | "finish": which event the following "waiters" snapshot belongs to (same critical section)
	kgo.VerifSetEventSink(func(kind string, r *kgo.Record, a, b int64) {
		switch kind {
		case "admit":
			log.Add("A:%s:%d:%d:%d", rid(r), a, b, recSize(r))
		case "block":
			log.Add("K:%s", rid(r))
		case "unblock":
			log.Add("W:%s:%d", rid(r), a)
			lastKind.Store("unblock")
		case "finish":
			log.Add("D:%s:%d:%d", rid(r), a, b)
			lastKind.Store("finish")
		case "waiters":
			if lastKind.Load() == "unblock" {
				log.Add("Ww:%s:%d:%d", rid(r), a, b) // bufferedRecords, flushing
			} else {
				log.Add("Dw:%s:%d:%d", rid(r), a, b) // blocked, flushing
			}
		case "bcast":
			log.Add("Bc:%d", a)
		}
	})
	defer kgo.VerifSetEventSink(nil)

	hooks := &prodHooks{log: log}
	if seed%5 == 1 || seed%5 == 2 {
		hooks.mut = int(seed % 5)
		hx.St.Inc(fmt.Sprintf("scen.prod.hook-mutates-record.%d", hooks.mut))
	}
	opts := []kgo.Opt{
		kgo.SeedBrokers(cluster.ListenAddrs()...), kgo.Dialer(net.Stack.DialContext),
		kgo.MaxBufferedRecords(maxrec), kgo.ProducerLinger(time.Duration(linger) * time.Millisecond),
		kgo.RecordDeliveryTimeout(3 * time.Second), kgo.RequestRetries(4), kgo.WithHooks(hooks),
		kgo.UnknownTopicRetries(1), kgo.RetryBackoffFn(func(int) time.Duration { return 20 * time.Millisecond }),
	}
	if maxbytes > 0 {
		opts = append(opts, kgo.MaxBufferedBytes(maxbytes))
	}
	if manual {
		opts = append(opts, kgo.ManualFlushing())
	}
	if seed%3 == 0 {
		// a small batch limit: the 5% of records with a 200-1400 byte value pass admission (when MaxBufferedBytes
		// allows) but do not fit a batch on their own, so they are failed with MESSAGE_TOO_LARGE after having been counted
		opts = append(opts, kgo.ProducerBatchMaxBytes(512))
		hx.St.Inc("scen.prod.small-batch-max")
	}
	cl, err := kgo.NewClient(opts...)
	if err != nil {
		return "ERR:client:" + err.Error()
	}
	ctx, cancel := context.WithCancel(context.Background())
	defer cancel()
	var wg, mwg sync.WaitGroup
	var nextID atomic.Int64
	var flushN atomic.Int64
	topics := []string{"t", "t", "u", "nonexistent"}
	closed := make(chan struct{})
	var gate sync.RWMutex
	isClosed := false
	for w := 0; w < nprod; w++ {
		wg.Add(1)
		wr := hx.NewRng(seed*131 + uint64(w))
		go func() {
			defer wg.Done()
			for i := 0; i < perprod; i++ {
				select {
				case <-closed:
					return
				default:
				}
				id := nextID.Add(1)
				ids := strconv.FormatInt(id, 10)
				vlen := wr.Intn(30)
				if wr.Chance(5) {
					vlen = 200 + wr.Intn(1200)
				}
				rec := &kgo.Record{Topic: hx.Pick(wr, topics), Key: []byte(ids), Value: make([]byte, vlen)}
				pctx := ctx
				var pc context.CancelFunc
				if wr.Chance(12) {
					pctx, pc = context.WithTimeout(ctx, time.Duration(wr.Intn(40))*time.Millisecond)
				}
				promise := func(r *kgo.Record, err error) {
					log.Add("R:%s:%s:%d", rid(r), prodErrTok(err), r.Offset)
				}
				// the size the record will have once the buffered-hook has run
				after := *rec
				hooks.mutate(&after)
				sz := recSize(&after)
				// calls never begin after Close has begun (producing on a closed client is outside the properties)
				gate.RLock()
				if isClosed {
					gate.RUnlock()
					return
				}
				k := wr.Intn(10)
				if k >= 9 && manual {
					k = 0 // ProduceSync never returns under manual flushing unless someone flushes
				}
				switch {
				case k < 6:
					log.Add("P:%s:p:%d", ids, sz)
				case k < 9:
					log.Add("P:%s:t:%d", ids, sz)
				default:
					log.Add("P:%s:s:%d", ids, sz)
				}
				gate.RUnlock()
				switch {
				case k < 6:
					cl.Produce(pctx, rec, promise)
				case k < 9:
					cl.TryProduce(pctx, rec, promise)
				default:
					res := cl.ProduceSync(pctx, rec)
					promise(res[0].Record, res[0].Err)
				}
				log.Add("X:%s", ids)
				if pc != nil {
					pc()
				}
				switch wr.Intn(30) {
				case 0, 1:
					k := flushN.Add(1)
					fctx, fc := context.WithTimeout(ctx, time.Duration(50+wr.Intn(3000))*time.Millisecond)
					log.Add("Fs:%d", k)
					err := cl.Flush(fctx)
					log.Add("Fe:%d:%s", k, prodErrTok(err))
					fc()
				case 2:
					k := flushN.Add(1)
					fctx, fc := context.WithTimeout(ctx, 4*time.Second)
					log.Add("As:%d", k)
					err := cl.AbortBufferedRecords(fctx)
					log.Add("Ae:%d:%s", k, prodErrTok(err))
					fc()
				case 3:
					cl.PurgeTopicsFromProducing("u")
				case 4, 5, 6:
					time.Sleep(time.Duration(wr.Intn(25)) * time.Millisecond)
				}
			}
		}()
	}
	// leader mover
	stop := make(chan struct{})
	var outage sim.LeaderOutage
	if seed%4 == 1 || (closeat > 0 && seed%3 == 0) {
		// a partition of "t" reports LEADER_NOT_AVAILABLE in metadata for a while (until the final Flush, or for good
		// when the client is closed midway): records buffered for it wait for a leader, and every fail-everything
		// path (Close, AbortBufferedRecords) must still reach them
		outage.Install(net)
		mwg.Add(1)
		go func() {
			defer mwg.Done()
			orng := hx.NewRng(seed ^ 0x6f7574)
			select {
			case <-stop:
				return
			case <-time.After(time.Duration(20+orng.Intn(150)) * time.Millisecond):
			}
			outage.Set("t", int32(orng.Intn(3)), true)
			cl.ForceMetadataRefresh()
			hx.St.Inc("fault.leader-outage")
			if closeat > 0 {
				return // the leader stays away until the client is closed
			}
			// otherwise the leader comes back by itself (a ProduceSync of a record for that partition waits for it)
			select {
			case <-stop:
			case <-time.After(time.Duration(100+orng.Intn(500)) * time.Millisecond):
			}
			outage.Clear()
			cl.ForceMetadataRefresh()
		}()
	}
	if brokers > 1 {
		mwg.Add(1)
		go func() {
			defer mwg.Done()
			for {
				select {
				case <-stop:
					return
				case <-time.After(time.Duration(30+rng.Intn(150)) * time.Millisecond):
				}
				cluster.MoveTopicPartition(hx.Pick(rng, []string{"t", "u"}), int32(rng.Intn(3)), int32(rng.Intn(brokers)))
				hx.St.Inc("fault.leadermove")
			}
		}()
	}
	doClose := func() {
		gate.Lock()
		isClosed = true
		log.Add("Cs")
		gate.Unlock()
		close(closed)
		cl.Close()
		log.Add("Ce")
	}
	if closeat > 0 {
		time.Sleep(time.Duration(closeat) * time.Millisecond)
		hx.St.Inc("scen.close-midway")
		doClose()
		close(stop)
		wg.Wait()
		mwg.Wait()
	} else {
		// let producers finish, then stop faults and flush for real
		wg.Wait()
		faultsOn.Store(false)
		close(stop)
		mwg.Wait()
		outage.Clear() // the leader is back before the final Flush
		cl.ForceMetadataRefresh()
		k := flushN.Add(1)
		fctx, fc := context.WithTimeout(ctx, 60*time.Second)
		log.Add("Fs:%d", k)
		err := cl.Flush(fctx)
		log.Add("Fe:%d:%s", k, prodErrTok(err))
		fc()
		hx.St.Inc("scen.flush-end")
		doClose()
	}
	cancel()
	synctest.Wait()
	time.Sleep(5 * time.Second) // virtual: lets timers (linger, timeouts) of anything left run out
	synctest.Wait()
	log.Add("Q:%d:%d:1", cl.BufferedProduceRecords(), cl.BufferedProduceBytes())
	hx.St.Inc("scen.total")
	return fmt.Sprintf("cfg:%d:%d:%d ", maxrec, maxbytes, b2i(manual)) + log.String()
}

func b2i(b bool) int {
	if b {
		return 1
	}
	return 0
}
