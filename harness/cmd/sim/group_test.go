// grp: consumer-group scenarios (C07 ownership exclusion, C08 autocommit at-least-once).
// Several group members of this tree (eager, cooperative-sticky or KIP-848) join, poll, leave and
// restart against a real kfake while a producer writes; callbacks, polls and autocommit results are logged.
//
// op:   grp <seed> <balancer 0..4> <parts> <brokers> <slots> <blockpoll 0|1> <commitms> <restarts> <records>
// impl: cfg:<parts>:<balancer> then events
//
//	D:id:part:off                 an acknowledged produced record
//	J:m / Lv:m / Lx:m             member instance m created / Close called / Close returned
//	As:m:p,p  Ae:m                OnPartitionsAssigned entered with these partitions / returned
//	Rs:m:p,p  Re:m                OnPartitionsRevoked entered / returned        (Ls / Le for OnPartitionsLost)
//	Ps:m  Pe:m  V:m:part:off:id   poll began / returned; a returned record
//	Ac:m:part:off:ok|err          an autocommit (or commit-on-revoke/leave) request's result for one partition
//	S:m,m,...                     stability mark: membership stopped changing long ago; live members
//	GC:part:off                   the group's committed offset at the end (-1 none)
//	End:part:hwm                  Q
package main

import (
	"encoding/binary"
	"os"
	"context"
	"fmt"
	"sort"
	"strconv"
	"strings"
	"sync"
	"sync/atomic"
	"testing"
	"testing/synctest"
	"time"

	"github.com/twmb/franz-go/pkg/kerr"
	"github.com/twmb/franz-go/pkg/kfake"
	"github.com/twmb/franz-go/pkg/kgo"
	"github.com/twmb/franz-go/pkg/kmsg"
	"verifharness/hx"
	"verifharness/sim"
)

func genGrp(a hx.Args) {
	r := hx.NewRng(a.Seed)
	n := a.N(300, 3000)
	for i := 0; i < n; i++ {
		bal := hx.Pick(r, []int{0, 1, 2, 3, 3, 4, 4, 4}) // KIP-848 (4) and cooperative (3) weigh more: they have the larger protocols
		parts := 2 + r.Intn(6)
		brokers := 1 + r.Intn(2)
		slots := 2 + r.Intn(3)
		if bal == 4 && r.Chance(40) {
			parts = 1 + r.Intn(2) // fewer partitions than members: a member loses everything it owns in one reconciliation
		}
		blockpoll := r.Intn(2)
		commitms := hx.Pick(r, []int{100, 300, 1000})
		restarts := r.Intn(3)
		records := 100 + r.Intn(300)
		// connection faults on the group protocol (about half of the scenarios): the connection carrying a
		// JoinGroup/SyncGroup/Heartbeat/OffsetCommit/LeaveGroup/ConsumerGroupHeartbeat request is cut before the
		// broker sees the request, after it handled it (response lost), or a little later (while a join is parked)
		faultpct := hx.Pick(r, []int{0, 0, 3, 8})
		hx.Emit("grp %d %d %d %d %d %d %d %d %d %d", r.U64()%1000000, bal, parts, brokers, slots, blockpoll, commitms, restarts, records, faultpct)
	}
}

func partsStr(m map[string][]int32) string {
	var ps []int
	for _, p := range m["t"] {
		ps = append(ps, int(p))
	}
	sort.Ints(ps)
	ss := make([]string, len(ps))
	for i, p := range ps {
		ss[i] = strconv.Itoa(p)
	}
	if len(ss) == 0 {
		return "-"
	}
	return strings.Join(ss, ",")
}

func runGrp(t *testing.T, tk []string) string {
	if tk[0] != "grp" || (len(tk) != 10 && len(tk) != 11) {
		return "bad-op"
	}
	faultpct := 0
	if len(tk) == 11 {
		faultpct = int(hx.Atoi(tk[10]))
	}
	seed := uint64(hx.Atoi(tk[1]))
	bal, parts, brokers, slots := int(hx.Atoi(tk[2])), int(hx.Atoi(tk[3])), int(hx.Atoi(tk[4])), int(hx.Atoi(tk[5]))
	blockpoll, commitms, restarts, records := tk[6] == "1", int(hx.Atoi(tk[7])), int(hx.Atoi(tk[8])), int(hx.Atoi(tk[9]))
	log := &sim.Log{}
	partial := func() string { return log.String() }
	sim.Partial.Store(&partial)
	defer sim.Partial.Store(nil)
	net := &sim.Net{}
	var faultsOn atomic.Bool
	faultsOn.Store(true)
	var fmu sync.Mutex
	frng := hx.NewRng(seed ^ 0x67727066)
	net.Fault = func(key int16, nth int, frame []byte) sim.Action {
		if faultpct == 0 || !faultsOn.Load() {
			return sim.Pass
		}
		switch key {
		case 8, 11, 12, 13, 14, 68:
		default:
			return sim.Pass
		}
		fmu.Lock()
		defer fmu.Unlock()
		pct := faultpct
		if key == 11 || key == 14 {
			pct *= 4 // joins and syncs are rare and are where a retry matters most
		}
		if frng.Intn(100) >= pct {
			return sim.Pass
		}
		switch frng.Intn(3) {
		case 0:
			hx.St.Inc(fmt.Sprintf("fault.grp.killbefore.key%d", key))
			return sim.KillBefore
		case 1:
			hx.St.Inc(fmt.Sprintf("fault.grp.dropafter.key%d", key))
			return sim.DropAfter
		}
		hx.St.Inc(fmt.Sprintf("fault.grp.killlater.key%d", key))
		return sim.KillLater
	}
	t0 := time.Now()
	_ = t0
	if os.Getenv("VERIF_GRP_WIRE") != "" { // debugging aid: the KIP-848 heartbeats on the wire, with the fault decision
		fmtTs := func(ts []kmsg.ConsumerGroupHeartbeatRequestTopic) string {
			if ts == nil {
				return "nil"
			}
			var ps []int
			for _, t := range ts {
				for _, p := range t.Partitions {
					ps = append(ps, int(p))
				}
			}
			sort.Ints(ps)
			return fmt.Sprint(ps)
		}
		var wmu sync.Mutex
		pend := map[int][]string{}
		net.OnRequest = func(conn int, key int16, frame []byte, act sim.Action) {
			if key != 68 {
				return
			}
			req := kmsg.NewPtrConsumerGroupHeartbeatRequest()
			req.Version = int16(binary.BigEndian.Uint16(frame[2:]))
			clen := int(binary.BigEndian.Uint16(frame[8:]))
			body := frame[10+clen+1:]
			mid := "?"
			if err := req.ReadFrom(body); err == nil {
				mid = req.MemberID
				if len(mid) > 4 {
					mid = mid[:4]
				}
			}
			wmu.Lock()
			pend[conn] = append(pend[conn], mid)
			wmu.Unlock()
			log.Add("Hq:%d:%s:e%d:%s:act%d:t%d", conn, mid, req.MemberEpoch, strings.ReplaceAll(fmtTs(req.Topics), " ", ","), act, time.Since(t0).Milliseconds())
		}
		net.OnResponse = func(conn int, key int16, frame []byte, delivered bool) {
			if key != 68 {
				return
			}
			resp := kmsg.NewPtrConsumerGroupHeartbeatResponse()
			resp.Version = 1
			wmu.Lock()
			mid := "?"
			if len(pend[conn]) > 0 {
				mid = pend[conn][0]
				pend[conn] = pend[conn][1:]
			}
			wmu.Unlock()
			as := "nil"
			if err := resp.ReadFrom(frame[5:]); err == nil && resp.Assignment != nil {
				var ps []int
				for _, t := range resp.Assignment.Topics {
					for _, p := range t.Partitions {
						ps = append(ps, int(p))
					}
				}
				sort.Ints(ps)
				as = fmt.Sprint(ps)
			}
			log.Add("Hr:%d:%s:e%d:err%d:%s:dlv%v:t%d", conn, mid, resp.MemberEpoch, resp.ErrorCode, strings.ReplaceAll(as, " ", ","), delivered, time.Since(t0).Milliseconds())
		}
	}
	ports := make([]int, brokers)
	base := int(9000 + (portBase.Add(1)%500)*10)
	for i := range ports {
		ports[i] = base + i
	}
	copts := []kfake.Opt{kfake.NumBrokers(brokers), kfake.Ports(ports...), kfake.SeedTopics(int32(parts), "t"), kfake.SeedTopics(1, "u"), kfake.ListenFn(net.ListenFn)}
	if bal == 4 {
		// KIP-848: the session timeout is the broker's (default 45 s). A member whose leave heartbeat was lost to a
		// connection fault stays in the group until it expires, so it is set to the classic scenarios' 6 s and the
		// quiet end below is long enough for that plus a heartbeat interval.
		copts = append(copts, kfake.BrokerConfigs(map[string]string{"group.consumer.session.timeout.ms": "6000"}))
	}
	slowRevoke := false
	if bal == 4 && seed%3 != 0 {
		// KIP-848 with a short broker-side heartbeat interval and revoke callbacks that outlast it: the member keeps
		// heartbeating while it revokes, and the coordinator must not hand the partitions on before the callback is done
		copts = append(copts, kfake.BrokerConfigs(map[string]string{"group.consumer.heartbeat.interval.ms": "200"}))
		slowRevoke = true
	}
	cluster, err := kfake.NewCluster(copts...)
	if err != nil {
		return "ERR:cluster:" + err.Error()
	}
	defer cluster.Close()
	ctx, cancel := context.WithCancel(context.Background())
	defer cancel()
	common := []kgo.Opt{kgo.SeedBrokers(cluster.ListenAddrs()...), kgo.Dialer(net.Stack.DialContext),
		kgo.RetryBackoffFn(func(int) time.Duration { return 10 * time.Millisecond })}

	// producer
	var pwg sync.WaitGroup
	pwg.Add(1)
	go func() {
		defer pwg.Done()
		wr := hx.NewRng(seed*7 + 1)
		cl, err := kgo.NewClient(append([]kgo.Opt{kgo.RecordPartitioner(kgo.ManualPartitioner()), kgo.ProducerLinger(0)}, common...)...)
		if err != nil {
			log.Add("ERRclient")
			return
		}
		defer cl.Close()
		var done sync.WaitGroup
		for i := 1; i <= records; i++ {
			id := i
			done.Add(1)
			rec := &kgo.Record{Topic: "t", Partition: int32(wr.Intn(parts)), Key: []byte(strconv.Itoa(id))}
			cl.Produce(ctx, rec, func(r *kgo.Record, err error) {
				if err == nil {
					log.Add("D:%d:%d:%d", id, r.Partition, r.Offset)
				} else {
					log.Add("Dx:%d", id)
				}
				done.Done()
			})
			if wr.Chance(50) {
				time.Sleep(time.Duration(wr.Intn(30)) * time.Millisecond)
			}
		}
		done.Wait()
	}()

	var nextM atomic.Int64
	var live sync.Map // m -> struct{}
	var stopAll atomic.Bool
	gctx := ctx
	if bal == 4 {
		gctx = context.WithValue(ctx, "opt_in_kafka_next_gen_balancer_beta", true) //nolint
	}
	if bal == 3 && seed%7 == 3 {
		// next-gen opt-in against a broker that does not serve it: every ConsumerGroupHeartbeat is answered
		// UNSUPPORTED_VERSION, the members fall back to the classic protocol and run it as cooperative members
		gctx = context.WithValue(ctx, "opt_in_kafka_next_gen_balancer_beta", true) //nolint
		cluster.ControlKey(68, func(kreq kmsg.Request) (kmsg.Response, error, bool) {
			cluster.KeepControl()
			resp := kreq.ResponseKind().(*kmsg.ConsumerGroupHeartbeatResponse)
			resp.ErrorCode = kerr.UnsupportedVersion.Code
			return resp, nil, true
		})
		hx.St.Inc("scen.grp.next-gen-opt-in-falls-back-to-classic")
	}
	// KIP-848: the heartbeat interval is the broker's (kfake: 5s) and kgo acknowledges a revocation with its next
	// regular heartbeat, so a rebalance timeout below that interval gets every revoking member fenced (it is
	// removed while it still holds its remaining partitions: not a graceful leave, outside C07's scope).
	rebalanceTimeout := 4 * time.Second
	if bal == 4 {
		rebalanceTimeout = 20 * time.Second
	}
	member := func(wr *hx.Rng, lifetime time.Duration, forever bool, slotOf int) {
		m := nextM.Add(1)
		var balancer kgo.GroupBalancer
		switch bal {
		case 0:
			balancer = kgo.RangeBalancer()
		case 1:
			balancer = kgo.RoundRobinBalancer()
		case 2:
			balancer = kgo.StickyBalancer()
		default:
			balancer = kgo.CooperativeStickyBalancer()
		}
		if bal == 4 && seed%2 == 0 {
			// KIP-848 with the server-side range assignor: a member that sorts before the owner of a partition takes it
			// over, so with few partitions an owner loses everything it has in one reconciliation (the uniform
			// assignor is sticky and almost never produces an empty target assignment)
			balancer = kgo.RangeBalancer()
		}
		// a fifth of the cooperative scenarios: the forever member of slot 0 also consumes a second topic `u` (one empty
		// partition, not tracked by the history) and later purges `t` from what it consumes: the partitions of `t` it owns
		// must reach the members that still consume `t` (two rebalances: the claim is withheld first, then handed over)
		purger := bal == 3 && seed%5 == 0 && forever && slotOf == 0 && slots >= 2
		topics := []string{"t"}
		if purger {
			topics = []string{"t", "u"}
			hx.St.Inc("scen.grp.member-purges-topic")
		}
		opts := append([]kgo.Opt{
			kgo.WithContext(gctx),
			kgo.ConsumerGroup("g"), kgo.ConsumeTopics(topics...), kgo.Balancers(balancer),
			kgo.ConsumeResetOffset(kgo.NewOffset().AtStart()),
			kgo.AutoCommitInterval(time.Duration(commitms) * time.Millisecond),
			kgo.SessionTimeout(6 * time.Second), kgo.HeartbeatInterval(300 * time.Millisecond), kgo.RebalanceTimeout(rebalanceTimeout),
			kgo.FetchMaxWait(50 * time.Millisecond),
			kgo.OnPartitionsAssigned(func(_ context.Context, _ *kgo.Client, ps map[string][]int32) {
				log.Add("As:%d:%s", m, partsStr(ps))
				if wr.Chance(30) {
					time.Sleep(time.Duration(wr.Intn(40)) * time.Millisecond)
				}
				log.Add("Ae:%d", m)
			}),
			kgo.OnPartitionsRevoked(func(_ context.Context, _ *kgo.Client, ps map[string][]int32) {
				log.Add("Rs:%d:%s", m, partsStr(ps))
				if slowRevoke && wr.Chance(50) {
					time.Sleep(time.Duration(250+wr.Intn(600)) * time.Millisecond)
				} else if wr.Chance(30) {
					time.Sleep(time.Duration(wr.Intn(40)) * time.Millisecond)
				}
				log.Add("Re:%d", m)
			}),
			kgo.OnPartitionsLost(func(_ context.Context, _ *kgo.Client, ps map[string][]int32) {
				log.Add("Ls:%d:%s", m, partsStr(ps))
				log.Add("Le:%d", m)
			}),
			kgo.AutoCommitCallback(func(_ *kgo.Client, req *kmsg.OffsetCommitRequest, resp *kmsg.OffsetCommitResponse, err error) {
				if err != nil || resp == nil {
					for _, rt := range req.Topics {
						if rt.Topic != "t" {
							continue
						}
						for _, rp := range rt.Partitions {
							log.Add("Ac:%d:%d:%d:err", m, rp.Partition, rp.Offset)
						}
					}
					return
				}
				want := map[int32]int64{}
				for _, rt := range req.Topics {
						if rt.Topic != "t" {
							continue
						}
					for _, rp := range rt.Partitions {
						want[rp.Partition] = rp.Offset
					}
				}
				for _, rt := range resp.Topics {
					if rt.Topic != "t" {
						continue
					}
					for _, rp := range rt.Partitions {
						res := "ok"
						if rp.ErrorCode != 0 {
							res = "err"
						}
						log.Add("Ac:%d:%d:%d:%s", m, rp.Partition, want[rp.Partition], res)
					}
				}
			}),
		}, common...)
		if blockpoll {
			opts = append(opts, kgo.BlockRebalanceOnPoll())
		}
		cl, err := kgo.NewClient(opts...)
		if err != nil {
			log.Add("ERRclient")
			return
		}
		log.Add("J:%d", m)
		live.Store(m, struct{}{})
		deadline := time.Now().Add(lifetime)
		pausing, pausedPart, pausedFor := seed%4 == 2, int32(0), 0
		purgeAt := time.Now().Add(time.Duration(2000+wr.Intn(4000)) * time.Millisecond)
		for (forever && !stopAll.Load()) || (!forever && time.Now().Before(deadline) && !stopAll.Load()) {
			pctx, pc := context.WithTimeout(ctx, time.Duration(50+wr.Intn(150))*time.Millisecond)
			log.Add("Ps:%d", m)
			var fs kgo.Fetches
			if wr.Chance(40) {
				fs = cl.PollRecords(pctx, 1+wr.Intn(8))
			} else {
				fs = cl.PollFetches(pctx)
			}
			pc()
			log.Add("Pe:%d", m)
			fs.EachRecord(func(r *kgo.Record) {
				id, _ := strconv.Atoi(string(r.Key))
				log.Add("V:%d:%d:%d:%d", m, r.Partition, r.Offset, id)
			})
			if wr.Chance(25) {
				time.Sleep(time.Duration(wr.Intn(60)) * time.Millisecond) // processing
			}
			// backpressure (a quarter of the scenarios): a partition is paused for a few polls, with records of it
			// possibly still buffered in the client, and resumed; pausing never changes what is committed or returned
			if pausing {
				if pausedFor > 0 {
					if pausedFor--; pausedFor == 0 {
						cl.ResumeFetchPartitions(map[string][]int32{"t": {pausedPart}})
					}
				} else if wr.Chance(15) {
					pausedPart, pausedFor = int32(wr.Intn(parts)), 1+wr.Intn(4)
					cl.PauseFetchPartitions(map[string][]int32{"t": {pausedPart}})
					hx.St.Inc("scen.grp.partition-paused")
				}
			}
			if blockpoll {
				cl.AllowRebalance()
			}
			if purger && time.Now().After(purgeAt) {
				purger = false
				cl.PurgeTopicsFromConsuming("t")
			}
		}
		live.Delete(m)
		log.Add("Lv:%d", m)
		cl.Close()
		log.Add("Lx:%d", m)
	}
	var mwg sync.WaitGroup
	for s := 0; s < slots; s++ {
		mwg.Add(1)
		wr := hx.NewRng(seed*31 + uint64(s))
		go func(s int) {
			defer mwg.Done()
			time.Sleep(time.Duration(wr.Intn(400)) * time.Millisecond)
			n := 0
			if s > 0 { // slot 0 never restarts so the group is never empty for long
				n = wr.Intn(restarts + 1)
			}
			for k := 0; k < n; k++ {
				member(wr, time.Duration(300+wr.Intn(2500))*time.Millisecond, false, s)
				time.Sleep(time.Duration(wr.Intn(600)) * time.Millisecond)
			}
			member(wr, 0, true, s)
		}(s)
	}
	pwg.Wait()
	// churn is bounded in time: wait until every slot is in its final, forever member, then for stability
	time.Sleep(time.Duration(restarts+1) * 3500 * time.Millisecond)
	faultsOn.Store(false) // the quiet end is fault free so that the group can settle
	time.Sleep(20 * time.Second)
	var ms []string
	live.Range(func(k, _ any) bool { ms = append(ms, strconv.FormatInt(k.(int64), 10)); return true })
	sort.Strings(ms)
	log.Add("S:%s", strings.Join(ms, ","))
	stopAll.Store(true)
	mwg.Wait()
	// final committed offsets of the group
	adm, err := kgo.NewClient(common...)
	if err == nil {
		req := kmsg.NewPtrOffsetFetchRequest()
		req.Group = "g"
		rt := kmsg.NewOffsetFetchRequestTopic()
		rt.Topic = "t"
		for p := 0; p < parts; p++ {
			rt.Partitions = append(rt.Partitions, int32(p))
		}
		req.Topics = append(req.Topics, rt)
		rg := kmsg.NewOffsetFetchRequestGroup()
		rg.Group = "g"
		gt := kmsg.NewOffsetFetchRequestGroupTopic()
		gt.Topic = "t"
		gt.Partitions = rt.Partitions
		rg.Topics = append(rg.Topics, gt)
		req.Groups = append(req.Groups, rg)
		rctx, rc := context.WithTimeout(ctx, 10*time.Second)
		resp, err := req.RequestWith(rctx, adm)
		rc()
		if err == nil {
			seen := map[int32]bool{}
			emit := func(p int32, off int64) {
				if !seen[p] {
					seen[p] = true
					log.Add("GC:%d:%d", p, off)
				}
			}
			for _, g := range resp.Groups {
				for _, gt := range g.Topics {
					for _, gp := range gt.Partitions {
						emit(gp.Partition, gp.Offset)
					}
				}
			}
			for _, rt := range resp.Topics {
				for _, rp := range rt.Partitions {
					emit(rp.Partition, rp.Offset)
				}
			}
		} else {
			log.Add("ERRoffsetfetch")
		}
		adm.Close()
	}
	for p := 0; p < parts; p++ {
		log.Add("End:%d:%d", p, cluster.PartitionInfo("t", int32(p)).HighWatermark)
	}
	cancel()
	synctest.Wait()
	log.Add("Q")
	hx.St.Inc("scen.grp")
	hx.St.Inc(fmt.Sprintf("scen.grp.balancer%d", bal))
	return fmt.Sprintf("cfg:%d:%d ", parts, bal) + log.String()
}
