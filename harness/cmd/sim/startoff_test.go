// off: start-offset resolution scenarios (C40). A log with a chosen shape is built on one partition of a
// real kfake (batches with chosen timestamps incl. equal and out-of-order ones, a committed and an aborted
// transaction, optionally an open transaction so that LSO < end, DeleteRecords raising the log start), then
// a consumer of this tree is started with one chosen Offset and the first record it returns is recorded.
//
// op:   off <seed> <committed 0|1> <how P|T|S|G> <kind at|start|end|milli|cm> <a> <b> <epoch> <txnmode 0..3> <delpct> <disorder 0|1>
//
//	how: P ConsumePartitions{t:{0:o}} (default reset offset)   T ConsumeTopics(t)+ConsumeResetOffset(o)
//	     S ConsumeTopics(t)+ConsumeStartOffset(o)               G group consumer, ConsumeResetOffset(AtCommitted)
//	kind/a/b: at: At(a).Relative(b) [WithEpoch(epoch) if epoch>=0]; start: AtStart().Relative(b); end: AtEnd().Relative(b);
//	     milli: AfterMilli(t), t picked by index a from the candidate list (every record timestamp -1/+0/+1, min-50, max+50);
//	     cm: a group offset a is committed first (bounded to [log start, end])
//	txnmode: 0 none, 1 a committed and an aborted transaction, 2 also an open one committed later, 3 open one aborted later
//
// impl: cfg:<committed> then events
//
//	R:off:ts:batch:txn   acknowledged record (ts relative; batch = produce-batch number; txn 0 = not transactional)
//	T:txn:c|a            transaction ended
//	Del:to               DeleteRecords up to `to` succeeded
//	S:start:lso:hwm      the partition when the consumer starts
//	Cm:off               group offset committed
//	O:kind:x:r:epoch:t   the Offset given to the consumer (unused fields 0; r as signed int)
//	E:class              a fetch error the consumer returned
//	N                    nothing returned while the log was left alone (10 empty polls of 250 ms virtual)
//	F:off | F:none       the first record the consumer returned
//	L:off:ts:ctl         the final log as read back by a fresh read_uncommitted consumer keeping control records
//	Q
package main

import (
	"context"
	"errors"
	"fmt"
	"github.com/twmb/franz-go/pkg/kerr"
	"github.com/twmb/franz-go/pkg/kmsg"
	"os"
	"sort"
	"strconv"
	"sync"
	"sync/atomic"
	"testing"
	"testing/synctest"
	"time"

	"github.com/twmb/franz-go/pkg/kadm"
	"github.com/twmb/franz-go/pkg/kfake"
	"github.com/twmb/franz-go/pkg/kgo"
	"verifharness/hx"
	"verifharness/sim"
)

func genOff(a hx.Args) {
	r := hx.NewRng(a.Seed ^ 0x40)
	n := a.N(150, 2500)
	for i := 0; i < n; i++ {
		committed := r.Intn(2)
		how := hx.Pick(r, []string{"P", "P", "T", "T", "S"})
		kind := hx.Pick(r, []string{"at", "at", "at", "start", "end", "end", "milli", "milli", "milli", "cm"})
		if how == "P" && r.Chance(40) {
			kind = "at" // exact offsets only mean something for pinned partitions, and they have two resolution paths (see late metadata)
		}
		av, bv, epoch := int64(0), int64(0), int64(-1)
		switch kind {
		case "at":
			av = hx.Pick(r, []int64{0, 1, 2, 3, 5, 8, 12, 20, 30, 60})
			if r.Chance(60) {
				bv = r.Range(-15, 15)
			}
			if r.Chance(25) {
				epoch = 0
			}
		case "start":
			bv = r.Range(-3, 30)
		case "end":
			bv = r.Range(-30, 3)
		case "milli":
			av = int64(r.Intn(1000))
		case "cm":
			how = "G"
			av = int64(r.Intn(30))
		}
		txnmode := hx.Pick(r, []int{0, 1, 2, 2, 3})
		delpct := hx.Pick(r, []int{0, 0, 30, 60, 100})
		disorder := 0
		if r.Chance(15) {
			disorder = 1
		}
		// one of the consumer's first ListOffsets answers fails once with a retriable code: 1 the end listing (timestamp -1),
		// 2 the start listing (-2), 3 both, 4 a by-timestamp listing
		lofault := hx.Pick(r, []int{0, 0, 0, 1, 1, 2, 3, 4})
		hx.Emit("off %d %d %s %s %d %d %d %d %d %d %d", r.U64()%1000000, committed, how, kind, av, bv, epoch, txnmode, delpct, disorder, lofault)
	}
}

func runOff(t *testing.T, tk []string) string {
	lofault := 0
	if tk[0] == "off" && len(tk) == 12 {
		lofault = int(hx.Atoi(tk[11]))
		tk = tk[:11]
	}
	if tk[0] != "off" || len(tk) != 11 {
		return "bad-op"
	}
	seed := uint64(hx.Atoi(tk[1]))
	committed, how, kind := tk[2] == "1", tk[3], tk[4]
	av, bv, epoch := hx.Atoi(tk[5]), hx.Atoi(tk[6]), hx.Atoi(tk[7])
	txnmode, delpct, disorder := int(hx.Atoi(tk[8])), hx.Atoi(tk[9]), tk[10] == "1"
	switch how {
	case "P", "T", "S", "G":
	default:
		return "bad-op"
	}
	switch kind {
	case "at", "start", "end", "milli", "cm":
	default:
		return "bad-op"
	}
	if (kind == "cm") != (how == "G") {
		return "bad-op"
	}
	rng := hx.NewRng(seed)
	log := &sim.Log{}
	partial := func() string { return log.String() }
	sim.Partial.Store(&partial)
	defer sim.Partial.Store(nil)
	net := &sim.Net{}
	base := int(9000 + (portBase.Add(1)%500)*10)
	cluster, err := kfake.NewCluster(kfake.NumBrokers(1), kfake.Ports(base), kfake.SeedTopics(1, "t"), kfake.ListenFn(net.ListenFn))
	if err != nil {
		return "ERR:cluster:" + err.Error()
	}
	defer cluster.Close()
	var loArmed atomic.Bool // armed right before the consumer under test starts
	var loMu sync.Mutex
	loDone := map[int64]bool{}
	cluster.ControlKey(2, func(kreq kmsg.Request) (kmsg.Response, error, bool) {
		cluster.KeepControl()
		req, ok := kreq.(*kmsg.ListOffsetsRequest)
		if !ok || lofault == 0 || !loArmed.Load() || len(req.Topics) != 1 || len(req.Topics[0].Partitions) != 1 {
			return nil, nil, false
		}
		ts := req.Topics[0].Partitions[0].Timestamp
		class := ts
		if ts >= 0 {
			class = 0
		}
		hit := (lofault == 1 && ts == -1) || (lofault == 2 && ts == -2) || (lofault == 3 && (ts == -1 || ts == -2)) || (lofault == 4 && ts >= 0)
		loMu.Lock()
		already := loDone[class]
		if hit && !already {
			loDone[class] = true
		}
		loMu.Unlock()
		if !hit || already {
			return nil, nil, false
		}
		hx.St.Inc(fmt.Sprintf("fault.listoffsets.%d", class))
		resp := req.ResponseKind().(*kmsg.ListOffsetsResponse)
		st := kmsg.NewListOffsetsResponseTopic()
		st.Topic = req.Topics[0].Topic
		sp := kmsg.NewListOffsetsResponseTopicPartition()
		sp.Partition = req.Topics[0].Partitions[0].Partition
		sp.ErrorCode, sp.Offset, sp.Timestamp, sp.LeaderEpoch = kerr.OffsetNotAvailable.Code, -1, -1, -1
		st.Partitions = append(st.Partitions, sp)
		resp.Topics = append(resp.Topics, st)
		return resp, nil, true
	})
	ctx, cancel := context.WithCancel(context.Background())
	defer cancel()
	common := []kgo.Opt{kgo.SeedBrokers(cluster.ListenAddrs()...), kgo.Dialer(net.Stack.DialContext),
		kgo.RetryBackoffFn(func(int) time.Duration { return 10 * time.Millisecond })}
	t0 := time.Now().UnixMilli() - 100000 // timestamps are logged relative to this, always positive
	var allTs []int64
	nbatch := 0
	// one produce batch: k records with chosen timestamps, flushed alone so that they share a record batch
	batch := func(cl *kgo.Client, txn int, k int) bool {
		nbatch++
		bno := nbatch
		now := time.Now().UnixMilli()
		var wg sync.WaitGroup
		ok := true
		var mu sync.Mutex
		for i := 0; i < k; i++ {
			d := hx.Pick(rng, []int64{-30, -10, -10, 0, 0, 0, 10, 30})
			if disorder {
				d = rng.Range(-260, 260)
			}
			ts := now + d
			rec := &kgo.Record{Topic: "t", Partition: 0, Key: []byte(strconv.Itoa(bno)), Timestamp: time.UnixMilli(ts)}
			wg.Add(1)
			cl.Produce(ctx, rec, func(r *kgo.Record, err error) {
				mu.Lock()
				if err == nil {
					log.Add("R:%d:%d:%d:%d", r.Offset, ts-t0, bno, txn)
					allTs = append(allTs, ts-t0)
				} else {
					ok = false
				}
				mu.Unlock()
				wg.Done()
			})
		}
		if err := cl.Flush(ctx); err != nil {
			return false
		}
		wg.Wait()
		return ok
	}
	popts := append([]kgo.Opt{kgo.RecordPartitioner(kgo.ManualPartitioner()), kgo.ManualFlushing()}, common...)
	plain, err := kgo.NewClient(popts...)
	if err != nil {
		return "ERR:client:" + err.Error()
	}
	defer plain.Close()
	txnClient := func(n int) (*kgo.Client, error) {
		return kgo.NewClient(append([]kgo.Opt{kgo.TransactionalID(fmt.Sprintf("tx-%d-%d", seed, n)), kgo.TransactionTimeout(60 * time.Second)}, popts...)...)
	}
	nb := 2 + rng.Intn(5)
	ia, ib, ic := rng.Intn(nb), rng.Intn(nb), nb-1-rng.Intn(2)
	var open *kgo.Client
	for i := 0; i < nb; i++ {
		time.Sleep(100 * time.Millisecond)
		if !batch(plain, 0, 1+rng.Intn(4)) {
			return "ERR:produce"
		}
		for n, at := range []int{ia, ib, ic} {
			if at != i || txnmode == 0 || (n == 2 && txnmode < 2) {
				continue
			}
			time.Sleep(100 * time.Millisecond)
			cl, err := txnClient(n + 1)
			if err != nil {
				return "ERR:txnclient:" + err.Error()
			}
			if err := cl.BeginTransaction(); err != nil {
				cl.Close()
				return "ERR:begin"
			}
			if !batch(cl, n+1, 1+rng.Intn(3)) {
				cl.Close()
				return "ERR:txnproduce"
			}
			if n == 2 {
				open = cl
				continue
			}
			if err := cl.EndTransaction(ctx, kgo.TransactionEndTry(n == 0)); err != nil {
				cl.Close()
				return "ERR:endtxn"
			}
			log.Add("T:%d:%s", n+1, map[bool]string{true: "c", false: "a"}[n == 0])
			cl.Close()
		}
	}
	if open != nil {
		defer func() {
			if open != nil {
				open.Close()
			}
		}()
	}
	adm := kadm.NewClient(plain)
	pi := cluster.PartitionInfo("t", 0)
	if delpct > 0 {
		to := pi.LastStableOffset * delpct / 100
		var kos kadm.Offsets
		kos.AddOffset("t", 0, to, -1)
		if resp, err := adm.DeleteRecords(ctx, kos); err == nil {
			if r, ok := resp.Lookup("t", 0); ok && r.Err == nil {
				log.Add("Del:%d", to)
			}
		}
		pi = cluster.PartitionInfo("t", 0)
	}
	log.Add("S:%d:%d:%d", pi.LogStartOffset, pi.LastStableOffset, pi.HighWatermark)
	end := pi.HighWatermark
	if committed {
		end = pi.LastStableOffset
	}
	// the Offset under test
	o := kgo.NewOffset()
	var ox, or, ot int64
	switch kind {
	case "at":
		ox, or = av, bv
		o = o.At(ox)
		if or != 0 {
			o = o.Relative(or)
		}
		if epoch >= 0 {
			o = o.WithEpoch(int32(epoch))
		}
	case "start":
		or = bv
		o = o.AtStart().Relative(or)
	case "end":
		or = bv
		o = o.AtEnd().Relative(or)
	case "milli":
		var cands []int64
		mn, mx := allTs[0], allTs[0]
		for _, ts := range allTs {
			cands = append(cands, ts-1, ts, ts+1)
			mn, mx = min(mn, ts), max(mx, ts)
		}
		cands = append(cands, mn-50, mx+50)
		sort.Slice(cands, func(i, j int) bool { return cands[i] < cands[j] })
		ot = cands[int(av)%len(cands)]
		o = o.AfterMilli(ot + t0)
	case "cm":
		ox = min(max(av, pi.LogStartOffset), end)
		var kos kadm.Offsets
		kos.AddOffset("t", 0, ox, -1)
		if _, err := adm.CommitOffsets(ctx, "g", kos); err != nil {
			return "ERR:commit:" + err.Error()
		}
		log.Add("Cm:%d", ox)
		o = o.AtCommitted()
	}
	log.Add("O:%s:%d:%d:%d:%d", kind, ox, or, epoch, ot)
	loArmed.Store(true)
	hx.St.Inc("off.kind." + kind)
	hx.St.Inc("off.how." + how)
	hx.St.Inc(fmt.Sprintf("off.committed.%d", b2i(committed)))
	hx.St.Inc(fmt.Sprintf("off.txnmode.%d", txnmode))
	hx.St.Inc(fmt.Sprintf("off.lsoBelowEnd.%d", b2i(pi.LastStableOffset < pi.HighWatermark)))
	hx.St.Inc(fmt.Sprintf("off.logStartRaised.%d", b2i(pi.LogStartOffset > 0)))
	copts := append([]kgo.Opt{kgo.FetchMaxWait(50 * time.Millisecond)}, common...)
	switch how {
	case "P":
		copts = append(copts, kgo.ConsumePartitions(map[string]map[int32]kgo.Offset{"t": {0: o}}))
	case "T":
		copts = append(copts, kgo.ConsumeTopics("t"), kgo.ConsumeResetOffset(o))
	case "S":
		copts = append(copts, kgo.ConsumeTopics("t"), kgo.ConsumeStartOffset(o))
	case "G":
		copts = append(copts, kgo.ConsumerGroup("g"), kgo.ConsumeTopics("t"), kgo.ConsumeResetOffset(o), kgo.DisableAutoCommit())
	}
	if committed {
		copts = append(copts, kgo.FetchIsolationLevel(kgo.ReadCommitted()))
	}
	if os.Getenv("VERIF_DEBUG") != "" {
		copts = append(copts, kgo.WithLogger(kgo.BasicLogger(os.Stderr, kgo.LogLevelDebug, nil)))
	}
	late := how == "P" && seed%2 == 0
	if late {
		// late metadata: the Metadata responses the consumer gets at first show the topic as unknown. The client retries
		// eight times at 250 ms and then goes on: the pinned partition is assigned before it is loaded, and even an exact
		// offset is then resolved through ListOffsets (once the topic shows up) instead of being put on the cursor
		outage := &sim.LeaderOutage{}
		outage.Install(net)
		outage.HideTopic("t", 9)
		hx.St.Inc("off.late-metadata")
	}
	co, err := kgo.NewClient(copts...)
	if err != nil {
		return "ERR:consumer:" + err.Error()
	}
	seenErr := map[string]bool{}
	first := int64(-1)
	poll := func() {
		pctx, pc := context.WithTimeout(ctx, 250*time.Millisecond)
		defer pc()
		fs := co.PollFetches(pctx)
		for _, fe := range fs.Errors() {
			if errors.Is(fe.Err, context.DeadlineExceeded) || errors.Is(fe.Err, context.Canceled) {
				continue
			}
			c := offErrClass(fe.Err)
			if !seenErr[c] {
				seenErr[c] = true
				log.Add("E:%s", c)
			}
		}
		fs.EachRecord(func(r *kgo.Record) {
			if first < 0 {
				first = r.Offset
			}
		})
	}
	if late {
		time.Sleep(12 * time.Second) // the log is left alone until the client has seen the topic and resolved its offset
	}
	for i := 0; i < 10 && first < 0; i++ {
		poll()
	}
	if first < 0 {
		log.Add("N")
		// now the log moves on: the open transaction ends and a tail of plain records is appended
		if open != nil {
			commit := txnmode == 2
			if err := open.EndTransaction(ctx, kgo.TransactionEndTry(commit)); err != nil {
				co.Close()
				return "ERR:endopen"
			}
			log.Add("T:3:%s", map[bool]string{true: "c", false: "a"}[commit])
			open.Close()
			open = nil
		}
		time.Sleep(100 * time.Millisecond)
		if !batch(plain, 0, 3) {
			co.Close()
			return "ERR:tail"
		}
		for i := 0; i < 16 && first < 0; i++ {
			poll()
		}
	} else if open != nil {
		commit := txnmode == 2
		if err := open.EndTransaction(ctx, kgo.TransactionEndTry(commit)); err != nil {
			co.Close()
			return "ERR:endopen"
		}
		log.Add("T:3:%s", map[bool]string{true: "c", false: "a"}[commit])
		open.Close()
		open = nil
	}
	if first >= 0 {
		log.Add("F:%d", first)
	} else {
		log.Add("F:none")
	}
	co.Close()
	// read the final log back
	pi = cluster.PartitionInfo("t", 0)
	rd, err := kgo.NewClient(append([]kgo.Opt{kgo.ConsumePartitions(map[string]map[int32]kgo.Offset{"t": {0: kgo.NewOffset().AtStart()}}),
		kgo.KeepControlRecords(), kgo.FetchMaxWait(50 * time.Millisecond)}, common...)...)
	if err != nil {
		return "ERR:reader:" + err.Error()
	}
	next := pi.LogStartOffset
	for i := 0; i < 40 && next < pi.HighWatermark; i++ {
		pctx, pc := context.WithTimeout(ctx, 250*time.Millisecond)
		fs := rd.PollFetches(pctx)
		pc()
		fs.EachRecord(func(r *kgo.Record) {
			log.Add("L:%d:%d:%d", r.Offset, r.Timestamp.UnixMilli()-t0, b2i(r.Attrs.IsControl()))
			next = r.Offset + 1
		})
	}
	rd.Close()
	if next < pi.HighWatermark {
		return "ERR:readback"
	}
	cancel()
	synctest.Wait()
	log.Add("Q")
	hx.St.Inc("scen.total")
	return fmt.Sprintf("cfg:%d ", b2i(committed)) + log.String()
}

func offErrClass(err error) string {
	var dl *kgo.ErrDataLoss
	switch {
	case errors.As(err, &dl):
		return "dataloss"
	}
	s := err.Error()
	out := make([]byte, 0, 24)
	for i := 0; i < len(s) && len(out) < 24; i++ {
		c := s[i]
		if c >= 'a' && c <= 'z' || c >= 'A' && c <= 'Z' || c >= '0' && c <= '9' {
			out = append(out, c)
		} else if len(out) > 0 && out[len(out)-1] != '_' {
			out = append(out, '_')
		}
	}
	return string(out)
}
