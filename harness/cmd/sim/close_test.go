// cls: Close scenarios (C13). A client that produces, consumes in a group and optionally runs transactions
// is closed at an arbitrary moment, with brokers responsive, slow or unreachable.
//
// op:   cls <seed> <kind 0 producer|1 group consumer|2 both|3 transactional> <brokers> <closeat ms> <brokermode 0 ok|1 slow|2 unreachable> <blockpoll 0|1>
// impl: cfg:<kind>:<brokermode> then events
//
//	P:id  R:id:e        a produce call / its promise (e = 0 or error class)
//	Cs  Ce:ms           Close (or CloseAllowingRebalance) called / returned after ms of virtual time
//	Pc:closed|other     what a poll after Close returned
//	Rp:id:e             result of a produce after Close
//	S:what              (slot scenarios) something that stops or reshapes the consumer session was done; not judged
//	L:n:g1,g2,…         after Close, after every other client of the scenario was closed and after 5 s of virtual time:
//	                    n goroutines of this bubble still have a pkg/kgo frame; g = state/function@file#line<created-by
//	Q
//
// A goroutine of the client still blocked when the scenario ends also makes the synctest bubble panic
// ("blocked goroutines remain"); the harness reports that as the scenario outcome PANIC:… with the history so far
// (which then contains the L event naming the goroutine) as its tail.
//
// Slot scenarios (C13b; 9 tokens):
//
// op:   cls <seed> <kind 4 direct topic|5 direct partitions|6 group> <brokers 3-8> <closeat ms> <brokermode> <blockpoll> <maxfetch 1-3> <stops>
//
// a consumer with kgo.MaxConcurrentFetches(maxfetch) on a cluster where every broker leads one or two partitions of
// the topic (more fetch sources than fetch slots), records flowing on every partition. Polls hand freed slots to the
// waiting sources; right behind a poll (after a few Gosched calls or some real spinning, so that it lands while the
// slot is being handed over) the session is stopped: by SetOffsets, RemoveConsumePartitions/AddConsumePartitions,
// a second member joining or leaving the group — `stops` times — and finally by Close itself, called either by the
// poller right behind its poll or concurrently with it.
package main

import (
	"context"
	"errors"
	"fmt"
	"net"
	"runtime"
	"strconv"
	"strings"
	"sync"
	"sync/atomic"
	"testing"
	"testing/synctest"
	"time"

	"github.com/twmb/franz-go/pkg/kerr"
	"github.com/twmb/franz-go/pkg/kfake"
	"github.com/twmb/franz-go/pkg/kgo"
	"github.com/twmb/franz-go/pkg/kmsg"
	"verifharness/hx"
	"verifharness/sim"
)

func genCls(a hx.Args) {
	r := hx.NewRng(a.Seed)
	n := a.N(600, 4000)
	for i := 0; i < n; i++ {
		if i%3 == 0 { // slot scenarios (C13b)
			mode := 0
			if r.Chance(25) {
				mode = 1 + r.Intn(2)
			}
			hx.Emit("cls %d %d %d %d %d %d %d %d", r.U64()%1000000, 4+r.Intn(3), 3+r.Intn(6), r.Intn(500), mode, r.Intn(2), 1+r.Intn(3), r.Intn(17))
			continue
		}
		hx.Emit("cls %d %d %d %d %d %d", r.U64()%1000000, r.Intn(4), 1+r.Intn(3), r.Intn(1500), r.Intn(3), r.Intn(2))
	}
}

// leftoverEvent is the L event: goroutines of this bubble that still have a pkg/kgo frame. It is called when every
// client of the scenario has been closed; the kfake cluster is still up (its goroutines have no kgo frame).
func leftoverEvent(log *sim.Log) int {
	synctest.Wait()
	gs := sim.Leftover("franz-go/pkg/kgo.")
	n := len(gs)
	if n > 4 {
		gs = append(gs[:4], "…")
	}
	log.Add("L:%d:%s", n, strings.Join(gs, ","))
	return n
}

func runCls(t *testing.T, tk []string) string {
	if tk[0] == "cls" && len(tk) == 9 {
		return runClsSlots(t, tk)
	}
	if tk[0] != "cls" || len(tk) != 7 {
		return "bad-op"
	}
	seed := uint64(hx.Atoi(tk[1]))
	kind, brokers, closeat, mode, blockpoll := int(hx.Atoi(tk[2])), int(hx.Atoi(tk[3])), int(hx.Atoi(tk[4])), int(hx.Atoi(tk[5])), tk[6] == "1"
	log := &sim.Log{}
	partial := func() string { return log.String() }
	sim.Partial.Store(&partial)
	leftover := 0
	defer func() {
		if leftover == 0 { // otherwise the bubble is about to panic: the history (with its L event) stays available as the tail
			sim.Partial.Store(nil)
		}
	}()
	net_ := &sim.Net{}
	var down atomic.Bool
	net_.Fault = func(key int16, nth int, frame []byte) sim.Action {
		if down.Load() {
			return sim.KillBefore
		}
		return sim.Pass
	}
	ports := make([]int, brokers)
	base := int(9000 + (portBase.Add(1)%500)*10)
	for i := range ports {
		ports[i] = base + i
	}
	// group variants of the consuming scenarios: KIP-848 members (a third; half of them on a one-partition topic, so that
	// one of the two members owns nothing), and group errors injected into heartbeats (half): the member is told it
	// is fenced / unknown / in an illegal generation, abandons or loses its assignment and rejoins -- Close comes later
	next848 := (kind == 1 || kind == 2) && seed%3 == 0
	grpFault := (kind == 1 || kind == 2) && seed%2 == 0
	nparts := int32(3)
	if next848 && seed%6 == 0 {
		nparts = 1
	}
	copts := []kfake.Opt{kfake.NumBrokers(brokers), kfake.Ports(ports...), kfake.SeedTopics(nparts, "t"), kfake.ListenFn(net_.ListenFn)}
	if next848 {
		// the KIP-848 heartbeat interval is the broker's (default 5 s): made short, so that regular heartbeats happen before Close
		copts = append(copts, kfake.BrokerConfigs(map[string]string{"group.consumer.heartbeat.interval.ms": "100"}))
	}
	cluster, err := kfake.NewCluster(copts...)
	if err != nil {
		return "ERR:cluster:" + err.Error()
	}
	defer cluster.Close()
	rng := hx.NewRng(seed)
	if grpFault {
		var gmu sync.Mutex
		grng := hx.NewRng(seed ^ 0x6772)
		inject := func(kreq kmsg.Request) (kmsg.Response, error, bool) {
			cluster.KeepControl()
			gmu.Lock()
			hit, pick := grng.Chance(12), grng.Intn(2)
			gmu.Unlock()
			if !hit {
				return nil, nil, false
			}
			switch r := kreq.(type) {
			case *kmsg.ConsumerGroupHeartbeatRequest:
				if r.MemberEpoch <= 0 {
					return nil, nil, false // joins and leaves are left alone
				}
				resp := r.ResponseKind().(*kmsg.ConsumerGroupHeartbeatResponse)
				resp.ErrorCode = []int16{kerr.FencedMemberEpoch.Code, kerr.UnknownMemberID.Code}[pick]
				hx.St.Inc(fmt.Sprintf("fault.cls.group-error.%d", resp.ErrorCode))
				return resp, nil, true
			case *kmsg.HeartbeatRequest:
				resp := r.ResponseKind().(*kmsg.HeartbeatResponse)
				resp.ErrorCode = []int16{kerr.IllegalGeneration.Code, kerr.UnknownMemberID.Code}[pick]
				hx.St.Inc(fmt.Sprintf("fault.cls.group-error.%d", resp.ErrorCode))
				return resp, nil, true
			}
			return nil, nil, false
		}
		cluster.ControlKey(68, inject)
		cluster.ControlKey(12, inject)
	}
	var slow atomic.Bool
	if mode == 1 {
		cluster.Control(func(kmsg.Request) (kmsg.Response, error, bool) {
			cluster.KeepControl()
			if slow.Load() {
				time.Sleep(time.Duration(100+rng.Intn(900)) * time.Millisecond)
			}
			return nil, nil, false
		})
	}
	dial := func(ctx context.Context, network, addr string) (net.Conn, error) {
		if down.Load() {
			// a failed connection attempt takes time; failing in zero (virtual) time lets the sink's
			// "unable to load producer ID … retrying" loop, which has no back-off, spin without the bubble's
			// clock ever advancing (observation outside C13: that loop burns CPU while a broker refuses connections)
			select {
			case <-time.After(5 * time.Millisecond):
			case <-ctx.Done():
				return nil, ctx.Err()
			}
			return nil, errors.New("unreachable")
		}
		return net_.Stack.DialContext(ctx, network, addr)
	}
	ctx, cancel := context.WithCancel(context.Background())
	defer cancel()
	gctx := context.Background()
	if next848 {
		gctx = context.WithValue(gctx, "opt_in_kafka_next_gen_balancer_beta", true) //nolint
		hx.St.Inc("scen.cls.kip848")
	}
	opts := []kgo.Opt{kgo.WithContext(gctx), kgo.SeedBrokers(cluster.ListenAddrs()...), kgo.Dialer(dial),
		kgo.RetryBackoffFn(func(int) time.Duration { return 20 * time.Millisecond }),
		kgo.RecordPartitioner(kgo.ManualPartitioner()), kgo.ProducerLinger(time.Duration(rng.Intn(2)*10) * time.Millisecond)}
	consuming := kind == 1 || kind == 2
	if consuming {
		opts = append(opts, kgo.ConsumerGroup("g"), kgo.ConsumeTopics("t"), kgo.FetchMaxWait(100*time.Millisecond),
			kgo.SessionTimeout(6*time.Second), kgo.HeartbeatInterval(300*time.Millisecond), kgo.RebalanceTimeout(4*time.Second),
			kgo.AutoCommitInterval(200*time.Millisecond))
		if blockpoll {
			opts = append(opts, kgo.BlockRebalanceOnPoll())
		}
	}
	if kind == 3 {
		opts = append(opts, kgo.TransactionalID("c13-"+strconv.FormatUint(seed, 10)), kgo.TransactionTimeout(20*time.Second))
	}
	cl, err := kgo.NewClient(opts...)
	if err != nil {
		return "ERR:client:" + err.Error()
	}
	var wg sync.WaitGroup
	stop := make(chan struct{})
	var nextID atomic.Int64
	var gate sync.RWMutex
	closing := false
	producing := kind != 1
	if producing {
		for w := 0; w < 2; w++ {
			wg.Add(1)
			wr := hx.NewRng(seed*19 + uint64(w))
			go func() {
				defer wg.Done()
				for {
					select {
					case <-stop:
						return
					default:
					}
					if kind == 3 {
						if cl.BeginTransaction() != nil {
							time.Sleep(20 * time.Millisecond)
							continue
						}
					}
					for i := 0; i < 1+wr.Intn(5); i++ {
						gate.RLock()
						if closing {
							gate.RUnlock()
							return
						}
						id := nextID.Add(1)
						log.Add("P:%d", id)
						gate.RUnlock()
						cl.Produce(ctx, &kgo.Record{Topic: "t", Partition: int32(wr.Intn(3)), Key: []byte(strconv.FormatInt(id, 10))}, func(_ *kgo.Record, err error) {
							log.Add("R:%d:%s", id, txnErrClass(err))
						})
					}
					if kind == 3 {
						ectx, ec := context.WithTimeout(ctx, 5*time.Second)
						cl.Flush(ectx)
						cl.EndTransaction(ectx, kgo.TransactionEndTry(wr.Chance(70)))
						ec()
					}
					time.Sleep(time.Duration(wr.Intn(40)) * time.Millisecond)
					if kind == 3 {
						return // one transactional producer loop per client: transactions are not concurrent
					}
				}
			}()
			if kind == 3 {
				break
			}
		}
	}
	if consuming && seed%2 == 0 {
		// the log is trimmed under the consumer (DeleteRecords up to the high watermark) while another client keeps
		// producing: fetches are answered OFFSET_OUT_OF_RANGE and the consumer reloads its offsets (ListOffsets after
		// a metadata wait), so that Close also lands while an offset reload is in progress
		wg.Add(1)
		go func() {
			defer wg.Done()
			tr := hx.NewRng(seed*23 + 5)
			adm, err := kgo.NewClient(kgo.SeedBrokers(cluster.ListenAddrs()...), kgo.Dialer(net_.Stack.DialContext),
				kgo.RecordPartitioner(kgo.ManualPartitioner()), kgo.RetryBackoffFn(func(int) time.Duration { return 20 * time.Millisecond }))
			if err != nil {
				return
			}
			defer adm.Close()
			for {
				select {
				case <-stop:
					return
				default:
				}
				for p := int32(0); p < 3; p++ {
					adm.Produce(ctx, &kgo.Record{Topic: "t", Partition: p, Value: []byte("filler")}, nil)
				}
				time.Sleep(time.Duration(100+tr.Intn(400)) * time.Millisecond)
				req := kmsg.NewPtrDeleteRecordsRequest()
				req.TimeoutMillis = 1000
				rt := kmsg.NewDeleteRecordsRequestTopic()
				rt.Topic = "t"
				for p := int32(0); p < 3; p++ {
					rp := kmsg.NewDeleteRecordsRequestTopicPartition()
					rp.Partition, rp.Offset = p, -1
					rt.Partitions = append(rt.Partitions, rp)
				}
				req.Topics = append(req.Topics, rt)
				rctx, rc := context.WithTimeout(ctx, 2*time.Second)
				adm.Request(rctx, req)
				rc()
				hx.St.Inc("scen.cls.trim")
			}
		}()
	}
	if consuming {
		// a second member so that rebalances happen, and the poller of the client under test
		wg.Add(1)
		go func() {
			defer wg.Done()
			time.Sleep(time.Duration(rng.Intn(600)) * time.Millisecond)
			c2, err := kgo.NewClient(kgo.WithContext(gctx), kgo.SeedBrokers(cluster.ListenAddrs()...), kgo.Dialer(net_.Stack.DialContext), kgo.ConsumerGroup("g"), kgo.ConsumeTopics("t"),
				kgo.FetchMaxWait(100*time.Millisecond), kgo.SessionTimeout(6*time.Second), kgo.HeartbeatInterval(300*time.Millisecond))
			if err != nil {
				return
			}
			for {
				select {
				case <-stop:
					c2.Close()
					return
				default:
				}
				pctx, pc := context.WithTimeout(ctx, 200*time.Millisecond)
				c2.PollFetches(pctx)
				pc()
			}
		}()
		wg.Add(1)
		go func() {
			defer wg.Done()
			for {
				select {
				case <-stop:
					return
				default:
				}
				pctx, pc := context.WithTimeout(ctx, 150*time.Millisecond)
				fs := cl.PollFetches(pctx)
				pc()
				if fs.IsClientClosed() {
					return
				}
				if blockpoll && rng.Chance(70) {
					cl.AllowRebalance()
				}
			}
		}()
	}
	time.Sleep(time.Duration(closeat) * time.Millisecond)
	switch mode {
	case 1:
		slow.Store(true)
	case 2:
		down.Store(true)
		net_.KillAll()
	}
	time.Sleep(time.Duration(rng.Intn(50)) * time.Millisecond)
	gate.Lock()
	closing = true
	log.Add("Cs")
	gate.Unlock()
	t0 := time.Now()
	if blockpoll {
		cl.CloseAllowingRebalance()
	} else {
		cl.Close()
	}
	log.Add("Ce:%d", time.Since(t0).Milliseconds())
	// after Close
	pctx, pc := context.WithTimeout(ctx, time.Second)
	fs := cl.PollFetches(pctx)
	pc()
	if fs.IsClientClosed() {
		log.Add("Pc:closed")
	} else {
		log.Add("Pc:other")
	}
	close(stop)
	slow.Store(false)
	down.Store(false)
	wg.Wait()
	cancel()
	synctest.Wait()
	time.Sleep(5 * time.Second)
	leftover = leftoverEvent(log)
	log.Add("Q")
	hx.St.Inc(fmt.Sprintf("scen.cls.kind%d.mode%d", kind, mode))
	return fmt.Sprintf("cfg:%d:%d ", kind, mode) + log.String()
}

var spinSink atomic.Int64

// realPause lets a little *real* time pass without the bubble's clock moving: how = 0 nothing, 1-4 that many
// runtime.Gosched calls, otherwise a counted busy loop (time.Now is virtual inside a bubble, so the loop is counted).
func realPause(how int) {
	switch {
	case how <= 0:
	case how <= 4:
		for i := 0; i < how; i++ {
			runtime.Gosched()
		}
	default:
		var x int64
		for i := 0; i < how; i++ {
			x += int64(i) ^ x>>3
		}
		spinSink.Add(x)
	}
}

func pickPause(r *hx.Rng) int {
	switch r.Intn(4) {
	case 0:
		return 0
	case 1:
		return 1 + r.Intn(4)
	case 2:
		return 5 + r.Intn(3000) // up to a few microseconds
	}
	return 3000 + r.Intn(60000) // up to some tens of microseconds
}

func runClsSlots(t *testing.T, tk []string) string {
	seed := uint64(hx.Atoi(tk[1]))
	kind, brokers, closeat, mode, blockpoll := int(hx.Atoi(tk[2])), int(hx.Atoi(tk[3])), int(hx.Atoi(tk[4])), int(hx.Atoi(tk[5])), tk[6] == "1"
	maxFetch, stops := int(hx.Atoi(tk[7])), int(hx.Atoi(tk[8]))
	if kind < 4 || kind > 6 || brokers < 1 || brokers > 12 || maxFetch < 0 {
		return "bad-op"
	}
	group := kind == 6
	blockpoll = blockpoll && group
	log := &sim.Log{}
	partial := func() string { return log.String() }
	sim.Partial.Store(&partial)
	leftover := 0
	defer func() {
		if leftover == 0 { // otherwise the bubble is about to panic: the history (with its L event) stays available as the tail
			sim.Partial.Store(nil)
		}
	}()
	net_ := &sim.Net{}
	var down atomic.Bool
	net_.Fault = func(key int16, nth int, frame []byte) sim.Action {
		if down.Load() {
			return sim.KillBefore
		}
		return sim.Pass
	}
	ports := make([]int, brokers)
	base := int(9000 + (portBase.Add(1)%500)*10)
	if brokers > 10 {
		portBase.Add(1)
	}
	for i := range ports {
		ports[i] = base + i
	}
	rng := hx.NewRng(seed)
	nparts := int32(brokers * (1 + rng.Intn(2)))
	cluster, err := kfake.NewCluster(kfake.NumBrokers(brokers), kfake.Ports(ports...), kfake.SeedTopics(nparts, "t"),
		kfake.ListenFn(net_.ListenFn))
	if err != nil {
		return "ERR:cluster:" + err.Error()
	}
	defer cluster.Close()
	for p := int32(0); p < nparts; p++ { // every broker leads a partition: every broker is a fetch source
		if err := cluster.MoveTopicPartition("t", p, p%int32(brokers)); err != nil {
			return "ERR:move:" + err.Error()
		}
	}
	var slow atomic.Bool
	srng := hx.NewRng(seed*41 + 1)
	if mode == 1 {
		cluster.Control(func(kmsg.Request) (kmsg.Response, error, bool) {
			cluster.KeepControl()
			if slow.Load() {
				// every request is delayed on its own (other connections are served meanwhile): with up to 8 brokers, a
				// second member and a producer, delays served one after the other by kfake's single loop would add up
				// to minutes for the handful of requests Close has to make
				d := time.Duration(100+srng.Intn(900)) * time.Millisecond
				cluster.SleepControl(func() { time.Sleep(d) })
			}
			return nil, nil, false
		})
	}
	dial := func(ctx context.Context, network, addr string) (net.Conn, error) {
		if down.Load() {
			select {
			case <-time.After(5 * time.Millisecond):
			case <-ctx.Done():
				return nil, ctx.Err()
			}
			return nil, errors.New("unreachable")
		}
		return net_.Stack.DialContext(ctx, network, addr)
	}
	ctx, cancel := context.WithCancel(context.Background())
	defer cancel()
	backoff := kgo.RetryBackoffFn(func(int) time.Duration { return 20 * time.Millisecond })

	// records on every partition before the consumer starts, and a trickle afterwards, so that fetches complete and
	// slots change hands all the time
	adm, err := kgo.NewClient(kgo.SeedBrokers(cluster.ListenAddrs()...), kgo.Dialer(net_.Stack.DialContext),
		kgo.RecordPartitioner(kgo.ManualPartitioner()), backoff)
	if err != nil {
		return "ERR:adm:" + err.Error()
	}
	{
		var recs []*kgo.Record
		for p := int32(0); p < nparts; p++ {
			for i := 0; i < 2+rng.Intn(4); i++ {
				recs = append(recs, &kgo.Record{Topic: "t", Partition: p, Value: []byte("v")})
			}
		}
		sctx, sc := context.WithTimeout(ctx, 20*time.Second)
		err := adm.ProduceSync(sctx, recs...).FirstErr()
		sc()
		if err != nil {
			adm.Close()
			return "ERR:seed:" + err.Error()
		}
	}
	var wg sync.WaitGroup
	stop := make(chan struct{})
	wg.Add(1)
	go func() {
		defer wg.Done()
		defer adm.Close()
		fr := hx.NewRng(seed*29 + 3)
		for {
			select {
			case <-stop:
				return
			default:
			}
			for p := int32(0); p < nparts; p++ {
				adm.Produce(ctx, &kgo.Record{Topic: "t", Partition: p, Value: []byte("w")}, nil)
			}
			time.Sleep(time.Duration(2+fr.Intn(25)) * time.Millisecond)
		}
	}()

	opts := []kgo.Opt{kgo.SeedBrokers(cluster.ListenAddrs()...), kgo.Dialer(dial), backoff,
		kgo.MaxConcurrentFetches(maxFetch), kgo.FetchMaxWait(time.Duration(20+rng.Intn(80)) * time.Millisecond),
		kgo.ConsumeResetOffset(kgo.NewOffset().AtStart())}
	allParts := func(o kgo.Offset) map[string]map[int32]kgo.Offset {
		m := map[int32]kgo.Offset{}
		for p := int32(0); p < nparts; p++ {
			m[p] = o
		}
		return map[string]map[int32]kgo.Offset{"t": m}
	}
	groupOpts := []kgo.Opt{kgo.ConsumerGroup("g"), kgo.ConsumeTopics("t"), kgo.SessionTimeout(6 * time.Second),
		kgo.HeartbeatInterval(300 * time.Millisecond), kgo.RebalanceTimeout(4 * time.Second)}
	switch kind {
	case 4:
		opts = append(opts, kgo.ConsumeTopics("t"))
	case 5:
		opts = append(opts, kgo.ConsumePartitions(allParts(kgo.NewOffset().AtStart())))
	case 6:
		opts = append(opts, groupOpts...)
		opts = append(opts, kgo.AutoCommitInterval(200*time.Millisecond))
		if rng.Chance(40) {
			opts = append(opts, kgo.Balancers(kgo.RangeBalancer())) // eager: every rebalance revokes everything
		}
		if blockpoll {
			opts = append(opts, kgo.BlockRebalanceOnPoll())
		}
	}
	cl, err := kgo.NewClient(opts...)
	if err != nil {
		close(stop)
		wg.Wait()
		return "ERR:client:" + err.Error()
	}
	if group {
		// a second member that joins and leaves again and again: every change of the group stops the session of the
		// client under test
		wg.Add(1)
		go func() {
			defer wg.Done()
			mr := hx.NewRng(seed*31 + 7)
			for {
				select {
				case <-stop:
					return
				case <-time.After(time.Duration(mr.Intn(150)) * time.Millisecond):
				}
				c2, err := kgo.NewClient(append([]kgo.Opt{kgo.SeedBrokers(cluster.ListenAddrs()...), kgo.Dialer(net_.Stack.DialContext),
					kgo.FetchMaxWait(100 * time.Millisecond)}, groupOpts...)...)
				if err != nil {
					return
				}
				hx.St.Inc("scen.cls.slots.member2-joins")
				until := time.Now().Add(time.Duration(50+mr.Intn(400)) * time.Millisecond)
				for time.Now().Before(until) {
					select {
					case <-stop:
						c2.Close()
						return
					default:
					}
					pctx, pc := context.WithTimeout(ctx, 100*time.Millisecond)
					c2.PollFetches(pctx)
					pc()
				}
				c2.Close()
			}
		}()
	}

	// the poller: polls, and right behind a poll that returned records stops the session `stops` times; when told
	// to, it closes the client right behind a poll
	var (
		closeReq   atomic.Bool // set by the main goroutine when it is time to close
		closerIsMe = rng.Chance(60)
		closedCh   = make(chan struct{})
		polls      atomic.Int64
		gotRecs    atomic.Int64
		stopsLeft  = stops
	)
	doClose := func() {
		log.Add("Cs")
		t0 := time.Now()
		if blockpoll {
			cl.CloseAllowingRebalance()
		} else {
			cl.Close()
		}
		log.Add("Ce:%d", time.Since(t0).Milliseconds())
		close(closedCh)
	}
	stopSession := func(pr *hx.Rng) {
		some := func() []int32 {
			var ps []int32
			for p := int32(0); p < nparts; p++ {
				if pr.Chance(50) {
					ps = append(ps, p)
				}
			}
			if len(ps) == 0 {
				ps = []int32{int32(pr.Intn(int(nparts)))}
			}
			return ps
		}
		// (no leader moves here: a fetch answered NOT_LEADER with the new leader attached is re-issued without back-off
		// until the metadata loop runs the move, and kfake answers in zero virtual time, so the bubble's clock would
		// never advance past the metadata loop's 10 ms pile-on sleep — an observation outside C13)
		what := pr.Intn(3)
		if kind != 5 && what == 1 {
			what = 0
		}
		switch what {
		case 0: // rewind some partitions: stops the session and starts a new one
			m := map[int32]kgo.EpochOffset{}
			for _, p := range some() {
				m[p] = kgo.EpochOffset{Epoch: -1, Offset: int64(pr.Intn(3))}
			}
			log.Add("S:setoffsets")
			cl.SetOffsets(map[string]map[int32]kgo.EpochOffset{"t": m})
		case 1: // direct partitions: remove some, poll-less pause, add them back
			ps := some()
			log.Add("S:remove-add")
			cl.RemoveConsumePartitions(map[string][]int32{"t": ps})
			realPause(pickPause(pr))
			add := map[int32]kgo.Offset{}
			for _, p := range ps {
				add[p] = kgo.NewOffset().AtStart()
			}
			cl.AddConsumePartitions(map[string]map[int32]kgo.Offset{"t": add})
		case 2: // pausing takes sources out of the competition for slots, resuming puts them back
			ps := some()
			log.Add("S:pause-resume")
			if pr.Chance(50) {
				cl.PauseFetchTopics("t")
				realPause(pickPause(pr))
				cl.ResumeFetchTopics("t")
			} else {
				cl.PauseFetchPartitions(map[string][]int32{"t": ps})
				realPause(pickPause(pr))
				cl.ResumeFetchPartitions(map[string][]int32{"t": ps})
			}
		}
		hx.St.Inc(fmt.Sprintf("scen.cls.slots.stop%d", what))
	}
	wg.Add(1)
	go func() {
		defer wg.Done()
		pr := hx.NewRng(seed*37 + 11)
		for {
			select {
			case <-stop:
				return
			default:
			}
			pctx, pc := context.WithTimeout(ctx, time.Duration(5+pr.Intn(60))*time.Millisecond)
			var fs kgo.Fetches
			if pr.Chance(50) {
				fs = cl.PollFetches(pctx)
			} else {
				fs = cl.PollRecords(pctx, 1+pr.Intn(30))
			}
			pc()
			if fs.IsClientClosed() {
				return
			}
			polls.Add(1)
			n := fs.NumRecords()
			gotRecs.Add(int64(n))
			if blockpoll && pr.Chance(70) {
				cl.AllowRebalance()
			}
			if closeReq.Load() && closerIsMe {
				realPause(pickPause(pr))
				doClose()
				return
			}
			if n > 0 && stopsLeft > 0 && pr.Chance(75) {
				stopsLeft--
				realPause(pickPause(pr))
				stopSession(pr)
			}
			if pr.Chance(30) {
				time.Sleep(time.Duration(pr.Intn(5)) * time.Millisecond)
			}
		}
	}()
	time.Sleep(time.Duration(closeat) * time.Millisecond)
	switch mode {
	case 1:
		slow.Store(true)
	case 2:
		down.Store(true)
		net_.KillAll()
	}
	if mode != 0 {
		time.Sleep(time.Duration(rng.Intn(50)) * time.Millisecond)
	}
	closeReq.Store(true)
	if !closerIsMe {
		// Close from here, concurrently with the poller, which is in the middle of a poll or just behind one
		realPause(pickPause(rng))
		doClose()
	}
	<-closedCh
	pctx, pc := context.WithTimeout(ctx, time.Second)
	fs := cl.PollFetches(pctx)
	pc()
	if fs.IsClientClosed() {
		log.Add("Pc:closed")
	} else {
		log.Add("Pc:other")
	}
	close(stop)
	slow.Store(false)
	down.Store(false)
	wg.Wait()
	cancel()
	synctest.Wait()
	time.Sleep(5 * time.Second)
	leftover = leftoverEvent(log)
	log.Add("Q")
	hx.St.Inc(fmt.Sprintf("scen.cls.kind%d.mode%d", kind, mode))
	hx.St.Inc(fmt.Sprintf("scen.cls.slots.brokers%d.maxfetch%d", brokers, maxFetch))
	if gotRecs.Load() > 0 {
		hx.St.Inc("scen.cls.slots.polled-records")
	}
	if closerIsMe {
		hx.St.Inc("scen.cls.slots.close-behind-poll")
	} else {
		hx.St.Inc("scen.cls.slots.close-concurrent")
	}
	return fmt.Sprintf("cfg:%d:%d ", kind, mode) + log.String()
}
