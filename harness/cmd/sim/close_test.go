// cls: Close scenarios (C13). A client that produces, consumes in a group and optionally runs transactions
// is closed at an arbitrary moment, with brokers responsive, slow or unreachable.
//
// op:   cls <seed> <kind 0 producer|1 group consumer|2 both|3 transactional> <brokers> <closeat ms> <brokermode 0 ok|1 slow|2 unreachable> <blockpoll 0|1>
// impl: cfg:<kind>:<brokermode> then events
//
//	P:id  R:id:e        a produce call / its promise (e = 0 or error class)
//	Cs  Ce:ms           Close (or CloseAllowingRebalance) called / returned after ms of virtual time
//	Pc:closed|other     what a poll after Close returned
//	Rp:id:e             result of a produce after Close
//	Q
//
// A goroutine of the client still blocked when the scenario ends makes the synctest bubble panic
// ("blocked goroutines remain"); the harness reports that as the scenario outcome PANIC:…
package main

import (
	"context"
	"errors"
	"fmt"
	"net"
	"strconv"
	"sync"
	"sync/atomic"
	"testing"
	"testing/synctest"
	"time"

	"github.com/twmb/franz-go/pkg/kfake"
	"github.com/twmb/franz-go/pkg/kgo"
	"github.com/twmb/franz-go/pkg/kmsg"
	"verifharness/hx"
	"verifharness/sim"
)

func genCls(a hx.Args) {
	r := hx.NewRng(a.Seed)
	n := a.N(600, 4000)
	for i := 0; i < n; i++ {
		hx.Emit("cls %d %d %d %d %d %d", r.U64()%1000000, r.Intn(4), 1+r.Intn(3), r.Intn(1500), r.Intn(3), r.Intn(2))
	}
}

func runCls(t *testing.T, tk []string) string {
	if tk[0] != "cls" || len(tk) != 7 {
		return "bad-op"
	}
	seed := uint64(hx.Atoi(tk[1]))
	kind, brokers, closeat, mode, blockpoll := int(hx.Atoi(tk[2])), int(hx.Atoi(tk[3])), int(hx.Atoi(tk[4])), int(hx.Atoi(tk[5])), tk[6] == "1"
	log := &sim.Log{}
	partial := func() string { return log.String() }
	sim.Partial.Store(&partial)
	defer sim.Partial.Store(nil)
	net_ := &sim.Net{}
	var down atomic.Bool
	net_.Fault = func(key int16, nth int, frame []byte) sim.Action {
		if down.Load() {
			return sim.KillBefore
		}
		return sim.Pass
	}
	ports := make([]int, brokers)
	base := int(9000 + (portBase.Add(1)%500)*10)
	for i := range ports {
		ports[i] = base + i
	}
	cluster, err := kfake.NewCluster(kfake.NumBrokers(brokers), kfake.Ports(ports...), kfake.SeedTopics(3, "t"),
		kfake.ListenFn(net_.ListenFn))
	if err != nil {
		return "ERR:cluster:" + err.Error()
	}
	defer cluster.Close()
	rng := hx.NewRng(seed)
	var slow atomic.Bool
	if mode == 1 {
		cluster.Control(func(kmsg.Request) (kmsg.Response, error, bool) {
			cluster.KeepControl()
			if slow.Load() {
				time.Sleep(time.Duration(100+rng.Intn(900)) * time.Millisecond)
			}
			return nil, nil, false
		})
	}
	dial := func(ctx context.Context, network, addr string) (net.Conn, error) {
		if down.Load() {
			// a failed connection attempt takes time; failing in zero (virtual) time lets the sink's
			// "unable to load producer ID … retrying" loop, which has no back-off, spin without the bubble's
			// clock ever advancing (observation outside C13: that loop burns CPU while a broker refuses connections)
			select {
			case <-time.After(5 * time.Millisecond):
			case <-ctx.Done():
				return nil, ctx.Err()
			}
			return nil, errors.New("unreachable")
		}
		return net_.Stack.DialContext(ctx, network, addr)
	}
	ctx, cancel := context.WithCancel(context.Background())
	defer cancel()
	opts := []kgo.Opt{kgo.SeedBrokers(cluster.ListenAddrs()...), kgo.Dialer(dial),
		kgo.RetryBackoffFn(func(int) time.Duration { return 20 * time.Millisecond }),
		kgo.RecordPartitioner(kgo.ManualPartitioner()), kgo.ProducerLinger(time.Duration(rng.Intn(2)*10) * time.Millisecond)}
	consuming := kind == 1 || kind == 2
	if consuming {
		opts = append(opts, kgo.ConsumerGroup("g"), kgo.ConsumeTopics("t"), kgo.FetchMaxWait(100*time.Millisecond),
			kgo.SessionTimeout(6*time.Second), kgo.HeartbeatInterval(300*time.Millisecond), kgo.RebalanceTimeout(4*time.Second),
			kgo.AutoCommitInterval(200*time.Millisecond))
		if blockpoll {
			opts = append(opts, kgo.BlockRebalanceOnPoll())
		}
	}
	if kind == 3 {
		opts = append(opts, kgo.TransactionalID("c13-"+strconv.FormatUint(seed, 10)), kgo.TransactionTimeout(20*time.Second))
	}
	cl, err := kgo.NewClient(opts...)
	if err != nil {
		return "ERR:client:" + err.Error()
	}
	var wg sync.WaitGroup
	stop := make(chan struct{})
	var nextID atomic.Int64
	var gate sync.RWMutex
	closing := false
	producing := kind != 1
	if producing {
		for w := 0; w < 2; w++ {
			wg.Add(1)
			wr := hx.NewRng(seed*19 + uint64(w))
			go func() {
				defer wg.Done()
				for {
					select {
					case <-stop:
						return
					default:
					}
					if kind == 3 {
						if cl.BeginTransaction() != nil {
							time.Sleep(20 * time.Millisecond)
							continue
						}
					}
					for i := 0; i < 1+wr.Intn(5); i++ {
						gate.RLock()
						if closing {
							gate.RUnlock()
							return
						}
						id := nextID.Add(1)
						log.Add("P:%d", id)
						gate.RUnlock()
						cl.Produce(ctx, &kgo.Record{Topic: "t", Partition: int32(wr.Intn(3)), Key: []byte(strconv.FormatInt(id, 10))}, func(_ *kgo.Record, err error) {
							log.Add("R:%d:%s", id, txnErrClass(err))
						})
					}
					if kind == 3 {
						ectx, ec := context.WithTimeout(ctx, 5*time.Second)
						cl.Flush(ectx)
						cl.EndTransaction(ectx, kgo.TransactionEndTry(wr.Chance(70)))
						ec()
					}
					time.Sleep(time.Duration(wr.Intn(40)) * time.Millisecond)
					if kind == 3 {
						return // one transactional producer loop per client: transactions are not concurrent
					}
				}
			}()
			if kind == 3 {
				break
			}
		}
	}
	if consuming && seed%2 == 0 {
		// the log is trimmed under the consumer (DeleteRecords up to the high watermark) while another client keeps
		// producing: fetches are answered OFFSET_OUT_OF_RANGE and the consumer reloads its offsets (ListOffsets after
		// a metadata wait), so that Close also lands while an offset reload is in progress
		wg.Add(1)
		go func() {
			defer wg.Done()
			tr := hx.NewRng(seed*23 + 5)
			adm, err := kgo.NewClient(kgo.SeedBrokers(cluster.ListenAddrs()...), kgo.Dialer(net_.Stack.DialContext),
				kgo.RecordPartitioner(kgo.ManualPartitioner()), kgo.RetryBackoffFn(func(int) time.Duration { return 20 * time.Millisecond }))
			if err != nil {
				return
			}
			defer adm.Close()
			for {
				select {
				case <-stop:
					return
				default:
				}
				for p := int32(0); p < 3; p++ {
					adm.Produce(ctx, &kgo.Record{Topic: "t", Partition: p, Value: []byte("filler")}, nil)
				}
				time.Sleep(time.Duration(100+tr.Intn(400)) * time.Millisecond)
				req := kmsg.NewPtrDeleteRecordsRequest()
				req.TimeoutMillis = 1000
				rt := kmsg.NewDeleteRecordsRequestTopic()
				rt.Topic = "t"
				for p := int32(0); p < 3; p++ {
					rp := kmsg.NewDeleteRecordsRequestTopicPartition()
					rp.Partition, rp.Offset = p, -1
					rt.Partitions = append(rt.Partitions, rp)
				}
				req.Topics = append(req.Topics, rt)
				rctx, rc := context.WithTimeout(ctx, 2*time.Second)
				adm.Request(rctx, req)
				rc()
				hx.St.Inc("scen.cls.trim")
			}
		}()
	}
	if consuming {
		// a second member so that rebalances happen, and the poller of the client under test
		wg.Add(1)
		go func() {
			defer wg.Done()
			time.Sleep(time.Duration(rng.Intn(600)) * time.Millisecond)
			c2, err := kgo.NewClient(kgo.SeedBrokers(cluster.ListenAddrs()...), kgo.Dialer(net_.Stack.DialContext), kgo.ConsumerGroup("g"), kgo.ConsumeTopics("t"),
				kgo.FetchMaxWait(100*time.Millisecond), kgo.SessionTimeout(6*time.Second), kgo.HeartbeatInterval(300*time.Millisecond))
			if err != nil {
				return
			}
			for {
				select {
				case <-stop:
					c2.Close()
					return
				default:
				}
				pctx, pc := context.WithTimeout(ctx, 200*time.Millisecond)
				c2.PollFetches(pctx)
				pc()
			}
		}()
		wg.Add(1)
		go func() {
			defer wg.Done()
			for {
				select {
				case <-stop:
					return
				default:
				}
				pctx, pc := context.WithTimeout(ctx, 150*time.Millisecond)
				fs := cl.PollFetches(pctx)
				pc()
				if fs.IsClientClosed() {
					return
				}
				if blockpoll && rng.Chance(70) {
					cl.AllowRebalance()
				}
			}
		}()
	}
	time.Sleep(time.Duration(closeat) * time.Millisecond)
	switch mode {
	case 1:
		slow.Store(true)
	case 2:
		down.Store(true)
		net_.KillAll()
	}
	time.Sleep(time.Duration(rng.Intn(50)) * time.Millisecond)
	gate.Lock()
	closing = true
	log.Add("Cs")
	gate.Unlock()
	t0 := time.Now()
	if blockpoll {
		cl.CloseAllowingRebalance()
	} else {
		cl.Close()
	}
	log.Add("Ce:%d", time.Since(t0).Milliseconds())
	// after Close
	pctx, pc := context.WithTimeout(ctx, time.Second)
	fs := cl.PollFetches(pctx)
	pc()
	if fs.IsClientClosed() {
		log.Add("Pc:closed")
	} else {
		log.Add("Pc:other")
	}
	close(stop)
	slow.Store(false)
	down.Store(false)
	wg.Wait()
	cancel()
	synctest.Wait()
	time.Sleep(5 * time.Second)
	synctest.Wait()
	log.Add("Q")
	hx.St.Inc(fmt.Sprintf("scen.cls.kind%d.mode%d", kind, mode))
	return fmt.Sprintf("cfg:%d:%d ", kind, mode) + log.String()
}
