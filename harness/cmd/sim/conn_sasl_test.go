// conn, SASL scenarios (C22): requests in flight across a SASL session expiry, requests PARKED behind them, and then a
// connection death or a clean re-authentication. The scripted peer of conn_test.go additionally speaks SASLHandshake and
// SASLAuthenticate (PLAIN) and advertises a session lifetime in its SASLAuthenticate response (KIP-368); the kgo client
// (kgo.SASL(plain...)) treats the session as expired `lifetime - 1 s` after authenticating (doSasl), and from then on
// handleReq parks every request for that connection while a response is in flight (brokerCxn.park); when the in-flight
// responses have drained, handleResps pushes a sentinel and handleReauthDrain re-authenticates and replays the parked
// requests in order; when the connection dies first, die -> failParked fails them.
//
// Timeline of a scenario (virtual ms; E = lifetime - 1000 = the client-side expiry of the first authentication at t=0):
//
//	0                      npre requests, answered at once (the first one dials and authenticates)
//	E-200 .. E-20          na requests, read by the peer and HELD (in flight across the expiry), pipelined
//	E+20 .. E+300          nb requests at distinct times: parked behind the held ones
//	E+400 .. E+600         the fault: sasl-cut      the peer closes the connection (before / inside / after the oldest held response)
//	                                  sasl-timeout  the peer stays silent: the read timeout of the oldest held request fires
//	                                  sasl-cancel   the contexts of some held requests are cancelled, the peer answers 100 ms later
//	                                  sasl-clean    the peer answers the held requests: drain, re-authentication, replay
//	                                  sasl-authcut  as clean, but the peer cuts (or refuses) the RE-authentication: the parked requests
//	                                                are replayed on a new connection
//	later                  nlate requests at distinct times up to 2.5 s after the fault (new connection, or the old one with a
//	                       second expiry: inline re-authentication, or parked again behind another late request)
//
// sasl-short: a lifetime of at most 1 s, i.e. every authentication has expired as soon as it is complete; k requests
// at t=0 and later (park / drain / re-authenticate / replay one / park again).
package main

import (
	"context"
	"encoding/binary"
	"errors"
	"fmt"
	"io"
	"net"
	"strings"
	"sync"
	"sync/atomic"
	"testing"
	"time"

	"github.com/twmb/franz-go/pkg/kbin"
	"github.com/twmb/franz-go/pkg/kgo"
	"github.com/twmb/franz-go/pkg/kmsg"
	"github.com/twmb/franz-go/pkg/sasl/plain"
	"verifharness/hx"
	"verifharness/sim"
)

var connSaslStreams = []string{"sasl-cut", "sasl-cut", "sasl-cut", "sasl-timeout", "sasl-timeout", "sasl-cancel", "sasl-cancel", "sasl-clean", "sasl-clean", "sasl-authcut", "sasl-short"}

func genConnSasl(a hx.Args, r *hx.Rng) {
	n := a.N(260, 5000)
	for i := 0; i < n; i++ {
		st := hx.Pick(r, connSaslStreams)
		cancel := 0
		if st == "sasl-cancel" {
			cancel = 1
		}
		hx.Emit("conn %d %d %s %d %s %d %d %d", r.U64()%1000000, 3+r.Intn(10), hx.Pick(r, []string{"m", "f", "l", "x", "x"}), r.Intn(2), st, r.Intn(1000),
			cancel, hx.Pick(r, []int{1000, 1500, 3000}))
	}
}

// connSaslStats counts, in a (possibly partial) history, parked requests, re-authentications, replays, and requests
// that reached the wire after they had already been given their outcome.
func connSaslStats(hist string) {
	if !strings.Contains(hist, ":sasl-") {
		return
	}
	outAt := map[string]int64{}
	parked := map[string]bool{}
	nw := map[string]int{}
	for _, tok := range strings.Fields(hist) {
		f := strings.Split(tok, ":")
		switch {
		case f[0] == "P" && len(f) == 4:
			parked[f[1]] = true
			hx.St.Inc("conn.sasl.parked")
		case f[0] == "AE" && len(f) == 5:
			if f[2] != "1" {
				hx.St.Inc("conn.sasl.reauthenticated")
			} else {
				hx.St.Inc("conn.sasl.authenticated")
			}
		case f[0] == "R" && len(f) == 5:
			outAt[f[1]] = hx.Atoi(f[4])
			if parked[f[1]] && nw[f[1]] == 0 {
				hx.St.Inc("conn.sasl.parked-failed-unwritten")
			}
		case f[0] == "W" && len(f) == 6:
			nw[f[3]]++
			if parked[f[3]] {
				hx.St.Inc("conn.sasl.parked-replayed")
			}
			if t, ok := outAt[f[3]]; ok && hx.Atoi(f[5]) > t {
				hx.St.Inc("C22.failed-request-written-after-disconnect")
			}
			if nw[f[3]] > 1 && f[3] != "-1" {
				hx.St.Inc("C22.request-written-twice")
			}
		}
	}
}

// ---------------------------------------------------------------- the scenario

type saslReqState struct {
	issued, written, parked, done bool
}

type connSaslScenario struct {
	*connScenario
	fault    string
	lifetime int64
	tFault   time.Duration // since t0
	tRel     time.Duration
	cutMode  int
	authMode int // sasl-authcut: 0 cut at the handshake, 1 cut at the authenticate, 2 SASL_AUTHENTICATION_FAILED
	held     map[int]bool
	rmu      sync.Mutex // guards reqs/order and makes "state change + log line" atomic
	reqs     []saslReqState
	current  atomic.Int64 // request whose version the client set last (see connTracedReq)
}

// connTracedReq is the request handed to Broker.Request: the embedded kmsg request does all the work, SetVersion
// additionally tells the harness which request the broker worker is handling.
type connTracedReq struct {
	kmsg.Request
	id int
	sc *connSaslScenario
}

func (r *connTracedReq) SetVersion(v int16) {
	r.sc.current.Store(int64(r.id))
	r.Request.SetVersion(v)
}

func (sc *connSaslScenario) sleepUntil(d time.Duration) {
	if w := d - time.Since(sc.t0); w > 0 {
		time.Sleep(w)
	}
}

// the client's debug log is the only place where parking is visible
type connSaslLogger struct{ sc *connSaslScenario }

func (*connSaslLogger) Level() kgo.LogLevel { return kgo.LogLevelDebug }
func (l *connSaslLogger) Log(_ kgo.LogLevel, msg string, kv ...any) {
	sc := l.sc
	val := func(k string) any {
		for i := 0; i+1 < len(kv); i += 2 {
			if kv[i] == k {
				return kv[i+1]
			}
		}
		return nil
	}
	switch {
	case strings.Contains(msg, "parking request"):
		// broker.handleReq calls req.SetVersion on the broker worker goroutine right before the expiry arm that parks
		// (and logs, on the same goroutine): the request that set its version last is the one being parked
		who := int(sc.current.Load())
		sc.rmu.Lock()
		if who >= 0 && who < len(sc.reqs) {
			sc.reqs[who].parked = true
		}
		sc.log.Add("P:%d:%v:%d", who, val("parked_reqs"), sc.now())
		sc.rmu.Unlock()
	case strings.Contains(msg, "sasl has a limited lifetime"):
		if d, ok := val("reauthenticate_in").(time.Duration); ok {
			sc.log.Add("E:%d:%d", d.Milliseconds(), sc.now())
		}
	case strings.Contains(msg, "sasl expiry limit reached, reauthenticating"):
		sc.log.Add("RA:inline:%d", sc.now())
	case strings.Contains(msg, "responses have drained, reauthenticating"):
		sc.log.Add("RA:drain:%d", sc.now())
	}
}

func (sc *connSaslScenario) dialSasl(ctx context.Context, network, addr string) (net.Conn, error) {
	base := sc.connScenario
	base.mu.Lock()
	c := base.nconn
	base.nconn++
	if c >= 8 {
		base.mu.Unlock()
		return nil, errors.New("peer refuses further connections")
	}
	a, b := net.Pipe()
	p := &connPeer{sc: base, c: c, conn: b, wake: make(chan struct{}, 1)}
	base.peers = append(base.peers, p)
	base.mu.Unlock()
	go sc.serveSasl(p)
	return a, nil
}

// serveSasl: the reader answers ApiVersions / SASLHandshake / SASLAuthenticate itself and queues everything else for the responder.
func (sc *connSaslScenario) serveSasl(p *connPeer) {
	var wmu sync.Mutex
	write := func(b []byte) bool {
		wmu.Lock()
		defer wmu.Unlock()
		_, err := p.conn.Write(b)
		return err == nil
	}
	go sc.respondSasl(p, &wmu)
	defer func() {
		p.mu.Lock()
		p.dead = true
		p.mu.Unlock()
		p.notify()
	}()
	defer p.conn.Close()
	nauth := 0
	for {
		var szb [4]byte
		if _, err := io.ReadFull(p.conn, szb[:]); err != nil {
			p.logDead()
			return
		}
		size := int(binary.BigEndian.Uint32(szb[:]))
		buf := make([]byte, size)
		if _, err := io.ReadFull(p.conn, buf); err != nil {
			p.logDead()
			return
		}
		if size < 8 {
			continue
		}
		rq := connReq{key: int16(binary.BigEndian.Uint16(buf)), version: int16(binary.BigEndian.Uint16(buf[2:])), corr: int32(binary.BigEndian.Uint32(buf[4:])), id: -1}
		req := kmsg.RequestForKey(rq.key)
		if req == nil {
			continue
		}
		req.SetVersion(rq.version)
		rq.flex = req.IsFlexible() && rq.key != 18
		b := kbin.Reader{Src: buf[8:]}
		b.NullableString()
		if req.IsFlexible() {
			kmsg.SkipTags(&b)
		}
		parsed := req.ReadFrom(b.Src) == nil
		switch rq.key {
		case 18:
			sc.log.Add("H:%d:%d", p.c, rq.corr)
			if p.c > 0 {
				time.Sleep(time.Millisecond) // a new connection costs virtual time: what it carries is strictly later than what killed the old one
			}
			ar := kmsg.NewPtrApiVersionsResponse()
			ar.Version = rq.version
			if ar.Version > 3 {
				ar.Version = 3
			}
			for _, k := range []int16{2, 3, 10, 17, 18, 36} {
				ak := kmsg.NewApiVersionsResponseApiKey()
				ak.ApiKey, ak.MinVersion, ak.MaxVersion = k, 0, sc.maxVersion(k)
				ar.ApiKeys = append(ar.ApiKeys, ak)
			}
			fr := connFrame(rq.corr, false, nil, ar.AppendTo(nil))
			wmu.Lock()
			ok := p.send("hs", fr, len(fr), 0, 0)
			wmu.Unlock()
			if !ok {
				return
			}
		case 17:
			nauth++
			sc.log.Add("AB:%d:%d:%d", p.c, nauth, sc.now())
			if sc.fault == "authcut" && p.c == 0 && nauth == 2 && sc.authMode == 0 {
				p.closeConn()
				return
			}
			r := kmsg.NewPtrSASLHandshakeResponse()
			r.Version = rq.version
			r.SupportedMechanisms = []string{"PLAIN"}
			if !write(connFrame(rq.corr, false, nil, r.AppendTo(nil))) {
				return
			}
		case 36:
			r := kmsg.NewPtrSASLAuthenticateResponse()
			r.Version = rq.version
			if sc.fault == "authcut" && p.c == 0 && nauth == 2 {
				if sc.authMode == 1 {
					p.closeConn()
					return
				}
				r.ErrorCode = 58 // SASL_AUTHENTICATION_FAILED
				r.ErrorMessage = kmsg.StringPtr("refused by the scripted peer")
				sc.log.Add("AF:%d:%d:%d", p.c, nauth, sc.now())
				if !write(connFrame(rq.corr, rq.flex, nil, r.AppendTo(nil))) {
					return
				}
				continue
			}
			ar, _ := req.(*kmsg.SASLAuthenticateRequest)
			if !parsed || ar == nil || string(ar.SASLAuthBytes) != "\x00user\x00pass" {
				r.ErrorCode = 58
				sc.log.Add("AF:%d:%d:%d", p.c, nauth, sc.now())
			} else {
				r.SessionLifetimeMillis = sc.lifetime
				// logged before the response is sent: AE precedes every request the client writes under this authentication
				sc.log.Add("AE:%d:%d:%d:%d", p.c, nauth, sc.lifetime, sc.now())
			}
			if !write(connFrame(rq.corr, rq.flex, nil, r.AppendTo(nil))) {
				return
			}
		default:
			if parsed {
				rq.id = connReqID(req)
			}
			p.mu.Lock()
			sc.rmu.Lock()
			if rq.id >= 0 && rq.id < len(sc.reqs) {
				sc.reqs[rq.id].written = true
			}
			sc.log.Add("W:%d:%d:%d:%s:%d", p.c, rq.corr, rq.id, hx.B(rq.flex), sc.now())
			sc.rmu.Unlock()
			p.reqs = append(p.reqs, rq)
			p.mu.Unlock()
			p.notify()
		}
	}
}

// respondSasl answers the data requests of one connection in order; on the first connection the held ones wait for the fault.
func (sc *connSaslScenario) respondSasl(p *connPeer, wmu *sync.Mutex) {
	sendValid := func(pos int, nsend int) bool {
		rq := p.req(pos)
		f := p.nextFrameID()
		fr := connFrame(rq.corr, rq.flex, nil, connRespBody(rq, f, 0))
		if nsend < 0 || nsend > len(fr) {
			nsend = len(fr)
		}
		wmu.Lock()
		defer wmu.Unlock()
		return p.sendAs(f, "valid", fr, nsend, 0, 0)
	}
	first := true
	for pos := 0; ; pos++ {
		if !p.waitReqs(pos+1, false) {
			return
		}
		rq := p.req(pos)
		if sc.fault == "short" {
			time.Sleep(30 * time.Millisecond) // every response is in flight for a moment: requests issued meanwhile park
		}
		if p.c == 0 && sc.held[rq.id] {
			switch sc.fault {
			case "cut":
				sc.sleepUntil(sc.tFault)
				switch {
				case sc.cutMode == 0 || !first:
					p.closeConn()
					return
				case sc.cutMode == 1: // inside the oldest held response
					sendValid(pos, 1+sc.param%11)
					p.closeConn()
					return
				}
				// cutMode 2: the oldest held request is answered, the connection is cut at the next held one, or
				// (if there is none) when the re-authentication begins -- see below
			case "timeout":
				p.waitReqs(1<<30, false)
				return
			default: // cancel, clean, authcut, short
				sc.sleepUntil(sc.tRel)
			}
			first = false
		}
		if !sendValid(pos, -1) {
			p.waitReqs(1<<30, false)
			return
		}
		if p.c == 0 && sc.fault == "cut" && sc.cutMode == 2 && sc.held[rq.id] {
			// the last held request was just answered? then the drain starts a re-authentication: cut it
			p.mu.Lock()
			more := false
			for _, q := range p.reqs[pos+1:] {
				more = more || sc.held[q.id]
			}
			p.mu.Unlock()
			if !more {
				time.Sleep(time.Millisecond)
				p.closeConn()
				return
			}
		}
	}
}

func connMakeReq(kind string, i int) kmsg.Request {
	name := fmt.Sprintf("r%d", i)
	switch kind {
	case "m":
		r := kmsg.NewPtrMetadataRequest()
		rt := kmsg.NewMetadataRequestTopic()
		rt.Topic = kmsg.StringPtr(name)
		r.Topics = append(r.Topics, rt)
		return r
	case "f":
		r := kmsg.NewPtrFindCoordinatorRequest()
		r.CoordinatorKey = name
		return r
	}
	r := kmsg.NewPtrListOffsetsRequest()
	rt := kmsg.NewListOffsetsRequestTopic()
	rt.Topic = name
	rp := kmsg.NewListOffsetsRequestTopicPartition()
	rp.Timestamp = -1
	rt.Partitions = append(rt.Partitions, rp)
	r.Topics = append(r.Topics, rt)
	return r
}

func runConnSaslChild(t *testing.T, tk []string) string {
	seed := uint64(hx.Atoi(tk[1]))
	k, reqkind, flex, stream, param, tmo := int(hx.Atoi(tk[2])), tk[3], tk[4] == "1", tk[5], int(hx.Atoi(tk[6])), int(hx.Atoi(tk[8]))
	if k < 3 || k > 16 || tmo < 1000 {
		return "bad-op"
	}
	log := &connLog{}
	partial := func() string { return log.String() }
	sim.Partial.Store(&partial)
	defer sim.Partial.Store(nil)
	rng := hx.NewRng(seed ^ 0x5A51)
	base := &connScenario{log: log, t0: time.Now(), rng: rng, k: k, flex: flex, stream: stream, param: param, tmo: time.Duration(tmo) * time.Millisecond}
	sc := &connSaslScenario{connScenario: base, fault: strings.TrimPrefix(stream, "sasl-"), held: map[int]bool{}, reqs: make([]saslReqState, k)}
	sc.current.Store(-1)
	sc.lifetime = []int64{1500, 2000, 3000}[param%3]
	if sc.fault == "short" {
		sc.lifetime = []int64{1, 500, 1000}[param%3]
	}
	sc.cutMode = rng.Intn(3)
	sc.authMode = rng.Intn(3)
	E := time.Duration(sc.lifetime-1000) * time.Millisecond
	sc.tFault = E + time.Duration(400+rng.Intn(200))*time.Millisecond
	sc.tRel = sc.tFault
	if sc.fault == "cancel" {
		sc.tRel = sc.tFault + 100*time.Millisecond
	}
	// the issue schedule
	type plan struct {
		at     time.Duration
		cancel bool
	}
	plans := make([]plan, k)
	if sc.fault == "short" {
		at := time.Duration(0)
		for i := range plans {
			if rng.Chance(40) {
				at += time.Duration(1+rng.Intn(400)) * time.Millisecond
			}
			plans[i].at = at
			at += time.Duration(rng.Intn(3)) * time.Millisecond // also several at the same instant
		}
	} else {
		npre := 1 + rng.Intn(2)
		na := 1 + rng.Intn(3)
		nb := 1 + rng.Intn(4)
		for npre+na+nb > k {
			switch {
			case nb > 1:
				nb--
			case na > 1:
				na--
			default:
				npre--
			}
		}
		i := 0
		for ; i < npre; i++ {
			plans[i].at = 0
		}
		pipelined := rng.Chance(60)
		at := E - time.Duration(20+rng.Intn(180))*time.Millisecond
		for j := 0; j < na; j++ {
			if !pipelined {
				at = E - time.Duration(20+rng.Intn(180))*time.Millisecond
			}
			plans[i].at = at
			sc.held[i] = true
			if sc.fault == "cancel" && (j == 0 && rng.Chance(70) || rng.Chance(30)) {
				plans[i].cancel = true
			}
			i++
		}
		at = E + time.Duration(20+rng.Intn(60))*time.Millisecond
		for j := 0; j < nb; j++ {
			plans[i].at = at
			at += time.Duration(1+rng.Intn(70)) * time.Millisecond
			i++
		}
		at = sc.tFault + time.Duration(50+rng.Intn(800))*time.Millisecond
		for ; i < k; i++ {
			plans[i].at = at
			at += time.Duration(1+rng.Intn(1700)) * time.Millisecond
		}
	}
	// strict: nothing is cancelled and no connection dies under a request: every request must succeed
	base.strict = sc.fault == "clean" || sc.fault == "authcut" || sc.fault == "short"
	racy := sc.fault == "cancel"
	log.Add("cfg:%d:%s:%s:%d:%d:%s:%s", k, hx.B(flex), stream, tmo, connMaxRead, hx.B(base.strict), hx.B(racy))
	cpu0 := cpuMillis()
	cl, err := kgo.NewClient(kgo.SeedBrokers("peer:9092"), kgo.Dialer(sc.dialSasl),
		kgo.SASL(plain.Auth{User: "user", Pass: "pass"}.AsMechanism()), kgo.WithLogger(&connSaslLogger{sc}),
		kgo.BrokerMaxReadBytes(connMaxRead), kgo.FetchMaxBytes(2048), kgo.FetchMaxPartitionBytes(1024),
		kgo.RequestTimeoutOverhead(sc.tmo), kgo.ConnIdleTimeout(20*sc.tmo), kgo.RequestRetries(0))
	if err != nil {
		return "ERR:client:" + strings.ReplaceAll(err.Error(), " ", "_")
	}
	seedBroker := cl.SeedBrokers()[0]
	var wg sync.WaitGroup
	var expired atomic.Bool
	for i := 0; i < k; i++ {
		kind := reqkind
		if kind == "x" {
			kind = hx.Pick(rng, []string{"m", "f", "l"})
		}
		wg.Add(1)
		go func(i int, kind string, pl plan) {
			defer wg.Done()
			time.Sleep(pl.at)
			req := connMakeReq(kind, i)
			ctx := context.Background()
			if pl.cancel {
				c2, cancelFn := context.WithCancel(ctx)
				ctx = c2
				tm := time.AfterFunc(sc.tFault-pl.at, func() {
					log.Add("C:%d:%d", i, sc.now())
					cancelFn()
				})
				defer tm.Stop()
				defer cancelFn()
			}
			sc.rmu.Lock()
			sc.reqs[i].issued = true
			log.Add("I:%d:%d:%d", i, req.Key(), sc.now())
			sc.rmu.Unlock()
			resp, err := seedBroker.Request(ctx, &connTracedReq{Request: req, id: i, sc: sc})
			if expired.Load() {
				log.Add("L:%d", i)
				return
			}
			sc.rmu.Lock()
			sc.reqs[i].done = true
			if err != nil {
				log.Add("R:%d:err:%s:%d", i, connErrClass(err), sc.now())
			} else {
				log.Add("R:%d:ok:%d:%d", i, connRespFrameID(resp), sc.now())
			}
			sc.rmu.Unlock()
		}(i, kind, plans[i])
	}
	allDone := make(chan struct{})
	go func() { wg.Wait(); close(allDone) }()
	limit := time.NewTimer(time.Duration(60*(k+4)) * sc.tmo)
	select {
	case <-allDone:
		limit.Stop()
	case <-limit.C:
		expired.Store(true)
		sc.rmu.Lock()
		for i := range sc.reqs {
			if !sc.reqs[i].done {
				log.Add("R:%d:none", i)
			}
		}
		sc.rmu.Unlock()
	}
	// a late second completion of a request (a replay of a request that was already failed) needs a moment to show
	time.Sleep(2 * sc.tmo)
	cl.Close()
	<-allDone
	time.Sleep(10 * sc.tmo)
	log.Add("CPU:%d", cpuMillis()-cpu0)
	log.Add("Q")
	return log.String()
}
