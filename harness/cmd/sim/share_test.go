// share: share-group consumers (C12 protocol half). Real share-group members of this tree x real kfake of this
// tree inside a synctest bubble, with a plain producer and transactional producers (commit/abort markers between
// the records), per-record Ack with a mix of accept/release/reject/renew/none, slow processing beyond the
// acquisition lock, FlushAcks, member churn, leader moves, Close.
//
// op:   share <seed> <parts> <brokers> <members> <plainN> <txnProd> <txnsEach> <pollmax> <slowpct> <flushpct> <lockms> <churn 0|1> <moves 0|1> [<faultpct>]
//
//	faultpct > 0: that share of the ShareFetch requests carrying piggybacked acks (nothing but acks) and of the ShareAcknowledge requests is
//	answered, instead of being handled, with a retriable acknowledge error (REQUEST_TIMED_OUT / KAFKA_STORAGE_ERROR) for every acked partition
//	(one broker only: the session epoch the broker then lags by is compensated per member); a tenth of that share of all ShareFetch /
//	ShareAcknowledge requests loses its connection before or after the broker handled it
//
// impl: cfg:<members>:<lockms> then events (m = member index, t = virtual ms since start)
//
//	V:m:part:off:dc          a poll of member m returned the record (dc = Record.DeliveryCount)
//	K:m:part:off:st          the application is about to call Record.Ack(st) (1 accept 2 release 3 reject 4 renew)
//	Ka:m:part:off            member m polls again while the record of its previous poll has no final ack: auto-accept
//	Cb:m:part:err:t          ShareAckCallback result for the partition (0 = nil, Kafka error code, 999 = other error)
//	Fs:m / Fe:m:ok|err       FlushAcks called / returned
//	Wa:m:rid:part:first:last:type:t an AcknowledgementBatch of request rid (ShareFetch or ShareAcknowledge), in wire order
//	Wr:m:rid:part:code       the acknowledge result for the partition in the response delivered for request rid
//	Wx:m:rid                 the response of request rid was not delivered (connection cut after the broker handled the request)
//	Wq:m:part:first:last:dc:t      AcquiredRecords range of a delivered ShareFetch response
//	Cs:m / Cl:m              Close called / returned
//	Mv:part:node             leader moved
//	Xf:m:key:code            request of member m (API key) answered by the harness with the retriable acknowledge error code
//	Xc:m:key:b|a             connection of a ShareFetch/ShareAcknowledge request of member m cut before / after the broker handled it
//	                         (the broker drops the member's share session on that connection and releases what it had acquired there)
//	Q
package main

import (
	"context"
	"errors"
	"fmt"
	"os"
	"regexp"
	"runtime"
	"strconv"
	"strings"
	"sync"
	"sync/atomic"
	"testing"
	"testing/synctest"
	"time"

	"github.com/twmb/franz-go/pkg/kbin"
	"github.com/twmb/franz-go/pkg/kerr"
	"github.com/twmb/franz-go/pkg/kfake"
	"github.com/twmb/franz-go/pkg/kgo"
	"github.com/twmb/franz-go/pkg/kmsg"
	"verifharness/hx"
	"verifharness/sim"
)

func genShare(a hx.Args) {
	r := hx.NewRng(a.Seed ^ 0xc12)
	n := a.N(40, 500)
	for i := 0; i < n; i++ {
		parts := 1 + r.Intn(2)
		brokers := 1 + r.Intn(2)
		members := 1 + r.Intn(3)
		plainN := 5 + r.Intn(40)
		txnProd := r.Intn(3)
		txnsEach := 1 + r.Intn(4)
		pollmax := hx.Pick(r, []int{0, 0, 2, 5})
		slowpct := hx.Pick(r, []int{0, 0, 15, 40})
		flushpct := hx.Pick(r, []int{0, 30, 100})
		lockms := hx.Pick(r, []int{1000, 2000})
		churn, moves := 0, 0
		if r.Chance(30) {
			churn = 1
		}
		if brokers > 1 && r.Chance(40) {
			moves = 1
		}
		faultpct := 0
		if r.Chance(50) {
			faultpct = hx.Pick(r, []int{20, 40})
			if r.Chance(70) {
				brokers, moves = 1, 0 // acknowledge errors are only injected with one broker
			}
			if flushpct == 0 {
				flushpct = hx.Pick(r, []int{30, 100})
			}
		}
		hx.Emit("share %d %d %d %d %d %d %d %d %d %d %d %d %d %d", r.U64()%1000000, parts, brokers, members, plainN, txnProd, txnsEach,
			pollmax, slowpct, flushpct, lockms, churn, moves, faultpct)
	}
}

var goroutineHdr = regexp.MustCompile(`(?m)^goroutine (\d+) `)

func maxGoroutineID(stacks string) int {
	mx := 0
	for _, m := range goroutineHdr.FindAllStringSubmatch(stacks, -1) {
		if n, _ := strconv.Atoi(m[1]); n > mx {
			mx = n
		}
	}
	return mx
}

// shareSpinSignature runs outside the bubble (real time). A share source whose ack timer is armed while it has
// nothing to fetch or forget loops through shareFetch -> shareAck(nil) without blocking and starts a callback
// goroutine per turn: goroutine ids grow by hundreds per 100 ms while virtual time stands still and nothing is logged.
// Such a scenario is inconclusive (the spin ends with the 1 s ack timer in real time; it is outside C12's text).
func shareSpinSignature(log *sim.Log) string {
	grab := func() string {
		buf := make([]byte, 8<<20)
		return string(buf[:runtime.Stack(buf, true)])
	}
	n0 := log.Len()
	a := grab()
	time.Sleep(100 * time.Millisecond)
	b := grab()
	growth := maxGoroutineID(b) - maxGoroutineID(a)
	// the scenario stands still (no event logged meanwhile) while goroutines are created at a high rate
	if growth > 200 && log.Len() == n0 && strings.Contains(b, "kgo.(*source).loopShareFetch") {
		return fmt.Sprintf("SPIN:acktimer:%d", growth)
	}
	return fmt.Sprintf("NOSPIN:%d", growth)
}

type shareReqInfo struct {
	key, ver int16
	rid, m   int
	ackParts []int32
}

type shareRec struct {
	part  int32
	off   int64
	final bool
}

func runShare(t *testing.T, tk []string) string {
	if tk[0] != "share" || (len(tk) != 14 && len(tk) != 15) {
		return "bad-op"
	}
	seed := uint64(hx.Atoi(tk[1]))
	parts, brokers, members := int(hx.Atoi(tk[2])), int(hx.Atoi(tk[3])), int(hx.Atoi(tk[4]))
	plainN, txnProd, txnsEach := int(hx.Atoi(tk[5])), int(hx.Atoi(tk[6])), int(hx.Atoi(tk[7]))
	pollmax, slowpct, flushpct, lockms := int(hx.Atoi(tk[8])), int(hx.Atoi(tk[9])), int(hx.Atoi(tk[10])), int(hx.Atoi(tk[11]))
	churn, moves := tk[12] == "1", tk[13] == "1"
	faultpct := 0
	if len(tk) == 15 {
		faultpct = int(hx.Atoi(tk[14]))
	}
	var faultsOn atomic.Bool
	faultsOn.Store(true)
	rng := hx.NewRng(seed)
	log := &sim.Log{}
	net := &sim.Net{}
	start := time.Now()
	now := func() int64 { return time.Since(start).Milliseconds() }
	// what a HANG outcome shows: the log so far and, measured from outside the bubble, whether goroutines are being
	// created at a high rate under a loopShareFetch frame while the scenario stands still (the ack-timer spin)
	var spinSeen atomic.Value // the signature that made the harness give up
	partial := func() string {
		sig, _ := spinSeen.Load().(string)
		if sig == "" {
			sig = shareSpinSignature(log)
		}
		if strings.HasPrefix(sig, "SPIN") {
			hx.St.Inc("scen.share.inconclusive-ack-timer-spin")
		}
		return log.String() + " " + sig
	}
	sim.Partial.Store(&partial)
	defer sim.Partial.Store(nil)
	giveUp := func() bool {
		sig := shareSpinSignature(log)
		if strings.HasPrefix(sig, "SPIN") {
			spinSeen.Store(sig)
			return true
		}
		return false
	}
	sim.GiveUp.Store(&giveUp)
	defer sim.GiveUp.Store(nil)

	// ---- wire view: acknowledgement batches in requests, acknowledge results and acquired ranges in responses
	var wmu sync.Mutex
	pendingReqs := map[int][]shareReqInfo{}
	memberIdx := map[string]int{} // share-group member id -> member index (client id), learnt from the requests
	nextRid := 0
	memberOf := func(clientID *string) int {
		if clientID == nil || !strings.HasPrefix(*clientID, "m") {
			return -1
		}
		n, err := strconv.Atoi((*clientID)[1:])
		if err != nil {
			return -1
		}
		return n
	}
	net.OnRequest = func(conn int, key int16, frame []byte, act sim.Action) {
		if (key != 78 && key != 79) || act == sim.KillBefore || len(frame) < 8 {
			return
		}
		v := int16(uint16(frame[2])<<8 | uint16(frame[3]))
		b := kbin.Reader{Src: frame[8:]}
		m := memberOf(b.NullableString())
		wmu.Lock()
		defer wmu.Unlock()
		nextRid++
		info := shareReqInfo{key: key, ver: v, rid: nextRid, m: m}
		learn := func(mid *string) {
			if mid != nil {
				memberIdx[*mid] = m
			}
		}
		emit := func(part int32, first, last int64, types []int8) {
			ty := int8(9)
			if len(types) == 1 {
				ty = types[0]
			}
			log.Add("Wa:%d:%d:%d:%d:%d:%d:%d", m, info.rid, part, first, last, ty, now())
		}
		if key == 78 {
			req := kmsg.NewPtrShareFetchRequest()
			req.SetVersion(v)
			if req.IsFlexible() {
				kmsg.SkipTags(&b)
			}
			if req.ReadFrom(b.Src) == nil {
				learn(req.MemberID)
				for _, rt := range req.Topics {
					for _, rp := range rt.Partitions {
						if len(rp.AcknowledgementBatches) > 0 {
							info.ackParts = append(info.ackParts, rp.Partition)
						}
						for _, ab := range rp.AcknowledgementBatches {
							emit(rp.Partition, ab.FirstOffset, ab.LastOffset, ab.AcknowledgeTypes)
						}
					}
				}
			} else {
				log.Add("Wbad")
			}
		} else {
			req := kmsg.NewPtrShareAcknowledgeRequest()
			req.SetVersion(v)
			if req.IsFlexible() {
				kmsg.SkipTags(&b)
			}
			if req.ReadFrom(b.Src) == nil {
				learn(req.MemberID)
				for _, rt := range req.Topics {
					for _, rp := range rt.Partitions {
						if len(rp.AcknowledgementBatches) > 0 {
							info.ackParts = append(info.ackParts, rp.Partition)
						}
						for _, ab := range rp.AcknowledgementBatches {
							emit(rp.Partition, ab.FirstOffset, ab.LastOffset, ab.AcknowledgeTypes)
						}
					}
				}
			} else {
				log.Add("Wbad")
			}
		}
		pendingReqs[conn] = append(pendingReqs[conn], info)
	}
	net.OnResponse = func(conn int, key int16, frame []byte, delivered bool) {
		if key != 78 && key != 79 {
			return
		}
		wmu.Lock()
		q := pendingReqs[conn]
		if len(q) == 0 {
			wmu.Unlock()
			return
		}
		info := q[0]
		pendingReqs[conn] = q[1:]
		wmu.Unlock()
		if info.key != key {
			return
		}
		if !delivered { // the broker handled the request, the client never gets the answer (connection cut)
			log.Add("Wx:%d:%d", info.m, info.rid)
			return
		}
		hasAck := func(p int32) bool {
			for _, x := range info.ackParts {
				if x == p {
					return true
				}
			}
			return false
		}
		b := kbin.Reader{Src: frame[4:]}
		if key == 78 {
			resp := kmsg.NewPtrShareFetchResponse()
			resp.SetVersion(info.ver)
			if resp.IsFlexible() {
				kmsg.SkipTags(&b)
			}
			if err := resp.ReadFrom(b.Src); err != nil {
				log.Add("Wbad")
				return
			}
			if resp.ErrorCode != 0 {
				for _, p := range info.ackParts {
					log.Add("Wr:%d:%d:%d:%d", info.m, info.rid, p, resp.ErrorCode)
				}
				return
			}
			seen := map[int32]bool{}
			for _, rt := range resp.Topics {
				for _, rp := range rt.Partitions {
					if seen[rp.Partition] {
						continue // the client ignores a duplicate partition entry
					}
					seen[rp.Partition] = true
					if hasAck(rp.Partition) {
						log.Add("Wr:%d:%d:%d:%d", info.m, info.rid, rp.Partition, rp.AcknowledgeErrorCode)
					}
					if rp.ErrorCode == 0 {
						for _, ar := range rp.AcquiredRecords {
							log.Add("Wq:%d:%d:%d:%d:%d:%d", info.m, rp.Partition, ar.FirstOffset, ar.LastOffset, ar.DeliveryCount, now())
						}
					}
				}
			}
		} else {
			resp := kmsg.NewPtrShareAcknowledgeResponse()
			resp.SetVersion(info.ver)
			if resp.IsFlexible() {
				kmsg.SkipTags(&b)
			}
			if err := resp.ReadFrom(b.Src); err != nil {
				log.Add("Wbad")
				return
			}
			if resp.ErrorCode != 0 {
				for _, p := range info.ackParts {
					log.Add("Wr:%d:%d:%d:%d", info.m, info.rid, p, resp.ErrorCode)
				}
				return
			}
			for _, rt := range resp.Topics {
				for _, rp := range rt.Partitions {
					if hasAck(rp.Partition) {
						log.Add("Wr:%d:%d:%d:%d", info.m, info.rid, rp.Partition, rp.ErrorCode)
					}
				}
			}
		}
	}

	ports := make([]int, brokers)
	base := int(9000 + (portBase.Add(1)%500)*10)
	for i := range ports {
		ports[i] = base + i
	}
	cluster, err := kfake.NewCluster(kfake.NumBrokers(brokers), kfake.Ports(ports...), kfake.SeedTopics(int32(parts), "t"),
		kfake.ListenFn(net.ListenFn), kfake.BrokerConfigs(map[string]string{
			"group.share.record.lock.duration.ms": strconv.Itoa(lockms),
			"share.record.lock.sweep.interval.ms": "100",
		}))
	if err != nil {
		return "ERR:cluster:" + err.Error()
	}
	defer cluster.Close()

	// ---- injected faults
	if faultpct > 0 {
		var fmu sync.Mutex
		frng := hx.NewRng(seed ^ 0xfa17)
		// connection cuts
		net.Fault = func(key int16, nth int, frame []byte) sim.Action {
			if (key != 78 && key != 79) || !faultsOn.Load() {
				return sim.Pass
			}
			fmu.Lock()
			defer fmu.Unlock()
			if frng.Intn(1000) >= faultpct {
				return sim.Pass
			}
			cm := -1
			if len(frame) >= 8 {
				cb := kbin.Reader{Src: frame[8:]}
				cm = memberOf(cb.NullableString())
			}
			if frng.Bool() {
				log.Add("Xc:%d:%d:b", cm, key)
				hx.St.Inc("share.fault.cut-before")
				return sim.KillBefore
			}
			log.Add("Xc:%d:%d:a", cm, key)
			hx.St.Inc("share.fault.cut-after")
			return sim.DropAfter
		}
		// retriable acknowledge errors, answered instead of the broker. The broker never sees such a request, so its
		// share-session epoch lags the client's by one per injection: later requests of the member are adjusted.
		if brokers == 1 {
			skew := map[string]int32{}
			seenReq := map[kmsg.Request]bool{} // a parked ShareFetch passes the hook again when it is re-run
			codes := []int16{kerr.RequestTimedOut.Code, kerr.KafkaStorageError.Code}
			memberOfID := func(mid string) int {
				wmu.Lock()
				defer wmu.Unlock()
				if m, ok := memberIdx[mid]; ok {
					return m
				}
				return -1
			}
			cluster.Control(func(kreq kmsg.Request) (kmsg.Response, error, bool) {
				cluster.KeepControl()
				fmu.Lock()
				defer fmu.Unlock()
				switch req := kreq.(type) {
				case *kmsg.ShareFetchRequest:
					if seenReq[kreq] || req.MemberID == nil {
						return nil, nil, false
					}
					seenReq[kreq] = true
					mid := *req.MemberID
					if req.ShareSessionEpoch == 0 {
						skew[mid] = 0
					}
					if req.ShareSessionEpoch <= 0 {
						return nil, nil, false
					}
					req.ShareSessionEpoch -= skew[mid]
					// only requests that carry nothing but acknowledgements: a partition added to or forgotten from the
					// session in an intercepted request would be lost for the broker
					onlyAcks := len(req.ForgottenTopicsData) == 0 && len(req.Topics) > 0
					for i := range req.Topics {
						for j := range req.Topics[i].Partitions {
							if len(req.Topics[i].Partitions[j].AcknowledgementBatches) == 0 {
								onlyAcks = false
							}
						}
					}
					if !onlyAcks || !faultsOn.Load() || frng.Intn(100) >= faultpct {
						return nil, nil, false
					}
					code := hx.Pick(frng, codes)
					resp := req.ResponseKind().(*kmsg.ShareFetchResponse)
					resp.AcquisitionLockTimeoutMillis = int32(lockms)
					for i := range req.Topics {
						rt := kmsg.NewShareFetchResponseTopic()
						rt.TopicID = req.Topics[i].TopicID
						for j := range req.Topics[i].Partitions {
							rp := kmsg.NewShareFetchResponseTopicPartition()
							rp.Partition = req.Topics[i].Partitions[j].Partition
							rp.AcknowledgeErrorCode = code
							rp.CurrentLeader.LeaderID = -1
							rp.CurrentLeader.LeaderEpoch = -1
							rt.Partitions = append(rt.Partitions, rp)
						}
						resp.Topics = append(resp.Topics, rt)
					}
					skew[mid]++
					log.Add("Xf:%d:78:%d", memberOfID(mid), code)
					hx.St.Inc("share.fault.retriable-ack-error.sharefetch")
					return resp, nil, true
				case *kmsg.ShareAcknowledgeRequest:
					if seenReq[kreq] || req.MemberID == nil {
						return nil, nil, false
					}
					seenReq[kreq] = true
					mid := *req.MemberID
					if req.ShareSessionEpoch <= 0 {
						return nil, nil, false
					}
					req.ShareSessionEpoch -= skew[mid]
					if len(req.Topics) == 0 || !faultsOn.Load() || frng.Intn(100) >= faultpct {
						return nil, nil, false
					}
					code := hx.Pick(frng, codes)
					resp := req.ResponseKind().(*kmsg.ShareAcknowledgeResponse)
					resp.AcquisitionLockTimeoutMillis = int32(lockms)
					for i := range req.Topics {
						rt := kmsg.NewShareAcknowledgeResponseTopic()
						rt.TopicID = req.Topics[i].TopicID
						for j := range req.Topics[i].Partitions {
							rp := kmsg.NewShareAcknowledgeResponseTopicPartition()
							rp.Partition = req.Topics[i].Partitions[j].Partition
							rp.ErrorCode = code
							rp.CurrentLeader.LeaderID = -1
							rp.CurrentLeader.LeaderEpoch = -1
							rt.Partitions = append(rt.Partitions, rp)
						}
						resp.Topics = append(resp.Topics, rt)
					}
					skew[mid]++
					log.Add("Xf:%d:79:%d", memberOfID(mid), code)
					hx.St.Inc("share.fault.retriable-ack-error.shareacknowledge")
					return resp, nil, true
				}
				return nil, nil, false
			})
		}
	}
	ctx, cancel := context.WithCancel(context.Background())
	defer cancel()
	common := []kgo.Opt{kgo.SeedBrokers(cluster.ListenAddrs()...), kgo.Dialer(net.Stack.DialContext),
		kgo.RetryBackoffFn(func(int) time.Duration { return 10 * time.Millisecond })}

	// the group reads from the earliest offset
	{
		adm, err := kgo.NewClient(common...)
		if err != nil {
			return "ERR:client:" + err.Error()
		}
		req := kmsg.NewPtrIncrementalAlterConfigsRequest()
		res := kmsg.NewIncrementalAlterConfigsRequestResource()
		res.ResourceType = kmsg.ConfigResourceTypeGroupConfig
		res.ResourceName = "g"
		cfg := kmsg.NewIncrementalAlterConfigsRequestResourceConfig()
		cfg.Name = "share.auto.offset.reset"
		cfg.Value = kmsg.StringPtr("earliest")
		res.Configs = append(res.Configs, cfg)
		req.Resources = append(req.Resources, res)
		if _, err := req.RequestWith(ctx, adm); err != nil {
			adm.Close()
			return "ERR:alterconfigs:" + err.Error()
		}
		adm.Close()
	}

	// ---- producers
	var pwg sync.WaitGroup
	var nextID atomic.Int64
	produce := func(cl *kgo.Client, wr *hx.Rng, done *sync.WaitGroup) {
		id := nextID.Add(1)
		done.Add(1)
		rec := &kgo.Record{Topic: "t", Partition: int32(wr.Intn(parts)), Key: []byte(strconv.FormatInt(id, 10)), Value: make([]byte, wr.Intn(30))}
		cl.Produce(ctx, rec, func(_ *kgo.Record, err error) {
			if err != nil {
				hx.St.Inc("share.produce-error")
			}
			done.Done()
		})
	}
	if plainN > 0 {
		pwg.Add(1)
		go func() {
			defer pwg.Done()
			wr := hx.NewRng(seed*7 + 1)
			cl, err := kgo.NewClient(append([]kgo.Opt{kgo.RecordPartitioner(kgo.ManualPartitioner()), kgo.ProducerLinger(0)}, common...)...)
			if err != nil {
				return
			}
			defer cl.Close()
			var done sync.WaitGroup
			for i := 0; i < plainN; i++ {
				produce(cl, wr, &done)
				if wr.Chance(50) {
					time.Sleep(time.Duration(wr.Intn(120)) * time.Millisecond)
				}
			}
			done.Wait()
		}()
	}
	for tp := 0; tp < txnProd; tp++ {
		pwg.Add(1)
		go func(tp int) {
			defer pwg.Done()
			wr := hx.NewRng(seed*13 + uint64(tp))
			cl, err := kgo.NewClient(append([]kgo.Opt{kgo.RecordPartitioner(kgo.ManualPartitioner()), kgo.ProducerLinger(0),
				kgo.TransactionalID(fmt.Sprintf("stx-%d-%d", seed, tp)), kgo.TransactionTimeout(30 * time.Second)}, common...)...)
			if err != nil {
				return
			}
			defer cl.Close()
			for k := 0; k < txnsEach; k++ {
				if cl.BeginTransaction() != nil {
					return
				}
				var done sync.WaitGroup
				for i, n := 0, 1+wr.Intn(5); i < n; i++ {
					produce(cl, wr, &done)
				}
				cl.Flush(ctx)
				done.Wait()
				time.Sleep(time.Duration(wr.Intn(150)) * time.Millisecond)
				if cl.EndTransaction(ctx, kgo.TransactionEndTry(wr.Chance(70))) != nil {
					return
				}
				hx.St.Inc("share.txn")
			}
		}(tp)
	}
	producersDone := make(chan struct{})
	go func() { pwg.Wait(); close(producersDone) }()

	// ---- leader moves
	stop := make(chan struct{})
	var mwg sync.WaitGroup
	if moves && brokers > 1 {
		mwg.Add(1)
		go func() {
			defer mwg.Done()
			mr := hx.NewRng(seed ^ 0x3131)
			for i := 0; i < 4; i++ {
				select {
				case <-stop:
					return
				case <-time.After(time.Duration(300+mr.Intn(900)) * time.Millisecond):
				}
				p, n := int32(mr.Intn(parts)), int32(mr.Intn(brokers))
				if cluster.MoveTopicPartition("t", p, n) == nil {
					log.Add("Mv:%d:%d", p, n)
					hx.St.Inc("share.leader-move")
				}
			}
		}()
	}

	// ---- members
	var delivered atomic.Int64
	quiet := make(chan struct{}) // closed when the members should wind down
	member := func(m int, maxPolls int, wg *sync.WaitGroup) {
		defer wg.Done()
		mr := hx.NewRng(seed*31 + uint64(m))
		dbg := []kgo.Opt{}
		if os.Getenv("SHARE_DEBUG") != "" {
			dbg = append(dbg, kgo.WithLogger(kgo.BasicLogger(os.Stderr, kgo.LogLevelDebug, func() string { return fmt.Sprintf("[m%d %d] ", m, now()) })))
		}
		cl, err := kgo.NewClient(append(append([]kgo.Opt{kgo.ClientID(fmt.Sprintf("m%d", m)), kgo.ConsumeTopics("t"), kgo.ShareGroup("g"),
			kgo.FetchMaxWait(300 * time.Millisecond),
			kgo.ShareAckCallback(func(_ *kgo.Client, rs kgo.ShareAckResults) {
				for _, r := range rs {
					code := 0
					if r.Err != nil {
						code = 999
						var ke *kerr.Error
						if errors.As(r.Err, &ke) {
							code = int(ke.Code)
						}
					}
					log.Add("Cb:%d:%d:%d:%d", m, r.Partition, code, now())
				}
			})}, common...), dbg...)...)
		if err != nil {
			log.Add("ERRclient")
			return
		}
		var prev []*shareRec
		_ = os.Stderr
		emptyPolls := 0
		for polls := 0; maxPolls == 0 || polls < maxPolls; polls++ {
			winding := false
			select {
			case <-quiet:
				winding = true
			default:
			}
			// what the next poll does to the previous poll's records
			for _, r := range prev {
				if !r.final {
					log.Add("Ka:%d:%d:%d", m, r.part, r.off)
				}
			}
			prev = nil
			pctx, pc := context.WithTimeout(ctx, time.Duration(200+mr.Intn(300))*time.Millisecond)
			var fs kgo.Fetches
			if pollmax > 0 {
				fs = cl.PollRecords(pctx, pollmax)
			} else {
				fs = cl.PollFetches(pctx)
			}
			pc()
			var recs []*kgo.Record
			fs.EachRecord(func(r *kgo.Record) {
				recs = append(recs, r)
				prev = append(prev, &shareRec{part: r.Partition, off: r.Offset})
				log.Add("V:%d:%d:%d:%d", m, r.Partition, r.Offset, r.DeliveryCount())
				delivered.Add(1)
			})
			if len(recs) == 0 {
				emptyPolls++
				if winding && emptyPolls >= 3 {
					break
				}
				continue
			}
			emptyPolls = 0
			// leave with the records of the last poll undecided: Close has to release them
			if (winding && mr.Chance(30)) || (maxPolls > 0 && polls == maxPolls-1 && mr.Bool()) {
				hx.St.Inc("share.close-with-undecided-records")
				break
			}
			if !winding && mr.Intn(100) < slowpct { // processing longer than the acquisition lock
				hx.St.Inc("share.slow-processing")
				time.Sleep(time.Duration(lockms+lockms/2) * time.Millisecond)
			}
			for i, r := range recs {
				k := mr.Intn(100)
				ack := func(st kgo.AckStatus) {
					log.Add("K:%d:%d:%d:%d", m, r.Partition, r.Offset, st)
					r.Ack(st)
					if st != kgo.AckRenew {
						prev[i].final = true
					}
					hx.St.Inc("share.ack." + st.String())
				}
				switch {
				case k < 55:
					ack(kgo.AckAccept)
				case k < 65:
					ack(kgo.AckRelease)
				case k < 72:
					ack(kgo.AckReject)
				case k < 82:
					ack(kgo.AckRenew)
					if mr.Bool() {
						time.Sleep(time.Duration(mr.Intn(200)) * time.Millisecond)
						ack(kgo.AckAccept)
					}
				default: // left for the next poll
					hx.St.Inc("share.ack.none")
				}
			}
			if mr.Intn(100) < flushpct {
				log.Add("Fs:%d", m)
				fctx, fc := context.WithTimeout(ctx, 10*time.Second)
				ferr := cl.FlushAcks(fctx)
				fc()
				if ferr == nil {
					log.Add("Fe:%d:ok", m)
				} else {
					log.Add("Fe:%d:err", m)
				}
				hx.St.Inc("share.flush")
			}
		}
		log.Add("Cs:%d", m)
		cl.Close()
		log.Add("Cl:%d", m)
	}
	var cwg sync.WaitGroup
	for m := 0; m < members; m++ {
		maxPolls := 0
		if churn && m > 0 && rng.Bool() {
			maxPolls = 2 + rng.Intn(6) // leaves early
			hx.St.Inc("share.member-leaves-early")
		}
		cwg.Add(1)
		go member(m, maxPolls, &cwg)
		if churn && rng.Bool() {
			time.Sleep(time.Duration(rng.Intn(500)) * time.Millisecond) // joins later
		}
	}
	<-producersDone
	// let redeliveries (lock expiry, releases) settle, then wind down
	time.Sleep(time.Duration(3*lockms) * time.Millisecond)
	close(stop)
	mwg.Wait()
	faultsOn.Store(false)
	close(quiet)
	cwg.Wait()
	cancel()
	synctest.Wait()
	log.Add("Q")
	hx.St.Inc("scen.share")
	hx.St.Add("share.delivered", int(delivered.Load()))
	return fmt.Sprintf("cfg:%d:%d ", members, lockms) + log.String()
}
