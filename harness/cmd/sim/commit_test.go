// cmt: offset-commit ordering scenarios (C09). One group member issues a sequence of commits through the
// four commit APIs (async and sync mixed) while the coordinator is slow or answers with retriable /
// per-partition errors and a second member makes the group rebalance.
//
// op:   cmt <seed> <parts> <brokers> <ncommits> <faultpct> <rebalance 0|1>
// impl: cfg:<parts> then events
//
//	Cs:k:api:p=off,p=off      commit number k issued (api a=CommitOffsets s=CommitOffsetsSync r=CommitRecords); every offset is 1000+k
//	Ce:k:res                  commit k finished as the client sees it (ok / err)
//	Wc:n:part:off             an OffsetCommit request as it reached the coordinator (request number n), one event per partition
//	Wr:n:part:err             the coordinator's (or the injected) answer for that partition
//	CO:part:off               Client.CommittedOffsets at the end        GC:part:off  the group's committed offset (OffsetFetch), -1 none
//	Q
package main

import (
	"context"
	"fmt"
	"sort"
	"strings"
	"sync"
	"testing"
	"testing/synctest"
	"time"

	"github.com/twmb/franz-go/pkg/kbin"
	"github.com/twmb/franz-go/pkg/kerr"
	"github.com/twmb/franz-go/pkg/kfake"
	"github.com/twmb/franz-go/pkg/kgo"
	"github.com/twmb/franz-go/pkg/kmsg"
	"verifharness/hx"
	"verifharness/sim"
)

func genCmt(a hx.Args) {
	r := hx.NewRng(a.Seed)
	n := a.N(300, 3000)
	for i := 0; i < n; i++ {
		hx.Emit("cmt %d %d %d %d %d %d", r.U64()%1000000, 1+r.Intn(4), 1+r.Intn(2), 4+r.Intn(16), hx.Pick(r, []int{0, 10, 25, 40}), r.Intn(2))
	}
}

func runCmt(t *testing.T, tk []string) string {
	if tk[0] != "cmt" || len(tk) != 7 {
		return "bad-op"
	}
	seed := uint64(hx.Atoi(tk[1]))
	parts, brokers, ncommits, faultpct, rebalance := int(hx.Atoi(tk[2])), int(hx.Atoi(tk[3])), int(hx.Atoi(tk[4])), int(hx.Atoi(tk[5])), tk[6] == "1"
	log := &sim.Log{}
	partial := func() string { return log.String() }
	sim.Partial.Store(&partial)
	defer sim.Partial.Store(nil)
	net := &sim.Net{}
	// wire view of OffsetCommit
	var wmu sync.Mutex
	reqN := 0
	type pend struct {
		n int
		v int16
	}
	pending := map[int][]pend{}
	net.OnRequest = func(conn int, key int16, frame []byte, act sim.Action) {
		if key != 8 || len(frame) < 8 {
			return
		}
		v := int16(uint16(frame[2])<<8 | uint16(frame[3]))
		req := kmsg.NewPtrOffsetCommitRequest()
		req.SetVersion(v)
		b := kbin.Reader{Src: frame[8:]}
		b.NullableString()
		if req.IsFlexible() {
			kmsg.SkipTags(&b)
		}
		if req.ReadFrom(b.Src) != nil {
			log.Add("Wbad")
			return
		}
		wmu.Lock()
		reqN++
		n := reqN
		pending[conn] = append(pending[conn], pend{n, v})
		wmu.Unlock()
		for _, rt := range req.Topics {
			for _, rp := range rt.Partitions {
				log.Add("Wc:%d:%d:%d", n, rp.Partition, rp.Offset)
			}
		}
	}
	net.OnResponse = func(conn int, key int16, frame []byte, delivered bool) {
		if key != 8 {
			return
		}
		wmu.Lock()
		q := pending[conn]
		if len(q) == 0 {
			wmu.Unlock()
			return
		}
		p := q[0]
		pending[conn] = q[1:]
		wmu.Unlock()
		resp := kmsg.NewPtrOffsetCommitResponse()
		resp.SetVersion(p.v)
		b := kbin.Reader{Src: frame[4:]}
		if resp.IsFlexible() {
			kmsg.SkipTags(&b)
		}
		if resp.ReadFrom(b.Src) != nil {
			log.Add("Wbad")
			return
		}
		for _, rt := range resp.Topics {
			for _, rp := range rt.Partitions {
				log.Add("Wr:%d:%d:%d", p.n, rp.Partition, rp.ErrorCode)
			}
		}
	}
	ports := make([]int, brokers)
	base := int(9000 + (portBase.Add(1)%500)*10)
	for i := range ports {
		ports[i] = base + i
	}
	cluster, err := kfake.NewCluster(kfake.NumBrokers(brokers), kfake.Ports(ports...), kfake.SeedTopics(int32(parts), "t"),
		kfake.ListenFn(net.ListenFn))
	if err != nil {
		return "ERR:cluster:" + err.Error()
	}
	defer cluster.Close()
	var emu sync.Mutex
	erng := hx.NewRng(seed ^ 0x5151)
	faultsOn := true
	cluster.ControlKey(8, func(kreq kmsg.Request) (kmsg.Response, error, bool) {
		cluster.KeepControl()
		emu.Lock()
		on := faultsOn && faultpct > 0
		roll := erng.Intn(100)
		kind := erng.Intn(5)
		slow := erng.Intn(60)
		emu.Unlock()
		if !on || roll >= faultpct {
			return nil, nil, false
		}
		if kind == 0 {
			hx.St.Inc("fault.commit-slow")
			time.Sleep(time.Duration(slow) * time.Millisecond) // the coordinator is slow for everyone
			return nil, nil, false
		}
		req := kreq.(*kmsg.OffsetCommitRequest)
		resp := req.ResponseKind().(*kmsg.OffsetCommitResponse)
		code := []int16{0, kerr.CoordinatorLoadInProgress.Code, kerr.NotCoordinator.Code, kerr.RequestTimedOut.Code, kerr.UnknownTopicOrPartition.Code}[kind]
		hx.St.Inc(fmt.Sprintf("fault.commit-code-%d", code))
		for _, rt := range req.Topics {
			st := kmsg.NewOffsetCommitResponseTopic()
			st.Topic, st.TopicID = rt.Topic, rt.TopicID
			for _, rp := range rt.Partitions {
				sp := kmsg.NewOffsetCommitResponseTopicPartition()
				sp.Partition = rp.Partition
				sp.ErrorCode = code
				st.Partitions = append(st.Partitions, sp)
			}
			resp.Topics = append(resp.Topics, st)
		}
		return resp, nil, true
	})
	ctx, cancel := context.WithCancel(context.Background())
	defer cancel()
	// the retry back-off of the scenario: a commit that is answered with a retriable error stays "in flight" that long
	backoff := []time.Duration{10 * time.Millisecond, 10 * time.Millisecond, 60 * time.Millisecond, 250 * time.Millisecond}[seed%4]
	common := []kgo.Opt{kgo.SeedBrokers(cluster.ListenAddrs()...), kgo.Dialer(net.Stack.DialContext),
		kgo.RetryBackoffFn(func(int) time.Duration { return backoff })}
	gopts := append([]kgo.Opt{kgo.ConsumerGroup("g"), kgo.ConsumeTopics("t"), kgo.DisableAutoCommit(),
		kgo.SessionTimeout(6 * time.Second), kgo.HeartbeatInterval(300 * time.Millisecond), kgo.RebalanceTimeout(4 * time.Second),
		kgo.FetchMaxWait(50 * time.Millisecond)}, common...)
	cl, err := kgo.NewClient(gopts...)
	if err != nil {
		return "ERR:client:" + err.Error()
	}
	// a few records in every partition, so that the member tracks every partition once it has polled them
	pr, err := kgo.NewClient(append([]kgo.Opt{kgo.RecordPartitioner(kgo.ManualPartitioner())}, common...)...)
	if err != nil {
		return "ERR:client:" + err.Error()
	}
	for p := 0; p < parts; p++ {
		for i := 0; i < 2; i++ {
			if err := pr.ProduceSync(ctx, &kgo.Record{Topic: "t", Partition: int32(p), Value: []byte("x")}).FirstErr(); err != nil {
				return "ERR:produce:" + err.Error()
			}
		}
	}
	pr.Close()
	// join, get an assignment and poll every partition once
	seenParts := map[int32]bool{}
	for i := 0; i < 40 && len(seenParts) < parts; i++ {
		pctx, pc := context.WithTimeout(ctx, 500*time.Millisecond)
		cl.PollFetches(pctx).EachRecord(func(r *kgo.Record) { seenParts[r.Partition] = true })
		pc()
	}
	if len(seenParts) < parts {
		log.Add("ERRwarmup")
	}
	rng := hx.NewRng(seed)
	var wg sync.WaitGroup
	stop := make(chan struct{})
	if rebalance {
		wg.Add(1)
		go func() {
			defer wg.Done()
			for i := 0; i < 3; i++ {
				select {
				case <-stop:
					return
				case <-time.After(time.Duration(50+rng.Intn(300)) * time.Millisecond):
				}
				c2, err := kgo.NewClient(gopts...)
				if err != nil {
					return
				}
				p2, pc2 := context.WithTimeout(ctx, time.Duration(200+rng.Intn(800))*time.Millisecond)
				c2.PollFetches(p2)
				pc2()
				c2.Close()
				hx.St.Inc("scen.cmt.rebalance")
			}
		}()
		// keep the committing member in the group while it rebalances
		wg.Add(1)
		go func() {
			defer wg.Done()
			for {
				select {
				case <-stop:
					return
				default:
				}
				p3, pc3 := context.WithTimeout(ctx, 100*time.Millisecond)
				cl.PollFetches(p3)
				pc3()
			}
		}()
	}
	var done sync.WaitGroup
	crng := hx.NewRng(seed ^ 0x99)
	for k := 1; k <= ncommits; k++ {
		k := k
		offs := map[int32]kgo.EpochOffset{}
		var desc []string
		for p := 0; p < parts; p++ {
			if p == 0 && len(offs) == 0 && crng.Chance(40) || crng.Chance(60) {
				offs[int32(p)] = kgo.EpochOffset{Epoch: -1, Offset: int64(1000 + k)}
				desc = append(desc, fmt.Sprintf("%d=%d", p, 1000+k))
			}
		}
		if len(offs) == 0 {
			offs[0] = kgo.EpochOffset{Epoch: -1, Offset: int64(1000 + k)}
			desc = append(desc, fmt.Sprintf("0=%d", 1000+k))
		}
		sort.Strings(desc)
		short := seed%5 < 2 && crng.Chance(25)
		onDone := func(_ *kgo.Client, _ *kmsg.OffsetCommitRequest, resp *kmsg.OffsetCommitResponse, err error) {
			res := "ok"
			if err != nil {
				res = "err"
			} else if resp != nil {
				for _, rt := range resp.Topics {
					for _, rp := range rt.Partitions {
						if rp.ErrorCode != 0 {
							res = "err"
						}
					}
				}
			}
			log.Add("Ce:%d:%s", k, res)
			if short && res == "err" {
				log.Add("Cunknown")
			}
			done.Done()
		}
		cctx, cc := context.WithTimeout(ctx, 20*time.Second)
		if short {
			// a commit whose own context ends early, possibly while it is queued behind a slow or retrying
			// predecessor: it may or may not take effect, the commits around it must still apply in order
			cc()
			cctx, cc = context.WithTimeout(ctx, time.Duration(crng.Intn(120))*time.Millisecond)
			hx.St.Inc("scen.cmt.short-context")
		}
		switch api := crng.Intn(3); api {
		case 0:
			log.Add("Cs:%d:a:%s", k, strings.Join(desc, ","))
			done.Add(1)
			cl.CommitOffsets(cctx, map[string]map[int32]kgo.EpochOffset{"t": offs}, onDone)
		case 1:
			log.Add("Cs:%d:s:%s", k, strings.Join(desc, ","))
			done.Add(1)
			cl.CommitOffsetsSync(cctx, map[string]map[int32]kgo.EpochOffset{"t": offs}, onDone)
		default:
			log.Add("Cs:%d:r:%s", k, strings.Join(desc, ","))
			var recs []*kgo.Record
			for p, o := range offs {
				recs = append(recs, &kgo.Record{Topic: "t", Partition: p, Offset: o.Offset - 1, LeaderEpoch: -1})
			}
			err := cl.CommitRecords(cctx, recs...)
			res := "ok"
			if err != nil {
				res = "err"
			}
			log.Add("Ce:%d:%s", k, res)
			if short && res == "err" {
				log.Add("Cunknown")
			}
		}
		_ = cc
		if crng.Chance(40) {
			time.Sleep(time.Duration(crng.Intn(40)) * time.Millisecond)
		}
	}
	done.Wait()
	emu.Lock()
	faultsOn = false
	emu.Unlock()
	close(stop)
	wg.Wait()
	time.Sleep(500 * time.Millisecond)
	for tp, ps := range cl.CommittedOffsets() {
		if tp != "t" {
			continue
		}
		var keys []int
		for p := range ps {
			keys = append(keys, int(p))
		}
		sort.Ints(keys)
		for _, p := range keys {
			log.Add("CO:%d:%d", p, ps[int32(p)].Offset)
		}
	}
	// the group's view
	adm, err := kgo.NewClient(common...)
	if err == nil {
		req := kmsg.NewPtrOffsetFetchRequest()
		req.Group = "g"
		rt := kmsg.NewOffsetFetchRequestTopic()
		rt.Topic = "t"
		for p := 0; p < parts; p++ {
			rt.Partitions = append(rt.Partitions, int32(p))
		}
		req.Topics = append(req.Topics, rt)
		rg := kmsg.NewOffsetFetchRequestGroup()
		rg.Group = "g"
		gt := kmsg.NewOffsetFetchRequestGroupTopic()
		gt.Topic = "t"
		gt.Partitions = rt.Partitions
		rg.Topics = append(rg.Topics, gt)
		req.Groups = append(req.Groups, rg)
		rctx, rc := context.WithTimeout(ctx, 10*time.Second)
		resp, err := req.RequestWith(rctx, adm)
		rc()
		if err == nil {
			seen := map[int32]bool{}
			emit := func(p int32, off int64) {
				if !seen[p] {
					seen[p] = true
					log.Add("GC:%d:%d", p, off)
				}
			}
			for _, g := range resp.Groups {
				for _, gt := range g.Topics {
					for _, gp := range gt.Partitions {
						emit(gp.Partition, gp.Offset)
					}
				}
			}
			for _, rt := range resp.Topics {
				for _, rp := range rt.Partitions {
					emit(rp.Partition, rp.Offset)
				}
			}
		} else {
			log.Add("ERRoffsetfetch")
		}
		adm.Close()
	}
	cl.Close()
	cancel()
	synctest.Wait()
	log.Add("Q")
	hx.St.Inc("scen.cmt")
	return fmt.Sprintf("cfg:%d ", parts) + log.String()
}
