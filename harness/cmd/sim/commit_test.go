// cmt: offset-commit ordering scenarios (C09). One group member issues a sequence of commits through the
// four commit APIs (async and sync mixed) while the coordinator is slow or answers with retriable /
// per-partition errors and a second member makes the group rebalance.
//
// op:   cmt <seed> <parts> <brokers> <ncommits> <faultpct> <rebalance 0|1> [<topics 1|2> <delete 0|1> <rewritepct> <queue-pattern 0|1>]
// impl: cfg:<parts>x<topics> then events
//
// A partition is identified by topic and number: partition p of topic "t" is written p, partition p of the
// second consumed topic "a" (its name sorts before "t") is written 100+p; the topic number is part/100.
//
//	Cs:k:api:p=off,p=off      commit number k issued (api a=CommitOffsets s=CommitOffsetsSync r=CommitRecords); every offset is 1000+k
//	Ce:k:res                  commit k finished as the client sees it (ok / err)
//	Wc:n:part:off             an OffsetCommit request as it reached the coordinator (request number n), one event per partition
//	Wr:n:part:err             the answer for that partition AS SHOWN TO THE CLIENT (the coordinator's, the injected or the rewritten one)
//	Wt:part                   the answer for that partition was rewritten on the wire from success to an error code:
//	                          the coordinator applied the commit, the client is told it failed (partition tainted)
//	Td:topic                  the topic (number) is about to be deleted through an admin client
//	CO:part:off               Client.CommittedOffsets at the end        GC:part:off  the group's committed offset (OffsetFetch), -1 none
//	Q
package main

import (
	"context"
	"fmt"
	"sort"
	"strings"
	"sync"
	"sync/atomic"
	"testing"
	"testing/synctest"
	"time"

	"github.com/twmb/franz-go/pkg/kbin"
	"github.com/twmb/franz-go/pkg/kerr"
	"github.com/twmb/franz-go/pkg/kfake"
	"github.com/twmb/franz-go/pkg/kgo"
	"github.com/twmb/franz-go/pkg/kmsg"
	"verifharness/hx"
	"verifharness/sim"
)

func genCmt(a hx.Args) {
	r := hx.NewRng(a.Seed)
	n := a.N(300, 3000)
	for i := 0; i < n; i++ {
		topics, del, rewrite := 1, 0, 0
		if r.Chance(70) {
			topics = 2
			if r.Chance(45) {
				del = 1
			}
		}
		if r.Chance(50) {
			rewrite = hx.Pick(r, []int{15, 30, 50})
		}
		pat := 0
		if r.Chance(25) {
			pat = 1
		}
		hx.Emit("cmt %d %d %d %d %d %d %d %d %d %d", r.U64()%1000000, 1+r.Intn(4), 1+r.Intn(2), 4+r.Intn(16), hx.Pick(r, []int{0, 10, 25, 40}), r.Intn(2), topics, del, rewrite, pat)
	}
}

func runCmt(t *testing.T, tk []string) string {
	if tk[0] != "cmt" || len(tk) != 7 && len(tk) != 11 {
		return "bad-op"
	}
	seed := uint64(hx.Atoi(tk[1]))
	parts, brokers, ncommits, faultpct, rebalance := int(hx.Atoi(tk[2])), int(hx.Atoi(tk[3])), int(hx.Atoi(tk[4])), int(hx.Atoi(tk[5])), tk[6] == "1"
	ntopics, deleteA, rewritepct, pattern := 1, false, 0, false // the 7-token form: one topic, no deletion, no rewriting, no pattern
	if len(tk) == 11 {
		ntopics, deleteA, rewritepct, pattern = int(hx.Atoi(tk[7])), tk[8] == "1", int(hx.Atoi(tk[9])), tk[10] == "1"
		if ntopics != 1 && ntopics != 2 {
			return "bad-op"
		}
	}
	topicNames := []string{"t", "a"}[:ntopics]
	// partition number in the event vocabulary
	var idmu sync.Mutex
	topicOfID := map[[16]byte]string{}
	pnum := func(topic string, id [16]byte, p int32) int {
		if topic == "" {
			idmu.Lock()
			topic = topicOfID[id]
			idmu.Unlock()
		}
		switch topic {
		case "t":
			return int(p)
		case "a":
			return 100 + int(p)
		}
		return 900 + int(p) // never issued: the monitor refuses it
	}
	log := &sim.Log{}
	partial := func() string { return log.String() }
	sim.Partial.Store(&partial)
	defer sim.Partial.Store(nil)
	net := &sim.Net{}
	// wire view of OffsetCommit
	var wmu sync.Mutex
	reqN := 0
	type pend struct {
		n int
		v int16
	}
	pending := map[int][]pend{}
	var wireOff atomic.Bool // set before the member is closed in mark mode (see below)
	net.OnRequest = func(conn int, key int16, frame []byte, act sim.Action) {
		if key != 8 || len(frame) < 8 || wireOff.Load() {
			return
		}
		v := int16(uint16(frame[2])<<8 | uint16(frame[3]))
		req := kmsg.NewPtrOffsetCommitRequest()
		req.SetVersion(v)
		b := kbin.Reader{Src: frame[8:]}
		b.NullableString()
		if req.IsFlexible() {
			kmsg.SkipTags(&b)
		}
		if req.ReadFrom(b.Src) != nil {
			log.Add("Wbad")
			return
		}
		wmu.Lock()
		reqN++
		n := reqN
		pending[conn] = append(pending[conn], pend{n, v})
		wmu.Unlock()
		for _, rt := range req.Topics {
			for _, rp := range rt.Partitions {
				log.Add("Wc:%d:%d:%d", n, pnum(rt.Topic, rt.TopicID, rp.Partition), rp.Offset)
			}
		}
	}
	// wire rewriting: in a share of the answers the first partition(s) in the client's processing order
	// (topic name, then partition number) that the coordinator answered with success are shown to the
	// client with a non-retriable per-partition error code; the coordinator has applied the commit
	mrng := hx.NewRng(seed ^ 0x7171)
	rewriteOn := true
	net.MutateResponse = func(conn int, key int16, frame []byte) []byte {
		if key != 8 || rewritepct == 0 || len(frame) < 4 {
			return nil
		}
		wmu.Lock()
		q := pending[conn]
		on := rewriteOn
		roll, pick, cidx := mrng.Intn(100), mrng.Intn(1000), mrng.Intn(3)
		wmu.Unlock()
		if len(q) == 0 || !on || roll >= rewritepct {
			return nil
		}
		resp := kmsg.NewPtrOffsetCommitResponse()
		resp.SetVersion(q[0].v)
		b := kbin.Reader{Src: frame[4:]}
		if resp.IsFlexible() {
			kmsg.SkipTags(&b)
		}
		hdr := frame[:len(frame)-len(b.Src)]
		if resp.ReadFrom(b.Src) != nil {
			return nil
		}
		type ref struct {
			pn   int
			code *int16
		}
		var refs []ref
		for i := range resp.Topics {
			rt := &resp.Topics[i]
			for j := range rt.Partitions {
				refs = append(refs, ref{pnum(rt.Topic, rt.TopicID, rt.Partitions[j].Partition), &rt.Partitions[j].ErrorCode})
			}
		}
		if len(refs) < 2 {
			return nil // a lone partition: nothing else in the answer would be judged
		}
		// "a" (100+p) sorts before "t" (p)
		sort.Slice(refs, func(i, j int) bool {
			ti, tj := refs[i].pn < 100, refs[j].pn < 100
			if ti != tj {
				return tj
			}
			return refs[i].pn < refs[j].pn
		})
		m := 1 + pick%(len(refs)-1)
		code := []int16{kerr.OffsetMetadataTooLarge.Code, kerr.InvalidCommitOffsetSize.Code, kerr.TopicAuthorizationFailed.Code}[cidx]
		changed := false
		for _, r := range refs[:m] {
			if *r.code == 0 {
				*r.code = code
				changed = true
				log.Add("Wt:%d", r.pn)
			}
		}
		if !changed {
			return nil
		}
		hx.St.Inc(fmt.Sprintf("fault.commit-rewrite-code-%d", code))
		return resp.AppendTo(append([]byte(nil), hdr...))
	}
	net.OnResponse = func(conn int, key int16, frame []byte, delivered bool) {
		if key != 8 || wireOff.Load() {
			return
		}
		wmu.Lock()
		q := pending[conn]
		if len(q) == 0 {
			wmu.Unlock()
			return
		}
		p := q[0]
		pending[conn] = q[1:]
		wmu.Unlock()
		resp := kmsg.NewPtrOffsetCommitResponse()
		resp.SetVersion(p.v)
		b := kbin.Reader{Src: frame[4:]}
		if resp.IsFlexible() {
			kmsg.SkipTags(&b)
		}
		if resp.ReadFrom(b.Src) != nil {
			log.Add("Wbad")
			return
		}
		nok, nbad := 0, 0
		for _, rt := range resp.Topics {
			for _, rp := range rt.Partitions {
				log.Add("Wr:%d:%d:%d", p.n, pnum(rt.Topic, rt.TopicID, rp.Partition), rp.ErrorCode)
				if rp.ErrorCode == 0 {
					nok++
				} else {
					nbad++
				}
			}
		}
		if nok > 0 && nbad > 0 {
			hx.St.Inc("wire.commit-answer-mixed")
		} else if nbad > 0 {
			hx.St.Inc("wire.commit-answer-all-error")
		} else {
			hx.St.Inc("wire.commit-answer-all-ok")
		}
	}
	ports := make([]int, brokers)
	base := int(9000 + (portBase.Add(1)%500)*10)
	for i := range ports {
		ports[i] = base + i
	}
	cluster, err := kfake.NewCluster(kfake.NumBrokers(brokers), kfake.Ports(ports...), kfake.SeedTopics(int32(parts), topicNames...),
		kfake.ListenFn(net.ListenFn))
	if err != nil {
		return "ERR:cluster:" + err.Error()
	}
	defer cluster.Close()
	for _, tn := range topicNames {
		if ti := cluster.TopicInfo(tn); ti != nil {
			idmu.Lock()
			topicOfID[ti.TopicID] = tn
			idmu.Unlock()
		}
	}
	var emu sync.Mutex
	erng := hx.NewRng(seed ^ 0x5151)
	faultsOn := true
	forceRetriable := false // queue pattern: the next OffsetCommit request is answered with a retriable coordinator error
	cluster.ControlKey(8, func(kreq kmsg.Request) (kmsg.Response, error, bool) {
		cluster.KeepControl()
		emu.Lock()
		on := faultsOn && faultpct > 0
		roll := erng.Intn(100)
		kind := erng.Intn(5)
		slow := erng.Intn(60)
		if forceRetriable && faultsOn {
			forceRetriable = false
			on, roll, kind = true, -1, 1+roll%2
			hx.St.Inc("scen.cmt.queue-pattern-armed")
		}
		emu.Unlock()
		if !on || roll >= faultpct {
			return nil, nil, false
		}
		if kind == 0 {
			hx.St.Inc("fault.commit-slow")
			time.Sleep(time.Duration(slow) * time.Millisecond) // the coordinator is slow for everyone
			return nil, nil, false
		}
		req := kreq.(*kmsg.OffsetCommitRequest)
		resp := req.ResponseKind().(*kmsg.OffsetCommitResponse)
		code := []int16{0, kerr.CoordinatorLoadInProgress.Code, kerr.NotCoordinator.Code, kerr.RequestTimedOut.Code, kerr.UnknownTopicOrPartition.Code}[kind]
		hx.St.Inc(fmt.Sprintf("fault.commit-code-%d", code))
		for _, rt := range req.Topics {
			st := kmsg.NewOffsetCommitResponseTopic()
			st.Topic, st.TopicID = rt.Topic, rt.TopicID
			for _, rp := range rt.Partitions {
				sp := kmsg.NewOffsetCommitResponseTopicPartition()
				sp.Partition = rp.Partition
				sp.ErrorCode = code
				st.Partitions = append(st.Partitions, sp)
			}
			resp.Topics = append(resp.Topics, st)
		}
		return resp, nil, true
	})
	ctx, cancel := context.WithCancel(context.Background())
	defer cancel()
	// the retry back-off of the scenario: a commit that is answered with a retriable error stays "in flight" that long
	backoff := []time.Duration{10 * time.Millisecond, 10 * time.Millisecond, 60 * time.Millisecond, 250 * time.Millisecond}[seed%4]
	common := []kgo.Opt{kgo.SeedBrokers(cluster.ListenAddrs()...), kgo.Dialer(net.Stack.DialContext),
		kgo.RetryBackoffFn(func(int) time.Duration { return backoff })}
	// mark mode (a third of the scenarios without a second member): the member uses AutoCommitMarks with an autocommit
	// interval far beyond the scenario instead of DisableAutoCommit, and a fourth commit API is generated:
	// MarkCommitOffsets(every partition -> 1000+k) followed by CommitMarkedOffsets, the commit of "what is marked"
	// (the same tail as CommitUncommittedOffsets), whose only result is the error it returns
	markMode := !rebalance && seed%3 == 1
	acOpt := kgo.DisableAutoCommit()
	if markMode {
		acOpt = kgo.AutoCommitMarks()
		hx.St.Inc("scen.cmt.mark-mode")
	}
	gopts := append([]kgo.Opt{kgo.ConsumerGroup("g"), kgo.ConsumeTopics(topicNames...), acOpt, kgo.AutoCommitInterval(time.Hour),
		kgo.SessionTimeout(6 * time.Second), kgo.HeartbeatInterval(300 * time.Millisecond), kgo.RebalanceTimeout(4 * time.Second),
		kgo.FetchMaxWait(50 * time.Millisecond)}, common...)
	cl, err := kgo.NewClient(gopts...)
	if err != nil {
		return "ERR:client:" + err.Error()
	}
	// a few records in every partition, so that the member tracks every partition once it has polled them
	pr, err := kgo.NewClient(append([]kgo.Opt{kgo.RecordPartitioner(kgo.ManualPartitioner())}, common...)...)
	if err != nil {
		return "ERR:client:" + err.Error()
	}
	for _, tn := range topicNames {
		for p := 0; p < parts; p++ {
			for i := 0; i < 2; i++ {
				if err := pr.ProduceSync(ctx, &kgo.Record{Topic: tn, Partition: int32(p), Value: []byte("x")}).FirstErr(); err != nil {
					return "ERR:produce:" + err.Error()
				}
			}
		}
	}
	pr.Close()
	// the admin client that deletes topic "a" (not a group member); connected before the commits start
	var adel *kgo.Client
	if deleteA && ntopics == 2 {
		adel, err = kgo.NewClient(common...)
		if err != nil {
			return "ERR:client:" + err.Error()
		}
		defer adel.Close()
		pctx, pc := context.WithTimeout(ctx, 5*time.Second)
		adel.Ping(pctx)
		pc()
	}
	// join, get an assignment and poll every partition once
	seenParts := map[int]bool{}
	for i := 0; i < 40 && len(seenParts) < parts*ntopics; i++ {
		pctx, pc := context.WithTimeout(ctx, 500*time.Millisecond)
		cl.PollFetches(pctx).EachRecord(func(r *kgo.Record) { seenParts[pnum(r.Topic, [16]byte{}, r.Partition)] = true })
		pc()
	}
	if len(seenParts) < parts*ntopics {
		log.Add("ERRwarmup")
	}
	rng := hx.NewRng(seed)
	var wg sync.WaitGroup
	stop := make(chan struct{})
	if rebalance {
		wg.Add(1)
		go func() {
			defer wg.Done()
			for i := 0; i < 3; i++ {
				select {
				case <-stop:
					return
				case <-time.After(time.Duration(50+rng.Intn(300)) * time.Millisecond):
				}
				c2, err := kgo.NewClient(gopts...)
				if err != nil {
					return
				}
				p2, pc2 := context.WithTimeout(ctx, time.Duration(200+rng.Intn(800))*time.Millisecond)
				c2.PollFetches(p2)
				pc2()
				c2.Close()
				hx.St.Inc("scen.cmt.rebalance")
			}
		}()
		// keep the committing member in the group while it rebalances
		wg.Add(1)
		go func() {
			defer wg.Done()
			for {
				select {
				case <-stop:
					return
				default:
				}
				p3, pc3 := context.WithTimeout(ctx, 100*time.Millisecond)
				cl.PollFetches(p3)
				pc3()
			}
		}()
	}
	var done sync.WaitGroup
	crng := hx.NewRng(seed ^ 0x99)
	drng := hx.NewRng(seed ^ 0x4242)
	kdel, delAsync := 2+drng.Intn(ncommits), drng.Chance(50) // kdel > ncommits: deleted after the last commit was issued
	var delWg sync.WaitGroup
	deleteTopicA := func() {
		defer delWg.Done()
		req := kmsg.NewPtrDeleteTopicsRequest()
		req.TimeoutMillis = 5000
		req.TopicNames = []string{"a"}
		rt := kmsg.NewDeleteTopicsRequestTopic()
		rt.Topic = kmsg.StringPtr("a")
		req.Topics = append(req.Topics, rt)
		dctx, dc := context.WithTimeout(ctx, 10*time.Second)
		defer dc()
		if _, err := req.RequestWith(dctx, adel); err != nil {
			log.Add("ERRdelete")
		}
		hx.St.Inc("scen.cmt.topic-deleted")
	}
	maybeDelete := func(k int) {
		if adel == nil || k != kdel {
			return
		}
		log.Add("Td:1")
		delWg.Add(1)
		if delAsync {
			go deleteTopicA()
		} else {
			deleteTopicA()
		}
	}
	// queue pattern (a share of the scenarios): commit kpat is asynchronous and its first attempt is answered with
	// a retriable coordinator error, so it sits in its retry back-off; commit kpat+1 is queued behind it with a
	// context that ends before that back-off does; commit kpat+2 (asynchronous too) follows at once
	kpat := -10
	prng := hx.NewRng(seed ^ 0x3131)
	if pattern && ncommits >= 3 {
		kpat = 1 + prng.Intn(ncommits-2)
	}
	for k := 1; k <= ncommits; k++ {
		k := k
		maybeDelete(k)
		offs := map[int32]kgo.EpochOffset{}
		var desc []string
		for p := 0; p < parts; p++ {
			if p == 0 && len(offs) == 0 && crng.Chance(40) || crng.Chance(60) {
				offs[int32(p)] = kgo.EpochOffset{Epoch: -1, Offset: int64(1000 + k)}
				desc = append(desc, fmt.Sprintf("%d=%d", p, 1000+k))
			}
		}
		if len(offs) == 0 {
			offs[0] = kgo.EpochOffset{Epoch: -1, Offset: int64(1000 + k)}
			desc = append(desc, fmt.Sprintf("0=%d", 1000+k))
		}
		// the second topic: its partitions are written 100+p
		offsA := map[int32]kgo.EpochOffset{}
		if ntopics == 2 {
			for p := 0; p < parts; p++ {
				if crng.Chance(60) {
					offsA[int32(p)] = kgo.EpochOffset{Epoch: -1, Offset: int64(1000 + k)}
					desc = append(desc, fmt.Sprintf("%d=%d", 100+p, 1000+k))
				}
			}
		}
		commitMap := map[string]map[int32]kgo.EpochOffset{"t": offs}
		if len(offsA) > 0 {
			commitMap["a"] = offsA
		}
		sort.Strings(desc)
		short := seed%5 < 2 && crng.Chance(25)
		onDone := func(_ *kgo.Client, _ *kmsg.OffsetCommitRequest, resp *kmsg.OffsetCommitResponse, err error) {
			res := "ok"
			if err != nil {
				res = "err"
			} else if resp != nil {
				for _, rt := range resp.Topics {
					for _, rp := range rt.Partitions {
						if rp.ErrorCode != 0 {
							res = "err"
						}
					}
				}
			}
			log.Add("Ce:%d:%s", k, res)
			if short && res == "err" {
				log.Add("Cunknown")
			}
			done.Done()
		}
		if k == kpat {
			short = false
			emu.Lock()
			forceRetriable = true
			emu.Unlock()
		}
		shortFor := time.Duration(-1)
		if k == kpat+1 {
			short = true
			shortFor = time.Duration(prng.Intn(int(backoff/time.Millisecond))) * time.Millisecond
		}
		cctx, cc := context.WithTimeout(ctx, 20*time.Second)
		if short {
			// a commit whose own context ends early, possibly while it is queued behind a slow or retrying
			// predecessor: it may or may not take effect, the commits around it must still apply in order
			cc()
			d := time.Duration(crng.Intn(120)) * time.Millisecond
			if shortFor >= 0 {
				d = shortFor
			}
			cctx, cc = context.WithTimeout(ctx, d)
			hx.St.Inc("scen.cmt.short-context")
		}
		api := crng.Intn(3)
		if markMode && crng.Chance(40) {
			api = 3
		}
		if k >= kpat && k <= kpat+2 {
			api = 0 // all three asynchronous: a synchronous commit waits (outside its context) for every commit in flight
		}
		switch api {
		case 0:
			log.Add("Cs:%d:a:%s", k, strings.Join(desc, ","))
			done.Add(1)
			cl.CommitOffsets(cctx, commitMap, onDone)
		case 1:
			log.Add("Cs:%d:s:%s", k, strings.Join(desc, ","))
			done.Add(1)
			cl.CommitOffsetsSync(cctx, commitMap, onDone)
		case 3:
			// every partition of both topics is marked, so that what is marked is exactly this commit's offset for
			// every partition (a mark left over from an earlier failed commit would otherwise ride along)
			all := map[string]map[int32]kgo.EpochOffset{}
			desc = desc[:0]
			for ti, tn := range topicNames {
				all[tn] = map[int32]kgo.EpochOffset{}
				for p := 0; p < parts; p++ {
					all[tn][int32(p)] = kgo.EpochOffset{Epoch: -1, Offset: int64(1000 + k)}
					desc = append(desc, fmt.Sprintf("%d=%d", 100*ti+p, 1000+k))
				}
			}
			sort.Strings(desc)
			log.Add("Cs:%d:m:%s", k, strings.Join(desc, ","))
			cl.MarkCommitOffsets(all)
			err := cl.CommitMarkedOffsets(cctx)
			res := "ok"
			if err != nil {
				res = "err"
			}
			log.Add("Ce:%d:%s", k, res)
			if short && res == "err" {
				log.Add("Cunknown")
			}
			hx.St.Inc("scen.cmt.commit-marked." + res)
		default:
			log.Add("Cs:%d:r:%s", k, strings.Join(desc, ","))
			var recs []*kgo.Record
			for tn, po := range commitMap {
				for p, o := range po {
					recs = append(recs, &kgo.Record{Topic: tn, Partition: p, Offset: o.Offset - 1, LeaderEpoch: -1})
				}
			}
			err := cl.CommitRecords(cctx, recs...)
			res := "ok"
			if err != nil {
				res = "err"
			}
			log.Add("Ce:%d:%s", k, res)
			if short && res == "err" {
				log.Add("Cunknown")
			}
		}
		_ = cc
		if crng.Chance(40) {
			if d := crng.Intn(40); k != kpat && k != kpat+1 {
				time.Sleep(time.Duration(d) * time.Millisecond)
			}
		}
	}
	maybeDelete(ncommits + 1)
	done.Wait()
	delWg.Wait()
	emu.Lock()
	faultsOn = false
	emu.Unlock()
	wmu.Lock()
	rewriteOn = false
	wmu.Unlock()
	close(stop)
	wg.Wait()
	time.Sleep(500 * time.Millisecond)
	co := cl.CommittedOffsets()
	for _, tn := range topicNames {
		ps := co[tn]
		var keys []int
		for p := range ps {
			keys = append(keys, int(p))
		}
		sort.Ints(keys)
		for _, p := range keys {
			log.Add("CO:%d:%d", pnum(tn, [16]byte{}, int32(p)), ps[int32(p)].Offset)
		}
	}
	// the group's view
	adm, err := kgo.NewClient(common...)
	if err == nil {
		req := kmsg.NewPtrOffsetFetchRequest()
		req.Group = "g"
		rg := kmsg.NewOffsetFetchRequestGroup()
		rg.Group = "g"
		for _, tn := range topicNames {
			if tn == "a" && adel != nil {
				continue // deleted: its partitions do not exist any more, nothing to ask for
			}
			rt := kmsg.NewOffsetFetchRequestTopic()
			rt.Topic = tn
			for p := 0; p < parts; p++ {
				rt.Partitions = append(rt.Partitions, int32(p))
			}
			req.Topics = append(req.Topics, rt)
			gt := kmsg.NewOffsetFetchRequestGroupTopic()
			gt.Topic = tn
			gt.Partitions = rt.Partitions
			rg.Topics = append(rg.Topics, gt)
		}
		req.Groups = append(req.Groups, rg)
		rctx, rc := context.WithTimeout(ctx, 10*time.Second)
		resp, err := req.RequestWith(rctx, adm)
		rc()
		if err == nil {
			seen := map[int]bool{}
			emit := func(tn string, id [16]byte, p int32, off int64) {
				pn := pnum(tn, id, p)
				if !seen[pn] {
					seen[pn] = true
					log.Add("GC:%d:%d", pn, off)
				}
			}
			for _, g := range resp.Groups {
				for _, gt := range g.Topics {
					for _, gp := range gt.Partitions {
						emit(gt.Topic, gt.TopicID, gp.Partition, gp.Offset)
					}
				}
			}
			for _, rt := range resp.Topics {
				for _, rp := range rt.Partitions {
					emit(rt.Topic, [16]byte{}, rp.Partition, rp.Offset)
				}
			}
		} else {
			log.Add("ERRoffsetfetch")
		}
		adm.Close()
	}
	if markMode {
		wireOff.Store(true) // leaving the group commits whatever is still marked: not one of the scenario's commits
	}
	cl.Close()
	cancel()
	synctest.Wait()
	log.Add("Q")
	hx.St.Inc("scen.cmt")
	if ntopics == 2 {
		hx.St.Inc("scen.cmt.two-topics")
	}
	if rewritepct > 0 {
		hx.St.Inc("scen.cmt.rewriting")
	}
	return fmt.Sprintf("cfg:%dx%d ", parts, ntopics) + log.String()
}
