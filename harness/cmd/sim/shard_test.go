// shard: sharded-request scenarios (C23). A real kgo client issues one splittable request through
// RequestSharded and then through Request against a real kfake cluster of 1-5 brokers with generated leader /
// coordinator placement, item sets containing unknown topics / partitions / unmappable groups and duplicates,
// while leaders or coordinators move or the first attempts are answered with retriable errors.
//
// op:   shard <seed> <kind> <brokers> <fault none|err|move|shuffle|rehash>
// impl: G:<dest=items;...|*>  canonical grouping of the returned shards' request items by destination (`*` for the per-replica kinds)
//
//	K:<kind> B:<brokers> F:<fault> D:<0|1 the sharder dedups requested items>
//	R:<items>                 requested items in request order (t/p topic-partitions, group / txn-id / key names, b<i> brokers for fan-outs)
//	L:<ver>:<item=dest,...>   layout for every distinct requested item: broker id, `any`, or E<ERROR> for an unmappable item
//	W:<n>:<node>:<items>:<ver>  request n of the kind's API key as it reached broker <node> under layout version <ver>
//	A:<n>:<ok|inj<code>>      passed to kfake / answered with an injected retriable error for every item
//	S:<dest>:<request items>:<response item=code,...|->:<err|->   one returned shard of RequestSharded
//	P                         the RequestSharded phase is over; the Request phase (fresh client) follows
//	M:<err|->:<item=code,...>  merged response of Request and its error
//	N:<frames>                request frames of that API key seen by sim.Net.OnRequest during both phases (= number of W events)
//	Q
package main

import (
	"context"
	"errors"
	"fmt"
	"sort"
	"strconv"
	"strings"
	"sync"
	"testing"
	"testing/synctest"
	"time"

	"github.com/twmb/franz-go/pkg/kerr"
	"github.com/twmb/franz-go/pkg/kfake"
	"github.com/twmb/franz-go/pkg/kgo"
	"github.com/twmb/franz-go/pkg/kmsg"
	"verifharness/hx"
	"verifharness/sim"
)

type shKind struct {
	name  string
	key   int16
	fam   string // tp | grp | txn | anykey | fan
	dedup bool
	build func(items []string) kmsg.Request
	reqIt func(kmsg.Request) []string
	// respIt lists the response's items as item=code
	respIt func(kmsg.Response) []string
	// fail answers every item of the request with code
	fail func(kmsg.Request, int16) kmsg.Response
}

func tpSplit(it string) (string, int32) {
	i := strings.LastIndexByte(it, '/')
	p, _ := strconv.Atoi(it[i+1:])
	return it[:i], int32(p)
}

// runs of equal topics become one topic entry each, so a topic can occur in two entries of the request
func tpRuns(items []string) (topics []string, parts [][]int32) {
	for _, it := range items {
		t, p := tpSplit(it)
		if n := len(topics); n > 0 && topics[n-1] == t {
			parts[n-1] = append(parts[n-1], p)
		} else {
			topics = append(topics, t)
			parts = append(parts, []int32{p})
		}
	}
	return
}

func ic(item string, code int16) string { return fmt.Sprintf("%s=%d", item, code) }
func tp(t string, p int32) string       { return fmt.Sprintf("%s/%d", t, p) }

var shKinds = map[string]*shKind{}

func regKind(k *shKind) { shKinds[k.name] = k }

func init() {
	regKind(&shKind{name: "listoffsets", key: 2, fam: "tp",
		build: func(items []string) kmsg.Request {
			req := kmsg.NewPtrListOffsetsRequest()
			req.ReplicaID = -1
			ts, ps := tpRuns(items)
			for i, t := range ts {
				rt := kmsg.NewListOffsetsRequestTopic()
				rt.Topic = t
				for _, p := range ps[i] {
					rp := kmsg.NewListOffsetsRequestTopicPartition()
					rp.Partition, rp.Timestamp, rp.CurrentLeaderEpoch = p, -1, -1
					rt.Partitions = append(rt.Partitions, rp)
				}
				req.Topics = append(req.Topics, rt)
			}
			return req
		},
		reqIt: func(r kmsg.Request) (o []string) {
			for _, t := range r.(*kmsg.ListOffsetsRequest).Topics {
				for _, p := range t.Partitions {
					o = append(o, tp(t.Topic, p.Partition))
				}
			}
			return
		},
		respIt: func(r kmsg.Response) (o []string) {
			for _, t := range r.(*kmsg.ListOffsetsResponse).Topics {
				for _, p := range t.Partitions {
					o = append(o, ic(tp(t.Topic, p.Partition), p.ErrorCode))
				}
			}
			return
		},
		fail: func(r kmsg.Request, code int16) kmsg.Response {
			req := r.(*kmsg.ListOffsetsRequest)
			resp := req.ResponseKind().(*kmsg.ListOffsetsResponse)
			for _, t := range req.Topics {
				st := kmsg.NewListOffsetsResponseTopic()
				st.Topic = t.Topic
				for _, p := range t.Partitions {
					sp := kmsg.NewListOffsetsResponseTopicPartition()
					sp.Partition, sp.ErrorCode = p.Partition, code
					st.Partitions = append(st.Partitions, sp)
				}
				resp.Topics = append(resp.Topics, st)
			}
			return resp
		}})
	regKind(&shKind{name: "deleterecords", key: 21, fam: "tp",
		build: func(items []string) kmsg.Request {
			req := kmsg.NewPtrDeleteRecordsRequest()
			req.TimeoutMillis = 5000
			ts, ps := tpRuns(items)
			for i, t := range ts {
				rt := kmsg.NewDeleteRecordsRequestTopic()
				rt.Topic = t
				for _, p := range ps[i] {
					rp := kmsg.NewDeleteRecordsRequestTopicPartition()
					rp.Partition, rp.Offset = p, 0
					rt.Partitions = append(rt.Partitions, rp)
				}
				req.Topics = append(req.Topics, rt)
			}
			return req
		},
		reqIt: func(r kmsg.Request) (o []string) {
			for _, t := range r.(*kmsg.DeleteRecordsRequest).Topics {
				for _, p := range t.Partitions {
					o = append(o, tp(t.Topic, p.Partition))
				}
			}
			return
		},
		respIt: func(r kmsg.Response) (o []string) {
			for _, t := range r.(*kmsg.DeleteRecordsResponse).Topics {
				for _, p := range t.Partitions {
					o = append(o, ic(tp(t.Topic, p.Partition), p.ErrorCode))
				}
			}
			return
		},
		fail: func(r kmsg.Request, code int16) kmsg.Response {
			req := r.(*kmsg.DeleteRecordsRequest)
			resp := req.ResponseKind().(*kmsg.DeleteRecordsResponse)
			for _, t := range req.Topics {
				st := kmsg.NewDeleteRecordsResponseTopic()
				st.Topic = t.Topic
				for _, p := range t.Partitions {
					sp := kmsg.NewDeleteRecordsResponseTopicPartition()
					sp.Partition, sp.ErrorCode = p.Partition, code
					st.Partitions = append(st.Partitions, sp)
				}
				resp.Topics = append(resp.Topics, st)
			}
			return resp
		}})
	regKind(&shKind{name: "offsetforleaderepoch", key: 23, fam: "tp",
		build: func(items []string) kmsg.Request {
			req := kmsg.NewPtrOffsetForLeaderEpochRequest()
			req.ReplicaID = -1
			ts, ps := tpRuns(items)
			for i, t := range ts {
				rt := kmsg.NewOffsetForLeaderEpochRequestTopic()
				rt.Topic = t
				for _, p := range ps[i] {
					rp := kmsg.NewOffsetForLeaderEpochRequestTopicPartition()
					rp.Partition, rp.CurrentLeaderEpoch, rp.LeaderEpoch = p, -1, 0
					rt.Partitions = append(rt.Partitions, rp)
				}
				req.Topics = append(req.Topics, rt)
			}
			return req
		},
		reqIt: func(r kmsg.Request) (o []string) {
			for _, t := range r.(*kmsg.OffsetForLeaderEpochRequest).Topics {
				for _, p := range t.Partitions {
					o = append(o, tp(t.Topic, p.Partition))
				}
			}
			return
		},
		respIt: func(r kmsg.Response) (o []string) {
			for _, t := range r.(*kmsg.OffsetForLeaderEpochResponse).Topics {
				for _, p := range t.Partitions {
					o = append(o, ic(tp(t.Topic, p.Partition), p.ErrorCode))
				}
			}
			return
		},
		fail: func(r kmsg.Request, code int16) kmsg.Response {
			req := r.(*kmsg.OffsetForLeaderEpochRequest)
			resp := req.ResponseKind().(*kmsg.OffsetForLeaderEpochResponse)
			for _, t := range req.Topics {
				st := kmsg.NewOffsetForLeaderEpochResponseTopic()
				st.Topic = t.Topic
				for _, p := range t.Partitions {
					sp := kmsg.NewOffsetForLeaderEpochResponseTopicPartition()
					sp.Partition, sp.ErrorCode = p.Partition, code
					st.Partitions = append(st.Partitions, sp)
				}
				resp.Topics = append(resp.Topics, st)
			}
			return resp
		}})
	regKind(&shKind{name: "describeproducers", key: 61, fam: "tp",
		build: func(items []string) kmsg.Request {
			req := kmsg.NewPtrDescribeProducersRequest()
			ts, ps := tpRuns(items)
			for i, t := range ts {
				rt := kmsg.NewDescribeProducersRequestTopic()
				rt.Topic = t
				rt.Partitions = ps[i]
				req.Topics = append(req.Topics, rt)
			}
			return req
		},
		reqIt: func(r kmsg.Request) (o []string) {
			for _, t := range r.(*kmsg.DescribeProducersRequest).Topics {
				for _, p := range t.Partitions {
					o = append(o, tp(t.Topic, p))
				}
			}
			return
		},
		respIt: func(r kmsg.Response) (o []string) {
			for _, t := range r.(*kmsg.DescribeProducersResponse).Topics {
				for _, p := range t.Partitions {
					o = append(o, ic(tp(t.Topic, p.Partition), p.ErrorCode))
				}
			}
			return
		},
		fail: func(r kmsg.Request, code int16) kmsg.Response {
			req := r.(*kmsg.DescribeProducersRequest)
			resp := req.ResponseKind().(*kmsg.DescribeProducersResponse)
			for _, t := range req.Topics {
				st := kmsg.NewDescribeProducersResponseTopic()
				st.Topic = t.Topic
				for _, p := range t.Partitions {
					sp := kmsg.NewDescribeProducersResponseTopicPartition()
					sp.Partition, sp.ErrorCode = p, code
					st.Partitions = append(st.Partitions, sp)
				}
				resp.Topics = append(resp.Topics, st)
			}
			return resp
		}})
	regKind(&shKind{name: "describegroups", key: 15, fam: "grp",
		build: func(items []string) kmsg.Request {
			req := kmsg.NewPtrDescribeGroupsRequest()
			req.Groups = append([]string(nil), items...)
			return req
		},
		reqIt: func(r kmsg.Request) []string { return r.(*kmsg.DescribeGroupsRequest).Groups },
		respIt: func(r kmsg.Response) (o []string) {
			for _, g := range r.(*kmsg.DescribeGroupsResponse).Groups {
				o = append(o, ic(g.Group, g.ErrorCode))
			}
			return
		},
		fail: func(r kmsg.Request, code int16) kmsg.Response {
			req := r.(*kmsg.DescribeGroupsRequest)
			resp := req.ResponseKind().(*kmsg.DescribeGroupsResponse)
			for _, g := range req.Groups {
				sg := kmsg.NewDescribeGroupsResponseGroup()
				sg.Group, sg.ErrorCode = g, code
				resp.Groups = append(resp.Groups, sg)
			}
			return resp
		}})
	regKind(&shKind{name: "deletegroups", key: 42, fam: "grp",
		build: func(items []string) kmsg.Request {
			req := kmsg.NewPtrDeleteGroupsRequest()
			req.Groups = append([]string(nil), items...)
			return req
		},
		reqIt: func(r kmsg.Request) []string { return r.(*kmsg.DeleteGroupsRequest).Groups },
		respIt: func(r kmsg.Response) (o []string) {
			for _, g := range r.(*kmsg.DeleteGroupsResponse).Groups {
				o = append(o, ic(g.Group, g.ErrorCode))
			}
			return
		},
		fail: func(r kmsg.Request, code int16) kmsg.Response {
			req := r.(*kmsg.DeleteGroupsRequest)
			resp := req.ResponseKind().(*kmsg.DeleteGroupsResponse)
			for _, g := range req.Groups {
				sg := kmsg.NewDeleteGroupsResponseGroup()
				sg.Group, sg.ErrorCode = g, code
				resp.Groups = append(resp.Groups, sg)
			}
			return resp
		}})
	regKind(&shKind{name: "consumergroupdescribe", key: 69, fam: "grp",
		build: func(items []string) kmsg.Request {
			req := kmsg.NewPtrConsumerGroupDescribeRequest()
			req.Groups = append([]string(nil), items...)
			return req
		},
		reqIt: func(r kmsg.Request) []string { return r.(*kmsg.ConsumerGroupDescribeRequest).Groups },
		respIt: func(r kmsg.Response) (o []string) {
			for _, g := range r.(*kmsg.ConsumerGroupDescribeResponse).Groups {
				o = append(o, ic(g.Group, g.ErrorCode))
			}
			return
		},
		fail: func(r kmsg.Request, code int16) kmsg.Response {
			req := r.(*kmsg.ConsumerGroupDescribeRequest)
			resp := req.ResponseKind().(*kmsg.ConsumerGroupDescribeResponse)
			for _, g := range req.Groups {
				sg := kmsg.NewConsumerGroupDescribeResponseGroup()
				sg.Group, sg.ErrorCode = g, code
				resp.Groups = append(resp.Groups, sg)
			}
			return resp
		}})
	regKind(&shKind{name: "sharegroupdescribe", key: 77, fam: "grp",
		build: func(items []string) kmsg.Request {
			req := kmsg.NewPtrShareGroupDescribeRequest()
			req.GroupIDs = append([]string(nil), items...)
			return req
		},
		reqIt: func(r kmsg.Request) []string { return r.(*kmsg.ShareGroupDescribeRequest).GroupIDs },
		respIt: func(r kmsg.Response) (o []string) {
			for _, g := range r.(*kmsg.ShareGroupDescribeResponse).Groups {
				o = append(o, ic(g.GroupID, g.ErrorCode))
			}
			return
		},
		fail: func(r kmsg.Request, code int16) kmsg.Response {
			req := r.(*kmsg.ShareGroupDescribeRequest)
			resp := req.ResponseKind().(*kmsg.ShareGroupDescribeResponse)
			for _, g := range req.GroupIDs {
				sg := kmsg.NewShareGroupDescribeResponseGroup()
				sg.GroupID, sg.ErrorCode = g, code
				resp.Groups = append(resp.Groups, sg)
			}
			return resp
		}})
	regKind(&shKind{name: "offsetfetch", key: 9, fam: "grp",
		build: func(items []string) kmsg.Request {
			req := kmsg.NewPtrOffsetFetchRequest()
			for _, g := range items {
				rg := kmsg.NewOffsetFetchRequestGroup()
				rg.Group = g
				gt := kmsg.NewOffsetFetchRequestGroupTopic()
				gt.Topic = "a"
				gt.Partitions = []int32{0}
				rg.Topics = append(rg.Topics, gt)
				req.Groups = append(req.Groups, rg)
			}
			return req
		},
		reqIt: func(r kmsg.Request) (o []string) {
			req := r.(*kmsg.OffsetFetchRequest)
			for _, g := range req.Groups {
				o = append(o, g.Group)
			}
			if len(req.Groups) == 0 {
				o = append(o, req.Group)
			}
			return
		},
		respIt: func(r kmsg.Response) (o []string) {
			for _, g := range r.(*kmsg.OffsetFetchResponse).Groups {
				o = append(o, ic(g.Group, g.ErrorCode))
			}
			return
		},
		fail: func(r kmsg.Request, code int16) kmsg.Response {
			req := r.(*kmsg.OffsetFetchRequest)
			resp := req.ResponseKind().(*kmsg.OffsetFetchResponse)
			for _, g := range req.Groups {
				sg := kmsg.NewOffsetFetchResponseGroup()
				sg.Group, sg.ErrorCode = g.Group, code
				resp.Groups = append(resp.Groups, sg)
			}
			if len(req.Groups) == 0 {
				resp.ErrorCode = code
			}
			return resp
		}})
	regKind(&shKind{name: "describetransactions", key: 65, fam: "txn",
		build: func(items []string) kmsg.Request {
			req := kmsg.NewPtrDescribeTransactionsRequest()
			req.TransactionalIDs = append([]string(nil), items...)
			return req
		},
		reqIt: func(r kmsg.Request) []string { return r.(*kmsg.DescribeTransactionsRequest).TransactionalIDs },
		respIt: func(r kmsg.Response) (o []string) {
			for _, g := range r.(*kmsg.DescribeTransactionsResponse).TransactionStates {
				o = append(o, ic(g.TransactionalID, g.ErrorCode))
			}
			return
		},
		fail: func(r kmsg.Request, code int16) kmsg.Response {
			req := r.(*kmsg.DescribeTransactionsRequest)
			resp := req.ResponseKind().(*kmsg.DescribeTransactionsResponse)
			for _, g := range req.TransactionalIDs {
				sg := kmsg.NewDescribeTransactionsResponseTransactionState()
				sg.TransactionalID, sg.ErrorCode = g, code
				resp.TransactionStates = append(resp.TransactionStates, sg)
			}
			return resp
		}})
	regKind(&shKind{name: "findcoordinator", key: 10, fam: "anykey", dedup: true,
		build: func(items []string) kmsg.Request {
			req := kmsg.NewPtrFindCoordinatorRequest()
			req.CoordinatorType = 0
			req.CoordinatorKeys = append([]string(nil), items...)
			return req
		},
		reqIt: func(r kmsg.Request) []string {
			req := r.(*kmsg.FindCoordinatorRequest)
			if len(req.CoordinatorKeys) == 0 {
				return []string{req.CoordinatorKey}
			}
			return req.CoordinatorKeys
		},
		respIt: func(r kmsg.Response) (o []string) {
			for _, g := range r.(*kmsg.FindCoordinatorResponse).Coordinators {
				o = append(o, ic(g.Key, g.ErrorCode))
			}
			return
		},
		fail: func(r kmsg.Request, code int16) kmsg.Response {
			req := r.(*kmsg.FindCoordinatorRequest)
			resp := req.ResponseKind().(*kmsg.FindCoordinatorResponse)
			for _, g := range req.CoordinatorKeys {
				sg := kmsg.NewFindCoordinatorResponseCoordinator()
				sg.Key, sg.ErrorCode, sg.NodeID = g, code, -1
				resp.Coordinators = append(resp.Coordinators, sg)
			}
			if len(req.CoordinatorKeys) == 0 {
				resp.ErrorCode, resp.NodeID = code, -1
			}
			return resp
		}})
	regKind(&shKind{name: "listgroups", key: 16, fam: "fan",
		build: func([]string) kmsg.Request { return kmsg.NewPtrListGroupsRequest() },
		reqIt: func(kmsg.Request) []string { return nil },
		respIt: func(r kmsg.Response) (o []string) {
			for _, g := range r.(*kmsg.ListGroupsResponse).Groups {
				o = append(o, ic(g.Group, 0))
			}
			return
		},
		fail: func(r kmsg.Request, code int16) kmsg.Response {
			resp := r.ResponseKind().(*kmsg.ListGroupsResponse)
			resp.ErrorCode = code
			return resp
		}})
	regKind(&shKind{name: "listtransactions", key: 66, fam: "fan",
		build: func([]string) kmsg.Request { return kmsg.NewPtrListTransactionsRequest() },
		reqIt: func(kmsg.Request) []string { return nil },
		respIt: func(r kmsg.Response) (o []string) {
			for _, g := range r.(*kmsg.ListTransactionsResponse).TransactionStates {
				o = append(o, ic(g.TransactionalID, 0))
			}
			return
		},
		fail: func(r kmsg.Request, code int16) kmsg.Response {
			resp := r.ResponseKind().(*kmsg.ListTransactionsResponse)
			resp.ErrorCode = code
			return resp
		}})
}

var shKindNames = []string{"listoffsets", "deleterecords", "offsetforleaderepoch", "describeproducers", "describegroups", "deletegroups",
	"consumergroupdescribe", "sharegroupdescribe", "offsetfetch", "describetransactions", "findcoordinator", "listgroups", "listtransactions"}

func genShard(a hx.Args) {
	r := hx.NewRng(a.Seed ^ 0xC23)
	n := a.N(400, 15000)
	if a.Tier == "thorough" {
		// small scope, exhaustively: every kind x cluster size x fault kind, three item sets each
		for _, k := range shKindNames {
			for b := 1; b <= 5; b++ {
				for _, f := range []string{"none", "err", "move", "shuffle", "rehash"} {
					fam := shKinds[k].fam
					if f != "none" && (fam == "cfg" || fam == "rep") || (f == "move" || f == "shuffle") && fam != "tp" || f == "rehash" && fam != "grp" && fam != "txn" {
						continue
					}
					for j := 0; j < 3; j++ {
						hx.Emit("shard %d %s %d %s", r.U64()%100000000, k, b, f)
					}
				}
			}
		}
	}
	for i := 0; i < n; i++ {
		k := shKindNames[i%len(shKindNames)]
		kd := shKinds[k]
		brokers := 1 + r.Intn(5)
		if r.Chance(70) && brokers < 2 {
			brokers = 2 + r.Intn(4)
		}
		var fault string
		switch kd.fam {
		case "tp":
			fault = hx.Pick(r, []string{"none", "err", "err", "move", "move", "shuffle"})
		case "grp", "txn":
			fault = hx.Pick(r, []string{"none", "err", "err", "rehash", "rehash"})
		case "cfg", "rep":
			fault = "none" // these sharders never retry on response codes (onResp returns nil)
		default:
			fault = hx.Pick(r, []string{"none", "err"})
		}
		hx.Emit("shard %d %s %d %s", r.U64()%100000000, k, brokers, fault)
	}
}

func joinOr(xs []string) string {
	if len(xs) == 0 {
		return "-"
	}
	return strings.Join(xs, ",")
}

func errName(err error) string {
	if err == nil {
		return "-"
	}
	var ke *kerr.Error
	if errors.As(err, &ke) {
		return ke.Message
	}
	s := err.Error()
	switch {
	case strings.Contains(s, "unknown broker"):
		return "unknown-broker"
	case strings.Contains(s, "context"):
		return "context"
	}
	return "other"
}

func runShard(t *testing.T, tk []string) string {
	if tk[0] != "shard" || len(tk) != 5 {
		return "bad-op"
	}
	kd := shKinds[tk[2]]
	if kd == nil {
		return "bad-op"
	}
	seed := uint64(hx.Atoi(tk[1]))
	brokers, fault := int(hx.Atoi(tk[3])), tk[4]
	if brokers < 1 || brokers > 5 {
		return "bad-op"
	}
	rng := hx.NewRng(seed)
	log := &sim.Log{}
	partial := func() string { return log.String() }
	sim.Partial.Store(&partial)
	defer sim.Partial.Store(nil)
	net := &sim.Net{}
	ports := make([]int, brokers)
	base := int(9000 + (portBase.Add(1)%500)*10)
	for i := range ports {
		ports[i] = base + i
	}
	na, nb := 1+rng.Intn(6), 1+rng.Intn(3)
	cluster, err := kfake.NewCluster(kfake.NumBrokers(brokers), kfake.Ports(ports...), kfake.SeedTopics(int32(na), "a"), kfake.SeedTopics(int32(nb), "b"),
		kfake.ListenFn(net.ListenFn))
	if err != nil {
		return "ERR:cluster:" + err.Error()
	}
	defer cluster.Close()
	// generated leader placement
	nparts := map[string]int{"a": na, "b": nb}
	for _, tn := range []string{"a", "b"} {
		for p := 0; p < nparts[tn]; p++ {
			if err := cluster.MoveTopicPartition(tn, int32(p), int32(rng.Intn(brokers))); err != nil {
				return "ERR:move:" + err.Error()
			}
		}
	}
	for i := rng.Intn(3); i > 0; i-- {
		cluster.RehashCoordinators()
	}
	ctx, cancel := context.WithTimeout(context.Background(), 60*time.Second)
	defer cancel()
	common := []kgo.Opt{kgo.SeedBrokers(cluster.ListenAddrs()...), kgo.Dialer(net.Stack.DialContext),
		kgo.RetryBackoffFn(func(int) time.Duration { return 10 * time.Millisecond })}

	// ---- the requested items
	var items []string
	nit := 1 + rng.Intn(9)
	unk, dup := hx.Pick(rng, []int{0, 0, 15, 35}), hx.Pick(rng, []int{0, 0, 20, 40})
	pick := func() string {
		switch kd.fam {
		case "cfg":
			if rng.Chance(40) {
				return "T" + hx.Pick(rng, []string{"a", "b", "zz"})
			}
			if rng.Chance(unk) {
				return "B9" // no such broker
			}
			return fmt.Sprintf("B%d", rng.Intn(brokers))
		case "tp", "rep":
			if rng.Chance(unk) {
				if rng.Bool() {
					return tp("zz", int32(rng.Intn(2))) // unknown topic
				}
				tn := hx.Pick(rng, []string{"a", "b"})
				return tp(tn, int32(nparts[tn]+rng.Intn(3))) // unknown partition
			}
			tn := hx.Pick(rng, []string{"a", "a", "b"})
			return tp(tn, int32(rng.Intn(nparts[tn])))
		case "grp", "anykey":
			if rng.Chance(unk) && kd.fam == "grp" {
				return fmt.Sprintf("bad%d", rng.Intn(3)) // FindCoordinator answers GROUP_AUTHORIZATION_FAILED
			}
			return fmt.Sprintf("g%d", rng.Intn(8))
		case "txn":
			if rng.Chance(unk) {
				return fmt.Sprintf("bad%d", rng.Intn(3))
			}
			return fmt.Sprintf("x%d", rng.Intn(8))
		}
		return ""
	}
	if kd.fam == "fan" {
		for i := 0; i < brokers; i++ {
			items = append(items, fmt.Sprintf("b%d", i))
		}
	} else {
		for len(items) < nit {
			if len(items) > 0 && rng.Chance(dup) {
				items = append(items, items[rng.Intn(len(items))])
			} else {
				items = append(items, pick())
			}
		}
	}
	distinct := []string{}
	seen := map[string]bool{}
	for _, it := range items {
		if !seen[it] {
			seen[it] = true
			distinct = append(distinct, it)
		}
	}
	sort.Strings(distinct)
	badCode := kerr.GroupAuthorizationFailed
	if kd.fam == "txn" {
		badCode = kerr.TransactionalIDAuthorizationFailed
	}
	// leaderless partitions (a quarter of the topic-partition scenarios): one or two requested, existing partitions
	// are shown to the client as LEADER_NOT_AVAILABLE in every Metadata response (the brokers keep their state), so
	// that a request can hold items that fail mapping with two DIFFERENT errors (with an unknown topic / partition)
	leaderless := map[string]bool{}
	outage := &sim.LeaderOutage{}
	if kd.fam == "tp" && seed%4 == 1 {
		for _, it := range distinct {
			tn, p := tpSplit(it)
			if len(leaderless) < 2 && cluster.LeaderFor(tn, p) >= 0 && rng.Chance(50) {
				leaderless[it] = true
				outage.Set(tn, p, true)
			}
		}
		if len(leaderless) > 0 {
			hx.St.Inc("scen.shard.leaderless-partitions")
		}
	}
	destOf := func(it string) string {
		switch kd.fam {
		case "tp":
			tn, p := tpSplit(it)
			if leaderless[it] {
				return "E" + kerr.LeaderNotAvailable.Message
			}
			if n := cluster.LeaderFor(tn, p); n >= 0 {
				return strconv.Itoa(int(n))
			}
			return "E" + kerr.UnknownTopicOrPartition.Message
		case "grp", "txn":
			if strings.HasPrefix(it, "bad") {
				return "E" + badCode.Message
			}
			return strconv.Itoa(int(cluster.CoordinatorFor(it)))
		case "anykey":
			return "any"
		case "cfg":
			if it[0] == 'T' {
				return "any"
			}
			if n, _ := strconv.Atoi(it[1:]); n < brokers {
				return it[1:]
			}
			return "Eunknown-broker"
		case "rep":
			tn, p := tpSplit(it)
			l := cluster.LeaderFor(tn, p)
			if l < 0 {
				return "E" + kerr.UnknownTopicOrPartition.Message
			}
			rf := cluster.TopicInfo(tn).NumReplicas
			if rf > brokers {
				rf = brokers
			}
			var rs []string
			for i := 0; i < rf; i++ {
				rs = append(rs, strconv.Itoa((int(l)+i)%brokers))
			}
			sort.Strings(rs)
			return strings.Join(rs, "+")
		}
		return it[1:] // fan: b<i> -> i
	}
	var vmu sync.Mutex
	ver := 0
	logLayout := func() {
		var kv []string
		for _, it := range distinct {
			kv = append(kv, it+"="+destOf(it))
		}
		log.Add("L:%d:%s", ver, joinOr(kv))
	}

	// something to list for the fan-outs
	if kd.fam == "fan" {
		setup, err := kgo.NewClient(common...)
		if err != nil {
			return "ERR:client:" + err.Error()
		}
		for i := 0; i < 1+rng.Intn(5); i++ {
			if kd.name == "listgroups" {
				req := kmsg.NewPtrOffsetCommitRequest()
				req.Group = fmt.Sprintf("g%d", i)
				req.Generation = -1
				rt := kmsg.NewOffsetCommitRequestTopic()
				rt.Topic = "a"
				rt.TopicID = cluster.TopicInfo("a").TopicID
				rp := kmsg.NewOffsetCommitRequestTopicPartition()
				rp.Partition, rp.Offset, rp.LeaderEpoch = 0, 1, -1
				rt.Partitions = append(rt.Partitions, rp)
				req.Topics = append(req.Topics, rt)
				if resp, err := req.RequestWith(ctx, setup); err != nil {
					log.Add("ERRsetup")
				} else if len(resp.Topics) != 1 || len(resp.Topics[0].Partitions) != 1 || resp.Topics[0].Partitions[0].ErrorCode != 0 {
					log.Add("ERRsetup")
				}
			} else {
				req := kmsg.NewPtrInitProducerIDRequest()
				id := fmt.Sprintf("x%d", i)
				req.TransactionalID = &id
				req.TransactionTimeoutMillis = 60000
				req.ProducerID, req.ProducerEpoch = -1, -1
				if _, err := req.RequestWith(ctx, setup); err != nil {
					log.Add("ERRsetup")
				}
			}
		}
		setup.Close()
	}

	// ---- wire view and faults, all inside kfake's request loop (serialised with the layout changes)
	reqN := 0
	armed := 0 // how many of the next requests of this key get the fault
	moved := false
	code := kerr.NotLeaderForPartition.Code
	if kd.fam != "tp" {
		code = hx.Pick(rng, []int16{kerr.NotCoordinator.Code, kerr.CoordinatorLoadInProgress.Code, kerr.CoordinatorNotAvailable.Code})
	}
	frng := hx.NewRng(seed ^ 0xfa17)
	userPhase := false
	frames := 0 // request frames of the kind's API key seen by the network layer (sim.Net.OnRequest) during the two phases
	net.OnRequest = func(_ int, key int16, _ []byte, _ sim.Action) {
		if key != kd.key {
			return
		}
		vmu.Lock()
		if userPhase {
			frames++
		}
		vmu.Unlock()
	}
	if len(leaderless) > 0 {
		outage.Install(net)
	}
	cluster.ControlKey(kd.key, func(kreq kmsg.Request) (kmsg.Response, error, bool) {
		cluster.KeepControl()
		vmu.Lock()
		defer vmu.Unlock()
		if !userPhase {
			return nil, nil, false
		}
		reqN++
		n := reqN
		its := kd.reqIt(kreq)
		if kd.fam == "fan" {
			its = []string{fmt.Sprintf("b%d", cluster.CurrentNode())}
		}
		log.Add("W:%d:%d:%s:%d", n, cluster.CurrentNode(), joinOr(its), ver)
		if armed > 0 {
			armed--
			switch fault {
			case "err":
				hx.St.Inc(fmt.Sprintf("fault.inj-%d", code))
				log.Add("A:%d:inj%d", n, code)
				return kd.fail(kreq, code), nil, true
			case "move", "shuffle", "rehash":
				if !moved {
					moved = true
					switch fault {
					case "move":
						for _, it := range distinct {
							tn, p := tpSplit(it)
							if cluster.LeaderFor(tn, p) >= 0 && frng.Chance(60) {
								cluster.MoveTopicPartition(tn, p, int32(frng.Intn(brokers)))
							}
						}
					case "shuffle":
						cluster.ShufflePartitionLeaders()
					case "rehash":
						cluster.RehashCoordinators()
					}
					ver++
					logLayout()
					hx.St.Inc("fault." + fault)
				}
			}
		}
		log.Add("A:%d:ok", n)
		return nil, nil, false
	})
	// unmappable groups / transactional ids: FindCoordinator answers a non-retriable error for bad* keys
	if kd.fam == "grp" || kd.fam == "txn" {
		cluster.ControlKey(10, func(kreq kmsg.Request) (kmsg.Response, error, bool) {
			cluster.KeepControl()
			req := kreq.(*kmsg.FindCoordinatorRequest)
			keys := req.CoordinatorKeys
			if len(keys) == 0 {
				keys = []string{req.CoordinatorKey}
			}
			anyBad := false
			for _, k := range keys {
				anyBad = anyBad || strings.HasPrefix(k, "bad")
			}
			if !anyBad || req.Version < 4 {
				return nil, nil, false
			}
			resp := req.ResponseKind().(*kmsg.FindCoordinatorResponse)
			for _, k := range keys {
				sc := kmsg.NewFindCoordinatorResponseCoordinator()
				sc.Key = k
				if strings.HasPrefix(k, "bad") {
					sc.ErrorCode, sc.NodeID = badCode.Code, -1
				} else {
					sc.NodeID = cluster.CoordinatorFor(k)
					sc.Host, sc.Port = "127.0.0.1", int32(ports[sc.NodeID])
				}
				resp.Coordinators = append(resp.Coordinators, sc)
			}
			return resp, nil, true
		})
	}

	arm := func() {
		vmu.Lock()
		userPhase = true
		if fault != "none" && kd.fail != nil {
			armed = 1 + rng.Intn(2)
		}
		moved = false
		vmu.Unlock()
	}
	disarm := func() {
		vmu.Lock()
		userPhase = false
		armed = 0
		vmu.Unlock()
	}

	log.Add("K:%s B:%d F:%s D:%s", kd.name, brokers, fault, hx.B(kd.dedup))
	log.Add("R:%s", joinOr(items))
	logLayout()

	// ---- phase 1: RequestSharded
	cl, err := kgo.NewClient(common...)
	if err != nil {
		return "ERR:client:" + err.Error()
	}
	arm()
	shards := cl.RequestSharded(ctx, kd.build(items))
	disarm()
	static := ver == 0
	group := map[string][]string{}
	var sev []string
	for _, s := range shards {
		dest := strconv.Itoa(int(s.Meta.NodeID))
		if s.Err != nil && s.Resp == nil {
			dest = "E" + errName(s.Err)
		} else if kd.fam == "anykey" {
			dest = "any" // any broker, possibly a seed (negative node id)
		}
		if kd.fam == "cfg" && !strings.HasPrefix(dest, "E") {
			allT := true
			for _, it := range kd.reqIt(s.Req) {
				allT = allT && it[0] == 'T'
			}
			if allT {
				dest = "any"
			}
		}
		its := kd.reqIt(s.Req)
		if kd.fam == "fan" {
			its = []string{fmt.Sprintf("b%d", s.Meta.NodeID)}
		}
		resp := "-"
		if s.Resp != nil {
			resp = joinOr(kd.respIt(s.Resp))
		}
		sorted := append([]string(nil), its...)
		sort.Strings(sorted)
		sev = append(sev, fmt.Sprintf("S:%s:%s:%s:%s", dest, joinOr(sorted), resp, errName(s.Err)))
		group[dest] = append(group[dest], its...)
	}
	if fault == "move" || fault == "shuffle" || fault == "rehash" {
		// observation, not part of the property: a shard answered NOT_LEADER / NOT_COORDINATOR that the client returned without retrying
		stale := false
		for _, s := range shards {
			if s.Resp != nil {
				for _, x := range kd.respIt(s.Resp) {
					stale = stale || strings.HasSuffix(x, "=6") || strings.HasSuffix(x, "=16")
				}
			}
		}
		if stale {
			hx.St.Inc("scen.shard.observed.stale-leader-answer-returned-unretried." + kd.fam)
		}
	}
	sort.Strings(sev)
	for _, e := range sev {
		log.Add("%s", e)
	}
	cl.Close()
	log.Add("P")

	// ---- phase 2: Request on a fresh client, faults re-armed
	cl2, err := kgo.NewClient(common...)
	if err != nil {
		return "ERR:client:" + err.Error()
	}
	arm()
	mresp, merr := cl2.Request(ctx, kd.build(items))
	disarm()
	mit := "-"
	if mresp != nil {
		xs := kd.respIt(mresp)
		sort.Strings(xs)
		mit = joinOr(xs)
	}
	log.Add("M:%s:%s", errName(merr), mit)
	vmu.Lock()
	log.Add("N:%d", frames)
	vmu.Unlock()
	cl2.Close()
	cancel()
	synctest.Wait()
	log.Add("Q")

	g := "G:*"
	_ = static
	if kd.fam != "rep" {
		var ds []string
		for d, its := range group {
			sort.Strings(its)
			ds = append(ds, d+"="+strings.Join(its, ","))
		}
		sort.Strings(ds)
		g = "G:-"
		if len(ds) > 0 {
			g = "G:" + strings.Join(ds, ";")
		}
	}
	hx.St.Inc("scen.shard." + kd.name)
	hx.St.Inc("scen.shard.fault-" + fault)
	hx.St.Inc(fmt.Sprintf("scen.shard.brokers-%d", brokers))
	hx.St.Inc(fmt.Sprintf("scen.shard.shards-%d", min(len(shards), 6)))
	if len(distinct) < len(items) {
		hx.St.Inc("scen.shard.with-duplicates")
	}
	hasUnk := false
	for _, it := range distinct {
		if strings.HasPrefix(destOf(it), "E") {
			hasUnk = true
		}
	}
	if hasUnk {
		hx.St.Inc("scen.shard.with-unmappable(excluded-from-merged-clause)")
		if merr != nil {
			hx.St.Inc("scen.shard.unmappable.request-returned-merged-plus-first-error")
		} else {
			hx.St.Inc("scen.shard.unmappable.request-returned-no-error")
		}
	}
	if reqN > len(shards)*2 {
		hx.St.Inc("scen.shard.retried")
	}
	return g + " " + log.String()
}

// ---- further kinds: share-group offsets, config resources (broker-named resources go to that broker, others to any
// broker), replica fan-outs (log dirs: one shard per replica), transaction markers, batched AddPartitionsToTxn.

func cfgRes(it string) (kmsg.ConfigResourceType, string) {
	if it[0] == 'B' {
		return kmsg.ConfigResourceTypeBroker, it[1:]
	}
	return kmsg.ConfigResourceTypeTopic, it[1:]
}
func cfgItem(t kmsg.ConfigResourceType, name string) string {
	if t == kmsg.ConfigResourceTypeBroker {
		return "B" + name
	}
	return "T" + name
}

func init() {
	regKind(&shKind{name: "describesharegroupoffsets", key: 90, fam: "grp",
		build: func(items []string) kmsg.Request {
			req := kmsg.NewPtrDescribeShareGroupOffsetsRequest()
			for _, g := range items {
				rg := kmsg.NewDescribeShareGroupOffsetsRequestGroup()
				rg.GroupID = g
				gt := kmsg.NewDescribeShareGroupOffsetsRequestGroupTopic()
				gt.Topic = "a"
				gt.Partitions = []int32{0}
				rg.Topics = append(rg.Topics, gt)
				req.Groups = append(req.Groups, rg)
			}
			return req
		},
		reqIt: func(r kmsg.Request) (o []string) {
			for _, g := range r.(*kmsg.DescribeShareGroupOffsetsRequest).Groups {
				o = append(o, g.GroupID)
			}
			return
		},
		respIt: func(r kmsg.Response) (o []string) {
			for _, g := range r.(*kmsg.DescribeShareGroupOffsetsResponse).Groups {
				o = append(o, ic(g.GroupID, g.ErrorCode))
			}
			return
		},
		fail: func(r kmsg.Request, code int16) kmsg.Response {
			req := r.(*kmsg.DescribeShareGroupOffsetsRequest)
			resp := req.ResponseKind().(*kmsg.DescribeShareGroupOffsetsResponse)
			for _, g := range req.Groups {
				sg := kmsg.NewDescribeShareGroupOffsetsResponseGroup()
				sg.GroupID, sg.ErrorCode = g.GroupID, code
				resp.Groups = append(resp.Groups, sg)
			}
			return resp
		}})
	regKind(&shKind{name: "describeconfigs", key: 32, fam: "cfg",
		build: func(items []string) kmsg.Request {
			req := kmsg.NewPtrDescribeConfigsRequest()
			for _, it := range items {
				rr := kmsg.NewDescribeConfigsRequestResource()
				rr.ResourceType, rr.ResourceName = cfgRes(it)
				req.Resources = append(req.Resources, rr)
			}
			return req
		},
		reqIt: func(r kmsg.Request) (o []string) {
			for _, rr := range r.(*kmsg.DescribeConfigsRequest).Resources {
				o = append(o, cfgItem(rr.ResourceType, rr.ResourceName))
			}
			return
		},
		respIt: func(r kmsg.Response) (o []string) {
			for _, rr := range r.(*kmsg.DescribeConfigsResponse).Resources {
				o = append(o, ic(cfgItem(rr.ResourceType, rr.ResourceName), rr.ErrorCode))
			}
			return
		}})
	regKind(&shKind{name: "alterconfigs", key: 33, fam: "cfg",
		build: func(items []string) kmsg.Request {
			req := kmsg.NewPtrAlterConfigsRequest()
			req.ValidateOnly = true
			for _, it := range items {
				rr := kmsg.NewAlterConfigsRequestResource()
				rr.ResourceType, rr.ResourceName = cfgRes(it)
				req.Resources = append(req.Resources, rr)
			}
			return req
		},
		reqIt: func(r kmsg.Request) (o []string) {
			for _, rr := range r.(*kmsg.AlterConfigsRequest).Resources {
				o = append(o, cfgItem(rr.ResourceType, rr.ResourceName))
			}
			return
		},
		respIt: func(r kmsg.Response) (o []string) {
			for _, rr := range r.(*kmsg.AlterConfigsResponse).Resources {
				o = append(o, ic(cfgItem(rr.ResourceType, rr.ResourceName), rr.ErrorCode))
			}
			return
		}})
	regKind(&shKind{name: "incrementalalterconfigs", key: 44, fam: "cfg",
		build: func(items []string) kmsg.Request {
			req := kmsg.NewPtrIncrementalAlterConfigsRequest()
			req.ValidateOnly = true
			for _, it := range items {
				rr := kmsg.NewIncrementalAlterConfigsRequestResource()
				rr.ResourceType, rr.ResourceName = cfgRes(it)
				req.Resources = append(req.Resources, rr)
			}
			return req
		},
		reqIt: func(r kmsg.Request) (o []string) {
			for _, rr := range r.(*kmsg.IncrementalAlterConfigsRequest).Resources {
				o = append(o, cfgItem(rr.ResourceType, rr.ResourceName))
			}
			return
		},
		respIt: func(r kmsg.Response) (o []string) {
			for _, rr := range r.(*kmsg.IncrementalAlterConfigsResponse).Resources {
				o = append(o, ic(cfgItem(rr.ResourceType, rr.ResourceName), rr.ErrorCode))
			}
			return
		}})
	regKind(&shKind{name: "describelogdirs", key: 35, fam: "rep",
		build: func(items []string) kmsg.Request {
			req := kmsg.NewPtrDescribeLogDirsRequest()
			ts, ps := tpRuns(items)
			for i, t := range ts {
				rt := kmsg.NewDescribeLogDirsRequestTopic()
				rt.Topic = t
				rt.Partitions = ps[i]
				req.Topics = append(req.Topics, rt)
			}
			return req
		},
		reqIt: func(r kmsg.Request) (o []string) {
			for _, t := range r.(*kmsg.DescribeLogDirsRequest).Topics {
				for _, p := range t.Partitions {
					o = append(o, tp(t.Topic, p))
				}
			}
			return
		},
		respIt: func(r kmsg.Response) (o []string) {
			for _, d := range r.(*kmsg.DescribeLogDirsResponse).Dirs {
				for _, t := range d.Topics {
					for _, p := range t.Partitions {
						o = append(o, ic(tp(t.Topic, p.Partition), d.ErrorCode))
					}
				}
			}
			return
		}})
	regKind(&shKind{name: "alterreplicalogdirs", key: 34, fam: "rep",
		build: func(items []string) kmsg.Request {
			req := kmsg.NewPtrAlterReplicaLogDirsRequest()
			rd := kmsg.NewAlterReplicaLogDirsRequestDir()
			rd.Dir = "/mem/kfake"
			ts, ps := tpRuns(items)
			for i, t := range ts {
				rt := kmsg.NewAlterReplicaLogDirsRequestDirTopic()
				rt.Topic = t
				rt.Partitions = ps[i]
				rd.Topics = append(rd.Topics, rt)
			}
			req.Dirs = append(req.Dirs, rd)
			return req
		},
		reqIt: func(r kmsg.Request) (o []string) {
			for _, d := range r.(*kmsg.AlterReplicaLogDirsRequest).Dirs {
				for _, t := range d.Topics {
					for _, p := range t.Partitions {
						o = append(o, tp(t.Topic, p))
					}
				}
			}
			return
		},
		respIt: func(r kmsg.Response) (o []string) {
			for _, t := range r.(*kmsg.AlterReplicaLogDirsResponse).Topics {
				for _, p := range t.Partitions {
					o = append(o, ic(tp(t.Topic, p.Partition), p.ErrorCode))
				}
			}
			return
		}})
	regKind(&shKind{name: "writetxnmarkers", key: 27, fam: "tp",
		build: func(items []string) kmsg.Request {
			req := kmsg.NewPtrWriteTxnMarkersRequest()
			rm := kmsg.NewWriteTxnMarkersRequestMarker()
			rm.ProducerID, rm.ProducerEpoch, rm.Committed = 4242, 0, false
			ts, ps := tpRuns(items)
			for i, t := range ts {
				rt := kmsg.NewWriteTxnMarkersRequestMarkerTopic()
				rt.Topic = t
				rt.Partitions = ps[i]
				rm.Topics = append(rm.Topics, rt)
			}
			req.Markers = append(req.Markers, rm)
			return req
		},
		reqIt: func(r kmsg.Request) (o []string) {
			for _, m := range r.(*kmsg.WriteTxnMarkersRequest).Markers {
				for _, t := range m.Topics {
					for _, p := range t.Partitions {
						o = append(o, tp(t.Topic, p))
					}
				}
			}
			return
		},
		respIt: func(r kmsg.Response) (o []string) {
			for _, m := range r.(*kmsg.WriteTxnMarkersResponse).Markers {
				for _, t := range m.Topics {
					for _, p := range t.Partitions {
						o = append(o, ic(tp(t.Topic, p.Partition), p.ErrorCode))
					}
				}
			}
			return
		},
		fail: func(r kmsg.Request, code int16) kmsg.Response {
			req := r.(*kmsg.WriteTxnMarkersRequest)
			resp := req.ResponseKind().(*kmsg.WriteTxnMarkersResponse)
			for _, m := range req.Markers {
				sm := kmsg.NewWriteTxnMarkersResponseMarker()
				sm.ProducerID = m.ProducerID
				for _, t := range m.Topics {
					st := kmsg.NewWriteTxnMarkersResponseMarkerTopic()
					st.Topic = t.Topic
					for _, p := range t.Partitions {
						sp := kmsg.NewWriteTxnMarkersResponseMarkerTopicPartition()
						sp.Partition, sp.ErrorCode = p, code
						st.Partitions = append(st.Partitions, sp)
					}
					sm.Topics = append(sm.Topics, st)
				}
				resp.Markers = append(resp.Markers, sm)
			}
			return resp
		}})
	// AddPartitionsToTxn (batched, v4+) is not driven: kfake's handler only looks at the legacy top-level transaction of the
	// request, so a batch of several transactions gets an answer for one of them only (tried: the shards were right, the
	// responses were not usable as an oracle).
	shKindNames = append(shKindNames, "describesharegroupoffsets", "describeconfigs", "alterconfigs", "incrementalalterconfigs",
		"describelogdirs", "alterreplicalogdirs", "writetxnmarkers")
}
