// txn: transactional producer scenarios (C11 transaction end results are truthful).
// eos: GroupTransactSession consume-transform-produce pipelines (C10 exactly once).
//
// op:   txn <seed> <parts> <brokers> <ntxns> <faultpct> <timeoutms>
// impl: cfg:<parts> then events
//
//	Tb:k:ok|err            BeginTransaction for transaction k
//	P:id:k:part            a record produced inside transaction k
//	R:id:e:part:off        its promise (e = 0 or error class)
//	Ts:k:c|a               EndTransaction(TryCommit|TryAbort) about to be called
//	Te:k:c|a:ok|err        EndTransaction returned (ok = nil error)
//	F:key:nth:act          a fault decision for the nth request of an API key (1 killed before, 2 response dropped, 3 error code injected)
//	L:part:off:id          read_committed view at the end        U:part:off:id   read_uncommitted view at the end
//	Q
//
// op:   eos <seed> <balancer 0 eager|1 cooperative|2 kip848> <parts> <brokers> <members> <nrec> <faultpct>
// impl: cfg:<nrec> then events
//
//	In:id                  an input record was written
//	Ms:m / Mx:m            member m started / stopped (Close returned)
//	Bs:m:t                 member m began transaction t holding the polled input ids  Bi:m:t:id,id,...
//	Es:m:t:c|a  Ee:m:t:committed|aborted|err
//	O:off:id:part:t        read_committed view of the output topic at the end (t = the transaction that wrote it)
//	Q
package main

import (
	"context"
	"errors"
	"fmt"
	"sort"
	"strconv"
	"strings"
	"sync"
	"sync/atomic"
	"testing"
	"testing/synctest"
	"time"

	"github.com/twmb/franz-go/pkg/kerr"
	"github.com/twmb/franz-go/pkg/kfake"
	"github.com/twmb/franz-go/pkg/kgo"
	"github.com/twmb/franz-go/pkg/kmsg"
	"verifharness/hx"
	"verifharness/sim"
)

func genTxn(a hx.Args) {
	r := hx.NewRng(a.Seed)
	n := a.N(120, 2500)
	for i := 0; i < n; i++ {
		hx.Emit("txn %d %d %d %d %d %d", r.U64()%1000000, 1+r.Intn(3), 1+r.Intn(2), 2+r.Intn(7), hx.Pick(r, []int{0, 8, 15, 30}), hx.Pick(r, []int{0, 0, 0, 400}))
	}
}

func genEos(a hx.Args) {
	r := hx.NewRng(a.Seed)
	n := a.N(120, 1200)
	for i := 0; i < n; i++ {
		hx.Emit("eos %d %d %d %d %d %d %d", r.U64()%1000000, r.Intn(3), 2+r.Intn(4), 1+r.Intn(2), 2+r.Intn(3), 80+r.Intn(250), hx.Pick(r, []int{0, 5, 12}))
	}
}

func txnErrClass(err error) string {
	switch {
	case err == nil:
		return "0"
	case errors.Is(err, context.Canceled), errors.Is(err, context.DeadlineExceeded):
		return "ctx"
	case errors.Is(err, kgo.ErrAborting):
		return "abort"
	case errors.Is(err, kgo.ErrRecordTimeout):
		return "timeout"
	case errors.Is(err, kgo.ErrRecordRetries):
		return "retries"
	case errors.Is(err, kgo.ErrClientClosed):
		return "closed"
	}
	var ke *kerr.Error
	if errors.As(err, &ke) {
		return "kerr" + strconv.Itoa(int(ke.Code))
	}
	return "other"
}

// readView reads a whole topic with a fresh direct consumer until it has been idle for a while.
func readView(ctx context.Context, base []kgo.Opt, topic string, committed bool, each func(r *kgo.Record)) bool {
	opts := append([]kgo.Opt{kgo.ConsumeTopics(topic), kgo.FetchMaxWait(100 * time.Millisecond)}, base...)
	if committed {
		opts = append(opts, kgo.FetchIsolationLevel(kgo.ReadCommitted()))
	}
	co, err := kgo.NewClient(opts...)
	if err != nil {
		return false
	}
	defer co.Close()
	for idle := 0; idle < 5; {
		pctx, pc := context.WithTimeout(ctx, 400*time.Millisecond)
		fs := co.PollFetches(pctx)
		pc()
		if fs.NumRecords() == 0 {
			idle++
			continue
		}
		idle = 0
		fs.EachRecord(each)
	}
	return true
}

// eosKick is nil for the txn scenarios; for the eos scenarios it asks the scenario for a change of group membership.
func txnFaults(net *sim.Net, cluster *kfake.Cluster, log *sim.Log, seed uint64, faultpct int, on *atomic.Bool, keys []int16, eosKick func()) {
	var fmu sync.Mutex
	frng := hx.NewRng(seed ^ 0xabcdef)
	isKey := func(k int16) bool {
		for _, x := range keys {
			if x == k {
				return true
			}
		}
		return false
	}
	net.Fault = func(key int16, nth int, frame []byte) sim.Action {
		if !on.Load() || faultpct == 0 || !isKey(key) {
			return sim.Pass
		}
		fmu.Lock()
		defer fmu.Unlock()
		if frng.Intn(100) >= faultpct {
			return sim.Pass
		}
		if frng.Bool() {
			log.Add("F:%d:%d:2", key, nth)
			hx.St.Inc(fmt.Sprintf("fault.dropafter.key%d", key))
			return sim.DropAfter
		}
		log.Add("F:%d:%d:1", key, nth)
		hx.St.Inc(fmt.Sprintf("fault.killbefore.key%d", key))
		return sim.KillBefore
	}
	// injected coordinator error codes on the transactional requests that have a single top-level error
	var emu sync.Mutex
	commitSeen := map[int64]bool{} // producer id -> an EndTxn(commit) was handed to the coordinator since the id's last TxnOffsetCommit
	erng := hx.NewRng(seed ^ 0x5151)
	for _, key := range []int16{26, 25} { // EndTxn, AddOffsetsToTxn
		key := key
		cluster.ControlKey(key, func(kreq kmsg.Request) (kmsg.Response, error, bool) {
			cluster.KeepControl()
			emu.Lock()
			inject := on.Load() && faultpct > 0 && erng.Intn(100) < faultpct/2
			code := hx.Pick(erng, []int16{kerr.CoordinatorLoadInProgress.Code, kerr.NotCoordinator.Code, kerr.ConcurrentTransactions.Code})
			if er, ok := kreq.(*kmsg.EndTxnRequest); ok && eosKick != nil && er.Commit {
				// (eos scenarios) an EndTxn(commit) the coordinator refuses for good, after it accepted the TxnOffsetCommit:
				// GroupTransactSession.End then ends the transaction as an abort and the staged offsets must be dropped.
				// Only while the coordinator has not been handed a commit of this transaction yet: a refusal after the
				// commit was applied (its response lost) would be an answer no broker in that state gives.
				if !commitSeen[er.ProducerID] && erng.Chance(50) {
					code = hx.Pick(erng, []int16{kerr.UnknownServerError.Code, kerr.TransactionAbortable.Code})
				}
				if !inject {
					commitSeen[er.ProducerID] = true
				}
			}
			emu.Unlock()
			if !inject {
				return nil, nil, false
			}
			log.Add("F:%d:0:3", key)
			hx.St.Inc(fmt.Sprintf("fault.errcode.key%d", key))
			switch r := kreq.(type) {
			case *kmsg.EndTxnRequest:
				resp := r.ResponseKind().(*kmsg.EndTxnResponse)
				resp.ErrorCode = code
				return resp, nil, true
			case *kmsg.AddOffsetsToTxnRequest:
				resp := r.ResponseKind().(*kmsg.AddOffsetsToTxnResponse)
				resp.ErrorCode = code
				return resp, nil, true
			}
			return nil, nil, false
		})
	}
	hbArm := 0
	if eosKick != nil {
		cluster.ControlKey(12, func(kreq kmsg.Request) (kmsg.Response, error, bool) {
			cluster.KeepControl()
			emu.Lock()
			armed := hbArm > 0 && on.Load()
			if armed {
				hbArm = 0
			}
			emu.Unlock()
			r, ok := kreq.(*kmsg.HeartbeatRequest)
			if !armed || !ok {
				return nil, nil, false
			}
			resp := r.ResponseKind().(*kmsg.HeartbeatResponse)
			resp.ErrorCode = kerr.RebalanceInProgress.Code
			log.Add("F:12:0:3")
			hx.St.Inc("fault.eos.rebalance-between-txnoffsetcommit-and-endtxn")
			eosKick()
			return resp, nil, true
		})
	}
	// TxnOffsetCommit answered with an abortable per-partition error (nothing is staged): End must not commit
	if isKey(28) {
		cluster.ControlKey(28, func(kreq kmsg.Request) (kmsg.Response, error, bool) {
			cluster.KeepControl()
			emu.Lock()
			inject := on.Load() && faultpct > 0 && erng.Intn(100) < faultpct
			code := hx.Pick(erng, []int16{kerr.RebalanceInProgress.Code, kerr.IllegalGeneration.Code, kerr.UnknownMemberID.Code, kerr.CoordinatorLoadInProgress.Code})
			emu.Unlock()
			r, ok := kreq.(*kmsg.TxnOffsetCommitRequest)
			if ok {
				emu.Lock()
				commitSeen[r.ProducerID] = false
				// (eos scenarios, classic groups) a rebalance landing between TxnOffsetCommit and EndTxn: the heartbeat
				// End forces next is answered REBALANCE_IN_PROGRESS and the group's membership changes, so the commit whose
				// offsets the coordinator has just staged ends as an abort while partitions of it move to other members
				if eosKick != nil && !inject && on.Load() && faultpct > 0 && erng.Intn(100) < 2*faultpct {
					hbArm = 1
				}
				emu.Unlock()
			}
			if !inject || !ok {
				return nil, nil, false
			}
			log.Add("F:28:0:3")
			hx.St.Inc(fmt.Sprintf("fault.errcode.key28.code%d", code))
			resp := r.ResponseKind().(*kmsg.TxnOffsetCommitResponse)
			for _, rt := range r.Topics {
				st := kmsg.NewTxnOffsetCommitResponseTopic()
				st.Topic = rt.Topic
				for _, rp := range rt.Partitions {
					sp := kmsg.NewTxnOffsetCommitResponseTopicPartition()
					sp.Partition, sp.ErrorCode = rp.Partition, code
					st.Partitions = append(st.Partitions, sp)
				}
				resp.Topics = append(resp.Topics, st)
			}
			return resp, nil, true
		})
	}
}

func runTxn(t *testing.T, tk []string) string {
	if tk[0] != "txn" || len(tk) != 7 {
		return "bad-op"
	}
	seed := uint64(hx.Atoi(tk[1]))
	parts, brokers, ntxns, faultpct, timeoutms := int(hx.Atoi(tk[2])), int(hx.Atoi(tk[3])), int(hx.Atoi(tk[4])), int(hx.Atoi(tk[5])), int(hx.Atoi(tk[6]))
	log := &sim.Log{}
	partial := func() string { return log.String() }
	sim.Partial.Store(&partial)
	defer sim.Partial.Store(nil)
	net := &sim.Net{}
	ports := make([]int, brokers)
	base := int(9000 + (portBase.Add(1)%500)*10)
	for i := range ports {
		ports[i] = base + i
	}
	cluster, err := kfake.NewCluster(kfake.NumBrokers(brokers), kfake.Ports(ports...), kfake.SeedTopics(int32(parts), "t"),
		kfake.ListenFn(net.ListenFn))
	if err != nil {
		return "ERR:cluster:" + err.Error()
	}
	defer cluster.Close()
	var faultsOn atomic.Bool
	faultsOn.Store(true)
	txnFaults(net, cluster, log, seed, faultpct, &faultsOn, []int16{0, 22, 24, 25, 26, 28}, nil)
	var initDown atomic.Bool
	cluster.ControlKey(22, func(kreq kmsg.Request) (kmsg.Response, error, bool) {
		cluster.KeepControl()
		if !initDown.Load() {
			return nil, nil, false
		}
		resp := kreq.ResponseKind().(*kmsg.InitProducerIDResponse)
		resp.ErrorCode = kerr.CoordinatorLoadInProgress.Code
		resp.ProducerID, resp.ProducerEpoch = -1, -1
		return resp, nil, true
	})
	ctx, cancel := context.WithCancel(context.Background())
	defer cancel()
	common := []kgo.Opt{kgo.SeedBrokers(cluster.ListenAddrs()...), kgo.Dialer(net.Stack.DialContext),
		kgo.RetryBackoffFn(func(int) time.Duration { return 10 * time.Millisecond })}
	txTimeout := 30 * time.Second
	if timeoutms > 0 {
		txTimeout = time.Duration(timeoutms) * time.Millisecond
	}
	wr := hx.NewRng(seed*17 + 5)
	newClient := func() (*kgo.Client, error) {
		return kgo.NewClient(append([]kgo.Opt{kgo.TransactionalID("tx-" + strconv.FormatUint(seed, 10)), kgo.TransactionTimeout(txTimeout),
			kgo.RecordPartitioner(kgo.ManualPartitioner()), kgo.ProducerLinger(0), kgo.RequestRetries(6),
			kgo.RecordDeliveryTimeout(4 * time.Second), kgo.ProduceRequestTimeout(500 * time.Millisecond)}, common...)...)
	}
	cl, err := newClient()
	if err != nil {
		return "ERR:client:" + err.Error()
	}
	var nextID atomic.Int64
	for k := 1; k <= ntxns; k++ {
		if err := cl.BeginTransaction(); err != nil {
			log.Add("Tb:%d:err", k)
			// a fatal producer state: start over with a new client (a restart), as an application would
			cl.Close()
			if cl, err = newClient(); err != nil {
				log.Add("ERRclient")
				break
			}
			continue
		}
		log.Add("Tb:%d:ok", k)
		var done sync.WaitGroup
		n := 1 + wr.Intn(6)
		for i := 0; i < n; i++ {
			id := nextID.Add(1)
			part := int32(wr.Intn(parts))
			done.Add(1)
			log.Add("P:%d:%d:%d", id, k, part)
			cl.Produce(ctx, &kgo.Record{Topic: "t", Partition: part, Key: []byte(strconv.FormatInt(id, 10))}, func(r *kgo.Record, err error) {
				log.Add("R:%d:%s:%d:%d", id, txnErrClass(err), r.Partition, r.Offset)
				done.Done()
			})
			if wr.Chance(25) {
				time.Sleep(time.Duration(wr.Intn(20)) * time.Millisecond)
			}
		}
		if timeoutms > 0 && wr.Chance(30) {
			time.Sleep(time.Duration(timeoutms+100) * time.Millisecond) // let the coordinator time the transaction out
			hx.St.Inc("scen.txn.timeout-sleep")
		}
		commit := wr.Chance(65)
		c := "a"
		if commit {
			c = "c"
		}
		fctx, fc := context.WithTimeout(ctx, 10*time.Second)
		ferr := cl.Flush(fctx)
		fc()
		done.Wait()
		_ = ferr
		log.Add("Ts:%d:%s", k, c)
		ectx, ec := context.WithTimeout(ctx, 15*time.Second)
		err := cl.EndTransaction(ectx, kgo.TransactionEndTry(commit))
		ec()
		if err != nil {
			log.Add("Te:%d:%s:err", k, c)
			hx.St.Inc("scen.txn.end-error")
			// the application's documented reaction to a failed End (OperationNotAttempted, TransactionAbortable, an
			// unconfirmed outcome): retry with TryAbort -- in half of the retries while the transaction coordinator is
			// still unavailable (InitProducerID answered COORDINATOR_LOAD_IN_PROGRESS until the retry has returned).
			// What End reported for transaction k stays the error; the retry (Tr) only moves the client on.
			if wr.Chance(60) {
				down := wr.Bool()
				if down {
					initDown.Store(true)
					hx.St.Inc("scen.txn.abort-retry-during-coordinator-outage")
				}
				rctx, rc := context.WithTimeout(ctx, 15*time.Second)
				rerr := cl.EndTransaction(rctx, kgo.TryAbort)
				rc()
				initDown.Store(false)
				log.Add("Tr:%d:%s", k, map[bool]string{true: "ok", false: "err"}[rerr == nil])
				hx.St.Inc("scen.txn.abort-retry")
			}
		} else {
			log.Add("Te:%d:%s:ok", k, c)
		}
	}
	faultsOn.Store(false)
	cl.Close()
	// let any transaction left open time out or be fenced: re-initialise the id and abort nothing
	if fin, err := newClient(); err == nil {
		if fin.BeginTransaction() == nil {
			ectx, ec := context.WithTimeout(ctx, 10*time.Second)
			fin.EndTransaction(ectx, kgo.TryAbort)
			ec()
		}
		fin.Close()
	}
	time.Sleep(2 * time.Second)
	var lmu sync.Mutex
	type ent struct {
		p   int32
		off int64
		id  string
	}
	var lv, uv []ent
	ok1 := readView(ctx, common, "t", true, func(r *kgo.Record) {
		lmu.Lock()
		lv = append(lv, ent{r.Partition, r.Offset, string(r.Key)})
		lmu.Unlock()
	})
	ok2 := readView(ctx, common, "t", false, func(r *kgo.Record) {
		lmu.Lock()
		uv = append(uv, ent{r.Partition, r.Offset, string(r.Key)})
		lmu.Unlock()
	})
	if !ok1 || !ok2 {
		log.Add("ERRreadback")
	}
	srt := func(v []ent) {
		sort.Slice(v, func(i, j int) bool {
			if v[i].p != v[j].p {
				return v[i].p < v[j].p
			}
			return v[i].off < v[j].off
		})
	}
	srt(lv)
	srt(uv)
	for _, e := range lv {
		log.Add("L:%d:%d:%s", e.p, e.off, e.id)
	}
	for _, e := range uv {
		log.Add("U:%d:%d:%s", e.p, e.off, e.id)
	}
	cancel()
	synctest.Wait()
	log.Add("Q")
	hx.St.Inc("scen.txn")
	return fmt.Sprintf("cfg:%d ", parts) + log.String()
}

func runEos(t *testing.T, tk []string) string {
	if tk[0] != "eos" || len(tk) != 8 {
		return "bad-op"
	}
	seed := uint64(hx.Atoi(tk[1]))
	bal, parts, brokers, members, nrec, faultpct := int(hx.Atoi(tk[2])), int(hx.Atoi(tk[3])), int(hx.Atoi(tk[4])), int(hx.Atoi(tk[5])), int(hx.Atoi(tk[6])), int(hx.Atoi(tk[7]))
	log := &sim.Log{}
	partial := func() string { return log.String() }
	sim.Partial.Store(&partial)
	defer sim.Partial.Store(nil)
	net := &sim.Net{}
	ports := make([]int, brokers)
	base := int(9000 + (portBase.Add(1)%500)*10)
	for i := range ports {
		ports[i] = base + i
	}
	cluster, err := kfake.NewCluster(kfake.NumBrokers(brokers), kfake.Ports(ports...), kfake.SeedTopics(int32(parts), "in", "out"),
		kfake.ListenFn(net.ListenFn))
	if err != nil {
		return "ERR:cluster:" + err.Error()
	}
	defer cluster.Close()
	var faultsOn atomic.Bool
	faultsOn.Store(true)
	kick := make(chan struct{}, 1)
	txnFaults(net, cluster, log, seed, faultpct, &faultsOn, []int16{0, 26, 28}, func() {
		select {
		case kick <- struct{}{}:
		default:
		}
	})
	ctx, cancel := context.WithCancel(context.Background())
	defer cancel()
	common := []kgo.Opt{kgo.SeedBrokers(cluster.ListenAddrs()...), kgo.Dialer(net.Stack.DialContext),
		kgo.RetryBackoffFn(func(int) time.Duration { return 10 * time.Millisecond })}
	// input
	pr, err := kgo.NewClient(append([]kgo.Opt{kgo.DefaultProduceTopic("in")}, common...)...)
	if err != nil {
		return "ERR:client:" + err.Error()
	}
	for i := 1; i <= nrec; i++ {
		if err := pr.ProduceSync(ctx, &kgo.Record{Key: []byte(strconv.Itoa(i))}).FirstErr(); err != nil {
			log.Add("ERRinput")
		} else {
			log.Add("In:%d", i)
		}
	}
	pr.Close()
	gctx := ctx
	var balancer kgo.GroupBalancer = kgo.RangeBalancer()
	if bal >= 1 {
		balancer = kgo.CooperativeStickyBalancer()
	}
	if bal == 2 {
		gctx = context.WithValue(ctx, "opt_in_kafka_next_gen_balancer_beta", true) //nolint
	}
	var committedN atomic.Int64
	var nextM, nextT atomic.Int64
	member := func(wr *hx.Rng, stop <-chan struct{}, wg *sync.WaitGroup) {
		defer wg.Done()
		m := nextM.Add(1)
		sess, err := kgo.NewGroupTransactSession(append([]kgo.Opt{kgo.WithContext(gctx),
			kgo.TransactionalID(fmt.Sprintf("etl-%d-%d", seed, m)), kgo.TransactionTimeout(20 * time.Second),
			kgo.ConsumerGroup("g"), kgo.ConsumeTopics("in"), kgo.Balancers(balancer), kgo.FetchIsolationLevel(kgo.ReadCommitted()),
			kgo.FetchMaxWait(100 * time.Millisecond), kgo.SessionTimeout(8 * time.Second), kgo.HeartbeatInterval(300 * time.Millisecond),
			kgo.RebalanceTimeout(5 * time.Second), kgo.RequireStableFetchOffsets(), kgo.ConsumeResetOffset(kgo.NewOffset().AtStart()),
			kgo.RequestRetries(8), kgo.ProduceRequestTimeout(500 * time.Millisecond)}, common...)...)
		if err != nil {
			log.Add("ERRclient")
			return
		}
		log.Add("Ms:%d", m)
		defer func() { sess.Close(); log.Add("Mx:%d", m) }()
		abortedBefore := false
		for {
			select {
			case <-stop:
				return
			default:
			}
			pctx, pc := context.WithTimeout(ctx, 250*time.Millisecond)
			fs := sess.PollRecords(pctx, 1+wr.Intn(9))
			pc()
			if fs.NumRecords() == 0 {
				continue
			}
			tno := nextT.Add(1)
			if err := sess.Begin(); err != nil {
				log.Add("Bs:%d:%d:err", m, tno)
				return
			}
			var ids []string
			fs.EachRecord(func(r *kgo.Record) {
				ids = append(ids, string(r.Key))
				sess.Produce(ctx, &kgo.Record{Topic: "out", Key: r.Key, Value: []byte(strconv.FormatInt(tno, 10))}, nil)
			})
			log.Add("Bi:%d:%d:%s", m, tno, strings.Join(ids, ","))
			if seed%3 != 0 {
				// a slow pipeline (two thirds of the scenarios): the input lasts as long as the churn does, so that members
				// join, leave and restart while transactions are in progress instead of after the input has run dry
				time.Sleep(time.Duration(100+wr.Intn(400)) * time.Millisecond)
			} else if wr.Chance(40) {
				time.Sleep(time.Duration(wr.Intn(80)) * time.Millisecond)
			}
			want := kgo.TryCommit
			c := "c"
			if wr.Chance(10) {
				want, c = kgo.TryAbort, "a"
			}
			log.Add("Es:%d:%d:%s", m, tno, c)
			ectx, ec := context.WithTimeout(ctx, 20*time.Second)
			committed, err := sess.End(ectx, want)
			ec()
			switch {
			case err != nil:
				log.Add("Ee:%d:%d:err", m, tno)
				hx.St.Inc("scen.eos.end-error")
			case committed:
				log.Add("Ee:%d:%d:committed", m, tno)
				committedN.Add(int64(len(ids)))
				if abortedBefore {
					// … and once more right behind the member's next successful commit: everybody fetches the group's
					// committed offsets again (all of them under an eager balancer)
					abortedBefore = false
					select {
					case kick <- struct{}{}:
					default:
					}
				}
			default:
				log.Add("Ee:%d:%d:aborted", m, tno)
				if c == "c" {
					abortedBefore = true
					// a commit that ended as an abort (revoked meanwhile, EndTxn refused, …): in a share of the scenarios
					// the group changes right behind it, so that partitions of the aborted commit move to another member
					select {
					case kick <- struct{}{}:
					default:
					}
				}
			}
		}
	}
	var wg sync.WaitGroup
	stops := map[int]chan struct{}{}
	rng := hx.NewRng(seed)
	start := func(i int) {
		stops[i] = make(chan struct{})
		wg.Add(1)
		go member(hx.NewRng(seed*41+uint64(i)), stops[i], &wg)
	}
	// churn: members come and go while the input is being processed
	slot := 0
	for ; slot < members; slot++ {
		start(slot)
		time.Sleep(time.Duration(200+rng.Intn(1500)) * time.Millisecond)
	}
	oldest := func() int {
		o := -1
		for i := range stops {
			if o < 0 || i < o {
				o = i
			}
		}
		return o
	}
	kicks := 0
	if seed%2 == 0 {
		kicks = 6
	}
	for c := 0; c < 2+rng.Intn(3); c++ {
		select {
		case <-time.After(time.Duration(500+rng.Intn(2500)) * time.Millisecond):
		case <-kick:
			if kicks == 0 {
				time.Sleep(time.Duration(500+rng.Intn(1000)) * time.Millisecond)
			} else {
				kicks--
				c-- // an extra change of membership, right behind a commit that ended as an abort
				hx.St.Inc("scen.eos.membership-change-behind-aborted-commit")
			}
		}
		// stop one (the oldest), start another
		if i := oldest(); len(stops) > 1 {
			close(stops[i])
			delete(stops, i)
		}
		time.Sleep(time.Duration(rng.Intn(1500)) * time.Millisecond)
		start(slot)
		slot++
	}
	for i := 0; i < 400 && committedN.Load() < int64(nrec); i++ {
		time.Sleep(250 * time.Millisecond)
	}
	faultsOn.Store(false)
	for i := 0; i < 200 && committedN.Load() < int64(nrec); i++ {
		time.Sleep(250 * time.Millisecond)
	}
	for i, ch := range stops {
		close(ch)
		delete(stops, i)
	}
	wg.Wait()
	// a member whose End failed (or that was stopped inside a transaction) leaves its transaction open at the
	// coordinator until the transaction timeout (20 s) aborts it; until then the last stable offset of the output
	// topic is pinned and the read_committed view below would end early
	time.Sleep(25 * time.Second)
	if committedN.Load() < int64(nrec) {
		log.Add("ERRunfinished")
	}
	// a fresh member after everybody has left: it resumes from the group's committed offsets. Every input record was
	// committed together with its offset, so there is nothing left for it; whatever it is handed again (a committed
	// offset that moved backwards) it transforms again, and the view below shows the duplicate
	{
		fstop := make(chan struct{})
		wg.Add(1)
		go member(hx.NewRng(seed*43+7), fstop, &wg)
		time.Sleep(6 * time.Second)
		close(fstop)
		wg.Wait()
		time.Sleep(time.Second)
	}
	type ent struct {
		off  int64
		id   string
		part int32
		t    string
	}
	var out []ent
	var omu sync.Mutex
	if !readView(ctx, common, "out", true, func(r *kgo.Record) {
		omu.Lock()
		out = append(out, ent{r.Offset, string(r.Key), r.Partition, string(r.Value)})
		omu.Unlock()
	}) {
		log.Add("ERRreadback")
	}
	sort.Slice(out, func(i, j int) bool {
		if out[i].part != out[j].part {
			return out[i].part < out[j].part
		}
		return out[i].off < out[j].off
	})
	for _, e := range out {
		log.Add("O:%d:%s:%d:%s", e.off, e.id, e.part, e.t)
	}
	cancel()
	synctest.Wait()
	log.Add("Q")
	hx.St.Inc("scen.eos")
	hx.St.Inc(fmt.Sprintf("scen.eos.balancer%d", bal))
	return fmt.Sprintf("cfg:%d ", nrec) + log.String()
}
