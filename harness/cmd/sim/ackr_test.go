// ackr: C12 pure half inside the scenario binary (one harness per property): the share-group acknowledgement
// range builder, the staleness filter and the per-record ack state CAS of this tree's kgo, through
// pkg/kgo/verif_export_c12.go. Every op line starts with the kind token `ackr`.
//
//	ops (entry token  off,status,src,epoch,id    range token  first,last,src,epoch,type):
//	  ackr build <entry>* / <gap>*               -> <range>* r<hasRenew>
//	  ackr coal  <range>* / <range>              -> <range>*            ("-" when empty)
//	  ackr stale <self> <epoch> <entry>* / <gap>* [; <entry>* / <gap>*]...
//	                                             -> nUser nStale ; <entry>* / <gap>* / err [; ...]
//	  ackr try  <init> <status,strict|reset>*    -> <0|1>* =<final>       sequential calls on one state
//	  ackr race <init> <status,strict|reset>*    -> <0|1>* =<final>       one goroutine per call, released together
package main

import (
	"fmt"
	"strconv"
	"strings"
	"testing"

	"github.com/twmb/franz-go/pkg/kgo"
	"verifharness/hx"
)

type ackrEntry = kgo.VerifAckEntry
type ackrRng = kgo.VerifAckRange

func ackrFmtEntries(es []ackrEntry) string {
	var sb []string
	for _, e := range es {
		sb = append(sb, fmt.Sprintf("%d,%d,%d,%d,%d", e.Offset, e.Status, e.Source, e.Epoch, e.ID))
	}
	return strings.Join(sb, " ")
}

func ackrFmtRanges(rs []ackrRng) string {
	var sb []string
	for _, r := range rs {
		sb = append(sb, fmt.Sprintf("%d,%d,%d,%d,%d", r.First, r.Last, r.Source, r.Epoch, r.Type))
	}
	return strings.Join(sb, " ")
}

func ackrInts(tok string, n int) []int64 {
	parts := strings.Split(tok, ",")
	if len(parts) != n {
		panic("bad token " + tok)
	}
	out := make([]int64, n)
	for i, p := range parts {
		out[i] = hx.Atoi(p)
	}
	return out
}

func ackrParseEntries(toks []string) []ackrEntry {
	var es []ackrEntry
	for _, t := range toks {
		v := ackrInts(t, 5)
		es = append(es, ackrEntry{Offset: v[0], Status: int32(v[1]), Source: int(v[2]), Epoch: int32(v[3]), ID: int(v[4])})
	}
	return es
}

func ackrParseRanges(toks []string) []ackrRng {
	var rs []ackrRng
	for _, t := range toks {
		v := ackrInts(t, 5)
		rs = append(rs, ackrRng{First: v[0], Last: v[1], Source: int(v[2]), Epoch: int32(v[3]), Type: int8(v[4])})
	}
	return rs
}

func ackrSplitAt(toks []string, sep string) [][]string {
	out := [][]string{nil}
	for _, t := range toks {
		if t == sep {
			out = append(out, nil)
			continue
		}
		out[len(out)-1] = append(out[len(out)-1], t)
	}
	return out
}

// ---------------------------------------------------------------- generator

type ackrGen struct {
	r      *hx.Rng
	nextID int
}

func (g *ackrGen) id() int { g.nextID++; return g.nextID }

// ackrEmitBuild prints one build op. Entries with the same id carry the same values.
func ackrEmitBuild(es []ackrEntry, gaps []ackrRng) {
	hx.Emit("ackr build %s / %s", ackrFmtEntries(es), ackrFmtRanges(gaps))
}

func (g *ackrGen) shuffleE(es []ackrEntry) {
	for i := len(es) - 1; i > 0; i-- {
		j := g.r.Intn(i + 1)
		es[i], es[j] = es[j], es[i]
	}
}
func (g *ackrGen) shuffleR(rs []ackrRng) {
	for i := len(rs) - 1; i > 0; i-- {
		j := g.r.Intn(i + 1)
		rs[i], rs[j] = rs[j], rs[i]
	}
}

// structured: what the client produces. A partition's offset line is cut into acquired blocks; each block is
// either delivered records (user entries, acked with a mix of statuses, some renew-then-terminal duplicates,
// some still pending = status 0) or a hole (gap range type 0, or release 2 after a decode error).
func (g *ackrGen) structured(maxBlocks int) ([]ackrEntry, []ackrRng) {
	r := g.r
	var es []ackrEntry
	var gaps []ackrRng
	off := r.Range(0, 50)
	if r.Chance(10) {
		off = r.Range(1<<40, 1<<41)
	}
	src, epoch := 0, int32(r.Range(1, 5))
	nb := 1 + r.Intn(maxBlocks)
	for b := 0; b < nb; b++ {
		if r.Chance(15) { // unacquired stretch
			off += r.Range(1, 5)
		}
		if r.Chance(12) { // another fetch: other epoch, sometimes other source
			epoch += int32(r.Range(0, 2))
			if r.Chance(25) {
				src = r.Intn(3)
			}
		}
		n := r.Range(1, 6)
		if r.Chance(35) { // hole
			t := int8(0)
			if r.Chance(30) {
				t = 2
			}
			if r.Chance(3) {
				n = r.Range(1, 1<<33)
			}
			gaps = append(gaps, ackrRng{First: off, Last: off + n - 1, Source: src, Epoch: epoch, Type: t})
			off += n
			continue
		}
		// delivered records
		runStatus := int32(r.Range(1, 3))
		for i := int64(0); i < n; i++ {
			st := runStatus
			if r.Chance(30) {
				st = int32(r.Range(1, 4))
			}
			if r.Chance(8) {
				st = 0
			}
			e := ackrEntry{ID: g.id(), Offset: off + i, Status: st, Source: src, Epoch: epoch}
			es = append(es, e)
			if r.Chance(15) { // renew then terminal: the same state appended twice
				es = append(es, e)
			}
		}
		off += n
	}
	// gap ranges queued more than once: a gap acknowledgement requeued after a retriable error and the gap of a
	// re-acquisition of the same offsets (same range, later epoch), or an overlapping hole of the same type
	if len(gaps) > 0 && r.Chance(25) {
		for k := 1 + r.Intn(2); k > 0; k-- {
			d := gaps[r.Intn(len(gaps))]
			d.Epoch += int32(r.Range(0, 2))
			switch r.Intn(3) {
			case 0: // the same range again
			case 1: // a longer range from the same start (may run into a following hole of another type: then compared, not judged)
				d.Last += r.Range(1, 3)
			default: // a sub-range
				d.First += r.Range(0, d.Last-d.First)
			}
			gaps = append(gaps, d)
		}
	}
	// arrival order: entries in ack-call order (shuffled with probability), gaps in response order
	switch r.Intn(4) {
	case 0:
	case 1:
		g.shuffleE(es)
	case 2: // reverse
		for i, j := 0, len(es)-1; i < j; i, j = i+1, j-1 {
			es[i], es[j] = es[j], es[i]
		}
	default:
		g.shuffleE(es)
		g.shuffleR(gaps)
	}
	return es, gaps
}

// malformed: overlapping gaps, gaps over entries, inverted ranges, negative offsets, two states at one offset
// with different statuses (redelivery), odd statuses.
func (g *ackrGen) malformed() ([]ackrEntry, []ackrRng) {
	r := g.r
	var es []ackrEntry
	var gaps []ackrRng
	ne, ng := r.Intn(6), r.Intn(4)
	for i := 0; i < ne; i++ {
		e := ackrEntry{ID: g.id(), Offset: r.Range(-2, 8), Status: int32(r.Range(0, 6)), Source: r.Intn(2), Epoch: int32(r.Range(0, 2))}
		es = append(es, e)
		if r.Chance(20) {
			es = append(es, e)
		}
	}
	for i := 0; i < ng; i++ {
		f := r.Range(-2, 8)
		l := f + r.Range(-1, 4)
		gaps = append(gaps, ackrRng{First: f, Last: l, Source: r.Intn(2), Epoch: int32(r.Range(0, 2)), Type: int8(r.Range(0, 4))})
	}
	return es, gaps
}

func (g *ackrGen) genBuild(a hx.Args) {
	for i := 0; i < a.N(6000, 120000); i++ {
		k := g.r.Intn(100)
		switch {
		case k < 80:
			es, gaps := g.structured(6)
			ackrEmitBuild(es, gaps)
		case k < 88: // long inputs: slices.SortFunc leaves insertion sort above 12 elements
			es, gaps := g.structured(30)
			ackrEmitBuild(es, gaps)
		default:
			es, gaps := g.malformed()
			ackrEmitBuild(es, gaps)
		}
	}
}

// exhaustive small scope (thorough): up to two entries over offsets 0..3 with statuses {0,1,2,4} (plus three
// entries with statuses {1,2}), up to two gaps among the intervals of 0..3 with types {0,2}; one source and epoch.
func ackrGenExhaustive() {
	var entrySets [][]ackrEntry
	var pool []ackrEntry
	for off := int64(0); off < 4; off++ {
		for _, st := range []int32{0, 1, 2, 4} {
			pool = append(pool, ackrEntry{Offset: off, Status: st, Epoch: 1})
		}
	}
	entrySets = append(entrySets, nil)
	for _, a := range pool {
		entrySets = append(entrySets, []ackrEntry{a})
		for _, b := range pool {
			if a.Offset == b.Offset && a.Status != b.Status {
				continue // same record: one state, one status
			}
			entrySets = append(entrySets, []ackrEntry{a, b})
		}
	}
	var pool2 []ackrEntry
	for off := int64(0); off < 4; off++ {
		for _, st := range []int32{1, 2} {
			pool2 = append(pool2, ackrEntry{Offset: off, Status: st, Epoch: 1})
		}
	}
	for _, a := range pool2 {
		for _, b := range pool2 {
			for _, c := range pool2 {
				if (a.Offset == b.Offset && a.Status != b.Status) || (a.Offset == c.Offset && a.Status != c.Status) || (b.Offset == c.Offset && b.Status != c.Status) {
					continue
				}
				entrySets = append(entrySets, []ackrEntry{a, b, c})
			}
		}
	}
	var gpool []ackrRng
	for f := int64(0); f < 4; f++ {
		for l := f; l < 4; l++ {
			for _, t := range []int8{0, 2} {
				gpool = append(gpool, ackrRng{First: f, Last: l, Epoch: 1, Type: t})
			}
		}
	}
	gapSets := [][]ackrRng{nil}
	for _, a := range gpool {
		gapSets = append(gapSets, []ackrRng{a})
		for _, b := range gpool {
			gapSets = append(gapSets, []ackrRng{a, b})
		}
	}
	for _, es := range entrySets {
		// ids: equal (offset,status) pairs are the same state
		ids := map[[2]int64]int{}
		es2 := make([]ackrEntry, len(es))
		for i, e := range es {
			k := [2]int64{e.Offset, int64(e.Status)}
			if _, ok := ids[k]; !ok {
				ids[k] = len(ids) + 1
			}
			e.ID = ids[k]
			es2[i] = e
		}
		for _, gs := range gapSets {
			ackrEmitBuild(es2, gs)
		}
	}
}

func (g *ackrGen) genCoal(a hx.Args) {
	r := g.r
	for i := 0; i < a.N(1500, 30000); i++ {
		var out []ackrRng
		off := r.Range(0, 20)
		for j := r.Intn(4); j > 0; j-- {
			n := r.Range(1, 4)
			out = append(out, ackrRng{First: off, Last: off + n - 1, Source: r.Intn(2), Epoch: int32(r.Range(1, 2)), Type: int8(r.Range(0, 4))})
			off += n + r.Range(0, 1)
		}
		nr := ackrRng{First: off, Last: off + r.Range(0, 3), Source: r.Intn(2), Epoch: int32(r.Range(1, 2)), Type: int8(r.Range(0, 4))}
		if len(out) > 0 && r.Chance(60) { // mergeable except for at most one attribute
			last := out[len(out)-1]
			nr = ackrRng{First: last.Last + 1, Last: last.Last + 1 + r.Range(0, 3), Source: last.Source, Epoch: last.Epoch, Type: last.Type}
			switch r.Intn(6) {
			case 0:
				nr.Type = int8(r.Range(0, 4))
			case 1:
				nr.Source = 1 - nr.Source
			case 2:
				nr.Epoch++
			case 3:
				nr.First += r.Range(-2, 2)
				if nr.Last < nr.First {
					nr.Last = nr.First
				}
			}
		}
		hx.Emit("ackr coal %s / %s", ackrFmtRanges(out), ackrFmtRanges([]ackrRng{nr}))
	}
}

func (g *ackrGen) genStale(a hx.Args) {
	r := g.r
	for i := 0; i < a.N(1500, 30000); i++ {
		self, epoch := r.Intn(3), int32(r.Range(0, 4))
		nd := 1 + r.Intn(3)
		var parts []string
		for d := 0; d < nd; d++ {
			var es []ackrEntry
			var gaps []ackrRng
			off := r.Range(0, 30)
			for j := r.Intn(6); j > 0; j-- {
				src, ep := self, int32(r.Range(0, int64(epoch)))
				switch r.Intn(10) {
				case 0:
					src = (self + 1) % 3
				case 1:
					ep = epoch + int32(r.Range(1, 2))
				case 2:
					src, ep = (self+2)%3, epoch+1
				}
				es = append(es, ackrEntry{ID: g.id(), Offset: off, Status: int32(r.Range(0, 4)), Source: src, Epoch: ep})
				off += r.Range(1, 3)
			}
			for j := r.Intn(3); j > 0; j-- {
				src, ep := self, int32(r.Range(0, int64(epoch)))
				switch r.Intn(8) {
				case 0:
					src = (self + 1) % 3
				case 1:
					ep = epoch + 1
				}
				n := r.Range(1, 3)
				gaps = append(gaps, ackrRng{First: off, Last: off + n - 1, Source: src, Epoch: ep, Type: int8(r.Intn(3))})
				off += n
			}
			parts = append(parts, ackrFmtEntries(es)+" / "+ackrFmtRanges(gaps))
		}
		hx.Emit("ackr stale %d %d %s", self, epoch, strings.Join(parts, " ; "))
	}
}

func ackrFmtTryOps(ops []kgo.VerifTryAckOp) string {
	var sb []string
	for _, o := range ops {
		if o.Reset {
			sb = append(sb, "reset")
		} else {
			sb = append(sb, fmt.Sprintf("%d,%s", o.Status, hx.B(o.Strict)))
		}
	}
	return strings.Join(sb, " ")
}

func (g *ackrGen) tryOps(n int) []kgo.VerifTryAckOp {
	r := g.r
	var ops []kgo.VerifTryAckOp
	for j := 0; j < n; j++ {
		switch {
		case r.Chance(12):
			ops = append(ops, kgo.VerifTryAckOp{Reset: true})
		default:
			st := int8(r.Range(1, 4))
			if r.Chance(35) {
				st = 4
			}
			ops = append(ops, kgo.VerifTryAckOp{Status: st, Strict: r.Chance(25)})
		}
	}
	return ops
}

func (g *ackrGen) genTry(a hx.Args) {
	r := g.r
	// exhaustive: every sequence of up to 3 calls from every initial status 0..4
	var alpha []kgo.VerifTryAckOp
	for st := int8(1); st <= 4; st++ {
		alpha = append(alpha, kgo.VerifTryAckOp{Status: st}, kgo.VerifTryAckOp{Status: st, Strict: true})
	}
	alpha = append(alpha, kgo.VerifTryAckOp{Reset: true})
	for init := 0; init <= 4; init++ {
		for _, x := range alpha {
			hx.Emit("ackr try %d %s", init, ackrFmtTryOps([]kgo.VerifTryAckOp{x}))
			for _, y := range alpha {
				hx.Emit("ackr try %d %s", init, ackrFmtTryOps([]kgo.VerifTryAckOp{x, y}))
				if a.Tier == "thorough" {
					for _, z := range alpha {
						hx.Emit("ackr try %d %s", init, ackrFmtTryOps([]kgo.VerifTryAckOp{x, y, z}))
					}
				}
			}
		}
	}
	for i := 0; i < a.N(800, 20000); i++ {
		init := 0
		if r.Chance(20) {
			init = r.Intn(5)
		}
		hx.Emit("ackr try %d %s", init, ackrFmtTryOps(g.tryOps(2+r.Intn(7))))
	}
	for i := 0; i < a.N(1500, 40000); i++ {
		init := 0
		if r.Chance(20) {
			init = 4
		}
		hx.Emit("ackr race %d %s", init, ackrFmtTryOps(g.tryOps(2+r.Intn(15))))
	}
}

func genAckr(a hx.Args) {
	g := &ackrGen{r: hx.NewRng(a.Seed)}
	// the §8-d shape first, so that it is always among the cases
	ackrEmitBuild([]ackrEntry{{ID: 1, Offset: 10, Status: 1, Epoch: 1}, {ID: 2, Offset: 11, Status: 1, Epoch: 1}}, nil)
	ackrEmitBuild([]ackrEntry{{ID: 1, Offset: 10, Status: 1, Epoch: 1}, {ID: 2, Offset: 11, Status: 1, Epoch: 1}}, []ackrRng{{First: 12, Last: 14, Epoch: 1}})
	g.genBuild(a)
	if a.Tier == "thorough" {
		ackrGenExhaustive()
	}
	g.genCoal(a)
	g.genStale(a)
	g.genTry(a)
}

// ---------------------------------------------------------------- run

func ackrParseTryOps(toks []string) []kgo.VerifTryAckOp {
	var ops []kgo.VerifTryAckOp
	for _, t := range toks {
		if t == "reset" {
			ops = append(ops, kgo.VerifTryAckOp{Reset: true})
			continue
		}
		v := ackrInts(t, 2)
		ops = append(ops, kgo.VerifTryAckOp{Status: int8(v[0]), Strict: v[1] == 1})
	}
	return ops
}

func ackrDash(s string) string {
	if s == "" {
		return "-"
	}
	return s
}

func runAckr(_ *testing.T, t []string) string {
	if len(t) < 2 || t[0] != "ackr" {
		return "bad-op"
	}
	t = t[1:]
	{
		switch t[0] {
		case "build":
			p := ackrSplitAt(t[1:], "/")
			if len(p) != 2 {
				return "bad-op"
			}
			es, gaps := ackrParseEntries(p[0]), ackrParseRanges(p[1])
			out, hr := kgo.VerifBuildAckRanges(es, gaps)
			hx.St.Inc("op.build")
			hx.St.Inc("build.entries." + ackrBucket(len(es)))
			hx.St.Inc("build.gaps." + ackrBucket(len(gaps)))
			hx.St.Inc("build.out." + ackrBucket(len(out)))
			for i := range gaps {
				for j := i + 1; j < len(gaps); j++ {
					if gaps[i].First <= gaps[j].Last && gaps[j].First <= gaps[i].Last {
						hx.St.Inc("build.gaps.overlapping-pair")
					}
				}
			}
			if hr {
				hx.St.Inc("build.hasRenew")
			}
			s := ackrFmtRanges(out)
			if s != "" {
				s += " "
			}
			return s + "r" + hx.B(hr)
		case "coal":
			p := ackrSplitAt(t[1:], "/")
			if len(p) != 2 || len(p[1]) != 1 {
				return "bad-op"
			}
			in := ackrParseRanges(p[0])
			out := kgo.VerifCoalesceAppendRange(in, ackrParseRanges(p[1])[0])
			hx.St.Inc("op.coal")
			if len(out) == len(in) && len(in) > 0 {
				hx.St.Inc("coal.merged")
			} else {
				hx.St.Inc("coal.appended")
			}
			return ackrDash(ackrFmtRanges(out))
		case "stale":
			self, epoch := int(hx.Atoi(t[1])), int32(hx.Atoi(t[2]))
			var es [][]ackrEntry
			var gs [][]ackrRng
			for _, d := range ackrSplitAt(t[3:], ";") {
				p := ackrSplitAt(d, "/")
				if len(p) != 2 {
					return "bad-op"
				}
				es = append(es, ackrParseEntries(p[0]))
				gs = append(gs, ackrParseRanges(p[1]))
			}
			kept, kgaps, nu, ns, errs := kgo.VerifFilterStaleEntries(self, epoch, es, gs)
			hx.St.Inc("op.stale")
			var parts []string
			for i := range kept {
				hx.St.Inc("stale.err." + ackrDash(errs[i]))
				parts = append(parts, ackrDash(ackrFmtEntries(kept[i]))+" / "+ackrDash(ackrFmtRanges(kgaps[i]))+" / "+ackrDash(errs[i]))
			}
			return fmt.Sprintf("%d %d ; %s", nu, ns, strings.Join(parts, " ; "))
		case "try", "race":
			init := int32(hx.Atoi(t[1]))
			ops := ackrParseTryOps(t[2:])
			res, final := kgo.VerifTryAck(init, ops, t[0] == "race")
			hx.St.Inc("op." + t[0])
			hx.St.Inc(t[0] + ".final." + strconv.Itoa(int(final)))
			var sb []string
			wins := 0
			for i, b := range res {
				sb = append(sb, hx.B(b))
				if b && !ops[i].Reset && ops[i].Status != 4 {
					wins++
				}
			}
			hx.St.Inc(t[0] + ".terminalWins." + strconv.Itoa(wins))
			return strings.Join(sb, " ") + " =" + strconv.Itoa(int(final))
		}
		return "bad-op"
	}
}

func ackrBucket(n int) string {
	switch {
	case n == 0:
		return "0"
	case n <= 2:
		return "1-2"
	case n <= 6:
		return "3-6"
	case n <= 12:
		return "7-12"
	default:
		return "13+"
	}
}
