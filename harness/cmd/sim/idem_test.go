// sim02: idempotent producing (C02). Real kgo producer x real kfake in a synctest bubble with faults on the
// produce path; the history carries client-side events, the wire-level view of every produce
// request/response at the broker, and finally the log contents read back by a fresh consumer.
//
// op:   idem <seed> <nprod> <perprod> <parts> <brokers> <faultpct> <linger> <timeoutms> <retries> <single-record-batches>
// impl: cfg:<parts> then events
//
//	P:id:part            Produce called (manual partitioner: the partition is chosen by the caller)
//	X:id                 Produce returned
//	R:id:e:part:off      promise (e = 0 or error class)
//	Wq:conn:n:act:part:pid:epoch:seq:cnt:id,id,...   a produce batch inside request number n as it reached the broker side
//	                     (act = 0 passed to kfake, 1 killed before kfake saw it, 2 handled by kfake but response swallowed)
//	Wr:conn:n:part:err:base:deliv                     kfake's answer for that partition (deliv=0 when swallowed)
//	Mv:part:node         leadership moved
//	L:part:off:id        final log contents, per partition in offset order
//	Q                    end
package main

import (
	"context"
	"errors"
	"fmt"
	"sort"
	"strconv"
	"strings"
	"sync"
	"sync/atomic"
	"testing"
	"testing/synctest"
	"time"

	"github.com/twmb/franz-go/pkg/kbin"
	"github.com/twmb/franz-go/pkg/kerr"
	"github.com/twmb/franz-go/pkg/kfake"
	"github.com/twmb/franz-go/pkg/kgo"
	"github.com/twmb/franz-go/pkg/kmsg"
	"verifharness/hx"
	"verifharness/sim"
)

func genIdem(a hx.Args) {
	r := hx.NewRng(a.Seed)
	n := a.N(250, 2500)
	for i := 0; i < n; i++ {
		nprod := 1 + r.Intn(3)
		perprod := 10 + r.Intn(60)
		parts := 1 + r.Intn(3)
		brokers := 1 + r.Intn(3)
		faultpct := hx.Pick(r, []int{0, 5, 10, 20, 35})
		linger := hx.Pick(r, []int{0, 0, 2, 10})
		timeout := hx.Pick(r, []int{0, 0, 1000, 1500, 3000})
		retries := hx.Pick(r, []int{1, 3, 20, 20})
		single := 0
		if r.Chance(30) {
			single = 1 // producers pause after every record, so batches mostly hold one record
		}
		hx.Emit("idem %d %d %d %d %d %d %d %d %d %d", r.U64()%1000000, nprod, perprod, parts, brokers, faultpct, linger, timeout, retries, single)
	}
}

func errClass(err error) string {
	switch {
	case err == nil:
		return "0"
	case errors.Is(err, context.Canceled), errors.Is(err, context.DeadlineExceeded):
		return "ctx"
	case errors.Is(err, kgo.ErrRecordTimeout):
		return "timeout"
	case errors.Is(err, kgo.ErrRecordRetries):
		return "retries"
	case errors.Is(err, kgo.ErrClientClosed):
		return "closed"
	}
	var ke *kerr.Error
	if errors.As(err, &ke) {
		return "kerr" + strconv.Itoa(int(ke.Code))
	}
	return "other"
}

// parseProduce decodes a produce request frame (after the 4-byte size).
func parseProduce(frame []byte) (*kmsg.ProduceRequest, bool) {
	if len(frame) < 8 {
		return nil, false
	}
	version := int16(uint16(frame[2])<<8 | uint16(frame[3]))
	req := kmsg.NewPtrProduceRequest()
	req.SetVersion(version)
	b := kbin.Reader{Src: frame[8:]}
	b.NullableString() // client id
	if req.IsFlexible() {
		kmsg.SkipTags(&b)
	}
	if err := req.ReadFrom(b.Src); err != nil {
		return nil, false
	}
	return req, true
}

func parseProduceResp(version int16, frame []byte) (*kmsg.ProduceResponse, bool) {
	resp := kmsg.NewPtrProduceResponse()
	resp.SetVersion(version)
	b := kbin.Reader{Src: frame[4:]}
	if resp.IsFlexible() {
		kmsg.SkipTags(&b)
	}
	if err := resp.ReadFrom(b.Src); err != nil {
		return nil, false
	}
	return resp, true
}

func runIdem(t *testing.T, tk []string) string {
	if tk[0] != "idem" || len(tk) != 11 {
		return "bad-op"
	}
	seed := uint64(hx.Atoi(tk[1]))
	nprod, perprod, parts, brokers := int(hx.Atoi(tk[2])), int(hx.Atoi(tk[3])), int(hx.Atoi(tk[4])), int(hx.Atoi(tk[5]))
	faultpct, linger, timeoutms, retries := int(hx.Atoi(tk[6])), int(hx.Atoi(tk[7])), int(hx.Atoi(tk[8])), int(hx.Atoi(tk[9]))
	single := tk[10] == "1"
	rng := hx.NewRng(seed)
	log := &sim.Log{}
	var fmu sync.Mutex
	frng := hx.NewRng(seed ^ 0xabcdef)
	net := &sim.Net{}
	var faultsOn atomic.Bool
	faultsOn.Store(true)
	net.Fault = func(key int16, nth int, frame []byte) sim.Action {
		if !faultsOn.Load() || faultpct == 0 || key != 0 {
			return sim.Pass
		}
		fmu.Lock()
		defer fmu.Unlock()
		if frng.Intn(100) >= faultpct {
			return sim.Pass
		}
		if frng.Intn(3) > 0 {
			hx.St.Inc("fault.dropafter")
			return sim.DropAfter
		}
		hx.St.Inc("fault.killbefore")
		return sim.KillBefore
	}
	// wire observation
	type reqInfo struct {
		n       int
		version int16
	}
	var wmu sync.Mutex
	reqN := 0
	pendingReqs := map[int][]reqInfo{} // conn -> produce requests awaiting a response (in order)
	var topicID [16]byte
	net.OnRequest = func(conn int, key int16, frame []byte, act sim.Action) {
		if key != 0 {
			return
		}
		req, ok := parseProduce(frame)
		if !ok {
			log.Add("Wbad")
			return
		}
		wmu.Lock()
		reqN++
		n := reqN
		if act != sim.KillBefore {
			pendingReqs[conn] = append(pendingReqs[conn], reqInfo{n, req.Version})
		}
		wmu.Unlock()
		for _, rt := range req.Topics {
			for _, rp := range rt.Partitions {
				var b kmsg.RecordBatch
				if err := b.ReadFrom(rp.Records); err != nil {
					log.Add("Wbad")
					continue
				}
				// records are uncompressed in this harness
				var ids []string
				rr := kbin.Reader{Src: b.Records}
				for i := int32(0); i < b.NumRecords && rr.Ok(); i++ {
					l := rr.Varint()
					body := rr.Span(int(l))
					var rec kmsg.Record
					full := kbin.AppendVarint(nil, l)
					full = append(full, body...)
					if err := rec.ReadFrom(full); err != nil {
						ids = append(ids, "?")
						continue
					}
					ids = append(ids, string(rec.Key))
				}
				log.Add("Wq:%d:%d:%d:%d:%d:%d:%d:%d:%s", conn, n, int(act), rp.Partition, b.ProducerID, b.ProducerEpoch, b.FirstSequence, b.NumRecords, strings.Join(ids, ","))
			}
		}
	}
	net.OnResponse = func(conn int, key int16, frame []byte, delivered bool) {
		if key != 0 {
			return
		}
		wmu.Lock()
		q := pendingReqs[conn]
		if len(q) == 0 {
			wmu.Unlock()
			return
		}
		ri := q[0]
		pendingReqs[conn] = q[1:]
		wmu.Unlock()
		resp, ok := parseProduceResp(ri.version, frame)
		if !ok {
			log.Add("Wbad")
			return
		}
		for _, rt := range resp.Topics {
			for _, rp := range rt.Partitions {
				log.Add("Wr:%d:%d:%d:%d:%d:%d", conn, ri.n, rp.Partition, rp.ErrorCode, rp.BaseOffset, b2i(delivered))
			}
		}
	}
	ports := make([]int, brokers)
	base := int(9000 + (portBase.Add(1)%500)*10)
	for i := range ports {
		ports[i] = base + i
	}
	cluster, err := kfake.NewCluster(kfake.NumBrokers(brokers), kfake.Ports(ports...), kfake.SeedTopics(int32(parts), "t"),
		kfake.ListenFn(net.ListenFn))
	if err != nil {
		return "ERR:cluster:" + err.Error()
	}
	defer cluster.Close()
	topicID = cluster.TopicInfo("t").TopicID
	_ = topicID
	var emu sync.Mutex
	erng := hx.NewRng(seed ^ 0x5151)
	cluster.ControlKey(0, func(kreq kmsg.Request) (kmsg.Response, error, bool) {
		cluster.KeepControl()
		emu.Lock()
		inject := faultsOn.Load() && faultpct > 0 && erng.Intn(100) < faultpct/2
		code := hx.Pick(erng, []int16{kerr.NotLeaderForPartition.Code, kerr.RequestTimedOut.Code, kerr.NotEnoughReplicas.Code, kerr.LeaderNotAvailable.Code})
		emu.Unlock()
		if !inject {
			return nil, nil, false
		}
		hx.St.Inc("fault.errcode")
		req := kreq.(*kmsg.ProduceRequest)
		resp := req.ResponseKind().(*kmsg.ProduceResponse)
		for _, rt := range req.Topics {
			st := kmsg.NewProduceResponseTopic()
			st.Topic, st.TopicID = rt.Topic, rt.TopicID
			for _, rp := range rt.Partitions {
				sp := kmsg.NewProduceResponseTopicPartition()
				sp.Partition = rp.Partition
				sp.ErrorCode = code
				st.Partitions = append(st.Partitions, sp)
			}
			resp.Topics = append(resp.Topics, st)
		}
		return resp, nil, true
	})

	opts := []kgo.Opt{
		kgo.SeedBrokers(cluster.ListenAddrs()...), kgo.Dialer(net.Stack.DialContext),
		kgo.DefaultProduceTopic("t"), kgo.RecordPartitioner(kgo.ManualPartitioner()),
		kgo.ProducerLinger(time.Duration(linger) * time.Millisecond), kgo.ProducerBatchCompression(kgo.NoCompression()),
		kgo.RequestRetries(retries), kgo.RecordRetries(retries),
		kgo.RetryBackoffFn(func(int) time.Duration { return 10 * time.Millisecond }),
		kgo.ProduceRequestTimeout(500 * time.Millisecond),
	}
	if timeoutms > 0 {
		opts = append(opts, kgo.RecordDeliveryTimeout(time.Duration(timeoutms)*time.Millisecond))
	}
	cl, err := kgo.NewClient(opts...)
	if err != nil {
		return "ERR:client:" + err.Error()
	}
	ctx, cancel := context.WithCancel(context.Background())
	defer cancel()
	var wg, mwg sync.WaitGroup
	var nextID atomic.Int64
	for w := 0; w < nprod; w++ {
		wg.Add(1)
		wr := hx.NewRng(seed*131 + uint64(w))
		go func() {
			defer wg.Done()
			for i := 0; i < perprod; i++ {
				id := nextID.Add(1)
				ids := strconv.FormatInt(id, 10)
				part := int32(wr.Intn(parts))
				rec := &kgo.Record{Key: []byte(ids), Value: make([]byte, wr.Intn(20)), Partition: part}
				log.Add("P:%s:%d", ids, part)
				cl.Produce(ctx, rec, func(r *kgo.Record, err error) {
					log.Add("R:%s:%s:%d:%d", ids, errClass(err), r.Partition, r.Offset)
				})
				log.Add("X:%s", ids)
				if single {
					time.Sleep(time.Duration(5+wr.Intn(30)) * time.Millisecond)
				} else if wr.Chance(30) {
					time.Sleep(time.Duration(wr.Intn(15)) * time.Millisecond)
				}
			}
		}()
	}
	stop := make(chan struct{})
	if brokers > 1 {
		mwg.Add(1)
		go func() {
			defer mwg.Done()
			for {
				select {
				case <-stop:
					return
				case <-time.After(time.Duration(20+rng.Intn(200)) * time.Millisecond):
				}
				p, n := int32(rng.Intn(parts)), int32(rng.Intn(brokers))
				if cluster.MoveTopicPartition("t", p, n) == nil {
					log.Add("Mv:%d:%d", p, n)
					hx.St.Inc("fault.leadermove")
				}
			}
		}()
	}
	wg.Wait()
	fctx, fc := context.WithTimeout(ctx, 30*time.Second)
	cl.Flush(fctx) // with faults still on: records may fail by timeout or retries
	fc()
	faultsOn.Store(false)
	close(stop)
	mwg.Wait()
	fctx, fc = context.WithTimeout(ctx, 60*time.Second)
	ferr := cl.Flush(fctx)
	fc()
	cl.Close()
	if ferr != nil {
		log.Add("FlushErr")
	}
	// read back the log with a fresh consumer
	ends := map[int32]int64{}
	for p := 0; p < parts; p++ {
		pi := cluster.PartitionInfo("t", int32(p))
		ends[int32(p)] = pi.HighWatermark
	}
	co, err := kgo.NewClient(kgo.SeedBrokers(cluster.ListenAddrs()...), kgo.Dialer(net.Stack.DialContext),
		kgo.ConsumeTopics("t"), kgo.FetchMaxWait(100*time.Millisecond))
	if err != nil {
		return "ERR:consumer:" + err.Error()
	}
	type ent struct {
		part int32
		off  int64
		id   string
	}
	var ents []ent
	got := map[int32]int64{}
	deadline := time.Now().Add(60 * time.Second)
	done := func() bool {
		for p, e := range ends {
			if got[p] < e {
				return false
			}
		}
		return true
	}
	for !done() && time.Now().Before(deadline) {
		pctx, pc := context.WithTimeout(ctx, 2*time.Second)
		fs := co.PollFetches(pctx)
		pc()
		fs.EachRecord(func(r *kgo.Record) {
			ents = append(ents, ent{r.Partition, r.Offset, string(r.Key)})
			if r.Offset+1 > got[r.Partition] {
				got[r.Partition] = r.Offset + 1
			}
		})
	}
	co.Close()
	if !done() {
		log.Add("ReadbackIncomplete")
	}
	sort.Slice(ents, func(i, j int) bool {
		if ents[i].part != ents[j].part {
			return ents[i].part < ents[j].part
		}
		return ents[i].off < ents[j].off
	})
	for _, e := range ents {
		log.Add("L:%d:%d:%s", e.part, e.off, e.id)
	}
	cancel()
	synctest.Wait()
	log.Add("Q")
	hx.St.Inc("scen.total")
	return fmt.Sprintf("cfg:%d ", parts) + log.String()
}
