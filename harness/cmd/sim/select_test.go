// sel: partition-selection scenarios (C39). A direct consumer of this tree selects by topic names, by regular
// expressions (with exclusions) or by explicit partitions against a real kfake while a script creates topics
// (matching, non-matching, internal, internal-looking), deletes topics, grows partitions and calls AddConsumeTopics /
// AddConsumePartitions / RemoveConsumePartitions / PurgeTopicsFromConsuming; a producer writes identifiable records to
// every partition of every existing topic. All script steps, producer rounds and polls run in one goroutine, so the
// event order of calls and returned records is the program order.
//
// op:   sel <seed> <mode n|r> <steps> <cfgsel>
//
//	topics are numbered by their index in selNames; mode n: ConsumeTopics(names)+ConsumePartitions, r: ConsumeRegex
//
// impl: cfg:<mode> then events
//
//	Re:i / Ex:i            include / exclude pattern number (informational; selRe / selEx)
//	St:t                   ConsumeTopics names topic t (mode n)        Sp:t:p   ConsumePartitions names partition p of t
//	Cr:t:n:int:m:x         topic t created with n partitions; int: created as internal topic; m: t matches an include
//	                       pattern, x: t matches an exclude pattern (evaluated by Go's regexp; 0 in mode n)
//	Gr:t:n                 topic t grown to n partitions           De:t     topic t deleted
//	At:t  Ap:t:p  Rp:t:p  Pu:t   AddConsumeTopics / AddConsumePartitions / RemoveConsumePartitions / PurgeTopicsFromConsuming returned
//	D:id:t:p:off           produced record acknowledged              Dx       a produce or admin step failed (coverage is not judged)
//	V:t:p:off:id           a record returned by a poll
//	M                      a Metadata response was delivered to the consumer client (refresh mark)
//	Q
package main

import (
	"context"
	"fmt"
	"os"
	"regexp"
	"strconv"
	"strings"
	"sync"
	"testing"
	"testing/synctest"
	"time"

	"github.com/twmb/franz-go/pkg/kadm"
	"github.com/twmb/franz-go/pkg/kfake"
	"github.com/twmb/franz-go/pkg/kgo"
	"verifharness/hx"
	"verifharness/sim"
)

var selNames = []string{"a1", "a2", "ab", "b1", "b2", "zz", "__consumer_offsets", "__transaction_state", "__a_lookalike", "a9"}

// topics created as internal (kfake marks a topic internal through the topic config kfake.is_internal)
var selInternal = map[int]bool{6: true, 7: true, 9: true}
var selRe = []string{"^a", "^(a|b)1$", ".*", "^__", "b", "^[ab][0-9]$"}
var selEx = []string{"2$", "^ab$", "^__consumer", "^zz"}

func genSel(a hx.Args) {
	r := hx.NewRng(a.Seed ^ 0x39)
	n := a.N(90, 1500)
	for i := 0; i < n; i++ {
		mode := hx.Pick(r, []string{"n", "n", "r", "r", "r"})
		hx.Emit("sel %d %s %d %d", r.U64()%1000000, mode, 16+r.Intn(14), r.Intn(1<<16))
	}
}

func runSel(t *testing.T, tk []string) string {
	if tk[0] != "sel" || len(tk) != 5 || (tk[2] != "n" && tk[2] != "r") {
		return "bad-op"
	}
	seed := uint64(hx.Atoi(tk[1]))
	regex := tk[2] == "r"
	steps, cfgsel := int(hx.Atoi(tk[3])), uint64(hx.Atoi(tk[4]))
	rng := hx.NewRng(seed)
	crng := hx.NewRng(cfgsel*7919 + 13)
	log := &sim.Log{}
	partial := func() string { return log.String() }
	sim.Partial.Store(&partial)
	defer sim.Partial.Store(nil)
	net := &sim.Net{}
	// refresh marks: Metadata responses delivered on connections whose requests carry the consumer's client id
	var cmu sync.Mutex
	consConn := map[int]bool{}
	net.OnRequest = func(conn int, key int16, frame []byte, act sim.Action) {
		if len(frame) >= 10 {
			n := int(int16(uint16(frame[8])<<8 | uint16(frame[9])))
			if n > 0 && len(frame) >= 10+n && string(frame[10:10+n]) == "cons" {
				cmu.Lock()
				consConn[conn] = true
				cmu.Unlock()
			}
		}
	}
	net.OnResponse = func(conn int, key int16, frame []byte, delivered bool) {
		cmu.Lock()
		isCons := consConn[conn]
		cmu.Unlock()
		if key == 3 && delivered && isCons {
			log.Add("M")
		}
	}
	base := int(9000 + (portBase.Add(1)%500)*10)
	cluster, err := kfake.NewCluster(kfake.NumBrokers(1), kfake.Ports(base), kfake.ListenFn(net.ListenFn))
	if err != nil {
		return "ERR:cluster:" + err.Error()
	}
	defer cluster.Close()
	ctx, cancel := context.WithCancel(context.Background())
	defer cancel()
	common := []kgo.Opt{kgo.SeedBrokers(cluster.ListenAddrs()...), kgo.Dialer(net.Stack.DialContext),
		kgo.RetryBackoffFn(func(int) time.Duration { return 10 * time.Millisecond })}
	admCl, err := kgo.NewClient(append([]kgo.Opt{kgo.ClientID("adm")}, common...)...)
	if err != nil {
		return "ERR:client:" + err.Error()
	}
	defer admCl.Close()
	adm := kadm.NewClient(admCl)

	// configuration
	var incl, excl []*regexp.Regexp
	var copts []kgo.Opt
	parts := map[int]int{}    // existing topics -> partition count
	deleted := map[int]bool{} // never recreated
	if regex {
		var ps []string
		for _, i := range pickSome(crng, len(selRe), 1+crng.Intn(2)) {
			ps = append(ps, selRe[i])
			incl = append(incl, regexp.MustCompile(selRe[i]))
			log.Add("Re:%d", i)
		}
		copts = append(copts, kgo.ConsumeRegex(), kgo.ConsumeTopics(ps...))
		if crng.Chance(65) {
			var xs []string
			for _, i := range pickSome(crng, len(selEx), 1+crng.Intn(2)) {
				xs = append(xs, selEx[i])
				excl = append(excl, regexp.MustCompile(selEx[i]))
				log.Add("Ex:%d", i)
			}
			copts = append(copts, kgo.ConsumeExcludeTopics(xs...))
		}
	} else {
		var names []string
		named := map[int]bool{}
		for _, i := range pickSome(crng, len(selNames), 1+crng.Intn(3)) {
			names = append(names, selNames[i])
			named[i] = true
			log.Add("St:%d", i)
		}
		copts = append(copts, kgo.ConsumeTopics(names...))
		if crng.Chance(60) {
			pm := map[string]map[int32]kgo.Offset{}
			for _, i := range pickSome(crng, len(selNames), 1+crng.Intn(2)) {
				if named[i] {
					continue
				}
				m := map[int32]kgo.Offset{}
				for _, p := range pickSome(crng, 4, 1+crng.Intn(2)) {
					m[int32(p)] = kgo.NewOffset().AtStart()
					log.Add("Sp:%d:%d", i, p)
				}
				pm[selNames[i]] = m
			}
			if len(pm) > 0 {
				copts = append(copts, kgo.ConsumePartitions(pm))
			}
		}
	}
	matches := func(i int) (bool, bool) {
		m, x := false, false
		for _, re := range incl {
			m = m || re.MatchString(selNames[i])
		}
		for _, re := range excl {
			x = x || re.MatchString(selNames[i])
		}
		return m, x
	}
	create := func(i, n int) {
		var cfgs map[string]*string
		if selInternal[i] {
			v := "true"
			cfgs = map[string]*string{"kfake.is_internal": &v}
		}
		if _, err := adm.CreateTopic(ctx, int32(n), 1, cfgs, selNames[i]); err != nil {
			log.Add("Dx")
			return
		}
		parts[i] = n
		m, x := matches(i)
		log.Add("Cr:%d:%d:%d:%d:%d", i, n, b2i(selInternal[i]), b2i(m), b2i(x))
	}
	// some topics exist before the consumer starts
	for _, i := range pickSome(rng, len(selNames), 2+rng.Intn(3)) {
		create(i, 1+rng.Intn(3))
	}
	copts = append(copts, common...)
	copts = append(copts, kgo.ClientID("cons"), kgo.FetchMaxWait(40*time.Millisecond), kgo.MetadataMinAge(50*time.Millisecond), kgo.MetadataMaxAge(250*time.Millisecond))
	if os.Getenv("VERIF_DEBUG") != "" {
		copts = append(copts, kgo.WithLogger(kgo.BasicLogger(os.Stderr, kgo.LogLevelDebug, nil)))
	}
	co, err := kgo.NewClient(copts...)
	if err != nil {
		return "ERR:consumer:" + err.Error()
	}
	nextID := 0
	produceAll := func() {
		if len(parts) == 0 {
			return
		}
		cl, err := kgo.NewClient(append([]kgo.Opt{kgo.ClientID("prod"), kgo.RecordPartitioner(kgo.ManualPartitioner()), kgo.ProducerLinger(0),
			kgo.RecordDeliveryTimeout(3 * time.Second)}, common...)...)
		if err != nil {
			log.Add("Dx")
			return
		}
		defer cl.Close()
		var recs []*kgo.Record
		ids := map[*kgo.Record]int{}
		for i := 0; i < len(selNames); i++ {
			for p := 0; p < parts[i]; p++ {
				nextID++
				r := &kgo.Record{Topic: selNames[i], Partition: int32(p), Key: []byte(strconv.Itoa(nextID))}
				ids[r] = nextID
				recs = append(recs, r)
			}
		}
		for _, res := range cl.ProduceSync(ctx, recs...) {
			if res.Err != nil {
				log.Add("Dx")
				continue
			}
			log.Add("D:%d:%d:%d:%d", ids[res.Record], selIndex(res.Record.Topic), res.Record.Partition, res.Record.Offset)
		}
	}
	poll := func(d time.Duration) int {
		pctx, pc := context.WithTimeout(ctx, d)
		defer pc()
		fs := co.PollFetches(pctx)
		n := 0
		fs.EachRecord(func(r *kgo.Record) {
			id, _ := strconv.Atoi(string(r.Key))
			log.Add("V:%d:%d:%d:%d", selIndex(r.Topic), r.Partition, r.Offset, id)
			n++
		})
		return n
	}
	existing := func() []int {
		var xs []int
		for i := 0; i < len(selNames); i++ {
			if parts[i] > 0 {
				xs = append(xs, i)
			}
		}
		return xs
	}
	anyTopic := func() int {
		if xs := existing(); len(xs) > 0 && rng.Chance(80) {
			return hx.Pick(rng, xs)
		}
		return rng.Intn(len(selNames))
	}
	for s := 0; s < steps; s++ {
		switch k := rng.Intn(20); {
		case k < 3: // create a topic that never existed
			var cand []int
			for i := range selNames {
				if parts[i] == 0 && !deleted[i] {
					cand = append(cand, i)
				}
			}
			if len(cand) > 0 {
				create(hx.Pick(rng, cand), 1+rng.Intn(3))
				hx.St.Inc("sel.step.create")
			}
		case k < 5: // grow
			if xs := existing(); len(xs) > 0 {
				i := hx.Pick(rng, xs)
				n := parts[i] + 1 + rng.Intn(2)
				if _, err := adm.UpdatePartitions(ctx, n, selNames[i]); err == nil {
					parts[i] = n
					log.Add("Gr:%d:%d", i, n)
					hx.St.Inc("sel.step.grow")
				} else {
					log.Add("Dx")
				}
			}
		case k < 6: // delete
			if xs := existing(); len(xs) > 1 {
				i := hx.Pick(rng, xs)
				if _, err := adm.DeleteTopic(ctx, selNames[i]); err == nil {
					delete(parts, i)
					deleted[i] = true
					log.Add("De:%d", i)
					hx.St.Inc("sel.step.delete")
				} else {
					log.Add("Dx")
				}
			}
		case k < 8:
			i := anyTopic()
			co.AddConsumeTopics(selNames[i])
			log.Add("At:%d", i)
			hx.St.Inc("sel.step.addtopic")
		case k < 10:
			i := anyTopic()
			p := rng.Intn(max(parts[i], 1) + 1)
			co.AddConsumePartitions(map[string]map[int32]kgo.Offset{selNames[i]: {int32(p): kgo.NewOffset().AtStart()}})
			log.Add("Ap:%d:%d", i, p)
			hx.St.Inc("sel.step.addpart")
		case k < 12:
			i := anyTopic()
			ps := pickSome(rng, max(parts[i], 1)+1, 1+rng.Intn(2))
			var ps32 []int32
			for _, p := range ps {
				ps32 = append(ps32, int32(p))
			}
			co.RemoveConsumePartitions(map[string][]int32{selNames[i]: ps32})
			for _, p := range ps {
				log.Add("Rp:%d:%d", i, p)
			}
			hx.St.Inc("sel.step.removepart")
		case k < 14:
			i := anyTopic()
			co.PurgeTopicsFromConsuming(selNames[i])
			log.Add("Pu:%d", i)
			hx.St.Inc("sel.step.purge")
		case k < 17:
			produceAll()
		default:
			time.Sleep(time.Duration(50+rng.Intn(400)) * time.Millisecond)
		}
		for i, n := 0, 1+rng.Intn(3); i < n; i++ {
			poll(time.Duration(30+rng.Intn(150)) * time.Millisecond)
		}
	}
	// quiet end: a producer round, three seconds of polls, a last producer round, then polls for at least three
	// seconds and until four empty ones in a row
	// (time-based: a poll returns at once while records are available, and the client retries a failed offset load --
	// a pinned partition whose topic did not exist yet -- only after a one second back-off plus a metadata refresh)
	produceAll()
	for deadline := time.Now().Add(3 * time.Second); time.Now().Before(deadline); {
		poll(250 * time.Millisecond)
	}
	produceAll()
	empty := 0
	deadline := time.Now().Add(3 * time.Second)
	for i := 0; (empty < 4 || time.Now().Before(deadline)) && i < 400; i++ {
		if poll(300*time.Millisecond) == 0 {
			empty++
		} else {
			empty = 0
		}
	}
	co.Close()
	cancel()
	synctest.Wait()
	log.Add("Q")
	hx.St.Inc("scen.total")
	hx.St.Inc("sel.mode." + tk[2])
	return fmt.Sprintf("cfg:%s ", tk[2]) + log.String()
}

func selIndex(name string) int {
	for i, n := range selNames {
		if n == name {
			return i
		}
	}
	return 99
}

// pickSome returns k distinct numbers below n in increasing order
func pickSome(r *hx.Rng, n, k int) []int {
	k = min(k, n)
	chosen := map[int]bool{}
	for len(chosen) < k {
		chosen[r.Intn(n)] = true
	}
	var xs []int
	for i := 0; i < n; i++ {
		if chosen[i] {
			xs = append(xs, i)
		}
	}
	return xs
}

var _ = strings.Join
