// sel: partition-selection scenarios (C39). A direct consumer of this tree selects by topic names, by regular
// expressions (with exclusions) or by explicit partitions against a real kfake while a script creates topics
// (matching, non-matching, internal, internal-looking), deletes topics, grows partitions and calls AddConsumeTopics /
// AddConsumePartitions / RemoveConsumePartitions / PurgeTopicsFromConsuming; a producer writes identifiable records to
// every partition of every existing topic. All script steps, producer rounds and polls run in one goroutine, so the
// event order of calls and returned records is the program order.
//
// op:   sel <seed> <mode n|r> <steps> <cfgsel> [<plan 0|s|l|y>]
//
//	topics are numbered by their index in selNames; mode n: ConsumeTopics(names)+ConsumePartitions, r: ConsumeRegex
//
// plan (topic re-creation): a topic -- mostly one the consumer selects -- is deleted through the admin client at a random
// step and created again (same name, new topic ID, 1-4 partitions) after a delay; the ordinary steps go on in between and
// the producer rounds after the re-creation write to the new incarnation. The consumer runs with
// ConsiderMissingTopicDeletedAfter(selWindow = 4 s).
//
//	s: delay 0.6-2.0 s (shorter than the window)        l: delay 5.5-8 s (longer than the window)
//	   for both, under regex selection: the topic is deleted only once the client has known it for selWindow + 2 s, and
//	   it is re-created only after the client was delivered two metadata responses after the deletion (it has seen the
//	   topic missing at least once): the envelope in which the regex consumer's "missing topic => deleted => purge"
//	   mechanism promises re-discovery. Named selection: the documented protocol for a re-created topic is "the cursor
//	   keeps the old topic ID, the fetch errors UNKNOWN_TOPIC_ID are returned to the user, the user purges and re-adds"
//	   (pkg/kgo/source.go, cursor.topicID): the scenario's user does exactly that on every UNKNOWN_TOPIC_ID poll error.
//	y: (never generated; for reports) no ageing and no waiting for a metadata response: a young topic re-created at once
//	0: no re-creation (also when the token is absent: the corpus ops of before)
//	with 25 % a second deletion + re-creation follows the first.
//
// impl: cfg:<mode>[:<plan>] then events
//
//	Re:i / Ex:i            include / exclude pattern number (informational; selRe / selEx)
//	St:t                   ConsumeTopics names topic t (mode n)        Sp:t:p   ConsumePartitions names partition p of t
//	Cr:t:g:n:int:m:x       topic t created (incarnation g: 0 the first time, +1 per re-creation) with n partitions; int: created
//	                       as internal topic; m: t matches an include pattern, x: t matches an exclude pattern (evaluated
//	                       by Go's regexp; 0 in mode n)
//	Gr:t:n                 topic t grown to n partitions           De:t     topic t deleted
//	E:t                    a poll returned UNKNOWN_TOPIC_ID for topic t (informational; mode n: followed by Pu:t At:t)
//	At:t  Ap:t:p  Rp:t:p  Pu:t   AddConsumeTopics / AddConsumePartitions / RemoveConsumePartitions / PurgeTopicsFromConsuming returned
//	D:id:t:g:p:off         produced record acknowledged (to incarnation g of t: the one existing when the round ran; record keys
//	                       are unique ids, so a returned record is attributed to its incarnation unambiguously)
//	Dx                     a produce or admin step failed (coverage is not judged)
//	V:t:g:p:off:id         a record returned by a poll (g: the incarnation record id was produced to)
//	M                      a Metadata response was delivered to the consumer client (refresh mark)
//	Q
package main

import (
	"context"
	"errors"
	"fmt"
	"os"
	"regexp"
	"sort"
	"strconv"
	"strings"
	"sync"
	"sync/atomic"
	"testing"
	"testing/synctest"
	"time"

	"github.com/twmb/franz-go/pkg/kadm"
	"github.com/twmb/franz-go/pkg/kerr"
	"github.com/twmb/franz-go/pkg/kfake"
	"github.com/twmb/franz-go/pkg/kgo"
	"verifharness/hx"
	"verifharness/sim"
)

var selNames = []string{"a1", "a2", "ab", "b1", "b2", "zz", "__consumer_offsets", "__transaction_state", "__a_lookalike", "a9"}

// topics created as internal (kfake marks a topic internal through the topic config kfake.is_internal)
var selInternal = map[int]bool{6: true, 7: true, 9: true}
var selRe = []string{"^a", "^(a|b)1$", ".*", "^__", "b", "^[ab][0-9]$"}
var selEx = []string{"2$", "^ab$", "^__consumer", "^zz"}

// ConsiderMissingTopicDeletedAfter of the consumer (virtual time)
const selWindow = 4 * time.Second

func genSel(a hx.Args) {
	r := hx.NewRng(a.Seed ^ 0x39)
	n := a.N(90, 1500)
	for i := 0; i < n; i++ {
		mode := hx.Pick(r, []string{"n", "n", "r", "r", "r"})
		plan := hx.Pick(r, []string{"0", "0", "0", "s", "s", "s", "s", "l", "l", "l"})
		hx.Emit("sel %d %s %d %d %s", r.U64()%1000000, mode, 16+r.Intn(14), r.Intn(1<<16), plan)
	}
}

func runSel(t *testing.T, tk []string) string {
	if tk[0] != "sel" || (len(tk) != 5 && len(tk) != 6) || (tk[2] != "n" && tk[2] != "r") {
		return "bad-op"
	}
	plan := "0"
	if len(tk) == 6 {
		plan = tk[5]
	}
	if plan != "0" && plan != "s" && plan != "l" && plan != "y" {
		return "bad-op"
	}
	seed := uint64(hx.Atoi(tk[1]))
	regex := tk[2] == "r"
	steps, cfgsel := int(hx.Atoi(tk[3])), uint64(hx.Atoi(tk[4]))
	rng := hx.NewRng(seed)
	crng := hx.NewRng(cfgsel*7919 + 13)
	prng := hx.NewRng(seed*2654435761 + cfgsel + 0x5e1) // the re-creation plan has its own stream: the script of an op does not depend on the plan
	log := &sim.Log{}
	partial := func() string { return log.String() }
	sim.Partial.Store(&partial)
	defer sim.Partial.Store(nil)
	net := &sim.Net{}
	// refresh marks: Metadata responses delivered on connections whose requests carry the consumer's client id
	var cmu sync.Mutex
	var nMeta atomic.Int64
	consConn := map[int]bool{}
	net.OnRequest = func(conn int, key int16, frame []byte, act sim.Action) {
		if len(frame) >= 10 {
			n := int(int16(uint16(frame[8])<<8 | uint16(frame[9])))
			if n > 0 && len(frame) >= 10+n && string(frame[10:10+n]) == "cons" {
				cmu.Lock()
				consConn[conn] = true
				cmu.Unlock()
			}
		}
	}
	net.OnResponse = func(conn int, key int16, frame []byte, delivered bool) {
		cmu.Lock()
		isCons := consConn[conn]
		cmu.Unlock()
		if key == 3 && delivered && isCons {
			log.Add("M")
			nMeta.Add(1)
		}
	}
	base := int(9000 + (portBase.Add(1)%500)*10)
	cluster, err := kfake.NewCluster(kfake.NumBrokers(1), kfake.Ports(base), kfake.ListenFn(net.ListenFn))
	if err != nil {
		return "ERR:cluster:" + err.Error()
	}
	defer cluster.Close()
	ctx, cancel := context.WithCancel(context.Background())
	defer cancel()
	common := []kgo.Opt{kgo.SeedBrokers(cluster.ListenAddrs()...), kgo.Dialer(net.Stack.DialContext),
		kgo.RetryBackoffFn(func(int) time.Duration { return 10 * time.Millisecond })}
	admCl, err := kgo.NewClient(append([]kgo.Opt{kgo.ClientID("adm")}, common...)...)
	if err != nil {
		return "ERR:client:" + err.Error()
	}
	defer admCl.Close()
	adm := kadm.NewClient(admCl)

	// configuration
	var incl, excl []*regexp.Regexp
	var copts []kgo.Opt
	parts := map[int]int{}        // existing topics -> partition count
	gen := map[int]int{}          // incarnation of the topic (of the last one when it is deleted)
	ever := map[int]bool{}        // the topic existed at some time
	bornAt := map[int]time.Time{} // regex mode: the client cannot know the topic longer than since then (creation, purge)
	interest := map[int]bool{}    // named mode: topics the configuration or a call names
	if regex {
		var ps []string
		for _, i := range pickSome(crng, len(selRe), 1+crng.Intn(2)) {
			ps = append(ps, selRe[i])
			incl = append(incl, regexp.MustCompile(selRe[i]))
			log.Add("Re:%d", i)
		}
		copts = append(copts, kgo.ConsumeRegex(), kgo.ConsumeTopics(ps...))
		if crng.Chance(65) {
			var xs []string
			for _, i := range pickSome(crng, len(selEx), 1+crng.Intn(2)) {
				xs = append(xs, selEx[i])
				excl = append(excl, regexp.MustCompile(selEx[i]))
				log.Add("Ex:%d", i)
			}
			copts = append(copts, kgo.ConsumeExcludeTopics(xs...))
		}
	} else {
		var names []string
		named := map[int]bool{}
		for _, i := range pickSome(crng, len(selNames), 1+crng.Intn(3)) {
			names = append(names, selNames[i])
			named[i] = true
			interest[i] = true
			log.Add("St:%d", i)
		}
		copts = append(copts, kgo.ConsumeTopics(names...))
		if crng.Chance(60) {
			pm := map[string]map[int32]kgo.Offset{}
			for _, i := range pickSome(crng, len(selNames), 1+crng.Intn(2)) {
				if named[i] {
					continue
				}
				m := map[int32]kgo.Offset{}
				for _, p := range pickSome(crng, 4, 1+crng.Intn(2)) {
					m[int32(p)] = kgo.NewOffset().AtStart()
					log.Add("Sp:%d:%d", i, p)
				}
				pm[selNames[i]] = m
				interest[i] = true
			}
			if len(pm) > 0 {
				copts = append(copts, kgo.ConsumePartitions(pm))
			}
		}
	}
	matches := func(i int) (bool, bool) {
		m, x := false, false
		for _, re := range incl {
			m = m || re.MatchString(selNames[i])
		}
		for _, re := range excl {
			x = x || re.MatchString(selNames[i])
		}
		return m, x
	}
	create := func(i, n int) {
		var cfgs map[string]*string
		if selInternal[i] {
			v := "true"
			cfgs = map[string]*string{"kfake.is_internal": &v}
		}
		if _, err := adm.CreateTopic(ctx, int32(n), 1, cfgs, selNames[i]); err != nil {
			log.Add("Dx")
			return
		}
		parts[i] = n
		if ever[i] {
			gen[i]++
		}
		ever[i] = true
		bornAt[i] = time.Now()
		m, x := matches(i)
		log.Add("Cr:%d:%d:%d:%d:%d:%d", i, gen[i], n, b2i(selInternal[i]), b2i(m), b2i(x))
	}
	// some topics exist before the consumer starts
	for _, i := range pickSome(rng, len(selNames), 2+rng.Intn(3)) {
		create(i, 1+rng.Intn(3))
	}
	copts = append(copts, common...)
	copts = append(copts, kgo.ClientID("cons"), kgo.FetchMaxWait(40*time.Millisecond), kgo.MetadataMinAge(50*time.Millisecond), kgo.MetadataMaxAge(250*time.Millisecond),
		kgo.ConsiderMissingTopicDeletedAfter(selWindow))
	if os.Getenv("VERIF_DEBUG") != "" {
		copts = append(copts, kgo.WithLogger(kgo.BasicLogger(os.Stderr, kgo.LogLevelDebug, nil)))
	}
	co, err := kgo.NewClient(copts...)
	if err != nil {
		return "ERR:consumer:" + err.Error()
	}
	consStart := time.Now()
	nextID := 0
	idGen := map[int]int{}
	produceAll := func() {
		if len(parts) == 0 {
			return
		}
		cl, err := kgo.NewClient(append([]kgo.Opt{kgo.ClientID("prod"), kgo.RecordPartitioner(kgo.ManualPartitioner()), kgo.ProducerLinger(0),
			kgo.RecordDeliveryTimeout(3 * time.Second)}, common...)...)
		if err != nil {
			log.Add("Dx")
			return
		}
		defer cl.Close()
		var recs []*kgo.Record
		ids := map[*kgo.Record]int{}
		for i := 0; i < len(selNames); i++ {
			for p := 0; p < parts[i]; p++ {
				nextID++
				r := &kgo.Record{Topic: selNames[i], Partition: int32(p), Key: []byte(strconv.Itoa(nextID))}
				ids[r] = nextID
				idGen[nextID] = gen[i]
				recs = append(recs, r)
			}
		}
		for _, res := range cl.ProduceSync(ctx, recs...) {
			if res.Err != nil {
				log.Add("Dx")
				continue
			}
			log.Add("D:%d:%d:%d:%d:%d", ids[res.Record], selIndex(res.Record.Topic), idGen[ids[res.Record]], res.Record.Partition, res.Record.Offset)
		}
	}
	poll := func(d time.Duration) int {
		pctx, pc := context.WithTimeout(ctx, d)
		defer pc()
		fs := co.PollFetches(pctx)
		n := 0
		fs.EachRecord(func(r *kgo.Record) {
			id, _ := strconv.Atoi(string(r.Key))
			g, ok := idGen[id]
			if !ok {
				g = 99
			}
			log.Add("V:%d:%d:%d:%d:%d", selIndex(r.Topic), g, r.Partition, r.Offset, id)
			n++
		})
		// the loud stall of a re-created topic: the cursors keep the old topic ID and the fetch error is handed to the
		// user, who (named selection) must purge the topic and add it again
		unk := map[int]bool{}
		anyErr := false
		fs.EachError(func(t string, _ int32, err error) {
			if errors.Is(err, context.DeadlineExceeded) || errors.Is(err, context.Canceled) {
				return
			}
			anyErr = true
			if errors.Is(err, kerr.UnknownTopicID) {
				unk[selIndex(t)] = true
			}
		})
		var us []int
		for i := range unk {
			us = append(us, i)
		}
		sort.Ints(us)
		for _, i := range us {
			log.Add("E:%d", i)
			hx.St.Inc("sel.unknown-topic-id-error")
			if !regex && i < len(selNames) {
				co.PurgeTopicsFromConsuming(selNames[i])
				log.Add("Pu:%d", i)
				co.AddConsumeTopics(selNames[i])
				log.Add("At:%d", i)
				interest[i] = true
				hx.St.Inc("sel.step.purge-and-readd")
			}
		}
		if anyErr {
			time.Sleep(20 * time.Millisecond) // the user's error handler: a poll that returns errors at once must not spin
		}
		return n
	}
	existing := func() []int {
		var xs []int
		for i := 0; i < len(selNames); i++ {
			if parts[i] > 0 {
				xs = append(xs, i)
			}
		}
		return xs
	}
	anyTopic := func() int {
		if xs := existing(); len(xs) > 0 && rng.Chance(80) {
			return hx.Pick(rng, xs)
		}
		return rng.Intn(len(selNames))
	}
	// the re-creation plan
	cycles := 0
	if plan != "0" {
		cycles = 1
		if prng.Chance(25) {
			cycles = 2
		}
	}
	nextDel := prng.Intn(max(steps-4, 1))
	pending, pendingAt := -1, time.Time{}
	wanted := func(i int) bool {
		if regex {
			m, x := matches(i)
			return m && !x && !selInternal[i]
		}
		return interest[i]
	}
	pollFor := func(d time.Duration) {
		for dl := time.Now().Add(d); time.Now().Before(dl); {
			poll(min(250*time.Millisecond, max(time.Until(dl), time.Millisecond)))
		}
	}
	startDelete := func() bool {
		xs := existing()
		if len(xs) == 0 {
			return false
		}
		var pref []int
		for _, i := range xs {
			if wanted(i) {
				pref = append(pref, i)
			}
		}
		i := hx.Pick(prng, xs)
		if len(pref) > 0 && prng.Chance(85) {
			i = hx.Pick(prng, pref)
		}
		if plan != "y" {
			// the client has known the topic for longer than the window (its `when` is in whole seconds and set at the
			// first metadata response with the topic: two seconds of margin)
			born := bornAt[i]
			if born.Before(consStart) {
				born = consStart
			}
			if w := time.Until(born.Add(selWindow + 2*time.Second)); w > 0 {
				pollFor(w)
			}
		}
		if prng.Chance(60) {
			produceAll()
			pollFor(time.Duration(prng.Intn(400)) * time.Millisecond)
		}
		if _, err := adm.DeleteTopic(ctx, selNames[i]); err != nil {
			log.Add("Dx")
			return true
		}
		delete(parts, i)
		log.Add("De:%d", i)
		hx.St.Inc("sel.plan.delete")
		if wanted(i) {
			hx.St.Inc("sel.plan.delete-of-selected")
		}
		at := time.Now()
		var d time.Duration
		switch plan {
		case "s":
			d = time.Duration(600+prng.Intn(1400)) * time.Millisecond
		case "l":
			d = time.Duration(5500+prng.Intn(2500)) * time.Millisecond
		default:
			d = time.Duration(prng.Intn(1000)) * time.Millisecond
		}
		if plan != "y" {
			// the client sees the topic missing at least once: two metadata responses after the deletion
			m0 := nMeta.Load()
			for dl := time.Now().Add(3 * time.Second); nMeta.Load() < m0+2 && time.Now().Before(dl); {
				poll(100 * time.Millisecond)
			}
		}
		pending, pendingAt = i, at.Add(d)
		return true
	}
	// named selection: the user who re-created a topic the consumer is meant to consume follows the documented protocol
	// for re-created topics (purge, add again), at once or a little later; (the UNKNOWN_TOPIC_ID poll errors alone are not
	// relied upon: against kfake they stop once the client opens a new fetch session after the deletion, see the report)
	readd, readdAt := -1, time.Time{}
	doReadd := func() {
		i := readd
		readd = -1
		co.PurgeTopicsFromConsuming(selNames[i])
		log.Add("Pu:%d", i)
		co.AddConsumeTopics(selNames[i])
		log.Add("At:%d", i)
		hx.St.Inc("sel.plan.purge-and-readd-after-recreate")
	}
	recreate := func() {
		i := pending
		pending = -1
		cycles--
		if readd >= 0 {
			doReadd()
		}
		create(i, 1+prng.Intn(4))
		hx.St.Inc("sel.plan.recreate." + plan)
		if !regex && interest[i] {
			readd, readdAt = i, time.Now().Add(time.Duration(prng.Intn(3)*prng.Intn(500))*time.Millisecond)
			if !time.Now().Before(readdAt) {
				doReadd()
			}
		}
		if prng.Chance(70) {
			produceAll()
		}
	}
	for s := 0; s < steps; s++ {
		if readd >= 0 && !time.Now().Before(readdAt) {
			doReadd()
		}
		if pending >= 0 && !time.Now().Before(pendingAt) {
			recreate()
			nextDel = s + 1 + prng.Intn(4)
		}
		if pending < 0 && cycles > 0 && s >= nextDel {
			startDelete()
		}
		switch k := rng.Intn(20); {
		case k < 3: // create a topic that never existed
			var cand []int
			for i := range selNames {
				if !ever[i] {
					cand = append(cand, i)
				}
			}
			if len(cand) > 0 {
				create(hx.Pick(rng, cand), 1+rng.Intn(3))
				hx.St.Inc("sel.step.create")
			}
		case k < 5: // grow
			if xs := existing(); len(xs) > 0 {
				i := hx.Pick(rng, xs)
				n := parts[i] + 1 + rng.Intn(2)
				if _, err := adm.UpdatePartitions(ctx, n, selNames[i]); err == nil {
					parts[i] = n
					log.Add("Gr:%d:%d", i, n)
					hx.St.Inc("sel.step.grow")
				} else {
					log.Add("Dx")
				}
			}
		case k < 6: // delete
			if xs := existing(); len(xs) > 1 {
				i := hx.Pick(rng, xs)
				if _, err := adm.DeleteTopic(ctx, selNames[i]); err == nil {
					delete(parts, i)
					log.Add("De:%d", i)
					hx.St.Inc("sel.step.delete")
				} else {
					log.Add("Dx")
				}
			}
		case k < 8:
			i := anyTopic()
			co.AddConsumeTopics(selNames[i])
			log.Add("At:%d", i)
			interest[i] = true
			hx.St.Inc("sel.step.addtopic")
		case k < 10:
			i := anyTopic()
			p := rng.Intn(max(parts[i], 1) + 1)
			co.AddConsumePartitions(map[string]map[int32]kgo.Offset{selNames[i]: {int32(p): kgo.NewOffset().AtStart()}})
			log.Add("Ap:%d:%d", i, p)
			interest[i] = true
			hx.St.Inc("sel.step.addpart")
		case k < 12:
			i := anyTopic()
			ps := pickSome(rng, max(parts[i], 1)+1, 1+rng.Intn(2))
			var ps32 []int32
			for _, p := range ps {
				ps32 = append(ps32, int32(p))
			}
			co.RemoveConsumePartitions(map[string][]int32{selNames[i]: ps32})
			for _, p := range ps {
				log.Add("Rp:%d:%d", i, p)
			}
			hx.St.Inc("sel.step.removepart")
		case k < 14:
			i := anyTopic()
			co.PurgeTopicsFromConsuming(selNames[i])
			log.Add("Pu:%d", i)
			bornAt[i] = time.Now() // regex mode: the topic is discovered anew
			hx.St.Inc("sel.step.purge")
		case k < 17:
			produceAll()
		default:
			time.Sleep(time.Duration(50+rng.Intn(400)) * time.Millisecond)
		}
		for i, n := 0, 1+rng.Intn(3); i < n; i++ {
			poll(time.Duration(30+rng.Intn(150)) * time.Millisecond)
		}
	}
	// a deletion still to come or a re-creation still due happens before the quiet end
	for guard := 0; (pending >= 0 || cycles > 0) && guard < 6; guard++ {
		if pending >= 0 {
			if w := time.Until(pendingAt); w > 0 {
				pollFor(w)
			}
			recreate()
		} else if !startDelete() {
			break
		}
	}
	if readd >= 0 {
		doReadd()
	}
	// quiet end: a producer round, three seconds of polls, a last producer round, then polls for at least three
	// seconds -- with a re-creation plan for the window plus three seconds: a re-created topic is re-discovered at the
	// latest when the old incarnation is considered deleted, plus a metadata refresh and the back-offs -- and until four
	// empty ones in a row
	// (time-based: a poll returns at once while records are available, and the client retries a failed offset load --
	// a pinned partition whose topic did not exist yet -- only after a one second back-off plus a metadata refresh)
	produceAll()
	for deadline := time.Now().Add(3 * time.Second); time.Now().Before(deadline); {
		poll(250 * time.Millisecond)
	}
	produceAll()
	empty := 0
	quiet := 3 * time.Second
	if plan != "0" {
		quiet += selWindow
	}
	deadline := time.Now().Add(quiet)
	for i := 0; (empty < 4 || time.Now().Before(deadline)) && i < 800; i++ {
		if poll(300*time.Millisecond) == 0 {
			empty++
		} else {
			empty = 0
		}
	}
	co.Close()
	cancel()
	synctest.Wait()
	log.Add("Q")
	hx.St.Inc("scen.total")
	hx.St.Inc("sel.mode." + tk[2])
	hx.St.Inc("sel.plan." + plan)
	if plan == "0" {
		return fmt.Sprintf("cfg:%s ", tk[2]) + log.String()
	}
	return fmt.Sprintf("cfg:%s:%s ", tk[2], plan) + log.String()
}

func selIndex(name string) int {
	for i, n := range selNames {
		if n == name {
			return i
		}
	}
	return 99
}

// pickSome returns k distinct numbers below n in increasing order
func pickSome(r *hx.Rng, n, k int) []int {
	k = min(k, n)
	chosen := map[int]bool{}
	for len(chosen) < k {
		chosen[r.Intn(n)] = true
	}
	var xs []int
	for i := 0; i < n; i++ {
		if chosen[i] {
			xs = append(xs, i)
		}
	}
	return xs
}

var _ = strings.Join
