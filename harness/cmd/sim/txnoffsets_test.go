// tofs: GroupTransactSession transactions and the group's committed offsets (C11, the "...and offsets are
// committed" half): what End reports against the coordinator's ground truth read right after it.
//
// op:   tofs <seed> <parts> <brokers> <members> <ntxns> <faultpct> <flow> <timeoutms>
//
//	members   1 or 2 member slots; slot i uses the transactional id tofs-<seed>-<i> for every instance it starts
//	flow      0 = kfake defaults (transaction.version 2, KIP-890 part 2: TxnOffsetCommit v5 adds the group implicitly)
//	          1 = transaction.version downgraded to 0 before the clients start (explicit AddPartitionsToTxn /
//	              AddOffsetsToTxn, TxnOffsetCommit and EndTxn v4)
//	timeoutms 0 = 30 s transaction timeout; otherwise the transaction timeout, with sleeps past it in some transactions
//
// impl: cfg:<members>:<parts>:<flow> then events
//
//	Ms:m:slot              member instance m started on a slot        Mx:m   the instance was closed
//	Mk:m:t                 the instance is closed inside transaction t WITHOUT calling End (a crash; the slot restarts)
//	B:m:t:ok|err           Begin for transaction t (t is unique in the scenario)
//	W:t:p:off              t polled records of input partition p; it sets out to commit off = last polled offset + 1
//	P:t:id                 t produced output record id              R:id:ok|err   its promise
//	Es:m:t:c|a             End(TryCommit|TryAbort) about to be called
//	Ee:m:t:committed|aborted|err   End returned
//	Er:m:t:aborted|err|committed   the application retried End(TryAbort) after an error; its result
//	G:m:t:p:off            ground truth right after End (or the retry) of t returned: the group's committed offset of input
//	                       partition p (-1 = none), read by a separate plain client with OffsetFetch, RequireStable false
//	X:m:t:open|empty|unknown   ... and the coordinator's state of the slot's transactional id (DescribeTransactions)
//	F:key:nth:act:t:c      fault decision for the nth request of an API key: act 1 killed before handling, 2 handled and response
//	                       dropped, 3 error code injected; t = the transaction in progress on the slot whose transactional id the
//	                       request names (0 = not attributable); c = 1 iff the request is EndTxn(commit)
//	Gf:p:off               the group's committed offsets at the end (after every transactional id was re-initialised)
//	O:part:off:id          read_committed view of the output topic at the end
//	ERRclient ERRinput ERRobserve ERRreadback   the harness could not do its part; the scenario is incomplete
//	Q
package main

import (
	"context"
	"encoding/binary"
	"fmt"
	"sort"
	"strconv"
	"strings"
	"sync"
	"sync/atomic"
	"testing"
	"testing/synctest"
	"time"

	"github.com/twmb/franz-go/pkg/kadm"
	"github.com/twmb/franz-go/pkg/kerr"
	"github.com/twmb/franz-go/pkg/kfake"
	"github.com/twmb/franz-go/pkg/kgo"
	"github.com/twmb/franz-go/pkg/kmsg"
	"verifharness/hx"
	"verifharness/sim"
)

func genTofs(a hx.Args) {
	r := hx.NewRng(a.Seed ^ 0x70f5)
	n := a.N(150, 2500)
	for i := 0; i < n; i++ {
		members := 1
		if r.Chance(35) {
			members = 2
		}
		hx.Emit("tofs %d %d %d %d %d %d %d %d", r.U64()%1000000, 1+r.Intn(3), 1+r.Intn(2), members, 4+r.Intn(7),
			hx.Pick(r, []int{0, 0, 10, 20, 35}), hx.Pick(r, []int{0, 0, 1}), hx.Pick(r, []int{0, 0, 0, 0, 400}))
	}
}

// tofsTxnID reads the transactional id (and, for EndTxn, the commit flag) out of a request frame (header included).
func tofsTxnID(key int16, frame []byte) (txid string, commit bool) {
	defer func() { recover() }() //nolint
	version := int16(binary.BigEndian.Uint16(frame[2:]))
	b := frame[8:]
	if n := int16(binary.BigEndian.Uint16(b)); n >= 0 { // client id
		b = b[2+int(n):]
	} else {
		b = b[2:]
	}
	var flexible bool
	switch key {
	case 0:
		flexible = version >= 9
	case 22:
		flexible = version >= 2
	case 24:
		if version >= 4 {
			return "", false // batched form: not attributed
		}
		flexible = version >= 3
	case 25, 26, 28:
		flexible = version >= 3
	default:
		return "", false
	}
	if flexible {
		b = b[1:] // empty tag section of the header
		n, w := binary.Uvarint(b)
		if n == 0 {
			return "", false
		}
		txid, b = string(b[w:w+int(n)-1]), b[w+int(n)-1:]
	} else {
		n := int16(binary.BigEndian.Uint16(b))
		if n < 0 {
			return "", false
		}
		txid, b = string(b[2:2+int(n)]), b[2+int(n):]
	}
	if key == 26 {
		commit = b[10] != 0 // producer id, producer epoch, committed
	}
	return txid, commit
}

func runTofs(t *testing.T, tk []string) string {
	if tk[0] != "tofs" || len(tk) != 9 {
		return "bad-op"
	}
	seed := uint64(hx.Atoi(tk[1]))
	parts, brokers, members, ntxns := int(hx.Atoi(tk[2])), int(hx.Atoi(tk[3])), int(hx.Atoi(tk[4])), int(hx.Atoi(tk[5]))
	faultpct, flow, timeoutms := int(hx.Atoi(tk[6])), int(hx.Atoi(tk[7])), int(hx.Atoi(tk[8]))
	log := &sim.Log{}
	partial := func() string { return log.String() }
	sim.Partial.Store(&partial)
	defer sim.Partial.Store(nil)
	net := &sim.Net{}
	ports := make([]int, brokers)
	base := int(9000 + (portBase.Add(1)%500)*10)
	for i := range ports {
		ports[i] = base + i
	}
	cluster, err := kfake.NewCluster(kfake.NumBrokers(brokers), kfake.Ports(ports...), kfake.SeedTopics(int32(parts), "in", "out"),
		kfake.ListenFn(net.ListenFn))
	if err != nil {
		return "ERR:cluster:" + err.Error()
	}
	defer cluster.Close()
	ctx, cancel := context.WithCancel(context.Background())
	defer cancel()
	common := []kgo.Opt{kgo.SeedBrokers(cluster.ListenAddrs()...), kgo.Dialer(net.Stack.DialContext),
		kgo.RetryBackoffFn(func(int) time.Duration { return 10 * time.Millisecond })}

	// the observer: a plain client, never transactional, never in the group
	obs, err := kgo.NewClient(common...)
	if err != nil {
		return "ERR:client:" + err.Error()
	}
	var obsOnce sync.Once
	closeObs := func() { obsOnce.Do(obs.Close) }
	defer closeObs()
	adm := kadm.NewClient(obs)
	if flow == 1 {
		req := kmsg.NewPtrUpdateFeaturesRequest()
		fu := kmsg.NewUpdateFeaturesRequestFeatureUpdate()
		fu.Feature = "transaction.version"
		fu.MaxVersionLevel = 0
		fu.UpgradeType = 2
		req.FeatureUpdates = append(req.FeatureUpdates, fu)
		resp, err := req.RequestWith(ctx, obs)
		if err != nil || resp.ErrorCode != 0 {
			return "ERR:downgrade"
		}
	}
	// input
	pr, err := kgo.NewClient(append([]kgo.Opt{kgo.DefaultProduceTopic("in"), kgo.RecordPartitioner(kgo.ManualPartitioner())}, common...)...)
	if err != nil {
		return "ERR:client:" + err.Error()
	}
	irng := hx.NewRng(seed*7 + 1)
	for p := 0; p < parts; p++ {
		n := 10 + irng.Intn(14)
		for i := 0; i < n; i++ {
			if err := pr.ProduceSync(ctx, &kgo.Record{Partition: int32(p), Key: []byte(fmt.Sprintf("%d-%d", p, i))}).FirstErr(); err != nil {
				log.Add("ERRinput")
			}
		}
	}
	pr.Close()

	txid := func(slot int) string { return fmt.Sprintf("tofs-%d-%d", seed, slot) }
	cur := make([]atomic.Int64, members) // the transaction in progress on a slot
	slotOf := func(id string) int {
		pre := fmt.Sprintf("tofs-%d-", seed)
		if !strings.HasPrefix(id, pre) {
			return -1
		}
		s, err := strconv.Atoi(id[len(pre):])
		if err != nil || s < 0 || s >= members {
			return -1
		}
		return s
	}
	curOf := func(id string) int64 {
		if s := slotOf(id); s >= 0 {
			return cur[s].Load()
		}
		return 0
	}
	var faultsOn atomic.Bool
	var fmu sync.Mutex
	frng := hx.NewRng(seed ^ 0xabcdef)
	faultKeys := map[int16]bool{0: true, 22: true, 24: true, 25: true, 26: true, 28: true}
	net.Fault = func(key int16, nth int, frame []byte) sim.Action {
		if !faultsOn.Load() || faultpct == 0 || !faultKeys[key] {
			return sim.Pass
		}
		fmu.Lock()
		defer fmu.Unlock()
		if frng.Intn(100) >= faultpct {
			return sim.Pass
		}
		id, commit := tofsTxnID(key, frame)
		c := 0
		if commit {
			c = 1
		}
		if frng.Bool() {
			log.Add("F:%d:%d:2:%d:%d", key, nth, curOf(id), c)
			hx.St.Inc(fmt.Sprintf("tofs.fault.dropafter.key%d", key))
			return sim.DropAfter
		}
		log.Add("F:%d:%d:1:%d:%d", key, nth, curOf(id), c)
		hx.St.Inc(fmt.Sprintf("tofs.fault.killbefore.key%d", key))
		return sim.KillBefore
	}
	var emu sync.Mutex
	erng := hx.NewRng(seed ^ 0x5151)
	for _, key := range []int16{25, 26, 28} { // AddOffsetsToTxn, EndTxn, TxnOffsetCommit
		key := key
		cluster.ControlKey(key, func(kreq kmsg.Request) (kmsg.Response, error, bool) {
			cluster.KeepControl()
			emu.Lock()
			inject := faultsOn.Load() && faultpct > 0 && erng.Intn(100) < faultpct/2
			code := hx.Pick(erng, []int16{kerr.CoordinatorLoadInProgress.Code, kerr.NotCoordinator.Code, kerr.ConcurrentTransactions.Code})
			emu.Unlock()
			if !inject {
				return nil, nil, false
			}
			hx.St.Inc(fmt.Sprintf("tofs.fault.errcode.key%d", key))
			switch r := kreq.(type) {
			case *kmsg.EndTxnRequest:
				c := 0
				if r.Commit {
					c = 1
				}
				log.Add("F:%d:0:3:%d:%d", key, curOf(r.TransactionalID), c)
				resp := r.ResponseKind().(*kmsg.EndTxnResponse)
				resp.ErrorCode = code
				return resp, nil, true
			case *kmsg.AddOffsetsToTxnRequest:
				log.Add("F:%d:0:3:%d:0", key, curOf(r.TransactionalID))
				resp := r.ResponseKind().(*kmsg.AddOffsetsToTxnResponse)
				resp.ErrorCode = code
				return resp, nil, true
			case *kmsg.TxnOffsetCommitRequest:
				log.Add("F:%d:0:3:%d:0", key, curOf(r.TransactionalID))
				resp := r.ResponseKind().(*kmsg.TxnOffsetCommitResponse)
				for _, rt := range r.Topics {
					st := kmsg.NewTxnOffsetCommitResponseTopic()
					st.Topic = rt.Topic
					for _, rp := range rt.Partitions {
						sp := kmsg.NewTxnOffsetCommitResponseTopicPartition()
						sp.Partition = rp.Partition
						sp.ErrorCode = code
						st.Partitions = append(st.Partitions, sp)
					}
					resp.Topics = append(resp.Topics, st)
				}
				return resp, nil, true
			}
			return nil, nil, false
		})
	}

	txTimeout := 30 * time.Second
	if timeoutms > 0 {
		txTimeout = time.Duration(timeoutms) * time.Millisecond
	}
	var nextM, nextT, nextID atomic.Int64
	// observe reads the ground truth right after End (or a retry) of transaction tno returned
	observe := func(m, tno int64, slot int) {
		octx, oc := context.WithTimeout(ctx, 5*time.Second)
		defer oc()
		offs, err := adm.FetchOffsets(octx, "g")
		if err != nil {
			log.Add("ERRobserve")
			return
		}
		for p := 0; p < parts; p++ {
			at := int64(-1)
			if o, ok := offs.Lookup("in", int32(p)); ok && o.Err == nil {
				at = o.At
			} else if ok {
				log.Add("ERRobserve")
				return
			}
			log.Add("G:%d:%d:%d:%d", m, tno, p, at)
		}
		st := "unknown"
		if d, err := adm.DescribeTransactions(octx, txid(slot)); err == nil {
			if x, ok := d[txid(slot)]; ok && x.Err == nil {
				switch x.State {
				case "Ongoing":
					st = "open"
				case "Empty":
					st = "empty"
				}
			}
		}
		log.Add("X:%d:%d:%s", m, tno, st)
	}
	// instance runs one member instance; it returns true when the slot is done
	instance := func(slot int, wr *hx.Rng) (done bool) {
		m := nextM.Add(1)
		sess, err := kgo.NewGroupTransactSession(append([]kgo.Opt{
			kgo.TransactionalID(txid(slot)), kgo.TransactionTimeout(txTimeout),
			kgo.ConsumerGroup("g"), kgo.ConsumeTopics("in"), kgo.FetchIsolationLevel(kgo.ReadCommitted()),
			kgo.FetchMaxWait(100 * time.Millisecond), kgo.SessionTimeout(8 * time.Second), kgo.HeartbeatInterval(300 * time.Millisecond),
			kgo.RebalanceTimeout(5 * time.Second), kgo.RequireStableFetchOffsets(), kgo.ConsumeResetOffset(kgo.NewOffset().AtStart()),
			kgo.RequestRetries(6), kgo.ProduceRequestTimeout(500 * time.Millisecond), kgo.RecordDeliveryTimeout(4 * time.Second),
			kgo.DefaultProduceTopic("out")}, common...)...)
		if err != nil {
			log.Add("ERRclient")
			return true
		}
		log.Add("Ms:%d:%d", m, slot)
		defer func() { sess.Close(); log.Add("Mx:%d", m) }()
		idle := 0
		for {
			if nextT.Load() >= int64(ntxns) {
				return true
			}
			pctx, pc := context.WithTimeout(ctx, 300*time.Millisecond)
			fs := sess.PollRecords(pctx, 1+wr.Intn(5))
			pc()
			if fs.NumRecords() == 0 {
				if idle++; idle > 12 {
					return true
				}
				continue
			}
			idle = 0
			tno := nextT.Add(1)
			cur[slot].Store(tno)
			if err := sess.Begin(); err != nil {
				log.Add("B:%d:%d:err", m, tno)
				hx.St.Inc("tofs.begin-error")
				return false
			}
			log.Add("B:%d:%d:ok", m, tno)
			want := map[int32]int64{}
			fs.EachRecord(func(r *kgo.Record) {
				if r.Offset+1 > want[r.Partition] {
					want[r.Partition] = r.Offset + 1
				}
			})
			var wp []int32
			for p := range want {
				wp = append(wp, p)
			}
			sort.Slice(wp, func(i, j int) bool { return wp[i] < wp[j] })
			for _, p := range wp {
				log.Add("W:%d:%d:%d", tno, p, want[p])
			}
			if len(wp) < parts {
				hx.St.Inc("tofs.txn.polled-some-partitions")
			}
			// a good share of the transactions filters everything: they only consume
			nprod := 0
			if !wr.Chance(40) {
				nprod = 1 + wr.Intn(3)
			}
			var pend sync.WaitGroup
			for i := 0; i < nprod; i++ {
				id := nextID.Add(1)
				log.Add("P:%d:%d", tno, id)
				pend.Add(1)
				sess.Produce(ctx, &kgo.Record{Key: []byte(strconv.FormatInt(id, 10)), Value: []byte(strconv.FormatInt(tno, 10))}, func(_ *kgo.Record, err error) {
					if err != nil {
						log.Add("R:%d:err", id)
					} else {
						log.Add("R:%d:ok", id)
					}
					pend.Done()
				})
			}
			if nprod == 0 {
				hx.St.Inc("tofs.txn.consume-only")
			} else {
				hx.St.Inc("tofs.txn.producing")
			}
			if wr.Chance(30) {
				time.Sleep(time.Duration(wr.Intn(60)) * time.Millisecond)
			}
			if timeoutms > 0 && wr.Chance(25) {
				time.Sleep(time.Duration(timeoutms+100) * time.Millisecond) // let the coordinator time the transaction out
				hx.St.Inc("tofs.txn.timeout-sleep")
			}
			if wr.Chance(4) {
				// a crash inside the transaction: nothing is ended; the slot restarts with the same transactional id
				fctx, fc := context.WithTimeout(ctx, 5*time.Second)
				sess.Client().Flush(fctx)
				fc()
				log.Add("Mk:%d:%d", m, tno)
				hx.St.Inc("tofs.txn.crash-without-end")
				return false
			}
			how, c := kgo.TryCommit, "c"
			if wr.Chance(13) {
				how, c = kgo.TryAbort, "a"
			}
			log.Add("Es:%d:%d:%s", m, tno, c)
			ectx, ec := context.WithTimeout(ctx, 20*time.Second)
			committed, err := sess.End(ectx, how)
			ec()
			pend.Wait()
			switch {
			case err != nil:
				log.Add("Ee:%d:%d:err", m, tno)
				hx.St.Inc("tofs.end.error")
			case committed:
				log.Add("Ee:%d:%d:committed", m, tno)
				hx.St.Inc("tofs.end.committed")
				if nprod == 0 {
					hx.St.Inc("tofs.end.committed-consume-only")
				}
			default:
				log.Add("Ee:%d:%d:aborted", m, tno)
				hx.St.Inc("tofs.end.aborted")
			}
			observe(m, tno, slot)
			if err != nil {
				// End reported an error. The application either restarts at once, or first retries as an abort.
				if !wr.Chance(50) {
					return false
				}
				rctx, rc := context.WithTimeout(ctx, 20*time.Second)
				rcommitted, rerr := sess.End(rctx, kgo.TryAbort)
				rc()
				switch {
				case rerr != nil:
					log.Add("Er:%d:%d:err", m, tno)
				case rcommitted:
					log.Add("Er:%d:%d:committed", m, tno)
				default:
					log.Add("Er:%d:%d:aborted", m, tno)
				}
				hx.St.Inc("tofs.end.retry-abort")
				observe(m, tno, slot)
				if rerr != nil || wr.Chance(50) {
					return false
				}
				hx.St.Inc("tofs.end.continue-after-retry")
			}
		}
	}
	faultsOn.Store(true)
	var wg sync.WaitGroup
	for slot := 0; slot < members; slot++ {
		slot := slot
		wg.Add(1)
		go func() {
			defer wg.Done()
			wr := hx.NewRng(seed*41 + uint64(slot))
			for inst := 0; inst < 40; inst++ {
				if instance(slot, wr) {
					return
				}
				hx.St.Inc("tofs.member-restart")
				time.Sleep(time.Duration(50+wr.Intn(400)) * time.Millisecond)
			}
		}()
		time.Sleep(time.Duration(hx.NewRng(seed+uint64(slot)).Intn(600)) * time.Millisecond)
	}
	wg.Wait()
	faultsOn.Store(false)
	// end every transaction still open: re-initialise each transactional id (the coordinator aborts what is open)
	for slot := 0; slot < members; slot++ {
		req := kmsg.NewPtrInitProducerIDRequest()
		id := txid(slot)
		req.TransactionalID = &id
		req.TransactionTimeoutMillis = 30000
		req.ProducerID, req.ProducerEpoch = -1, -1
		for try := 0; try < 20; try++ {
			rctx, rc := context.WithTimeout(ctx, 5*time.Second)
			resp, err := req.RequestWith(rctx, obs)
			rc()
			if err == nil && resp.ErrorCode == 0 {
				break
			}
			time.Sleep(100 * time.Millisecond)
		}
	}
	time.Sleep(time.Second)
	fctx, fc := context.WithTimeout(ctx, 5*time.Second)
	if offs, err := adm.FetchOffsets(fctx, "g"); err != nil {
		log.Add("ERRobserve")
	} else {
		for p := 0; p < parts; p++ {
			at := int64(-1)
			if o, ok := offs.Lookup("in", int32(p)); ok && o.Err == nil {
				at = o.At
			}
			log.Add("Gf:%d:%d", p, at)
		}
	}
	fc()
	type ent struct {
		off  int64
		id   string
		part int32
	}
	var out []ent
	var omu sync.Mutex
	if !readView(ctx, common, "out", true, func(r *kgo.Record) {
		omu.Lock()
		out = append(out, ent{r.Offset, string(r.Key), r.Partition})
		omu.Unlock()
	}) {
		log.Add("ERRreadback")
	}
	sort.Slice(out, func(i, j int) bool {
		if out[i].part != out[j].part {
			return out[i].part < out[j].part
		}
		return out[i].off < out[j].off
	})
	for _, e := range out {
		log.Add("O:%d:%d:%s", e.part, e.off, e.id)
	}
	cancel()
	closeObs()
	synctest.Wait()
	log.Add("Q")
	hx.St.Inc("scen.tofs")
	hx.St.Inc(fmt.Sprintf("scen.tofs.members%d", members))
	hx.St.Inc(fmt.Sprintf("scen.tofs.flow%d", flow))
	return fmt.Sprintf("cfg:%d:%d:%d ", members, parts, flow) + log.String()
}
