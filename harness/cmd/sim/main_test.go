// sim: scenario harness for the history ties. One test binary, several scenario kinds; the op's
// first token selects the kind, `gen --mode <kind[,kind]>` selects what is generated.
package main

import (
	"strings"
	"testing"
	"time"

	"verifharness/hx"
	"verifharness/sim"
)

type kind struct {
	gen func(hx.Args)
	run func(t *testing.T, tk []string) string
}

var kinds = map[string]kind{
	"shard": {genShard, runShard},
	"prod":  {genProd, runProd},
	"idem":  {genIdem, runIdem},
	"cons":  {genCons, runCons},
	"grp":   {genGrp, runGrp},
	"cmt":   {genCmt, runCmt},
	"txn":   {genTxn, runTxn},
	"eos":   {genEos, runEos},
	"tofs":  {genTofs, runTofs},
	"cls":   {genCls, runCls},
	"ackr":  {genAckr, runAckr},
	"share": {genShare, runShare},
	"off":   {genOff, runOff},
	"sel":   {genSel, runSel},
	"conn":  {genConn, runConn},
}

func TestMain(m *testing.M) {
	sim.DeadlineFor = func(tk []string) time.Duration {
		if tk[0] == "share" {
			return 30 * time.Second // a share scenario takes about a second; see share_test.go on HANG
		}
		return 0
	}
	sim.Main(m, func(a hx.Args) {
		for _, k := range strings.Split(a.Extra["mode"], ",") {
			if kd, ok := kinds[k]; ok {
				kd.gen(a)
			}
		}
	}, func(t *testing.T, tk []string) string {
		if kd, ok := kinds[tk[0]]; ok {
			return kd.run(t, tk)
		}
		return "bad-op"
	})
}
func TestSim(t *testing.T) { sim.RunTest(t) }
