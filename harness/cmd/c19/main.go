// C19 harness: kgo.DefaultCompressor / kgo.DefaultDecompressor of this tree (public API) plus the verif
// exports of compression.go (xerialDecode, maxDecompressedSize, mkCompressFlags, kept options).
//
//	tokens: <flags>  "-" | comma list of CompressFlag numbers (1 = CompressDisableZstd)
//	        <prefs>  "-" | comma list of codec:level        (codec -1..5 through VerifCompressionCodec)
//	        <input>  h:<hex> | r:<byte>:<n> | p:<seed>:<period>:<n> | t:<seed>:<n> | x:<seed>:<n> | m:<seed>:<n>
//	        <lf>     <len>:<fnv1a64 hex>
//
//	ops:  sel <flags> <prefs>                -> nil | err | opts=<c,..> used=<c> same=<0|1>
//	      flags <produceVersion>             -> "-" | comma list
//	      rt <flags> <prefs> <input> <lf>    -> nil | err | <codec> <dec> <ind> <xfl> <comp>
//	           dec  = ok:<lf> | err:<kind>   real default decompressor on the compressor's output with the codec it reported
//	           ind  = gzip: ok|mismatch|err|na (python3 zlib in a helper process); other codecs "-"
//	           xfl  = gzip: header byte 8; other codecs "-"
//	           comp = hex of the compressed bytes ("=" when the codec is none and the bytes equal the input)
//	      dec <codec> <max> <hex> [<lf>]     -> <res> <oracle>     Decompress with maxDecompressedSize = max
//	      xd <max> <dstlen> <hex>            -> <res> <oracle>     xerialDecode(dst, src) directly (dst = dstlen bytes 0xAA)
//	           res    = ok:<lf> | err:toolarge|xerial|other | panic:… | hang | pooldiff:<res>/<res with a user pool>
//	           oracle = "-" | s:<k>:<fnv>:<eof|err|cap>  (the library reader run directly: k bytes then that ending)
//	                  | b:<off>.<size>.<dl|e>.<ok|e|big|->;…   (s2.DecodedLen / s2.Decode of the blocks a correct walk visits)
package main

import (
	"bufio"
	"bytes"
	"compress/gzip"
	"encoding/binary"
	"encoding/hex"
	"fmt"
	"hash/adler32"
	"hash/crc32"
	"io"
	"math"
	"os"
	"os/exec"
	"strconv"
	"strings"
	"time"

	"github.com/klauspost/compress/s2"
	"github.com/pierrec/lz4/v4"
	"github.com/twmb/franz-go/pkg/kgo"
	"verifharness/hx"
)

// ---------------------------------------------------------------- helpers

func fnv(b []byte) uint64 {
	h := uint64(14695981039346656037)
	for _, c := range b {
		h ^= uint64(c)
		h *= 1099511628211
	}
	return h
}
func lf(b []byte) string { return fmt.Sprintf("%d:%016x", len(b), fnv(b)) }

type fnvW struct {
	h uint64
	n int64
}

func (w *fnvW) Write(b []byte) (int, error) {
	for _, c := range b {
		w.h ^= uint64(c)
		w.h *= 1099511628211
	}
	w.n += int64(len(b))
	return len(b), nil
}

var words = []string{"the", "offset", "partition", "broker", "record", "batch", "kafka", "commit", "a", "of",
	"leader", "epoch", "timestamp", "0123456789", "value", "key"}

func expand(d string) []byte {
	p := strings.Split(d, ":")
	at := func(i int) int64 { return hx.Atoi(p[i]) }
	switch p[0] {
	case "h":
		return hx.UnHex(p[1])
	case "r":
		return bytes.Repeat([]byte{byte(at(1))}, int(at(2)))
	case "p":
		r := hx.NewRng(uint64(at(1)))
		blk := r.Bytes(int(at(2)))
		n := int(at(3))
		out := make([]byte, 0, n+len(blk))
		for len(out) < n {
			out = append(out, blk...)
		}
		return out[:n]
	case "t":
		r := hx.NewRng(uint64(at(1)))
		n := int(at(2))
		out := make([]byte, 0, n+16)
		for len(out) < n {
			out = append(out, words[r.Intn(len(words))]...)
			out = append(out, ' ')
		}
		return out[:n]
	case "x":
		return hx.NewRng(uint64(at(1))).Bytes(int(at(2)))
	case "m":
		r := hx.NewRng(uint64(at(1)))
		n := int(at(2))
		out := make([]byte, 0, n+4096)
		for len(out) < n {
			l := 1 + r.Intn(4096)
			if r.Bool() {
				out = append(out, r.Bytes(l)...)
			} else {
				out = append(out, bytes.Repeat([]byte{byte(r.U64())}, l)...)
			}
		}
		return out[:n]
	}
	panic("bad input descriptor " + d)
}

func parsePrefs(s string) []kgo.CompressionCodec {
	if s == "-" {
		return nil
	}
	var out []kgo.CompressionCodec
	for _, e := range strings.Split(s, ",") {
		cl := strings.Split(e, ":")
		out = append(out, kgo.VerifCompressionCodec(int8(hx.Atoi(cl[0])), int(hx.Atoi(cl[1]))))
	}
	return out
}

func parseFlags(s string) []kgo.CompressFlag {
	if s == "-" {
		return nil
	}
	var out []kgo.CompressFlag
	for _, e := range strings.Split(s, ",") {
		out = append(out, kgo.CompressFlag(hx.Atoi(e)))
	}
	return out
}

func newDst() *bytes.Buffer { // as the client's byteBuffers pool hands them out
	w := bytes.NewBuffer(make([]byte, 8<<10))
	w.Reset()
	return w
}

// ---------------------------------------------------------------- independent inflate (python3 zlib)

const pyHelper = `
import sys, zlib, binascii
for line in sys.stdin:
    line = line.strip()
    if not line:
        continue
    try:
        data = binascii.unhexlify(line)
        d = zlib.decompressobj(31)
        out = d.decompress(data) + d.flush()
        if not d.eof or d.unused_data:
            print("err trailing"); sys.stdout.flush(); continue
        print("ok %d %d %d" % (len(out), zlib.crc32(out) & 0xffffffff, zlib.adler32(out) & 0xffffffff))
    except Exception as e:
        print("err %s" % type(e).__name__)
    sys.stdout.flush()
`

type pyInflate struct {
	cmd *exec.Cmd
	in  io.WriteCloser
	out *bufio.Reader
	bad bool
}

var py *pyInflate

func pyStart() {
	py = &pyInflate{}
	cmd := exec.Command("python3", "-u", "-c", pyHelper)
	in, err1 := cmd.StdinPipe()
	out, err2 := cmd.StdoutPipe()
	if err1 != nil || err2 != nil || cmd.Start() != nil {
		py.bad = true
		return
	}
	py.cmd, py.in, py.out = cmd, in, bufio.NewReaderSize(out, 1<<16)
}

// independentGunzip: ok | mismatch | err | na
func independentGunzip(comp, orig []byte) string {
	if py == nil {
		pyStart()
	}
	if py.bad {
		return "na"
	}
	if _, err := io.WriteString(py.in, hex.EncodeToString(comp)+"\n"); err != nil {
		py.bad = true
		return "na"
	}
	ch := make(chan string, 1)
	go func() { l, _ := py.out.ReadString('\n'); ch <- l }()
	var line string
	select {
	case line = <-ch:
	case <-time.After(20 * time.Second):
		py.bad = true
		return "na"
	}
	f := strings.Fields(line)
	if len(f) == 0 {
		py.bad = true
		return "na"
	}
	if f[0] != "ok" || len(f) != 4 {
		return "err"
	}
	if f[1] == strconv.Itoa(len(orig)) && f[2] == strconv.FormatUint(uint64(crc32.ChecksumIEEE(orig)), 10) &&
		f[3] == strconv.FormatUint(uint64(adler32.Checksum(orig)), 10) {
		return "ok"
	}
	return "mismatch"
}

// ---------------------------------------------------------------- implementation side

var decomps = map[int64]kgo.Decompressor{}
var pooledDecomps = map[int64]kgo.Decompressor{}

// userPool is a PoolDecompressBytes that hands out slices with a non-zero length and stale content.
type userPool struct{}

func (userPool) GetDecompressBytes(compressed []byte, _ kgo.CompressionCodecType) []byte {
	return bytes.Repeat([]byte{0xEE}, 64+len(compressed)%200)
}
func (userPool) PutDecompressBytes([]byte) {}

func pooledDecompFor(max int64) kgo.Decompressor {
	kgo.VerifSetMaxDecompressedSize(max)
	d, ok := pooledDecomps[max]
	if !ok {
		d = kgo.DefaultDecompressor(userPool{})
		pooledDecomps[max] = d
	}
	return d
}

func decompFor(max int64) kgo.Decompressor {
	kgo.VerifSetMaxDecompressedSize(max)
	d, ok := decomps[max]
	if !ok { // the zstd decoders of a decompressor capture the limit when first created
		d = kgo.DefaultDecompressor()
		decomps[max] = d
	}
	return d
}

func resOf(out []byte, err error) string {
	if err != nil {
		return "err:" + kgo.VerifDecompressErrKind(err)
	}
	return "ok:" + lf(out)
}

func codecsStr(cs []kgo.CompressionCodecType) string {
	s := make([]string, len(cs))
	for i, c := range cs {
		s[i] = strconv.Itoa(int(c))
	}
	return strings.Join(s, ",")
}

func opSel(t []string) string {
	c, err := kgo.DefaultCompressor(parsePrefs(t[2])...)
	if err != nil {
		return "err"
	}
	if c == nil {
		return "nil"
	}
	opts, _ := kgo.VerifCompressorOptions(c)
	probe := []byte("probe probe probe probe probe probe probe probe probe probe probe probe")
	out, used := c.Compress(newDst(), probe, parseFlags(t[1])...)
	hx.St.Inc(fmt.Sprintf("sel.used.%d", used))
	return fmt.Sprintf("opts=%s used=%d same=%s", codecsStr(opts), used, hx.B(bytes.Equal(out, probe)))
}

func opFlags(t []string) string {
	fl := kgo.VerifMkCompressFlags(int16(hx.Atoi(t[1])))
	if len(fl) == 0 {
		return "-"
	}
	s := make([]string, len(fl))
	for i, f := range fl {
		s[i] = strconv.Itoa(int(f))
	}
	return strings.Join(s, ",")
}

func sizeClass(n int) string {
	switch {
	case n == 0:
		return "0"
	case n < 64:
		return "1-63"
	case n < 4096:
		return "64-4K"
	case n < 65536:
		return "4K-64K"
	case n < 1<<20:
		return "64K-1M"
	default:
		return "1M+"
	}
}

func opRt(t []string) string {
	src := expand(t[3])
	if lf(src) != t[4] {
		return "bad-op"
	}
	c, err := kgo.DefaultCompressor(parsePrefs(t[2])...)
	if err != nil {
		return "err"
	}
	if c == nil {
		return "nil"
	}
	flags := parseFlags(t[1])
	dst := newDst()
	// first use of the pooled writers on other data, then the case itself on the same buffer, as the client does
	c.Compress(dst, []byte("warm-up payload warm-up payload 0123456789"), flags...)
	dst.Reset()
	out, used := c.Compress(dst, src, flags...)
	comp := append([]byte(nil), out...)
	d := decompFor(math.MaxInt32)
	dec, derr := d.Decompress(comp, used)
	ind, xfl := "-", "-"
	if used == kgo.CodecGzip {
		ind = independentGunzip(comp, src)
		if len(comp) > 8 {
			xfl = strconv.Itoa(int(comp[8]))
		}
		hx.St.Inc("rt.gzip.independent." + ind)
	}
	cs := hx.Hex(comp)
	if used == kgo.CodecNone && bytes.Equal(comp, src) {
		cs = "="
	}
	hx.St.Inc(fmt.Sprintf("rt.codec.%d", used))
	hx.St.Inc("rt.size." + sizeClass(len(src)))
	hx.St.Inc("rt.kind." + t[3][:1])
	if len(src) > 0 && used != kgo.CodecNone {
		if len(comp) < len(src)*9/10 {
			hx.St.Inc("rt.compressible")
		} else {
			hx.St.Inc("rt.incompressible")
		}
	}
	return fmt.Sprintf("%d %s %s %s %s", used, resOf(dec, derr), ind, xfl, cs)
}

var xerialPfx = []byte{130, 83, 78, 65, 80, 80, 89, 0}

const oracleCap = 1 << 28

func streamOracle(codec int, src []byte) string {
	var r io.Reader
	switch codec {
	case 1:
		zr, err := gzip.NewReader(bytes.NewReader(src))
		if err != nil {
			return fmt.Sprintf("s:0:%016x:err", fnv(nil))
		}
		r = zr
	case 3:
		r = lz4.NewReader(bytes.NewReader(src))
	}
	w := &fnvW{h: 14695981039346656037}
	n, err := io.Copy(w, io.LimitReader(r, oracleCap))
	end := "eof"
	if err != nil {
		end = "err"
	} else if n >= oracleCap {
		end = "cap"
	}
	return fmt.Sprintf("s:%d:%016x:%s", n, w.h, end)
}

func blockEntry(src []byte, off, size int) (string, bool) {
	b := src[off : off+size]
	l, err := s2.DecodedLen(b)
	if err != nil {
		return fmt.Sprintf("%d.%d.e.-", off, size), false
	}
	if l > 64<<20 {
		return fmt.Sprintf("%d.%d.%d.big", off, size, l), false
	}
	if _, err := s2.Decode(nil, b); err != nil {
		return fmt.Sprintf("%d.%d.%d.e", off, size, l), false
	}
	return fmt.Sprintf("%d.%d.%d.ok", off, size, l), true
}

// blockOracle answers for exactly the blocks a correct framing walk visits (it stops at the first
// framing error or the first block the library rejects).
func blockOracle(src []byte, framed bool) string {
	var es []string
	if !framed {
		e, _ := blockEntry(src, 0, len(src))
		return "b:" + e
	}
	p := 16
	for p < len(src) {
		if len(src)-p < 4 {
			break
		}
		size := int32(binary.BigEndian.Uint32(src[p:]))
		p += 4
		if size < 0 || len(src)-p < int(size) {
			break
		}
		e, ok := blockEntry(src, p, int(size))
		es = append(es, e)
		if !ok {
			break
		}
		p += int(size)
	}
	return "b:" + strings.Join(es, ";")
}

func opDec(t []string) string {
	codec := int(hx.Atoi(t[1]))
	max := hx.Atoi(t[2])
	src := hx.UnHex(t[3])
	oracle := "-"
	switch codec {
	case 1, 3:
		oracle = streamOracle(codec, src)
	case 2:
		oracle = blockOracle(src, len(src) > 16 && bytes.HasPrefix(src, xerialPfx))
	}
	d := decompFor(max)
	res := hx.Guard(30*time.Second, func() string {
		out, err := d.Decompress(src, kgo.CompressionCodecType(codec))
		return resOf(out, err)
	})
	// the same call through a decompressor with a user-provided PoolDecompressBytes must answer the same
	if codec != 0 && res != "hang" {
		dp := pooledDecompFor(max)
		res2 := hx.Guard(30*time.Second, func() string {
			out, err := dp.Decompress(src, kgo.CompressionCodecType(codec))
			return resOf(out, err)
		})
		if res2 != res {
			res = "pooldiff:" + res + "/" + res2
		}
		hx.St.Inc("dec.userpool.checked")
	}
	hx.St.Inc(fmt.Sprintf("dec.codec.%d.%s", codec, strings.SplitN(res, ":", 2)[0]))
	if strings.HasPrefix(res, "err:") {
		hx.St.Inc("dec.err." + res[4:])
	}
	switch {
	case max == math.MaxInt32:
		hx.St.Inc("dec.max.default")
	case max <= 1000:
		hx.St.Inc("dec.max.1-1000")
	case max <= 65537:
		hx.St.Inc("dec.max.1001-65537")
	default:
		hx.St.Inc("dec.max.65538-2MiB")
	}
	if len(t) == 5 {
		hx.St.Inc("dec.wellformed-with-expected-data")
	}
	return res + " " + oracle
}

func opXd(t []string) string {
	max := hx.Atoi(t[1])
	dstlen := int(hx.Atoi(t[2]))
	src := hx.UnHex(t[3])
	oracle := "b:"
	if len(src) >= 16 {
		oracle = blockOracle(src, true)
	}
	kgo.VerifSetMaxDecompressedSize(max)
	var dst []byte
	if dstlen >= 0 {
		dst = bytes.Repeat([]byte{0xAA}, dstlen)
	}
	res := hx.Guard(30*time.Second, func() string {
		out, err := kgo.VerifXerialDecode(dst, src)
		return resOf(out, err)
	})
	if strings.HasPrefix(res, "panic:") {
		res = "panic"
	}
	hx.St.Inc("xd." + strings.SplitN(res, ":", 2)[0])
	return res + " " + oracle
}

func run() {
	hx.RunLines(0, func(t []string) string {
		defer kgo.VerifSetMaxDecompressedSize(math.MaxInt32)
		hx.St.Inc("op." + t[0])
		switch {
		case t[0] == "sel" && len(t) == 3:
			return opSel(t)
		case t[0] == "flags" && len(t) == 2:
			return opFlags(t)
		case t[0] == "rt" && len(t) == 5:
			return hx.Guard(120*time.Second, func() string { return opRt(t) })
		case t[0] == "dec" && (len(t) == 4 || len(t) == 5):
			return opDec(t)
		case t[0] == "xd" && len(t) == 4:
			return opXd(t)
		}
		return "bad-op"
	})
}

func main() {
	a := hx.Parse()
	switch a.Mode {
	case "gen":
		gen(a)
		hx.Flush()
	case "run":
		run()
	default:
		os.Exit(2)
	}
}
