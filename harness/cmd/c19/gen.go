package main

import (
	"bytes"
	"encoding/binary"
	"fmt"
	"math"
	"strings"

	"github.com/klauspost/compress/s2"
	"github.com/twmb/franz-go/pkg/kgo"
	"verifharness/hx"
)

const defMax = int64(math.MaxInt32)

var levelPool = map[int][]int{
	0: {0},
	1: {-1, 0, 1, 5, 9, -2, 10, -3, 100},                   // gzip: valid -2..9, 0 means "default" in DefaultCompressor
	2: {0, 7},                                               // snappy has no level
	3: {0, 512, 8192, 131072, -5, 1, 262144},               // lz4: Fast=0, Level1..9 = 1<<9 .. 1<<17
	4: {0, 1, 2, 3, 4, 5, -1},                               // zstd: EncoderLevel 1..4
}

func prefsStr(cs []int, lv []int) string {
	if len(cs) == 0 {
		return "-"
	}
	s := make([]string, len(cs))
	for i := range cs {
		s[i] = fmt.Sprintf("%d:%d", cs[i], lv[i])
	}
	return strings.Join(s, ",")
}

func genSel(r *hx.Rng, thorough bool) {
	maxLen := 3
	if thorough {
		maxLen = 5
	}
	var rec func(cur []int)
	rec = func(cur []int) {
		lv := make([]int, len(cur))
		for _, fl := range []string{"-", "1"} {
			hx.Emit("sel %s %s", fl, prefsStr(cur, lv))
		}
		if len(cur) == maxLen {
			return
		}
		for c := 0; c <= 4; c++ {
			rec(append(append([]int(nil), cur...), c))
		}
	}
	rec(nil)
	for _, l := range [][]int{{5}, {-1}, {1, 5}, {5, 1}, {0, 5}, {4, -1}, {1, 1, 6}, {-128}, {127, 0}} {
		for _, fl := range []string{"-", "1"} {
			hx.Emit("sel %s %s", fl, prefsStr(l, make([]int, len(l))))
		}
	}
	n := 150
	if thorough {
		n = 1500
	}
	flagPool := []string{"-", "1", "1", "1", "2", "2,1", "1,1", "3", "0", "1,2"}
	for i := 0; i < n; i++ {
		k := 1 + r.Intn(6)
		cs, lv := make([]int, k), make([]int, k)
		for j := range cs {
			cs[j] = hx.Pick(r, []int{0, 1, 2, 3, 4, 4, 4, 1, 2, 3})
			if r.Chance(3) {
				cs[j] = hx.Pick(r, []int{5, -1, 9})
			}
			lv[j] = hx.Pick(r, levelPool[(cs[j]%5+5)%5])
		}
		hx.Emit("sel %s %s", hx.Pick(r, flagPool), prefsStr(cs, lv))
	}
}

func genFlags() {
	for v := -2; v <= 14; v++ {
		hx.Emit("flags %d", v)
	}
	hx.Emit("flags 32767")
	hx.Emit("flags -32768")
}

func kindDesc(r *hx.Rng, kind byte, n int) string {
	s := r.Intn(1 << 30)
	switch kind {
	case 'r':
		return fmt.Sprintf("r:%d:%d", r.Intn(256), n)
	case 'p':
		return fmt.Sprintf("p:%d:%d:%d", s, hx.Pick(r, []int{1, 2, 3, 7, 64, 300, 5000, 70000}), n)
	case 't':
		return fmt.Sprintf("t:%d:%d", s, n)
	case 'x':
		return fmt.Sprintf("x:%d:%d", s, n)
	default:
		return fmt.Sprintf("m:%d:%d", s, n)
	}
}

func emitRt(flags, prefs, desc string) {
	hx.Emit("rt %s %s %s %s", flags, prefs, desc, lf(expand(desc)))
}

var boundarySizes = []int{0, 1, 2, 3, 4, 15, 16, 17, 59, 60, 61, 62, 255, 256, 257, 4095, 4096, 65535, 65536, 65537}

func genRt(r *hx.Rng, thorough bool) {
	kinds := []byte{'r', 'p', 't', 'x', 'm'}
	for c := 1; c <= 4; c++ {
		def := fmt.Sprintf("%d:%d", c, levelPool[c][0])
		for i, n := range boundarySizes {
			for j := 0; j < 3; j++ {
				emitRt("-", def, kindDesc(r, kinds[(i+j*2)%5], n))
			}
		}
		for _, k := range []string{"t", "x"} {
			emitRt("-", def, kindDesc(r, k[0], 262144+r.Intn(3)-1))
		}
		emitRt("-", def, kindDesc(r, 'm', 1<<20))
		emitRt("-", def, kindDesc(r, 'x', 1<<20))
		emitRt("-", def, kindDesc(r, 'r', 1<<20+1))
		nr := 30
		if thorough {
			nr = 200
		}
		for i := 0; i < nr; i++ {
			n := r.Intn(1 << uint(1+r.Intn(18)))
			if thorough && r.Chance(3) {
				n = 1<<20 + r.Intn(1<<19)
			}
			emitRt("-", def, kindDesc(r, hx.Pick(r, kinds), n))
		}
		for _, lv := range levelPool[c][1:] {
			p := fmt.Sprintf("%d:%d", c, lv)
			for _, n := range []int{0, 1, 100, 5000, 70000, 300000} {
				k := hx.Pick(r, kinds)
				if n > 100000 { // keep the big ones compressible: the lines stay modest
					k = hx.Pick(r, []byte{'r', 't', 'm'})
				}
				emitRt("-", p, kindDesc(r, k, n+r.Intn(50)*min(n, 1)))
			}
			if thorough {
				for i := 0; i < 40; i++ {
					emitRt("-", p, kindDesc(r, hx.Pick(r, kinds), r.Intn(1<<uint(1+r.Intn(19)))))
				}
			}
		}
	}
	// preference lists and flags: the reported codec is the one that must decode
	lists := []string{"4:0,2:0", "4:0,1:0", "4:3,3:512", "4:0", "4:0,0:0,1:0", "4:0,4:2,2:0", "2:0,4:0", "3:0,4:0", "1:9,1:1", "1:1,1:9",
		"0:0,1:0", "0:0", "4:1,3:0,2:0,1:0", "2:0,2:7,0:0", "5:0", "1:0,7:0"}
	for _, l := range lists {
		for _, fl := range []string{"-", "1", "2,1"} {
			emitRt(fl, l, kindDesc(r, hx.Pick(r, kinds), 1+r.Intn(20000)))
		}
	}
	nl := 60
	if thorough {
		nl = 600
	}
	for i := 0; i < nl; i++ {
		k := 1 + r.Intn(4)
		cs, lv := make([]int, k), make([]int, k)
		for j := range cs {
			cs[j] = hx.Pick(r, []int{1, 2, 3, 4, 4, 4, 0})
			lv[j] = hx.Pick(r, levelPool[cs[j]])
		}
		emitRt(hx.Pick(r, []string{"-", "1", "1", "2"}), prefsStr(cs, lv), kindDesc(r, hx.Pick(r, kinds), r.Intn(1<<uint(1+r.Intn(16)))))
	}
}

// ---------------------------------------------------------------- hostile / bounded decompression

func compressWith(codec, level int, src []byte) []byte {
	if codec == 0 {
		return src
	}
	c, err := kgo.DefaultCompressor(kgo.VerifCompressionCodec(int8(codec), level))
	if err != nil || c == nil {
		panic("generator: no compressor")
	}
	out, _ := c.Compress(newDst(), src)
	return append([]byte(nil), out...)
}

func xerialFrame(chunks [][]byte) []byte {
	out := append([]byte(nil), xerialPfx...)
	out = append(out, 0, 0, 0, 1, 0, 0, 0, 1)
	for _, ch := range chunks {
		enc := s2.EncodeSnappy(nil, ch)
		out = binary.BigEndian.AppendUint32(out, uint32(len(enc)))
		out = append(out, enc...)
	}
	return out
}

func chunked(b []byte, n int) [][]byte {
	var out [][]byte
	for len(b) > n {
		out = append(out, b[:n])
		b = b[n:]
	}
	return append(out, b)
}

// compressed form number 5 = xerial-framed snappy (decoded as codec 2)
func compressForm(form int, src []byte, r *hx.Rng) ([]byte, int) {
	if form == 5 {
		sizes := []int{32 << 10, 1000, 7, 64 << 10}
		if len(src) > 4096 { // the Java producer's xerial writer uses 32 KiB blocks
			sizes = []int{32 << 10, 64 << 10, 32 << 10, 5000 + len(src)/16}
		}
		return xerialFrame(chunked(src, hx.Pick(r, sizes))), 2
	}
	return compressWith(form, 0, src), form
}

func emitDec(codec int, max int64, comp []byte, want []byte) {
	if want == nil {
		hx.Emit("dec %d %d %s", codec, max, hx.Hex(comp))
	} else {
		hx.Emit("dec %d %d %s %s", codec, max, hx.Hex(comp), lf(want))
	}
}

func mutate(r *hx.Rng, b []byte) []byte {
	m := append([]byte(nil), b...)
	switch r.Intn(9) {
	case 0, 1: // bit flips
		for k := 0; k <= r.Intn(3) && len(m) > 0; k++ {
			m[r.Intn(len(m))] ^= 1 << uint(r.Intn(8))
		}
	case 2: // truncation
		if len(m) > 0 {
			m = m[:r.Intn(len(m))]
		}
	case 3: // byte overwrite with an edge value
		if len(m) > 0 {
			m[r.Intn(len(m))] = hx.Pick(r, []byte{0, 1, 0x7f, 0x80, 0xff, 0xf0, 0x0f, 60 << 2, 63 << 2})
		}
	case 4: // insertion
		i := r.Intn(len(m) + 1)
		m = append(m[:i], append(r.Bytes(1+r.Intn(4)), m[i:]...)...)
	case 5: // deletion
		if len(m) > 1 {
			i := r.Intn(len(m) - 1)
			m = append(m[:i], m[i+1+r.Intn(min(4, len(m)-i-1)):]...)
		}
	case 6: // trailing garbage
		m = append(m, r.Bytes(1+r.Intn(12))...)
	case 7: // a 4-byte field overwritten with an edge value
		if len(m) >= 4 {
			i := r.Intn(len(m) - 3)
			v := hx.Pick(r, []uint32{0, 1, 0xffffffff, 0x80000000, 0x7fffffff, uint32(len(m)), uint32(len(m) - i - 4), uint32(len(m)-i-4) + 1, 0x01000000})
			if r.Bool() {
				binary.BigEndian.PutUint32(m[i:], v)
			} else {
				binary.LittleEndian.PutUint32(m[i:], v)
			}
		}
	default: // doubled (concatenated streams)
		m = append(m, b...)
	}
	return m
}

func uvarint(v uint64) []byte { return binary.AppendUvarint(nil, v) }

func genDec(r *hx.Rng, thorough bool) {
	zeros := func(n int64) []byte { return make([]byte, n) }
	text := func(n int) []byte { return expand(fmt.Sprintf("t:%d:%d", r.Intn(1000), n)) }
	forms := []int{1, 2, 3, 4, 5}
	// (a) well-formed data of length L against limits around L: L <= max must decode, L > max must be refused
	for _, form := range forms {
		for _, L := range []int64{0, 1, 100, 4096, 65536, 100000} {
			for _, mk := range []int64{L - 1, L, L + 1, 2 * L, defMax} {
				if mk < 1 { // a limit of 0 is rejected by zstd.WithDecoderMaxMemory: the pooled decoder would be nil
					continue
				}
				for _, body := range [][]byte{zeros(L), text(int(L))} {
					comp, codec := compressForm(form, body, r)
					emitDec(codec, mk, comp, body)
				}
			}
		}
	}
	// (b) bombs: highly compressible payloads far larger than the limit
	for _, form := range forms {
		for _, max := range []int64{1, 100, 4096, 65536, 1 << 20} {
			ks := []int64{2, 32}
			if thorough {
				ks = []int64{2, 3, 32, 100}
			}
			for _, k := range ks {
				if !thorough && max >= 1<<20 && k > 8 {
					k = 8
				}
				L := max*k + 1
				if (form == 2 || form == 5) && L > 4<<20 {
					L = 4<<20 + 1 // snappy compresses a run only ~20x; keep the lines modest
				}
				if L > 128<<20 {
					L = 128 << 20
				}
				body := zeros(L)
				comp, codec := compressForm(form, body, r)
				emitDec(codec, max, comp, body)
			}
		}
	}
	// raw snappy whose header claims more than it carries
	for _, claim := range []uint64{1 << 32, 1<<32 - 1, 1 << 31, 1<<31 - 1, 65537, 65536, 101, 100, 1, 0} {
		for _, max := range []int64{defMax, 65536, 100, 1} {
			if claim > 64<<20 && int64(claim) <= max {
				// within the limit the library allocates the claimed size up front (2 GiB for a 5-byte input at the
				// default limit: by design; clearing it takes tens of seconds on this machine) - not exercised
				continue
			}
			emitDec(2, max, append(uvarint(claim), 0x00, 'a'), nil)
			emitDec(2, max, uvarint(claim), nil)
		}
	}
	// xerial: cumulative size against the limit, block by block
	blk := zeros(32 << 10)
	for _, n := range []int{1, 2, 3, 4, 40} {
		var chunks [][]byte
		for i := 0; i < n; i++ {
			chunks = append(chunks, blk)
		}
		fr := xerialFrame(chunks)
		L := int64(n) * 32 << 10
		for _, max := range []int64{L - 1, L, L + 1, L - 32<<10, L - 32<<10 + 1, 32<<10 - 1, 65536, defMax} {
			if max >= 1 {
				emitDec(2, max, fr, bytes.Repeat(blk, n))
			}
		}
	}
	// zstd frames that declare a huge content size
	for _, fcs := range []uint64{1 << 40, 1 << 31, 1<<31 - 1, 65537} {
		h := []byte{0x28, 0xb5, 0x2f, 0xfd, 0xe0}
		h = binary.LittleEndian.AppendUint64(h, fcs)
		for _, tail := range [][]byte{nil, {0x01, 0x00, 0x00}, {0x03, 0x00, 0x00, 0x00}, {0x02 | 1, 0xff, 0xff, 0x00}} {
			for _, max := range []int64{defMax, 65536} {
				emitDec(4, max, append(append([]byte(nil), h...), tail...), nil)
			}
		}
	}
	// (c) mutated compressed inputs
	nm := 140
	if thorough {
		nm = 1500
	}
	kinds := []byte{'r', 'p', 't', 'x', 'm'}
	maxPool := []int64{defMax, defMax, 65536, 1000, 100, 1}
	for _, form := range forms {
		for i := 0; i < nm; i++ {
			n := r.Intn(1 << uint(r.Intn(12)))
			if r.Chance(4) {
				n = 60000 + r.Intn(20000)
			}
			body := expand(kindDesc(r, hx.Pick(r, kinds), n))
			comp, codec := compressForm(form, body, r)
			m := mutate(r, comp)
			if r.Chance(25) {
				m = mutate(r, m)
			}
			emitDec(codec, hx.Pick(r, maxPool), m, nil)
		}
	}
	// (d) arbitrary bytes under every codec number
	nr := 60
	if thorough {
		nr = 500
	}
	for _, codec := range []int{0, 1, 2, 3, 4, 5, -1, 77} {
		emitDec(codec, defMax, nil, nil)
		for i := 0; i < nr; i++ {
			b := r.Bytes(r.Intn(1 << uint(r.Intn(8))))
			if r.Chance(30) && len(b) >= 4 { // a plausible magic in front
				copy(b, hx.Pick(r, [][]byte{{0x1f, 0x8b, 8, 0}, {0x04, 0x22, 0x4d, 0x18}, {0x28, 0xb5, 0x2f, 0xfd}, {0x02, 0x21, 0x4c, 0x18}}))
			}
			emitDec(codec, hx.Pick(r, maxPool), b, nil)
		}
	}
	// (e) xerial framing: every truncation of a small frame, tampered length fields, short headers
	small := xerialFrame([][]byte{[]byte("hello hello hello hello"), []byte("xerial"), {}, bytes.Repeat([]byte{7}, 300)})
	for i := 0; i <= len(small); i++ {
		emitDec(2, defMax, small[:i], nil)
	}
	for i := 0; i <= 24; i++ { // the prefix followed by i arbitrary bytes: around the `len(src) > 16` dispatch
		emitDec(2, defMax, append(append([]byte(nil), xerialPfx...), r.Bytes(i)...), nil)
	}
	nx := 200
	if thorough {
		nx = 2000
	}
	for i := 0; i < nx; i++ {
		var chunks [][]byte
		for k := r.Intn(5); k >= 0; k-- {
			chunks = append(chunks, expand(kindDesc(r, hx.Pick(r, kinds), r.Intn(1<<uint(r.Intn(11))))))
		}
		fr := xerialFrame(chunks)
		// tamper one length field
		p := 16
		var offs []int
		for p+4 <= len(fr) {
			offs = append(offs, p)
			p += 4 + int(binary.BigEndian.Uint32(fr[p:]))
		}
		o := hx.Pick(r, offs)
		cur := binary.BigEndian.Uint32(fr[o:])
		rest := uint32(len(fr) - o - 4)
		v := hx.Pick(r, []uint32{0, 1, cur - 1, cur + 1, rest, rest + 1, rest - 1, 0xffffffff, 0x80000000, 0x7fffffff, 0x7ffffffe,
			cur<<24 | cur>>24 | (cur&0xff00)<<8 | (cur>>8)&0xff00, cur + 4, cur | 0x80000000})
		m := append([]byte(nil), fr...)
		binary.BigEndian.PutUint32(m[o:], v)
		if r.Chance(20) {
			m = mutate(r, m)
		}
		emitDec(2, hx.Pick(r, maxPool), m, nil)
	}
	// (f) xerialDecode called directly: short sources (its documented precondition is len >= 16) and a non-empty dst
	for i := 0; i <= 17; i++ {
		hx.Emit("xd %d %d %s", defMax, hx.Pick(r, []int{-1, 0, 5}), hx.Hex(small[:i]))
	}
	for _, n := range []int{1, 2, 3} {
		var chunks [][]byte
		var want []byte
		for i := 0; i < n; i++ {
			c := expand(kindDesc(r, hx.Pick(r, kinds), 1000))
			chunks = append(chunks, c)
			want = append(want, c...)
		}
		fr := xerialFrame(chunks)
		L := int64(n) * 1000
		for _, dl := range []int{-1, 0, 1, 999, 1000} {
			for _, max := range []int64{L + int64(max(dl, 0)), L + int64(max(dl, 0)) - 1, L + int64(max(dl, 0)) + 1, L, defMax, int64(max(dl, 0)), 0} {
				hx.Emit("xd %d %d %s", max, dl, hx.Hex(fr))
			}
		}
	}
	nd := 60
	if thorough {
		nd = 600
	}
	for i := 0; i < nd; i++ {
		var chunks [][]byte
		for k := r.Intn(4); k >= 0; k-- {
			chunks = append(chunks, expand(kindDesc(r, hx.Pick(r, kinds), r.Intn(600))))
		}
		fr := xerialFrame(chunks)
		if r.Chance(60) {
			fr = mutate(r, fr)
		}
		hx.Emit("xd %d %d %s", hx.Pick(r, []int64{defMax, 2000, 1000, 600, 100, 0}), hx.Pick(r, []int{-1, 0, 3, 100, 1000}), hx.Hex(fr))
	}
}

func gen(a hx.Args) {
	r := hx.NewRng(a.Seed)
	th := a.Tier == "thorough"
	genSel(r, th)
	genFlags()
	genRt(r, th)
	genDec(r, th)
}
