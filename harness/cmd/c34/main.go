// C34 harness: kfake's ACL decision functions (verif export of allowedACL / anyAllowedACL evaluated in-process on
// ACL sets built from plain values) and the InitProducerID authorization through the wire against a real kfake
// with EnableSASL + EnableACLs.
//
//	ops:  tab <enable> <supers> <rt> <users> <hosts> <names> <ops> <acls>  -> bit string
//	          for u in users, h in hosts, n in names, o in ops: allowedACL(u@h, n, rt, o)
//	          then for u in users, h in hosts, o in ops:       anyAllowedACL(u@h, rt, o)
//	      wire <acls>  -> 5 bits: InitProducerID accepted for user a, user b (no transactional id) and for user a
//	          with transactional ids a, ab, b (client at 127.0.0.1; ACLs installed by the superuser admin via
//	          DeleteACLs(all) + CreateACLs)
//
//	lists are comma separated (`-` = empty/nil list, `~` = empty string); an ACL entry is
//	principal,host,rtype,name,pattern,op,perm (kmsg numeric codes), entries are `;` separated.
package main

import (
	"context"
	"fmt"
	"net"
	"os"
	"strings"
	"time"

	"github.com/twmb/franz-go/pkg/kfake"
	"github.com/twmb/franz-go/pkg/kgo"
	"github.com/twmb/franz-go/pkg/kmsg"
	"github.com/twmb/franz-go/pkg/sasl/plain"
	"verifharness/hx"
)

type entry struct {
	principal, host string
	rt              int
	name            string
	pattern, op     int
	perm            int
}

func tok(s string) string {
	if s == "" {
		return "~"
	}
	return s
}
func untok(s string) string {
	if s == "~" {
		return ""
	}
	return s
}
func (e entry) String() string {
	return fmt.Sprintf("%s,%s,%d,%s,%d,%d,%d", tok(e.principal), tok(e.host), e.rt, tok(e.name), e.pattern, e.op, e.perm)
}
func aclsTok(es []entry) string {
	if len(es) == 0 {
		return "-"
	}
	ss := make([]string, len(es))
	for i, e := range es {
		ss[i] = e.String()
	}
	return strings.Join(ss, ";")
}
func csv(ss []string) string {
	if len(ss) == 0 {
		return "-"
	}
	t := make([]string, len(ss))
	for i, s := range ss {
		t[i] = tok(s)
	}
	return strings.Join(t, ",")
}
func csvInts(xs []int) string {
	if len(xs) == 0 {
		return "-"
	}
	t := make([]string, len(xs))
	for i, x := range xs {
		t[i] = fmt.Sprint(x)
	}
	return strings.Join(t, ",")
}
func uncsv(s string) []string {
	if s == "-" {
		return nil
	}
	ps := strings.Split(s, ",")
	for i := range ps {
		ps[i] = untok(ps[i])
	}
	return ps
}
func uncsvInts(s string) []int {
	var r []int
	for _, p := range uncsv(s) {
		r = append(r, int(hx.Atoi(p)))
	}
	return r
}
func parseAcls(s string) []entry {
	if s == "-" {
		return nil
	}
	var es []entry
	for _, t := range strings.Split(s, ";") {
		f := strings.Split(t, ",")
		if len(f) != 7 {
			panic("bad acl token " + t)
		}
		es = append(es, entry{untok(f[0]), untok(f[1]), int(hx.Atoi(f[2])), untok(f[3]), int(hx.Atoi(f[4])), int(hx.Atoi(f[5])), int(hx.Atoi(f[6]))})
	}
	return es
}

const (
	h1 = "10.0.0.1"
	h2 = "10.0.0.2"
)

var (
	allOps   = []int{3, 4, 5, 6, 7, 8, 9, 10, 11, 12}
	medOps   = []int{3, 4, 5, 8, 10, 11}
	smallOps = []int{3, 4, 8}
	qNames   = []string{"a", "ab", "abc", "b", "*", "c"}
)

type universe struct {
	users, hosts, names []string
	ops                 []int
}

func emitTab(enable bool, supers []string, rt int, u universe, es []entry) {
	hx.Emit("tab %s %s %d %s %s %s %s %s", hx.B(enable), csv(supers), rt, csv(u.users), csv(u.hosts), csv(u.names), csvInts(u.ops), aclsTok(es))
}

// alphabet enumerates principals × hosts × names × patterns × ops × perms for one resource type.
func alphabet(principals, hosts, names []string, ops []int, rt int) []entry {
	var es []entry
	for _, p := range principals {
		for _, h := range hosts {
			for _, n := range names {
				for _, pat := range []int{3, 4} {
					for _, o := range ops {
						for _, perm := range []int{3, 2} {
							es = append(es, entry{p, h, rt, n, pat, o, perm})
						}
					}
				}
			}
		}
	}
	return es
}

func gen(a hx.Args) {
	r := hx.NewRng(a.Seed)
	thorough := a.Tier == "thorough"
	admin := []string{"admin"}
	uFull := universe{[]string{"a", "b"}, []string{h1, h2}, qNames, allOps}
	uMed := universe{[]string{"a", "b"}, []string{h1, h2}, qNames, medOps}
	uSmall := universe{[]string{"a", "b"}, []string{h1}, qNames, smallOps}
	names4 := []string{"*", "a", "ab", "b"}
	entryOps := []int{2, 3, 4, 5, 6, 7, 8, 9, 10, 11, 12}

	// A. fixed witnesses (the shapes of DESIGN §8-b and of every matcher rule)
	al := func(name string, pat, op, perm int) entry { return entry{"User:a", "*", 2, name, pat, op, perm} }
	for _, es := range [][]entry{
		{al("a", 3, 4, 3), al("*", 3, 4, 2)},
		{al("a", 3, 4, 3), al("a", 3, 4, 2)},
		{al("ab", 3, 4, 3), al("a", 4, 4, 2)},
		{al("ab", 4, 4, 3), al("a", 4, 4, 2)},
		{al("a", 4, 4, 3), al("ab", 4, 4, 2)},
		{al("a", 4, 4, 3), al("a", 3, 4, 2)},
		{al("*", 3, 4, 3), al("a", 4, 4, 2)},
		{al("*", 3, 2, 3), al("a", 3, 2, 2)},
		{al("a", 3, 3, 3)},
		{al("a", 3, 11, 3)},
		{al("a", 3, 3, 2), al("a", 3, 8, 3)},
		{},
		// empty names (kfake's CreateACLs admits them): an empty DENY prefix dominates nothing, an empty ALLOW prefix counts
		{al("a", 3, 4, 3), al("", 4, 4, 2)},
		{al("a", 4, 4, 3), al("", 4, 2, 2)},
		{al("", 4, 4, 3)},
		{al("", 4, 4, 3), al("", 4, 4, 2)},
		{al("", 3, 4, 3), al("", 3, 4, 2)},
		{al("", 3, 4, 3), al("", 4, 4, 2), al("b", 3, 4, 2)},
	} {
		emitTab(true, admin, 2, uFull, es)
	}

	// B. every single entry of the full alphabet
	full := alphabet([]string{"User:a", "User:b", "User:*"}, []string{h1, h2, "*"}, names4, entryOps, 2)
	for _, e := range full {
		emitTab(true, admin, 2, uFull, []entry{e})
	}
	for i := 0; i < 120; i++ { // resource type of the entry differs from the queried one
		e := hx.Pick(r, full)
		e.rt = 3
		emitTab(true, admin, 2, uFull, []entry{e})
	}

	// C. every pair over the medium alphabet (order of the two entries chosen by the seed)
	med := alphabet([]string{"User:a", "User:*"}, []string{h1, "*"}, names4, []int{2, 3, 4, 8, 10, 11}, 2)
	for i := range med {
		for j := i; j < len(med); j++ {
			if r.Bool() {
				emitTab(true, admin, 2, uMed, []entry{med[i], med[j]})
			} else {
				emitTab(true, admin, 2, uMed, []entry{med[j], med[i]})
			}
		}
	}

	if thorough {
		// D. every triple over the small alphabet
		small := alphabet([]string{"User:a", "User:*"}, []string{"*"}, names4, []int{2, 3, 4}, 2)
		for i := range small {
			for j := i; j < len(small); j++ {
				for k := j; k < len(small); k++ {
					es := []entry{small[i], small[j], small[k]}
					s := r.Intn(3)
					es[0], es[s] = es[s], es[0]
					emitTab(true, admin, 2, uSmall, es)
				}
			}
		}
		// E. pairs over the full alphabet: the rows i ≡ seed (mod 8); seeds 0..7 cover every pair
		for i := range full {
			if uint64(i)%8 != a.Seed%8 {
				continue
			}
			for j := range full {
				emitTab(true, admin, 2, uFull, []entry{full[i], full[j]})
			}
		}
	}

	// F. random larger sets
	pp := []string{"User:a", "User:b", "User:*", "User:ANONYMOUS", "User:admin", "User:c"}
	hh := []string{h1, h2, "*", "hostx"}
	nn := []string{"*", "a", "ab", "abc", "b", "ba", "c", "kafka-cluster", "**", "a*", "abcd", ""}
	qn := []string{"a", "ab", "abc", "abcd", "b", "ba", "c", "*", "kafka-cluster", "a*", "zz"}
	for i := 0; i < a.N(3000, 60000); i++ {
		n := r.Intn(13)
		if r.Chance(30) {
			n = 2 + r.Intn(3)
		}
		rt := hx.Pick(r, []int{2, 2, 2, 3, 4, 5})
		focusOp := hx.Pick(r, []int{3, 4, 4, 5, 6, 7, 8, 9, 10, 11, 12, 13, 14})
		var es []entry
		for k := 0; k < n; k++ {
			e := entry{hx.Pick(r, pp), hx.Pick(r, hh), rt, hx.Pick(r, nn), 3 + r.Intn(2), 2 + r.Intn(13), 2 + r.Intn(2)}
			if r.Chance(60) { // concentrate on one principal/host/op so that entries interact
				e.principal = hx.Pick(r, []string{"User:a", "User:a", "User:*"})
				e.host = hx.Pick(r, []string{h1, "*", "*"})
				e.op = hx.Pick(r, []int{focusOp, focusOp, 2})
				e.name = hx.Pick(r, []string{"*", "a", "ab", "abc", "abcd", "b", "a", "ab", "abc", "abcd", "b", "*", ""})
			}
			if r.Chance(8) {
				e.rt = hx.Pick(r, []int{2, 3, 4, 5})
			}
			es = append(es, e)
		}
		u := universe{[]string{"a", hx.Pick(r, []string{"b", "c", "", "admin"})}, []string{h1, hx.Pick(r, []string{h2, "hostx"})},
			[]string{hx.Pick(r, qn), hx.Pick(r, qn), hx.Pick(r, qn), "abcd"}, []int{focusOp, 3 + r.Intn(12), 8, 10}}
		supers := hx.Pick(r, [][]string{nil, admin, admin, {"a"}, {"admin", "b"}})
		emitTab(!r.Chance(3), supers, rt, u, es)
	}

	// G. malformed stream: values outside Kafka's domain, the "" / ANONYMOUS principal collision
	for i := 0; i < a.N(300, 3000); i++ {
		n := 1 + r.Intn(4)
		var es []entry
		for k := 0; k < n; k++ {
			e := entry{hx.Pick(r, []string{"User:a", "User:*", "User:ANONYMOUS", "a", ""}), hx.Pick(r, []string{h1, "*", ""}), 2,
				hx.Pick(r, []string{"*", "a", "ab", ""}), hx.Pick(r, []int{0, 1, 2, 3, 4, 5}), hx.Pick(r, []int{0, 1, 2, 3, 4, 8, 15}),
				hx.Pick(r, []int{0, 1, 2, 3, 4})}
			if r.Chance(10) {
				e.rt = hx.Pick(r, []int{0, 1, 6})
			}
			es = append(es, e)
		}
		u := universe{[]string{"a", "", "ANONYMOUS"}, []string{h1, ""}, []string{"a", "ab", "", "*"}, []int{hx.Pick(r, []int{0, 1, 2, 15}), 3, 4, 8}}
		supers := hx.Pick(r, [][]string{nil, {"ANONYMOUS"}, {""}, {"a"}})
		emitTab(true, supers, 2, u, es)
	}

	// H. through the wire
	wp := []string{"User:a", "User:a", "User:b", "User:*"}
	wh := []string{"127.0.0.1", "*", "*", "10.9.9.9"}
	wa := func(name string, pat, op, perm int) entry { return entry{"User:a", "*", 2, name, pat, op, perm} }
	for _, es := range [][]entry{ // the three probes of DESIGN §8-b and their harmless counterparts
		{wa("foo", 3, 4, 3), wa("*", 3, 4, 2)},
		{wa("foo", 3, 4, 3), wa("foo", 3, 4, 2)},
		{wa("foo", 3, 4, 3), wa("f", 4, 4, 2)},
		{wa("foo", 3, 4, 3), wa("bar", 3, 4, 2)},
		{wa("foo", 3, 4, 3)},
		{wa("fo", 4, 4, 3), wa("foo", 4, 4, 2)},
	} {
		hx.Emit("wire %s", aclsTok(es))
	}
	for i := 0; i < a.N(250, 3000); i++ {
		n := r.Intn(4)
		var es []entry
		for k := 0; k < n+2; k++ {
			e := entry{principal: hx.Pick(r, wp), host: hx.Pick(r, wh), perm: 2 + r.Intn(2)}
			if r.Chance(60) {
				e.perm = 3
			}
			switch r.Intn(10) {
			case 0, 1: // cluster
				e.rt, e.name, e.pattern = 4, hx.Pick(r, []string{"kafka-cluster", "kafka-cluster", "*", "kafka"}), 3+r.Intn(2)
				e.op = hx.Pick(r, []int{12, 12, 2, 4, 7})
			case 2, 3, 4: // transactional id
				e.rt, e.name, e.pattern = 5, hx.Pick(r, []string{"a", "ab", "b", "*"}), 3+r.Intn(2)
				e.op = hx.Pick(r, []int{4, 4, 2, 8, 3})
			default: // topic
				e.rt, e.name, e.pattern = 2, hx.Pick(r, []string{"a", "ab", "b", "*", "abc"}), 3+r.Intn(2)
				e.op = hx.Pick(r, []int{4, 4, 4, 2, 3, 8})
			}
			if k < 2 && r.Chance(75) { // entries that apply to the clients: ALLOW first, then something that may dominate it
				e.principal, e.host = hx.Pick(r, []string{"User:a", "User:*"}), hx.Pick(r, []string{"127.0.0.1", "*"})
				if k == 0 {
					e.perm = 3
				}
				if e.rt == 2 && r.Chance(70) {
					e.op = hx.Pick(r, []int{4, 4, 2})
				}
			}
			es = append(es, e)
		}
		if r.Chance(8) {
			es = es[:r.Intn(2)]
		}
		hx.Emit("wire %s", aclsTok(es))
	}
}

// ---------------------------------------------------------------- run

type strAddr string

func (s strAddr) Network() string { return "tcp" }
func (s strAddr) String() string  { return string(s) + ":40000" }

func addrOf(h string) net.Addr {
	if ip := net.ParseIP(h); ip != nil {
		return &net.TCPAddr{IP: ip, Port: 40000}
	}
	return strAddr(h) // clientHost falls back to SplitHostPort
}

func runTab(t []string) string {
	if len(t) != 9 {
		return "bad-op"
	}
	enable := t[1] == "1"
	var supers []string
	if t[2] != "-" {
		supers = uncsv(t[2])
	}
	rt := int8(hx.Atoi(t[3]))
	users, hosts, names, ops := uncsv(t[4]), uncsv(t[5]), uncsv(t[6]), uncsvInts(t[7])
	es := parseAcls(t[8])
	vs := make([]kfake.VerifACL, len(es))
	nDeny := 0
	for i, e := range es {
		vs[i] = kfake.VerifACL{Principal: e.principal, Host: e.host, ResourceType: int8(e.rt), Name: e.name,
			Pattern: int8(e.pattern), Operation: int8(e.op), Permission: int8(e.perm)}
		if e.perm == 2 {
			nDeny++
		}
	}
	env := kfake.VerifNewACLEnv(enable, supers, vs)
	var sb strings.Builder
	n1 := 0
	for _, u := range users {
		for _, h := range hosts {
			ad := addrOf(h)
			for _, n := range names {
				for _, o := range ops {
					if env.Allowed(u, ad, n, rt, int8(o)) {
						sb.WriteByte('1')
						n1++
					} else {
						sb.WriteByte('0')
					}
				}
			}
		}
	}
	hx.St["bits.allowed.1"] += n1
	hx.St["bits.allowed.0"] += len(users)*len(hosts)*len(names)*len(ops) - n1
	n1 = 0
	for _, u := range users {
		for _, h := range hosts {
			ad := addrOf(h)
			for _, o := range ops {
				if env.AnyAllowed(u, ad, rt, int8(o)) {
					sb.WriteByte('1')
					n1++
				} else {
					sb.WriteByte('0')
				}
			}
		}
	}
	hx.St["bits.any.1"] += n1
	hx.St["bits.any.0"] += len(users)*len(hosts)*len(ops) - n1
	sz := len(es)
	if sz > 4 {
		sz = 5
	}
	hx.St.Inc(fmt.Sprintf("tab.size.%d%s", sz, map[bool]string{true: "+", false: ""}[sz == 5]))
	hx.St.Inc(fmt.Sprintf("tab.denies.%d", min(nDeny, 3)))
	if !enable {
		hx.St.Inc("tab.acls-disabled")
	}
	return sb.String()
}

type wireEnv struct {
	c            *kfake.Cluster
	admin, ua, ub *kgo.Client
}

func newWire() *wireEnv {
	c, err := kfake.NewCluster(kfake.NumBrokers(1), kfake.EnableSASL(), kfake.EnableACLs(),
		kfake.Superuser("PLAIN", "admin", "admin"), kfake.User("PLAIN", "a", "pa"), kfake.User("PLAIN", "b", "pb"))
	if err != nil {
		panic(err)
	}
	mk := func(u, p string) *kgo.Client {
		cl, err := kgo.NewClient(kgo.SeedBrokers(c.ListenAddrs()...), kgo.SASL(plain.Auth{User: u, Pass: p}.AsMechanism()),
			kgo.DisableIdempotentWrite(), kgo.RequestRetries(0))
		if err != nil {
			panic(err)
		}
		return cl
	}
	return &wireEnv{c: c, admin: mk("admin", "admin"), ua: mk("a", "pa"), ub: mk("b", "pb")}
}

func (w *wireEnv) install(es []entry) string {
	ctx, cancel := context.WithTimeout(context.Background(), 10*time.Second)
	defer cancel()
	del := kmsg.NewPtrDeleteACLsRequest()
	f := kmsg.NewDeleteACLsRequestFilter()
	f.ResourceType, f.ResourcePatternType, f.Operation, f.PermissionType = kmsg.ACLResourceTypeAny, kmsg.ACLResourcePatternTypeAny, kmsg.ACLOperationAny, kmsg.ACLPermissionTypeAny
	del.Filters = append(del.Filters, f)
	dresp, err := w.admin.Broker(0).RetriableRequest(ctx, del)
	if err != nil {
		return "err-delete:" + strings.ReplaceAll(err.Error(), " ", "_")
	}
	for _, res := range dresp.(*kmsg.DeleteACLsResponse).Results {
		if res.ErrorCode != 0 {
			return fmt.Sprintf("err-delete:%d", res.ErrorCode)
		}
	}
	if len(es) == 0 {
		return ""
	}
	cr := kmsg.NewPtrCreateACLsRequest()
	for _, e := range es {
		c := kmsg.NewCreateACLsRequestCreation()
		c.ResourceType, c.ResourceName, c.ResourcePatternType = kmsg.ACLResourceType(e.rt), e.name, kmsg.ACLResourcePatternType(e.pattern)
		c.Principal, c.Host, c.Operation, c.PermissionType = e.principal, e.host, kmsg.ACLOperation(e.op), kmsg.ACLPermissionType(e.perm)
		cr.Creations = append(cr.Creations, c)
	}
	cresp, err := w.admin.Broker(0).RetriableRequest(ctx, cr)
	if err != nil {
		return "err-create:" + strings.ReplaceAll(err.Error(), " ", "_")
	}
	for _, res := range cresp.(*kmsg.CreateACLsResponse).Results {
		if res.ErrorCode != 0 {
			return fmt.Sprintf("err-create:%d", res.ErrorCode)
		}
	}
	return ""
}

func initPID(cl *kgo.Client, txn *string) string {
	ctx, cancel := context.WithTimeout(context.Background(), 10*time.Second)
	defer cancel()
	req := kmsg.NewPtrInitProducerIDRequest()
	req.TransactionalID = txn
	req.TransactionTimeoutMillis = 60000
	req.ProducerID, req.ProducerEpoch = -1, -1
	resp, err := cl.Broker(0).RetriableRequest(ctx, req)
	if err != nil {
		return "E" + strings.ReplaceAll(err.Error(), " ", "_")
	}
	switch code := resp.(*kmsg.InitProducerIDResponse).ErrorCode; code {
	case 0:
		return "1"
	case 31, 53: // CLUSTER_AUTHORIZATION_FAILED, TRANSACTIONAL_ID_AUTHORIZATION_FAILED
		if (code == 53) != (txn != nil) {
			return fmt.Sprintf("e%d", code)
		}
		return "0"
	default:
		return fmt.Sprintf("e%d", code)
	}
}

func (w *wireEnv) run(t []string) string {
	if len(t) != 2 {
		return "bad-op"
	}
	if e := w.install(parseAcls(t[1])); e != "" {
		return e
	}
	var sb strings.Builder
	sb.WriteString(initPID(w.ua, nil))
	sb.WriteString(initPID(w.ub, nil))
	for _, id := range []string{"a", "ab", "b"} {
		id := id
		sb.WriteString(initPID(w.ua, &id))
	}
	res := sb.String()
	hx.St.Inc("wire.idem-a." + res[:1])
	return res
}

func run() {
	var w *wireEnv
	hx.RunLines(30*time.Second, func(t []string) string {
		switch t[0] {
		case "tab":
			hx.St.Inc("op.tab")
			return runTab(t)
		case "wire":
			hx.St.Inc("op.wire")
			if w == nil {
				w = newWire()
			}
			return w.run(t)
		}
		return "bad-op"
	})
}

func main() {
	a := hx.Parse()
	switch a.Mode {
	case "gen":
		gen(a)
		hx.Flush()
	case "run":
		run()
	default:
		os.Exit(2)
	}
}
