// C12 end-to-end reproduction (NOT part of ./check C12; the protocol half of C12 is not covered by the check).
// Real share-group consumer of this tree x real kfake of this tree, over TCP loopback, wall-clock time (~8 s).
//
//	cd harness && GOFLAGS=-mod=mod GOPROXY=off go run ./cmd/c12/e2eprobe full
//
// A transactional producer writes records 0-2, commit marker 3, records 4-5, commit marker 6. The consumer polls
// everything, accepts every record; the client itself enqueues gap acks for the marker offsets 3 and 6.
// Observed on the unchanged tree (mode "full"):
//
//	WIRE ShareFetch epoch=1 p=0 piggybacked batches: [0,2][1] [4,5][1] [3,3][0] [6,6][0]   <- descending (finding ackranges-gaps-after-entries)
//	CALLBACK t/0 err=<nil>                                                                <- kfake rejected the list (INVALID_REQUEST) but the
//	                                                                                         long-polling ShareFetch re-ran from scratch and lost the ack error
//	REDELIVERED offset 0 delivery 2 ...                                                   <- accepted + confirmed records come back after the lock timeout
//	WIRE ShareAcknowledge epoch=-1 p=0 batches: [0,2][2] [4,5][2] [3,3][0] [6,6][0]       <- same order at close; answered INVALID_REQUEST
//
// Mode "partial" (PollRecords(3) + FlushAcks) happens to send [0,2] [3,3] [6,6] and is accepted.
package main

import (
	"context"
	"fmt"
	"os"
	"sync"
	"time"

	"github.com/twmb/franz-go/pkg/kfake"
	"github.com/twmb/franz-go/pkg/kgo"
	"github.com/twmb/franz-go/pkg/kmsg"
)

func must(err error) {
	if err != nil {
		fmt.Println("FATAL", err)
		os.Exit(1)
	}
}

func main() {
	mode := "partial" // partial: PollRecords(3) leaves the fetch buffered; full: PollFetches then ack at once
	if len(os.Args) > 1 {
		mode = os.Args[1]
	}
	c, err := kfake.NewCluster(kfake.NumBrokers(1), kfake.SeedTopics(1, "t"), kfake.BrokerConfigs(map[string]string{"group.share.record.lock.duration.ms": "2000", "share.record.lock.sweep.interval.ms": "500"}))
	must(err)
	defer c.Close()
	ctx, cancel := context.WithTimeout(context.Background(), 40*time.Second)
	defer cancel()

	// wire observation
	var mu sync.Mutex
	logf := func(f string, a ...any) { mu.Lock(); fmt.Printf(f+"\n", a...); mu.Unlock() }
	c.ControlKey(79, func(r kmsg.Request) (kmsg.Response, error, bool) {
		c.KeepControl()
		req := r.(*kmsg.ShareAcknowledgeRequest)
		for _, t := range req.Topics {
			for _, p := range t.Partitions {
				s := ""
				for _, b := range p.AcknowledgementBatches {
					s += fmt.Sprintf(" [%d,%d]%v", b.FirstOffset, b.LastOffset, b.AcknowledgeTypes)
				}
				logf("WIRE ShareAcknowledge epoch=%d p=%d batches:%s", req.ShareSessionEpoch, p.Partition, s)
			}
		}
		return nil, nil, false
	})
	c.ControlKey(78, func(r kmsg.Request) (kmsg.Response, error, bool) {
		c.KeepControl()
		req := r.(*kmsg.ShareFetchRequest)
		for _, t := range req.Topics {
			for _, p := range t.Partitions {
				if len(p.AcknowledgementBatches) == 0 {
					continue
				}
				s := ""
				for _, b := range p.AcknowledgementBatches {
					s += fmt.Sprintf(" [%d,%d]%v", b.FirstOffset, b.LastOffset, b.AcknowledgeTypes)
				}
				logf("WIRE ShareFetch epoch=%d p=%d piggybacked batches:%s", req.ShareSessionEpoch, p.Partition, s)
			}
		}
		return nil, nil, false
	})

	// group config earliest
	adm, err := kgo.NewClient(kgo.SeedBrokers(c.ListenAddrs()...))
	must(err)
	{
		req := kmsg.NewPtrIncrementalAlterConfigsRequest()
		res := kmsg.NewIncrementalAlterConfigsRequestResource()
		res.ResourceType = kmsg.ConfigResourceTypeGroupConfig
		res.ResourceName = "g"
		cfg := kmsg.NewIncrementalAlterConfigsRequestResourceConfig()
		cfg.Name = "share.auto.offset.reset"
		cfg.Value = kmsg.StringPtr("earliest")
		res.Configs = append(res.Configs, cfg)
		req.Resources = append(req.Resources, res)
		_, err := req.RequestWith(ctx, adm)
		must(err)
	}
	adm.Close()

	// transactional producer: records 0-2, commit marker 3, records 4-5, commit marker 6
	p, err := kgo.NewClient(kgo.SeedBrokers(c.ListenAddrs()...), kgo.TransactionalID("tx"), kgo.DefaultProduceTopic("t"))
	must(err)
	for _, n := range []int{3, 2} {
		must(p.BeginTransaction())
		for i := 0; i < n; i++ {
			must(p.ProduceSync(ctx, kgo.StringRecord(fmt.Sprint("v", i))).FirstErr())
		}
		must(p.EndTransaction(ctx, kgo.TryCommit))
	}
	p.Close()

	cl, err := kgo.NewClient(kgo.SeedBrokers(c.ListenAddrs()...), kgo.ConsumeTopics("t"), kgo.ShareGroup("g"),
		kgo.FetchMaxWait(500*time.Millisecond),
		kgo.ShareAckCallback(func(_ *kgo.Client, rs kgo.ShareAckResults) {
			for _, r := range rs {
				logf("CALLBACK %s/%d err=%v", r.Topic, r.Partition, r.Err)
			}
		}))
	must(err)
	defer cl.Close()

	got := 0
	for got < 5 {
		var fs kgo.Fetches
		if mode == "partial" {
			fs = cl.PollRecords(ctx, 3)
		} else {
			fs = cl.PollFetches(ctx)
		}
		if err := fs.Err0(); err != nil {
			logf("poll err %v", err)
			break
		}
		var offs []int64
		fs.EachRecord(func(r *kgo.Record) {
			offs = append(offs, r.Offset)
			r.Ack(kgo.AckAccept)
			got++
		})
		logf("POLL delivered offsets %v (acked accept)", offs)
		if mode == "full-flush" || mode == "partial" {
			fctx, fc := context.WithTimeout(ctx, 5*time.Second)
			logf("FlushAcks -> %v", cl.FlushAcks(fctx))
			fc()
		}
	}
	time.Sleep(3500 * time.Millisecond)
	// anything redelivered?
	pctx, pc := context.WithTimeout(ctx, 3*time.Second)
	fs := cl.PollFetches(pctx)
	pc()
	fs.EachRecord(func(r *kgo.Record) { logf("REDELIVERED offset %d delivery %d", r.Offset, r.DeliveryCount()) })
	logf("done")
}
