// C26 harness: the real sticky engine of this tree (StickyBalancer through the public GroupBalancer path,
// CooperativeStickyBalancer's engine run through the verif hook that returns the plan before
// AdjustCooperative) on generated groups, with the engine's decision trace recorded through the
// verif trace sink (pkg/kgo/internal/sticky/verif_trace_on.go).
//
//	ops:  sticky M T -> plan # trace # plan2        coop M T -> plan # trace # plan2
//
// plan  = the engine's plan for the input; trace = the decision events of that run;
// plan2 = the engine's plan when every member rejoins owning exactly `plan` (one common generation).
// Encodings of M, T and plans are those of C25 (lean/Driver/C25.lean); the trace is described in
// lean/Driver/C26.lean.
package main

import (
	"fmt"
	"sort"
	"strconv"
	"strings"
	"time"

	"github.com/twmb/franz-go/pkg/kgo"
	"verifharness/cmd/c25/bal"
	"verifharness/hx"
)

// ---------------------------------------------------------------- running the engine

func runEngine(kind string, ms []bal.Mem, ts []bal.Topic, trace *strings.Builder) bal.Plan {
	if trace != nil {
		first := true
		kgo.VerifSetStickyTrace(func(k byte, m, m2, topic string, part int32) {
			if !first {
				trace.WriteByte(',')
			}
			first = false
			trace.WriteByte(k)
			switch k {
			case 'o', 's', 'D', 'R', 'A':
				trace.WriteString(":" + m + ":" + topic + ":" + strconv.Itoa(int(part)))
			case 'G':
				trace.WriteString(":" + m + ":" + m2 + ":" + topic + ":" + strconv.Itoa(int(part)))
			case 'S', 'U':
				trace.WriteString(":" + m)
			}
		})
		defer kgo.VerifSetStickyTrace(nil)
	}
	if kind == "coop" {
		pre, _ := bal.RunCoopHook(bal.JoinMembers(ms, "coop"), ts)
		return pre
	}
	return bal.RunPublic(kgo.StickyBalancer(), bal.JoinMembers(ms, "sticky"), ts)
}

// rejoin: every (distinct) member owns exactly what the plan gave it, all at one generation.
func rejoin(ms []bal.Mem, p bal.Plan) []bal.Mem {
	var g int32
	for _, m := range ms {
		if m.Gen > g {
			g = m.Gen
		}
	}
	out := make([]bal.Mem, 0, len(ms))
	seen := map[string]bool{}
	for _, m := range ms {
		if seen[m.ID] {
			continue
		}
		seen[m.ID] = true
		m.Gen = g + 1
		m.Owned = nil
		var names []string
		for t, ps := range p[m.ID] {
			if len(ps) > 0 {
				names = append(names, t)
			}
		}
		sort.Strings(names)
		for _, t := range names {
			ps := append([]int32(nil), p[m.ID][t]...)
			sort.Slice(ps, func(i, j int) bool { return ps[i] < ps[j] })
			m.Owned = append(m.Owned, bal.Own{Topic: t, Parts: ps})
		}
		out = append(out, m)
	}
	return out
}

func run() {
	hx.RunLines(30*time.Second, func(t []string) string {
		if len(t) != 3 || (t[0] != "sticky" && t[0] != "coop") {
			return "bad-op"
		}
		hx.St.Inc("op_" + t[0])
		ms, ts := bal.DecMembers(t[1]), bal.DecTopics(t[2])
		var tr strings.Builder
		p := runEngine(t[0], ms, ts, &tr)
		p2 := runEngine(t[0], rejoin(ms, p), ts, nil)
		stat(ms, ts, tr.String())
		trace := tr.String()
		if trace == "" {
			trace = "-"
		}
		return bal.ShowPlan(p) + " # " + trace + " # " + bal.ShowPlan(p2)
	})
}

// ---------------------------------------------------------------- generators

func tname(i int) string { return fmt.Sprintf("t%02d", i) }
func mname(i int) string { return fmt.Sprintf("m%03d", i) }

// thin, when set (quick tier), drops some of the trivial cases (fewer than 2 members or fewer than 2
// partitions anybody subscribes to) of the exhaustive scopes so that the random sections dominate.
var thin func() bool

func trivial(ms []bal.Mem, ts []bal.Topic) bool {
	ids, subs := map[string]bool{}, map[string]bool{}
	for _, m := range ms {
		ids[m.ID] = true
		for _, s := range m.Subs {
			subs[s] = true
		}
	}
	parts := 0
	for _, t := range ts {
		if subs[t.Name] {
			parts += int(t.Count)
		}
	}
	return len(ids) < 2 || parts < 2
}

func emit(ms []bal.Mem, ts []bal.Topic, kinds string) {
	if thin != nil && trivial(ms, ts) && thin() {
		return
	}
	m, t := bal.EncMembers(ms), bal.EncTopics(ts)
	for _, k := range kinds {
		if k == 's' {
			hx.Emit("sticky %s %s", m, t)
		} else {
			hx.Emit("coop %s %s", m, t)
		}
	}
}

func addOwned(m *bal.Mem, t string, p int32) {
	for i := range m.Owned {
		if m.Owned[i].Topic == t {
			m.Owned[i].Parts = append(m.Owned[i].Parts, p)
			return
		}
	}
	m.Owned = append(m.Owned, bal.Own{Topic: t, Parts: []int32{p}})
}

// singleOwner enumerates n members x k topics, every partition-count vector (<= maxP per topic), every
// subscription pattern, and every prior ownership in which each partition has at most one claimant (any
// member, subscribed or not). keep decides per case (sub-sampling in the quick tier).
func singleOwner(n, k, maxP int, keep func() bool, fn func([]bal.Mem, []bal.Topic)) {
	counts := make([]int, k)
	var rec func(i int)
	rec = func(i int) {
		if i < k {
			for c := 0; c <= maxP; c++ {
				counts[i] = c
				rec(i + 1)
			}
			return
		}
		type tp struct {
			t string
			p int32
		}
		ts := make([]bal.Topic, k)
		var tps []tp
		for j := range ts {
			ts[j] = bal.Topic{Name: tname(j), Count: int32(counts[j])}
			for p := 0; p < counts[j]; p++ {
				tps = append(tps, tp{tname(j), int32(p)})
			}
		}
		nown := 1
		for range tps {
			nown *= n + 1
		}
		for sub := 0; sub < 1<<(n*k); sub++ {
			for own := 0; own < nown; own++ {
				if !keep() {
					continue
				}
				ms := make([]bal.Mem, n)
				for i := range ms {
					ms[i] = bal.Mem{ID: mname(i), Gen: 1}
					for j := 0; j < k; j++ {
						if sub>>(i*k+j)&1 == 1 {
							ms[i].Subs = append(ms[i].Subs, tname(j))
						}
					}
				}
				o := own
				for _, x := range tps {
					c := o % (n + 1)
					o /= n + 1
					if c > 0 {
						addOwned(&ms[c-1], x.t, x.p)
					}
				}
				fn(ms, ts)
			}
		}
	}
	rec(0)
}

// sparse builds groups with uneven subscriptions (each member a few topics) and a heavily skewed prior
// ownership, so that balancing needs chains of moves; optionally ring-shaped (member i subscribes to
// topics i and i+1) with everything owned by few members.
func sparse(r *hx.Rng, maxM, maxT, maxP int) ([]bal.Mem, []bal.Topic) {
	nm := 2 + r.Intn(maxM-1)
	nt := 1 + r.Intn(maxT)
	ring := r.Chance(35)
	if ring {
		nt = nm + r.Intn(2)
	}
	ts := make([]bal.Topic, nt)
	for i := range ts {
		ts[i] = bal.Topic{Name: tname(i), Count: int32(1 + r.Intn(maxP))}
		if r.Chance(5) {
			ts[i].Count = 0
		}
	}
	rackNames := []string{"ra", "rb", "rc"}
	racks := r.Chance(20)
	if racks {
		for i := range ts {
			ts[i].Racks = make([]string, ts[i].Count)
			for j := range ts[i].Racks {
				if r.Chance(80) {
					ts[i].Racks[j] = hx.Pick(r, rackNames)
				}
			}
		}
	}
	gen := int32(r.Intn(4))
	ms := make([]bal.Mem, nm)
	for i := range ms {
		m := bal.Mem{ID: mname(i), Gen: gen}
		if racks && r.Chance(80) {
			s := hx.Pick(r, rackNames)
			m.Rack = &s
		}
		if ring {
			m.Subs = append(m.Subs, tname(i%nt))
			if (i+1)%nt != i%nt {
				m.Subs = append(m.Subs, tname((i+1)%nt))
			}
			if r.Chance(10) {
				m.Subs = append(m.Subs, tname(r.Intn(nt)))
			}
		} else {
			want := 1 + r.Intn(3)
			for j := 0; j < want; j++ {
				m.Subs = append(m.Subs, tname(r.Intn(nt)))
			}
			if r.Chance(4) {
				m.Subs = nil
			}
		}
		sort.Strings(m.Subs)
		if !r.Chance(3) { // mostly without duplicates (a topic listed twice is still generated)
			var d []string
			for j, s := range m.Subs {
				if j == 0 || s != m.Subs[j-1] {
					d = append(d, s)
				}
			}
			m.Subs = d
		}
		ms[i] = m
	}
	// prior ownership: skewed towards a few "heavy" members among the subscribers
	mode := r.Intn(10) // 0: nobody owns anything; 1-2: balanced-ish; else skewed
	for _, t := range ts {
		var subs []int
		for i, m := range ms {
			for _, s := range m.Subs {
				if s == t.Name {
					subs = append(subs, i)
					break
				}
			}
		}
		if len(subs) == 0 || mode == 0 {
			continue
		}
		heavy := subs[len(subs)-1]
		if r.Bool() {
			heavy = subs[0]
		}
		for p := int32(0); p < t.Count; p++ {
			if r.Chance(10) {
				continue
			}
			o := heavy
			if mode <= 2 {
				o = subs[int(p)%len(subs)]
			} else if r.Chance(25) {
				o = hx.Pick(r, subs)
			}
			addOwned(&ms[o], t.Name, p)
			if r.Chance(6) { // conflicting claim by a member on an older (or the same) generation
				c := hx.Pick(r, subs)
				if c != o {
					addOwned(&ms[c], t.Name, p)
					if r.Chance(70) && ms[c].Gen > 0 {
						ms[c].Gen--
					}
				}
			}
		}
	}
	if r.Chance(10) && nm > 2 { // a member left: what it owned is claimed by nobody
		ms = ms[:nm-1]
	}
	if r.Chance(10) { // a new member joins owning nothing
		ms = append(ms, bal.Mem{ID: mname(len(ms) + 1), Gen: -1, Subs: append([]string(nil), ms[0].Subs...)})
	}
	return ms, ts
}

func gen(a hx.Args) {
	r := hx.NewRng(a.Seed)
	thorough := a.Tier == "thorough"
	eq := func(n int, v int32) []int32 {
		g := make([]int32, n)
		for i := range g {
			g[i] = v
		}
		return g
	}
	if !thorough {
		thin = func() bool { return r.Intn(100) < 60 }
	}
	// --- small scope, one claimant per partition: every subscription x ownership pattern
	type scope struct{ n, k, p, pct int }
	scopes := []scope{{2, 2, 2, 100}, {3, 2, 2, 6}, {3, 3, 1, 6}, {3, 1, 3, 100}}
	if thorough {
		scopes = []scope{{1, 1, 3, 100}, {2, 1, 3, 100}, {2, 2, 2, 100}, {2, 3, 1, 100}, {3, 1, 3, 100}, {3, 2, 2, 100}, {3, 3, 1, 100}, {3, 2, 3, 4}}
	}
	for _, s := range scopes {
		singleOwner(s.n, s.k, s.p, func() bool { return s.pct >= 100 || r.Intn(100) < s.pct }, func(ms []bal.Mem, ts []bal.Topic) {
			emit(ms, ts, "sc")
		})
	}
	// --- small scope, every claimant set per partition (conflicting claims) x generation patterns
	gensFor := func(n int) [][]int32 {
		gs := [][]int32{eq(n, 1)}
		for i := 0; i < n; i++ { // member i stale
			g := eq(n, 1)
			g[i] = 0
			gs = append(gs, g)
		}
		if n > 1 { // member 0 without generation (old client)
			g := eq(n, 1)
			g[0] = -1
			gs = append(gs, g)
		}
		return gs
	}
	cscopes := []scope{{2, 1, 3, 100}, {2, 2, 1, 100}, {3, 1, 2, 25}}
	if thorough {
		cscopes = []scope{{2, 1, 3, 100}, {2, 2, 2, 100}, {3, 1, 3, 100}, {3, 2, 1, 100}}
	}
	for _, s := range cscopes {
		bal.Exhaustive(s.n, s.k, s.p, gensFor(s.n), true, func(ms []bal.Mem, ts []bal.Topic) {
			if s.pct < 100 && r.Intn(100) >= s.pct {
				return
			}
			emit(ms, ts, "sc")
		})
	}
	thin = nil
	// --- random structured groups (C25's generator: perturbed previous assignment, racks, malformed metadata)
	for i := 0; i < a.N(1200, 30000); i++ {
		sh := bal.Shape{MaxMembers: 6, MaxTopics: 4, MaxParts: 8}
		if i%5 == 0 {
			sh = bal.Shape{MaxMembers: 14, MaxTopics: 8, MaxParts: 16}
		}
		ms, ts := bal.Random(r, sh)
		for len(ms) < 2 && !r.Chance(10) {
			ms, ts = bal.Random(r, sh)
		}
		emit(ms, ts, "sc")
	}
	// --- uneven subscriptions with skewed priors: chains of moves are needed
	for i := 0; i < a.N(1500, 40000); i++ {
		var ms []bal.Mem
		var ts []bal.Topic
		switch {
		case i%10 == 0:
			ms, ts = sparse(r, 24, 16, 10)
		default:
			ms, ts = sparse(r, 7, 6, 5)
		}
		emit(ms, ts, "sc")
	}
	// --- large groups
	for i := 0; i < a.N(4, 40); i++ {
		ms, ts := bal.Random(r, bal.Shape{MaxMembers: 200, MaxTopics: 50, MaxParts: 24})
		emit(ms, ts, "sc")
		ms, ts = sparse(r, 120, 60, 12)
		emit(ms, ts, "sc")
	}
}

// ---------------------------------------------------------------- distribution

func bucket(n int) string {
	switch {
	case n == 0:
		return "0"
	case n <= 1:
		return "1"
	case n <= 3:
		return "2-3"
	case n <= 8:
		return "4-8"
	case n <= 32:
		return "9-32"
	}
	return "33+"
}

func stat(ms []bal.Mem, ts []bal.Topic, trace string) {
	hx.St.Inc("members_" + bucket(len(ms)))
	hx.St.Inc("topics_" + bucket(len(ts)))
	parts, racks := 0, 0
	for _, t := range ts {
		parts += int(t.Count)
		if t.Racks != nil {
			racks++
		}
	}
	hx.St.Inc("partitions_" + bucket(parts))
	if racks > 0 {
		hx.St.Inc("with_partition_racks")
	}
	same := true
	for _, m := range ms {
		if strings.Join(m.Subs, "+") != strings.Join(ms[0].Subs, "+") {
			same = false
		}
	}
	if same {
		hx.St.Inc("subscriptions_uniform")
	} else {
		hx.St.Inc("subscriptions_uneven")
	}
	claimed := map[string]int{}
	for _, m := range ms {
		for _, o := range m.Owned {
			for _, p := range o.Parts {
				claimed[o.Topic+"/"+hx.Itoa(int64(p))]++
			}
		}
	}
	conflicts := 0
	for _, c := range claimed {
		if c > 1 {
			conflicts++
		}
	}
	if len(claimed) == 0 {
		hx.St.Inc("priors_none")
	} else {
		hx.St.Inc("priors_some")
	}
	if conflicts > 0 {
		hx.St.Inc("priors_with_conflicting_claims")
	}
	// trace shape
	steals, longest, cur := 0, 0, 0
	kinds := map[byte]int{}
	if trace != "" {
		for _, e := range strings.Split(trace, ",") {
			kinds[e[0]]++
			switch e[0] {
			case 'G':
				cur++
			case 'S':
				steals++
				if cur > longest {
					longest = cur
				}
				cur = 0
			}
		}
	}
	hx.St.Add("ev_drop", kinds['D'])
	hx.St.Add("ev_restick", kinds['R'])
	hx.St.Add("ev_assign", kinds['A'])
	hx.St.Add("ev_steal", steals)
	hx.St.Add("ev_giveup", kinds['U'])
	hx.St.Add("ev_stale_claim", kinds['s'])
	hx.St.Inc("steals_per_case_" + bucket(steals))
	hx.St.Inc("longest_steal_chain_" + bucket(longest))
	if kinds['U'] > 0 {
		hx.St.Inc("cases_with_giveup")
	}
	if trace == "" {
		hx.St.Inc("cases_without_trace")
	}
}

func main() {
	a := hx.Parse()
	switch a.Mode {
	case "gen":
		gen(a)
		hx.Flush()
	case "run":
		run()
	}
}
