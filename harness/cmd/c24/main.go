// C24 harness: the three protocol tables of this tree (kerr code table, kmsg key dispatch, kversion
// release tables), observed only by *running* the public lookups over the whole int16 domain.
//
//	dump                     -> text of lean/FranzVerif/Gen/C24.lean (run-length encoded interval tables)
//	gen --seed S --tier T    -> op lines
//	run                      -> `op | result` lines (observed through kmsg.Key(k).Request()/Response()/Name() and
//	                            HasKey + EachMaxKeyVersion, i.e. not through the functions the dumper calls)
//
//	ops (every op is a closed interval of int16 values; a point is lo = hi):
//	  err <lo> <hi>          -> runs of  <ErrorForCode>/<TypedErrorForCode>     each `nil` | `code:MESSAGE:retriable` | `other:<what>`
//	  key <lo> <hi>          -> runs of  <req>/<resp>/<NameForKey>              req,resp `none` | `key:max:TypeStem:KindStem`
//	  rel <release> <lo> <hi>-> runs of  <max>:<has>/<codec req max|none>/<codec resp max|none>
//	a result is `lo..hi=VALUE[,lo..hi=VALUE…]`, maximal runs of equal values in ascending order.
package main

import (
	"fmt"
	"go/ast"
	"go/parser"
	"go/token"
	"os"
	"path/filepath"
	"reflect"
	"runtime"
	"sort"
	"strings"
	"time"

	"github.com/twmb/franz-go/pkg/kerr"
	"github.com/twmb/franz-go/pkg/kmsg"
	"github.com/twmb/franz-go/pkg/kversion"
	"verifharness/hx"
)

const (
	lo16 = -32768
	hi16 = 32767
)

// ---------------------------------------------------------------- observations of the live code

// san makes a string safe as one token of the line protocol and as a Lean string literal.
func san(s string) string {
	if s == "" {
		return "%"
	}
	var b strings.Builder
	for i := 0; i < len(s); i++ {
		c := s[i]
		if c >= 'a' && c <= 'z' || c >= 'A' && c <= 'Z' || c >= '0' && c <= '9' || c == '_' || c == '.' {
			b.WriteByte(c)
		} else {
			fmt.Fprintf(&b, "%%%02X", c)
		}
	}
	return b.String()
}

func guard(f func() string) (res string) {
	defer func() {
		if r := recover(); r != nil {
			res = "other:panic"
		}
	}()
	return f()
}

func errStr(e *kerr.Error, retriable bool) string {
	return fmt.Sprintf("%d:%s:%s", e.Code, san(e.Message), hx.B(retriable))
}

// obsErr: what ErrorForCode and TypedErrorForCode return for one code. The retriable flag of the first
// is what kerr.IsRetriable says about the returned error, of the second the struct field.
func obsErr(code int16) string {
	a := guard(func() string {
		err := kerr.ErrorForCode(code)
		if err == nil {
			return "nil"
		}
		e, ok := err.(*kerr.Error)
		if !ok {
			return "other:" + san(fmt.Sprintf("%T", err))
		}
		if e == nil {
			return "other:typednil"
		}
		return errStr(e, kerr.IsRetriable(err))
	})
	b := guard(func() string {
		e := kerr.TypedErrorForCode(code)
		if e == nil {
			return "nil"
		}
		return errStr(e, e.Retriable)
	})
	return a + "/" + b
}

func typeName(v any) string {
	t := reflect.TypeOf(v)
	for t.Kind() == reflect.Ptr {
		t = t.Elem()
	}
	return t.Name()
}

func stem(name, suffix string) string {
	if strings.HasSuffix(name, suffix) && len(name) > len(suffix) {
		return san(strings.TrimSuffix(name, suffix))
	}
	return "%21" + san(name) // "!" + full name: the type is not named <Stem><suffix>
}

func reqStr(r kmsg.Request) string {
	if r == nil || reflect.ValueOf(r).IsNil() {
		return "none"
	}
	return guard(func() string {
		kind := "%21nil"
		if k := r.ResponseKind(); k != nil {
			kind = stem(typeName(k), "Response")
		}
		return fmt.Sprintf("%d:%d:%s:%s", r.Key(), r.MaxVersion(), stem(typeName(r), "Request"), kind)
	})
}

func respStr(r kmsg.Response) string {
	if r == nil || reflect.ValueOf(r).IsNil() {
		return "none"
	}
	return guard(func() string {
		kind := "%21nil"
		if k := r.RequestKind(); k != nil {
			kind = stem(typeName(k), "Request")
		}
		return fmt.Sprintf("%d:%d:%s:%s", r.Key(), r.MaxVersion(), stem(typeName(r), "Response"), kind)
	})
}

func obsKey(key int16) string {
	return guard(func() string { return reqStr(kmsg.RequestForKey(key)) }) + "/" +
		guard(func() string { return respStr(kmsg.ResponseForKey(key)) }) + "/" +
		guard(func() string { return san(kmsg.NameForKey(key)) })
}

func codecMax(key int16) (string, string) {
	rq, rs := "none", "none"
	if r := kmsg.RequestForKey(key); r != nil {
		rq = hx.Itoa(int64(r.MaxVersion()))
	}
	if r := kmsg.ResponseForKey(key); r != nil {
		rs = hx.Itoa(int64(r.MaxVersion()))
	}
	return rq, rs
}

func obsRelOnly(v *kversion.Versions, key int16) string {
	m, has := v.LookupMaxKeyVersion(key)
	return fmt.Sprintf("%d:%s", m, hx.B(has))
}

func obsRel(v *kversion.Versions, key int16) string {
	rq, rs := codecMax(key)
	return obsRelOnly(v, key) + "/" + rq + "/" + rs
}

// ---------------------------------------------------------------- named releases

type release struct {
	name string
	fn   func() *kversion.Versions
}

// The hand list. checkReleases() compares it with a go/ast scan of the kversion sources this binary was
// compiled from, so a release added to (or removed from) the source makes the dumper fail instead of
// being silently left out of the quantifier.
var ctors = []release{
	{"Stable", kversion.Stable}, {"Tip", kversion.Tip},
	{"V0_8_0", kversion.V0_8_0}, {"V0_8_1", kversion.V0_8_1}, {"V0_8_2", kversion.V0_8_2}, {"V0_9_0", kversion.V0_9_0},
	{"V0_10_0", kversion.V0_10_0}, {"V0_10_1", kversion.V0_10_1}, {"V0_10_2", kversion.V0_10_2}, {"V0_11_0", kversion.V0_11_0},
	{"V1_0_0", kversion.V1_0_0}, {"V1_1_0", kversion.V1_1_0},
	{"V2_0_0", kversion.V2_0_0}, {"V2_1_0", kversion.V2_1_0}, {"V2_2_0", kversion.V2_2_0}, {"V2_3_0", kversion.V2_3_0},
	{"V2_4_0", kversion.V2_4_0}, {"V2_5_0", kversion.V2_5_0}, {"V2_6_0", kversion.V2_6_0}, {"V2_7_0", kversion.V2_7_0},
	{"V2_8_0", kversion.V2_8_0},
	{"V3_0_0", kversion.V3_0_0}, {"V3_1_0", kversion.V3_1_0}, {"V3_2_0", kversion.V3_2_0}, {"V3_3_0", kversion.V3_3_0},
	{"V3_4_0", kversion.V3_4_0}, {"V3_5_0", kversion.V3_5_0}, {"V3_6_0", kversion.V3_6_0}, {"V3_7_0", kversion.V3_7_0},
	{"V3_8_0", kversion.V3_8_0}, {"V3_9_0", kversion.V3_9_0},
	{"V4_0_0", kversion.V4_0_0}, {"V4_1_0", kversion.V4_1_0}, {"V4_2_0", kversion.V4_2_0},
}

func funcInfo(f any) (name, file string) {
	pc := reflect.ValueOf(f).Pointer()
	fn := runtime.FuncForPC(pc)
	if fn == nil {
		return "", ""
	}
	file, _ = fn.FileLine(pc)
	n := fn.Name()
	return n[strings.LastIndexByte(n, '.')+1:], file
}

// scanReleaseCtors parses the non-test sources of package kversion and returns every exported
// `func X() *Versions` (no receiver, no parameters).
func scanReleaseCtors(dir string) ([]string, error) {
	fset := token.NewFileSet()
	ents, err := os.ReadDir(dir)
	if err != nil {
		return nil, err
	}
	var out []string
	for _, e := range ents {
		n := e.Name()
		if !strings.HasSuffix(n, ".go") || strings.HasSuffix(n, "_test.go") {
			continue
		}
		f, err := parser.ParseFile(fset, filepath.Join(dir, n), nil, 0)
		if err != nil {
			return nil, err
		}
		if f.Name.Name != "kversion" {
			continue
		}
		for _, d := range f.Decls {
			fd, ok := d.(*ast.FuncDecl)
			if !ok || fd.Recv != nil || !fd.Name.IsExported() {
				continue
			}
			if fd.Type.Params != nil && len(fd.Type.Params.List) != 0 {
				continue
			}
			if fd.Type.Results == nil || len(fd.Type.Results.List) != 1 {
				continue
			}
			st, ok := fd.Type.Results.List[0].Type.(*ast.StarExpr)
			if !ok {
				continue
			}
			if id, ok := st.X.(*ast.Ident); ok && id.Name == "Versions" {
				out = append(out, fd.Name.Name)
			}
		}
	}
	sort.Strings(out)
	return out, nil
}

func checkReleases() error {
	_, file := funcInfo(kversion.Stable)
	dir := filepath.Dir(file)
	if file == "" {
		dir = filepath.Join(os.Getenv("VERIF_REPO"), "pkg", "kversion")
	}
	src, err := scanReleaseCtors(dir)
	if err != nil {
		return fmt.Errorf("cannot scan %s: %v", dir, err)
	}
	if len(src) == 0 {
		return fmt.Errorf("no release constructor found in %s", dir)
	}
	have := map[string]bool{}
	for _, c := range ctors {
		if n, _ := funcInfo(c.fn); n != c.name {
			return fmt.Errorf("hand list binds %s to function %s", c.name, n)
		}
		if have[c.name] {
			return fmt.Errorf("hand list names %s twice", c.name)
		}
		have[c.name] = true
	}
	var missing, extra []string
	for _, s := range src {
		if !have[s] {
			missing = append(missing, s)
		}
		delete(have, s)
	}
	for h := range have {
		extra = append(extra, h)
	}
	if len(missing)+len(extra) > 0 {
		sort.Strings(extra)
		return fmt.Errorf("named releases in %s differ from the dumper's list: in source only %v, in list only %v", dir, missing, extra)
	}
	return nil
}

// allReleases: the exported constructors plus every name FromString recognises (VersionStrings).
func allReleases() []release {
	rs := append([]release{}, ctors...)
	for _, s := range kversion.VersionStrings() {
		s := s
		rs = append(rs, release{"FromString_" + san(s), func() *kversion.Versions { return kversion.FromString(s) }})
	}
	return rs
}

// ---------------------------------------------------------------- run-length encoding

type span struct {
	lo, hi int
	val    string
}

func rle(lo, hi int, f func(int16) string) []span {
	var rs []span
	for x := lo; x <= hi; x++ {
		v := f(int16(x))
		if n := len(rs); n > 0 && rs[n-1].val == v {
			rs[n-1].hi = x
		} else {
			rs = append(rs, span{x, x, v})
		}
	}
	return rs
}

func runsStr(rs []span) string {
	var b strings.Builder
	for i, r := range rs {
		if i > 0 {
			b.WriteByte(',')
		}
		fmt.Fprintf(&b, "%d..%d=%s", r.lo, r.hi, r.val)
	}
	return b.String()
}

// ---------------------------------------------------------------- dump (Gen/C24.lean)

func leanStr(s string) string { return `"` + s + `"` } // s is sanitised: no quote, no backslash

func leanErr(s string) string {
	if s == "nil" {
		return ".nil"
	}
	if strings.HasPrefix(s, "other:") {
		return ".other " + leanStr(s[6:])
	}
	p := strings.Split(s, ":")
	return fmt.Sprintf(".err ⟨%s, %s, %s⟩", leanInt(p[0]), leanStr(p[1]), leanBool(p[2]))
}
func leanInt(s string) string {
	if strings.HasPrefix(s, "-") {
		return "(" + s + ")"
	}
	return s
}
func leanBool(s string) string {
	if s == "1" {
		return "true"
	}
	return "false"
}
func leanMsg(s string) string {
	if s == "none" {
		return ".none"
	}
	if strings.HasPrefix(s, "other:") {
		return ".other " + leanStr(s[6:])
	}
	p := strings.Split(s, ":")
	return fmt.Sprintf(".msg ⟨%s, %s, %s, %s⟩", leanInt(p[0]), leanInt(p[1]), leanStr(p[2]), leanStr(p[3]))
}

func dump() error {
	if err := checkReleases(); err != nil {
		return err
	}
	var b strings.Builder
	p := func(f string, a ...any) { fmt.Fprintf(&b, f+"\n", a...) }
	p("-- GENERATED by harness/cmd/c24 (mode dump) by running kerr, kmsg and kversion of the tree under verification")
	p("-- over every int16 value; maximal runs of equal observations. Do not edit.")
	p("import FranzVerif.Model.C24")
	p("namespace Gen.C24")
	p("open Model.C24")
	p("")
	p("/-- code ↦ (ErrorForCode code, TypedErrorForCode code) -/")
	p("def errTable : List (Entry ErrOut) := [")
	ers := rle(lo16, hi16, obsErr)
	for i, r := range ers {
		v := strings.SplitN(r.val, "/", 2)
		p("  ⟨%d, %d, ⟨%s, %s⟩⟩%s", r.lo, r.hi, leanErr(v[0]), leanErr(v[1]), sep(i, len(ers)))
	}
	p("]")
	p("")
	p("/-- key ↦ (RequestForKey key, ResponseForKey key, NameForKey key) -/")
	p("def keyTable : List (Entry KeyOut) := [")
	krs := rle(lo16, hi16, obsKey)
	for i, r := range krs {
		v := strings.SplitN(r.val, "/", 3)
		p("  ⟨%d, %d, ⟨%s, %s, %s⟩⟩%s", r.lo, r.hi, leanMsg(v[0]), leanMsg(v[1]), leanStr(v[2]), sep(i, len(krs)))
	}
	p("]")
	p("")
	rels := allReleases()
	for i, rl := range rels {
		v := rl.fn()
		if v == nil {
			return fmt.Errorf("release %s is nil", rl.name)
		}
		p("/-- %s: key ↦ LookupMaxKeyVersion key -/", rl.name)
		p("def rel%d : List (Entry RelVal) := [", i)
		rs := rle(lo16, hi16, func(k int16) string { return obsRelOnly(v, k) })
		for j, r := range rs {
			x := strings.Split(r.val, ":")
			p("  ⟨%d, %d, ⟨%s, %s⟩⟩%s", r.lo, r.hi, leanInt(x[0]), leanBool(x[1]), sep(j, len(rs)))
		}
		p("]")
	}
	p("")
	p("/-- every named release: the %d exported constructors (cross-checked against a go/ast scan of the", len(ctors))
	p("    kversion sources) and the %d names FromString recognises -/", len(rels)-len(ctors))
	p("def relTables : List (String × List (Entry RelVal)) := [")
	for i, rl := range rels {
		p("  (%s, rel%d)%s", leanStr(rl.name), i, sep(i, len(rels)))
	}
	p("]")
	p("def numCtors : Nat := %d", len(ctors))
	p("/-- kmsg.MaxKey -/")
	p("def maxKey : Int := %d", kmsg.MaxKey)
	p("end Gen.C24")
	fmt.Print(b.String())
	return nil
}

func sep(i, n int) string {
	if i+1 < n {
		return ","
	}
	return ""
}

// ---------------------------------------------------------------- gen

// interesting returns the points of [lo16,hi16] whose observation differs from the bulk value (the
// value of the longest run), widened by two neighbours on each side, plus the int16 boundaries.
func populated(rs []span) (pts []int, bulk string) {
	best := -1
	for _, r := range rs {
		if r.hi-r.lo > best {
			best, bulk = r.hi-r.lo, r.val
		}
	}
	for _, r := range rs {
		if r.val != bulk || r.hi-r.lo < 64 {
			for x := r.lo; x <= r.hi; x++ {
				pts = append(pts, x)
			}
		}
	}
	return pts, bulk
}

func widen(pts []int, by int) []int {
	set := map[int]bool{}
	for _, p := range pts {
		for d := -by; d <= by; d++ {
			if x := p + d; x >= lo16 && x <= hi16 {
				set[x] = true
			}
		}
	}
	for _, x := range []int{lo16, lo16 + 1, hi16 - 1, hi16} {
		set[x] = true
	}
	out := make([]int, 0, len(set))
	for x := range set {
		out = append(out, x)
	}
	sort.Ints(out)
	return out
}

func gen(a hx.Args) {
	r := hx.NewRng(a.Seed)
	rels := allReleases()
	// Phases run over all tables in turn (points of every table first), so that the first failing lines of a
	// run are the most specific ones: 0 = populated points, 1 = exhaustive sweep, 2 = random spans, 3 = random points.
	pops := map[string][]int{} // populated points per table, computed once from a scan of all of int16 on the live code
	emitTable := func(phase int, prefix string, f func(int16) string, nspans, nrand int) {
		pop, ok := pops[prefix]
		if !ok {
			pop, _ = populated(rle(lo16, hi16, f))
			pops[prefix] = pop
		}
		switch phase {
		case 0: // every populated point and its neighbourhood, one op each
			for _, x := range widen(pop, 2) {
				hx.Emit("%s %d %d", prefix, x, x)
			}
		case 1: // the whole domain as consecutive spans (exhaustive sweep, a few ops)
			cuts := []int{lo16}
			for i := 0; i < 6; i++ {
				cuts = append(cuts, int(r.Range(lo16+1, hi16)))
			}
			if len(pop) > 0 { // cut just before and after the populated region
				cuts = append(cuts, max(lo16, pop[0]-3), min(hi16, pop[len(pop)-1]+4))
			}
			sort.Ints(cuts)
			for i, c := range cuts {
				end := hi16
				if i+1 < len(cuts) {
					end = cuts[i+1] - 1
				}
				if end >= c {
					hx.Emit("%s %d %d", prefix, c, end)
				}
			}
		case 2: // random spans: three quarters of them around the populated region, the rest anywhere
			plo, phi := lo16, hi16
			if len(pop) > 0 {
				plo, phi = max(lo16, pop[0]-40), min(hi16, pop[len(pop)-1]+40)
			}
			for i := 0; i < nspans; i++ {
				var lo, hi int64
				if r.Chance(75) {
					lo = r.Range(int64(plo), int64(phi))
					hi = min(int64(hi16), lo+r.Range(1, 90))
				} else {
					lo = r.Range(lo16, hi16)
					hi = min(int64(hi16), lo+r.Range(1, 6000))
				}
				hx.Emit("%s %d %d", prefix, lo, hi)
			}
		case 3: // random single points anywhere (mostly unpopulated: the trivial cases)
			for i := 0; i < nrand; i++ {
				x := r.Range(lo16, hi16)
				hx.Emit("%s %d %d", prefix, x, x)
			}
		}
	}
	n := a.N(1, 12)
	vs := make([]*kversion.Versions, len(rels))
	for i, rl := range rels {
		vs[i] = rl.fn()
	}
	for phase := 0; phase < 4; phase++ {
		emitTable(phase, "err", obsErr, 400*n, 40*n)
		emitTable(phase, "key", obsKey, 400*n, 40*n)
		for i, rl := range rels {
			v := vs[i]
			emitTable(phase, "rel "+rl.name, func(k int16) string { return obsRel(v, k) }, 40*n, 5*n)
		}
	}
	// a release name the tables do not have: both sides must answer bad-op
	hx.Emit("rel NoSuchRelease 0 3")
}

// ---------------------------------------------------------------- run

// In run mode the tables are observed through the *other* public entry points where there are any, so that the
// differential lines are not a re-run of the dumper: kmsg.Key(k).Request()/Response()/Name() instead of
// RequestForKey/ResponseForKey/NameForKey, and HasKey + EachMaxKeyVersion instead of LookupMaxKeyVersion.
func obsKeyRun(key int16) string {
	k := kmsg.Key(key)
	return guard(func() string { return reqStr(k.Request()) }) + "/" +
		guard(func() string { return respStr(k.Response()) }) + "/" +
		guard(func() string { return san(k.Name()) })
}

type relView struct {
	v    *kversion.Versions
	each map[int16]int16
}

func (rv relView) obs(key int16) string {
	m, listed := rv.each[key]
	if !listed {
		m = -1
	}
	has := rv.v.HasKey(key)
	if has != listed {
		return fmt.Sprintf("other:HasKey=%v_EachMaxKeyVersion=%v", has, listed)
	}
	rq, rs := codecMax(key)
	return fmt.Sprintf("%d:%s/%s/%s", m, hx.B(has), rq, rs)
}

func run() {
	rels := map[string]relView{}
	for _, rl := range allReleases() {
		v := rl.fn()
		rv := relView{v: v, each: map[int16]int16{}}
		if v != nil {
			v.EachMaxKeyVersion(func(k, m int16) { rv.each[k] = m })
		}
		rels[rl.name] = rv
	}
	rng := func(lo, hi string) (int, int, bool) {
		l, h := hx.Atoi(lo), hx.Atoi(hi)
		if l < lo16 || h > hi16 || l > h {
			return 0, 0, false
		}
		return int(l), int(h), true
	}
	hx.RunLines(60*time.Second, func(t []string) string {
		var rs []span
		switch {
		case t[0] == "err" && len(t) == 3:
			lo, hi, ok := rng(t[1], t[2])
			if !ok {
				return "bad-op"
			}
			rs = rle(lo, hi, obsErr)
		case t[0] == "key" && len(t) == 3:
			lo, hi, ok := rng(t[1], t[2])
			if !ok {
				return "bad-op"
			}
			rs = rle(lo, hi, obsKeyRun)
		case t[0] == "rel" && len(t) == 4:
			rv, have := rels[t[1]]
			lo, hi, ok := rng(t[2], t[3])
			if !ok || !have || rv.v == nil {
				return "bad-op"
			}
			rs = rle(lo, hi, rv.obs)
		default:
			return "bad-op"
		}
		kind := "point"
		if rs[0].lo != rs[len(rs)-1].hi {
			kind = "span"
		}
		hx.St.Inc("op." + t[0] + "." + kind)
		switch n := len(rs); {
		case n == 1:
			hx.St.Inc("runs.1")
		case n <= 4:
			hx.St.Inc("runs.2-4")
		case n <= 32:
			hx.St.Inc("runs.5-32")
		default:
			hx.St.Inc("runs.33+")
		}
		for _, r := range rs {
			switch {
			case t[0] == "err" && strings.HasPrefix(r.val, "-1:"):
				hx.St.Inc("err.unknown")
			case t[0] == "err" && strings.HasPrefix(r.val, "nil"):
				hx.St.Inc("err.nil")
			case t[0] == "err":
				hx.St.Inc("err.known")
			case t[0] == "key" && strings.HasPrefix(r.val, "none"):
				hx.St.Inc("key.absent")
			case t[0] == "key":
				hx.St.Inc("key.present")
			case strings.Contains(r.val, ":1/"):
				hx.St.Inc("rel.has")
			default:
				hx.St.Inc("rel.absent")
			}
		}
		return runsStr(rs)
	})
}

func main() {
	if len(os.Args) >= 2 && os.Args[1] == "dump" {
		if err := dump(); err != nil {
			fmt.Fprintln(os.Stderr, "c24 dump:", err)
			os.Exit(1)
		}
		return
	}
	a := hx.Parse()
	switch a.Mode {
	case "gen":
		if err := checkReleases(); err != nil {
			fmt.Fprintln(os.Stderr, "c24 gen:", err)
			os.Exit(1)
		}
		gen(a)
		hx.Flush()
	case "run":
		run()
	default:
		os.Exit(2)
	}
}
