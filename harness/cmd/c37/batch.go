// C37 harness, second half: the carrier on records that came out of the client's FETCH path.
//
// A fetched record's Headers is a window into a per-batch header slab (pkg/kgo/source.go recordToRecord), so
// "no other header changes" has a second reading there: a Set on one record of a batch must leave the headers
// of every other record of the batch alone. Three case classes:
//
//	reset B <codec> <sizes> <skip> <recs>   a partition response of v2 batches built here (kmsg encoders, the
//	        tree's compressors) and decoded by kgo.ProcessFetchPartition; the batch is then the decoded records
//	bset/bget/bkeys <i> …                   carrier operations on record i of the batch
//	binj <i> <tid> <sid> <fl> <ts>          the producer-side kotel hook on fetched record i (noop provider)
//	bext                                    the consumer-side hook's extraction on every injected record
//	reset R <order> <idseed> <samp> <recs>  a bridge: plain producer -> kfake -> kotel-instrumented client that
//	        polls and re-produces the polled *kgo.Record to another topic -> kotel-instrumented sink; the batch
//	        is then the sink's polled records (fetched by a real consumer), indexed like <recs>
//
// After every op the headers, Keys() and Gets of EVERY record of the batch are dumped.
package main

import (
	"bytes"
	"context"
	"encoding/binary"
	"fmt"
	"hash/crc32"
	"strings"
	"sync"
	"sync/atomic"
	"time"

	"github.com/twmb/franz-go/pkg/kgo"
	"github.com/twmb/franz-go/pkg/kmsg"
	"github.com/twmb/franz-go/plugin/kotel"
	"go.opentelemetry.io/otel/propagation"
	sdktrace "go.opentelemetry.io/otel/sdk/trace"
	"go.opentelemetry.io/otel/trace"
	"verifharness/hx"
)

// ---------------------------------------------------------------- generator

var (
	appKeys  = []string{"id", "k", "a", "", "x-other", "Traceparent", "baggage", "\xff\x00"}
	propKeys = []string{"traceparent", "tracestate"}
	validTPs = []string{
		"00-0af7651916cd43dd8448eb211c80319c-b7ad6b7169203331-01",
		"00-4bf92f3577b34da6a3ce929d0e0e4736-00f067aa0ba902b7-00",
	}
	okStates = []string{"s=1", "s=1,t=2"}
)

// genRecHdrs: 0-3 application headers of one record. hookSafe keeps `tracestate` values well-formed (the
// harness reports extracted tracestates after OpenTelemetry's ParseTraceState, which the model does not contain).
func genRecHdrs(r *hx.Rng, hookSafe bool) string {
	n := 0
	switch k := r.Intn(100); {
	case k < 12:
		n = 0
	case k < 50:
		n = 1
	case k < 80:
		n = 2
	default:
		n = 3
	}
	if n == 0 {
		return "~"
	}
	parts := make([]string, n)
	for i := range parts {
		key := hx.Pick(r, appKeys)
		if r.Chance(30) {
			key = hx.Pick(r, propKeys)
		}
		val := genVal(r)
		switch {
		case key == "tracestate" && hookSafe:
			val = hx.Hex([]byte(hx.Pick(r, okStates)))
		case key == "traceparent" && r.Chance(60):
			val = hx.Hex([]byte(hx.Pick(r, validTPs)))
		}
		parts[i] = hx.Hex([]byte(key)) + ":" + val
	}
	return strings.Join(parts, ",")
}

func genBatchLine(r *hx.Rng, hookSafe bool) (line string, nrec int, recs []string) {
	n := 2 + r.Intn(5)
	recs = make([]string, n)
	for i := range recs {
		recs[i] = genRecHdrs(r, hookSafe)
	}
	sizes := fmt.Sprint(n)
	if n >= 3 && r.Chance(25) { // two batches in one partition response: one slab per batch
		a := 1 + r.Intn(n-1)
		sizes = fmt.Sprintf("%d+%d", a, n-a)
	}
	skip := 0
	if n >= 3 && r.Chance(15) { // the fetch offset lies inside the response: leading records are decoded, then dropped
		skip = 1 + r.Intn(n-2)
	}
	codec := 0
	if r.Chance(30) {
		codec = 1 + r.Intn(4)
	}
	return fmt.Sprintf("reset B %d %s %d %s", codec, sizes, skip, strings.Join(recs, "/")), n - skip, recs[skip:]
}

// visit orders: batch order, reverse, random, one record hammered
func genOrder(r *hx.Rng, n, steps int) []int {
	out := make([]int, steps)
	switch r.Intn(4) {
	case 0:
		for i := range out {
			out[i] = i % n
		}
	case 1:
		for i := range out {
			out[i] = n - 1 - i%n
		}
	case 2:
		for i := range out {
			out[i] = r.Intn(n)
		}
	default:
		p := r.Intn(n)
		for i := range out {
			out[i] = p
			if r.Chance(30) {
				out[i] = r.Intn(n)
			}
		}
	}
	return out
}

func recKeys(rec string) []string {
	var ks []string
	if rec == "~" {
		return ks
	}
	for _, p := range strings.Split(rec, ",") {
		ks = append(ks, string(hx.UnHex(strings.SplitN(p, ":", 2)[0])))
	}
	return ks
}

func setVal(r *hx.Rng) string {
	v := genVal(r)
	if v == "-" {
		v = "."
	}
	return v
}

// genCarrierGroup: reset B then 4-12 carrier ops over the records in and out of batch order.
func genCarrierGroup(r *hx.Rng) {
	line, n, recs := genBatchLine(r, false)
	hx.Emit("%s", line)
	have := make([][]string, n)
	for i := range have {
		have[i] = recKeys(recs[i])
	}
	steps := 4 + r.Intn(9)
	for _, i := range genOrder(r, n, steps) {
		has := func(k string) bool {
			for _, x := range have[i] {
				if x == k {
					return true
				}
			}
			return false
		}
		switch c := r.Intn(100); {
		case c < 40: // Set of a key the record does not carry yet (the append path)
			k := hx.Pick(r, append(append([]string{}, propKeys...), "baggage", "n1", "n2", ""))
			for tries := 0; has(k) && tries < 4; tries++ {
				k = hx.Pick(r, []string{"traceparent", "tracestate", "n1", "n2", "n3", "n4"})
			}
			have[i] = append(have[i], k)
			hx.Emit("bset %d %s %s", i, hx.Hex([]byte(k)), setVal(r))
		case c < 65: // Set of a key the record carries (in place)
			k := hx.Pick(r, appKeys)
			if len(have[i]) > 0 {
				k = hx.Pick(r, have[i])
			} else {
				have[i] = append(have[i], k)
			}
			hx.Emit("bset %d %s %s", i, hx.Hex([]byte(k)), setVal(r))
		case c < 88:
			k := hx.Pick(r, appKeys)
			if len(have[i]) > 0 && r.Chance(70) {
				k = hx.Pick(r, have[i])
			}
			hx.Emit("bget %d %s", i, hx.Hex([]byte(k)))
		default:
			hx.Emit("bkeys %d", i)
		}
	}
}

func genSpanCtx(r *hx.Rng) string {
	ts := hx.Pick(r, []string{"", "", "", "k=v", "vendor=abc,other=1"})
	return fmt.Sprintf("%x %x %02x %s", nonZero(r.Bytes(16)), nonZero(r.Bytes(8)), r.Intn(4), hx.Hex([]byte(ts)))
}

// genHookGroup: reset B, the producer-side hook on the fetched records (every record once in some order, or
// a random subset, some twice), reads in between, then the consumer-side extraction of all of them.
func genHookGroup(r *hx.Rng) {
	line, n, recs := genBatchLine(r, true)
	hx.Emit("%s", line)
	var order []int
	switch r.Intn(3) {
	case 0:
		for i := 0; i < n; i++ {
			order = append(order, i)
		}
	case 1:
		for i := n - 1; i >= 0; i-- {
			order = append(order, i)
		}
	default:
		order = genOrder(r, n, n+r.Intn(3))
	}
	for _, i := range order {
		hx.Emit("binj %d %s", i, genSpanCtx(r))
		if r.Chance(25) {
			j := r.Intn(n)
			ks := append(recKeys(recs[j]), "traceparent")
			hx.Emit("bget %d %s", j, hx.Hex([]byte(hx.Pick(r, ks))))
		}
		if r.Chance(10) {
			hx.Emit("bkeys %d", r.Intn(n))
		}
	}
	hx.Emit("bext")
}

// genBridge: reset R then a few carrier ops on the sink's records.
func genBridge(r *hx.Rng) {
	n := 2 + r.Intn(5)
	recs := make([]string, n)
	for i := range recs {
		recs[i] = genRecHdrs(r, true)
		if recs[i] == "~" && r.Chance(60) {
			recs[i] = hx.Hex([]byte("id")) + ":" + hx.Hex([]byte(fmt.Sprintf("rec-%d", i)))
		}
	}
	order := make([]int, n)
	for i := range order {
		order[i] = i
	}
	switch r.Intn(4) {
	case 0, 1: // forwarded in batch order
	case 2:
		for i, j := 0, n-1; i < j; i, j = i+1, j-1 {
			order[i], order[j] = order[j], order[i]
		}
	default:
		for i := n - 1; i > 0; i-- {
			j := r.Intn(i + 1)
			order[i], order[j] = order[j], order[i]
		}
	}
	var ob strings.Builder
	for _, i := range order {
		fmt.Fprintf(&ob, "%d", i)
	}
	samp := "on"
	if r.Chance(25) {
		samp = "off"
	}
	hx.Emit("reset R %s %x %s %s", ob.String(), r.Bytes(8), samp, strings.Join(recs, "/"))
	for _, i := range genOrder(r, n, 1+r.Intn(4)) {
		switch c := r.Intn(100); {
		case c < 50:
			hx.Emit("bset %d %s %s", i, hx.Hex([]byte(hx.Pick(r, []string{"n1", "n2", "baggage", "id"}))), setVal(r))
		case c < 85:
			hx.Emit("bget %d %s", i, hx.Hex([]byte(hx.Pick(r, []string{"traceparent", "tracestate", "id", "k"}))))
		default:
			hx.Emit("bkeys %d", i)
		}
	}
}

func generateBatches(r *hx.Rng, a hx.Args) {
	for _, l := range []string{ // fixed: two and three header-bearing records, Set of a new key front to back and back to front
		"reset B 0 2 0 6964:7230/6964:7231", "bset 0 6e .", "bget 1 6964", "bset 1 6e 78", "bget 0 6e", "bkeys 1",
		"reset B 0 3 0 6964:7230/6964:7231/6964:7232", "bset 2 6e 32", "bset 1 6e 31", "bset 0 6e 30", "bget 1 6e", "bget 2 6964",
		"reset B 0 3 1 6964:7230/6964:7231/~", "bset 0 6e 30", "bset 1 6e 31", "bkeys 0",
	} {
		hx.Emit("%s", l)
	}
	for i := 0; i < a.N(450, 5000); i++ {
		genCarrierGroup(r)
	}
	for i := 0; i < a.N(250, 2500); i++ {
		genHookGroup(r)
	}
	for i := 0; i < a.N(100, 1000); i++ {
		genBridge(r)
	}
	if a.Tier == "thorough" {
		// small scope: every batch of 2-3 records over 4 header lists, every pair of Sets (record, key of 3)
		lists := []string{"~", "61:78", "62:78", "61:78,62:79"}
		var batches [][]string
		for _, x := range lists {
			for _, y := range lists {
				batches = append(batches, []string{x, y})
				for _, z := range lists {
					batches = append(batches, []string{x, y, z})
				}
			}
		}
		keys := []string{"61", "62", "63"}
		for _, b := range batches {
			for i1 := range b {
				for _, k1 := range keys {
					for i2 := range b {
						for _, k2 := range keys {
							hx.Emit("reset B 0 %d 0 %s", len(b), strings.Join(b, "/"))
							hx.Emit("bset %d %s 79", i1, k1)
							hx.Emit("bset %d %s 7a", i2, k2)
						}
					}
				}
			}
		}
	}
}

// ---------------------------------------------------------------- building and decoding a partition response

var crc32c = crc32.MakeTable(crc32.Castagnoli)

func encRecord(offDelta int32, val []byte, hs []kgo.RecordHeader) []byte {
	r := kmsg.Record{OffsetDelta: offDelta, Key: nil, Value: val}
	for _, h := range hs {
		r.Headers = append(r.Headers, kmsg.Header{Key: h.Key, Value: h.Value})
	}
	b := r.AppendTo(nil) // varint(0) + body
	r.Length = int32(len(b) - 1)
	return r.AppendTo(nil)
}

func compressWith(codec int, src []byte) []byte {
	if codec == 0 {
		return src
	}
	cc := []kgo.CompressionCodec{kgo.GzipCompression(), kgo.SnappyCompression(), kgo.Lz4Compression(), kgo.ZstdCompression()}[codec-1]
	c, err := kgo.DefaultCompressor(cc)
	if err != nil || c == nil {
		panic("no compressor")
	}
	out, used := c.Compress(new(bytes.Buffer), src)
	if int(used) != codec {
		panic("compressor declined")
	}
	return append([]byte(nil), out...)
}

func encBatch(first int64, codec int, recs [][]kgo.RecordHeader) []byte {
	var payload []byte
	for i, hs := range recs {
		payload = append(payload, encRecord(int32(i), []byte{byte(first) + byte(i)}, hs)...)
	}
	payload = compressWith(codec, payload)
	b := kmsg.RecordBatch{FirstOffset: first, Magic: 2, Attributes: int16(codec), LastOffsetDelta: int32(len(recs) - 1),
		FirstTimestamp: 1700000000000, MaxTimestamp: 1700000000000, ProducerID: -1, ProducerEpoch: -1, FirstSequence: -1,
		NumRecords: int32(len(recs)), Records: payload}
	b.Length = int32(49 + len(payload))
	raw := b.AppendTo(nil)
	binary.BigEndian.PutUint32(raw[17:], crc32.Checksum(raw[21:], crc32c))
	return raw
}

func splitRecs(tok string) [][]kgo.RecordHeader {
	var out [][]kgo.RecordHeader
	for _, p := range strings.Split(tok, "/") {
		out = append(out, parseHdrs(p))
	}
	return out
}

// fetchDecode: `reset B`. The records come out of the real fetch decoder.
func fetchDecode(t []string) []*kgo.Record {
	codec := int(hx.Atoi(t[2]))
	recs := splitRecs(t[5])
	var raw []byte
	first := 0
	for _, s := range strings.Split(t[3], "+") {
		n := int(hx.Atoi(s))
		raw = append(raw, encBatch(int64(first), codec, recs[first:first+n])...)
		first += n
	}
	if first != len(recs) {
		panic("sizes do not add up")
	}
	skip := hx.Atoi(t[4])
	rp := &kmsg.FetchResponseTopicPartition{Partition: 0, HighWatermark: int64(len(recs)), RecordBatches: raw}
	o := kgo.ProcessFetchPartitionOpts{Offset: skip, Topic: "t", Partition: 0}
	fp, next := kgo.ProcessFetchPartition(o, rp, kgo.DefaultDecompressor(), nil)
	if fp.Err != nil {
		panic(fmt.Sprint("decode:", fp.Err))
	}
	if len(fp.Records) != len(recs)-int(skip) || next != int64(len(recs)) {
		panic(fmt.Sprintf("decoded %d records next %d", len(fp.Records), next))
	}
	for i, r := range fp.Records {
		if r.Offset != skip+int64(i) || len(r.Value) != 1 || int64(r.Value[0]) != r.Offset {
			panic("decoded records out of place")
		}
	}
	return fp.Records
}

// dumpBatch prints what a user can see of every record of the batch; R is Get(key) on record i.
func dumpBatch(recs []*kgo.Record, i int, key *string) string {
	hs, ks, gs := make([]string, len(recs)), make([]string, len(recs)), make([]string, len(recs))
	for j, rec := range recs {
		c := kotel.NewRecordCarrier(rec)
		var h, k, g []string
		for _, x := range rec.Headers {
			h = append(h, hx.Hex([]byte(x.Key))+":"+hx.Hex(x.Value))
			g = append(g, hx.Hex([]byte(c.Get(x.Key))))
		}
		for _, x := range c.Keys() {
			k = append(k, hx.Hex([]byte(x)))
		}
		hs[j], ks[j], gs[j] = list(h), list(k), list(g)
	}
	r := "."
	if key != nil && i >= 0 && i < len(recs) {
		r = hx.Hex([]byte(kotel.NewRecordCarrier(recs[i]).Get(*key)))
	}
	return fmt.Sprintf("B=%s K=%s G=%s R=%s", strings.Join(hs, "/"), strings.Join(ks, "/"), strings.Join(gs, "/"), r)
}

func batchStats(recs []*kgo.Record) {
	with := 0
	for _, r := range recs {
		if len(r.Headers) > 0 {
			with++
		}
		hx.St.Inc(fmt.Sprintf("batch.record-headers.%d", min(len(r.Headers), 4)))
	}
	hx.St.Inc(fmt.Sprintf("batch.records.%d", len(recs)))
	hx.St.Inc(fmt.Sprintf("batch.header-bearing-records.%d", min(with, 4)))
}

func scTok(sc trace.SpanContext) string {
	if !sc.IsValid() {
		return ".+."
	}
	tp := fmt.Sprintf("00-%s-%s-%02x", sc.TraceID(), sc.SpanID(), byte(sc.TraceFlags()))
	return hx.Hex([]byte(tp)) + "+" + hx.Hex([]byte(sc.TraceState().String()))
}

// ---------------------------------------------------------------- the bridge

// seqIDs hands out deterministic trace and span ids: a hash of (seed of the op line, call counter).
type seqIDs struct {
	mu   sync.Mutex
	seed uint64
	n    uint64
}

func (g *seqIDs) next(n int) []byte {
	g.mu.Lock()
	defer g.mu.Unlock()
	g.n++
	r := hx.NewRng(g.seed ^ (g.n * 0x9E3779B97F4A7C15))
	return nonZero(r.Bytes(n))
}
func (g *seqIDs) NewIDs(context.Context) (tid trace.TraceID, sid trace.SpanID) {
	copy(tid[:], g.next(16))
	copy(sid[:], g.next(8))
	return
}
func (g *seqIDs) NewSpanID(context.Context, trace.TraceID) (sid trace.SpanID) {
	copy(sid[:], g.next(8))
	return
}

// switchSampler samples everything or nothing (a span that is not sampled still has a span context to propagate).
type switchSampler struct{ off atomic.Bool }

func (s *switchSampler) ShouldSample(p sdktrace.SamplingParameters) sdktrace.SamplingResult {
	d := sdktrace.RecordAndSample
	if s.off.Load() {
		d = sdktrace.Drop
	}
	return sdktrace.SamplingResult{Decision: d, Tracestate: trace.SpanContextFromContext(p.ParentContext).TraceState()}
}
func (s *switchSampler) Description() string { return "switch" }

// batchCount counts how many batches a client wrote / read (distribution only).
type batchCount struct {
	written, read atomic.Int64
}

func (b *batchCount) OnProduceBatchWritten(kgo.BrokerMetadata, string, int32, kgo.ProduceBatchMetrics) {
	b.written.Add(1)
}
func (b *batchCount) OnFetchBatchRead(kgo.BrokerMetadata, string, int32, kgo.FetchBatchMetrics) {
	b.read.Add(1)
}

type bridgeWorld struct {
	ids               *seqIDs
	samp              *switchSampler
	src, bridge, sink *kgo.Client
	srcN, brN, sinkN  *batchCount
	opN               uint32
}

func (w *world) bridgeUp() *bridgeWorld {
	if w.br != nil {
		return w.br
	}
	w.ensureCluster()
	b := &bridgeWorld{ids: &seqIDs{}, samp: &switchSampler{}, srcN: &batchCount{}, brN: &batchCount{}, sinkN: &batchCount{}}
	prop := propagation.TraceContext{}
	btr := kotel.NewTracer(kotel.TracerProvider(sdktrace.NewTracerProvider(sdktrace.WithIDGenerator(b.ids), sdktrace.WithSampler(b.samp))),
		kotel.TracerPropagator(prop), kotel.ClientID("bridge"))
	str := kotel.NewTracer(kotel.TracerProvider(sdktrace.NewTracerProvider(sdktrace.WithSampler(sdktrace.AlwaysSample()))), kotel.TracerPropagator(prop))
	addrs := w.cluster.ListenAddrs()
	var err error
	if b.src, err = kgo.NewClient(kgo.SeedBrokers(addrs...), kgo.ProducerLinger(time.Second), kgo.WithHooks(b.srcN)); err != nil {
		panic(err)
	}
	if b.bridge, err = kgo.NewClient(kgo.SeedBrokers(addrs...), kgo.ConsumeTopics("bin"), kgo.ConsumeResetOffset(kgo.NewOffset().AtStart()),
		kgo.FetchMaxWait(250*time.Millisecond), kgo.ProducerLinger(time.Second),
		kgo.WithHooks(append(kotel.NewKotel(kotel.WithTracer(btr)).Hooks(), b.brN)...)); err != nil {
		panic(err)
	}
	if b.sink, err = kgo.NewClient(kgo.SeedBrokers(addrs...), kgo.ConsumeTopics("bout"), kgo.ConsumeResetOffset(kgo.NewOffset().AtStart()),
		kgo.FetchMaxWait(250*time.Millisecond), kgo.WithHooks(append(kotel.NewKotel(kotel.WithTracer(str)).Hooks(), b.sinkN)...)); err != nil {
		panic(err)
	}
	w.br = b
	return b
}

// pollTagged polls until n records of this op (value = 4-byte op tag + index) have arrived; leftovers of an
// op that did not finish are dropped.
func pollTagged(ctx context.Context, cl *kgo.Client, tag []byte, n int) []*kgo.Record {
	var out []*kgo.Record
	for len(out) < n {
		fs := cl.PollFetches(ctx)
		if ctx.Err() != nil {
			panic(fmt.Sprintf("poll timeout with %d of %d records", len(out), n))
		}
		fs.EachError(func(_ string, _ int32, e error) { panic(fmt.Sprint("fetch:", e)) })
		fs.EachRecord(func(r *kgo.Record) {
			if len(r.Value) == 5 && bytes.Equal(r.Value[:4], tag) {
				out = append(out, r)
			}
		})
	}
	if len(out) != n {
		panic(fmt.Sprintf("%d records of this op arrived, %d sent", len(out), n))
	}
	return out
}

// runBridge: `reset R`. Returns the sink's records indexed like the op's records, what the bridge's
// producer-side hook injected into each, and what the sink's consumer-side hook extracted from each.
func (w *world) runBridge(t []string) ([]*kgo.Record, []string, []string) {
	b := w.bridgeUp()
	recs := splitRecs(t[5])
	n := len(recs)
	order := make([]int, 0, n)
	for _, c := range t[2] {
		order = append(order, int(c-'0'))
	}
	if len(order) != n {
		panic("order does not cover the records")
	}
	b.ids.mu.Lock()
	b.ids.seed, b.ids.n = binary.BigEndian.Uint64(hx.UnHex(t[3])), 0
	b.ids.mu.Unlock()
	b.samp.off.Store(t[4] == "off")
	b.opN++
	tag := binary.BigEndian.AppendUint32(nil, b.opN)
	ctx, cancel := context.WithTimeout(context.Background(), 15*time.Second)
	defer cancel()
	w0, r0, r1 := b.srcN.written.Load(), b.brN.read.Load(), b.sinkN.read.Load()
	bw0 := b.brN.written.Load()

	// stage 0: a producer without tracing hooks writes the records (buffered together, flushed once)
	var perr atomic.Value
	for i, hs := range recs {
		b.src.Produce(ctx, &kgo.Record{Topic: "bin", Value: append(append([]byte{}, tag...), byte(i)), Headers: hs}, func(_ *kgo.Record, err error) {
			if err != nil {
				perr.Store(err)
			}
		})
	}
	if err := b.src.Flush(ctx); err != nil {
		panic(fmt.Sprint("src flush:", err))
	}
	// stage 1: the bridge polls and forwards the polled *kgo.Record values themselves
	polled := pollTagged(ctx, b.bridge, tag, n)
	injected := make([]string, n)
	for _, i := range order {
		rec := polled[i]
		if int(rec.Value[4]) != i {
			panic("bridge polled out of order")
		}
		rec.Topic = "bout"
		b.bridge.Produce(rec.Context, rec, func(_ *kgo.Record, err error) {
			if err != nil {
				perr.Store(err)
			}
		})
		// the producer-side hook ran inside Produce: rec.Context now holds the publish span whose context it injected
		injected[i] = scTok(trace.SpanContextFromContext(rec.Context))
	}
	if err := b.bridge.Flush(ctx); err != nil {
		panic(fmt.Sprint("bridge flush:", err))
	}
	if e := perr.Load(); e != nil {
		panic(fmt.Sprint("produce:", e))
	}
	// stage 2: the sink
	got := pollTagged(ctx, b.sink, tag, n)
	out := make([]*kgo.Record, n)
	extracted := make([]string, n)
	for k, rec := range got {
		i := order[k]
		if int(rec.Value[4]) != i {
			panic(fmt.Sprintf("sink position %d holds record %d, forwarded was %d", k, rec.Value[4], i))
		}
		out[i] = rec
		ro, ok := trace.SpanFromContext(rec.Context).(sdktrace.ReadOnlySpan)
		if !ok {
			panic("sink record context holds no sdk span")
		}
		extracted[i] = scTok(ro.Parent()) // the remote parent of the receive span = what the hook extracted
	}
	hx.St.Inc(fmt.Sprintf("bridge.src-batches.%d", b.srcN.written.Load()-w0))
	hx.St.Inc(fmt.Sprintf("bridge.batches-read-by-bridge.%d", b.brN.read.Load()-r0))
	hx.St.Inc(fmt.Sprintf("bridge.batches-forwarded.%d", b.brN.written.Load()-bw0))
	hx.St.Inc(fmt.Sprintf("bridge.batches-read-by-sink.%d", b.sinkN.read.Load()-r1))
	return out, injected, extracted
}

// ---------------------------------------------------------------- ops on the current batch

type batchState struct {
	recs     []*kgo.Record
	injected []bool
}

func (w *world) batchOp(bs *batchState, t []string) (string, bool) {
	switch {
	case t[0] == "reset" && len(t) == 6 && t[1] == "B":
		bs.recs = fetchDecode(t)
		bs.injected = make([]bool, len(bs.recs))
		hx.St.Inc("op.reset-B")
		if strings.Contains(t[3], "+") {
			hx.St.Inc("batch.two-batches")
		}
		if t[4] != "0" {
			hx.St.Inc("batch.fetch-offset-inside")
		}
		if t[2] != "0" {
			hx.St.Inc("batch.compressed")
		}
		batchStats(bs.recs)
		return dumpBatch(bs.recs, -1, nil), true
	case t[0] == "reset" && len(t) == 6 && t[1] == "R":
		recs, inj, ext := w.runBridge(t)
		bs.recs = recs
		bs.injected = make([]bool, len(recs))
		hx.St.Inc("op.reset-R")
		hx.St.Inc("bridge.sampler." + t[4])
		batchStats(recs)
		return dumpBatch(recs, -1, nil) + " I=" + strings.Join(inj, "/") + " X=" + strings.Join(ext, "/"), true
	case t[0] == "bset" && len(t) == 4:
		i, k, v := int(hx.Atoi(t[1])), string(hx.UnHex(t[2])), string(hx.UnHex(t[3]))
		rec := bs.recs[i]
		present := false
		for _, h := range rec.Headers {
			present = present || h.Key == k
		}
		later := false
		for _, r := range bs.recs[i+1:] {
			later = later || len(r.Headers) > 0
		}
		switch {
		case present:
			hx.St.Inc("op.bset.overwrite")
		case len(rec.Headers) > 0 && later:
			hx.St.Inc("op.bset.append.header-bearing-record-follows")
		default:
			hx.St.Inc("op.bset.append.other")
		}
		kotel.NewRecordCarrier(rec).Set(k, v)
		return dumpBatch(bs.recs, i, &k), true
	case t[0] == "bget" && len(t) == 3:
		i, k := int(hx.Atoi(t[1])), string(hx.UnHex(t[2]))
		hx.St.Inc("op.bget")
		return dumpBatch(bs.recs, i, &k), true
	case t[0] == "bkeys" && len(t) == 2:
		hx.St.Inc("op.bkeys")
		return dumpBatch(bs.recs, int(hx.Atoi(t[1])), nil), true
	case t[0] == "binj" && len(t) == 6:
		i := int(hx.Atoi(t[1]))
		tid, err := trace.TraceIDFromHex(t[2])
		if err != nil {
			panic(err)
		}
		sid, err := trace.SpanIDFromHex(t[3])
		if err != nil {
			panic(err)
		}
		ts, err := trace.ParseTraceState(string(hx.UnHex(t[5])))
		if err != nil {
			panic(err)
		}
		rec := bs.recs[i]
		rec.Context = trace.ContextWithSpanContext(context.Background(), trace.NewSpanContext(trace.SpanContextConfig{
			TraceID: tid, SpanID: sid, TraceFlags: trace.TraceFlags(hx.UnHex(t[4])[0]), TraceState: ts}))
		l := w.lanes["noop"]
		l.ptr.OnProduceRecordBuffered(rec)
		l.ptr.OnProduceRecordUnbuffered(rec, nil)
		bs.injected[i] = true
		hx.St.Inc("op.binj")
		k := "traceparent"
		return dumpBatch(bs.recs, i, &k), true
	case t[0] == "bext" && len(t) == 1:
		l := w.lanes["noop"]
		xs := make([]string, len(bs.recs))
		for j, rec := range bs.recs {
			xs[j] = "-"
			if bs.injected[j] {
				cp := *rec // the hook reads the headers and stores the extracted context in the record
				cp.Context = nil
				l.ctr.OnFetchRecordBuffered(&cp)
				xs[j] = scTok(trace.SpanContextFromContext(cp.Context))
				l.ctr.OnFetchRecordUnbuffered(&cp, true)
			}
		}
		hx.St.Inc("op.bext")
		return dumpBatch(bs.recs, -1, nil) + " X=" + strings.Join(xs, "/"), true
	}
	return "", false
}
