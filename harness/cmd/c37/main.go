// C37 harness: kotel.RecordCarrier on generated header lists, and trace-context propagation through the
// real kotel tracer hooks — in memory and end to end (kgo producer -> kfake -> kgo consumer).
//
//	ops (grammar in lean/Driver/C37.lean):
//	  reset H <hdrs> | reset E <via> <prov> <tid> <sid> <flags> <ts> <hdrs> | set <k> <v> | get <k> | keys
//	  and the fetched-batch classes of batch.go: reset B … | reset R … | bset/bget/bkeys <i> … | binj <i> … | bext
//	out: H=<hdrs> K=<Keys()> G=<Get(key of header i)…> R=<Get(k)|.> [X=<extracted traceparent> T=<extracted tracestate>]
package main

import (
	"context"
	"encoding/hex"
	"fmt"
	"os"
	"strings"
	"sync"
	"time"

	"github.com/twmb/franz-go/pkg/kfake"
	"github.com/twmb/franz-go/pkg/kgo"
	"github.com/twmb/franz-go/pkg/kmsg"
	"github.com/twmb/franz-go/plugin/kotel"
	"go.opentelemetry.io/otel"
	"go.opentelemetry.io/otel/propagation"
	sdktrace "go.opentelemetry.io/otel/sdk/trace"
	"go.opentelemetry.io/otel/trace"
	"go.opentelemetry.io/otel/trace/noop"
	"verifharness/hx"
)

// ---------------------------------------------------------------- generator

var keyPool = []string{"", "a", "b", "k", "traceparent", "tracestate", "Traceparent", "baggage", "\xff\x00", "a ", "ab"}

func genVal(r *hx.Rng) string { // token
	switch k := r.Intn(10); {
	case k == 0:
		return "-"
	case k == 1:
		return "."
	case k < 5:
		return hx.Hex([]byte(hx.Pick(r, []string{"x", "y", "00-0af7651916cd43dd8448eb211c80319c-b7ad6b7169203331-01", "v=1"})))
	default:
		return hx.Hex(r.Bytes(1 + r.Intn(6)))
	}
}

func genHdrs(r *hx.Rng, keys []string, n int) string {
	if n == 0 {
		return "~"
	}
	parts := make([]string, n)
	for i := range parts {
		parts[i] = hx.Hex([]byte(hx.Pick(r, keys))) + ":" + genVal(r)
	}
	return strings.Join(parts, ",")
}

func subPool(r *hx.Rng) []string {
	n := 1 + r.Intn(3)
	ks := make([]string, n)
	for i := range ks {
		ks[i] = hx.Pick(r, keyPool)
	}
	if r.Chance(15) {
		ks = append(ks, string(r.Bytes(1+r.Intn(3))))
	}
	return ks
}

func nHdrs(r *hx.Rng) int {
	switch k := r.Intn(100); {
	case k < 4:
		return 0
	case k < 12:
		return 1
	default:
		return 2 + r.Intn(5)
	}
}

func genOps(r *hx.Rng, keys []string, n int) {
	for i := 0; i < n; i++ {
		k := hx.Pick(r, keys)
		if r.Chance(15) {
			k = hx.Pick(r, keyPool)
		}
		switch c := r.Intn(100); {
		case c < 55:
			v := genVal(r)
			if v == "-" {
				v = "."
			}
			hx.Emit("set %s %s", hx.Hex([]byte(k)), v)
		case c < 85:
			hx.Emit("get %s", hx.Hex([]byte(k)))
		default:
			hx.Emit("keys")
		}
	}
}

func nonZero(b []byte) []byte {
	for _, x := range b {
		if x != 0 {
			return b
		}
	}
	b[len(b)-1] = 1
	return b
}

func genE2E(r *hx.Rng, via string) {
	prov := "noop"
	if r.Chance(45) && via != "cmp" { // via=cmp reads the extracted context from the consumed record: noop provider only
		prov = "sdk"
	}
	flags := r.Intn(4)
	if prov == "sdk" {
		flags = r.Intn(2)
	}
	ts := hx.Pick(r, []string{"", "", "k=v", "vendor=abc,other=1", "a=1,b=2,c=3"})
	keys := []string{"traceparent", hx.Pick(r, keyPool), hx.Pick(r, keyPool)}
	stale := ts == "" && r.Chance(12) // nothing injected under `tracestate`, but the record already carries one
	if ts != "" || stale {
		keys = append(keys, "tracestate", "tracestate")
	}
	if r.Chance(30) {
		keys = []string{hx.Pick(r, []string{"a", "b", ""}), "x-other"}
	}
	n := r.Intn(6)
	hs := genHdrs(r, keys, n)
	if ts == "" {
		tsKey := hx.Hex([]byte("tracestate")) + ":"
		if !stale { // keyPool can also yield the key: keep it out unless the stale class is wanted
			hs = strings.ReplaceAll(hs, tsKey, hx.Hex([]byte("tracestat3"))+":")
		} else {
			// A stale header legitimately survives (a string map returns it too; the Spec is then not applicable).
			// The harness reports the extracted tracestate after OpenTelemetry's ParseTraceState, which the model
			// does not contain, so stale values are well-formed tracestates: parsed form == raw Get.
			ps := strings.Split(hs, ",")
			for i, p := range ps {
				if strings.HasPrefix(p, tsKey) {
					ps[i] = tsKey + hx.Hex([]byte(hx.Pick(r, []string{"s=1", "s=1,t=2"})))
				}
			}
			hs = strings.Join(ps, ",")
		}
	}
	hx.Emit("reset E %s %s %s %s %02x %s %s", via, prov, hex.EncodeToString(nonZero(r.Bytes(16))), hex.EncodeToString(nonZero(r.Bytes(8))),
		flags, hx.Hex([]byte(ts)), hs)
	genOps(r, append(keys, "traceparent", "tracestate"), 1+r.Intn(4))
}

// seedMix scatters VERIF_SEED before it reaches hx.NewRng: NewRng's state is seed*G+c and every draw adds G, so
// consecutive seeds would otherwise yield the same stream shifted by one draw (measured: seeds 1 and 2 gave
// op files differing in 4 of 17784 lines). All random choices still derive from hx.NewRng.
func seedMix(s uint64) uint64 {
	z := s + 0x9E3779B97F4A7C15
	z = (z ^ (z >> 30)) * 0xBF58476D1CE4E5B9
	z = (z ^ (z >> 27)) * 0x94D049BB133111EB
	return z ^ (z >> 31)
}

func generate(a hx.Args) {
	r := hx.NewRng(seedMix(a.Seed))
	// fixed boundary groups
	for _, l := range []string{
		"reset H ~", "get .", "keys", "set . .", "get .", "set 61 .", "set . 62", "keys",
		"reset H 61:-,61:.,61:78", "get 61", "set 61 79", "get 61", "keys", "set 62 .", "get 62",
		"reset H .:-,.:78", "get .", "set . 7a", "keys",
	} {
		hx.Emit("%s", l)
	}
	for i := 0; i < a.N(1500, 15000); i++ {
		keys := subPool(r)
		hx.Emit("reset H %s", genHdrs(r, keys, nHdrs(r)))
		genOps(r, keys, 4+r.Intn(9))
	}
	// inject/extract shaped sequences: Sets of a key list, then Gets of the same keys
	for i := 0; i < a.N(300, 3000); i++ {
		keys := subPool(r)
		hx.Emit("reset H %s", genHdrs(r, keys, nHdrs(r)))
		inj := append([]string{}, keys...)
		if r.Bool() {
			inj = append(inj, keys[0]) // a key set twice: the last value wins
		}
		for _, k := range inj {
			v := genVal(r)
			if v == "-" {
				v = "."
			}
			hx.Emit("set %s %s", hx.Hex([]byte(k)), v)
		}
		for _, k := range inj {
			hx.Emit("get %s", hx.Hex([]byte(k)))
		}
	}
	for i := 0; i < a.N(600, 6000); i++ {
		genE2E(r, "mem")
	}
	for i := 0; i < a.N(40, 600); i++ {
		genE2E(r, "wire")
	}
	for i := 0; i < a.N(30, 300); i++ {
		genE2E(r, "cmp")
	}
	generateBatches(r, a)
	if a.Tier == "thorough" { // small scope: every header list of length <= 3 over 2 keys x 3 values, every op on 3 keys
		ks := []string{"61", "62"}
		vs := []string{"-", ".", "78"}
		var hdrs []string
		for _, k := range ks {
			for _, v := range vs {
				hdrs = append(hdrs, k+":"+v)
			}
		}
		lists := []string{"~"}
		for _, x := range hdrs {
			lists = append(lists, x)
			for _, y := range hdrs {
				lists = append(lists, x+","+y)
				for _, z := range hdrs {
					lists = append(lists, x+","+y+","+z)
				}
			}
		}
		for _, l := range lists {
			for _, k := range []string{"61", "62", "63"} {
				hx.Emit("reset H %s", l)
				hx.Emit("get %s", k)
				hx.Emit("set %s 79", k)
				hx.Emit("get %s", k)
				hx.Emit("keys")
			}
		}
	}
}

// ---------------------------------------------------------------- implementation side

func parseHdrs(tok string) []kgo.RecordHeader {
	if tok == "~" {
		return nil
	}
	var hs []kgo.RecordHeader
	for _, p := range strings.Split(tok, ",") {
		kv := strings.SplitN(p, ":", 2)
		hs = append(hs, kgo.RecordHeader{Key: string(hx.UnHex(kv[0])), Value: hx.UnHex(kv[1])})
	}
	return hs
}

func list(xs []string) string {
	if len(xs) == 0 {
		return "~"
	}
	return strings.Join(xs, ",")
}

// observe prints what a user of the carrier can see of the record.
func observe(rec *kgo.Record, key *string) string {
	c := kotel.NewRecordCarrier(rec)
	var hs, ks, gs []string
	for _, h := range rec.Headers {
		hs = append(hs, hx.Hex([]byte(h.Key))+":"+hx.Hex(h.Value))
	}
	for _, k := range c.Keys() {
		ks = append(ks, hx.Hex([]byte(k)))
	}
	for _, h := range rec.Headers {
		gs = append(gs, hx.Hex([]byte(c.Get(h.Key))))
	}
	r := "."
	if key != nil {
		r = hx.Hex([]byte(c.Get(*key)))
	}
	return fmt.Sprintf("H=%s K=%s G=%s R=%s", list(hs), list(ks), list(gs), r)
}

// fixedIDs makes the SDK's span ids deterministic (taken from the op line).
type fixedIDs struct {
	mu  sync.Mutex
	tid trace.TraceID
	sid trace.SpanID
}

func (g *fixedIDs) NewIDs(context.Context) (trace.TraceID, trace.SpanID) {
	g.mu.Lock()
	defer g.mu.Unlock()
	return g.tid, g.sid
}
func (g *fixedIDs) NewSpanID(context.Context, trace.TraceID) trace.SpanID {
	g.mu.Lock()
	defer g.mu.Unlock()
	return g.sid
}

// capture is a sampler that records the parent span context every span is started with: on the consumer
// side that is exactly what the hook extracted from the record.
type capture struct {
	mu    sync.Mutex
	last  trace.SpanContext
	inner sdktrace.Sampler
}

func (c *capture) ShouldSample(p sdktrace.SamplingParameters) sdktrace.SamplingResult {
	c.mu.Lock()
	c.last = trace.SpanContextFromContext(p.ParentContext)
	c.mu.Unlock()
	return c.inner.ShouldSample(p)
}
func (c *capture) Description() string { return "capture" }

type lane struct {
	topic      string
	ptr, ctr   *kotel.Tracer
	prod, cons *kgo.Client
	cprod      *kgo.Client // via=cmp: producer of the compacted topic (lingers, so that two records share a batch)
	cn         int
}

type world struct {
	cluster *kfake.Cluster
	ids     *fixedIDs
	cap     *capture
	lanes   map[string]*lane
	br      *bridgeWorld
}

var parentSpan = trace.SpanID{0x00, 0xf0, 0x67, 0xaa, 0x0b, 0xa9, 0x02, 0xb7}

func newWorld() *world {
	// the Baggage propagator reports unparsable `baggage` headers (we generate them on purpose) to the global handler
	otel.SetErrorHandler(otel.ErrorHandlerFunc(func(error) {}))
	w := &world{ids: &fixedIDs{}, cap: &capture{inner: sdktrace.ParentBased(sdktrace.AlwaysSample())}, lanes: map[string]*lane{}}
	prop := propagation.NewCompositeTextMapPropagator(propagation.TraceContext{}, propagation.Baggage{})
	np := noop.NewTracerProvider()
	w.lanes["noop"] = &lane{topic: "tn",
		ptr: kotel.NewTracer(kotel.TracerProvider(np), kotel.TracerPropagator(prop)),
		ctr: kotel.NewTracer(kotel.TracerProvider(np), kotel.TracerPropagator(prop), kotel.ConsumerGroup("g"))}
	w.lanes["sdk"] = &lane{topic: "ts",
		ptr: kotel.NewTracer(kotel.TracerProvider(sdktrace.NewTracerProvider(sdktrace.WithIDGenerator(w.ids))), kotel.TracerPropagator(prop), kotel.ClientID("c")),
		ctr: kotel.NewTracer(kotel.TracerProvider(sdktrace.NewTracerProvider(sdktrace.WithSampler(w.cap))), kotel.TracerPropagator(prop))}
	return w
}

func (w *world) ensureCluster() {
	if w.cluster == nil {
		c, err := kfake.NewCluster(kfake.NumBrokers(1), kfake.SeedTopics(1, "tn", "ts", "bin", "bout"))
		if err != nil {
			panic(err)
		}
		w.cluster = c
	}
}

func (w *world) wire(l *lane) {
	w.ensureCluster()
	if l.prod == nil {
		var err error
		l.prod, err = kgo.NewClient(kgo.SeedBrokers(w.cluster.ListenAddrs()...), kgo.WithHooks(l.ptr), kgo.ProducerLinger(0))
		if err != nil {
			panic(err)
		}
		l.cons, err = kgo.NewClient(kgo.SeedBrokers(w.cluster.ListenAddrs()...), kgo.WithHooks(l.ctr),
			kgo.ConsumeTopics(l.topic), kgo.ConsumeResetOffset(kgo.NewOffset().AtStart()), kgo.FetchMaxWait(250*time.Millisecond))
		if err != nil {
			panic(err)
		}
	}
}

const cmpTopic = "cmp"

func (w *world) compacted(l *lane, rec *kgo.Record) *kgo.Record {
	w.ensureCluster()
	ctx, cancel := context.WithTimeout(context.Background(), 20*time.Second)
	defer cancel()
	if l.cprod == nil {
		var err error
		l.cprod, err = kgo.NewClient(kgo.SeedBrokers(w.cluster.ListenAddrs()...), kgo.WithHooks(l.ptr), kgo.ProducerLinger(30*time.Millisecond),
			kgo.RecordPartitioner(kgo.ManualPartitioner()))
		if err != nil {
			panic(err)
		}
		req := kmsg.NewPtrCreateTopicsRequest()
		req.TimeoutMillis = 5000
		rt := kmsg.NewCreateTopicsRequestTopic()
		rt.Topic, rt.NumPartitions, rt.ReplicationFactor = cmpTopic+l.topic, 1, 1
		rc := kmsg.NewCreateTopicsRequestTopicConfig()
		rc.Name, rc.Value = "cleanup.policy", kmsg.StringPtr("compact")
		rt.Configs = append(rt.Configs, rc)
		req.Topics = append(req.Topics, rt)
		if resp, err := req.RequestWith(ctx, l.cprod); err != nil || resp.Topics[0].ErrorCode != 0 {
			panic(fmt.Sprint("create compacted topic: ", err))
		}
	}
	l.cn++
	topic := cmpTopic + l.topic
	rec.Topic, rec.Partition, rec.Key = topic, 0, []byte(fmt.Sprintf("r%d", l.cn))
	fkey := []byte(fmt.Sprintf("f%d", l.cn))
	filler := &kgo.Record{Topic: topic, Key: fkey, Value: []byte("filler"), Headers: []kgo.RecordHeader{
		{Key: "traceparent", Value: []byte("00-0123456789abcdef0123456789abcdef-0123456789abcdef-01")}, {Key: "filler", Value: []byte("1")}, {Key: "tracestate", Value: []byte("f=1")}}}
	// one batch: both are buffered within the linger
	var wg sync.WaitGroup
	var perr error
	for _, r := range []*kgo.Record{rec, filler} {
		wg.Add(1)
		l.cprod.Produce(ctx, r, func(_ *kgo.Record, err error) {
			if err != nil {
				perr = err
			}
			wg.Done()
		})
	}
	wg.Wait()
	if perr != nil {
		panic(fmt.Sprint("produce:", perr))
	}
	if filler.Offset != rec.Offset+1 {
		panic(fmt.Sprintf("record and filler not adjacent: %d %d", rec.Offset, filler.Offset))
	}
	for _, r := range []*kgo.Record{{Topic: topic, Key: fkey, Value: []byte("newer")}, {Topic: topic, Key: []byte(fmt.Sprintf("z%d", l.cn)), Value: []byte("tail")}} {
		if err := l.cprod.ProduceSync(ctx, r).FirstErr(); err != nil {
			panic(fmt.Sprint("produce:", err))
		}
	}
	w.cluster.Compact()
	co, err := kgo.NewClient(kgo.SeedBrokers(w.cluster.ListenAddrs()...), kgo.WithHooks(l.ctr), kgo.FetchMaxWait(250*time.Millisecond),
		kgo.ConsumePartitions(map[string]map[int32]kgo.Offset{topic: {0: kgo.NewOffset().At(rec.Offset)}}))
	if err != nil {
		panic(err)
	}
	defer co.Close()
	var got *kgo.Record
	for got == nil {
		fs := co.PollRecords(ctx, 1)
		if ctx.Err() != nil {
			panic("poll timeout")
		}
		fs.EachError(func(_ string, _ int32, e error) { panic(fmt.Sprint("fetch:", e)) })
		fs.EachRecord(func(r *kgo.Record) { got = r })
	}
	if got.Offset != rec.Offset {
		panic(fmt.Sprintf("consumed offset %d, produced %d", got.Offset, rec.Offset))
	}
	hx.St.Inc("e2e.via-compaction")
	return got
}

func fmtSC(sc trace.SpanContext) string {
	if !sc.IsValid() {
		return "X=. T=."
	}
	tp := fmt.Sprintf("00-%s-%s-%02x", sc.TraceID(), sc.SpanID(), byte(sc.TraceFlags()))
	return fmt.Sprintf("X=%s T=%s", hx.Hex([]byte(tp)), hx.Hex([]byte(sc.TraceState().String())))
}

// e2e sends a record through the producer-side hook and the consumer-side hook; returns the consumed record
// and the span context the consumer-side hook extracted.
func (w *world) e2e(t []string) (*kgo.Record, string) {
	via, prov := t[2], t[3]
	tid, err := trace.TraceIDFromHex(t[4])
	if err != nil {
		panic(err)
	}
	sid, err := trace.SpanIDFromHex(t[5])
	if err != nil {
		panic(err)
	}
	flags := trace.TraceFlags(hx.UnHex(t[6])[0])
	ts, err := trace.ParseTraceState(string(hx.UnHex(t[7])))
	if err != nil {
		panic(err)
	}
	l := w.lanes[prov]
	var ctx context.Context
	switch prov {
	case "noop": // the context already carries the span whose context is injected
		ctx = trace.ContextWithSpanContext(context.Background(), trace.NewSpanContext(trace.SpanContextConfig{
			TraceID: tid, SpanID: sid, TraceFlags: flags, TraceState: ts}))
	case "sdk": // a real "publish" span is started as a child: same trace, span id from the generator
		w.ids.mu.Lock()
		w.ids.tid, w.ids.sid = tid, sid
		w.ids.mu.Unlock()
		ctx = trace.ContextWithRemoteSpanContext(context.Background(), trace.NewSpanContext(trace.SpanContextConfig{
			TraceID: tid, SpanID: parentSpan, TraceFlags: flags, TraceState: ts, Remote: true}))
	default:
		panic("bad provider")
	}
	rec := &kgo.Record{Topic: l.topic, Value: []byte("v"), Headers: parseHdrs(t[8]), Context: ctx}
	var got *kgo.Record
	switch via {
	case "mem":
		l.ptr.OnProduceRecordBuffered(rec)
		l.ptr.OnProduceRecordUnbuffered(rec, nil)
		got = &kgo.Record{Topic: l.topic, Value: []byte("v")}
		for _, h := range rec.Headers {
			got.Headers = append(got.Headers, kgo.RecordHeader{Key: h.Key, Value: append([]byte(nil), h.Value...)})
			if h.Value == nil {
				got.Headers[len(got.Headers)-1].Value = nil
			} else if len(h.Value) == 0 {
				got.Headers[len(got.Headers)-1].Value = []byte{}
			}
		}
		l.ctr.OnFetchRecordBuffered(got)
		l.ctr.OnFetchRecordUnbuffered(got, true)
	case "wire":
		w.wire(l)
		pctx, cancel := context.WithTimeout(context.Background(), 10*time.Second)
		defer cancel()
		res := l.prod.ProduceSync(pctx, rec)
		if err := res.FirstErr(); err != nil {
			panic(fmt.Sprint("produce:", err))
		}
		for got == nil {
			fs := l.cons.PollRecords(pctx, 1)
			if pctx.Err() != nil {
				panic("poll timeout")
			}
			fs.EachError(func(_ string, _ int32, e error) { panic(fmt.Sprint("fetch:", e)) })
			fs.EachRecord(func(r *kgo.Record) { got = r })
		}
		if got.Offset != rec.Offset {
			panic(fmt.Sprintf("consumed offset %d, produced %d", got.Offset, rec.Offset))
		}
	case "cmp":
		// the record crosses the wire and then survives a log compaction of its batch: it is produced in one batch with a
		// filler record of another key (which carries headers of its own), the filler is superseded by a later batch,
		// one more batch follows (the active batch is never compacted), kfake compacts (the broker rewrites the partly
		// superseded batch from its decoded survivors), and a fresh consumer reads the record back at its offset
		got = w.compacted(l, rec)
	default:
		panic("bad via")
	}
	var ex trace.SpanContext
	if prov == "noop" {
		ex = trace.SpanContextFromContext(got.Context)
	} else {
		w.cap.mu.Lock()
		ex = w.cap.last
		w.cap.mu.Unlock()
	}
	return got, fmtSC(ex)
}

func hdrStats(hs []kgo.RecordHeader) {
	seen := map[string]bool{}
	dup := false
	for _, h := range hs {
		if seen[h.Key] {
			dup = true
		}
		seen[h.Key] = true
		switch {
		case h.Value == nil:
			hx.St.Inc("value.nil")
		case len(h.Value) == 0:
			hx.St.Inc("value.empty")
		default:
			hx.St.Inc("value.bytes")
		}
		if h.Key == "" {
			hx.St.Inc("key.empty")
		}
	}
	if dup {
		hx.St.Inc("record.duplicate-keys")
	}
	n := len(hs)
	switch {
	case n >= 4:
		hx.St.Inc("headers.4+")
	default:
		hx.St.Inc(fmt.Sprintf("headers.%d", n))
	}
}

func run() {
	w := newWorld()
	rec := &kgo.Record{}
	bs := &batchState{}
	hx.RunLines(20*time.Second, func(t []string) string {
		if out, ok := w.batchOp(bs, t); ok {
			return out
		}
		switch {
		case t[0] == "reset" && len(t) == 3 && t[1] == "H":
			rec = &kgo.Record{Headers: parseHdrs(t[2])}
			hx.St.Inc("op.reset-H")
			hdrStats(rec.Headers)
			return observe(rec, nil)
		case t[0] == "reset" && len(t) == 9 && t[1] == "E":
			got, x := w.e2e(t)
			rec = got
			hx.St.Inc("op.reset-E." + t[2] + "." + t[3])
			if string(hx.UnHex(t[7])) == "" && strings.Contains(t[8], hx.Hex([]byte("tracestate"))+":") {
				hx.St.Inc("e2e.stale-tracestate")
			}
			hdrStats(parseHdrs(t[8]))
			return observe(rec, nil) + " " + x
		case t[0] == "set" && len(t) == 3:
			k, v := string(hx.UnHex(t[1])), string(hx.UnHex(t[2]))
			c := kotel.NewRecordCarrier(rec)
			present := false
			for _, h := range rec.Headers {
				present = present || h.Key == k
			}
			if present {
				hx.St.Inc("op.set.overwrite")
			} else {
				hx.St.Inc("op.set.append")
			}
			c.Set(k, v)
			return observe(rec, &k)
		case t[0] == "get" && len(t) == 2:
			k := string(hx.UnHex(t[1]))
			hx.St.Inc("op.get")
			return observe(rec, &k)
		case t[0] == "keys" && len(t) == 1:
			hx.St.Inc("op.keys")
			return observe(rec, nil)
		}
		return "bad-op"
	})
}

func main() {
	a := hx.Parse()
	switch a.Mode {
	case "gen":
		generate(a)
		hx.Flush()
	case "run":
		run()
	default:
		os.Exit(2)
	}
}
