// C32 harness: histories of raw protocol requests against the real kfake of this tree, one history
// (a group of op lines started by `reset`) per testing/synctest bubble (virtual time: transaction
// timeouts are driven by `sleep`). Two raw clients: `o` pinned to Kafka 2.8 request versions
// (Produce v9, Fetch v12, EndTxn v3, AddPartitionsToTxn v3) and `n` at the newest versions
// (Produce v13 with implicit partition addition, Fetch with topic ids, EndTxn v5 with epoch bumps).
//
// Every answer is followed by ` ; ` and the bounds of every partition as ListOffsets reports them
// (`logStart/LSO/HWM`), so the bounds are checked after every step of every history.
//
//	reset <np> [<brokers 1|2>]                   -> ok            (every partition led by broker 0)
//	move <p> <broker>                            -> ok            MoveTopicPartition
//	via <broker>                                 -> ok            partition-level requests now go to this broker
//	initx <k> <timeoutMs>                        -> <code> <epoch>            InitProducerID(txid x<k>)
//	initr <k> <epoch>                            -> <code> <epoch>            InitProducerID(txid, pid, epoch) (KIP-360)
//	addp <k> <epoch> <p,p..>                     -> <p>:<code> ...            AddPartitionsToTxn v3
//	prod <c> <k> <epoch> <seq> <n> <nbytes> <p> <tx> -> <code> <base> <logStart>   (k = -1: no producer id)
//	end <c> <k> <epoch> <commit>                 -> <code> <epoch>
//	del <p> <off>                                -> <code> <lowWatermark>
//	sleep <ms>                                   -> ok
//	fetch <c> <iso> <maxBytes> <sid> <sepoch> <p:off:pmax,..|-> <forget p,..|-> [<minBytes> <maxWaitMs>]
//	      -> <elapsed virtual ms> <err> <sid> <p>:<code>:<hwm>:<lso>:<logStart>:<batches>:<aborted> ... (partitions sorted)
//	         batch = first.n.k.epoch.seq.flags  (flags: d data, t transactional data, C commit marker, A abort marker)
//	         aborted = k@first
package main

import (
	"bufio"
	"context"
	"fmt"
	"hash/crc32"
	"os"
	"sort"
	"strings"
	"sync/atomic"
	"testing"
	"testing/synctest"
	"time"

	"github.com/twmb/franz-go/pkg/kfake"
	"github.com/twmb/franz-go/pkg/kgo"
	"github.com/twmb/franz-go/pkg/kmsg"
	"github.com/twmb/franz-go/pkg/kversion"
	"verifharness/hx"
	"verifharness/sim"
)

func TestMain(m *testing.M) { sim.Main(m, gen, nil) }

var portBase atomic.Int64

type impl struct {
	c       *kfake.Cluster
	o, n    *kgo.Client
	np      int
	nb      int
	via     int   // broker the partition-level requests go to
	leader  []int // leader of every partition (set by the harness: all 0 at start)
	topicID [16]byte
	pids    map[int64]int64 // producer index -> producer id
	rev     map[int64]int64
}

const idemBase = 7000 // producer ids of idempotent-only producers: idemBase+k (created on demand by kfake)

func (im *impl) pid(k int64) int64 {
	if k < 0 {
		return -1
	}
	if p, ok := im.pids[k]; ok {
		return p
	}
	return idemBase + k
}
func (im *impl) kof(pid int64) int64 {
	if pid < 0 {
		return -1
	}
	if k, ok := im.rev[pid]; ok {
		return k
	}
	if pid >= idemBase && pid < idemBase+100 {
		return pid - idemBase
	}
	return 999
}

func newImpl(np, nb int) (*impl, error) {
	var stack kfake.VirtualNetwork
	port := int(9000 + (portBase.Add(1)%5000)*4)
	ports := []int{port}
	if nb == 2 {
		ports = append(ports, port+1)
	}
	c, err := kfake.NewCluster(kfake.NumBrokers(nb), kfake.Ports(ports...), kfake.SeedTopics(int32(np), "t"), kfake.ListenFn(stack.Listen))
	if err != nil {
		return nil, err
	}
	common := []kgo.Opt{kgo.SeedBrokers(c.ListenAddrs()...), kgo.Dialer(stack.DialContext), kgo.DisableIdempotentWrite(), kgo.RequestRetries(0)}
	n, err := kgo.NewClient(common...)
	if err != nil {
		c.Close()
		return nil, err
	}
	o, err := kgo.NewClient(append([]kgo.Opt{kgo.MaxVersions(kversion.V2_8_0())}, common...)...)
	if err != nil {
		n.Close()
		c.Close()
		return nil, err
	}
	im := &impl{c: c, o: o, n: n, np: np, nb: nb, leader: make([]int, np), topicID: c.TopicInfo("t").TopicID, pids: map[int64]int64{}, rev: map[int64]int64{}}
	for p := 0; p < np; p++ { // kfake picks leaders at random: start every history with broker 0 leading everything
		if err := c.MoveTopicPartition("t", int32(p), 0); err != nil {
			im.close()
			return nil, err
		}
	}
	return im, nil
}

func (im *impl) close() {
	im.o.Close()
	im.n.Close()
	im.c.Close()
}

func (im *impl) cl(c string) *kgo.Client {
	if c == "o" {
		return im.o
	}
	return im.n
}

// do sends a partition-level request to the broker the history's client is talking to.
func (im *impl) do(cl *kgo.Client, req kmsg.Request) (kmsg.Response, error) {
	return im.doAt(cl, im.via, req)
}

func (im *impl) doAt(cl *kgo.Client, broker int, req kmsg.Request) (kmsg.Response, error) {
	ctx, cancel := context.WithTimeout(context.Background(), 30*time.Second)
	defer cancel()
	return cl.Broker(broker).RetriableRequest(ctx, req)
}

// coord is the transaction coordinator of producer k's transactional id (requests to it always go to the right broker).
func (im *impl) coord(k int64) int { return int(im.c.CoordinatorFor(fmt.Sprintf("x%d", k))) }

// buildBatch makes a record batch of exactly nbytes wire bytes with n records (the last record's value is padded).
func buildBatch(pid int64, epoch int16, seq, n int32, nbytes int, tx bool) []byte {
	b := kmsg.RecordBatch{
		PartitionLeaderEpoch: -1, Magic: 2, LastOffsetDelta: n - 1, FirstTimestamp: 1, MaxTimestamp: 1,
		ProducerID: pid, ProducerEpoch: epoch, FirstSequence: seq, NumRecords: n,
	}
	if tx {
		b.Attributes = 0x10
	}
	pad := nbytes - 61 - 7*int(n)
	if pad < 0 || pad > 50 {
		return nil
	}
	for i := int32(0); i < n; i++ {
		v := []byte{}
		if i == n-1 {
			v = make([]byte, pad)
		}
		rec := kmsg.Record{OffsetDelta: i, Value: v}
		rec.Length = int32(len(rec.AppendTo(nil)) - 1)
		b.Records = rec.AppendTo(b.Records)
	}
	raw := b.AppendTo(nil)
	b.Length = int32(len(raw) - 12)
	raw = b.AppendTo(nil)
	b.CRC = int32(crc32.Checksum(raw[21:], crc32.MakeTable(crc32.Castagnoli)))
	return b.AppendTo(nil)
}

func (im *impl) initp(k int64, timeout int32, pid int64, epoch int16) string {
	req := kmsg.NewPtrInitProducerIDRequest()
	txid := fmt.Sprintf("x%d", k)
	req.TransactionalID = &txid
	req.TransactionTimeoutMillis = timeout
	req.ProducerID = pid
	req.ProducerEpoch = epoch
	kresp, err := im.doAt(im.n, im.coord(k), req)
	if err != nil {
		return "err-request:" + strings.ReplaceAll(err.Error(), " ", "_")
	}
	resp := kresp.(*kmsg.InitProducerIDResponse)
	if resp.ErrorCode != 0 {
		return fmt.Sprintf("%d -1", resp.ErrorCode)
	}
	if old, ok := im.pids[k]; ok && old != resp.ProducerID {
		return fmt.Sprintf("pid-changed %d", resp.ProducerEpoch)
	}
	im.pids[k] = resp.ProducerID
	im.rev[resp.ProducerID] = k
	return fmt.Sprintf("0 %d", resp.ProducerEpoch)
}

func (im *impl) addp(k int64, epoch int16, ps []int32) string {
	req := kmsg.NewPtrAddPartitionsToTxnRequest()
	req.TransactionalID = fmt.Sprintf("x%d", k)
	req.ProducerID = im.pid(k)
	req.ProducerEpoch = epoch
	rt := kmsg.NewAddPartitionsToTxnRequestTopic()
	rt.Topic = "t"
	rt.Partitions = ps
	req.Topics = append(req.Topics, rt)
	kresp, err := im.doAt(im.o, im.coord(k), req)
	if err != nil {
		return "err-request:" + strings.ReplaceAll(err.Error(), " ", "_")
	}
	resp := kresp.(*kmsg.AddPartitionsToTxnResponse)
	var out []string
	for _, t := range resp.Topics {
		for _, p := range t.Partitions {
			out = append(out, fmt.Sprintf("%d:%d", p.Partition, p.ErrorCode))
		}
	}
	sort.Strings(out)
	return strings.Join(out, " ")
}

func (im *impl) prod(c string, k int64, epoch int16, seq, n int32, nbytes int, p int32, tx bool) string {
	raw := buildBatch(im.pid(k), epoch, seq, n, nbytes, tx)
	if raw == nil || len(raw) != nbytes {
		return "bad-size"
	}
	req := kmsg.NewPtrProduceRequest()
	req.Acks = -1
	req.TimeoutMillis = 5000
	rt := kmsg.NewProduceRequestTopic()
	rt.Topic = "t"
	rt.TopicID = im.topicID
	rp := kmsg.NewProduceRequestTopicPartition()
	rp.Partition = p
	rp.Records = raw
	rt.Partitions = append(rt.Partitions, rp)
	req.Topics = append(req.Topics, rt)
	kresp, err := im.do(im.cl(c), req)
	if err != nil {
		return "err-request:" + strings.ReplaceAll(err.Error(), " ", "_")
	}
	rp0 := kresp.(*kmsg.ProduceResponse).Topics[0].Partitions[0]
	return fmt.Sprintf("%d %d %d", rp0.ErrorCode, rp0.BaseOffset, rp0.LogStartOffset)
}

func (im *impl) end(c string, k int64, epoch int16, commit bool) string {
	req := kmsg.NewPtrEndTxnRequest()
	req.TransactionalID = fmt.Sprintf("x%d", k)
	req.ProducerID = im.pid(k)
	req.ProducerEpoch = epoch
	req.Commit = commit
	kresp, err := im.doAt(im.cl(c), im.coord(k), req)
	if err != nil {
		return "err-request:" + strings.ReplaceAll(err.Error(), " ", "_")
	}
	resp := kresp.(*kmsg.EndTxnResponse)
	if resp.ErrorCode == 0 && resp.ProducerID != -1 && resp.ProducerID != im.pid(k) {
		return fmt.Sprintf("pid-changed %d", resp.ProducerEpoch)
	}
	return fmt.Sprintf("%d %d", resp.ErrorCode, resp.ProducerEpoch)
}

func (im *impl) del(p int32, off int64) string {
	req := kmsg.NewPtrDeleteRecordsRequest()
	req.TimeoutMillis = 5000
	rt := kmsg.NewDeleteRecordsRequestTopic()
	rt.Topic = "t"
	rp := kmsg.NewDeleteRecordsRequestTopicPartition()
	rp.Partition = p
	rp.Offset = off
	rt.Partitions = append(rt.Partitions, rp)
	req.Topics = append(req.Topics, rt)
	kresp, err := im.do(im.n, req)
	if err != nil {
		return "err-request:" + strings.ReplaceAll(err.Error(), " ", "_")
	}
	r := kresp.(*kmsg.DeleteRecordsResponse).Topics[0].Partitions[0]
	return fmt.Sprintf("%d %d", r.ErrorCode, r.LowWatermark)
}

func (im *impl) listOffsets(ts int64, iso int8) []int64 {
	out := make([]int64, im.np)
	for i := range out {
		out[i] = -99
	}
	for b := 0; b < im.nb; b++ { // each partition is asked at its leader
		req := kmsg.NewPtrListOffsetsRequest()
		req.ReplicaID = -1
		req.IsolationLevel = iso
		rt := kmsg.NewListOffsetsRequestTopic()
		rt.Topic = "t"
		for p := 0; p < im.np; p++ {
			if im.leader[p] != b {
				continue
			}
			rp := kmsg.NewListOffsetsRequestTopicPartition()
			rp.Partition = int32(p)
			rp.Timestamp = ts
			rp.CurrentLeaderEpoch = -1
			rt.Partitions = append(rt.Partitions, rp)
		}
		if len(rt.Partitions) == 0 {
			continue
		}
		req.Topics = append(req.Topics, rt)
		kresp, err := im.doAt(im.n, b, req)
		if err != nil {
			continue
		}
		for _, t := range kresp.(*kmsg.ListOffsetsResponse).Topics {
			for _, p := range t.Partitions {
				if int(p.Partition) < im.np {
					out[p.Partition] = p.Offset
					if p.ErrorCode != 0 {
						out[p.Partition] = -1000 - int64(p.ErrorCode)
					}
				}
			}
		}
	}
	return out
}

func (im *impl) bounds() string {
	ls, lso, hwm := im.listOffsets(-2, 0), im.listOffsets(-1, 1), im.listOffsets(-1, 0)
	var out []string
	for p := 0; p < im.np; p++ {
		out = append(out, fmt.Sprintf("%d/%d/%d", ls[p], lso[p], hwm[p]))
	}
	return strings.Join(out, " ")
}

func (im *impl) batches(raw []byte) string {
	var out []string
	for len(raw) > 0 {
		var b kmsg.RecordBatch
		if len(raw) < 12 || b.ReadFrom(raw) != nil {
			out = append(out, "garbage")
			break
		}
		sz := 12 + int(b.Length)
		if sz > len(raw) || sz < 61 {
			out = append(out, "garbage")
			break
		}
		fl := "d"
		switch {
		case b.Attributes&0x20 != 0:
			var rec kmsg.Record
			fl = "X"
			if rec.ReadFrom(b.Records) == nil && len(rec.Key) == 4 {
				if rec.Key[3] == 1 {
					fl = "C"
				} else if rec.Key[3] == 0 {
					fl = "A"
				}
			}
			if b.Attributes&0x10 == 0 {
				fl += "?" // a control batch without the transactional bit
			}
		case b.Attributes&0x10 != 0:
			fl = "t"
		}
		if b.LastOffsetDelta != b.NumRecords-1 {
			fl += "!"
		}
		if sz != int(b.Length)+12 {
			fl += "#"
		}
		out = append(out, fmt.Sprintf("%d.%d.%d.%d.%d.%s.%d", b.FirstOffset, b.NumRecords, im.kof(b.ProducerID), b.ProducerEpoch, b.FirstSequence, fl, sz))
		raw = raw[sz:]
	}
	if len(out) == 0 {
		return "-"
	}
	return strings.Join(out, "+")
}

func (im *impl) fetch(c string, iso int8, maxBytes, sid, sepoch int32, parts, forget string, minBytes, maxWait int32) string {
	req := kmsg.NewPtrFetchRequest()
	req.ReplicaID = -1
	req.MaxWaitMillis = maxWait
	req.MinBytes = minBytes
	req.MaxBytes = maxBytes
	req.IsolationLevel = iso
	req.SessionID = sid
	req.SessionEpoch = sepoch
	if parts != "-" {
		rt := kmsg.NewFetchRequestTopic()
		rt.Topic = "t"
		rt.TopicID = im.topicID
		for _, s := range strings.Split(parts, ",") {
			f := strings.Split(s, ":")
			rp := kmsg.NewFetchRequestTopicPartition()
			rp.Partition = int32(hx.Atoi(f[0]))
			rp.FetchOffset = hx.Atoi(f[1])
			rp.PartitionMaxBytes = int32(hx.Atoi(f[2]))
			rp.CurrentLeaderEpoch = -1
			rp.LastFetchedEpoch = -1
			rp.LogStartOffset = -1
			rt.Partitions = append(rt.Partitions, rp)
		}
		req.Topics = append(req.Topics, rt)
	}
	if forget != "-" {
		ft := kmsg.NewFetchRequestForgottenTopic()
		ft.Topic = "t"
		ft.TopicID = im.topicID
		for _, s := range strings.Split(forget, ",") {
			ft.Partitions = append(ft.Partitions, int32(hx.Atoi(s)))
		}
		req.ForgottenTopics = append(req.ForgottenTopics, ft)
	}
	start := time.Now()
	kresp, err := im.do(im.cl(c), req)
	if err != nil {
		return "err-request:" + strings.ReplaceAll(err.Error(), " ", "_")
	}
	elapsed := time.Since(start).Milliseconds()
	synctest.Wait()
	resp := kresp.(*kmsg.FetchResponse)
	var ps []string
	for _, t := range resp.Topics {
		for _, p := range t.Partitions {
			var ab []string
			for _, a := range p.AbortedTransactions {
				ab = append(ab, fmt.Sprintf("%d@%d", im.kof(a.ProducerID), a.FirstOffset))
			}
			abs := "-"
			if len(ab) > 0 {
				abs = strings.Join(ab, "+")
			}
			ps = append(ps, fmt.Sprintf("%d:%d:%d:%d:%d:%s:%s", p.Partition, p.ErrorCode, p.HighWatermark, p.LastStableOffset, p.LogStartOffset, im.batches(p.RecordBatches), abs))
		}
	}
	sort.Strings(ps)
	return strings.TrimSpace(fmt.Sprintf("%d %d %d %s", elapsed, resp.ErrorCode, resp.SessionID, strings.Join(ps, " ")))
}

func ints32(s string) []int32 {
	var out []int32
	for _, f := range strings.Split(s, ",") {
		out = append(out, int32(hx.Atoi(f)))
	}
	return out
}

func (im *impl) op(t []string) string {
	switch t[0] {
	case "initx":
		return im.initp(hx.Atoi(t[1]), int32(hx.Atoi(t[2])), -1, -1)
	case "initr":
		return im.initp(hx.Atoi(t[1]), 1000, im.pid(hx.Atoi(t[1])), int16(hx.Atoi(t[2])))
	case "addp":
		return im.addp(hx.Atoi(t[1]), int16(hx.Atoi(t[2])), ints32(t[3]))
	case "prod":
		return im.prod(t[1], hx.Atoi(t[2]), int16(hx.Atoi(t[3])), int32(hx.Atoi(t[4])), int32(hx.Atoi(t[5])), int(hx.Atoi(t[6])), int32(hx.Atoi(t[7])), t[8] == "1")
	case "end":
		return im.end(t[1], hx.Atoi(t[2]), int16(hx.Atoi(t[3])), t[4] == "1")
	case "del":
		return im.del(int32(hx.Atoi(t[1])), hx.Atoi(t[2]))
	case "move":
		p, b := int(hx.Atoi(t[1])), int(hx.Atoi(t[2]))
		if p < im.np && b < im.nb {
			if err := im.c.MoveTopicPartition("t", int32(p), int32(b)); err != nil {
				return "err"
			}
			im.leader[p] = b
		}
		return "ok"
	case "via":
		if b := int(hx.Atoi(t[1])); b < im.nb {
			im.via = b
		}
		return "ok"
	case "sleep":
		time.Sleep(time.Duration(hx.Atoi(t[1])) * time.Millisecond)
		synctest.Wait()
		return "ok"
	case "fetch":
		var minb, wait int32
		if len(t) >= 10 {
			minb, wait = int32(hx.Atoi(t[8])), int32(hx.Atoi(t[9]))
			if wait > 0 && minb > 0 {
				hx.St.Inc("fetch.minbytes")
			}
		}
		return im.fetch(t[1], int8(hx.Atoi(t[2])), int32(hx.Atoi(t[3])), int32(hx.Atoi(t[4])), int32(hx.Atoi(t[5])), t[6], t[7], minb, wait)
	}
	return "bad-op"
}

func stat(t []string, res string) {
	code := strings.Fields(res + " ?")[0]
	switch t[0] {
	case "prod":
		kind := "plain"
		if t[2] != "-1" {
			kind = "idem"
		}
		if t[8] == "1" {
			kind = "txn"
		}
		hx.St.Inc("prod." + kind + "." + t[1] + ".code" + code)
	case "fetch":
		if f := strings.Fields(res + " ? ?"); f[0] != "0" && f[0] != "?" {
			hx.St.Inc("fetch.waited")
			if f[0] != t[len(t)-1] {
				hx.St.Inc("fetch.woken-by-timeout-abort")
			}
		}
		code = strings.Fields(res + " ? ?")[1]
		k := "plain"
		if t[5] == "0" {
			k = "newsession"
		} else if t[5] != "-1" {
			k = "incremental"
		}
		hx.St.Inc(fmt.Sprintf("fetch.iso%s.%s.err%s", t[2], k, code))
		if mb := hx.Atoi(t[3]); mb < 400 {
			hx.St.Inc("fetch.maxbytes.small")
		}
		if strings.Contains(res, "@") {
			hx.St.Inc("fetch.with-aborted-list")
		}
		if strings.Contains(res, ".A.") || strings.Contains(res, ".C.") {
			hx.St.Inc("fetch.with-marker")
		}
	default:
		hx.St.Inc(t[0] + ".code" + code)
	}
}

// runGroup executes one history inside a bubble and returns one result per line.
func runGroup(t *testing.T, lines [][]string) []string {
	out := make([]string, len(lines))
	res := sim.Bubble(t, 20*time.Second, func(t *testing.T) string {
		var im *impl
		defer func() {
			if im != nil {
				im.close()
			}
		}()
		for i, tk := range lines {
			if tk[0] == "reset" {
				if im != nil {
					im.close()
				}
				var err error
				nb := 1
				if len(tk) >= 3 {
					nb = int(hx.Atoi(tk[2]))
					hx.St.Inc("histories.two-brokers")
				}
				im, err = newImpl(int(hx.Atoi(tk[1])), nb)
				if err != nil {
					out[i] = "err-cluster:" + strings.ReplaceAll(err.Error(), " ", "_")
					im = nil
					continue
				}
				out[i] = "ok"
				hx.St.Inc("histories")
				continue
			}
			if im == nil {
				out[i] = "no-cluster"
				continue
			}
			r := hx.Guard(0, func() string { return im.op(tk) })
			stat(tk, r)
			out[i] = r + " ; " + im.bounds()
		}
		return "done"
	})
	if res != "done" {
		for i := range out {
			if out[i] == "" {
				out[i] = res
			}
		}
	}
	return out
}

func TestSim(t *testing.T) {
	sc := bufio.NewScanner(os.Stdin)
	sc.Buffer(make([]byte, 1<<20), 1<<28)
	var raw []string
	var group [][]string
	flush := func() {
		if len(group) == 0 {
			return
		}
		res := runGroup(t, group)
		for i := range group {
			hx.Emit("%s | %s", raw[i], res[i])
		}
		hx.Flush()
		raw, group = nil, nil
	}
	for sc.Scan() {
		line := strings.TrimSpace(sc.Text())
		if line == "" || strings.HasPrefix(line, "#") {
			continue
		}
		tk := strings.Fields(line)
		if tk[0] == "reset" {
			flush()
		}
		raw = append(raw, line)
		group = append(group, tk)
	}
	flush()
	hx.St.Dump()
	hx.Flush()
}
