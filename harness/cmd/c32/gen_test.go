package main

import (
	"fmt"
	"sort"
	"strings"

	"verifharness/hx"
)

// The generator keeps a light mirror of what a well-behaved client would know (epochs, sequence
// numbers, registered partitions, rough high watermarks, session epochs) so that most requests are
// valid; a fraction is deliberately stale / out of order / out of range.

type gwin struct {
	seen  bool
	epoch int64
	next  int64
}
type gbatch struct {
	c            string
	epoch, seq   int64
	n, nb, p, tx int64
}
type gprod struct {
	k       int64
	txn     bool
	inited  bool
	epoch   int64
	timeout int64
	inTx    bool
	start   int64
	lastC   bool
	parts   map[int64]bool
	wins    map[int64]*gwin
	hist    []gbatch
	txb     map[int64]int64 // bytes of the running transaction per partition
}
type gsess struct {
	broker    int64
	id, epoch int64
	iso       int64
	c         string
	parts     map[int64]int64 // partition -> fetch offset
}
type gstate struct {
	r     *hx.Rng
	np    int64
	now   int64
	hwm   []int64
	ls    []int64
	prods []*gprod
	sess  []*gsess
	nsess int64
	nb    int64   // brokers
	via   int64   // broker the client talks to
	lead  []int64 // leader per partition
}

// turn to the leader of the partition (most of the time), so that the request reaches the log
func (g *gstate) toLeader(part int64) bool {
	if g.lead[part] == g.via {
		return true
	}
	if g.r.Chance(80) {
		g.via = g.lead[part]
		hx.Emit("via %d", g.via)
		return true
	}
	return false
}

func (g *gstate) win(p *gprod, part int64) *gwin {
	w := p.wins[part]
	if w == nil {
		w = &gwin{}
		p.wins[part] = w
	}
	return w
}

func (g *gstate) endTx(p *gprod, commit bool) {
	var ps []int64
	for q := range p.parts {
		ps = append(ps, q)
	}
	for _, q := range ps {
		if q < g.np {
			g.hwm[q]++
		}
	}
	p.parts = map[int64]bool{}
	p.inTx = false
	p.lastC = commit
	p.txb = nil
}

func (g *gstate) start(p *gprod) {
	if !p.inTx {
		p.inTx = true
		p.start = g.now
	}
}

var sizes = []int64{1, 60, 61, 72, 75, 100, 133, 150, 200, 300, 1000, 1 << 20}

func (g *gstate) emitProd(c string, p *gprod, k, epoch, seq, n, part, tx int64) int64 {
	nb := 61 + 7*n + g.r.Range(0, 50)
	hx.Emit("prod %s %d %d %d %d %d %d %d", c, k, epoch, seq, n, nb, part, tx)
	return nb
}

// a correct next batch of producer p on partition part
func (g *gstate) goodProd(p *gprod, part int64) {
	r := g.r
	n := r.Range(1, 5)
	c := hx.Pick(r, []string{"o", "n", "n"})
	if !p.txn {
		w := g.win(p, part)
		seq := w.next
		if !w.seen {
			seq = hx.Pick(r, []int64{0, 0, 5, 1000})
		} else if w.epoch != p.epoch {
			seq = 0
		}
		nb := g.emitProd(c, p, p.k, p.epoch, seq, n, part, 0)
		w.seen, w.epoch, w.next = true, p.epoch, seq+n
		g.hwm[part] += n
		p.hist = append(p.hist, gbatch{c, p.epoch, seq, n, nb, part, 0})
		return
	}
	if !p.inited {
		p.timeout = 103 + p.k + 50*r.Range(0, 3)
		hx.Emit("initx %d %d", p.k, p.timeout)
		p.inited = true
		return
	}
	if c == "o" && !p.parts[part] {
		ps := []string{fmt.Sprint(part)}
		if r.Chance(30) {
			q := r.Range(0, g.np-1)
			if q != part {
				ps = append(ps, fmt.Sprint(q))
				p.parts[q] = true
			}
		}
		hx.Emit("addp %d %d %s", p.k, p.epoch, strings.Join(ps, ","))
		p.parts[part] = true
		g.start(p)
		if r.Chance(15) {
			return
		}
	}
	w := g.win(p, part)
	seq := w.next
	if !w.seen {
		seq = hx.Pick(r, []int64{0, 0, 0, 7})
	} else if w.epoch != p.epoch {
		seq = 0
	}
	nb := g.emitProd(c, p, p.k, p.epoch, seq, n, part, 1)
	if c == "n" {
		p.parts[part] = true
		g.start(p)
	}
	w.seen, w.epoch, w.next = true, p.epoch, seq+n
	g.hwm[part] += n
	p.hist = append(p.hist, gbatch{c, p.epoch, seq, n, nb, part, 1})
	if p.txb == nil {
		p.txb = map[int64]int64{}
	}
	p.txb[part] += nb
}

// a fetch at the (believed) end of some partitions with MinBytes > 0: it waits until MaxWait, or until a
// transaction that times out meanwhile puts enough marker / released bytes on one of its partitions
func (g *gstate) waitingFetch(c string, iso int64) {
	r := g.r
	var qs []int64
	for q := int64(0); q < g.np; q++ {
		if r.Chance(65) {
			qs = append(qs, q)
		}
	}
	if len(qs) == 0 {
		qs = append(qs, r.Range(0, g.np-1))
	}
	// a partition led elsewhere makes the fetch return at once: keep to the partitions of one broker
	if g.lead[qs[0]] != g.via {
		g.via = g.lead[qs[0]]
		hx.Emit("via %d", g.via)
	}
	var led []int64
	for _, q := range qs {
		if g.lead[q] == g.via {
			led = append(led, q)
		}
	}
	qs = led
	var ps []string
	for _, q := range qs {
		ps = append(ps, fmt.Sprintf("%d:%d:%d", q, g.hwm[q], hx.Pick(r, []int64{1 << 20, 1 << 20, 200, 100})))
	}
	minb := hx.Pick(r, []int64{1, 50, 72, 73, 100, 150, 250})
	wait := hx.Pick(r, []int64{10, 20, 50, 100, 150, 200})
	newSess := r.Chance(25)
	if newSess {
		hx.Emit("fetch %s %d 1048576 0 0 %s - %d %d", c, iso, strings.Join(ps, ","), minb, wait)
	} else {
		hx.Emit("fetch %s %d 1048576 0 -1 %s - %d %d", c, iso, strings.Join(ps, ","), minb, wait)
	}
	// what the generator believes happens while it waits
	deadline := g.now + wait
	need := minb
	woken := false
	for !woken {
		var next *gprod
		for _, p := range g.prods {
			if p.txn && p.inTx && p.start+p.timeout <= deadline && (next == nil || p.start+p.timeout < next.start+next.timeout) {
				next = p
			}
		}
		if next == nil {
			break
		}
		g.now = next.start + next.timeout
		for _, q := range qs {
			if next.parts[q] {
				need -= 72
				if iso == 1 {
					need -= next.txb[q]
				}
			}
		}
		next.epoch++
		g.endTx(next, false)
		woken = need <= 0
	}
	if !woken {
		g.now = deadline
	}
	if newSess {
		g.nsess += 2 // the handler ran its session part twice: one orphan session
		s := &gsess{broker: g.via, id: g.nsess, epoch: 1, iso: iso, c: c, parts: map[int64]int64{}}
		for _, q := range qs {
			s.parts[q] = g.hwm[q]
		}
		g.sess = append(g.sess, s)
	}
}

func (g *gstate) someOffset(part int64) int64 {
	r := g.r
	h := g.hwm[part]
	switch r.Intn(10) {
	case 0:
		return 0
	case 1:
		return h
	case 2:
		return h + r.Range(1, 3)
	case 3:
		return g.ls[part]
	case 4:
		return g.ls[part] - 1
	default:
		return r.Range(g.ls[part], max(h-1, g.ls[part]))
	}
}

func (g *gstate) fetch() {
	r := g.r
	c := hx.Pick(r, []string{"o", "n"})
	iso := int64(1)
	if r.Chance(30) {
		iso = 0
	}
	maxb := hx.Pick(r, sizes)
	if r.Chance(40) {
		maxb = 1 << 20
	}
	reqParts := func(ps []int64, offs map[int64]int64) string {
		var out []string
		for _, q := range ps {
			pm := hx.Pick(r, sizes)
			if r.Chance(50) {
				pm = 1 << 20
			}
			off := g.someOffset(min(q, g.np-1))
			if offs != nil {
				offs[q] = off
			}
			out = append(out, fmt.Sprintf("%d:%d:%d", q, off, pm))
		}
		if len(out) == 0 {
			return "-"
		}
		return strings.Join(out, ",")
	}
	pickParts := func() []int64 {
		var ps []int64
		for q := int64(0); q < g.np; q++ {
			if r.Chance(70) {
				ps = append(ps, q)
			}
		}
		if len(ps) == 0 {
			ps = append(ps, r.Range(0, g.np-1))
		}
		if r.Chance(3) {
			ps = append(ps, g.np) // unknown partition
		}
		r2 := ps
		if r.Chance(30) { // request order is the order kfake fills the response in
			sort.Slice(r2, func(i, j int) bool { return r2[i] > r2[j] })
		}
		return r2
	}
	if r.Chance(16) {
		g.waitingFetch(c, iso)
		return
	}
	wsuf := ""
	if r.Chance(8) { // MinBytes on an arbitrary fetch: usually satisfied at once
		wsuf = fmt.Sprintf(" %d %d", hx.Pick(r, []int64{1, 100, 400}), hx.Pick(r, []int64{0, 10, 50}))
	}
	k := r.Intn(100)
	switch {
	case k < 45 || (k >= 60 && len(g.sess) == 0): // sessionless
		hx.Emit("fetch %s %d %d 0 -1 %s -%s", c, iso, maxb, reqParts(pickParts(), nil), wsuf)
	case k < 60: // new session
		g.nsess++
		s := &gsess{broker: g.via, id: g.nsess, epoch: 1, iso: iso, c: c, parts: map[int64]int64{}}
		sid := int64(0)
		if len(g.sess) > 0 && r.Chance(15) { // replace an existing session
			i := r.Intn(len(g.sess))
			sid = g.sess[i].id
			if g.sess[i].broker == g.via {
				g.sess = append(g.sess[:i], g.sess[i+1:]...)
			}
		}
		str := reqParts(pickParts(), s.parts)
		hx.Emit("fetch %s %d %d %d 0 %s -", c, iso, maxb, sid, str)
		g.sess = append(g.sess, s)
	default: // incremental
		i := r.Intn(len(g.sess))
		s := g.sess[i]
		if s.broker != g.via && r.Chance(90) {
			g.via = s.broker
			hx.Emit("via %d", g.via)
		}
		ep := s.epoch
		bad := s.broker != g.via
		switch r.Intn(25) {
		case 0:
			ep, bad = s.epoch+1, true
		case 1:
			ep, bad = s.epoch-1, bad || s.epoch-1 != 0
			if ep == 0 {
				ep, bad = 5, bad || s.epoch != 5
			}
		}
		sid := s.id
		if r.Chance(3) {
			sid, bad = 77, true
		}
		var upd []int64
		forget := "-"
		for q := int64(0); q < g.np; q++ {
			_, in := s.parts[q]
			switch {
			case in && r.Chance(45): // advance / move the fetch offset
				upd = append(upd, q)
			case !in && r.Chance(25): // add
				upd = append(upd, q)
			case in && r.Chance(6):
				forget = fmt.Sprint(q)
			}
		}
		// with two or more session partitions that are not named in the request kfake walks them in map
		// order; the model accepts any order, but keep most of these fetches free of byte limits
		implicit := 0
		for q := range s.parts {
			found := false
			for _, u := range upd {
				found = found || u == q
			}
			if !found {
				implicit++
			}
		}
		mb := maxb
		if implicit >= 2 && r.Chance(35) {
			mb = 1 << 20
		} else if r.Chance(40) {
			mb = hx.Pick(r, []int64{300, 600, 1000, 2000, 4000}) // often enough for everything readable: the Spec then judges completeness
		}
		offs := map[int64]int64{}
		str := reqParts(upd, offs)
		hx.Emit("fetch %s %d %d %d %d %s %s", s.c, s.iso, mb, sid, ep, str, forget)
		if !bad {
			s.epoch++
			for q, o := range offs {
				s.parts[q] = o
			}
			if forget != "-" {
				delete(s.parts, hx.Atoi(forget))
			}
		}
		if r.Chance(4) { // kill the session
			hx.Emit("fetch %s %d %d %d -1 %s -", s.c, s.iso, maxb, s.id, reqParts(pickParts(), nil))
			g.sess = append(g.sess[:i], g.sess[i+1:]...)
		}
	}
}

func (g *gstate) end(p *gprod) {
	r := g.r
	c := hx.Pick(r, []string{"o", "n"})
	commit := r.Chance(50)
	ci := int64(0)
	if commit {
		ci = 1
	}
	ep := p.epoch
	stale := r.Chance(6) && p.epoch >= 1
	if stale {
		ep = p.epoch - 1
	}
	hx.Emit("end %s %d %d %d", c, p.k, ep, ci)
	if stale || !p.inited {
		return
	}
	if p.inTx {
		g.endTx(p, commit)
		if c == "n" {
			p.epoch++
		}
	} else if c == "n" && !commit {
		p.epoch++
		p.lastC = false
	}
}

func (g *gstate) sleep(ms int64) {
	hx.Emit("sleep %d", ms)
	g.now += ms
	for _, p := range g.prods {
		if p.txn && p.inTx && p.start+p.timeout <= g.now {
			p.epoch++
			g.endTx(p, false)
		}
	}
}

func (g *gstate) step() {
	r := g.r
	p := g.prods[r.Intn(len(g.prods))]
	part := r.Range(0, g.np-1)
	if g.nb == 2 {
		if r.Chance(5) {
			q, b := r.Range(0, g.np-1), r.Range(0, 1)
			hx.Emit("move %d %d", q, b)
			g.lead[q] = b
		}
		if r.Chance(3) {
			g.via = r.Range(0, 1)
			hx.Emit("via %d", g.via)
		}
	}
	k := r.Intn(100)
	if k < 70 && !g.toLeader(part) { // a partition-level request at the wrong broker: NOT_LEADER_FOR_PARTITION, nothing changes
		switch r.Intn(3) {
		case 0:
			g.emitProd("n", nil, -1, -1, -1, 1, part, 0)
		case 1:
			hx.Emit("del %d %d", part, g.someOffset(part))
		default:
			hx.Emit("fetch n %d 1048576 0 -1 %d:%d:1048576 -", r.Intn(2), part, g.someOffset(part))
		}
		return
	}
	switch {
	case k < 38:
		g.goodProd(p, part)
	case k < 44: // plain batch
		n := r.Range(1, 4)
		g.emitProd(hx.Pick(r, []string{"o", "n"}), nil, -1, -1, -1, n, part, 0)
		g.hwm[part] += n
	case k < 52 && len(p.hist) > 0 && (!p.txn || p.inited): // retry of one of the last (up to 7) accepted batches
		h := p.hist[len(p.hist)-1-r.Intn(min(len(p.hist), 7))]
		hx.Emit("prod %s %d %d %d %d %d %d %d", h.c, p.k, h.epoch, h.seq, h.n, h.nb, h.p, h.tx)
	case k < 56: // wrong sequence / stale or newer epoch
		if p.txn && !p.inited {
			g.goodProd(p, part)
			return
		}
		w := g.win(p, part)
		tx := int64(0)
		if p.txn {
			tx = 1
		}
		switch r.Intn(4) {
		case 0:
			g.emitProd("n", p, p.k, p.epoch, w.next+r.Range(1, 3), 2, part, tx)
			if p.txn && p.inited {
				p.parts[part] = true
				g.start(p)
			}
		case 1:
			if p.epoch >= 1 {
				g.emitProd("o", p, p.k, p.epoch-1, w.next, 2, part, tx)
			}
		case 2: // newer epoch starting at 0: accepted, kfake adopts the epoch
			if !p.txn || (p.inited && p.parts[part]) {
				nb := g.emitProd("o", p, p.k, p.epoch+1, 0, 2, part, tx)
				p.epoch++
				w.seen, w.epoch, w.next = true, p.epoch, 2
				g.hwm[part] += 2
				p.hist = append(p.hist, gbatch{"o", p.epoch, 0, 2, nb, part, tx})
			}
		default: // non-transactional batch of a transactional producer, or the reverse
			g.emitProd(hx.Pick(r, []string{"o", "n"}), p, p.k, p.epoch, w.next, 1, part, 1-tx)
			if tx == 0 || !p.inited {
				break
			}
			if !p.inTx { // accepted as a plain idempotent batch
				if !w.seen || w.epoch == p.epoch || w.next == 0 {
					if w.seen && w.epoch != p.epoch {
						break
					}
					w.seen, w.epoch = true, p.epoch
					w.next++
					g.hwm[part]++
				}
			}
		}
	case k < 66 && p.txn:
		g.end(p)
	case k < 70:
		off := g.someOffset(part)
		if r.Chance(20) {
			off = -1
		}
		hx.Emit("del %d %d", part, off)
		if off == -1 {
			off = g.hwm[part]
		}
		if off >= g.ls[part] && off <= g.hwm[part] {
			g.ls[part] = off
		}
	case k < 75:
		g.sleep(10 * r.Range(1, 12))
	case k < 78 && p.txn && p.inited:
		if r.Chance(60) {
			hx.Emit("initx %d %d", p.k, p.timeout)
			p.epoch++
		} else {
			e := p.epoch
			if r.Chance(30) && e >= 1 {
				e--
			}
			hx.Emit("initr %d %d", p.k, e)
			if e >= 0 {
				if p.inTx {
					g.endTx(p, false)
				}
				p.epoch++
			}
		}
	case k < 80 && p.txn && p.inited: // register partitions without producing (marker on an empty registration)
		hx.Emit("addp %d %d %d", p.k, p.epoch, part)
		p.parts[part] = true
		g.start(p)
	default:
		g.fetch()
	}
}

func newState(r *hx.Rng, np int64) *gstate {
	g := &gstate{r: r, np: np, nb: 1, hwm: make([]int64, np), ls: make([]int64, np), lead: make([]int64, np)}
	nprod := 1 + r.Intn(4)
	for i := 0; i < nprod; i++ {
		g.prods = append(g.prods, &gprod{k: int64(i), txn: r.Chance(70), parts: map[int64]bool{}, wins: map[int64]*gwin{}})
	}
	return g
}

// nested / overlapping transactions of two or three producers on partition 0 — the outer one starts first and ends
// last, the inner ones end (abort or commit) in between, in every combination of outcomes — followed by
// read_committed fetches of one batch at a time (MaxBytes or PartitionMaxBytes of 1) and of two or three batches
// from EVERY offset of the small log: the aborted index is ordered by marker offset, not by first offset, and a
// response cut before the inner transaction's first offset must still list the outer one.
func (g *gstate) nested() {
	r := g.r
	n := 2 + r.Intn(2) // producers
	g.prods = nil
	for k := int64(0); k < int64(n); k++ {
		hx.Emit("initx %d %d", k, 203+k)
		g.prods = append(g.prods, &gprod{k: k, txn: true, inited: true, timeout: 203 + k, parts: map[int64]bool{}, wins: map[int64]*gwin{}})
	}
	produce := func(p *gprod) { // one data batch (goodProd may only register the partition the first time)
		for i := 0; i < 3; i++ {
			h := g.hwm[0]
			g.goodProd(p, 0)
			if g.hwm[0] != h {
				return
			}
		}
	}
	end := func(p *gprod, commit bool) {
		if !p.inTx {
			return
		}
		c := hx.Pick(r, []string{"o", "n"})
		ci := 0
		if commit {
			ci = 1
		}
		hx.Emit("end %s %d %d %d", c, p.k, p.epoch, ci)
		g.endTx(p, commit)
		if c == "n" {
			p.epoch++
		}
	}
	plain := func() {
		if r.Chance(30) {
			m := r.Range(1, 2)
			g.emitProd("n", nil, -1, -1, -1, m, 0, 0)
			g.hwm[0] += m
		}
	}
	// outcomes: the outer transaction aborts in most histories (that is the entry that must not be lost)
	outerCommit := r.Chance(25)
	plain()
	produce(g.prods[0])
	if r.Chance(40) {
		produce(g.prods[0])
	}
	plain()
	// inner producers start in order, each writes one or two batches, possibly interleaved with the outer one
	for k := 1; k < n; k++ {
		produce(g.prods[k])
		if r.Chance(35) {
			produce(g.prods[0])
		}
		if r.Chance(35) {
			produce(g.prods[k])
		}
		plain()
	}
	// the inner ones end first: nested (last started ends first) or overlapping (first started ends first)
	order := []int{}
	for k := 1; k < n; k++ {
		order = append(order, k)
	}
	if r.Chance(50) {
		for i, j := 0, len(order)-1; i < j; i, j = i+1, j-1 {
			order[i], order[j] = order[j], order[i]
		}
	}
	for _, k := range order {
		end(g.prods[k], r.Chance(35))
		if r.Chance(30) {
			produce(g.prods[0])
		}
		plain()
	}
	if r.Chance(20) && n == 3 { // an inner producer runs a second transaction inside the outer one
		produce(g.prods[1])
		end(g.prods[1], r.Chance(50))
	}
	end(g.prods[0], outerCommit)
	plain()
	// every fetch offset of the log, one batch per response, then a few batches per response
	big := int64(1 << 20)
	for off := int64(0); off <= g.hwm[0]; off++ {
		c := hx.Pick(r, []string{"o", "n"})
		if r.Bool() {
			hx.Emit("fetch %s 1 1 0 -1 0:%d:%d -", c, off, big)
		} else {
			hx.Emit("fetch %s 1 %d 0 -1 0:%d:1 -", c, big, off)
		}
		if r.Chance(50) {
			hx.Emit("fetch %s 1 %d 0 -1 0:%d:%d -", c, hx.Pick(r, []int64{150, 200, 250, 320}), off, hx.Pick(r, []int64{big, big, 180}))
		}
	}
}

// scripted openings that put the log into the states the property talks about
func (g *gstate) opening(kind int) {
	r := g.r
	switch kind {
	case 0: // two transactions interleaved on partition 0, both aborted, then committed data (the a153fd3 shape)
		hx.Emit("initx 0 %d", 203)
		hx.Emit("initx 1 %d", 204)
		g.prods = []*gprod{{k: 0, txn: true, inited: true, timeout: 203, parts: map[int64]bool{}, wins: map[int64]*gwin{}},
			{k: 1, txn: true, inited: true, timeout: 204, parts: map[int64]bool{}, wins: map[int64]*gwin{}}}
		g.goodProd(g.prods[0], 0)
		for i := 0; i < 2+r.Intn(3); i++ {
			g.goodProd(g.prods[r.Intn(2)], 0)
		}
		for _, p := range g.prods {
			if p.inTx {
				c := hx.Pick(r, []string{"o", "n"})
				hx.Emit("end %s %d %d %d", c, p.k, p.epoch, r.Intn(3)/2)
				g.endTx(p, false)
				if c == "n" {
					p.epoch++
				}
			}
		}
		hx.Emit("fetch %s 1 %d 0 -1 0:0:%d -", hx.Pick(r, []string{"o", "n"}), hx.Pick(r, []int64{60, 100, 150, 200, 300}), hx.Pick(r, []int64{1 << 20, 150, 1 << 20}))
		hx.Emit("fetch n 1 1048576 0 -1 0:0:1048576 -")
	case 1: // session over all partitions, then changes without new data at the fetch offset
		var ps []string
		for q := int64(0); q < g.np; q++ {
			ps = append(ps, fmt.Sprintf("%d:0:1048576", q))
		}
		iso := int64(r.Intn(2))
		hx.Emit("fetch n %d 1048576 0 0 %s -", iso, strings.Join(ps, ","))
		g.nsess++
		s := &gsess{broker: g.via, id: g.nsess, epoch: 1, iso: iso, c: "n", parts: map[int64]int64{}}
		for q := int64(0); q < g.np; q++ {
			s.parts[q] = 0
		}
		g.sess = append(g.sess, s)
	}
}

func gen(a hx.Args) {
	r := hx.NewRng(a.Seed)
	for c := 0; c < a.N(220, 6000); c++ {
		np := int64(1 + r.Intn(3))
		g := newState(r, np)
		if r.Chance(30) {
			g.nb = 2
			hx.Emit("reset %d 2", np)
		} else {
			hx.Emit("reset %d", np)
		}
		switch k := r.Intn(8); {
		case k < 2:
			g.opening(k)
		case k < 4:
			g.nested()
		}
		steps := 12 + r.Intn(30)
		for i := 0; i < steps; i++ {
			g.step()
		}
		// closing reads: both isolation levels from the log start, and one tight read
		for q := int64(0); q < np; q++ {
			if g.lead[q] != g.via {
				g.via = g.lead[q]
				hx.Emit("via %d", g.via)
			}
			hx.Emit("fetch n 1 1048576 0 -1 %d:%d:1048576 -", q, g.ls[q])
			if r.Chance(50) {
				hx.Emit("fetch o 1 %d 0 -1 %d:%d:%d -", hx.Pick(r, sizes), q, g.someOffset(q), hx.Pick(r, sizes))
			}
		}
	}
}
