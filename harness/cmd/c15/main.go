// C15 / C16 harness: every generated kmsg type (requests, responses, the `not top level` types with encoding, the hand-written
// Record and StickyMemberMetadata) driven through the public API by reflection.
//
//	ops:  enc <Type> <ver> <tree>   -> <hex of AppendTo> ok <tree recovered by ReadFrom of those bytes into a fresh value> | <hex> err | panic:…
//	      dec <Type> <ver> <hex>    -> ok <tree> r=<0|1> u=<0|1> a=<0|1> | err u=.. a=.. | panic:… | hang
//	                                   r: AppendTo(decoded) decodes to the same tree; u: UnsafeReadFrom agrees; a: bytes allocated by
//	                                   the call <= allocBase + allocFactor*len(input)
//	modes: gen [--mode c16] | run | list
//
// Value trees (same text the Lean driver parses): i<int> | b<hex> b. b- | n | [ … ] | { fields… ; key:hex … }.
// The tree is what reflection sees: nil slices/pointers are `n` / `b-`, top-level `Version` is the op's <ver> and not in the tree,
// `UnknownTags` are the entries after `;` (key order), Record's TimestampDelta/TimestampDelta64 pair is the one varlong it encodes.
package main

import (
	"encoding/hex"
	"fmt"
	"math"
	"os"
	"reflect"
	"sort"
	"strconv"
	"strings"
	"time"

	"github.com/twmb/franz-go/pkg/kmsg"
	"verifharness/hx"
)

type codec interface {
	AppendTo([]byte) []byte
	ReadFrom([]byte) error
}
type unsafeCodec interface{ UnsafeReadFrom([]byte) error }

type entry struct {
	name string
	mk   func() codec
	top  bool // request / response: Version is the op's version, not a tree field
	maxV int  // versions exercised: 0..maxV
	verF bool // has its own Version field as first tree field
}

var (
	registry []entry
	byName   = map[string]*entry{}
	tagsType = reflect.TypeOf(kmsg.Tags{})
)

func typeName(c codec) string { return reflect.TypeOf(c).Elem().Name() }

func initRegistry() {
	for k := int16(0); k <= kmsg.MaxKey; k++ {
		req := kmsg.RequestForKey(k)
		if req == nil {
			continue
		}
		k := k
		registry = append(registry, entry{name: typeName(req), mk: func() codec { return kmsg.RequestForKey(k) }, top: true, maxV: int(req.MaxVersion())})
		resp := kmsg.ResponseForKey(k)
		registry = append(registry, entry{name: typeName(resp), mk: func() codec { return kmsg.ResponseForKey(k) }, top: true, maxV: int(resp.MaxVersion())})
	}
	misc := func(maxV int, verF bool, mk func() codec) {
		registry = append(registry, entry{name: typeName(mk()), mk: mk, maxV: maxV, verF: verF})
	}
	// the `not top level` definitions that have encoders; with a Version field the versions 0..5 (and -1, 6) are exercised
	misc(0, false, func() codec { v := kmsg.NewMessageV0(); return &v })
	misc(0, false, func() codec { v := kmsg.NewMessageV1(); return &v })
	misc(0, false, func() codec { v := kmsg.NewHeader(); return &v })
	misc(0, false, func() codec { v := kmsg.NewRecord(); return &v })
	misc(0, false, func() codec { v := kmsg.NewRecordBatch(); return &v })
	misc(1, false, func() codec { v := kmsg.NewStickyMemberMetadata(); return &v })
	misc(5, true, func() codec { v := kmsg.NewOffsetCommitKey(); return &v })
	misc(5, true, func() codec { v := kmsg.NewOffsetCommitValue(); return &v })
	misc(5, true, func() codec { v := kmsg.NewGroupMetadataKey(); return &v })
	misc(5, true, func() codec { v := kmsg.NewGroupMetadataValue(); return &v })
	misc(5, true, func() codec { v := kmsg.NewTxnMetadataKey(); return &v })
	misc(5, true, func() codec { v := kmsg.NewTxnMetadataValue(); return &v })
	misc(5, true, func() codec { v := kmsg.NewConsumerMemberMetadata(); return &v })
	misc(5, true, func() codec { v := kmsg.NewConsumerMemberAssignment(); return &v })
	misc(5, true, func() codec { v := kmsg.NewConnectMemberMetadata(); return &v })
	misc(5, true, func() codec { v := kmsg.NewConnectMemberAssignment(); return &v })
	misc(5, true, func() codec { v := kmsg.NewDefaultPrincipalData(); return &v })
	misc(5, true, func() codec { v := kmsg.NewControlRecordKey(); return &v })
	misc(5, true, func() codec { v := kmsg.NewEndTxnMarker(); return &v })
	misc(5, true, func() codec { v := kmsg.NewLeaderChangeMessage(); return &v })
	for i := range registry {
		byName[registry[i].name] = &registry[i]
	}
}

// ---------------------------------------------------------------- value tree <-> Go value (reflection)

func isRecord(t reflect.Type) bool { return t == reflect.TypeOf(kmsg.Record{}) }

func show(sb *strings.Builder, v reflect.Value, top bool) {
	t := v.Type()
	switch v.Kind() {
	case reflect.Bool:
		if v.Bool() {
			sb.WriteString("i1 ")
		} else {
			sb.WriteString("i0 ")
		}
	case reflect.Int8, reflect.Int16, reflect.Int32, reflect.Int64:
		sb.WriteString("i" + strconv.FormatInt(v.Int(), 10) + " ")
	case reflect.Uint8, reflect.Uint16, reflect.Uint32, reflect.Uint64:
		sb.WriteString("i" + strconv.FormatUint(v.Uint(), 10) + " ")
	case reflect.Float64:
		sb.WriteString("i" + strconv.FormatUint(math.Float64bits(v.Float()), 10) + " ")
	case reflect.String:
		sb.WriteString("b" + hexs([]byte(v.String())) + " ")
	case reflect.Array: // [16]byte
		b := make([]byte, v.Len())
		for i := range b {
			b[i] = byte(v.Index(i).Uint())
		}
		sb.WriteString("b" + hexs(b) + " ")
	case reflect.Ptr:
		if v.IsNil() {
			if t.Elem().Kind() == reflect.String {
				sb.WriteString("b- ")
			} else {
				sb.WriteString("n ")
			}
			return
		}
		show(sb, v.Elem(), false)
	case reflect.Slice:
		if t.Elem().Kind() == reflect.Uint8 {
			if v.IsNil() {
				sb.WriteString("b- ")
			} else {
				sb.WriteString("b" + hexs(v.Bytes()) + " ")
			}
			return
		}
		if v.IsNil() {
			sb.WriteString("n ")
			return
		}
		sb.WriteString("[ ")
		for i := 0; i < v.Len(); i++ {
			show(sb, v.Index(i), false)
		}
		sb.WriteString("] ")
	case reflect.Struct:
		sb.WriteString("{ ")
		var tags *kmsg.Tags
		for i := 0; i < t.NumField(); i++ {
			f := t.Field(i)
			if top && f.Name == "Version" {
				continue
			}
			if f.Type == tagsType {
				tags = v.Field(i).Addr().Interface().(*kmsg.Tags)
				continue
			}
			if isRecord(t) {
				if f.Name == "TimestampDelta" {
					d := v.FieldByName("TimestampDelta64").Int()
					if d == 0 {
						d = v.Field(i).Int()
					}
					sb.WriteString("i" + strconv.FormatInt(d, 10) + " ")
					continue
				}
				if f.Name == "TimestampDelta64" {
					continue
				}
			}
			show(sb, v.Field(i), false)
		}
		sb.WriteString("; ")
		if tags != nil {
			tags.Each(func(k uint32, b []byte) { sb.WriteString(strconv.FormatUint(uint64(k), 10) + ":" + hexs(b) + " ") })
		}
		sb.WriteString("} ")
	default:
		panic("show: unsupported kind " + v.Kind().String() + " in " + t.String())
	}
}

func hexs(b []byte) string {
	if len(b) == 0 {
		return "."
	}
	return hex.EncodeToString(b)
}
func unhex(s string) []byte {
	if s == "." {
		return []byte{}
	}
	b, err := hex.DecodeString(s)
	if err != nil {
		panic("bad hex")
	}
	return b
}

func tree(c codec, top bool) string {
	var sb strings.Builder
	show(&sb, reflect.ValueOf(c).Elem(), top)
	return strings.TrimSpace(sb.String())
}

type toks struct {
	t []string
	i int
}

func (p *toks) next() string { s := p.t[p.i]; p.i++; return s }
func (p *toks) peek() string { return p.t[p.i] }

func fill(p *toks, v reflect.Value, top bool) {
	t := v.Type()
	switch v.Kind() {
	case reflect.Bool:
		v.SetBool(p.next() != "i0")
	case reflect.Int8, reflect.Int16, reflect.Int32, reflect.Int64:
		n, err := strconv.ParseInt(p.next()[1:], 10, 64)
		if err != nil {
			panic(err)
		}
		v.SetInt(n)
	case reflect.Uint8, reflect.Uint16, reflect.Uint32, reflect.Uint64:
		n, err := strconv.ParseUint(p.next()[1:], 10, 64)
		if err != nil {
			panic(err)
		}
		v.SetUint(n)
	case reflect.Float64:
		n, err := strconv.ParseUint(p.next()[1:], 10, 64)
		if err != nil {
			panic(err)
		}
		v.SetFloat(math.Float64frombits(n))
	case reflect.String:
		v.SetString(string(unhex(p.next()[1:])))
	case reflect.Array:
		b := unhex(p.next()[1:])
		for i := 0; i < v.Len() && i < len(b); i++ {
			v.Index(i).SetUint(uint64(b[i]))
		}
	case reflect.Ptr:
		if s := p.peek(); s == "n" || s == "b-" {
			p.next()
			v.Set(reflect.Zero(t))
			return
		}
		nv := reflect.New(t.Elem())
		fill(p, nv.Elem(), false)
		v.Set(nv)
	case reflect.Slice:
		if t.Elem().Kind() == reflect.Uint8 {
			s := p.next()
			if s == "b-" {
				v.Set(reflect.Zero(t))
			} else {
				v.SetBytes(unhex(s[1:]))
			}
			return
		}
		if p.peek() == "n" {
			p.next()
			v.Set(reflect.Zero(t))
			return
		}
		if p.next() != "[" {
			panic("fill: expected [")
		}
		sl := reflect.MakeSlice(t, 0, 0)
		for p.peek() != "]" {
			e := reflect.New(t.Elem()).Elem()
			fill(p, e, false)
			sl = reflect.Append(sl, e)
		}
		p.next()
		v.Set(sl)
	case reflect.Struct:
		if p.next() != "{" {
			panic("fill: expected {")
		}
		var tags *kmsg.Tags
		for i := 0; i < t.NumField(); i++ {
			f := t.Field(i)
			if top && f.Name == "Version" {
				continue
			}
			if f.Type == tagsType {
				tags = v.Field(i).Addr().Interface().(*kmsg.Tags)
				continue
			}
			if isRecord(t) {
				if f.Name == "TimestampDelta" {
					n, _ := strconv.ParseInt(p.next()[1:], 10, 64)
					v.FieldByName("TimestampDelta64").SetInt(n)
					v.Field(i).SetInt(int64(int32(n)))
					continue
				}
				if f.Name == "TimestampDelta64" {
					continue
				}
			}
			fill(p, v.Field(i), false)
		}
		if p.next() != ";" {
			panic("fill: expected ;")
		}
		for p.peek() != "}" {
			kv := strings.SplitN(p.next(), ":", 2)
			k, _ := strconv.ParseUint(kv[0], 10, 32)
			if tags == nil {
				panic("fill: tags on a struct without UnknownTags")
			}
			tags.Set(uint32(k), unhex(kv[1]))
		}
		p.next()
	default:
		panic("fill: unsupported kind " + v.Kind().String())
	}
}

func setVersion(c codec, e *entry, ver int) {
	if e.top {
		reflect.ValueOf(c).Elem().FieldByName("Version").SetInt(int64(ver))
	}
}

// ---------------------------------------------------------------- random values by reflection

type flavour struct {
	kind   int // 0 default, 1 random, 2 nils, 3 empties, 4 boundary ints, 5 boundary length, 6 unknown tags heavy
	boundN int // remaining boundary-length placements
	depth  int
}

var lenBoundaries = []int{126, 127, 128, 129, 16382, 16383, 16384}
var tagKeys = []uint32{64, 100, 126, 127, 128, 16383, 16384, 2097151, 2097152, 268435455, 268435456, 4294967295}

func randLen(r *hx.Rng, fl *flavour, small int) int {
	if fl.kind == 5 && fl.boundN > 0 && r.Chance(35) {
		fl.boundN--
		return hx.Pick(r, lenBoundaries)
	}
	if fl.kind == 3 {
		return 0
	}
	return r.Intn(small + 1)
}

func randInt(r *hx.Rng, fl *flavour, bits uint, signed bool) int64 {
	if fl.kind == 4 || r.Chance(15) {
		if signed {
			lo := -(int64(1) << (bits - 1))
			hi := (int64(1) << (bits - 1)) - 1
			return hx.Pick(r, []int64{lo, lo + 1, -129, -128, -65, -64, -2, -1, 0, 1, 63, 64, 127, 128, hi - 1, hi})
		}
		hi := (int64(1) << bits) - 1
		return hx.Pick(r, []int64{0, 1, 127, 128, 255, 256, hi - 1, hi})
	}
	if signed {
		return r.Range(-300, 300)
	}
	return r.Range(0, 600)
}

func clamp(n int64, bits uint, signed bool) int64 {
	if signed {
		lo := -(int64(1) << (bits - 1))
		hi := (int64(1) << (bits - 1)) - 1
		if n < lo {
			return lo
		}
		if n > hi {
			return hi
		}
		return n
	}
	if n < 0 {
		return 0
	}
	if bits < 63 && n > (int64(1)<<bits)-1 {
		return (int64(1) << bits) - 1
	}
	return n
}

func randFill(r *hx.Rng, fl *flavour, v reflect.Value, top bool) {
	t := v.Type()
	switch v.Kind() {
	case reflect.Bool:
		v.SetBool(r.Bool())
	case reflect.Int8:
		v.SetInt(clamp(randInt(r, fl, 8, true), 8, true))
	case reflect.Int16:
		v.SetInt(clamp(randInt(r, fl, 16, true), 16, true))
	case reflect.Int32:
		v.SetInt(clamp(randInt(r, fl, 32, true), 32, true))
	case reflect.Int64:
		if fl.kind == 4 || r.Chance(10) {
			v.SetInt(hx.Pick(r, []int64{math.MinInt64, math.MinInt64 + 1, -1, 0, 1, math.MaxInt64 - 1, math.MaxInt64, 1 << 31, -(1 << 31) - 1, 1 << 62}))
		} else {
			v.SetInt(r.Range(-300, 300))
		}
	case reflect.Uint16:
		v.SetUint(uint64(clamp(randInt(r, fl, 16, false), 16, false)))
	case reflect.Uint32:
		v.SetUint(uint64(clamp(randInt(r, fl, 32, false), 32, false)))
	case reflect.Float64:
		v.SetFloat(hx.Pick(r, []float64{0, 1, -1, 3.14, math.Inf(1), math.MaxFloat64, math.SmallestNonzeroFloat64, float64(r.Range(-1000, 1000)) / 7}))
	case reflect.String:
		v.SetString(string(r.Bytes(randLen(r, fl, 6))))
	case reflect.Array:
		if fl.kind != 3 {
			for i := 0; i < v.Len(); i++ {
				v.Index(i).SetUint(uint64(r.Intn(256)))
			}
		}
	case reflect.Ptr:
		if fl.kind == 2 || r.Chance(25) {
			v.Set(reflect.Zero(t))
			return
		}
		nv := reflect.New(t.Elem())
		if d, ok := nv.Interface().(interface{ Default() }); ok {
			d.Default()
		}
		randFill(r, fl, nv.Elem(), false)
		v.Set(nv)
	case reflect.Slice:
		if fl.kind == 2 || r.Chance(12) {
			v.Set(reflect.Zero(t))
			return
		}
		if t.Elem().Kind() == reflect.Uint8 {
			v.SetBytes(r.Bytes(randLen(r, fl, 6)))
			return
		}
		n := 0
		if fl.depth < 3 {
			n = randLen(r, fl, 2)
			if n > 200 && t.Elem().Kind() == reflect.Struct {
				n = hx.Pick(r, []int{126, 127, 128})
			}
		} else if fl.kind != 3 {
			n = r.Intn(2)
		}
		sl := reflect.MakeSlice(t, n, n)
		fl.depth++
		for i := 0; i < n; i++ {
			e := sl.Index(i)
			if e.Kind() == reflect.Struct {
				if d, ok := e.Addr().Interface().(interface{ Default() }); ok {
					d.Default()
				}
			}
			if n > 100 && e.Kind() == reflect.Struct && i > 2 {
				continue // long arrays of structs: defaults after the first few
			}
			randFill(r, fl, e, false)
		}
		fl.depth--
		v.Set(sl)
	case reflect.Struct:
		for i := 0; i < t.NumField(); i++ {
			f := t.Field(i)
			if top && f.Name == "Version" {
				continue
			}
			if f.Type == tagsType {
				p := 10
				if fl.kind == 6 {
					p = 70
				}
				if fl.kind != 0 && r.Chance(p) {
					tg := v.Field(i).Addr().Interface().(*kmsg.Tags)
					for k := r.Intn(3) + 1; k > 0; k-- {
						key := hx.Pick(r, tagKeys)
						if r.Chance(40) {
							key = uint32(r.Range(64, 1<<20))
						}
						tg.Set(key, r.Bytes(hx.Pick(r, []int{0, 0, 1, 3, 126, 127, 128, 129})))
					}
				}
				continue
			}
			if fl.kind == 0 {
				continue
			}
			if fl.kind != 1 && r.Chance(30) {
				continue // leave this field at its default
			}
			randFill(r, fl, v.Field(i), false)
		}
		if isRecord(t) {
			d := v.FieldByName("TimestampDelta64").Int()
			if d == 0 {
				d = v.FieldByName("TimestampDelta").Int()
			}
			v.FieldByName("TimestampDelta64").SetInt(d)
			v.FieldByName("TimestampDelta").SetInt(int64(int32(d)))
		}
	default:
		panic("randFill: unsupported kind " + v.Kind().String() + " in " + t.String())
	}
}

func fixup(c codec, e *entry, ver int) int {
	switch x := c.(type) {
	case *kmsg.RecordBatch:
		if x.Records == nil {
			x.Records = []byte{}
		}
		x.Length = int32(len(x.Records)) + 49 // the DSL's `length-field-minus => Length - 49` relation (an assumption of the round trip)
	case *kmsg.StickyMemberMetadata:
		if x.Generation != -1 {
			return 1 // AppendTo writes the v1 form iff Generation != -1
		}
		return 0
	}
	if e.verF {
		reflect.ValueOf(c).Elem().FieldByName("Version").SetInt(int64(ver))
	}
	return ver
}

// versions exercised: 0..max; types with their own Version field have no declared max: 0..5 plus 6 and 32767; the decoder
// (C16) is also fed the unsupported version -1 (it is two input bytes away).
func versionsOf(e *entry, dec bool) []int {
	var vs []int
	for v := 0; v <= e.maxV; v++ {
		vs = append(vs, v)
	}
	if e.verF {
		vs = append(vs, 6, 32767)
		if dec {
			vs = append(vs, -1)
		}
	}
	return vs
}

func mkValue(r *hx.Rng, e *entry, ver, kind int) (codec, int) {
	c := e.mk()
	if d, ok := c.(interface{ Default() }); ok {
		d.Default()
	}
	fl := &flavour{kind: kind, boundN: 2}
	randFill(r, fl, reflect.ValueOf(c).Elem(), e.top)
	ver = fixup(c, e, ver)
	setVersion(c, e, ver)
	return c, ver
}

func genEnc(a hx.Args) {
	r := hx.NewRng(a.Seed)
	per := a.N(8, 60)
	for i := range registry {
		e := &registry[i]
		for _, ver := range versionsOf(e, false) {
			for k := 0; k < per; k++ {
				kind := k
				if k >= 7 {
					kind = 1 + r.Intn(6)
				}
				c, v := mkValue(r, e, ver, kind)
				hx.Emit("enc %s %d %s", e.name, v, tree(c, e.top))
			}
		}
	}
}

// ---------------------------------------------------------------- C16: byte strings

func mutate(r *hx.Rng, b []byte) []byte {
	b = append([]byte(nil), b...)
	for n := 1 + r.Intn(3); n > 0; n-- {
		switch r.Intn(9) {
		case 0: // truncate
			if len(b) > 0 {
				b = b[:r.Intn(len(b))]
			}
		case 1: // flip a bit
			if len(b) > 0 {
				b[r.Intn(len(b))] ^= 1 << uint(r.Intn(8))
			}
		case 2: // boundary byte
			if len(b) > 0 {
				b[r.Intn(len(b))] = hx.Pick(r, []byte{0, 1, 2, 0x7f, 0x80, 0x81, 0xfe, 0xff})
			}
		case 3: // insert
			i := r.Intn(len(b) + 1)
			ins := r.Bytes(1 + r.Intn(3))
			b = append(b[:i], append(ins, b[i:]...)...)
		case 4: // delete
			if len(b) > 1 {
				i := r.Intn(len(b) - 1)
				b = append(b[:i], b[i+1:]...)
			}
		case 5: // overwrite a 4 byte window with a boundary int32
			if len(b) >= 4 {
				i := r.Intn(len(b) - 3)
				copy(b[i:], hx.Pick(r, [][]byte{{0xff, 0xff, 0xff, 0xff}, {0x7f, 0xff, 0xff, 0xff}, {0x80, 0, 0, 0}, {0, 0, 0, 0}, {0, 0, 0x01, 0}, {0xff, 0xff, 0xff, 0xfe}}))
			}
		case 6: // append junk
			b = append(b, r.Bytes(1+r.Intn(6))...)
		case 7: // small varint overwrite (lengths / counts), never a long run of continuation bits
			if len(b) > 0 {
				i := r.Intn(len(b))
				b[i] = byte(r.Intn(0x30))
			}
		case 8: // two byte varint overwrite
			if len(b) > 1 {
				i := r.Intn(len(b) - 1)
				b[i], b[i+1] = byte(0x80|r.Intn(0x80)), byte(r.Intn(0x80))
			}
		}
	}
	return b
}

func genDec(a hx.Args) {
	r := hx.NewRng(a.Seed)
	per := a.N(16, 100)
	emit := func(e *entry, ver int, b []byte) {
		hx.Emit("dec %s %d %s", e.name, ver, hx.Hex(nonNil(b)))
	}
	for i := range registry {
		e := &registry[i]
		for _, ver := range versionsOf(e, true) {
			if ver > e.maxV && !e.verF {
				continue
			}
			if r.Chance(30) {
				emit(e, ver, nil)
			}
			for k := 0; k < per; k++ {
				c, v := mkValue(r, e, ver, 1+r.Intn(6))
				valid := c.AppendTo(nil)
				var b []byte
				switch r.Intn(10) {
				case 0:
					b = valid // a valid message
				case 1:
					b = r.Bytes(3 + r.Intn(12)) // arbitrary short bytes
				default:
					b = mutate(r, valid)
				}
				if len(b) > 40000 {
					b = b[:40000]
				}
				if e.verF && len(b) >= 2 && r.Chance(70) { // keep the embedded version in range most of the time
					b[0], b[1] = 0, byte(v)
				}
				emit(e, ver, b)
			}
		}
	}
	// small-scope enumeration of 1-byte inputs: a sample per type-version (quick 1, thorough 4), all 256 for three representative types
	sweep := map[string]bool{"ApiVersionsRequest": true, "Record": true, "StickyMemberMetadata": true}
	for i := range registry {
		e := &registry[i]
		for _, ver := range versionsOf(e, true) {
			if ver > e.maxV && !e.verF {
				continue
			}
			step := 64
			if a.Tier != "thorough" {
				step = 256
			}
			if sweep[e.name] && a.Tier == "thorough" {
				step = 1
			}
			for x := int(r.Intn(step)); x < 256; x += step {
				emit(e, ver, []byte{byte(x)})
			}
		}
	}
	// the former witnesses of the unbounded tag-count loop (DESIGN §8-i, repaired in /repo 994d56c): a flexible message whose tag
	// count is 2^32-1 with nothing behind it must now be refused at once
	for _, name := range []string{"ApiVersionsRequest", "ListOffsetsRequest"} {
		e := byName[name]
		if e == nil {
			continue
		}
		c, _ := mkValue(r, e, e.maxV, 0)
		valid := c.AppendTo(nil)
		b := append(valid[:len(valid)-1], 0xff, 0xff, 0xff, 0xff, 0x0f)
		emit(e, e.maxV, b)
	}
}

func nonNil(b []byte) []byte {
	if b == nil {
		return []byte{}
	}
	return b
}

const (
	allocBase   = 4 << 10
	allocFactor = 1024
)

var maxRatio int

// deepSize: bytes of memory reachable from a decoded value (backing arrays by capacity, strings, pointees, tag maps). It is
// what ReadFrom allocated for the value (plus what it aliases of the input), measured exactly and without runtime statistics;
// it is also taken after a failed decode, where the partially filled value still holds every `make([]T, l)` done before the error.
func deepSize(v reflect.Value) uint64 {
	t := v.Type()
	switch v.Kind() {
	case reflect.String:
		return uint64(v.Len())
	case reflect.Ptr:
		if v.IsNil() {
			return 0
		}
		return uint64(t.Elem().Size()) + deepSize(v.Elem())
	case reflect.Slice:
		if v.IsNil() {
			return 0
		}
		n := uint64(v.Cap()) * uint64(t.Elem().Size())
		switch t.Elem().Kind() {
		case reflect.String, reflect.Ptr, reflect.Slice, reflect.Struct:
			for i := 0; i < v.Len(); i++ {
				n += deepSize(v.Index(i))
			}
		}
		return n
	case reflect.Struct:
		if t == tagsType {
			var n uint64
			v.Addr().Interface().(*kmsg.Tags).Each(func(_ uint32, b []byte) { n += 64 + uint64(len(b)) })
			return n
		}
		var n uint64
		for i := 0; i < t.NumField(); i++ {
			switch t.Field(i).Type.Kind() {
			case reflect.String, reflect.Ptr, reflect.Slice, reflect.Struct:
				n += deepSize(v.Field(i))
			}
		}
		return n
	}
	return 0
}

// decodeOnce: ReadFrom into a fresh value under recover + deadline; "ok <tree>" | "err" | "panic:…" | "hang".
func decodeOnce(e *entry, ver int, b []byte, deadline time.Duration) string {
	return hx.Guard(deadline, func() string {
		c := e.mk()
		setVersion(c, e, ver)
		if err := c.ReadFrom(b); err != nil {
			return "err"
		}
		return "ok " + tree(c, e.top)
	})
}

func runDec(t []string) string {
	e := byName[t[1]]
	if e == nil {
		return "unknown-type"
	}
	ver := int(hx.Atoi(t[2]))
	src := hx.UnHex(t[3])
	hx.St.Inc("dec.len." + bucket(len(src)))
	var alloc uint64
	res := hx.Guard(decodeDeadline, func() string {
		c := e.mk()
		setVersion(c, e, ver)
		in := append([]byte(nil), src...)
		err := c.ReadFrom(in)
		alloc = deepSize(reflect.ValueOf(c).Elem())
		if err != nil {
			return "err"
		}
		return "ok " + tree(c, e.top)
	})
	if strings.HasPrefix(res, "panic") {
		hx.St.Inc("dec.outcome.panic")
		return res
	}
	if res == "hang" {
		hx.St.Inc("dec.outcome.hang")
		return res
	}
	a := alloc <= allocBase+allocFactor*uint64(len(src))
	if len(src) > 0 {
		ratio := int(alloc / uint64(len(src)))
		hx.St.Inc("dec.value-bytes-per-input-byte." + bucket(ratio))
		if ratio > maxRatio {
			maxRatio = ratio
			hx.St["dec.value-bytes-per-input-byte.max"] = ratio
		}
	}
	// UnsafeReadFrom must agree
	u := true
	if uc, ok := e.mk().(unsafeCodec); ok {
		ures := hx.Guard(decodeDeadline, func() string {
			c := e.mk()
			setVersion(c, e, ver)
			in := append([]byte(nil), src...)
			if err := c.(unsafeCodec).UnsafeReadFrom(in); err != nil {
				return "err"
			}
			return "ok " + tree(c, e.top)
		})
		_ = uc
		u = ures == res
	}
	if res == "err" {
		hx.St.Inc("dec.outcome.err")
		return fmt.Sprintf("err u=%s a=%s", hx.B(u), hx.B(a))
	}
	hx.St.Inc("dec.outcome.ok")
	// re-encode the decoded value, decode again: same tree
	r := hx.Guard(decodeDeadline, func() string {
		c := e.mk()
		setVersion(c, e, ver)
		if err := c.ReadFrom(append([]byte(nil), src...)); err != nil {
			return "err"
		}
		again := c.AppendTo(nil)
		c2 := e.mk()
		setVersion(c2, e, ver)
		if err := c2.ReadFrom(again); err != nil {
			return "err"
		}
		return "ok " + tree(c2, e.top)
	}) == res
	return fmt.Sprintf("%s r=%s u=%s a=%s", res, hx.B(r), hx.B(u), hx.B(a))
}

const decodeDeadline = 1500 * time.Millisecond

func bucket(n int) string {
	switch {
	case n == 0:
		return "0"
	case n < 8:
		return "1-7"
	case n < 64:
		return "8-63"
	case n < 512:
		return "64-511"
	case n < 4096:
		return "512-4095"
	default:
		return "4096+"
	}
}

func runEnc(t []string) string {
	e := byName[t[1]]
	if e == nil {
		return "unknown-type"
	}
	ver := int(hx.Atoi(t[2]))
	c := e.mk()
	p := &toks{t: t[3:]}
	fill(p, reflect.ValueOf(c).Elem(), e.top)
	setVersion(c, e, ver)
	b := c.AppendTo(nil)
	hx.St.Inc("enc.bytes." + bucket(len(b)))
	kind := "misc"
	if e.top {
		kind = "top"
	}
	hx.St.Inc("enc.kind." + kind)
	c2 := e.mk()
	setVersion(c2, e, ver)
	if err := c2.ReadFrom(b); err != nil {
		return hexs(b) + " err"
	}
	return hexs(b) + " ok " + tree(c2, e.top)
}

func main() {
	initRegistry()
	a := hx.Parse()
	switch a.Mode {
	case "list":
		names := make([]string, 0, len(registry))
		for _, e := range registry {
			names = append(names, e.name)
		}
		sort.Strings(names)
		for _, n := range names {
			fmt.Println(n)
		}
	case "gen":
		if a.Extra["mode"] == "c16" {
			genDec(a)
		} else {
			genEnc(a)
		}
		hx.Flush()
	case "run":
		hx.RunLines(20*time.Second, func(t []string) string {
			switch t[0] {
			case "enc":
				return runEnc(t)
			case "dec":
				return runDec(t)
			}
			return "bad-op"
		})
	default:
		fmt.Fprintln(os.Stderr, "unknown mode")
		os.Exit(2)
	}
}
