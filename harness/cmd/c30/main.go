// C30 harness: runs a COPY of the current pkg/kgo/ring.go and atomic_maybe_work.go (package kcopy, regenerated
// by props/C30.py on every check, sync primitives replaced by the shims of package sched) under a cooperative
// scheduler, so that a schedule (sequence of thread ids) determines the interleaving.
//
//	latch <progs> <schedule>            -> event log ; st=<final state>
//	ring <maxLen|n> <progs> <schedule>  -> event log ; cap= head= l= dead= elems= blocked=
//
// progs: thread programs separated by '/', tokens by ','; '-' = empty program.
//
//	latch tokens: B<script>  protocol: if maybeBegin() { loop }, script chars per iteration: 1/0 = work then
//	                         maybeFinish(true/false), h = hardFinish and leave; exhausted script = 0
//	              b f F H    raw maybeBegin / maybeFinish(false) / maybeFinish(true) / hardFinish
//	ring tokens:  P Q        protocol push / pushForce of a fresh element; if first && !dead run the worker loop
//	                         (process elem; elem, more, _ = dropPeek(); loop while more)
//	              q d k e    raw pushForce / raw dropPeek / die / empty
//
// schedule: thread ids (one digit each), '-' = empty. A pick of a thread that is not enabled is skipped. When
// the schedule is exhausted the remaining threads are run round-robin (passes over 0..n-1) until nothing is enabled.
package main

import (
	"fmt"
	"os"
	"strconv"
	"strings"
	"time"

	"verifharness/cmd/c30/kcopy"
	"verifharness/cmd/c30/sched"
	"verifharness/hx"
)

const stepLimit = 20000

func b(x bool) string { return hx.B(x) }

// ---------------------------------------------------------------- thread programs on the real code

func latchThread(l *kcopy.WorkLoop, prog []string) func(int) {
	return func(tid int) {
		for _, op := range prog {
			switch op[0] {
			case 'B':
				script := op[1:]
				r := l.MaybeBegin()
				sched.Logf("%d.B=%s", tid, b(r))
				if !r {
					continue
				}
				for {
					c := byte('0')
					if len(script) > 0 {
						c, script = script[0], script[1:]
					}
					if c == 'h' {
						l.HardFinish()
						sched.Logf("%d.h", tid)
						break
					}
					sched.Yield() // the work of this iteration
					sched.Logf("%d.W", tid)
					again := l.MaybeFinish(c == '1')
					sched.Logf("%d.F=%s", tid, b(again))
					if !again {
						break
					}
				}
			case 'b':
				sched.Logf("%d.b=%s", tid, b(l.MaybeBegin()))
			case 'f':
				sched.Logf("%d.f=%s", tid, b(l.MaybeFinish(false)))
			case 'F':
				sched.Logf("%d.f=%s", tid, b(l.MaybeFinish(true)))
			case 'H':
				l.HardFinish()
				sched.Logf("%d.H", tid)
			default:
				panic("bad latch token " + op)
			}
		}
	}
}

func ringThread(r *kcopy.Ring, prog []string) func(int) {
	return func(tid int) {
		k := 0
		for _, op := range prog {
			switch op {
			case "P", "Q":
				k++
				e := 100*(tid+1) + k
				var first, dead bool
				if op == "P" {
					first, dead = r.Push(e)
				} else {
					first, dead = r.PushForce(e)
				}
				sched.Logf("%d.%s(%d)=%s,%s", tid, op, e, b(first), b(dead))
				if !dead && first {
					for {
						sched.Logf("%d.X=%d", tid, e)
						next, more, dd := r.DropPeek()
						sched.Logf("%d.D=%d,%s,%s", tid, next, b(more), b(dd))
						if !more {
							break
						}
						e = next
					}
				}
			case "q":
				k++
				e := 100*(tid+1) + k
				first, dead := r.PushForce(e)
				sched.Logf("%d.q(%d)=%s,%s", tid, e, b(first), b(dead))
			case "d":
				next, more, dd := r.DropPeek()
				sched.Logf("%d.d=%d,%s,%s", tid, next, b(more), b(dd))
			case "k":
				r.Die()
				sched.Logf("%d.k", tid)
			case "e":
				sched.Logf("%d.e=%s", tid, b(r.Empty()))
			default:
				panic("bad ring token " + op)
			}
		}
	}
}

// ---------------------------------------------------------------- one deterministic run

type stepInfo struct {
	chosen  int
	enabled []int
}

type kase struct {
	kind   string // latch | ring
	maxLen string // ring: "n" or an integer
	progs  string
}

func splitProgs(p string) [][]string {
	var res [][]string
	for _, t := range strings.Split(p, "/") {
		if t == "-" || t == "" {
			res = append(res, nil)
		} else {
			res = append(res, strings.Split(t, ","))
		}
	}
	return res
}

// run executes the case: first the explicit schedule (picks of disabled threads are skipped), then `after`
// chooses among the enabled threads (nil = round-robin passes). Returns the output and the effective steps.
func run(c kase, schedule []int, after func(enabled []int) int) (string, []stepInfo) {
	s := sched.New()
	progs := splitProgs(c.progs)
	var final func() string
	switch c.kind {
	case "latch":
		l := new(kcopy.WorkLoop)
		for _, p := range progs {
			s.Go(latchThread(l, p))
		}
		final = func() string { return fmt.Sprintf("st=%d", l.State()) }
	case "ring":
		r := new(kcopy.Ring)
		if c.maxLen != "n" {
			m, err := strconv.Atoi(c.maxLen)
			if err != nil {
				panic("bad maxLen " + c.maxLen)
			}
			r.InitMaxLen(m)
		}
		for _, p := range progs {
			s.Go(ringThread(r, p))
		}
		final = func() string {
			cp, head, l, dead, elems := r.Dump()
			es := make([]string, len(elems))
			for i, e := range elems {
				es[i] = strconv.Itoa(e)
			}
			e := strings.Join(es, ".")
			if e == "" {
				e = "-"
			}
			return fmt.Sprintf("cap=%d head=%d l=%d dead=%s elems=%s", cp, head, l, b(dead), e)
		}
	default:
		panic("bad case kind " + c.kind)
	}
	var trace []stepInfo
	hang := false
	step := func(tid int) bool {
		en := s.EnabledSet()
		if !s.Step(tid) {
			return false
		}
		trace = append(trace, stepInfo{tid, en})
		return true
	}
	for _, tid := range schedule {
		step(tid)
	}
	n := len(progs)
	if after == nil {
		for progress := true; progress && !hang; {
			progress = false
			for tid := 0; tid < n; tid++ {
				if step(tid) {
					progress = true
				}
				if s.Steps > stepLimit {
					hang = true
					break
				}
			}
		}
	} else {
		for {
			en := s.EnabledSet()
			if len(en) == 0 {
				break
			}
			step(after(en))
			if s.Steps > stepLimit {
				hang = true
				break
			}
		}
	}
	bl := s.Blocked()
	bs := "-"
	if len(bl) > 0 {
		xs := make([]string, len(bl))
		for i, t := range bl {
			xs[i] = strconv.Itoa(t)
		}
		bs = strings.Join(xs, ".")
	}
	log := strings.Join(s.Log, " ")
	if log == "" {
		log = "-"
	}
	out := log + " ; " + final() + " blocked=" + bs
	if p := s.Panics(); len(p) > 0 {
		out += " panics=" + strings.Join(p, ";")
	}
	if hang {
		out += " hang"
	}
	s.Kill()
	return out, trace
}

func parseSchedule(x string) []int {
	if x == "-" {
		return nil
	}
	r := make([]int, 0, len(x))
	for _, ch := range x {
		if ch < '0' || ch > '9' {
			panic("bad schedule " + x)
		}
		r = append(r, int(ch-'0'))
	}
	return r
}

func fmtSchedule(xs []int) string {
	if len(xs) == 0 {
		return "-"
	}
	var sb strings.Builder
	for _, x := range xs {
		sb.WriteByte(byte('0' + x))
	}
	return sb.String()
}

func emitCase(c kase, sch string) {
	if c.kind == "latch" {
		hx.Emit("latch %s %s", c.progs, sch)
	} else {
		hx.Emit("ring %s %s %s", c.maxLen, c.progs, sch)
	}
}

// ---------------------------------------------------------------- generators

// explore enumerates every interleaving of the case after the fixed prefix (stateless DFS: re-run with a
// longer forced path, default = lowest enabled thread). Stops after `limit` schedules. Returns count, complete.
func explore(c kase, prefix []int, limit int) (int, bool) {
	var path []int
	count := 0
	lowest := func(en []int) int { return en[0] }
	for {
		_, trace := run(c, append(append([]int{}, prefix...), path...), lowest)
		full := make([]int, len(trace))
		for i, st := range trace {
			full[i] = st.chosen
		}
		emitCase(c, fmtSchedule(full))
		count++
		if count >= limit {
			return count, false
		}
		// effective steps of the prefix are the first ones of the trace (prefix picks are always enabled in our scenarios)
		base := 0
		{
			// count how many prefix picks were effective: replay logic — a prefix pick is effective iff it appears in order
			j := 0
			for _, p := range prefix {
				if j < len(trace) && trace[j].chosen == p {
					j++
				}
			}
			base = j
		}
		// next path: deepest step after the prefix with a larger enabled alternative
		next := -1
		var alt int
		for j := len(trace) - 1; j >= base; j-- {
			for _, e := range trace[j].enabled {
				if e > trace[j].chosen {
					next, alt = j, e
					break
				}
			}
			if next >= 0 {
				break
			}
		}
		if next < 0 {
			return count, true
		}
		path = path[:0]
		for j := base; j < next; j++ {
			path = append(path, trace[j].chosen)
		}
		path = append(path, alt)
	}
}

func rep(tok string, n int) string {
	xs := make([]string, n)
	for i := range xs {
		xs[i] = tok
	}
	return strings.Join(xs, ",")
}

func repInt(t, n int) []int {
	xs := make([]int, n)
	for i := range xs {
		xs[i] = t
	}
	return xs
}

func cat(xs ...[]int) []int {
	var r []int
	for _, x := range xs {
		r = append(r, x...)
	}
	return r
}

type scenario struct {
	c      kase
	prefix []int
}

func exhaustiveScenarios(thorough bool) []scenario {
	var sc []scenario
	L := func(p string) { sc = append(sc, scenario{kase{"latch", "", p}, nil}) }
	R := func(m, p string, prefix []int) { sc = append(sc, scenario{kase{"ring", m, p}, prefix}) }
	// ---- latch: protocol programs
	pool2 := []string{"B", "B0", "B1", "B10", "Bh", "B1h", "B,B", "B0,B", "B11"}
	for i, p := range pool2 {
		for _, q := range pool2[i:] {
			L(p + "/" + q)
		}
	}
	for _, p := range []string{"B/B/B", "B1/B/B", "Bh/B/B", "B0/B0/B", "B1h/B/B", "B10/B/B"} {
		L(p)
	}
	// raw calls (conformance of the paths the protocol never takes: maybeFinish on unstarted, outside hardFinish)
	for _, p := range []string{"B/H", "B1/H,B", "B/f", "B/F", "b/b", "b,f/B", "H,F/B0", "b,F,f/b", "B0/H/B"} {
		L(p)
	}
	if thorough {
		for _, p := range []string{"B,B/B,B/B", "B1/B1/B,B", "B10/B,B/Bh", "B1h/B0,B/B", "B,B,B/B,B", "B11/B,B/B", "B0,B/B0,B/B0",
			"B/H,b/f,B", "B1/F,H/B,B", "b,f/b,F/H,B", "B10/H/B,f"} {
			L(p)
		}
	}
	// ---- ring: unbounded, zero value and initMaxLen(0) / negative
	for _, m := range []string{"n", "0"} {
		for _, p := range []string{"P/P", "P,P/P", "Q/P,P", "P/Q/P", "P,P/P,P", "P/k", "P,P/k,P", "P/e,P", "P/d", "q,d/P", "P,k/P/e", "P/P/P"} {
			R(m, p, nil)
		}
	}
	R("-1", "P,P/P", nil)
	// ---- ring: bounded
	for _, p := range []string{"P,P/P", "P/P/P", "P,P/P,P", "Q,P/P", "P,Q/P,k", "P,P/k", "P,P/P/k", "q,P/d,P", "P,P,P/e"} {
		R("1", p, nil)
	}
	for _, p := range []string{"P,P,P/P", "P,P/P,P", "P,P,P/k/P", "Q,Q,P/P", "P,P/P/P"} {
		R("2", p, nil)
	}
	R("1", "P/P/P/k", nil) // two parked pushers, one Signal per dropPeek, die must wake the other
	if thorough {
		for _, p := range []string{"P,P,P/P,P", "P,P/P,P/P", "P,P/P,P/k", "P,Q,P/P,k"} {
			R("1", p, nil)
		}
		for _, p := range []string{"P,P,P/P,P", "P,P/P,P/P,k", "P,P,P,P/P/e"} {
			R("2", p, nil)
		}
		R("3", "P,P,P,P/P,P/k", nil)
	}
	// ---- ring: set-up prefixes reaching grow / wrap / shrink, then every interleaving
	// grow: worker 0 delayed, thread 1 pushes 8 more (9th element grows to 16), then all interleavings of the drain
	R("n", "Q/"+rep("Q", 9)+"/Q,e", cat([]int{0}, repInt(1, 8)))
	R("n", "P/"+rep("P", 8)+"/P,k", cat([]int{0}, repInt(1, 8)))
	// wrap: fill 8, drain 5 (head 5), push 5 (wrapped, full), then the 9th push grows from a wrapped buffer
	R("n", "Q/"+rep("Q", 13)+"/Q", cat([]int{0}, repInt(1, 7), repInt(0, 5), repInt(1, 5)))
	// shrink near the boundary: 10 elements in cap 16, worker has drained 3 (head 3, l 7): two more drops reach l<=4
	R("n", "Q/"+rep("Q", 10)+"/Q,Q", cat([]int{0}, repInt(1, 9), repInt(0, 3)))
	// bounded + forced beyond maxLen + grow
	R("3", "Q/"+rep("Q", 8)+",P/P", cat([]int{0}, repInt(1, 8)))
	// raw fill without a worker, raw drains around the shrink point
	R("n", rep("q", 9)+"/d,d,d/d,d,q", repInt(0, 9))
	if thorough {
		R("n", "Q/"+rep("Q", 17)+"/Q", cat([]int{0}, repInt(1, 15))) // second doubling 16 -> 32
		R("n", "Q/"+rep("Q", 10)+"/Q,Q/e,k", cat([]int{0}, repInt(1, 9), repInt(0, 3)))
		R("2", "Q/"+rep("Q", 9)+"/P,P", cat([]int{0}, repInt(1, 8)))
	}
	return sc
}

func randProgs(r *hx.Rng, kind string, bounded bool) string {
	n := 2 + r.Intn(3)
	var ts []string
	for t := 0; t < n; t++ {
		k := 1 + r.Intn(5)
		var ops []string
		for i := 0; i < k; i++ {
			if kind == "latch" {
				switch x := r.Intn(20); {
				case x < 14:
					sc := ""
					for j := r.Intn(4); j > 0; j-- {
						if r.Chance(12) {
							sc += "h"
							break
						}
						sc += hx.Pick(r, []string{"0", "1"})
					}
					ops = append(ops, "B"+sc)
				case x < 16:
					ops = append(ops, "b")
				case x < 17:
					ops = append(ops, "f")
				case x < 18:
					ops = append(ops, "F")
				default:
					ops = append(ops, "H")
				}
			} else {
				switch x := r.Intn(40); {
				case x < 18:
					ops = append(ops, "P")
				case x < 30:
					ops = append(ops, "Q")
				case x < 32:
					ops = append(ops, "k")
				case x < 34:
					ops = append(ops, "e")
				case x < 37 && !bounded:
					ops = append(ops, "q")
				case x < 38:
					ops = append(ops, "d")
				default:
					ops = append(ops, "P")
				}
			}
		}
		ts = append(ts, strings.Join(ops, ","))
	}
	if kind == "ring" && r.Chance(30) {
		// a long pusher so that the buffer grows, wraps and shrinks
		ts[r.Intn(len(ts))] = rep(hx.Pick(r, []string{"Q", "P"}), 9+r.Intn(14))
	}
	return strings.Join(ts, "/")
}

func gen(a hx.Args) {
	r := hx.NewRng(a.Seed)
	thorough := a.Tier == "thorough"
	limit := 2500
	if thorough {
		limit = 40000
	}
	total, truncated, nscen := 0, 0, 0
	for _, sc := range exhaustiveScenarios(thorough) {
		nscen++
		n, complete := explore(sc.c, sc.prefix, limit)
		total += n
		if !complete {
			truncated++
		}
	}
	fmt.Fprintf(os.Stderr, "c30 gen: %d exhaustive schedules, %d scenarios truncated at %d\n", total, truncated, limit)
	hx.Emit("meta %d %d %d %d", nscen-truncated, truncated, limit, total)
	// random full schedules
	for i := 0; i < a.N(12000, 150000); i++ {
		kind := "latch"
		if r.Chance(60) {
			kind = "ring"
		}
		c := kase{kind: kind}
		if kind == "ring" {
			c.maxLen = hx.Pick(r, []string{"n", "n", "0", "-3", "1", "1", "2", "3", "5", "9"})
		}
		bounded := kind == "ring" && c.maxLen != "n" && c.maxLen != "0" && c.maxLen != "-3"
		c.progs = randProgs(r, kind, bounded)
		sticky := r.Intn(4) // 0: uniform; otherwise prefer to keep running the same thread (long runs, then switches)
		last := -1
		_, trace := run(c, nil, func(en []int) int {
			if sticky > 0 && last >= 0 && r.Intn(sticky+1) > 0 {
				for _, e := range en {
					if e == last {
						return e
					}
				}
			}
			last = en[r.Intn(len(en))]
			return last
		})
		full := make([]int, len(trace))
		for j, st := range trace {
			full[j] = st.chosen
		}
		switch r.Intn(10) {
		case 0: // truncated: the rest is completed round-robin
			full = full[:r.Intn(len(full)+1)]
		case 1: // malformed: extra picks of arbitrary (possibly disabled / unknown) threads
			for j := r.Intn(6); j >= 0; j-- {
				pos := r.Intn(len(full) + 1)
				full = append(full[:pos], append([]int{r.Intn(7)}, full[pos:]...)...)
			}
		}
		emitCase(c, fmtSchedule(full))
	}
	hx.Flush()
}

// ---------------------------------------------------------------- run mode

func runLine(toks []string) string {
	var c kase
	var sch string
	switch toks[0] {
	case "meta": // generator bookkeeping: scenarios enumerated completely / truncated at the limit / schedules
		hx.St.Add("dfs_scenarios_enumerated_completely", int(hx.Atoi(toks[1])))
		hx.St.Add("dfs_scenarios_truncated_at_limit", int(hx.Atoi(toks[2])))
		hx.St.Add("dfs_limit_per_scenario", int(hx.Atoi(toks[3])))
		hx.St.Add("dfs_schedules", int(hx.Atoi(toks[4])))
		return "ok"
	case "latch":
		c, sch = kase{"latch", "", toks[1]}, toks[2]
	case "ring":
		c, sch = kase{"ring", toks[1], toks[2]}, toks[3]
	default:
		return "bad-op"
	}
	out, trace := run(c, parseSchedule(sch), nil)
	hx.St.Inc("kind_" + c.kind)
	if c.kind == "ring" {
		switch {
		case c.maxLen == "n":
			hx.St.Inc("ring_zero_value")
		case strings.HasPrefix(c.maxLen, "-") || c.maxLen == "0":
			hx.St.Inc("ring_initMaxLen_nonpositive")
		default:
			hx.St.Inc("ring_bounded_" + c.maxLen)
		}
		if strings.Contains(out, ".~") {
			hx.St.Inc("ring_case_with_blocked_push")
		}
		if strings.Contains(out, ".k") {
			hx.St.Inc("ring_case_with_die")
		}
		if strings.Contains(out, ",1 ") && strings.Contains(out, "=0,1") {
			hx.St.Inc("ring_case_with_rejected_push")
		}
		if !strings.Contains(out, "cap=8 ") && !strings.Contains(out, "cap=0 ") {
			hx.St.Inc("ring_case_final_cap_gt8")
		}
		if strings.Count(out, "(") > 8 {
			hx.St.Inc("ring_case_more_than_8_pushes")
		}
	} else {
		if strings.Contains(out, ".h") {
			hx.St.Inc("latch_case_with_hardFinish")
		}
		if strings.Contains(out, ".F=1") {
			hx.St.Inc("latch_case_with_reloop")
		}
		if strings.ContainsAny(c.progs, "bfFH") {
			hx.St.Inc("latch_case_with_raw_calls")
		}
	}
	hx.St.Inc(fmt.Sprintf("threads_%d", len(splitProgs(c.progs))))
	switch n := len(trace); {
	case n <= 8:
		hx.St.Inc("steps_le8")
	case n <= 16:
		hx.St.Inc("steps_9_16")
	case n <= 32:
		hx.St.Inc("steps_17_32")
	default:
		hx.St.Inc("steps_gt32")
	}
	return out
}

func main() {
	a := hx.Parse()
	switch a.Mode {
	case "gen":
		gen(a)
	case "run":
		hx.RunLines(20*time.Second, runLine)
	default:
		fmt.Fprintln(os.Stderr, "usage: gen|run")
		os.Exit(2)
	}
}
