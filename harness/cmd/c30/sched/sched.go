// Package sched: a cooperative scheduler and drop-in shims for the synchronisation primitives used by
// pkg/kgo/ring.go and pkg/kgo/atomic_maybe_work.go (sync.Mutex / xsync.Mutex, sync.Cond, atomic.Uint32).
//
// Exactly one thread (goroutine) runs at a time. A thread runs until its next *yield point* and hands
// control back; the scheduler then decides which thread performs the next step, so a schedule (a
// sequence of thread ids) determines the interleaving. Yield points are placed immediately BEFORE every
// shared-memory action at the granularity of the Lean model:
//
//	Uint32.Load / CompareAndSwap / Store   one step each
//	Mutex.Lock                             one step = the whole critical section up to Unlock or Cond.Wait
//	Cond.Wait                              releases the mutex and parks; the step after a Signal/Broadcast
//	                                       re-acquires the mutex and continues
//	Yield()                                explicit (a thread-local decision point of the harness)
//
// Unlock, Signal and Broadcast are not yield points (nothing can observe the difference).
package sched

import (
	"fmt"
	"runtime"
	"strings"
)

type thread struct {
	id     int
	resume chan bool // true: run one step; false: unwind (Goexit)
	done   bool
	parked *Cond  // inside Cond.Wait, not yet signalled
	woken  bool   // signalled, has not run since
	wantMu *Mutex // at Lock of a mutex
	panic  string
}

// Sched is one deterministic run.
type Sched struct {
	threads []*thread
	cur     *thread
	back    chan struct{}
	Log     []string
	Steps   int
}

var S *Sched // the run in progress (the shims find their scheduler here)

func New() *Sched {
	S = &Sched{back: make(chan struct{})}
	return S
}

// Go creates thread number len(threads) running f and runs it up to its first yield point (thread-local
// code only: no shared action happens before the first yield point).
func (s *Sched) Go(f func(tid int)) int {
	t := &thread{id: len(s.threads), resume: make(chan bool)}
	s.threads = append(s.threads, t)
	go func() {
		defer func() {
			if r := recover(); r != nil {
				msg := fmt.Sprint(r)
				if i := strings.IndexByte(msg, '\n'); i >= 0 {
					msg = msg[:i]
				}
				t.panic = strings.ReplaceAll(msg, " ", "_")
				s.Log = append(s.Log, fmt.Sprintf("%d.panic", t.id))
			}
			t.done = true
			t.parked, t.wantMu = nil, nil
			s.back <- struct{}{}
		}()
		if !<-t.resume {
			runtime.Goexit()
		}
		f(t.id)
	}()
	s.cur = t
	t.resume <- true
	<-s.back
	return t.id
}

func (s *Sched) yield() {
	t := s.cur
	s.back <- struct{}{}
	if !<-t.resume {
		runtime.Goexit()
	}
	s.cur = t
}

// Yield is an explicit yield point.
func Yield() { S.yield() }

// Tid is the id of the running thread.
func Tid() int { return S.cur.id }

func Logf(format string, a ...any) { S.Log = append(S.Log, fmt.Sprintf(format, a...)) }

// Enabled: the thread exists, has not finished, is not parked unsignalled and does not wait for a held mutex.
func (s *Sched) Enabled(tid int) bool {
	if tid < 0 || tid >= len(s.threads) {
		return false
	}
	t := s.threads[tid]
	if t.done {
		return false
	}
	if t.parked != nil && !t.woken {
		return false
	}
	if t.wantMu != nil && t.wantMu.locked {
		return false
	}
	if t.parked != nil && t.parked.L.locked {
		return false
	}
	return true
}

func (s *Sched) EnabledSet() []int {
	var r []int
	for i := range s.threads {
		if s.Enabled(i) {
			r = append(r, i)
		}
	}
	return r
}

// Step lets thread tid perform one step; false (and nothing happens) if it is not enabled.
func (s *Sched) Step(tid int) bool {
	if !s.Enabled(tid) {
		return false
	}
	t := s.threads[tid]
	s.cur = t
	s.Steps++
	t.resume <- true
	<-s.back
	return true
}

func (s *Sched) AllDone() bool {
	for _, t := range s.threads {
		if !t.done {
			return false
		}
	}
	return true
}

// Blocked lists the threads that have not finished.
func (s *Sched) Blocked() []int {
	var r []int
	for _, t := range s.threads {
		if !t.done {
			r = append(r, t.id)
		}
	}
	return r
}

func (s *Sched) Panics() []string {
	var r []string
	for _, t := range s.threads {
		if t.panic != "" {
			r = append(r, fmt.Sprintf("%d:%s", t.id, t.panic))
		}
	}
	return r
}

// Kill unwinds every unfinished thread (deferred functions of the code under test run).
func (s *Sched) Kill() {
	for _, t := range s.threads {
		if !t.done {
			s.cur = t
			t.resume <- false
			<-s.back
		}
	}
}

// ---------------------------------------------------------------- shims

// Mutex replaces sync.Mutex / xsync.Mutex.
type Mutex struct{ locked bool }

func (m *Mutex) Lock() {
	t := S.cur
	t.wantMu = m
	S.yield()
	for m.locked { // not reachable with the current sources: no yield point inside a critical section
		S.yield()
	}
	t.wantMu = nil
	m.locked = true
}

func (m *Mutex) Unlock() {
	if !m.locked {
		panic("sync: unlock of unlocked mutex")
	}
	m.locked = false
}

func (m *Mutex) TryLock() bool {
	S.yield()
	if m.locked {
		return false
	}
	m.locked = true
	return true
}

// Cond replaces sync.Cond. Waiters are woken in arrival order (as Go's notifyList does).
type Cond struct {
	L       *Mutex
	waiters []*thread
}

func NewCond(l *Mutex) *Cond { return &Cond{L: l} }

func (c *Cond) Wait() {
	t := S.cur
	c.L.Unlock()
	c.waiters = append(c.waiters, t)
	t.parked, t.woken = c, false
	S.Log = append(S.Log, fmt.Sprintf("%d.~", t.id))
	S.yield()
	for c.L.locked {
		S.yield()
	}
	t.parked, t.woken = nil, false
	c.L.locked = true
}

func (c *Cond) Signal() {
	if len(c.waiters) > 0 {
		c.waiters[0].woken = true
		c.waiters = c.waiters[1:]
	}
}

func (c *Cond) Broadcast() {
	for _, t := range c.waiters {
		t.woken = true
	}
	c.waiters = nil
}

// Uint32 replaces atomic.Uint32.
type Uint32 struct{ v uint32 }

func (u *Uint32) Load() uint32 { S.yield(); return u.v }
func (u *Uint32) Store(x uint32) {
	S.yield()
	u.v = x
}
func (u *Uint32) CompareAndSwap(old, new uint32) bool {
	S.yield()
	if u.v == old {
		u.v = new
		return true
	}
	return false
}
func (u *Uint32) Swap(x uint32) uint32 { S.yield(); o := u.v; u.v = x; return o }
func (u *Uint32) Add(d uint32) uint32  { S.yield(); u.v += d; return u.v }

// Raw reads the value without a yield point (harness inspection only).
func (u *Uint32) Raw() uint32 { return u.v }

// lazyI32 in atomic_maybe_work.go uses the function forms; it is not under test.
func StoreInt32(p *int32, v int32) { *p = v }
func LoadInt32(p *int32) int32     { return *p }
