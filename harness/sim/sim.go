// Package sim: scenario engine for the history ties (DESIGN.md §6 "End-to-end protocol properties").
// Real kgo clients of this tree against the real in-process kfake of this tree, inside a
// testing/synctest bubble over kfake.VirtualNetwork (virtual time, deterministic quiescence),
// with a frame-aware fault layer on the broker side of every connection.
package sim

import (
	"time"
	"encoding/binary"
	"fmt"
	"io"
	"net"
	"strings"
	"sync"

	"github.com/twmb/franz-go/pkg/kfake"
)

// Log is the event history of a scenario. Events are appended under one mutex, so the order is a
// linearisation of the observation points.
type Log struct {
	mu  sync.Mutex
	evs []string
}

func (l *Log) Add(format string, a ...any) {
	s := fmt.Sprintf(format, a...)
	l.mu.Lock()
	l.evs = append(l.evs, s)
	l.mu.Unlock()
}
func (l *Log) String() string {
	l.mu.Lock()
	defer l.mu.Unlock()
	return strings.Join(l.evs, " ")
}
func (l *Log) Len() int { l.mu.Lock(); defer l.mu.Unlock(); return len(l.evs) }

// Fault actions for a request frame, chosen by a FaultFn when the frame has been fully read from the
// client and before it is handed to kfake.
type Action int

const (
	Pass       Action = iota
	KillBefore        // close the connection; kfake never sees the request
	DropAfter         // kfake handles the request; the response is swallowed and the connection closed
	KillLater         // kfake gets the request; the connection is closed KillDelay later (e.g. while a JoinGroup is parked)
)

// FaultFn decides the fate of the nth (0-based, per API key, cluster-wide) request frame.
type FaultFn func(key int16, nth int, frame []byte) Action

// Net is a virtual network with the fault layer.
type Net struct {
	Stack kfake.VirtualNetwork
	mu    sync.Mutex
	seen  map[int16]int
	Fault FaultFn
	// KillDelay is the (virtual) time between handing a KillLater request to kfake and closing the connection (default 30ms).
	KillDelay time.Duration
	// OnRequest / OnResponse observe every request frame handed to kfake and every response frame
	// kfake wrote (in request order per connection), after the fault decision.
	OnRequest  func(connID int, key int16, frame []byte, act Action)
	OnResponse func(connID int, key int16, frame []byte, delivered bool)
	// MutateResponse, when set, may rewrite a complete response frame (correlation id onwards, without the
	// size prefix) after kfake wrote it and before it is delivered to the client: the returned frame is what
	// OnResponse observes and what the client receives (nil or an empty result = unchanged). kfake's own
	// state is not affected: this is "the broker did X and the client is told Y".
	MutateResponse func(connID int, key int16, frame []byte) []byte
	nconn          int
	conns      map[int]*Conn
}

func (n *Net) ListenFn(network, addr string) (net.Listener, error) {
	l, err := n.Stack.Listen(network, addr)
	if err != nil {
		return nil, err
	}
	return &listener{Listener: l, n: n}, nil
}

// KillAll closes every open broker-side connection.
func (n *Net) KillAll() {
	n.mu.Lock()
	cs := make([]*Conn, 0, len(n.conns))
	for _, c := range n.conns {
		cs = append(cs, c)
	}
	n.mu.Unlock()
	for _, c := range cs {
		c.kill()
	}
}

// KillOne closes the i-th (mod count) open connection, if any.
func (n *Net) KillOne(i int) {
	n.mu.Lock()
	var ids []int
	for id := range n.conns {
		ids = append(ids, id)
	}
	n.mu.Unlock()
	if len(ids) == 0 {
		return
	}
	// deterministic choice: smallest ids first
	for a := 0; a < len(ids); a++ {
		for b := a + 1; b < len(ids); b++ {
			if ids[b] < ids[a] {
				ids[a], ids[b] = ids[b], ids[a]
			}
		}
	}
	n.mu.Lock()
	c := n.conns[ids[i%len(ids)]]
	n.mu.Unlock()
	if c != nil {
		c.kill()
	}
}

type listener struct {
	net.Listener
	n *Net
}

func (l *listener) Accept() (net.Conn, error) {
	c, err := l.Listener.Accept()
	if err != nil {
		return nil, err
	}
	l.n.mu.Lock()
	l.n.nconn++
	fc := &Conn{Conn: c, n: l.n, id: l.n.nconn}
	if l.n.conns == nil {
		l.n.conns = map[int]*Conn{}
	}
	l.n.conns[fc.id] = fc
	l.n.mu.Unlock()
	return fc, nil
}

type pending struct {
	key  int16
	drop bool
}

// Conn is the broker side of a connection: whole request frames are released to kfake, whole
// response frames are released to the client.
type Conn struct {
	net.Conn
	n    *Net
	id   int
	mu   sync.Mutex
	in   []byte // bytes read from the client, not yet released
	out  []byte // bytes released to kfake, not yet consumed by its Read
	pend []pending
	wbuf []byte
	dead bool
}

func (c *Conn) kill() {
	c.mu.Lock()
	c.dead = true
	c.mu.Unlock()
	c.Conn.Close()
	c.n.mu.Lock()
	delete(c.n.conns, c.id)
	c.n.mu.Unlock()
}

func (c *Conn) Close() error {
	c.n.mu.Lock()
	delete(c.n.conns, c.id)
	c.n.mu.Unlock()
	return c.Conn.Close()
}

func (c *Conn) Read(p []byte) (int, error) {
	for {
		c.mu.Lock()
		if len(c.out) > 0 {
			n := copy(p, c.out)
			c.out = c.out[n:]
			c.mu.Unlock()
			return n, nil
		}
		if c.dead {
			c.mu.Unlock()
			return 0, io.EOF
		}
		// release complete frames
		released := false
		for len(c.in) >= 4 {
			size := int(binary.BigEndian.Uint32(c.in))
			if size < 2 || len(c.in) < 4+size {
				break
			}
			frame := c.in[:4+size]
			key := int16(binary.BigEndian.Uint16(frame[4:]))
			c.n.mu.Lock()
			if c.n.seen == nil {
				c.n.seen = map[int16]int{}
			}
			nth := c.n.seen[key]
			c.n.seen[key]++
			f := c.n.Fault
			c.n.mu.Unlock()
			act := Pass
			if f != nil {
				act = f(key, nth, frame[4:])
			}
			if c.n.OnRequest != nil {
				c.n.OnRequest(c.id, key, frame[4:], act)
			}
			if act == KillBefore {
				c.mu.Unlock()
				c.kill()
				return 0, io.EOF
			}
			if act == KillLater {
				d := c.n.KillDelay
				if d == 0 {
					d = 30 * time.Millisecond
				}
				go func() { time.Sleep(d); c.kill() }()
			}
			c.pend = append(c.pend, pending{key, act == DropAfter})
			c.out = append(c.out, frame...)
			c.in = c.in[4+size:]
			released = true
		}
		c.mu.Unlock()
		if released {
			continue
		}
		buf := make([]byte, 64<<10)
		n, err := c.Conn.Read(buf)
		if n > 0 {
			c.mu.Lock()
			c.in = append(c.in, buf[:n]...)
			c.mu.Unlock()
		}
		if err != nil {
			return 0, err
		}
	}
}

func (c *Conn) Write(p []byte) (int, error) {
	c.mu.Lock()
	if c.dead {
		c.mu.Unlock()
		return 0, io.ErrClosedPipe
	}
	c.wbuf = append(c.wbuf, p...)
	var out []byte
	kill := false
	for len(c.wbuf) >= 4 && !kill {
		size := int(binary.BigEndian.Uint32(c.wbuf))
		if len(c.wbuf) < 4+size {
			break
		}
		frame := c.wbuf[:4+size]
		var pd pending
		if len(c.pend) > 0 {
			pd = c.pend[0]
			c.pend = c.pend[1:]
		}
		if c.n.MutateResponse != nil {
			if m := c.n.MutateResponse(c.id, pd.key, frame[4:]); len(m) > 0 {
				nf := make([]byte, 4, 4+len(m))
				binary.BigEndian.PutUint32(nf, uint32(len(m)))
				frame = append(nf, m...)
			}
		}
		if c.n.OnResponse != nil {
			c.n.OnResponse(c.id, pd.key, frame[4:], !pd.drop)
		}
		if pd.drop {
			kill = true
		} else {
			out = append(out, frame...)
		}
		c.wbuf = c.wbuf[4+size:]
	}
	c.mu.Unlock()
	if len(out) > 0 {
		if _, err := c.Conn.Write(out); err != nil {
			return 0, err
		}
	}
	if kill {
		c.kill()
	}
	return len(p), nil
}
