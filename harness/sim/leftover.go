package sim

import (
	"regexp"
	"runtime"
	"strings"
)

// Leftover lists the goroutines of the calling goroutine's synctest bubble whose stack has a frame (or a
// "created by" line) containing match, e.g. "franz-go/pkg/kgo.": one short, space-free summary per goroutine
//
//	<state>/<top matching function>@<file>#<line></created-by function>
//
// Goroutines of earlier bubbles of the same process (a goroutine leaked by an earlier scenario stays around for
// the life of the process) are not listed: the runtime labels every goroutine with its bubble. Call it after
// synctest.Wait(), when every other goroutine of the bubble is durably blocked, so that what is listed is not
// merely on its way out.
func Leftover(match string) []string {
	self := make([]byte, 256)
	self = self[:runtime.Stack(self, false)]
	m := bubbleRe.FindSubmatch(firstLine(self))
	if m == nil {
		return nil // not in a bubble
	}
	bubble := string(m[1])
	buf := make([]byte, 1<<20)
	for {
		n := runtime.Stack(buf, true)
		if n < len(buf) {
			buf = buf[:n]
			break
		}
		buf = make([]byte, 2*len(buf))
	}
	var out []string
	for _, g := range strings.Split(string(buf), "\n\n") {
		lines := strings.Split(g, "\n")
		hm := bubbleRe.FindStringSubmatch(lines[0])
		if hm == nil || hm[1] != bubble || !strings.Contains(g, match) {
			continue
		}
		state := "?"
		if sm := stateRe.FindStringSubmatch(lines[0]); sm != nil {
			state = strings.ReplaceAll(sm[1], " ", "_")
		}
		top, created := "", ""
		for i := 1; i < len(lines); i++ {
			l := lines[i]
			if strings.HasPrefix(l, "created by ") {
				created = shortFn(strings.TrimPrefix(l, "created by "))
				continue
			}
			if top == "" && !strings.HasPrefix(l, "\t") && strings.Contains(l, match) {
				top = shortFn(l)
				if i+1 < len(lines) {
					if fm := fileRe.FindStringSubmatch(lines[i+1]); fm != nil {
						top += "@" + fm[1] + "#" + fm[2]
					}
				}
			}
		}
		if top == "" {
			top = "-"
		}
		out = append(out, state+"/"+top+"<"+created)
	}
	return out
}

var (
	bubbleRe = regexp.MustCompile(`synctest bubble (\d+)`)
	stateRe  = regexp.MustCompile(`^goroutine \d+ \[([^,\]]+)`)
	fileRe   = regexp.MustCompile(`([^/\s]+\.go):(\d+)`)
)

func firstLine(b []byte) []byte {
	for i, c := range b {
		if c == '\n' {
			return b[:i]
		}
	}
	return b
}

// shortFn turns "github.com/twmb/franz-go/pkg/kgo.(*fetchManager).manageFetchConcurrency(0xc000…)" or
// "… in goroutine 12" into "kgo.(*fetchManager).manageFetchConcurrency".
func shortFn(l string) string {
	if i := strings.Index(l, " in goroutine"); i >= 0 {
		l = l[:i]
	}
	if i := strings.LastIndexByte(l, '('); i > 0 && strings.HasSuffix(l, ")") {
		l = l[:i]
	}
	if i := strings.LastIndexByte(l, '/'); i >= 0 {
		l = l[i+1:]
	}
	return strings.NewReplacer(" ", "_", ":", ";", "|", "/").Replace(l)
}
