package sim

import (
	"encoding/binary"
	"sync"

	"github.com/twmb/franz-go/pkg/kbin"
	"github.com/twmb/franz-go/pkg/kmsg"
)

// LeaderOutage rewrites Metadata responses on the wire so that chosen partitions report LEADER_NOT_AVAILABLE
// (leader -1) while it is switched on: the broker keeps its real state, the client sees a leaderless partition.
// Install with Install; it chains the Net's OnRequest (to learn each request's version) and MutateResponse.
type LeaderOutage struct {
	mu   sync.Mutex
	on   map[string]map[int32]bool // topic -> partition -> leaderless
	hide map[string]int            // topic -> number of further responses in which it is shown as UNKNOWN_TOPIC_OR_PARTITION
	vers map[int][]int16           // conn -> versions of metadata requests in flight
	N    int                       // number of responses rewritten
}

func (o *LeaderOutage) Set(topic string, partition int32, leaderless bool) {
	o.mu.Lock()
	defer o.mu.Unlock()
	if o.on == nil {
		o.on = map[string]map[int32]bool{}
	}
	if o.on[topic] == nil {
		o.on[topic] = map[int32]bool{}
	}
	o.on[topic][partition] = leaderless
}

// HideTopic makes the next n Metadata responses that list the topic show it as UNKNOWN_TOPIC_OR_PARTITION without
// partitions: the client learns the topic's partitions only afterwards.
func (o *LeaderOutage) HideTopic(topic string, n int) {
	o.mu.Lock()
	defer o.mu.Unlock()
	if o.hide == nil {
		o.hide = map[string]int{}
	}
	o.hide[topic] = n
}

func (o *LeaderOutage) Clear() {
	o.mu.Lock()
	o.on = nil
	o.mu.Unlock()
}

func (o *LeaderOutage) Install(n *Net) {
	prevReq, prevMut := n.OnRequest, n.MutateResponse
	n.OnRequest = func(conn int, key int16, frame []byte, act Action) {
		if key == 3 && act != KillBefore && len(frame) >= 4 {
			o.mu.Lock()
			if o.vers == nil {
				o.vers = map[int][]int16{}
			}
			o.vers[conn] = append(o.vers[conn], int16(binary.BigEndian.Uint16(frame[2:])))
			o.mu.Unlock()
		}
		if prevReq != nil {
			prevReq(conn, key, frame, act)
		}
	}
	n.MutateResponse = func(conn int, key int16, frame []byte) []byte {
		if prevMut != nil {
			if m := prevMut(conn, key, frame); len(m) > 0 {
				frame = m
			}
		}
		if key != 3 {
			return frame
		}
		o.mu.Lock()
		defer o.mu.Unlock()
		q := o.vers[conn]
		if len(q) == 0 {
			return frame
		}
		v := q[0]
		o.vers[conn] = q[1:]
		if (len(o.on) == 0 && len(o.hide) == 0) || len(frame) < 4 {
			return frame
		}
		resp := kmsg.NewPtrMetadataResponse()
		resp.SetVersion(v)
		b := kbin.Reader{Src: frame[4:]}
		if resp.IsFlexible() {
			kmsg.SkipTags(&b)
		}
		if resp.ReadFrom(b.Src) != nil {
			return frame
		}
		changed := false
		for i := range resp.Topics {
			t := &resp.Topics[i]
			if t.Topic == nil {
				continue
			}
			if o.hide[*t.Topic] > 0 {
				o.hide[*t.Topic]--
				t.ErrorCode = 3 // UNKNOWN_TOPIC_OR_PARTITION
				t.Partitions = nil
				changed = true
				continue
			}
			ps := o.on[*t.Topic]
			for j := range t.Partitions {
				if ps[t.Partitions[j].Partition] {
					t.Partitions[j].ErrorCode = 5 // LEADER_NOT_AVAILABLE
					t.Partitions[j].Leader = -1
					changed = true
				}
			}
		}
		if !changed {
			return frame
		}
		o.N++
		out := append([]byte(nil), frame[:4]...)
		if resp.IsFlexible() {
			out = append(out, 0)
		}
		return resp.AppendTo(out)
	}
}
