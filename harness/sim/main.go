package sim

import (
	"runtime"
	"bufio"
	"flag"
	"fmt"
	"os"
	"runtime/debug"
	"strings"
	"sync/atomic"
	"testing"
	"testing/synctest"
	"time"

	"verifharness/hx"
)

// Scenario harnesses are `go test -c` binaries (testing/synctest needs a *testing.T). Main wires the
// usual `gen` / `run` line protocol into TestMain: the caller's TestMain calls sim.Main(m, gen, run),
// and its single test function calls sim.RunTest(t).
var (
	mode    string
	args    hx.Args
	genFn   func(hx.Args)
	runFn   func(t *testing.T, toks []string) string
	realOut = hx.Out
)

func Main(m *testing.M, gen func(hx.Args), run func(t *testing.T, toks []string) string) {
	genFn, runFn = gen, run
	if len(os.Args) < 2 {
		fmt.Fprintln(os.Stderr, "usage: gen --seed S --tier T | run")
		os.Exit(2)
	}
	args = hx.Parse()
	mode = args.Mode
	if mode == "gen" {
		gen(args)
		hx.Flush()
		os.Exit(0)
	}
	// run mode: hand control to the testing package with only our test selected; its own chatter
	// ("PASS", "ok") goes to /dev/null, the protocol lines go to the real stdout.
	devnull, _ := os.OpenFile(os.DevNull, os.O_WRONLY, 0)
	os.Stdout = devnull
	os.Args = []string{os.Args[0], "-test.run=^TestSim$", "-test.timeout=0"}
	flag.Parse()
	code := m.Run()
	hx.Flush()
	os.Exit(code)
}

// RealDeadline is the real-time limit of one op (a bubble that never becomes quiescent, e.g. a goroutine spinning
// while virtual time stands still, ends as HANG). DeadlineFor, when set, chooses it per op.
var (
	RealDeadline = 40 * time.Second
	DeadlineFor  func(toks []string) time.Duration
)

// RunTest is the body of TestSim: one synctest bubble per op line.
func RunTest(t *testing.T) {
	sc := bufio.NewScanner(os.Stdin)
	sc.Buffer(make([]byte, 1<<20), 1<<28)
	for sc.Scan() {
		line := strings.TrimSpace(sc.Text())
		if line == "" || strings.HasPrefix(line, "#") {
			continue
		}
		toks := strings.Fields(line)
		dl := RealDeadline
		if DeadlineFor != nil {
			if d := DeadlineFor(toks); d > 0 {
				dl = d
			}
		}
		res := Bubble(t, dl, func(t *testing.T) string { return runFn(t, toks) })
		hx.Emit("%s | %s", line, res)
		hx.Flush()
	}
	hx.St.Dump()
	hx.Flush()
}

// Partial, when set by a scenario, returns what has been logged so far; it is appended to a HANG outcome
// so that a scenario that never finishes still shows where it was.
var Partial atomic.Pointer[func() string]

// Bubble runs f in a synctest bubble; a panic (including synctest's deadlock panic) or a real-time
// deadline is an outcome, not a crash.
func Bubble(t *testing.T, realDeadline time.Duration, f func(t *testing.T) string) string {
	ch := make(chan string, 1)
	go func() {
		defer func() {
			if r := recover(); r != nil {
				msg := fmt.Sprint(r)
				if i := strings.IndexByte(msg, '\n'); i >= 0 {
					msg = msg[:i]
				}
				_ = debug.Stack
				out := "PANIC:" + strings.ReplaceAll(msg, " ", "_")
				if p := Partial.Load(); p != nil {
					t := (*p)()
					if len(t) > 6000 {
						t = t[len(t)-6000:]
					}
					out += " tail: " + t
				}
				ch <- out
			}
		}()
		var res string
		synctest.Test(t, func(t *testing.T) { res = f(t) })
		ch <- res
	}()
	hang := func() string {
		if d := os.Getenv("VERIF_HANGSTACKS"); d != "" { // debugging aid: all goroutine stacks at the moment of the hang
			buf := make([]byte, 8<<20)
			n := runtime.Stack(buf, true)
			os.MkdirAll(d, 0o755)
			os.WriteFile(fmt.Sprintf("%s/hang-%d.txt", d, time.Now().UnixNano()), buf[:n], 0o644)
		}
		if p := Partial.Load(); p != nil {
			s := (*p)()
			if f := os.Getenv("VERIF_HANGLOG"); f != "" {
				os.WriteFile(f, []byte(s), 0o644)
			}
			if len(s) > 6000 {
				s = s[len(s)-6000:]
			}
			return "HANG tail: " + s
		}
		return "HANG"
	}
	deadline := time.After(realDeadline)
	tick := time.NewTicker(2 * time.Second)
	defer tick.Stop()
	for {
		select {
		case r := <-ch:
			return r
		case <-tick.C:
			if g := GiveUp.Load(); g != nil && (*g)() {
				return hang()
			}
		case <-deadline:
			return hang()
		}
	}
}

// GiveUp, when set by a scenario, is polled from outside the bubble every two seconds of real time; when it
// reports true the op ends as HANG at once instead of waiting for the real deadline (a scenario that can tell
// that it will never become quiescent, e.g. a goroutine spinning while virtual time stands still).
var GiveUp atomic.Pointer[func() bool]
