#!/bin/bash
# usage: tools/sweep.sh <tier> <seed> [ids...]   -- runs checks one after another and prints one line per check
# (used for unchanged-tree sweeps across seeds; not part of any registered command)
tier=$1; seed=$2; shift 2
ids=${*:-$(python3 -c "import json;print(' '.join(c['property_id'] for c in json.load(open('MANIFEST.json'))['checks']))")}
for c in $ids; do
  out=$(VERIF_SEED=$seed timeout 5400 ./check $c --tier $tier 2>/tmp/sweep_${c}.err | grep -v "^KNOWN-FINDING" | cut -c1-200 | tail -2 | tr '\n' ' ')
  echo "$c seed=$seed tier=$tier: $out"
done
