#!/usr/bin/env python3
"""Regenerates the machine-derived tables of DESIGN.md (between the STATUS-BEGIN / STATUS-END markers) from
props/*.py, evidence/*.json, known_findings.txt, seeded/*/results.txt and `git -C /repo log`."""
import importlib, json, os, re, subprocess, sys
HERE = os.path.dirname(os.path.dirname(os.path.abspath(__file__)))
sys.path.insert(0, HERE)
props = [json.loads(l) for l in open(os.path.join(HERE, "properties.jsonl"))]
man = json.load(open(os.path.join(HERE, "MANIFEST.json")))
claimed = {c["property_id"]: c for c in man["checks"]}
na = {x["property_id"]: x["reason"] for x in man["not_applicable"]}


def tie_of(pid):
    try:
        m = importlib.import_module("props." + pid)
    except Exception:
        return "", "", ""
    p = m.PROP if hasattr(m, "PROP") else None
    if p is None:
        return "", "", ""
    kinds = []
    if p.gen:
        kinds.append("T")
    if p.harness_kind == "test":
        kinds.append("H")
    else:
        kinds.append("D")
    return "+".join(kinds), p.partial, p.harness


out = []
out.append("| id | title | status | theorems (discharged/obligations) | tie | last run: tier, evaluations (non-trivial) | proved only in part |")
out.append("|---|---|---|---|---|---|---|")
for p in props:
    pid = p["id"]
    tie, partial, harness = tie_of(pid)
    evp = os.path.join(HERE, "evidence", pid + ".json")
    ev = json.load(open(evp)) if os.path.exists(evp) else None
    if pid in claimed:
        status = "claimed"
    elif os.path.exists(os.path.join(HERE, "props", pid + ".py")):
        status = "built, withdrawn for now"
    else:
        status = "not applicable" if pid == "C41" else "not built"
    th = run = ""
    if ev:
        c = ev["coverage"]
        th = "%s/%s" % (c.get("discharged"), c.get("obligations"))
        run = "%s, %s (%s)" % (ev["tier"], c.get("evaluations"), c.get("distinct_nontrivial"))
    out.append("| %s | %s | %s | %s | %s | %s | %s |" % (pid, p["title"], status, th, tie, run, (partial or "").replace("|", "/")[:400]))
out.append("")
out.append("Repaired defects (`fix:` commits in /repo, each found by the check of the property named):")
out.append("")
log = subprocess.run(["git", "-C", "/repo", "log", "--format=%h %s"], capture_output=True, text=True).stdout.splitlines()
fixes = [l for l in log if l.split(" ", 1)[1].startswith("fix:")][::-1]
kf = open(os.path.join(HERE, "known_findings.txt")).read().splitlines()
for f in fixes:
    h = f.split()[0]
    ps = sorted({m.group(1) for l in kf for m in [re.match(r"fixed: property=(\S+) " + h, l)] if m})
    out.append("* `%s` — %s" % (f, ", ".join(ps) or "?"))
out.append("")
out.append("Known findings (genuine, not repaired; `finding:` lines of known_findings.txt):")
out.append("")
for l in kf:
    m = re.match(r"finding: property=(\S+) key=(\S+) (.*)", l)
    if m:
        out.append("* %s `%s` — %s" % (m.group(1), m.group(2), m.group(3)[:260] + ("…" if len(m.group(3)) > 260 else "")))
out.append("")
sd = os.path.join(HERE, "seeded")
if os.path.isdir(sd):
    out.append("Seeded changes (independent authors, see §0.7) and the checks that catch them:")
    out.append("")
    out.append("| seeded change | breaks | needs to manifest | builds / baseline / demo(mod,pristine) | caught by |")
    out.append("|---|---|---|---|---|")
    for name in sorted(os.listdir(sd)):
        d = os.path.join(sd, name)
        mp = os.path.join(d, "meta.json")
        if not os.path.exists(mp):
            continue
        meta = json.load(open(mp))
        out.append("| %s | %s | %s | %s | %s |" % (name, meta.get("property"), meta.get("needs", "")[:300].replace("|", "/"),
                                                     meta.get("confirmed", ""), meta.get("caught_by", "")))
    out.append("")
hooks = [l for l in log if l.split(" ", 1)[1].startswith("verif hooks")][::-1]
out.append("Hook commits in /repo (build tag `verif`, add-only): " + ", ".join("`%s`" % h.split()[0] for h in hooks))
out.append("")
p = os.path.join(HERE, "DESIGN.md")
s = open(p).read()
a, b = s.index("<!-- STATUS-BEGIN -->"), s.index("<!-- STATUS-END -->")
s = s[:a] + "<!-- STATUS-BEGIN -->\n" + "\n".join(out) + "\n" + s[b:]
open(p, "w").write(s)
print("status written:", len(out), "lines")
